(** Property C02, third pass, item (3): the token-loop simulation for the lifted class [convx]/[wfx_items]
    (UnparseX.v).  Same architecture as UnparseProofs.v (whose command-independent lemmas are reused):
    one simulation lemma per item kind, for all states and any rest, then induction over the items.
    What is new: [--o=v]/[-o=v] need nothing of [require_equals] ([pov_attached_eq]); a separate value is
    compared with the terminator and found different; for an option with hyphen / negative-number values the
    value tokens go through the [MaybeHyphenValue] exits of [parse_long_arg]/[parse_short_arg] and the
    [--] test ([value_step_x]). *)
From ClapModel Require Import Base.Bytes Base.Machine Base.Utf8 Lex.OsStrExtModel Lex.OsStrExtProofs.
From ClapModel Require Import Parse.Cmd Parse.Build Parse.Valid Parse.Matcher Parse.Errors Parse.Validator Parse.Parser.
From ClapModel Require Import ParseProofs.Actions ParseProofs.ActionsLoop ParseProofs.Spelling ParseProofs.Unparse
                              ParseProofs.UnparseProofs ParseProofs.UnparseLift ParseProofs.UnparseX ParseProofs.Escape ParseProofs.LoopStep.
From Coq Require Import ZArith Lia List Bool.
From RecordUpdate Require Import RecordSet.
Import RecordSetNotations.
Import ListNotations.
Open Scope N_scope.

(** the old class is a special case *)
Lemma conv_arg_convx_arg a : conv_arg a = true -> convx_arg a = true.
Proof.
  unfold conv_arg, convx_arg. intros H.
  apply andb_prop in H. destruct H as [H H6]. apply andb_prop in H. destruct H as [H H5].
  apply andb_prop in H. destruct H as [H _]. apply andb_prop in H. destruct H as [H _].
  rewrite H5, H6. cbn [andb negb]. apply orb_true_r.
Qed.
Lemma conv_convx c : conv c = true -> convx c = true.
Proof.
  unfold conv, convx. intros H.
  apply andb_prop in H. destruct H as [H H5]. apply andb_prop in H. destruct H as [H H4].
  apply andb_prop in H. destruct H as [H H3]. apply andb_prop in H. destruct H as [H1 H2].
  rewrite H1, H2. cbn [andb negb].
  apply forallb_forall. intros a Ha. rewrite forallb_forall in H3. apply conv_arg_convx_arg. apply H3. exact Ha.
Qed.

Section SimX.
Variable c : cmd.
Hypothesis Hx : convx c = true.

Lemma convx_parts : assert_app c = true /\ is_set s_sub_precedence c = false /\ forallb convx_arg (c_args c) = true.
Proof.
  unfold convx in Hx.
  apply andb_prop in Hx. destruct Hx as [H H3]. apply andb_prop in H. destruct H as [H1 H2].
  split; [exact H1|]. split; [destruct (is_set s_sub_precedence c); [discriminate|reflexivity]|exact H3].
Qed.
Lemma convx_app : assert_app c = true.
Proof. apply convx_parts. Qed.
Lemma convx_sp : is_set s_sub_precedence c = false.
Proof. apply convx_parts. Qed.
Lemma convx_args a : In a (c_args c) -> a_index a = None -> a_last a = false /\ a_tva a = false.
Proof.
  intros Ha Hi. destruct convx_parts as [_ [_ H]].
  rewrite forallb_forall in H. specialize (H a Ha). unfold convx_arg in H.
  rewrite Hi in H. cbn [is_some orb] in H. apply andb_prop in H. destruct H as [H1 H2].
  destruct (a_last a); [discriminate|]. destruct (a_tva a); [discriminate|]. split; reflexivity.
Qed.
(** where the look-ahead is off, the counter correction of the delivery phase is the identity before [--] *)
Definition lookahead_off (pos : N) : Prop := forall vaf (rest : list bytes) pst, pc_part c rest (mkL pst pos vaf false) = ROk pos.
Lemma lookahead_off_of pos : lookahead_at c pos = false -> lookahead_off pos.
Proof.
  intros H vaf rest pst. unfold pc_part. cbn [l_pos l_trailing l_vaf]. cbv zeta.
  unfold lookahead_at, low_index_mults_any, is_terminated in H.
  assert (E : (((pos + 1 =? positional_count c)
                && existsb (fun a => a_is_multiple a && negb (positional_count c =? opt_default 0 (a_index a))) (positionals c)
                && match last (map Some (positionals c)) None with Some p => negb (a_last p) | None => false end
                || is_set s_allow_missing_pos c && (pos + 1 =? positional_count c) && negb false)
               && negb match get_pos c pos with Some a => is_some (a_term a) | None => false end) = false).
  { destruct (pos + 1 =? positional_count c); destruct (existsb _ (positionals c));
      destruct (match last (map Some (positionals c)) None with Some p => negb (a_last p) | None => false end);
      destruct (is_set s_allow_missing_pos c);
      destruct (match get_pos c pos with Some a => is_some (a_term a) | None => false end); cbn in *; congruence. }
  rewrite E. reflexivity.
Qed.

Lemma find_arg_self_x a : In a (c_args c) -> find_arg c (a_id a) = Some a.
Proof.
  intros Ha. destruct (find_arg c (a_id a)) as [b|] eqn:E.
  - destruct (find_arg_in c _ _ E) as [Hb Eb]. f_equal. apply (ids_unique c b a convx_app Hb Ha Eb).
  - unfold find_arg in E. pose proof (find_none _ _ E a Ha) as N. cbn beta in N. rewrite beq_refl in N. discriminate.
Qed.

(** ** the parse state between items: an open option / positional run never takes hyphen values *)
Definition pst_okx (pst : pstate_t) : Prop :=
  match pst with
  | PSValuesDone => True
  | PSOpt i | PSPos i => exists a, find_arg c i = Some a /\ a_hyphen a = false /\ a_negnum a = false
  end.

Lemma state_arg_okx pst : pst_okx pst ->
  exists sa, state_arg c pst = ROk sa /\
    match sa with Some a => a_hyphen a = false /\ a_negnum a = false | None => True end.
Proof.
  destruct pst as [|i|i]; cbn [pst_okx state_arg].
  - intros _. exists None. split; [reflexivity|exact I].
  - intros [a [Ha H]]. rewrite Ha. cbn [expect rbind]. exists (Some a). split; [reflexivity|exact H].
  - intros [a [Ha H]]. rewrite Ha. cbn [expect rbind]. exists (Some a). split; [reflexivity|exact H].
Qed.

Lemma opt_pst_okx a k : In a (c_args c) -> closed_x a k = true -> pst_okx (opt_pst a k).
Proof.
  intros Ha Hc. unfold opt_pst. unfold closed_x in Hc. destruct (a_num a) as [r|]; [|exact I].
  destruct (r_accepts_more r (N.of_nat k)) eqn:E; [|exact I].
  exists a. split; [apply find_arg_self_x; exact Ha|].
  destruct (a_hyphen a); [discriminate|]. destruct (a_negnum a); [discriminate|]. split; reflexivity.
Qed.

(** ** [parse_long_arg] on a known long name *)
Lemma pla_found_x (f : bytes) (v : option bytes) pst pos vaf st a :
  pst_okx pst -> (f <> [] \/ v <> None) -> get_long c f = Some a ->
  parse_long_arg c f true v pst pos vaf st = parse_long_found c f v pos vaf st (Some a).
Proof.
  intros Hp Hne Hg. rewrite parse_long_arg_unfold.
  destruct (state_arg_okx pst Hp) as [sa [Es Hsa]]. rewrite Es. cbn [rbind].
  assert (E1 : match sa with Some a0 => a_hyphen a0 | None => false end = false).
  { destruct sa as [a0|]; [apply Hsa|reflexivity]. }
  rewrite E1. cbn [negb].
  assert (E2 : is_nil f && negb (is_some v) = false).
  { destruct Hne as [H|H]; [destruct f; [contradiction|reflexivity]|].
    destruct v; [apply andb_false_r|contradiction]. }
  rewrite E2. rewrite (long_exact_wins c f a Hg). reflexivity.
Qed.

(** [--name], a flag *)
Lemma loop_long_flag_x (n : bytes) a (rest : list bytes) pst pos vaf st :
  pst_okx pst -> nosub c (DASH :: DASH :: n) = true -> name_ok n = true ->
  get_long c n = Some a -> a_takes_value a = false ->
  parse_loop c ((DASH :: DASH :: n) :: rest) (mkL pst pos vaf false) st =
  (do st1 <- flag_step c ILong a st; parse_loop c rest (mkL PSValuesDone pos true false) st1).
Proof.
  intros Hp Hn Hk Hg Htv. destruct (name_ok_parts n Hk) as [Hne _].
  assert (HR : parse_long_arg c n true None pst pos vaf st =
               (do x <- react c (Some ILong) SCmdLine a [] None st; ROk (fst x, snd x, true))).
  { rewrite (pla_found_x n None pst pos vaf st a Hp (or_introl Hne) Hg). unfold parse_long_found. rewrite Htv. reflexivity. }
  etransitivity; [exact (loop_long_tok c _ n true None rest pst pos vaf st _ Hn (is_escape_long n Hne) (to_long_plain n Hk)
                           HR (react_done c ILong a [] st))|].
  unfold flag_step.
  destruct (react c (Some ILong) SCmdLine a [] None st) as [[s0 p0]|e s|k] eqn:E; cbn [rbind fst snd]; try reflexivity.
  unfold after_flag_k. cbn [fst snd]. rewrite (react_ok_pr _ _ _ _ _ _ _ _ _ E). reflexivity.
Qed.

(** an attached value introduced by [=]: [require_equals] is satisfied, whatever it says *)
Lemma pov_attached_eq idn v a st :
  parse_opt_value c idn (Some v) a true st = (do x <- react c (Some idn) SCmdLine a [v] None st; ROk (fst x, PRValuesDone)).
Proof. unfold parse_opt_value. cbn [negb]. rewrite andb_false_r. reflexivity. Qed.

(** [--name=value]: any option, [require_equals] or not *)
Lemma loop_long_eq_x (n v : bytes) a (rest : list bytes) pst pos vaf st :
  pst_okx pst -> nosub c (DASH :: DASH :: n ++ EQ :: v) = true -> name_ok n = true ->
  get_long c n = Some a -> a_takes_value a = true ->
  parse_loop c ((DASH :: DASH :: n ++ EQ :: v) :: rest) (mkL pst pos vaf false) st =
  (do st1 <- att_step c ILong a v st; parse_loop c rest (mkL PSValuesDone pos true false) st1).
Proof.
  intros Hp Hn Hk Hg Htv. destruct (name_ok_parts n Hk) as [Hne _].
  assert (Hesc : is_escape (DASH :: DASH :: n ++ EQ :: v) = false).
  { destruct n as [|b t]; [contradiction|]. apply (is_escape_long ((b :: t) ++ EQ :: v)). discriminate. }
  assert (HR : parse_long_arg c n true (Some v) pst pos vaf st =
               (do x <- react c (Some ILong) SCmdLine a [v] None st; ROk (fst x, PRValuesDone, true))).
  { rewrite (pla_found_x n (Some v) pst pos vaf st a Hp (or_introl Hne) Hg). unfold parse_long_found. rewrite Htv.
    cbn [is_some]. rewrite pov_attached_eq.
    destruct (react c (Some ILong) SCmdLine a [v] None st) as [[s0 p0]|e s|k]; reflexivity. }
  assert (HD : done_or_opt (do x <- react c (Some ILong) SCmdLine a [v] None st; ROk (fst x, PRValuesDone, true))).
  { intros st1 pr vaf1. destruct (react c (Some ILong) SCmdLine a [v] None st) as [[s0 p0]|e s|k]; cbn [rbind]; try discriminate.
    intros H; inversion H; subst. left. reflexivity. }
  etransitivity; [exact (loop_long_tok c _ n true (Some v) rest pst pos vaf st _ Hn Hesc (to_long_eq n v Hk) HR HD)|].
  unfold att_step.
  destruct (react c (Some ILong) SCmdLine a [v] None st) as [[s0 p0]|e s|k] eqn:E; cbn [rbind fst snd]; reflexivity.
Qed.

(** [--name] of an option without [require_equals]: the occurrence is opened *)
Lemma loop_long_open_x (n : bytes) a (rest : list bytes) pst pos vaf st :
  pst_okx pst -> nosub c (DASH :: DASH :: n) = true -> name_ok n = true ->
  get_long c n = Some a -> a_takes_value a = true -> a_req_eq a = false ->
  parse_loop c ((DASH :: DASH :: n) :: rest) (mkL pst pos vaf false) st =
  (do st1 <- sep_step c ILong a [] st; parse_loop c rest (mkL (PSOpt (a_id a)) pos true false) st1).
Proof.
  intros Hp Hn Hk Hg Htv Hre. destruct (name_ok_parts n Hk) as [Hne _].
  assert (HR : parse_long_arg c n true None pst pos vaf st =
               (do x <- (do st1 <- sep_step c ILong a [] st; ROk (st1, PROpt (a_id a))); ROk (fst x, snd x, true))).
  { rewrite (pla_found_x n None pst pos vaf st a Hp (or_introl Hne) Hg). unfold parse_long_found. rewrite Htv.
    cbn [is_some]. rewrite pov_open by exact Hre. reflexivity. }
  etransitivity; [exact (loop_long_tok c _ n true None rest pst pos vaf st _ Hn (is_escape_long n Hne) (to_long_plain n Hk) HR (sep_done c ILong a st))|].
  destruct (sep_step c ILong a [] st) as [s0|e s|k]; cbn [rbind fst snd]; reflexivity.
Qed.

(** ** value tokens of an open occurrence *)
Lemma take_value_open_x a idn (vs : list bytes) (v : bytes) st r : In a (c_args c) -> a_num a = Some r ->
  take_value c (a_id a) v (set_pending (a_id a) idn vs st) =
  ROk (set_pending (a_id a) idn (vs ++ [v]) st, r_accepts_more r (N.of_nat (length (vs ++ [v])))).
Proof.
  intros Ha Hr. unfold take_value. rewrite (find_arg_self_x a Ha). cbn [expect rbind].
  assert (PV : pending_values_push (mt (set_pending (a_id a) idn vs st)) (a_id a) None false (Some v) =
               Some ((mt (set_pending (a_id a) idn vs st)) <| mt_pending := Some (mkPending (a_id a) (Some idn) (vs ++ [v]) None) |>)).
  { unfold pending_values_push, set_pending. destruct st as [m ci fa fk]. destruct m. cbn. rewrite beq_refl. reflexivity. }
  rewrite PV. cbn [expect rbind]. unfold needs_more_vals. rewrite Hr.
  replace (mt_pending ((mt (set_pending (a_id a) idn vs st)) <| mt_pending := Some (mkPending (a_id a) (Some idn) (vs ++ [v]) None) |>))
    with (Some (mkPending (a_id a) (Some idn) (vs ++ [v]) None)) by (destruct st as [m ci fa fk]; destruct m; reflexivity).
  cbn [p_id p_raw]. rewrite beq_refl. cbn [expect rbind]. rewrite set_pending_again. reflexivity.
Qed.

(** THE VALUE STEP for the lifted class: while the option [a] is open, a token that is a plain value, or
    any token if [a] takes hyphen values, or [-<number>] if [a] takes negative numbers, is compared with
    the terminator and otherwise handed to [a] *)
Lemma value_step_x a (tok : bytes) (rest : list bytes) pos vaf st : In a (c_args c) ->
  (a_hyphen a || value_ok tok || (a_negnum a && negnum_tok tok)) = true ->
  parse_loop c (tok :: rest) (mkL (PSOpt (a_id a)) pos vaf false) st =
  (if check_terminator a tok then parse_loop c rest (mkL PSValuesDone pos vaf false) st
   else do y <- take_value c (a_id a) tok st;
        parse_loop c rest (mkL (if snd y then PSOpt (a_id a) else PSValuesDone) pos vaf false) (fst y)).
Proof.
  intros Ha Hv. pose proof (find_arg_self_x a Ha) as FA.
  assert (SA : state_arg c (PSOpt (a_id a)) = ROk (Some a)) by (cbn [state_arg]; rewrite FA; reflexivity).
  assert (PSh : forall r, a_hyphen a || (a_negnum a && sf_is_negative_number r) = true ->
            parse_short_arg c r (PSOpt (a_id a)) pos vaf st = ROk (st, PRMaybeHyphen, vaf)).
  { intros r Hh. unfold parse_short_arg. rewrite SA. cbn [rbind]. rewrite Hh. reflexivity. }
  assert (PLh : forall f ok lv, a_hyphen a = true ->
            parse_long_arg c f ok lv (PSOpt (a_id a)) pos vaf st = ROk (st, PRMaybeHyphen, vaf)).
  { intros f ok lv Hh. rewrite parse_long_arg_unfold, SA. cbn [rbind]. rewrite Hh. reflexivity. }
  unfold take_value. rewrite FA. cbn [expect rbind].
  cbn [parse_loop l_trailing l_pst l_pos l_vaf]. rewrite convx_sp. cbn [orb].
  destruct (is_escape tok) eqn:E.
  - (* [--]: a value only because [a] takes hyphen values *)
    assert (Hh : a_hyphen a = true).
    { unfold value_ok, negnum_tok in Hv. rewrite E in Hv. cbn [negb andb] in Hv. rewrite andb_false_r, !orb_false_r in Hv. exact Hv. }
    rewrite SA. cbn [rbind]. rewrite Hh. cbn [rbind]. cbn [l_trailing l_pst l_pos l_vaf]. rewrite FA. cbn [expect rbind].
    destruct (check_terminator a tok); [reflexivity|].
    destruct (pending_values_push (mt st) (a_id a) None false (Some tok)) as [m1|]; cbn [expect rbind]; [|reflexivity].
    destruct (needs_more_vals m1 a) as [more|]; cbn [expect rbind fst snd]; reflexivity.
  - destruct (to_long tok) as [[[f ok] lv]|] eqn:TL.
    + assert (Hh : a_hyphen a = true).
      { unfold value_ok, negnum_tok in Hv. rewrite TL in Hv. cbn [is_some negb andb] in Hv.
        rewrite !andb_false_r, !orb_false_r in Hv. exact Hv. }
      rewrite (PLh f ok lv Hh). cbn [rbind fst snd]. cbn [l_trailing l_pst l_pos l_vaf]. rewrite FA. cbn [expect rbind].
      destruct (check_terminator a tok); [reflexivity|].
      destruct (pending_values_push (mt st) (a_id a) None false (Some tok)) as [m1|]; cbn [expect rbind]; [|reflexivity].
      destruct (needs_more_vals m1 a) as [more|]; cbn [expect rbind fst snd]; reflexivity.
    + destruct (to_short tok) as [r|] eqn:TS.
      * assert (Hh : a_hyphen a || (a_negnum a && sf_is_negative_number r) = true).
        { unfold value_ok, negnum_tok in Hv. rewrite E, TL, TS in Hv. cbn [is_some negb andb] in Hv.
          rewrite orb_false_r in Hv. exact Hv. }
        rewrite (PSh r Hh). cbn [rbind fst snd]. cbn [l_trailing l_pst l_pos l_vaf]. rewrite FA. cbn [expect rbind].
        destruct (check_terminator a tok); [reflexivity|].
        destruct (pending_values_push (mt st) (a_id a) None false (Some tok)) as [m1|]; cbn [expect rbind]; [|reflexivity].
        destruct (needs_more_vals m1 a) as [more|]; cbn [expect rbind fst snd]; reflexivity.
      * cbn [rbind]. cbn [l_trailing l_pst l_pos l_vaf]. rewrite FA. cbn [expect rbind].
        destruct (check_terminator a tok); [reflexivity|].
        destruct (pending_values_push (mt st) (a_id a) None false (Some tok)) as [m1|]; cbn [expect rbind]; [|reflexivity].
        destruct (needs_more_vals m1 a) as [more|]; cbn [expect rbind fst snd]; reflexivity.
Qed.

Lemma val_x_parts a v : val_x a v = true ->
  check_terminator a v = false /\ (a_hyphen a || value_ok v || (a_negnum a && negnum_tok v)) = true.
Proof.
  unfold val_x. intros H. apply andb_prop in H. destruct H as [H1 H2].
  split; [destruct (check_terminator a v); [discriminate|reflexivity]|exact H2].
Qed.

Lemma loop_values_x a idn r (rest : list bytes) pos vaf st : In a (c_args c) -> a_num a = Some r ->
  forall (vs vs0 : list bytes), forallb (val_x a) vs = true ->
  N.of_nat (length vs0 + length vs) <= vmax r -> N.of_nat (length vs0) < vmax r ->
  parse_loop c (vs ++ rest) (mkL (PSOpt (a_id a)) pos vaf false) (set_pending (a_id a) idn vs0 st) =
  parse_loop c rest (mkL (opt_pst a (length vs0 + length vs)) pos vaf false) (set_pending (a_id a) idn (vs0 ++ vs) st).
Proof.
  intros Ha Hr.
  induction vs as [|v vs IH]; intros vs0 Hv Hc Hlt.
  - cbn [app length]. rewrite Nat.add_0_r, app_nil_r. unfold opt_pst. rewrite Hr. unfold r_accepts_more.
    apply N.ltb_lt in Hlt. rewrite Hlt. reflexivity.
  - cbn [forallb] in Hv. apply andb_prop in Hv. destruct Hv as [Hv Hvs].
    destruct (val_x_parts a v Hv) as [Hterm Hval].
    cbn [app]. rewrite (value_step_x a v (vs ++ rest) pos vaf _ Ha Hval). rewrite Hterm.
    rewrite (take_value_open_x a idn vs0 v st r Ha Hr). cbn [rbind fst snd].
    cbn [length] in Hc.
    assert (L : length (vs0 ++ [v]) = S (length vs0)) by (rewrite app_length; cbn [length]; lia).
    destruct vs as [|v' vs'].
    + cbn [app length]. unfold opt_pst. rewrite Hr. rewrite L. replace (length vs0 + 1)%nat with (S (length vs0)) by lia.
      rewrite ?app_nil_r. reflexivity.
    + assert (Hm : r_accepts_more r (N.of_nat (length (vs0 ++ [v]))) = true).
      { unfold r_accepts_more. apply N.ltb_lt. rewrite L. cbn [length] in Hc. lia. }
      rewrite Hm. rewrite (IH (vs0 ++ [v]) Hvs).
      * rewrite L, <- app_assoc. cbn [app length]. replace (S (length vs0) + S (length vs'))%nat with (length vs0 + S (S (length vs')))%nat by lia.
        reflexivity.
      * rewrite L. cbn [length] in *. lia.
      * rewrite L. cbn [length] in Hc. lia.
Qed.

Lemma sep_step_values_x idn a (vs : list bytes) st (rest : list bytes) pos vaf :
  In a (c_args c) -> a_takes_value a = true -> count_ok a (length vs) = true -> forallb (val_x a) vs = true ->
  (do st1 <- sep_step c idn a [] st; parse_loop c (vs ++ rest) (mkL (PSOpt (a_id a)) pos vaf false) st1) =
  (do st1 <- sep_step c idn a vs st; parse_loop c rest (mkL (opt_pst a (length vs)) pos vaf false) st1).
Proof.
  intros Ha Htv Hc Hv. destruct (count_ok_parts a _ Htv Hc) as [r [Hr [Hle Hpos]]].
  unfold sep_step. destruct (resolve_pending c st) as [st1|e s|n]; cbn [rbind]; try reflexivity.
  rewrite (loop_values_x a idn r rest pos vaf st1 Ha Hr vs [] Hv); cbn [length app Nat.add]; try assumption. reflexivity.
Qed.

Lemma sepx_ok_parts (o : option arg) vs : sepx_ok o vs = true -> exists a, o = Some a /\ a_takes_value a = true /\
  count_ok a (length vs) = true /\ a_req_eq a = false /\ forallb (val_x a) vs = true /\ closed_x a (length vs) = true.
Proof.
  destruct o as [a|]; [|discriminate]. cbn [sepx_ok]. intros H. apply andb_prop in H. destruct H as [H H5].
  apply andb_prop in H. destruct H as [H H4]. apply andb_prop in H. destruct H as [H H3].
  apply andb_prop in H. destruct H as [H1 H2]. exists a.
  split; [reflexivity|]. split; [exact H1|]. split; [exact H2|].
  split; [destruct (a_req_eq a); [discriminate|reflexivity]|]. split; assumption.
Qed.
Lemma attx_ok_parts (o : option arg) : attx_ok o = true -> exists a, o = Some a /\ a_takes_value a = true /\ a_req_eq a = false.
Proof.
  destruct o as [a|]; [|discriminate]. cbn [attx_ok]. intros H. apply andb_prop in H. destruct H as [H1 H2].
  exists a. split; [reflexivity|]. split; [exact H1|]. destruct (a_req_eq a); [discriminate|reflexivity].
Qed.

Lemma loop_long_sep_x (n : bytes) (vs : list bytes) a (rest : list bytes) pst pos vaf st :
  pst_okx pst -> nosub c (DASH :: DASH :: n) = true -> name_ok n = true ->
  get_long c n = Some a -> sepx_ok (Some a) vs = true ->
  parse_loop c (((DASH :: DASH :: n) :: vs) ++ rest) (mkL pst pos vaf false) st =
  (do st1 <- sep_step c ILong a vs st; parse_loop c rest (mkL (opt_pst a (length vs)) pos true false) st1).
Proof.
  intros Hp Hn Hk Hg Hs. destruct (sepx_ok_parts _ _ Hs) as [a' [Ea [Htv [Hc [Hre [Hv _]]]]]]. inversion Ea; subst a'.
  cbn [app]. etransitivity; [exact (loop_long_open_x n a (vs ++ rest) pst pos vaf st Hp Hn Hk Hg Htv Hre)|].
  apply sep_step_values_x; try assumption. apply (get_long_in c n a Hg).
Qed.

(** ** short clusters *)
Lemma psa_start_x (r : bytes) pst pos vaf st : pst_okx pst -> fs_skip st = 0 -> cluster_clear c pos r = true ->
  parse_short_arg c r pst pos vaf st = short_loop c (S (length r)) r PRNoArg vaf st.
Proof.
  intros Hp Hskip Hcc. unfold parse_short_arg.
  unfold cluster_clear, pos_negnum, pos_hyphen in Hcc. apply andb_prop in Hcc. destruct Hcc as [Hc1 Hc2].
  apply negb_true_iff in Hc1. apply negb_true_iff in Hc2.
  destruct (state_arg_okx pst Hp) as [sa [Es Hsa]]. rewrite Es. cbn [rbind].
  assert (E1 : match sa with Some a => a_hyphen a || (a_negnum a && sf_is_negative_number r) | None => false end = false).
  { destruct sa as [a0|]; [|reflexivity]. destruct Hsa as [H1 H2]. rewrite H1, H2. reflexivity. }
  rewrite E1.
  rewrite Hc1, Hc2.
  rewrite Hskip. rewrite N.min_0_l. cbn [N.to_nat sf_advance_by expect rbind].
  assert (Est : st <| fs_skip := 0 |> = st) by (destruct st; cbn in Hskip; subst; reflexivity).
  rewrite Est. reflexivity.
Qed.

Lemma short_loop_eq_attached_x f (r : bytes) ch a (v : bytes) ret vaf st :
  sf_next r = Some (inl ch, EQ :: v) -> get_short c ch = Some a -> a_takes_value a = true ->
  short_loop c (S f) r ret vaf st =
  (do x <- react c (Some IShort) SCmdLine a [v] None st; ROk (fst x, PRValuesDone, true)).
Proof.
  intros N GS TV. cbn [short_loop]. rewrite N, GS, TV. cbn [negb]. unfold EQ.
  cbv beta iota zeta. rewrite pov_attached_eq.
  destruct (react c (Some IShort) SCmdLine a [v] None st) as [x|e s|n]; reflexivity.
Qed.

Lemma short_loop_tail_x t ret vaf st : wfx_tail c t = true -> (t = TNone -> ret = PRValuesDone /\ vaf = true) ->
  short_loop c (S (length (tail_bytes t))) (tail_bytes t) ret vaf st = tail_res c t st.
Proof.
  intros Hw Hn. destruct t as [|o v|o v|o vs]; cbn [tail_bytes tail_res wfx_tail] in *.
  - destruct (Hn eq_refl) as [-> ->]. reflexivity.
  - apply andb_prop in Hw. destruct Hw as [Hw H4]. apply andb_prop in Hw. destruct Hw as [Hw H3]. apply andb_prop in Hw. destruct Hw as [H1 H2].
    destruct (short_ok_parts o H1) as [L _]. destruct (attx_ok_parts _ H2) as [a [Hg [Htv Hre]]]. rewrite Hg.
    destruct v as [|b t]; [discriminate|]. cbn [hd] in H4.
    assert (Hb : b <> 61). { intros ->. discriminate. }
    rewrite (short_loop_opt_attached c _ (utf8_encode o ++ b :: t) o a b t ret vaf st (sf_next_enc o _ L) Hb Hg Htv Hre).
    rewrite parse_opt_value_attached by exact Hre. unfold att_step. unfold bytes in *.
    destruct (react c (Some IShort) SCmdLine a [b :: t] None st) as [x|e s|n]; reflexivity.
  - apply andb_prop in Hw. destruct Hw as [H1 H2].
    destruct (short_ok_parts o H1) as [L _]. destruct (is_opt_parts _ H2) as [a [Hg Htv]]. rewrite Hg.
    rewrite (short_loop_eq_attached_x _ (utf8_encode o ++ EQ :: v) o a v ret vaf st (sf_next_enc o _ L) Hg Htv).
    unfold att_step. destruct (react c (Some IShort) SCmdLine a [v] None st) as [x|e s|n]; reflexivity.
  - apply andb_prop in Hw. destruct Hw as [H1 H2].
    destruct (short_ok_parts o H1) as [L _]. destruct (sepx_ok_parts _ _ H2) as [a [Hg [Htv [_ [Hre _]]]]]. rewrite Hg.
    rewrite (short_loop_opt_alone c _ (utf8_encode o) o a ret vaf st (sf_next_enc0 o L) Hg Htv).
    rewrite pov_open by exact Hre.
    destruct (sep_step c IShort a [] st) as [x|e s|n]; reflexivity.
Qed.

Lemma psa_cluster_x fl t pst pos vaf st :
  pst_okx pst -> fs_skip st = 0 -> forallb (cl_flag c) fl = true -> wfx_tail c t = true ->
  (is_nil fl && match t with TNone => true | _ => false end) = false ->
  cluster_clear c pos (enc_shorts fl ++ tail_bytes t) = true ->
  parse_short_arg c (enc_shorts fl ++ tail_bytes t) pst pos vaf st = (do st' <- flags_step c fl st; tail_res c t st').
Proof.
  intros Hp Hskip Hfl Hw Hne Hcc. rewrite (psa_start_x _ pst pos vaf st Hp Hskip Hcc).
  rewrite (short_loop_flags c fl (tail_bytes t) _ PRNoArg vaf st Hfl) by lia.
  destruct (flags_step c fl st) as [st'|e s|n]; cbn [rbind]; try reflexivity.
  apply short_loop_tail_x; [exact Hw|]. intros ->. destruct fl; [discriminate|]. split; reflexivity.
Qed.

Lemma cluster_head_x fl t : forallb (cl_flag c) fl = true -> wfx_tail c t = true ->
  (is_nil fl && match t with TNone => true | _ => false end) = false ->
  exists ch r, enc_shorts fl ++ tail_bytes t = ch :: r /\ ch <> DASH.
Proof.
  intros Hfl Hw Hne. destruct fl as [|ch fl].
  - cbn [enc_shorts flat_map app].
    destruct t as [|o v|o v|o vs]; cbn [tail_bytes app wfx_tail] in *; [discriminate| | |].
    + apply andb_prop in Hw. destruct Hw as [Hw _]. apply andb_prop in Hw. destruct Hw as [Hw _]. apply andb_prop in Hw. destruct Hw as [H1 _].
      destruct (enc_head o (proj2 (short_ok_parts o H1))) as [b [t0 [E D]]]. rewrite E. exists b, (t0 ++ v). split; [reflexivity|exact D].
    + apply andb_prop in Hw. destruct Hw as [H1 _].
      destruct (enc_head o (proj2 (short_ok_parts o H1))) as [b [t0 [E D]]]. rewrite E. exists b, (t0 ++ EQ :: v). split; [reflexivity|exact D].
    + apply andb_prop in Hw. destruct Hw as [H1 _].
      destruct (enc_head o (proj2 (short_ok_parts o H1))) as [b [t0 [E D]]]. rewrite E. exists b, t0. split; [reflexivity|exact D].
  - cbn [forallb] in Hfl. apply andb_prop in Hfl. destruct Hfl as [Hch _].
    destruct (cl_flag_parts c ch Hch) as [_ [D _]]. destruct (enc_head ch D) as [b [t0 [E Db]]].
    unfold enc_shorts. cbn [flat_map]. rewrite E. exists b, ((t0 ++ flat_map utf8_encode fl) ++ tail_bytes t).
    split; [reflexivity|exact Db].
Qed.

Lemma tail_step_values_x t st (rest : list bytes) pos : wfx_tail c t = true ->
  (do x <- tail_res c t st; after_flag_k c (tail_vals t ++ rest) pos x) =
  (do st1 <- tail_step c t st; parse_loop c rest (mkL (item_pst c pos (ItCluster [] t)) pos true false) st1).
Proof.
  intros Hw. destruct t as [|o v|o v|o vs]; cbn [tail_res tail_step tail_vals item_pst wfx_tail app] in *.
  - reflexivity.
  - apply andb_prop in Hw. destruct Hw as [Hw _]. apply andb_prop in Hw. destruct Hw as [Hw _]. apply andb_prop in Hw. destruct Hw as [_ H2].
    destruct (attx_ok_parts _ H2) as [a [Hg _]]. rewrite Hg.
    destruct (att_step c IShort a v st) as [s0|e s|k]; reflexivity.
  - apply andb_prop in Hw. destruct Hw as [_ H2].
    destruct (is_opt_parts _ H2) as [a [Hg _]]. rewrite Hg.
    destruct (att_step c IShort a v st) as [s0|e s|k]; reflexivity.
  - apply andb_prop in Hw. destruct Hw as [_ H2].
    destruct (sepx_ok_parts _ _ H2) as [a [Hg [Htv [Hc [_ [Hv _]]]]]]. rewrite Hg.
    rewrite <- (sep_step_values_x IShort a vs st rest pos true (get_short_in c o a Hg) Htv Hc Hv).
    destruct (sep_step c IShort a [] st) as [s0|e s|k]; reflexivity.
Qed.

Lemma loop_cluster_x fl t (rest : list bytes) pst pos vaf st :
  pst_okx pst -> fs_skip st = 0 -> nosub c (DASH :: enc_shorts fl ++ tail_bytes t) = true ->
  forallb (cl_flag c) fl = true -> wfx_tail c t = true ->
  (is_nil fl && match t with TNone => true | _ => false end) = false ->
  cluster_clear c pos (enc_shorts fl ++ tail_bytes t) = true ->
  parse_loop c (render_item (ItCluster fl t) ++ rest) (mkL pst pos vaf false) st =
  (do st1 <- apply_item c pos (ItCluster fl t) st; parse_loop c rest (mkL (item_pst c pos (ItCluster fl t)) pos true false) st1).
Proof.
  intros Hp Hskip Hn Hfl Hw Hne Hcc. rewrite render_cluster. cbn [app].
  destruct (cluster_head_x fl t Hfl Hw Hne) as [ch [r [Er Hd]]].
  destruct (lex_short ch r Hd) as [L1 [L2 L3]]. rewrite <- Er in L1, L2, L3.
  etransitivity; [exact (loop_short_tok c _ _ (tail_vals t ++ rest) pst pos vaf st _ Hn L1 L2 L3
                           (psa_cluster_x fl t pst pos vaf st Hp Hskip Hfl Hw Hne Hcc) (cluster_done c fl t st))|].
  cbn [apply_item]. destruct (flags_step c fl st) as [st'|e s|n]; cbn [rbind]; try reflexivity.
  rewrite (tail_step_values_x t st' rest pos Hw). destruct t; reflexivity.
Qed.

(** ** positional values *)
(** a token that passes the classification phase untouched *)
Lemma phase1_value rec (v : bytes) (rest : list bytes) pst pos vaf st :
  (match pst with PSValuesDone => nosub c v = true | _ => True end) -> value_ok v = true ->
  phase1 c rec v rest (mkL pst pos vaf false) st = ROk (None, mkL pst pos vaf false, st).
Proof.
  intros Hn Hv. destruct (value_ok_parts v Hv) as [E1 [E2 E3]]. destruct convx_parts as [_ [Hsp _]].
  unfold phase1. cbn [l_trailing l_pst l_vaf l_pos].
  assert (Hs : (if is_set s_sub_precedence c || match pst with PSValuesDone => true | _ => false end
                then possible_subcommand c v vaf else None) = None).
  { rewrite Hsp. cbn [orb]. destruct pst; try reflexivity. apply (nosub_if c v vaf true Hn). }
  rewrite Hs, E1, E2, E3. reflexivity.
Qed.
(** the delivery phase, given what the counter correction answers *)
Lemma pos_deliver_at (v : bytes) (rest : list bytes) pst pos pc' vaf st a :
  match pst with PSOpt _ => False | _ => True end -> pc_part c rest (mkL pst pos vaf false) = ROk pc' -> get_pos c pc' = Some a ->
  check_terminator a v = false -> a_last a = false -> a_tva a = false ->
  phase2 c (parse_loop c rest) v rest (mkL pst pos vaf false) st = pos_step_k c a v rest pc' st.
Proof.
  intros Hp Hpc Hg Hterm Hlast Htva. unfold phase2. cbn [l_trailing l_pst].
  assert (E : pos_part c (parse_loop c rest) v rest (mkL pst pos vaf false) st = pos_step_k c a v rest pc' st).
  { unfold pos_part. rewrite Hpc. cbn [rbind]. cbn [l_trailing l_pst l_vaf l_pos].
    rewrite Hg, Hlast, Htva. cbn [andb orb]. rewrite Hterm. unfold pos_step_k. reflexivity. }
  destruct pst; [exact E|contradiction|exact E].
Qed.
(** ... at a counter where the look-ahead is off *)
Lemma pos_deliver (v : bytes) (rest : list bytes) pst pos vaf st a :
  match pst with PSOpt _ => False | _ => True end -> lookahead_off pos -> get_pos c pos = Some a ->
  check_terminator a v = false -> a_last a = false -> a_tva a = false ->
  phase2 c (parse_loop c rest) v rest (mkL pst pos vaf false) st = pos_step_k c a v rest pos st.
Proof. intros Hp Hlow. apply pos_deliver_at; [exact Hp|apply Hlow]. Qed.

Lemma pos_branch_x (v : bytes) (rest : list bytes) pst pos vaf st a :
  match pst with PSOpt _ => False | _ => True end ->
  (match pst with PSValuesDone => nosub c v = true | _ => True end) -> value_ok v = true -> get_pos c pos = Some a ->
  check_terminator a v = false -> a_last a = false -> a_tva a = false -> lookahead_off pos ->
  parse_loop c (v :: rest) (mkL pst pos vaf false) st = pos_step_k c a v rest pos st.
Proof.
  intros Hp Hn Hv Hg Hterm Hlast Htva Hlow. rewrite parse_loop_step.
  rewrite (phase1_value (parse_loop c rest) v rest pst pos vaf st Hn Hv). cbn [rbind].
  apply pos_deliver; assumption.
Qed.

Lemma pos_first_x (v : bytes) (rest : list bytes) pst pos st a : get_pos c pos = Some a ->
  match pst with PSPos _ => a_multiple_values a = false | _ => True end -> pend_inv c pst st ->
  pos_step_k c a v rest pos st =
  (do st1 <- sep_step c IIndex a [v] st;
   parse_loop c rest (mkL (if a_is_multiple a then PSPos (a_id a) else PSValuesDone)
                          (if a_is_multiple a then pos else pos + 1) true false) st1).
Proof.
  intros Hg Hp Hi. pose proof (get_pos_in c pos a Hg) as Ha.
  assert (Hc : negb (match pending_arg_id (mt st) with Some i => beq i (a_id a) | None => false end)
               || negb (a_multiple_values a) = true).
  { destruct (a_multiple_values a) eqn:Em; [|apply orb_true_r]. rewrite orb_false_r.
    unfold pending_arg_id. destruct (mt_pending (mt st)) as [p|] eqn:Ep; [|reflexivity]. cbn [opt_map].
    destruct (beq (p_id p) (a_id a)) eqn:Eb; [|reflexivity]. apply beq_eq in Eb. exfalso.
    assert (F : find_arg c (p_id p) = Some a) by (rewrite Eb; apply (find_arg_self_x a Ha)).
    destruct pst as [|i|i]; [| |discriminate Hp];
      (destruct (Hi p a Ep F) as [H|H]; [rewrite (get_pos_index c pos a Hg) in H; discriminate H|congruence]). }
  unfold pos_step_k, sep_step. rewrite Hc.
  destruct (resolve_pending c st) as [st1|e s|n] eqn:RP; cbn [rbind]; try reflexivity.
  pose proof (resolve_pending_clears _ _ _ RP) as PN.
  unfold pending_values_push. rewrite PN. cbn [p_id p_ident p_raw p_trailing_idx is_some].
  rewrite beq_refl. cbn [negb andb ident_eqb expect rbind app].
  assert (E : st1 <| mt := (mt st1) <| mt_pending := Some (mkPending (a_id a) (Some IIndex) [v] None) |> |>
              = set_pending (a_id a) IIndex [v] st1) by reflexivity.
  rewrite E. destruct (a_is_multiple a); reflexivity.
Qed.

Lemma loop_pos_values_x a (rest : list bytes) pos st : get_pos c pos = Some a -> a_multiple_values a = true ->
  a_last a = false -> a_tva a = false -> lookahead_off pos ->
  forall (vs vs0 : list bytes), forallb value_ok vs = true -> forallb (fun v => negb (check_terminator a v)) vs = true ->
  parse_loop c (vs ++ rest) (mkL (PSPos (a_id a)) pos true false) (set_pending (a_id a) IIndex vs0 st) =
  parse_loop c rest (mkL (PSPos (a_id a)) pos true false) (set_pending (a_id a) IIndex (vs0 ++ vs) st).
Proof.
  intros Hg Hm Hlast Htva Hlow. induction vs as [|v vs IH]; intros vs0 Hv Ht.
  - cbn [app]. rewrite app_nil_r. reflexivity.
  - cbn [forallb] in Hv. apply andb_prop in Hv. destruct Hv as [Hv Hvs]. cbn [app].
    cbn [forallb] in Ht. apply andb_prop in Ht. destruct Ht as [Ht Hts].
    assert (Ht' : check_terminator a v = false) by (destruct (check_terminator a v); [discriminate|reflexivity]).
    rewrite (pos_branch_x v (vs ++ rest) (PSPos (a_id a)) pos true _ a I I Hv Hg Ht' Hlast Htva Hlow).
    rewrite (pos_more c v (vs ++ rest) pos st a vs0 Hm). rewrite (IH (vs0 ++ [v]) Hvs Hts).
    rewrite <- app_assoc. reflexivity.
Qed.

Lemma posx_ok_parts pst pos (vs : list bytes) : posx_ok c pst pos vs = true ->
  exists a, get_pos c pos = Some a /\ (pos_ok pst (Some a) vs = true \/ hyph_single c pst pos vs = true) /\
    forallb (fun v => negb (check_terminator a v)) vs = true /\ a_last a = false /\ a_tva a = false /\
    (a_is_multiple a = true -> a_hyphen a = false /\ a_negnum a = false) /\ lookahead_off pos.
Proof.
  unfold posx_ok. intros H. apply andb_prop in H. destruct H as [H1 H2].
  destruct (get_pos c pos) as [a|] eqn:Hg; [|discriminate]. exists a. split; [reflexivity|].
  apply andb_prop in H2. destruct H2 as [H2 HL]. apply negb_true_iff in HL. apply lookahead_off_of in HL.
  apply andb_prop in H2. destruct H2 as [H2 H5]. apply andb_prop in H2. destruct H2 as [H2 H4]. apply andb_prop in H2. destruct H2 as [H2 H3].
  split; [apply orb_prop in H1; exact H1|]. split; [exact H2|].
  destruct (a_last a); [discriminate|]. destruct (a_tva a); [discriminate|]. split; [reflexivity|]. split; [reflexivity|].
  split; [|exact HL].
  intros Hm. rewrite Hm in H5. cbn [negb orb] in H5. apply andb_prop in H5. destruct H5 as [H5 H6].
  destruct (a_hyphen a); [discriminate|]. destruct (a_negnum a); [discriminate|]. split; reflexivity.
Qed.

(** a token that looks like a flag, handed to the positional the counter points at ([MaybeHyphenValue]) *)
Lemma pos_branch_h (v : bytes) (rest : list bytes) pos vaf st a :
  nosub c v = true -> hyphen_tok c pos v = true -> get_pos c pos = Some a ->
  lookahead_off pos -> check_terminator a v = false -> a_last a = false -> a_tva a = false ->
  parse_loop c (v :: rest) (mkL PSValuesDone pos vaf false) st = pos_step_k c a v rest pos st.
Proof.
  intros Hn Hh Hg Hlow Hterm Hlast Htva.
  destruct convx_parts as [_ [Hsp _]].
  unfold hyphen_tok in Hh. apply andb_prop in Hh. destruct Hh as [He Hh]. apply negb_true_iff in He.
  rewrite parse_loop_step. unfold phase1. cbn [l_trailing l_pst l_vaf l_pos].
  assert (Hs : (if is_set s_sub_precedence c || true then possible_subcommand c v vaf else None) = None).
  { rewrite orb_true_r. apply (nosub_if c v vaf true Hn). }
  rewrite Hs, He.
  assert (TAIL : forall vaf1,
    (do p1 <- ROk (@None (res loop_res), mkL PSValuesDone pos vaf1 false, st);
     let '(early, ls, st) := p1 in
     match early with Some r => r | None => phase2 c (parse_loop c rest) v rest ls st end) = pos_step_k c a v rest pos st).
  { intros vaf1. cbn [rbind]. apply pos_deliver; try assumption. exact I. }
  destruct (to_long v) as [[[f ok] val]|] eqn:TL.
  - apply andb_prop in Hh. destruct Hh as [Hh Hu]. apply andb_prop in Hh. destruct Hh as [Hh Hnil]. apply andb_prop in Hh. destruct Hh as [Hph Hok].
    apply negb_true_iff in Hnil. unfold long_unknown in Hu. apply andb_prop in Hu. destruct Hu as [Hu Hfs]. apply andb_prop in Hu. destruct Hu as [Hgl Hil].
    assert (PL : parse_long_arg c f ok val PSValuesDone pos vaf st = ROk (st, PRMaybeHyphen, vaf)).
    { unfold parse_long_arg. cbn [state_arg rbind]. rewrite Hok. cbn [negb]. rewrite Hnil.
      destruct (get_long c f); [discriminate Hgl|]. destruct (is_set s_infer_long c); [discriminate Hil|].
      destruct (possible_long_flag_subcommand c f); [discriminate Hfs|].
      unfold pos_hyphen in Hph. rewrite Hph. reflexivity. }
    rewrite PL. cbn [rbind fst snd]. unfold after_flag. cbn [l_pst l_pos]. exact (TAIL vaf).
  - destruct (to_short v) as [r|] eqn:TS; [|discriminate Hh].
    assert (PS : parse_short_arg c r PSValuesDone pos vaf st = ROk (st, PRMaybeHyphen, vaf)).
    { unfold parse_short_arg. cbn [state_arg rbind]. unfold pos_negnum, pos_hyphen in Hh.
      destruct (match get_pos c pos with Some a0 => a_negnum a0 | None => false end && sf_is_negative_number r); [reflexivity|].
      cbn [orb] in Hh. rewrite Hh. reflexivity. }
    rewrite PS. cbn [rbind fst snd]. unfold after_flag. cbn [l_pst l_pos]. exact (TAIL vaf).
Qed.

Lemma loop_pos_x (vs : list bytes) (rest : list bytes) pst pos vaf st :
  pend_inv c pst st -> forallb (nosub c) (firstn 1 vs) = true -> posx_ok c pst pos vs = true ->
  parse_loop c (vs ++ rest) (mkL pst pos vaf false) st =
  (do st1 <- apply_item c pos (ItPos vs) st;
   parse_loop c rest (mkL (item_pst c pos (ItPos vs)) (item_pos c pos (ItPos vs)) true false) st1).
Proof.
  intros Hi Hn Hokx. destruct (posx_ok_parts _ _ _ Hokx) as [a [Hg [Hor [Hts [Hlast [Htva [Hmh Hlow]]]]]]].
  cbn [apply_item item_pst item_pos]. rewrite Hg.
  destruct Hor as [Hok|Hhs].
  - destruct (pos_ok_parts _ _ _ Hok) as [a0 [v [vs' [Ea0 [-> [Hv [Hm Hp]]]]]]]. inversion Ea0; subst a0.
    cbn [firstn forallb] in Hn. apply andb_prop in Hn. destruct Hn as [Hn _].
    cbn [forallb] in Hv. apply andb_prop in Hv. destruct Hv as [Hv Hvs]. cbn [app].
    cbn [forallb] in Hts. apply andb_prop in Hts. destruct Hts as [Ht Hts].
    assert (Ht' : check_terminator a v = false) by (destruct (check_terminator a v); [discriminate|reflexivity]).
    rewrite (pos_branch_x v (vs' ++ rest) pst pos vaf st a); [|destruct pst; tauto|destruct pst; tauto|exact Hv|exact Hg|exact Ht'|exact Hlast|exact Htva|exact Hlow].
    rewrite (pos_first_x v (vs' ++ rest) pst pos st a Hg); [|destruct pst; tauto|exact Hi].
    destruct Hm as [Hm| ->].
    + assert (Hmul : a_is_multiple a = true) by (unfold a_is_multiple; rewrite Hm; reflexivity).
      rewrite Hmul. unfold sep_step. destruct (resolve_pending c st) as [st1|e s|n]; cbn [rbind]; try reflexivity.
      rewrite (loop_pos_values_x a rest pos st1 Hg Hm Hlast Htva Hlow vs' [v] Hvs Hts). reflexivity.
    + cbn [app]. reflexivity.
  - unfold hyph_single in Hhs. rewrite Hg in Hhs. destruct vs as [|v [|w t]]; try discriminate Hhs.
    destruct pst; try discriminate Hhs. apply andb_prop in Hhs. destruct Hhs as [Hht Hnm]. apply negb_true_iff in Hnm.
    cbn [firstn forallb] in Hn. apply andb_prop in Hn. destruct Hn as [Hn _].
    cbn [forallb] in Hts. apply andb_prop in Hts. destruct Hts as [Ht _].
    assert (Ht' : check_terminator a v = false) by (destruct (check_terminator a v); [discriminate|reflexivity]).
    cbn [app]. rewrite (pos_branch_h v rest pos vaf st a Hn Hht Hg Hlow Ht' Hlast Htva).
    rewrite (pos_first_x v rest PSValuesDone pos st a Hg I Hi). rewrite Hnm. reflexivity.
Qed.

(** ** one item, then the whole invocation *)
Lemma wfx_item_parts pst pos it : wfx_item c pst pos it = true ->
  (forall tok l, render_item it = tok :: l -> nosub c tok = true) /\
  match it with
  | ItLong n => name_ok n = true /\ is_flag (get_long c n) = true
  | ItLongEq n v => name_ok n = true /\ is_opt (get_long c n) = true
  | ItLongSep n vs => name_ok n = true /\ sepx_ok (get_long c n) vs = true
  | ItCluster fl t => forallb (cl_flag c) fl = true /\ wfx_tail c t = true /\
                      (is_nil fl && match t with TNone => true | _ => false end) = false /\
                      cluster_clear c pos (enc_shorts fl ++ tail_bytes t) = true
  | ItPos vs => forallb (nosub c) (firstn 1 vs) = true /\ posx_ok c pst pos vs = true
  end.
Proof.
  unfold wfx_item. intros H. apply andb_prop in H. destruct H as [H1 H2]. split.
  - intros tok l E. rewrite E in H1. cbn [firstn forallb] in H1. apply andb_prop in H1. apply H1.
  - destruct it as [n|n v|n vs|fl t|vs].
    + apply andb_prop in H2. exact H2.
    + apply andb_prop in H2. exact H2.
    + apply andb_prop in H2. exact H2.
    + apply andb_prop in H2. destruct H2 as [H2 H5]. apply andb_prop in H2. destruct H2 as [H2 H4]. apply andb_prop in H2. destruct H2 as [H2 H3].
      split; [exact H2|]. split; [exact H3|]. split; [destruct (is_nil fl && _); [discriminate|reflexivity]|].
      rewrite render_cluster in H5. cbn [hd tl] in H5. exact H5.
    + split; [exact H1|exact H2].
Qed.

Lemma item_pst_okx pst pos it : wfx_item c pst pos it = true -> pst_okx (item_pst c pos it).
Proof.
  intros H. destruct (wfx_item_parts pst pos it H) as [_ H2]. destruct it as [n|n v|n vs|fl t|vs]; cbn [item_pst]; try exact I.
  - destruct H2 as [_ H2]. destruct (sepx_ok_parts _ _ H2) as [a [Hg [_ [_ [_ [_ Hcl]]]]]]. rewrite Hg.
    apply opt_pst_okx; [apply (get_long_in c n a Hg)|exact Hcl].
  - destruct t as [|o v|o v|o vs]; try exact I. destruct H2 as [_ [H2 _]]. cbn [wfx_tail] in H2.
    apply andb_prop in H2. destruct H2 as [_ H2]. destruct (sepx_ok_parts _ _ H2) as [a [Hg [_ [_ [_ [_ Hcl]]]]]]. rewrite Hg.
    apply opt_pst_okx; [apply (get_short_in c o a Hg)|exact Hcl].
  - destruct H2 as [_ H2]. destruct (posx_ok_parts _ _ _ H2) as [a [Hg [_ [_ [_ [_ [Hmh _]]]]]]]. rewrite Hg.
    destruct (a_is_multiple a) eqn:Em; [|exact I].
    exists a. split; [apply find_arg_self_x; apply (get_pos_in c pos a Hg)|apply Hmh; reflexivity].
Qed.

Lemma loop_item_x it (rest : list bytes) pst pos vaf st :
  wfx_item c pst pos it = true -> pst_okx pst -> pend_inv c pst st -> fs_skip st = 0 ->
  parse_loop c (render_item it ++ rest) (mkL pst pos vaf false) st =
  (do st1 <- apply_item c pos it st;
   parse_loop c rest (mkL (item_pst c pos it) (item_pos c pos it) true false) st1).
Proof.
  intros Hw Hp Hi Hskip. destruct (wfx_item_parts pst pos it Hw) as [Hn H2]. destruct it as [n|n v|n vs|fl t|vs].
  - destruct H2 as [Hk Hf]. destruct (is_flag_parts _ Hf) as [a [Hg Htv]].
    cbn [render_item app apply_item item_pst item_pos]. rewrite Hg.
    apply loop_long_flag_x; try assumption. apply (Hn _ _ eq_refl).
  - destruct H2 as [Hk Hf]. destruct (is_opt_parts _ Hf) as [a [Hg Htv]].
    cbn [render_item app apply_item item_pst item_pos]. rewrite Hg.
    apply loop_long_eq_x; try assumption. apply (Hn _ _ eq_refl).
  - destruct H2 as [Hk Hf]. destruct (sepx_ok_parts _ _ Hf) as [a [Hg _]].
    cbn [render_item apply_item item_pst item_pos]. rewrite Hg. rewrite Hg in Hf.
    apply loop_long_sep_x; try assumption. apply (Hn _ _ eq_refl).
  - destruct H2 as [Hfl [Hwt [Hne Hcc]]]. cbn [item_pos]. apply loop_cluster_x; try assumption.
    apply (Hn _ _ (render_cluster fl t)).
  - destruct H2 as [Hns Hok]. cbn [render_item]. apply loop_pos_x; assumption.
Qed.

Lemma sep_step_inv_x idn a (vs : list bytes) st st' pst : In a (c_args c) ->
  (a_index a = None \/ a_multiple_values a = false) ->
  sep_step c idn a vs st = ROk st' -> pend_inv c pst st'.
Proof.
  intros Ha Hor. unfold sep_step. destruct (resolve_pending c st) as [st1|e s|n]; cbn [rbind]; try discriminate.
  intros H; inversion H; subst. destruct pst; cbn [pend_inv]; try exact I;
    (intros p b Ep Fb;
     assert (Ep' : Some (mkPending (a_id a) (Some idn) vs None) = Some p)
       by (rewrite <- Ep; destruct st1 as [m ci fa fk]; destruct m; reflexivity);
     inversion Ep'; subst p; cbn [p_id] in Fb; rewrite (find_arg_self_x a Ha) in Fb; inversion Fb; subst b; exact Hor).
Qed.

Lemma apply_item_inv_x pst pos it st st' : wfx_item c pst pos it = true ->
  apply_item c pos it st = ROk st' -> pend_inv c (item_pst c pos it) st'.
Proof.
  intros Hw H. destruct (wfx_item_parts pst pos it Hw) as [_ H2]. destruct it as [n|n v|n vs|fl t|vs]; cbn [apply_item] in H.
  - destruct H2 as [_ Hf]. destruct (is_flag_parts _ Hf) as [a [Hg _]]. rewrite Hg in H.
    apply pend_inv_none. apply (step_pending_none c _ _ _ _ _ H).
  - destruct H2 as [_ Hf]. destruct (is_opt_parts _ Hf) as [a [Hg _]]. rewrite Hg in H.
    apply pend_inv_none. apply (step_pending_none c _ _ _ _ _ H).
  - destruct H2 as [_ Hf]. destruct (sepx_ok_parts _ _ Hf) as [a [Hg _]]. rewrite Hg in H.
    apply (sep_step_inv_x ILong a vs st st' _ (get_long_in c n a Hg) (or_introl (get_long_index c n a Hg)) H).
  - destruct H2 as [Hfl [Hwt [Hne _]]].
    destruct (flags_step c fl st) as [s0|e s|k] eqn:E; cbn [rbind] in H; try discriminate.
    destruct t as [|o v|o v|o vs]; cbn [tail_step wfx_tail] in *.
    + inversion H; subst. apply pend_inv_none. apply (flags_step_pending c fl st st' Hfl); [|exact E].
      intros ->. discriminate.
    + apply andb_prop in Hwt. destruct Hwt as [Hwt _]. apply andb_prop in Hwt. destruct Hwt as [Hwt _]. apply andb_prop in Hwt. destruct Hwt as [_ Ho].
      destruct (attx_ok_parts _ Ho) as [a [Hg _]]. rewrite Hg in H. apply pend_inv_none. apply (step_pending_none c _ _ _ _ _ H).
    + apply andb_prop in Hwt. destruct Hwt as [_ Ho].
      destruct (is_opt_parts _ Ho) as [a [Hg _]]. rewrite Hg in H. apply pend_inv_none. apply (step_pending_none c _ _ _ _ _ H).
    + apply andb_prop in Hwt. destruct Hwt as [_ Ho].
      destruct (sepx_ok_parts _ _ Ho) as [a [Hg _]]. rewrite Hg in H.
      apply (sep_step_inv_x IShort a vs s0 st' _ (get_short_in c o a Hg) (or_introl (get_short_index c o a Hg)) H).
  - destruct H2 as [_ Hokx]. destruct (posx_ok_parts _ _ _ Hokx) as [a [Hg _]]. rewrite Hg in H.
    cbn [item_pst]. rewrite Hg. destruct (a_is_multiple a) eqn:Em; [exact I|].
    apply (sep_step_inv_x IIndex a vs st st' _ (get_pos_in c pos a Hg)); [|exact H].
    right. unfold a_is_multiple in Em. destruct (a_multiple_values a); [discriminate|reflexivity].
Qed.

Lemma items_pst_okx : forall its pst pos, wfx_items c pst pos its = true -> pst_okx pst -> pst_okx (items_pst c pst pos its).
Proof.
  induction its as [|it its IH]; intros pst pos Hw Hp; [exact Hp|]. cbn [wfx_items items_pst] in *.
  apply andb_prop in Hw. destruct Hw as [Hw Hws]. apply (IH _ _ Hws). apply (item_pst_okx pst pos it Hw).
Qed.

Lemma apply_items_inv_x : forall its pst pos st st', wfx_items c pst pos its = true -> pend_inv c pst st ->
  apply_items c pos its st = ROk st' -> pend_inv c (items_pst c pst pos its) st'.
Proof.
  induction its as [|it its IH]; intros pst pos st st' Hw Hi H; cbn [wfx_items items_pst apply_items] in *.
  - inversion H; subst. exact Hi.
  - apply andb_prop in Hw. destruct Hw as [Hw Hws].
    destruct (apply_item c pos it st) as [st1|e s|n] eqn:E; cbn [rbind] in H; try discriminate.
    apply (IH _ _ st1 st' Hws (apply_item_inv_x pst pos it st st1 Hw E) H).
Qed.

(** THE SIMULATION for the lifted class *)
Theorem loop_items_x : forall its (rest : list bytes) pst pos vaf st,
  wfx_items c pst pos its = true -> pst_okx pst -> pend_inv c pst st -> fs_skip st = 0 ->
  parse_loop c (render its ++ rest) (mkL pst pos vaf false) st =
  (do st' <- apply_items c pos its st;
   parse_loop c rest (mkL (items_pst c pst pos its) (items_pos c pos its) (vaf || negb (is_nil its)) false) st').
Proof.
  induction its as [|it its IH]; intros rest pst pos vaf st Hw Hp Hi Hskip.
  - cbn [render flat_map app apply_items rbind items_pst items_pos is_nil negb]. rewrite orb_false_r. reflexivity.
  - cbn [wfx_items] in Hw. apply andb_prop in Hw. destruct Hw as [Hw Hws].
    unfold render. cbn [flat_map]. rewrite <- app_assoc. fold (render its).
    rewrite (loop_item_x it (render its ++ rest) pst pos vaf st Hw Hp Hi Hskip).
    cbn [apply_items items_pst items_pos is_nil negb]. rewrite orb_true_r.
    destruct (apply_item c pos it st) as [st1|e s|n] eqn:E; cbn [rbind]; try reflexivity.
    rewrite (IH rest (item_pst c pos it) (item_pos c pos it) true st1 Hws (item_pst_okx pst pos it Hw)
               (apply_item_inv_x pst pos it st st1 Hw E)); [reflexivity|].
    rewrite (apply_item_fs c _ _ _ _ E). exact Hskip.
Qed.

(** * flushing: the meaning as a fold of [react] over the occurrences *)
Lemma sep_flush_x {B} idn a (vs : list bytes) st (K : ps -> res B) : In a (c_args c) ->
  (do st1 <- sep_step c idn a vs st; do st2 <- resolve_pending c st1; K st2) =
  (do x <- react c (Some idn) SCmdLine a vs None st; K (fst x)).
Proof.
  intros Ha. unfold sep_step, react. rewrite !rbind_assoc. apply rbind_ext. intros st1 E. cbn [rbind].
  pose proof (resolve_pending_clears _ _ _ E) as PN.
  unfold resolve_pending at 1.
  replace (mt_pending (mt (set_pending (a_id a) idn vs st1))) with (Some (mkPending (a_id a) (Some idn) vs None))
    by (destruct st1 as [m ci fa fk]; destruct m; reflexivity).
  cbn [p_id p_ident p_raw p_trailing_idx]. rewrite (find_arg_self_x a Ha). cbn [expect rbind].
  rewrite (set_pending_clear _ _ _ _ PN). rewrite rbind_assoc. reflexivity.
Qed.

Lemma flush_react_all_sep_x {B} idn a (vs : list bytes) : In a (c_args c) -> forall os st (K : ps -> res B),
  (do s1 <- react_all c os st; do st1 <- sep_step c idn a vs s1; do st2 <- resolve_pending c st1; K st2) =
  (do st0 <- resolve_pending c st; do st2 <- react_all c (os ++ [occ_of idn a vs]) st0; K st2).
Proof.
  intros Ha. induction os as [|o os IH]; intros st K; cbn [react_all app].
  - cbn [rbind]. rewrite (sep_flush_x idn a vs st K Ha).
    symmetry. etransitivity; [apply rbind_ext; intros x _; apply rbind_assoc|].
    cbn [occ_of o_ident o_src o_arg o_raw o_ti]. cbn [rbind].
    apply (resolve_react c (Some idn) SCmdLine a vs None st (fun x => K (fst x))).
  - rewrite rbind_assoc.
    etransitivity; [apply rbind_ext; intros x _; apply IH|].
    rewrite react_resolve.
    symmetry. etransitivity; [apply rbind_ext; intros x _; apply rbind_assoc|].
    apply (resolve_react c (o_ident o) (o_src o) (o_arg o) (o_raw o) (o_ti o) st
             (fun x => do st2 <- react_all c (os ++ [occ_of idn a vs]) (fst x); K st2)).
Qed.

Lemma flush_item_x {B} pst pos it st (K : ps -> res B) : wfx_item c pst pos it = true ->
  (do st1 <- apply_item c pos it st; do st2 <- resolve_pending c st1; K st2) =
  (do st0 <- resolve_pending c st; do st2 <- react_all c (item_occs c pos it) st0; K st2).
Proof.
  intros Hw. destruct (wfx_item_parts pst pos it Hw) as [_ H2]. destruct it as [n|n v|n vs|fl t|vs]; cbn [apply_item item_occs].
  - destruct H2 as [_ Hf]. destruct (is_flag_parts _ Hf) as [a [Hg _]]. rewrite Hg.
    rewrite <- flush_react_all. cbn [react_all occ_of o_ident o_src o_arg o_raw o_ti]. reflexivity.
  - destruct H2 as [_ Hf]. destruct (is_opt_parts _ Hf) as [a [Hg _]]. rewrite Hg.
    rewrite <- flush_react_all. cbn [react_all occ_of o_ident o_src o_arg o_raw o_ti]. reflexivity.
  - destruct H2 as [_ Hf]. destruct (sepx_ok_parts _ _ Hf) as [a [Hg _]]. rewrite Hg.
    exact (flush_react_all_sep_x ILong a vs (get_long_in c n a Hg) [] st K).
  - destruct H2 as [Hfl [Hwt _]]. rewrite (flags_step_react_all c fl st Hfl). rewrite rbind_assoc.
    destruct t as [|o v|o v|o vs]; cbn [tail_step tail_occs wfx_tail] in *.
    + rewrite app_nil_r. cbn [rbind]. etransitivity; [|apply flush_react_all]. apply rbind_ext. intros; reflexivity.
    + apply andb_prop in Hwt. destruct Hwt as [Hwt _]. apply andb_prop in Hwt. destruct Hwt as [Hwt _]. apply andb_prop in Hwt. destruct Hwt as [_ Ho].
      destruct (attx_ok_parts _ Ho) as [a [Hg _]]. rewrite Hg.
      rewrite <- flush_react_all. rewrite react_all_app, rbind_assoc. apply rbind_ext. intros s1 _.
      cbn [react_all occ_of o_ident o_src o_arg o_raw o_ti]. reflexivity.
    + apply andb_prop in Hwt. destruct Hwt as [_ Ho].
      destruct (is_opt_parts _ Ho) as [a [Hg _]]. rewrite Hg.
      rewrite <- flush_react_all. rewrite react_all_app, rbind_assoc. apply rbind_ext. intros s1 _.
      cbn [react_all occ_of o_ident o_src o_arg o_raw o_ti]. reflexivity.
    + apply andb_prop in Hwt. destruct Hwt as [_ Ho].
      destruct (sepx_ok_parts _ _ Ho) as [a [Hg _]]. rewrite Hg.
      exact (flush_react_all_sep_x IShort a vs (get_short_in c o a Hg) (flags_occs c fl) st K).
  - destruct H2 as [_ Hokx]. destruct (posx_ok_parts _ _ _ Hokx) as [a [Hg _]]. rewrite Hg.
    exact (flush_react_all_sep_x IIndex a vs (get_pos_in c pos a Hg) [] st K).
Qed.

Theorem flush_items_x : forall its pst pos st, wfx_items c pst pos its = true ->
  (do st' <- apply_items c pos its st; resolve_pending c st') =
  (do st0 <- resolve_pending c st; react_all c (occs c pos its) st0).
Proof.
  induction its as [|it its IH]; intros pst pos st Hw.
  - cbn [apply_items occs react_all rbind]. symmetry. apply rbind_ret.
  - cbn [wfx_items] in Hw. apply andb_prop in Hw. destruct Hw as [Hw Hws].
    cbn [apply_items]. rewrite rbind_assoc.
    etransitivity; [apply rbind_ext; intros st1 _; apply (IH _ _ st1 Hws)|].
    rewrite (flush_item_x pst pos it st (fun st2 => react_all c (occs c (item_pos c pos it) its) st2) Hw).
    apply rbind_ext. intros st0 _. cbn [occs]. rewrite react_all_app. reflexivity.
Qed.

End SimX.
