(** Property C07, part 9: lines that select subcommands - the per-argument closed form at EVERY level of the chain.

    C09's chain theorem (Chain.v) shows that on a line `pre_0 n_1 pre_1 ... n_k pre_k` every level is parsed against
    its own definition from a fresh state and that the entries of a level are those of its own prefix alone
    ([level_entries]).  Here each prefix is additionally read by C07's scanner: for every level of the chain the
    stored entries are, argument by argument, what the fold of [react] over that level's occurrences leaves
    (source CommandLine), everything else came from the environment / default phases of that level
    ([level_form]).  The inner levels are option prefixes (C09's class [prefix_ok], no positional before a
    subcommand name); the LAST level is any line of the wide class (positionals, [--], multi-valued options).
    All statements are about [get_matches_with] (the state before the globals merge), as C09_chain is. *)
From ClapModel Require Import Base.Bytes Base.Machine Base.Utf8 Lex.OsStrExtModel.
From ClapModel Require Import Parse.Cmd Parse.Build Parse.Valid Parse.Matcher Parse.Errors Parse.Validator Parse.Parser.
From ClapModel Require Import ParseProofs.Actions ParseProofs.ActionsLoop ParseProofs.ActionsTokens ParseProofs.ActionsTop ParseProofs.ActionsWide ParseProofs.ActionsWideTop ParseProofs.ActionsGraph.
From ClapModel Require ParseProofs.Spelling ParseProofs.Sources ParseProofs.Dispatch ParseProofs.Globals ParseProofs.Chain ParseProofs.UnparseTree.
From Coq Require Import ZArith.
From RecordUpdate Require Import RecordSet.
Import RecordSetNotations.
Open Scope N_scope.

(** the entries [args] of one level are what the occurrences [os] of that level's own tokens leave *)
Definition level_form (c : cmd) (os : list occ) (args : list (id * marg)) : Prop :=
  exists st1, react_all c os ps_new = ROk st1 /\
    forall a, In a (c_args c) ->
      match get (a_id a) (mt st1) with
      | Some e => fm_get (a_id a) args = Some e /\ m_source e = Some SCmdLine
      | None => forall e, fm_get (a_id a) args = Some e -> m_source e = Some SEnv \/ m_source e = Some SDefault
      end.

Lemma fill_level_form c f toks os st_c stf : assert_app c = true ->
  Sources.cmdline_phase f c toks ps_new = ROk st_c ->
  resolve_pending c st_c = react_all c os ps_new ->
  Chain.fill c st_c = ROk stf -> level_form c os (mt_args (mt stf)).
Proof.
  intros HA EC HR HF. unfold Chain.fill in HF.
  destruct (resolve_pending c st_c) as [st1|e0 s0|n0] eqn:E1; cbn [rbind] in HF; try discriminate.
  destruct (add_env c st1) as [st2|e0 s0|n0] eqn:E2; cbn [rbind] in HF; try discriminate.
  pose proof (Spelling.resolve_pending_clears c st_c st1 E1) as P1.
  destruct (Sources.add_env_frame c st1 st2 P1 E2) as [P2 [_ [K2 [N2 _]]]].
  destruct (Sources.add_defaults_frame c st2 stf P2 HF) as [_ [_ [_ [K3 N3]]]].
  pose proof (Sources.cmdline_phase_all_cl _ c toks ps_new st_c st1 eq_refl EC E1) as HCL.
  destruct (Sources.assert_app_ids_distinct c HA) as [_ HNG].
  exists st1. split; [symmetry; exact HR|].
  intros a Hin. pose proof (HNG a Hin) as NG. unfold get.
  destruct (fm_get (a_id a) (mt_args (mt st1))) as [e|] eqn:G1.
  - split; [exact (K3 _ _ (K2 _ _ NG G1))|]. exact (Sources.fm_get_forall _ _ _ HCL G1).
  - intros e Ge. destruct (fm_get (a_id a) (mt_args (mt st2))) as [e2|] eqn:G2.
    + left. rewrite (K3 _ _ G2) in Ge. inversion Ge; subst e2.
      destruct (N2 _ _ NG G1 G2) as [SE _]. exact SE.
    + right. exact (N3 _ _ G2 Ge).
Qed.

(** a level that selects a subcommand: its entries are those of its own prefix *)
Theorem level_sub_form c pre F tok n f rest st os :
  Chain.prefix_ok c pre F -> Chain.sel c tok n -> Chain.lvl_ok c ->
  no_hyphen_args c = true -> assert_app c = true -> woccurrences c pre = Some os ->
  get_matches_with (S f) c (pre ++ tok :: rest) ps_new = ROk st ->
  level_form c os (mt_args (mt st)).
Proof.
  intros Hp Hs Hl NH HA HS H.
  destruct (Chain.level_entries c pre F tok n f rest st Hp Hs Hl H) as [st' [stf [EL [EF ES]]]].
  pose proof (ids_ok_of_assert_app c HA) as IDS.
  destruct (parse_loop_woccurrences c pre os false ps_new NH IDS HS eq_refl eq_refl) as [r [E1 E2]].
  change (mkL PSValuesDone 1 false false) with (Chain.lsV 1 false) in E1. rewrite EL in E1.
  destruct r as [s|e s|x]; cbn [rbind] in E1; try discriminate. inversion E1; subst s. cbn [rbind] in E2.
  rewrite fold_flush_clean in E2 by reflexivity.
  assert (EC : Sources.cmdline_phase f c pre ps_new = ROk st').
  { unfold Sources.cmdline_phase. change (mkL PSValuesDone 1 false false) with (Chain.lsV 1 false). rewrite EL. reflexivity. }
  rewrite ES. replace (mt_args (mt (Chain.ssub (mt_sub (mt st)) stf))) with (mt_args (mt stf))
    by (destruct stf as [m ci fa fk]; destruct m; reflexivity).
  exact (fill_level_form c f pre os st' stf HA EC E2 EF).
Qed.

(** the last level: any line of the wide class *)
Theorem level_end_form c toks f st os :
  no_hyphen_args c = true -> assert_app c = true -> woccurrences c toks = Some os ->
  get_matches_with (S f) c toks ps_new = ROk st ->
  level_form c os (mt_args (mt st)) /\ mt_sub (mt st) = None.
Proof.
  intros NH HA HS H. pose proof (ids_ok_of_assert_app c HA) as IDS.
  destruct (Sources.phase_order _ c toks ps_new st H) as [st_c [st1 [st2 [EC [E1 [P1 [E2 [P2 [E3 _]]]]]]]]].
  pose proof (cmdline_phase_woccurrences f c toks os ps_new NH IDS HS eq_refl eq_refl) as HF.
  rewrite EC in HF. cbn [rbind] in HF. rewrite fold_flush_clean in HF by reflexivity.
  assert (EF : Chain.fill c st_c = ROk st).
  { unfold Chain.fill. rewrite E1. cbn [rbind]. rewrite E2. cbn [rbind]. exact E3. }
  split; [exact (fill_level_form c f toks os st_c st HA EC HF EF)|].
  destruct (Sources.add_env_frame c st1 st2 P1 E2) as [_ [S2 _]].
  destruct (Sources.add_defaults_frame c st2 st P2 E3) as [_ [S3 _]].
  rewrite S3, S2. rewrite E1 in HF. symmetry in HF. exact (react_all_sub c None os ps_new st1 eq_refl HF).
Qed.

(** [cline c toks lv]: [toks] = `pre_0 n_1 pre_1 ... n_k pre_k` for the built command [c]; [lv] lists, level by level,
    the (built) command of the level and the occurrences the scanner reads from that level's own tokens *)
Inductive cline : cmd -> list bytes -> list (cmd * list occ) -> Prop :=
| cl_end c toks os :
    no_hyphen_args c = true -> assert_app c = true -> woccurrences c toks = Some os ->
    cline c toks [(c, os)]
| cl_sub c pre F os tok n sc0 sc rest lv :
    Chain.lvl_ok c -> Chain.prefix_ok c pre F -> no_hyphen_args c = true -> assert_app c = true ->
    woccurrences c pre = Some os ->
    Chain.sel c tok n -> find_subcommand c n = Some sc0 -> build_subcommand c (c_name sc0) = Some sc ->
    cline sc rest lv ->
    cline c (pre ++ tok :: rest) ((c, os) :: lv).

Definition level_rel (p : cmd * list occ) (args : list (id * marg)) : Prop := level_form (fst p) (snd p) args.

Theorem chain_level_forms : forall c toks lv, cline c toks lv ->
  forall f st, get_matches_with f c toks ps_new = ROk st ->
  Forall2 level_rel lv (Globals.levels (into_inner (mt st))) /\
  Globals.chain (into_inner (mt st)) = map (fun p => c_name (fst p)) (tl lv).
Proof.
  induction 1 as [c toks os NH HA HS|c pre F os tok n sc0 sc rest lv [Hneg Hign] Hp NH HA HS Hsel Hfind Hbuild Hline IH];
    intros f st H; (destruct f as [|f]; [discriminate|]).
  - destruct (level_end_form c toks f st os NH HA HS H) as [LF SUB].
    unfold into_inner. rewrite SUB. cbn [Globals.levels Globals.chain map tl]. split; [|reflexivity].
    constructor; [exact LF|constructor].
  - pose proof (level_sub_form c pre F tok n f rest st os Hp Hsel (conj Hneg Hign) NH HA HS H) as LF.
    destruct (Dispatch.gmw_step f c _ ps_new st H) as [lr [Hlr Hm]].
    change (mkL PSValuesDone 1 false false) with (Chain.lsV 1 false) in Hlr.
    rewrite (Chain.loop_prefix c pre F Hp (tok :: rest) 1 false ps_new eq_refl) in Hlr.
    destruct (F ps_new) as [st'|e s1|x] eqn:EF; cbn [rbind] in Hlr; try discriminate.
    rewrite (Chain.sel_loop c tok n Hsel Hneg) in Hlr. inversion Hlr; subst lr. clear Hlr.
    destruct Hm as [sc0' [Hf' Hm]]. rewrite Hfind in Hf'. inversion Hf'; subst sc0'. clear Hf'.
    rewrite Hbuild in Hm. destruct Hm as [sub_st [Hchild Hsub]].
    destruct Hchild as [Hchild|[e [_ Hi]]]; [|rewrite Hign in Hi; discriminate].
    change (Dispatch.sub_init false st') with ps_new in Hchild.
    destruct (IH f sub_st Hchild) as [IH1 IH2].
    unfold into_inner. rewrite Hsub. cbn [Globals.levels Globals.chain map tl].
    split; [constructor; [exact LF|exact IH1]|].
    rewrite IH2. inversion Hline; subst; reflexivity.
Qed.

(** * The closed forms at one level (any override graph), from [level_form] *)
Theorem level_denote c os args a : assert_app c = true -> Forall (wscanned c) os -> level_form c os args ->
  In a (c_args c) ->
  match fold_left (step_abs c (a_id a)) os None with
  | Some g => exists e, fm_get (a_id a) args = Some e /\ m_raw e = g /\ m_source e = Some SCmdLine
  | None => forall e, fm_get (a_id a) args = Some e -> m_source e = Some SEnv \/ m_source e = Some SDefault
  end.
Proof.
  intros HA HSc [st1 [HF HE]] Hin.
  pose proof (scanned_no_clash c (a_id a) os HA (ex_intro _ a (conj Hin eq_refl)) HSc) as HNC.
  destruct (react_all_denote c (a_id a) os ps_new st1 wf_m_new eq_refl HNC HF) as [R _].
  change (groups_of (a_id a) (mt ps_new)) with (@None groups) in R. rewrite <- R.
  specialize (HE a Hin). unfold groups_of. destruct (get (a_id a) (mt st1)) as [e|]; cbn [opt_map].
  - destruct HE as [G S]. exists e. auto.
  - exact HE.
Qed.

Lemma live_unrelated c i os o : In o (live c i os) -> beq (a_id (o_arg o)) i = false -> unrelated c i o.
Proof.
  intros Ho Eb. apply not_overrider_unrelated; [|exact Eb].
  destruct (overrider c i o) eqn:Eo; [|reflexivity].
  assert (X : existsb (overrider c i) (live c i os) = true) by (apply existsb_exists; exists o; auto).
  rewrite (live_no_overrider c i os) in X. discriminate.
Qed.

(** Count: the abstract fold in closed form, any override graph *)
Theorem abs_count_graph c a os : assert_app c = true -> In a (c_args c) -> count_flag a -> Forall (wscanned c) os ->
  fold_left (step_abs c (a_id a)) os None = enc (N.of_nat (count_occ (a_id a) (live c (a_id a) os))).
Proof.
  intros HA Hin [EA [_ [EDM ENUM]]] HSc. rewrite (abs_live c (a_id a) os).
  assert (TV : a_takes_value a = false) by (unfold a_takes_value; rewrite ENUM; reflexivity).
  assert (HAll : Forall (fun o => (o_arg o = a /\ o_raw o = []) \/ unrelated c (a_id a) o) (live c (a_id a) os)).
  { apply Forall_forall. intros o Ho.
    assert (So : wscanned c o) by (rewrite Forall_forall in HSc; exact (HSc o (live_incl c _ os o Ho))).
    destruct (beq (a_id (o_arg o)) (a_id a)) eqn:Eb.
    - left. pose proof (scanned_same c a o HA Hin So Eb) as E. split; [exact E|].
      destruct So as [_ [_ Hr]]. rewrite E in Hr. exact (Hr TV).
    - right. exact (live_unrelated c (a_id a) os o Ho Eb). }
  change (@None groups) with (enc 0). rewrite (abs_count c a EA EDM _ 0 HAll). rewrite N.add_0_l. reflexivity.
Qed.

(** Append (not self-overriding): the abstract fold in closed form, any override graph *)
Theorem abs_append_graph c a os : assert_app c = true -> In a (c_args c) -> a_get_action a = AAppend ->
  overridden c a (a_id a) = false -> Forall (wscanned c) os ->
  fold_left (step_abs c (a_id a)) os None =
  if (0 <? count_occ (a_id a) (live c (a_id a) os))%nat then Some (occ_groups c (a_id a) (live c (a_id a) os)) else None.
Proof.
  intros HA Hin EA OS HSc. rewrite (abs_live c (a_id a) os). set (lv := live c (a_id a) os).
  destruct (0 <? count_occ (a_id a) lv)%nat eqn:En.
  - apply Nat.ltb_lt in En.
    assert (HAll : Forall (fun o => (o_arg o = a /\ is_cmdline (o_src o) && overridden c a (a_id a) = false)
                                    \/ unrelated c (a_id a) o) lv).
    { apply Forall_forall. intros o Ho.
      assert (So : wscanned c o) by (rewrite Forall_forall in HSc; exact (HSc o (live_incl c _ os o Ho))).
      destruct (beq (a_id (o_arg o)) (a_id a)) eqn:Eb.
      - left. split; [exact (scanned_same c a o HA Hin So Eb)|]. rewrite OS. apply andb_false_r.
      - right. exact (live_unrelated c (a_id a) os o Ho Eb). }
    destruct (abs_append c a EA lv None HAll) as [A1 A2]. cbn [opt_default app] in A1.
    specialize (A2 (or_intror En)).
    destruct (fold_left (step_abs c (a_id a)) lv None) as [g|]; [|discriminate A2]. cbn [opt_default] in A1.
    rewrite A1. reflexivity.
  - apply Nat.ltb_ge in En. assert (E0 : count_occ (a_id a) lv = 0%nat) by lia.
    exact (fold_absent c (a_id a) lv (count_occ_zero (a_id a) lv E0)).
Qed.

Theorem level_count c os args a : assert_app c = true -> Forall (wscanned c) os -> level_form c os args ->
  In a (c_args c) -> count_flag a ->
  let n := count_occ (a_id a) (live c (a_id a) os) in
  ((0 < n)%nat -> exists e, fm_get (a_id a) args = Some e /\
       m_raw e = [[n_to_dec (N.min (N.of_nat n) 255)]] /\ m_source e = Some SCmdLine) /\
  (n = 0%nat -> forall e, fm_get (a_id a) args = Some e -> m_source e = Some SEnv \/ m_source e = Some SDefault).
Proof.
  intros HA HSc LF Hin CF n. pose proof (level_denote c os args a HA HSc LF Hin) as HD.
  rewrite (abs_count_graph c a os HA Hin CF HSc) in HD. fold n in HD. unfold enc in HD. split.
  - intros Hn. destruct (N.of_nat n =? 0) eqn:E0; [apply N.eqb_eq in E0; lia|]. exact HD.
  - intros Hn. rewrite Hn in HD. exact HD.
Qed.

Theorem level_append c os args a : assert_app c = true -> Forall (wscanned c) os -> level_form c os args ->
  In a (c_args c) -> a_get_action a = AAppend -> overridden c a (a_id a) = false ->
  let lv := live c (a_id a) os in
  ((0 < count_occ (a_id a) lv)%nat ->
     exists e, fm_get (a_id a) args = Some e /\ m_raw e = occ_groups c (a_id a) lv /\ m_source e = Some SCmdLine) /\
  (count_occ (a_id a) lv = 0%nat ->
     forall e, fm_get (a_id a) args = Some e -> m_source e = Some SEnv \/ m_source e = Some SDefault).
Proof.
  intros HA HSc LF Hin EA OS lv. pose proof (level_denote c os args a HA HSc LF Hin) as HD.
  rewrite (abs_append_graph c a os HA Hin EA OS HSc) in HD. fold lv in HD. split.
  - intros Hn. apply Nat.ltb_lt in Hn. rewrite Hn in HD. exact HD.
  - intros Hn. rewrite Hn in HD. exact HD.
Qed.

(** every level of a [cline] has scanned occurrences and passed the configuration gate *)
Theorem cline_levels_ok : forall c toks lv, cline c toks lv ->
  Forall (fun p => assert_app (fst p) = true /\ Forall (wscanned (fst p)) (snd p)) lv.
Proof.
  induction 1 as [c toks os NH HA HS|c pre F os tok n sc0 sc rest lv Hl Hp NH HA HS Hsel Hfind Hbuild Hline IH].
  - constructor; [|constructor]. split; [exact HA|exact (woccurrences_scanned c toks os HS)].
  - constructor; [|exact IH]. split; [exact HA|exact (woccurrences_scanned c pre os HS)].
Qed.

(** * At [parse_top], for trees without global arguments (the globals merge is then the identity) *)
Theorem chain_levels_top c0 bin toks lv m :
  let c := build_self (with_bin c0 bin) in
  is_set s_no_binary_name c0 = false -> is_set s_ignore_errors c = false ->
  UnparseTree.no_globals (build_recursive (S (S (depth c))) (with_bin c0 bin)) = true ->
  cline c toks lv -> parse_top c0 (bin :: toks) = OOk m ->
  Forall2 level_rel lv (Globals.levels m) /\ Globals.chain m = map (fun p => c_name (fst p)) (tl lv).
Proof.
  intros c NB IE NG HL HP. rewrite (parse_top_unfold c0 bin toks NB) in HP. rewrite UnparseTree.do_parse_unfold in HP.
  destruct (negb (valid (with_bin c0 bin))); [discriminate|]. fold c in HP.
  destruct (get_matches_with (S (S (depth c))) c toks ps_new) as [st|e st|x] eqn:EG.
  - rewrite (UnparseTree.finish_no_globals (with_bin c0 bin) st NG) in HP. inversion HP; subst m.
    exact (chain_level_forms c toks lv HL _ st EG).
  - unfold UnparseTree.finish_outcome in HP. fold c in HP. rewrite IE in HP. discriminate.
  - unfold UnparseTree.finish_outcome in HP. destruct x; discriminate.
Qed.

(** * Non-vacuity: a two-level line, closed forms at both levels *)
Module ChainExamples.
  Import WideExamples.
  Definition w_add : bytes := [97; 100; 100].
  (** p -v (Count) -x (SetTrue, overrides v)   add: -n (Count) <files>... (Append positional, one value per occurrence) *)
  Definition c0 : cmd := (cmd_new [112])
    <| c_args := [ (mk [118]) <| a_short := Some 118 |> <| a_action := Some ACount |>;
                   (mk [120]) <| a_short := Some 120 |> <| a_action := Some ASetTrue |> <| a_overrides := [[118]] |> ] |>
    <| c_subs := [ (cmd_new w_add)
         <| c_args := [ (mk [110]) <| a_short := Some 110 |> <| a_action := Some ACount |>;
                        (mk [70]) <| a_action := Some AAppend |> <| a_num := Some r_single |> ] |> ] |>.
  Definition cb : cmd := build_self (with_bin c0 [112]).
  Definition sub : cmd := match build_subcommand cb w_add with Some s => s | None => cmd_new [] end.
  (** -v -x -v -v add -n a b -n *)
  Definition pre0 : list bytes := [[45;118]; [45;120]; [45;118]; [45;118]].
  Definition rest1 : list bytes := [[45;110]; [97]; [98]; [45;110]].
  Definition lineC : list bytes := pre0 ++ w_add :: rest1.
  Definition os0 : list occ := opt_default [] (woccurrences cb pre0).
  Definition os1 : list occ := opt_default [] (woccurrences sub rest1).
  Definition stC : ps := match get_matches_with 4 cb lineC ps_new with ROk s => s | _ => ps_new end.
  Ltac vmr := vm_compute; reflexivity.
  Ltac solve_nosub := let v := fresh "v" in intros v; destruct v; vm_compute; reflexivity.
  Ltac in_args := vm_compute; repeat (try (left; reflexivity); right).
  Ltac one_flag ch := eapply Chain.it_cluster; [solve_nosub|];
    exists ch, []; split; [reflexivity|]; split; [discriminate|]; split; [reflexivity|];
    eapply cf_cons; [reflexivity|vmr|vmr|apply cf_nil].

  Example lineC_cline : cline cb lineC [(cb, os0); (sub, os1)].
  Proof.
    unfold lineC.
    eapply (cl_sub cb pre0 _ os0 w_add _ _ sub rest1 [(sub, os1)]).
    - split; vmr.
    - eapply (Chain.po_cons _ [[45;118]] _ [[45;120]; [45;118]; [45;118]]); [one_flag 118|].
      eapply (Chain.po_cons _ [[45;120]] _ [[45;118]; [45;118]]); [one_flag 120|].
      eapply (Chain.po_cons _ [[45;118]] _ [[45;118]]); [one_flag 118|].
      eapply (Chain.po_cons _ [[45;118]] _ []); [one_flag 118|apply Chain.po_nil].
    - vmr.
    - vmr.
    - vmr.
    - eapply Chain.sel_name; [vmr|vmr|vmr|vmr].
    - vmr.
    - vmr.
    - apply cl_end; vmr.
  Qed.
  Example lineC_parses : get_matches_with 4 cb lineC ps_new = ROk stC.
  Proof. vmr. Qed.
  Eval vm_compute in map (map (fun p => (fst p, m_source (snd p), m_raw (snd p)))) (Globals.levels (into_inner (mt stC))).

  (** level 0: -v counts the two occurrences after -x; level 1: -n twice, the files one group each *)
  Lemma two_levels x0 o0 x1 o1 L : Forall2 level_rel [(x0, o0); (x1, o1)] L ->
    exists a0 a1, L = [a0; a1] /\ level_form x0 o0 a0 /\ level_form x1 o1 a1.
  Proof.
    intros H. inversion H as [|x a0 l l' R0 H1]; subst. inversion H1 as [|y a1 l2 l2' R1 H2]; subst.
    inversion H2; subst. exists a0, a1. auto.
  Qed.
  Lemma two_ok x0 o0 x1 o1 :
    Forall (fun p : cmd * list occ => assert_app (fst p) = true /\ Forall (wscanned (fst p)) (snd p)) [(x0, o0); (x1, o1)] ->
    (assert_app x0 = true /\ Forall (wscanned x0) o0) /\ (assert_app x1 = true /\ Forall (wscanned x1) o1).
  Proof. intros H. inversion H as [|? ? H0 H1]; subst. inversion H1; subst. auto. Qed.

  Example both_levels :
    exists a0 a1,
      Globals.levels (into_inner (mt stC)) = [a0; a1] /\ Globals.chain (into_inner (mt stC)) = [w_add] /\
      option_map m_raw (fm_get [118] a0) = Some [[[50]]] /\
      option_map m_raw (fm_get [110] a1) = Some [[[50]]] /\
      option_map m_raw (fm_get [70] a1) = Some [[[97]]; [[98]]].
  Proof.
    destruct (chain_level_forms cb lineC _ lineC_cline 4 stC lineC_parses) as [HL HC].
    destruct (two_ok _ _ _ _ (cline_levels_ok cb lineC _ lineC_cline)) as [[HA0 HS0] [HA1 HS1]].
    destruct (two_levels _ _ _ _ _ HL) as [a0 [a1 [EL [R0 R1]]]].
    exists a0, a1. split; [exact EL|]. split; [rewrite HC; vmr|].
    set (av := match find_arg cb [118] with Some a => a | None => arg_new [] end).
    set (an := match find_arg sub [110] with Some a => a | None => arg_new [] end).
    set (af := match find_arg sub [70] with Some a => a | None => arg_new [] end).
    split; [|split].
    - assert (Hin : In av (c_args cb)) by in_args.
      assert (CF : count_flag av) by (unfold count_flag; split; [|split; [|split]]; vmr).
      destruct (level_count cb os0 a0 av HA0 HS0 R0 Hin CF) as [H _].
      destruct (H ltac:(vm_compute; lia)) as [e [Ge [Re _]]].
      assert (E : a_id av = [118]) by vmr. rewrite E in Ge. rewrite Ge. cbn [option_map]. rewrite Re. vmr.
    - assert (Hin : In an (c_args sub)) by in_args.
      assert (CF : count_flag an) by (unfold count_flag; split; [|split; [|split]]; vmr).
      destruct (level_count sub os1 a1 an HA1 HS1 R1 Hin CF) as [H _].
      destruct (H ltac:(vm_compute; lia)) as [e [Ge [Re _]]].
      assert (E : a_id an = [110]) by vmr. rewrite E in Ge. rewrite Ge. cbn [option_map]. rewrite Re. vmr.
    - assert (Hin : In af (c_args sub)) by in_args.
      destruct (level_append sub os1 a1 af HA1 HS1 R1 Hin ltac:(vmr) ltac:(vmr)) as [H _].
      destruct (H ltac:(vm_compute; lia)) as [e [Ge [Re _]]].
      assert (E : a_id af = [70]) by vmr. rewrite E in Ge. rewrite Ge. cbn [option_map]. rewrite Re. vmr.
  Qed.
  Example top_hyps : is_set s_no_binary_name c0 = false /\ is_set s_ignore_errors cb = false /\
    UnparseTree.no_globals (build_recursive (S (S (depth cb))) (with_bin c0 [112])) = true.
  Proof. split; [|split]; vmr. Qed.
  Definition mC : matches := match parse_top c0 ([112] :: lineC) with OOk m => m | _ => Matches [] None end.
  Example top_level : parse_top c0 ([112] :: lineC) = OOk mC /\ Globals.chain mC = [w_add] /\
    exists a0 a1, Globals.levels mC = [a0; a1] /\ level_form cb os0 a0 /\ level_form sub os1 a1.
  Proof.
    assert (HP : parse_top c0 ([112] :: lineC) = OOk mC) by vmr.
    destruct top_hyps as [H1 [H2 H3]].
    destruct (chain_levels_top c0 [112] lineC _ mC H1 H2 H3 lineC_cline HP) as [HL HC].
    split; [exact HP|]. split; [rewrite HC; vmr|]. exact (two_levels _ _ _ _ _ HL).
  Qed.
End ChainExamples.
