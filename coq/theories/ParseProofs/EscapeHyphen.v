(** Property C05, round 3: verbatim delivery for trees WITH hyphen-accepting arguments.

    [EscapeTop.level_tail_verbatim] / [gmw_delivered] / [parse_top_delivered_g] without the hypothesis "no
    argument of the level accepts hyphen values": the conclusions are the same, with one more case -- the
    documented exception ([EscapeWalk.hyphen_exception]): an argument accepting hyphen values was still being
    collected when the [--] arrived, which is then one of its values. *)
From ClapModel Require Import Base.Bytes Base.Machine Base.Utf8 Lex.OsStrExtModel.
From ClapModel Require Import Parse.Cmd Parse.Build Parse.Valid Parse.Matcher Parse.Errors Parse.Validator Parse.Parser.
From ClapModel Require Import ParseProofs.Safe ParseProofs.Invariant ParseProofs.Totality ParseProofs.TotalityMain
  ParseProofs.Sources ParseProofs.Spelling ParseProofs.Dispatch ParseProofs.Provenance
  ParseProofs.Escape ParseProofs.EscapeWalk ParseProofs.EscapeStore ParseProofs.EscapeSub ParseProofs.EscapeLevel
  ParseProofs.EscapeChain ParseProofs.EscapeDisplay ParseProofs.EscapeGlobals ParseProofs.EscapeTop ParseProofs.EscapeAny.
From Coq Require Import ZArith Lia List Bool.
From RecordUpdate Require Import RecordSet.
Import RecordSetNotations.
Import ListNotations.
Open Scope N_scope.

Section LevelH.
Variable c : cmd.
Hypothesis Hl : lvl c.
Hypothesis Hst : lvl_store c.
Hypothesis Hdd : forall vaf, possible_subcommand c dashdash vaf = None.
Let W3 := proj1 Hl.
Let WP := proj1 (proj2 Hl).

Theorem level_tail_verbatim_h f pre t st0 st' :
  t <> [] -> mt_pending (mt st0) = None ->
  get_matches_with (S f) c (pre ++ dashdash :: t) st0 = ROk st' ->
  (consumed_sink c t st0 st' (parse_loop c (pre ++ dashdash :: t) ls0 st0) /\
   consumed_chain c t st0 st' (parse_loop c (pre ++ dashdash :: t) ls0 st0))
  \/ (exists n k v st1 r, parse_loop c (pre ++ dashdash :: t) ls0 st0 = ROk (LSub n k v st1 (r ++ dashdash :: t)))
  \/ (exists tk r st1, parse_loop c (pre ++ dashdash :: t) ls0 st0 = ROk (LExternal tk (r ++ dashdash :: t) st1))
  \/ hyphen_exception c t t ls0 st0
       (parse_loop c (pre ++ dashdash :: t) ls0 st0) (parse_loop c (pre ++ dashdash :: t) ls0 st0).
Proof.
  intros Ht Hp0 H. rewrite gmw_unfold in H.
  destruct (post_ok_inv _ _ _ H) as (stp & s2 & s3 & Hparsed & Hr & He & Hd).
  destruct (TV0 c st0 Hp0) as [HTV HLTV].
  destruct (escape_line_sim_h c W3 WP Hdd pre t t ls0 st0 HTV HLTV) as [Hs2|Hex]; [|right; right; right; exact Hex].
  pose proof (esim_left c _ _ _ _ _ _ Hs2) as Hs. clear Hs2.
  unfold parsed_of in Hparsed. fold ls0 in Hparsed.
  remember (parse_loop c (pre ++ dashdash :: t) ls0 st0) as R eqn:ER.
  destruct Hs as [x ls' st1 Htr H1 Hpos Hsub|e1 s1|x|n k v s1 r|r s1|tk r s1]; cbn [rbind] in Hparsed; try discriminate Hparsed.
  - left. symmetry in ER.
    destruct (parse_loop c (x ++ t) ls' st1) as [lr|e1 s1|x1] eqn:EL; cbn [rbind] in Hparsed; try discriminate Hparsed.
    split.
    + intros a Hsink.
      assert (Hsa : sink_arg c (l_pos ls') = Some a) by (apply (sink_from_at c 1 a); [exact Hsink|exact (proj1 Hpos)]).
      destruct (trailing_sink_done c _ _ _ _ _ Htr Hsa EL) as [st1' ->]. injection Hparsed as ->.
      destruct (trailing_sink_store c Hl Hst x t ls' st1 stp s2 a Htr Hsa H1 Ht EL Hr)
        as (stb & e & gs & early' & t' & F & G1 & G2 & G3 & G4 & G5 & _ & G7).
      exists stp, e, gs, early', t'. split; [reflexivity|]. split.
      * destruct (add_env_frame c s2 s3 G5 He) as (Hp3 & Hs3 & _).
        destruct (add_defaults_frame c s3 st' Hp3 Hd) as (_ & Hs4 & _).
        rewrite Hs4, Hs3, G7, (flush_sub c _ _ _ F). exact Hsub.
      * destruct (sink_in c _ _ Hsa) as [Hin _].
        split; [eapply phases_keep; [exact G5|exact He|exact Hd|exact (proj2 Hst a Hin)|exact G1]|]. auto.
    + intros Hch.
      assert (Hrg : in_range c (l_pos ls')).
      { apply (proj2 Hpos); [exact (proj1 (proj2 (chain_facts c Hch)))|exact (in_range_1 c Hch)]. }
      destruct (chain_done c Hch _ _ _ _ Htr Hrg EL) as [st1' ->]. injection Hparsed as ->.
      assert (Hne : x ++ t <> []) by (destruct x; [exact Ht|discriminate]).
      pose proof (chain_run c Hl Hst Hch (x ++ t) ls' st1 stp s2 Hne Htr H1 EL Hr) as Hcf.
      pose proof (Spelling.resolve_pending_clears c stp s2 Hr) as Hnone.
      exists stp, x, (l_pos ls'). split; [reflexivity|]. split.
      * destruct (add_env_frame c s2 s3 Hnone He) as (Hp3 & Hs3 & _).
        destruct (add_defaults_frame c s3 st' Hp3 Hd) as (_ & Hs4 & _).
        rewrite Hs4, Hs3.
        pose proof (resolve_pending_sub c (mt_sub (mt stp)) stp eq_refl) as Hk. rewrite Hr in Hk. cbn in Hk.
        unfold Dispatch.S_ in Hk. rewrite Hk, (chain_sub c Hch _ _ _ _ Htr EL). exact Hsub.
      * eapply chain_filled_mono; [|exact Hcf]. intros a e Hin _ Hy. cbv beta in *.
        eapply phases_keep; [exact Hnone|exact He|exact Hd|exact (proj2 Hst a Hin)|exact Hy].
  - right. left. exists n, k, v, s1, r. reflexivity.
  - right. right. left. exists tk, r, s1. reflexivity.
Qed.
End LevelH.

(** [delivered] with the fourth case: the level declares an argument accepting hyphen values (which was being
    collected at the [--]: [level_tail_verbatim_h]) *)
Fixpoint delivered_h (fuel : nat) (c : cmd) (t : list bytes) (m : matches) : Prop :=
  match fuel with
  | O => False
  | S f =>
      ((forall a, sink_from c 1 a ->
          ms_sub m = None /\
          exists e gs early' t', fm_get (a_id a) (ms_args m) = Some e /\ m_raw e = gs ++ [early' ++ t']
                                 /\ m_source e = Some SCmdLine /\ tail_form c a t = Some t')
       /\ (chainc c = true ->
           ms_sub m = None /\ exists x pc, chain_filled c (fun y => fm_get y (ms_args m)) pc (x ++ t)))
      \/ (exists name sc sm, build_subcommand c name = Some sc /\ ms_sub m = Some (c_name sc, sm) /\ delivered_h f sc t sm)
      \/ (exists name vals sm, ms_sub m = Some (name, sm) /\ ms_sub sm = None /\
                               fm_get ext_id (ms_args sm) = Some (ext_marg (vals ++ dashdash :: t)))
      \/ (exists a, In a (c_args c) /\ a_hyphen a = true)
  end.

Theorem gmw_delivered_h : forall fuel c pre t st0 st',
  esc_okh fuel c -> t <> [] -> mt_pending (mt st0) = None -> mt_sub (mt st0) = None ->
  get_matches_with fuel c (pre ++ dashdash :: t) st0 = ROk st' ->
  delivered_h fuel c t (into_inner (mt st')).
Proof.
  induction fuel as [|f IH]; intros c pre t st0 st' Hok Ht Hp0 Hs0 H; [destruct Hok|].
  destruct Hok as (Hwf & Happ & Hig & Hdd & Hch).
  pose proof (lvl_of_wfc c Hwf Happ) as Hl. pose proof (lvl_store_of_wfc c Hwf Happ) as Hst.
  destruct (level_tail_verbatim_h c Hl Hst Hdd f pre t st0 st' Ht Hp0 H) as [Hc|[Hc|[Hc|Hc]]].
  - cbn [delivered_h]. left. destruct Hc as [Hc1 Hc2]. split.
    + intros a Ha. destruct (Hc1 a Ha) as (st1 & e & gs & early' & t' & _ & G1 & G2 & G3 & G4 & G5).
      split; [cbn; rewrite G1; exact Hs0|]. exists e, gs, early', t'. auto.
    + intros Hcc. destruct (Hc2 Hcc) as (st1 & x & pc & _ & G1 & G2).
      split; [cbn; rewrite G1; exact Hs0|]. exists x, pc. exact G2.
  - destruct Hc as (n & k & v & st1 & r & EL). rewrite gmw_unfold in H.
    destruct (post_ok_inv c _ _ H) as (stp & s2 & s3 & Hparsed & _).
    pose proof (post_keeps_sub c (mt_sub (mt stp)) (ROk stp) eq_refl) as Hk.
    rewrite Hparsed in H. rewrite H in Hk. cbn in Hk. unfold Dispatch.S_ in Hk.
    unfold parsed_of in Hparsed. change (mkL PSValuesDone 1 false false) with ls0 in Hparsed. rewrite EL in Hparsed.
    cbn [rbind] in Hparsed.
    destruct (after_sub_ok _ _ _ _ _ _ _ _ Hig Hparsed) as (sc0 & sc & sub_st & Ef & Eb & Eg & ->).
    cbn [delivered_h]. right. left. exists (c_name sc0), sc, (into_inner (mt sub_st)).
    split; [exact Eb|]. split; [cbn [into_inner ms_sub]; rewrite Hk; reflexivity|].
    apply (IH sc r t (sub_init k st1) sub_st (Hch _ _ Eb) Ht); [| |exact Eg]; unfold sub_init; destruct k; reflexivity.
  - destruct Hc as (tk & r & st1 & EL). rewrite gmw_unfold in H.
    destruct (post_ok_inv c _ _ H) as (stp & s2 & s3 & Hparsed & _).
    pose proof (post_keeps_sub c (mt_sub (mt stp)) (ROk stp) eq_refl) as Hk.
    rewrite Hparsed in H. rewrite H in Hk. cbn in Hk. unfold Dispatch.S_ in Hk.
    unfold parsed_of in Hparsed. change (mkL PSValuesDone 1 false false) with ls0 in Hparsed. rewrite EL in Hparsed.
    cbn [rbind] in Hparsed.
    pose proof (external_verbatim c tk (r ++ dashdash :: t) st1) as Hx. rewrite Hparsed in Hx. cbn [holds] in Hx.
    cbn [delivered_h]. right. right. left. exists tk, r, (Matches [(ext_id, ext_marg (r ++ dashdash :: t))] None).
    cbn [into_inner ms_sub]. rewrite Hk, Hx. split; [reflexivity|]. split; reflexivity.
  - cbn [delivered_h]. right. right. right. exact (hyphen_exception_arg _ _ _ _ _ _ _ Hc).
Qed.

(** on a tree without hyphen-accepting arguments [delivered_h] is [delivered] *)
Lemma delivered_h_plain : forall f c t m, esc_ok f c -> delivered_h f c t m -> delivered f c t m.
Proof.
  induction f as [|f IH]; intros c t m Hok H; [destruct H|].
  destruct Hok as (_ & _ & _ & Hnh & _ & _ & Hch). cbn [delivered_h delivered] in *.
  destruct H as [H|[(name & sc & sm & Eb & Es & Hr)|[H|(a & Hin & Hh)]]].
  - left. exact H.
  - right. left. exists name, sc, sm. split; [exact Eb|]. split; [exact Es|]. exact (IH sc t sm (Hch _ _ Eb) Hr).
  - right. right. exact H.
  - rewrite (Hnh a Hin) in Hh. discriminate.
Qed.

Lemma delivered_h_sng gl : forall f c t m m', pos_free gl f c -> delivered_h f c t m -> sng gl m m' -> delivered_h f c t m'.
Proof.
  induction f as [|f IH]; intros c t m m' Hp Hd Hs; [destruct Hd|].
  destruct m as [a s], m' as [a' s']. destruct Hp as (Hp & He & Hch). destruct Hs as [Hs1 Hs2].
  cbn [delivered_h ms_sub ms_args] in *.
  destruct Hd as [[D1 D2]|[(name & sc & sm & Eb & Esub & Hd)|[(name & vals & sm & Esub & Hn & Hext)|Hh]]].
  - left. split.
    + intros x Hx. destruct (D1 x Hx) as (Hnone & e & gs & early & t' & G1 & G2). subst s.
      destruct s' as [[? ?]|]; [contradiction|]. split; [reflexivity|]. exists e, gs, early, t'. split; [|exact G2].
      assert (Hsa : sink_arg c 1 = Some x) by (destruct Hx as [Hx|[_ Hx]]; [apply Hx|exact Hx]).
      destruct (sink_in c _ _ Hsa) as [Hin Hidx]. rewrite (Hs1 _ (Hp x Hin Hidx)). exact G1.
    + intros Hcc. destruct (D2 Hcc) as (Hnone & x & pc & Hcf). subst s.
      destruct s' as [[? ?]|]; [contradiction|]. split; [reflexivity|]. exists x, pc.
      eapply chain_filled_mono; [|exact Hcf]. intros b e Hin Hidx Hb. cbv beta in *. rewrite (Hs1 _ (Hp b Hin Hidx)). exact Hb.
  - right. left. subst s. destruct s' as [[n' sm']|]; [|contradiction]. destruct Hs2 as [<- Hs2].
    exists name, sc, sm'. split; [exact Eb|]. split; [reflexivity|]. exact (IH sc t sm sm' (Hch _ _ Eb) Hd Hs2).
  - right. right. left. subst s. destruct s' as [[n' sm']|]; [|contradiction]. destruct Hs2 as [<- Hs2].
    exists name, vals, sm'. split; [reflexivity|].
    destruct sm as [sa ss], sm' as [sa' ss']. cbn [ms_sub ms_args sng] in *. destruct Hs2 as [Hq1 Hq2]. subst ss.
    split; [destruct ss' as [[? ?]|]; [contradiction|reflexivity]|]. rewrite (Hq1 _ He). exact Hext.
  - right. right. right. exact Hh.
Qed.

(** the boolean class: [esc_class_h] (hyphen-accepting arguments, global arguments allowed) and no positional of
    any level (nor the external-subcommand slot) carries the id of a global argument of the tree *)
Definition esc_class_hg (c0 : cmd) : bool :=
  esc_class_h c0 && pos_freeb (tree_globals c0) (top_fuel c0) (build_self c0).

Theorem do_parse_delivered_h c0 pre t m :
  esc_class_hg c0 = true -> t <> [] ->
  do_parse c0 (pre ++ dashdash :: t) = OOk m ->
  delivered_h (top_fuel c0) (build_self c0) t m.
Proof.
  unfold esc_class_hg. intros Hc Ht H. apply andb_true_iff in Hc as [Hc Hpf].
  destruct (esc_class_h_ok c0 Hc) as (Hv & Hok & Hig).
  destruct (do_parse_ok_inv_h _ _ _ Hc H) as (st & Eg & Hs).
  pose proof (gmw_delivered_h _ _ pre t ps_new st Hok Ht eq_refl eq_refl Eg) as Hd.
  exact (delivered_h_sng _ _ _ _ _ _ (pos_free_of _ _ _ Hpf) Hd Hs).
Qed.

Theorem parse_top_delivered_h c0 bin pre t m :
  esc_class_hg c0 = true -> is_set s_no_binary_name c0 = false -> c_bin_name c0 <> None -> t <> [] ->
  parse_top c0 (bin :: pre ++ dashdash :: t) = OOk m ->
  delivered_h (top_fuel c0) (build_self c0) t m.
Proof.
  intros Hc Hnb Hb Ht. unfold parse_top. rewrite Hnb. destruct (c_bin_name c0); [|contradiction].
  apply do_parse_delivered_h; assumption.
Qed.

(** * Non-vacuity: the tree of [EscapeAny.h_c0] under a root; the root has no hyphen-accepting argument, the
    subcommand has one that is not being collected at the [--] *)
Definition hs_sub : cmd := (cmd_new [115; 117; 98]) <| c_args := [h_opt; h_pos] |>.
Definition hs_c0 : cmd := (cmd_new [112]) <| c_args := [g_flag] |> <| c_subs := [hs_sub] |> <| c_bin_name := Some [112] |>.

Example ex_hg_class : esc_class_hg hs_c0 = true /\ esc_class0 hs_c0 = false /\ esc_class_g hs_c0 = false.
Proof. repeat split; vm_compute; reflexivity. Qed.

(** [prog --g sub --opt v w -- --help -x --]: delivered to the subcommand's positional *)
Example ex_hg_run :
  match parse_top hs_c0 ([112] :: [w_g; t_sub; w_opt; w_v; w_w] ++ dashdash :: [t_help; w_x; dashdash]) with
  | OOk (Matches _ (Some (n, Matches sargs None))) =>
      n = t_sub /\ opt_map m_raw (fm_get [112] sargs) = Some [[t_help; w_x; dashdash]] /\
      opt_map m_raw (fm_get [111] sargs) = Some [[w_v; w_w]]
  | _ => False
  end.
Proof. vm_compute. repeat split; reflexivity. Qed.

(** the subcommand's level is a sink level; the fourth case of [delivered_h] is all the theorem says at a level
    with a hyphen-accepting argument being collected: [prog sub --opt -- --help] *)
Example ex_hg_exception :
  match parse_top hs_c0 ([112] :: [t_sub; w_opt] ++ dashdash :: [t_help]) with
  | OOk (Matches _ (Some (n, Matches sargs None))) =>
      n = t_sub /\ opt_map m_raw (fm_get [111] sargs) = Some [[dashdash; t_help]] /\ fm_get [112] sargs = None
  | _ => False
  end.
Proof. vm_compute. repeat split; reflexivity. Qed.
