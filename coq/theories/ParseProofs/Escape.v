(** Property C05: everything after [--] is delivered verbatim as positional values.

    Facts about [Parser.parse_loop] once [l_trailing] is set (the Rust local
    [trailing_values] of [Parser::parse]) and about the iteration that sets it. *)
From ClapModel Require Import Base.Bytes Base.Machine Base.Utf8 Lex.OsStrExtModel.
From ClapModel Require Import Parse.Cmd Parse.Build Parse.Valid Parse.Matcher Parse.Errors Parse.Validator Parse.Parser.
From Coq Require Import ZArith Lia.
From RecordUpdate Require Import RecordSet.
Import RecordSetNotations.
Open Scope N_scope.

Section Escape.
Variable c : cmd.

(** * The trailing-mode loop

    [absorb] is what is left of [parse_loop] when [trailing_values] is true: no call of
    [possible_subcommand] on the current token, no [is_escape], [to_long], [to_short],
    [parse_long_arg], [parse_short_arg], no pending-option branch.  A token is only compared with
    the value terminator of the positional it is delivered to, and pushed. *)

(** the [pos_counter = { ... }] block with [trailing_values = true] ([missing_pos] is false) *)
Definition pos_correct (pc : N) (vaf : bool) (rest : list bytes) : res N :=
  let positional_count := positional_count c in
  let contains_last := existsb a_last (c_args c) in
  let is_second_to_last := (pc + 1 =? positional_count) in
  let low_index_mults := is_second_to_last
       && existsb (fun a => a_is_multiple a && negb (positional_count =? opt_default 0 (a_index a))) (positionals c)
       && match last (map Some (positionals c)) None with Some p => negb (a_last p) | None => false end in
  let is_terminated := match get_pos c pc with Some a => is_some (a_term a) | None => false end in
  if low_index_mults && negb is_terminated then
    match rest with
    | n :: _ =>
        match List.find (fun a => match a_index a with Some k => k =? pc | None => false end) (positionals c) with
        | Some a => do na <- is_new_arg c n a;
                    ROk (if na || is_some (possible_subcommand c n vaf) then pc + 1 else pc)
        | None => ROk (pc + 1)
        end
    | [] => ROk (pc + 1)
    end
  else if is_set s_allow_missing_pos c || contains_last then ROk positional_count
  else ROk pc.

(** what happens to a token that no positional can take *)
Definition overflow (tok : bytes) (rest : list bytes) (vaf : bool) (st : ps) : res loop_res :=
  if is_set s_allow_external c then
    if utf8_valid tok then ROk (LExternal tok rest st)
    else do st1 <- resolve_pending_ignore c st; RErr (mkerr c EInvalidUtf8 []) st1
  else do st1 <- resolve_pending_ignore c st;
       RErr (match_arg_error c tok vaf true) st1.

(** one iteration in trailing mode; [rec] is the rest of the loop *)
Definition pos_body (rec : lstate -> ps -> res loop_res) (tok : bytes) (rest : list bytes)
           (ls : lstate) (st : ps) : res loop_res :=
  do pc' <- pos_correct (l_pos ls) (l_vaf ls) rest;
  match get_pos c pc' with
  | Some a =>
      do st1 <- (if negb (match pending_arg_id (mt st) with Some i => beq i (a_id a) | None => false end)
                    || negb (a_multiple_values a)
                 then resolve_pending c st else ROk st);
      if check_terminator a tok then rec (mkL PSValuesDone (pc' + 1) true true) st1
      else
        do m1 <- expect 415 (pending_values_push (mt st1) (a_id a) (Some IIndex) true (Some tok));
        if negb (a_is_multiple a)
        then rec (mkL PSValuesDone (pc' + 1) true true) (st1 <| mt := m1 |>)
        else rec (mkL (PSPos (a_id a)) pc' true true) (st1 <| mt := m1 |>)
  | None => overflow tok rest (l_vaf ls) st
  end.

Fixpoint absorb (toks : list bytes) (ls : lstate) (st : ps) : res loop_res :=
  match toks with
  | [] => ROk (LDone st)
  | tok :: rest => pos_body (absorb rest) tok rest ls st
  end.

Lemma parse_loop_trailing_step : forall tok rest ls st,
  l_trailing ls = true ->
  parse_loop c (tok :: rest) ls st = pos_body (parse_loop c rest) tok rest ls st.
Proof.
  intros tok rest [pst pc vaf tr] st H. cbn [l_trailing] in H. subst tr.
  unfold pos_body, pos_correct.
  cbn [parse_loop l_trailing l_pos l_vaf l_pst rbind negb orb andb].
  rewrite !andb_false_r, orb_false_r.
  match goal with |- rbind ?x _ = _ => destruct x as [pc'| |] end; cbn [rbind]; try reflexivity.
  destruct (get_pos c pc') as [a|]; [|reflexivity].
  rewrite andb_false_r. reflexivity.
Qed.


Lemma pos_body_ext r1 r2 tok rest ls st :
  (forall ls' st', l_trailing ls' = true -> r1 ls' st' = r2 ls' st') ->
  pos_body r1 tok rest ls st = pos_body r2 tok rest ls st.
Proof.
  intros H. unfold pos_body.
  destruct (pos_correct _ _ _) as [pc'| |]; cbn [rbind]; try reflexivity.
  destruct (get_pos c pc') as [a|]; [|reflexivity].
  match goal with |- rbind ?x _ = _ => destruct x as [st1| |] end; cbn [rbind]; try reflexivity.
  destruct (check_terminator a tok); [apply H; reflexivity|].
  destruct (expect _ _) as [m1| |]; cbn [rbind]; try reflexivity.
  destruct (negb _); apply H; reflexivity.
Qed.

(** ** One trailing-mode iteration, relationally *)

(** the occurrence being collected is closed unless it already belongs to the (multi-valued)
    positional [a] *)
Definition flush_for (a : arg) (st : ps) : res ps :=
  if negb (match pending_arg_id (mt st) with Some i => beq i (a_id a) | None => false end)
     || negb (a_multiple_values a)
  then resolve_pending c st else ROk st.

(** [tstep tok rest ls st ls' st']: the iteration on [tok] continues the loop with [ls'], [st'].
    The token is looked at in exactly two places: [check_terminator a tok] and the push. *)
Inductive tstep (tok : bytes) (rest : list bytes) (ls : lstate) (st : ps) : lstate -> ps -> Prop :=
| TS_term : forall pc' a st1,
    pos_correct (l_pos ls) (l_vaf ls) rest = ROk pc' -> get_pos c pc' = Some a ->
    flush_for a st = ROk st1 -> check_terminator a tok = true ->
    tstep tok rest ls st (mkL PSValuesDone (pc' + 1) true true) st1
| TS_push : forall pc' a st1 m1,
    pos_correct (l_pos ls) (l_vaf ls) rest = ROk pc' -> get_pos c pc' = Some a ->
    flush_for a st = ROk st1 -> check_terminator a tok = false ->
    pending_values_push (mt st1) (a_id a) (Some IIndex) true (Some tok) = Some m1 ->
    tstep tok rest ls st
          (if negb (a_is_multiple a) then mkL PSValuesDone (pc' + 1) true true
           else mkL (PSPos (a_id a)) pc' true true)
          (st1 <| mt := m1 |>).

Definition overflow_kind (k : ekind) : bool :=
  match k with EUnknownArgument | EInvalidUtf8 | EArgumentConflict | EInvalidSubcommand => true | _ => false end.

(** [tstop tok rest ls st r]: the iteration on [tok] ends the loop with [r] *)
Inductive tstop (tok : bytes) (rest : list bytes) (ls : lstate) (st : ps) : res loop_res -> Prop :=
| TP_panic : forall s, tstop tok rest ls st (RPanic s)
| TP_external : forall pc',
    pos_correct (l_pos ls) (l_vaf ls) rest = ROk pc' -> get_pos c pc' = None ->
    is_set s_allow_external c = true ->
    tstop tok rest ls st (ROk (LExternal tok rest st))
| TP_overflow : forall pc' e st1,
    pos_correct (l_pos ls) (l_vaf ls) rest = ROk pc' -> get_pos c pc' = None ->
    overflow_kind (e_kind e) = true ->
    tstop tok rest ls st (RErr e st1)
| TP_flush : forall e st1,
    resolve_pending c st = RErr e st1 ->
    tstop tok rest ls st (RErr e st1).

Lemma match_arg_error_kind tok vaf tr : overflow_kind (e_kind (match_arg_error c tok vaf tr)) = true.
Proof.
  unfold match_arg_error, mkerr.
  repeat match goal with |- context [if ?x then _ else _] => destruct x end; reflexivity.
Qed.

Lemma is_new_arg_no_err n a e st : is_new_arg c n a <> RErr e st.
Proof.
  unfold is_new_arg, expect. destruct (find_arg c (a_id a)); cbn [rbind]; [|discriminate].
  repeat match goal with |- context [if ?x then _ else _] => destruct x end; discriminate.
Qed.

Lemma pos_correct_no_err pc vaf rest e st : pos_correct pc vaf rest <> RErr e st.
Proof.
  unfold pos_correct.
  repeat match goal with
         | |- context [if ?x then _ else _] => destruct x
         | |- context [match rest with _ => _ end] => destruct rest
         | |- context [match List.find ?f ?l with _ => _ end] => destruct (List.find f l)
         end; try discriminate.
  pose proof (is_new_arg_no_err b a) as H.
  destruct (is_new_arg c b a) as [x|e0 st0|s0]; cbn [rbind]; try discriminate.
  exfalso. apply (H e0 st0). reflexivity.
Qed.

Lemma pos_body_cases rec tok rest ls st :
  (exists ls' st', tstep tok rest ls st ls' st' /\ pos_body rec tok rest ls st = rec ls' st')
  \/ tstop tok rest ls st (pos_body rec tok rest ls st).
Proof.
  unfold pos_body.
  destruct (pos_correct (l_pos ls) (l_vaf ls) rest) as [pc'|e s|s] eqn:Epc; cbn [rbind].
  2:{ exfalso. exact (pos_correct_no_err _ _ _ _ _ Epc). }
  2:{ right. constructor. }
  destruct (get_pos c pc') as [a|] eqn:Eg.
  - fold (flush_for a st).
    destruct (flush_for a st) as [st1|e s|s] eqn:Ef; cbn [rbind].
    + destruct (check_terminator a tok) eqn:Et.
      * left. eexists _, _. split; [eapply TS_term; eassumption|reflexivity].
      * destruct (pending_values_push (mt st1) (a_id a) (Some IIndex) true (Some tok)) as [m1|] eqn:Ep;
          cbn [expect rbind].
        -- left. eexists _, _. split; [eapply TS_push; eassumption|].
           destruct (negb (a_is_multiple a)); reflexivity.
        -- right. constructor.
    + right. apply TP_flush. unfold flush_for in Ef.
      destruct (_ || _) in Ef; [exact Ef|discriminate].
    + right. constructor.
  - unfold overflow.
    destruct (is_set s_allow_external c) eqn:Ex.
    + destruct (utf8_valid tok).
      * right. eapply TP_external; eassumption.
      * unfold resolve_pending_ignore. destruct (resolve_pending c st); cbn [rbind];
          try (right; eapply TP_overflow; [eassumption..|reflexivity]). right; constructor.
    + unfold resolve_pending_ignore. destruct (resolve_pending c st); cbn [rbind];
        try (right; eapply TP_overflow; [eassumption..|apply match_arg_error_kind]). right; constructor.
Qed.

(** ** The whole trailing-mode loop as a chain of steps *)

(** [truns suffix pre ls st ls' st']: the tokens [pre] (followed on the command line by [suffix])
    are consumed by successive [tstep]s *)
Inductive truns (suffix : list bytes) : list bytes -> lstate -> ps -> lstate -> ps -> Prop :=
| TR_nil : forall ls st, truns suffix [] ls st ls st
| TR_cons : forall tok pre ls st ls1 st1 ls2 st2,
    tstep tok (pre ++ suffix) ls st ls1 st1 -> truns suffix pre ls1 st1 ls2 st2 ->
    truns suffix (tok :: pre) ls st ls2 st2.

Lemma tstep_trailing tok rest ls st ls' st' : tstep tok rest ls st ls' st' -> l_trailing ls' = true.
Proof. intros [pc' a st1 _ _ _ _|pc' a st1 m1 _ _ _ _ _]; [reflexivity|destruct (negb _); reflexivity]. Qed.

(** the loop result is [LDone] after a chain of steps over all tokens, or the stop result of
    one iteration reached by a chain of steps *)
Inductive toutcome (toks : list bytes) (ls : lstate) (st : ps) (r : res loop_res) : Prop :=
| TO_done : forall ls' st', truns [] toks ls st ls' st' -> r = ROk (LDone st') -> toutcome toks ls st r
| TO_stop : forall pre tok rest ls1 st1,
    toks = pre ++ tok :: rest -> truns (tok :: rest) pre ls st ls1 st1 ->
    tstop tok rest ls1 st1 r -> toutcome toks ls st r.

Lemma absorb_outcome : forall toks ls st, toutcome toks ls st (absorb toks ls st).
Proof.
  induction toks as [|tok rest IH]; intros ls st.
  - eapply TO_done; [constructor|reflexivity].
  - cbn [absorb].
    destruct (pos_body_cases (absorb rest) tok rest ls st) as [(ls' & st' & Hs & E)|Hstop].
    + rewrite E. destruct (IH ls' st') as [ls2 st2 Hr Er|pre tok' rest' ls1 st1 Eq Hr Hst].
      * eapply TO_done; [|exact Er]. econstructor; [rewrite app_nil_r; exact Hs|exact Hr].
      * eapply (TO_stop _ _ _ _ (tok :: pre) tok' rest'); [rewrite Eq; reflexivity| |exact Hst].
        econstructor; [rewrite <- Eq; exact Hs|exact Hr].
    + eapply (TO_stop _ _ _ _ [] tok rest); [reflexivity|constructor|exact Hstop].
Qed.

(** T1: with [trailing_values] set, [parse_loop] is [absorb] -- for every command, every token
    list (whatever the tokens look like), every state *)
Theorem trailing_is_absorb : forall toks ls st,
  l_trailing ls = true -> parse_loop c toks ls st = absorb toks ls st.
Proof.
  induction toks as [|tok rest IH]; intros ls st Htr; [reflexivity|].
  rewrite (parse_loop_trailing_step tok rest ls st Htr). cbn [absorb].
  apply pos_body_ext. intros ls' st' H. apply IH. exact H.
Qed.


(** T1': the result of the trailing-mode loop is determined by [tstep]/[tstop] alone *)
Theorem trailing_outcome : forall toks ls st,
  l_trailing ls = true -> toutcome toks ls st (parse_loop c toks ls st).
Proof. intros toks ls st H. rewrite (trailing_is_absorb toks ls st H). apply absorb_outcome. Qed.

(** no token after the escape selects a subcommand or the help subcommand; an external
    subcommand only when no positional is left for the token *)
Theorem trailing_no_dispatch : forall toks ls st r,
  l_trailing ls = true -> parse_loop c toks ls st = ROk r ->
  (exists st', r = LDone st') \/
  (exists pre tok rest st1, toks = pre ++ tok :: rest /\ r = LExternal tok rest st1 /\
                            is_set s_allow_external c = true).
Proof.
  intros toks ls st r Htr E.
  destruct (trailing_outcome toks ls st Htr) as [ls' st' _ Er|pre tok rest ls1 st1 Eq _ Hst].
  - left. exists st'. rewrite E in Er. injection Er as ->. reflexivity.
  - right. rewrite E in Hst. inversion Hst; subst. exists pre, tok, rest, st1. repeat split; assumption.
Qed.

(** * Verbatim delivery (class [sink])

    After the escape the positional counter is corrected to [sink_index pc]: the last positional
    when the command has a [last] positional or [allow_missing_positional], the current one
    otherwise.  [sink_arg pc = Some a] says that this positional is multi-valued and has no value
    terminator (and that the low-index-multiple look-ahead is not in play): then it absorbs
    every token that follows. *)
Definition low_index_mults_any : bool :=
  existsb (fun a => a_is_multiple a && negb (positional_count c =? opt_default 0 (a_index a))) (positionals c)
  && match last (map Some (positionals c)) None with Some p => negb (a_last p) | None => false end.

Definition sink_index (pc : N) : N :=
  if is_set s_allow_missing_pos c || existsb a_last (c_args c) then positional_count c else pc.

Definition sink_arg (pc : N) : option arg :=
  if low_index_mults_any then None else
  match get_pos c (sink_index pc) with
  | Some a => if a_multiple_values a && negb (is_some (a_term a)) then Some a else None
  | None => None
  end.

Lemma sink_index_idem pc : sink_index (sink_index pc) = sink_index pc.
Proof. unfold sink_index. destruct (_ || _); reflexivity. Qed.

Lemma pos_correct_sink pc vaf rest :
  low_index_mults_any = false -> pos_correct pc vaf rest = ROk (sink_index pc).
Proof.
  intros H. unfold pos_correct, sink_index. unfold low_index_mults_any in H. cbv zeta.
  destruct (pc + 1 =? positional_count c); cbn [andb]; [rewrite H|]; cbn [andb];
    destruct (is_set s_allow_missing_pos c || existsb a_last (c_args c)); reflexivity.
Qed.

Lemma sink_arg_spec pc a : sink_arg pc = Some a ->
  low_index_mults_any = false /\ get_pos c (sink_index pc) = Some a /\
  a_multiple_values a = true /\ a_term a = None.
Proof.
  unfold sink_arg. destruct low_index_mults_any; [discriminate|].
  destruct (get_pos c (sink_index pc)) as [a'|]; [|discriminate].
  destruct (a_multiple_values a') eqn:Em; [|discriminate].
  destruct (a_term a') eqn:Et; [discriminate|]. cbn. intros E. injection E as <-. auto.
Qed.

Lemma sink_arg_stable pc a : sink_arg pc = Some a -> sink_arg (sink_index pc) = Some a.
Proof. unfold sink_arg. rewrite sink_index_idem. auto. Qed.

(** values and trailing index of the occurrence being collected *)
Definition pend_raw (m : matcher) : list bytes :=
  match mt_pending m with Some p => p_raw p | None => [] end.
Definition pend_ti (m : matcher) : N :=
  match mt_pending m with
  | Some p => match p_trailing_idx p with Some t => t | None => N.of_nat (length (p_raw p)) end
  | None => 0
  end.

Lemma push_spec m i idn tok m1 :
  pending_values_push m i idn true (Some tok) = Some m1 ->
  exists p, mt_pending m1 = Some p /\ beq (p_id p) i = true /\
            p_raw p = pend_raw m ++ [tok] /\ p_trailing_idx p = Some (pend_ti m) /\
            mt_args m1 = mt_args m /\ mt_sub m1 = mt_sub m.
Proof.
  unfold pending_values_push, pend_raw, pend_ti.
  destruct (mt_pending m) as [p|].
  - destruct (beq (p_id p) i) eqn:Eb; cbn [negb]; [|discriminate].
    destruct (_ && _); [discriminate|]. intros E. injection E as <-.
    eexists. split; [reflexivity|]. cbn. repeat split; try assumption.
    destruct (p_trailing_idx p); reflexivity.
  - cbn. rewrite beq_refl. cbn [negb].
    destruct (_ && _); [discriminate|]. intros E. injection E as <-.
    eexists. split; [reflexivity|]. cbn. rewrite beq_refl. repeat split.
Qed.

(** one step at the sink *)
Lemma tstep_sink tok rest ls st ls' st' a :
  sink_arg (l_pos ls) = Some a -> tstep tok rest ls st ls' st' ->
  exists st0 p, flush_for a st = ROk st0 /\
    l_pos ls' = sink_index (l_pos ls) /\
    mt_pending (mt st') = Some p /\ beq (p_id p) (a_id a) = true /\
    p_raw p = pend_raw (mt st0) ++ [tok] /\ p_trailing_idx p = Some (pend_ti (mt st0)) /\
    mt_args (mt st') = mt_args (mt st0) /\ mt_sub (mt st') = mt_sub (mt st0) /\
    cur_idx st' = cur_idx st0.
Proof.
  intros Hs Ht. destruct (sink_arg_spec _ _ Hs) as (Hl & Hg & Hm & Hterm).
  destruct Ht as [pc' a' st1 Hpc Hg' Hf Hct|pc' a' st1 m1 Hpc Hg' Hf Hct Hp];
    rewrite (pos_correct_sink _ _ _ Hl) in Hpc; injection Hpc as <-;
    rewrite Hg in Hg'; injection Hg' as <-.
  - unfold check_terminator in Hct. rewrite Hterm in Hct. discriminate.
  - destruct (push_spec _ _ _ _ _ Hp) as (p & E1 & E2 & E3 & E4 & E5 & E6).
    exists st1, p. unfold a_is_multiple. rewrite Hm. cbn [orb negb l_pos].
    repeat split; assumption.
Qed.

Lemma truns_snoc_inv : forall pre suffix t ls st ls' st',
  truns suffix (pre ++ [t]) ls st ls' st' ->
  exists lsm stm, truns (t :: suffix) pre ls st lsm stm /\ tstep t suffix lsm stm ls' st'.
Proof.
  induction pre as [|x pre IH]; intros suffix t ls st ls' st' Hr.
  - cbn [app] in Hr. inversion Hr as [|? ? ? ? ls1 st1 ? ? Hst Hrest]; subst. inversion Hrest; subst.
    exists ls, st. split; [constructor|exact Hst].
  - cbn [app] in Hr. inversion Hr as [|? ? ? ? ls1 st1 ? ? Hst Hrest]; subst.
    destruct (IH _ _ _ _ _ _ Hrest) as (lsm & stm & Hr' & Hst').
    exists lsm, stm. split; [|exact Hst'].
    econstructor; [|exact Hr']. rewrite <- app_assoc in Hst. exact Hst.
Qed.

Lemma truns_sink : forall pre suffix ls st ls' st' a,
  sink_arg (l_pos ls) = Some a -> truns suffix pre ls st ls' st' -> sink_arg (l_pos ls') = Some a.
Proof.
  induction pre as [|x pre IH]; intros suffix ls st ls' st' a Hs Hr;
    inversion Hr as [|? ? ? ? ls1 st1 ? ? Hst Hrest]; subst; [exact Hs|].
  eapply IH; [|exact Hrest].
  destruct (tstep_sink _ _ _ _ _ _ _ Hs Hst) as (? & ? & _ & Hp & _). rewrite Hp.
  apply sink_arg_stable. exact Hs.
Qed.

(** T2: every token after the escape reaches the pending occurrence of the sink positional,
    byte for byte and in order; nothing else in the matcher changes *)
Theorem tail_verbatim : forall tail suffix tok ls st ls' st' a,
  sink_arg (l_pos ls) = Some a ->
  truns suffix (tok :: tail) ls st ls' st' ->
  exists st0 p, flush_for a st = ROk st0 /\
    mt_pending (mt st') = Some p /\ beq (p_id p) (a_id a) = true /\
    p_raw p = pend_raw (mt st0) ++ tok :: tail /\
    p_trailing_idx p = Some (pend_ti (mt st0)) /\
    mt_args (mt st') = mt_args (mt st0) /\ mt_sub (mt st') = mt_sub (mt st0) /\
    cur_idx st' = cur_idx st0.
Proof.
  induction tail as [|t2 tail IH] using rev_ind; intros suffix tok ls st ls' st' a Hs Hr.
  - inversion Hr as [|? ? ? ? ls1 st1 ? ? Hst Hrest]; subst. inversion Hrest; subst.
    destruct (tstep_sink _ _ _ _ _ _ _ Hs Hst) as (st0 & p & H1 & _ & H2 & H3 & H4 & H5 & H6 & H7 & H8).
    exists st0, p. repeat split; assumption.
  - (* split the run: all but the last token, then one step *)
    rewrite app_comm_cons in Hr.
    destruct (truns_snoc_inv _ _ _ _ _ _ _ Hr) as (lsm & stm & Hr1 & Hst).
    pose proof (truns_sink _ _ _ _ _ _ _ Hs Hr1) as Hsm.
    destruct (IH _ _ _ _ _ _ _ Hs Hr1) as (st0 & p & H1 & H2 & H3 & H4 & H5 & H6 & H7 & H8).
    destruct (tstep_sink _ _ _ _ _ _ _ Hsm Hst) as (stf & p' & F1 & _ & F2 & F3 & F4 & F5 & F6 & F7 & F8).
    (* no flush in the last step: the pending occurrence already belongs to [a] *)
    assert (stf = stm).
    { unfold flush_for, pending_arg_id in F1. rewrite H2 in F1. cbn [opt_map] in F1. rewrite H3 in F1.
      destruct (sink_arg_spec _ _ Hs) as (_ & _ & Hm & _). rewrite Hm in F1. cbn in F1.
      injection F1 as <-. reflexivity. }
    subst stf. exists st0, p'. split; [exact H1|]. split; [exact F2|]. split; [exact F3|].
    unfold pend_raw, pend_ti in F4, F5. rewrite H2 in F4, F5. rewrite H5 in F5.
    split; [rewrite F4, H4, <- app_assoc; reflexivity|].
    split; [exact F5|]. rewrite F6, F7, F8. auto.
Qed.

(** * The iteration on [--] *)
Definition dashdash : bytes := [DASH; DASH].

(** the subcommand test that precedes everything else in the non-trailing part of the loop *)
Definition sub_hit (tok : bytes) (ls : lstate) : option bytes :=
  if is_set s_sub_precedence c || match l_pst ls with PSValuesDone => true | _ => false end
  then possible_subcommand c tok (l_vaf ls) else None.

(** does the argument whose values are being collected accept hyphen values? *)
Definition hyphen_pending (sa : option arg) : bool :=
  match sa with Some a => a_hyphen a | None => false end.

(** T4: [--] switches the loop to trailing mode (and marks where the trailing values start in
    the occurrence being collected), unless the argument being collected accepts hyphen values *)
Theorem escape_recognised : forall rest ls st sa,
  l_trailing ls = false ->
  sub_hit dashdash ls = None ->
  state_arg c (l_pst ls) = ROk sa -> hyphen_pending sa = false ->
  parse_loop c (dashdash :: rest) ls st =
  parse_loop c rest (mkL (l_pst ls) (l_pos ls) (l_vaf ls) true) (st <| mt := start_trailing (mt st) |>).
Proof.
  intros rest [pst pc vaf tr] st sa Htr Hsub Hsa Hh. cbn [l_trailing l_pst l_pos l_vaf] in *. subst tr.
  unfold sub_hit in Hsub. cbn [l_pst l_vaf] in Hsub.
  cbn [parse_loop l_trailing l_pos l_vaf l_pst].
  rewrite Hsub. change (is_escape dashdash) with true. cbv iota.
  rewrite Hsa. cbn [rbind]. fold (hyphen_pending sa). rewrite Hh. reflexivity.
Qed.

(** the documented exception: an option that is still collecting values and accepts hyphen
    values takes [--] as one more value; the loop stays in classifying mode *)
Theorem hyphen_opt_takes_dashdash : forall rest ls st i a,
  l_trailing ls = false ->
  sub_hit dashdash ls = None ->
  l_pst ls = PSOpt i -> find_arg c i = Some a -> a_hyphen a = true ->
  parse_loop c (dashdash :: rest) ls st =
  if check_terminator a dashdash
  then parse_loop c rest (mkL PSValuesDone (l_pos ls) (l_vaf ls) false) st
  else
    do m1 <- expect 297 (pending_values_push (mt st) i None false (Some dashdash));
    do more <- expect 299 (needs_more_vals m1 a);
    parse_loop c rest (mkL (if more then PSOpt i else PSValuesDone) (l_pos ls) (l_vaf ls) false)
               (st <| mt := m1 |>).
Proof.
  intros rest [pst pc vaf tr] st i a Htr Hsub Hp Hf Hh. cbn [l_trailing l_pst l_pos l_vaf] in *. subst tr pst.
  unfold sub_hit in Hsub. cbn [l_pst l_vaf] in Hsub.
  cbn [parse_loop l_trailing l_pos l_vaf l_pst].
  rewrite Hsub. change (is_escape dashdash) with true. cbv iota.
  cbn [state_arg]. rewrite Hf. cbn [expect rbind]. rewrite Hh.
  cbn [rbind l_trailing l_pos l_vaf l_pst]. rewrite Hf. cbn [expect rbind]. reflexivity.
Qed.

End Escape.
