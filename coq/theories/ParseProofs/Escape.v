(** Property C05: everything after [--] is delivered verbatim as positional values.

    Facts about [Parser.parse_loop] once [l_trailing] is set (the Rust local
    [trailing_values] of [Parser::parse]) and about the iteration that sets it. *)
From ClapModel Require Import Base.Bytes Base.Machine Base.Utf8 Lex.OsStrExtModel.
From ClapModel Require Import Parse.Cmd Parse.Build Parse.Valid Parse.Matcher Parse.Errors Parse.Validator Parse.Parser.
From ClapModel Require ParseProofs.VpKinds.
From Coq Require Import ZArith Lia.
From RecordUpdate Require Import RecordSet.
Import RecordSetNotations.
Open Scope N_scope.

Section Escape.
Variable c : cmd.

(** * The trailing-mode loop

    [absorb] is what is left of [parse_loop] when [trailing_values] is true: no call of
    [possible_subcommand] on the current token, no [is_escape], [to_long], [to_short],
    [parse_long_arg], [parse_short_arg], no pending-option branch.  A token is only compared with
    the value terminator of the positional it is delivered to, and pushed. *)

(** the [pos_counter = { ... }] block with [trailing_values = true] ([missing_pos] is false) *)
Definition pos_correct (pc : N) (vaf : bool) (rest : list bytes) : res N :=
  let positional_count := positional_count c in
  let contains_last := existsb a_last (c_args c) in
  let is_second_to_last := (pc + 1 =? positional_count) in
  let low_index_mults := is_second_to_last
       && existsb (fun a => a_is_multiple a && negb (positional_count =? opt_default 0 (a_index a))) (positionals c)
       && match last (map Some (positionals c)) None with Some p => negb (a_last p) | None => false end in
  let is_terminated := match get_pos c pc with Some a => is_some (a_term a) | None => false end in
  if low_index_mults && negb is_terminated then
    match rest with
    | n :: _ =>
        match List.find (fun a => match a_index a with Some k => k =? pc | None => false end) (positionals c) with
        | Some a => do na <- is_new_arg c n a;
                    ROk (if na || is_some (possible_subcommand c n vaf) then pc + 1 else pc)
        | None => ROk (pc + 1)
        end
    | [] => ROk (pc + 1)
    end
  else if is_set s_allow_missing_pos c || contains_last then ROk positional_count
  else ROk pc.

(** what happens to a token that no positional can take *)
Definition overflow (tok : bytes) (rest : list bytes) (vaf : bool) (st : ps) : res loop_res :=
  if is_set s_allow_external c then
    if utf8_valid tok then ROk (LExternal tok rest st)
    else do st1 <- resolve_pending_ignore c st; RErr (mkerr c EInvalidUtf8 []) st1
  else do st1 <- resolve_pending_ignore c st;
       RErr (match_arg_error c tok vaf true) st1.

(** one iteration in trailing mode; [rec] is the rest of the loop *)
Definition pos_body (rec : lstate -> ps -> res loop_res) (tok : bytes) (rest : list bytes)
           (ls : lstate) (st : ps) : res loop_res :=
  do pc' <- pos_correct (l_pos ls) (l_vaf ls) rest;
  match get_pos c pc' with
  | Some a =>
      do st1 <- (if negb (match pending_arg_id (mt st) with Some i => beq i (a_id a) | None => false end)
                    || negb (a_multiple_values a)
                 then resolve_pending c st else ROk st);
      if check_terminator a tok then rec (mkL PSValuesDone (pc' + 1) true true) st1
      else
        do m1 <- expect 415 (pending_values_push (mt st1) (a_id a) (Some IIndex) true (Some tok));
        if negb (a_is_multiple a)
        then rec (mkL PSValuesDone (pc' + 1) true true) (st1 <| mt := m1 |>)
        else rec (mkL (PSPos (a_id a)) pc' true true) (st1 <| mt := m1 |>)
  | None => overflow tok rest (l_vaf ls) st
  end.

Fixpoint absorb (toks : list bytes) (ls : lstate) (st : ps) : res loop_res :=
  match toks with
  | [] => ROk (LDone st)
  | tok :: rest => pos_body (absorb rest) tok rest ls st
  end.

Lemma parse_loop_trailing_step : forall tok rest ls st,
  l_trailing ls = true ->
  parse_loop c (tok :: rest) ls st = pos_body (parse_loop c rest) tok rest ls st.
Proof.
  intros tok rest [pst pc vaf tr] st H. cbn [l_trailing] in H. subst tr.
  unfold pos_body, pos_correct.
  cbn [parse_loop l_trailing l_pos l_vaf l_pst rbind negb orb andb].
  rewrite !andb_false_r, orb_false_r.
  match goal with |- rbind ?x _ = _ => destruct x as [pc'| |] end; cbn [rbind]; try reflexivity.
  destruct (get_pos c pc') as [a|]; [|reflexivity].
  rewrite andb_false_r. reflexivity.
Qed.


Lemma pos_body_ext r1 r2 tok rest ls st :
  (forall ls' st', l_trailing ls' = true -> r1 ls' st' = r2 ls' st') ->
  pos_body r1 tok rest ls st = pos_body r2 tok rest ls st.
Proof.
  intros H. unfold pos_body.
  destruct (pos_correct _ _ _) as [pc'| |]; cbn [rbind]; try reflexivity.
  destruct (get_pos c pc') as [a|]; [|reflexivity].
  match goal with |- rbind ?x _ = _ => destruct x as [st1| |] end; cbn [rbind]; try reflexivity.
  destruct (check_terminator a tok); [apply H; reflexivity|].
  destruct (expect _ _) as [m1| |]; cbn [rbind]; try reflexivity.
  destruct (negb _); apply H; reflexivity.
Qed.

(** ** One trailing-mode iteration, relationally *)

(** the occurrence being collected is closed unless it already belongs to the (multi-valued)
    positional [a] *)
Definition flush_for (a : arg) (st : ps) : res ps :=
  if negb (match pending_arg_id (mt st) with Some i => beq i (a_id a) | None => false end)
     || negb (a_multiple_values a)
  then resolve_pending c st else ROk st.

(** [tstep tok rest ls st ls' st']: the iteration on [tok] continues the loop with [ls'], [st'].
    The token is looked at in exactly two places: [check_terminator a tok] and the push. *)
Inductive tstep (tok : bytes) (rest : list bytes) (ls : lstate) (st : ps) : lstate -> ps -> Prop :=
| TS_term : forall pc' a st1,
    pos_correct (l_pos ls) (l_vaf ls) rest = ROk pc' -> get_pos c pc' = Some a ->
    flush_for a st = ROk st1 -> check_terminator a tok = true ->
    tstep tok rest ls st (mkL PSValuesDone (pc' + 1) true true) st1
| TS_push : forall pc' a st1 m1,
    pos_correct (l_pos ls) (l_vaf ls) rest = ROk pc' -> get_pos c pc' = Some a ->
    flush_for a st = ROk st1 -> check_terminator a tok = false ->
    pending_values_push (mt st1) (a_id a) (Some IIndex) true (Some tok) = Some m1 ->
    tstep tok rest ls st
          (if negb (a_is_multiple a) then mkL PSValuesDone (pc' + 1) true true
           else mkL (PSPos (a_id a)) pc' true true)
          (st1 <| mt := m1 |>).

Definition overflow_kind (k : ekind) : bool :=
  match k with EUnknownArgument | EInvalidUtf8 | EArgumentConflict | EInvalidSubcommand => true | _ => false end.

(** [tstop tok rest ls st r]: the iteration on [tok] ends the loop with [r] *)
Inductive tstop (tok : bytes) (rest : list bytes) (ls : lstate) (st : ps) : res loop_res -> Prop :=
| TP_panic : forall s, tstop tok rest ls st (RPanic s)
| TP_external : forall pc',
    pos_correct (l_pos ls) (l_vaf ls) rest = ROk pc' -> get_pos c pc' = None ->
    is_set s_allow_external c = true ->
    tstop tok rest ls st (ROk (LExternal tok rest st))
| TP_overflow : forall pc' e st1,
    pos_correct (l_pos ls) (l_vaf ls) rest = ROk pc' -> get_pos c pc' = None ->
    overflow_kind (e_kind e) = true ->
    tstop tok rest ls st (RErr e st1)
| TP_flush : forall e st1,
    resolve_pending c st = RErr e st1 ->
    tstop tok rest ls st (RErr e st1).

Lemma match_arg_error_kind tok vaf tr : overflow_kind (e_kind (match_arg_error c tok vaf tr)) = true.
Proof.
  unfold match_arg_error, mkerr.
  repeat match goal with |- context [if ?x then _ else _] => destruct x end; reflexivity.
Qed.

Lemma is_new_arg_no_err n a e st : is_new_arg c n a <> RErr e st.
Proof.
  unfold is_new_arg, expect. destruct (find_arg c (a_id a)); cbn [rbind]; [|discriminate].
  repeat match goal with |- context [if ?x then _ else _] => destruct x end; discriminate.
Qed.

Lemma pos_correct_no_err pc vaf rest e st : pos_correct pc vaf rest <> RErr e st.
Proof.
  unfold pos_correct.
  repeat match goal with
         | |- context [if ?x then _ else _] => destruct x
         | |- context [match rest with _ => _ end] => destruct rest
         | |- context [match List.find ?f ?l with _ => _ end] => destruct (List.find f l)
         end; try discriminate.
  pose proof (is_new_arg_no_err b a) as H.
  destruct (is_new_arg c b a) as [x|e0 st0|s0]; cbn [rbind]; try discriminate.
  exfalso. apply (H e0 st0). reflexivity.
Qed.

Lemma pos_body_cases rec tok rest ls st :
  (exists ls' st', tstep tok rest ls st ls' st' /\ pos_body rec tok rest ls st = rec ls' st')
  \/ tstop tok rest ls st (pos_body rec tok rest ls st).
Proof.
  unfold pos_body.
  destruct (pos_correct (l_pos ls) (l_vaf ls) rest) as [pc'|e s|s] eqn:Epc; cbn [rbind].
  2:{ exfalso. exact (pos_correct_no_err _ _ _ _ _ Epc). }
  2:{ right. constructor. }
  destruct (get_pos c pc') as [a|] eqn:Eg.
  - fold (flush_for a st).
    destruct (flush_for a st) as [st1|e s|s] eqn:Ef; cbn [rbind].
    + destruct (check_terminator a tok) eqn:Et.
      * left. eexists _, _. split; [eapply TS_term; eassumption|reflexivity].
      * destruct (pending_values_push (mt st1) (a_id a) (Some IIndex) true (Some tok)) as [m1|] eqn:Ep;
          cbn [expect rbind].
        -- left. eexists _, _. split; [eapply TS_push; eassumption|].
           destruct (negb (a_is_multiple a)); reflexivity.
        -- right. constructor.
    + right. apply TP_flush. unfold flush_for in Ef.
      destruct (_ || _) in Ef; [exact Ef|discriminate].
    + right. constructor.
  - unfold overflow.
    destruct (is_set s_allow_external c) eqn:Ex.
    + destruct (utf8_valid tok).
      * right. eapply TP_external; eassumption.
      * unfold resolve_pending_ignore. destruct (resolve_pending c st); cbn [rbind];
          try (right; eapply TP_overflow; [eassumption..|reflexivity]). right; constructor.
    + unfold resolve_pending_ignore. destruct (resolve_pending c st); cbn [rbind];
        try (right; eapply TP_overflow; [eassumption..|apply match_arg_error_kind]). right; constructor.
Qed.

(** ** The whole trailing-mode loop as a chain of steps *)

(** [truns suffix pre ls st ls' st']: the tokens [pre] (followed on the command line by [suffix])
    are consumed by successive [tstep]s *)
Inductive truns (suffix : list bytes) : list bytes -> lstate -> ps -> lstate -> ps -> Prop :=
| TR_nil : forall ls st, truns suffix [] ls st ls st
| TR_cons : forall tok pre ls st ls1 st1 ls2 st2,
    tstep tok (pre ++ suffix) ls st ls1 st1 -> truns suffix pre ls1 st1 ls2 st2 ->
    truns suffix (tok :: pre) ls st ls2 st2.

Lemma tstep_trailing tok rest ls st ls' st' : tstep tok rest ls st ls' st' -> l_trailing ls' = true.
Proof. intros [pc' a st1 _ _ _ _|pc' a st1 m1 _ _ _ _ _]; [reflexivity|destruct (negb _); reflexivity]. Qed.

(** the loop result is [LDone] after a chain of steps over all tokens, or the stop result of
    one iteration reached by a chain of steps *)
Inductive toutcome (toks : list bytes) (ls : lstate) (st : ps) (r : res loop_res) : Prop :=
| TO_done : forall ls' st', truns [] toks ls st ls' st' -> r = ROk (LDone st') -> toutcome toks ls st r
| TO_stop : forall pre tok rest ls1 st1,
    toks = pre ++ tok :: rest -> truns (tok :: rest) pre ls st ls1 st1 ->
    tstop tok rest ls1 st1 r -> toutcome toks ls st r.

Lemma absorb_outcome : forall toks ls st, toutcome toks ls st (absorb toks ls st).
Proof.
  induction toks as [|tok rest IH]; intros ls st.
  - eapply TO_done; [constructor|reflexivity].
  - cbn [absorb].
    destruct (pos_body_cases (absorb rest) tok rest ls st) as [(ls' & st' & Hs & E)|Hstop].
    + rewrite E. destruct (IH ls' st') as [ls2 st2 Hr Er|pre tok' rest' ls1 st1 Eq Hr Hst].
      * eapply TO_done; [|exact Er]. econstructor; [rewrite app_nil_r; exact Hs|exact Hr].
      * eapply (TO_stop _ _ _ _ (tok :: pre) tok' rest'); [rewrite Eq; reflexivity| |exact Hst].
        econstructor; [rewrite <- Eq; exact Hs|exact Hr].
    + eapply (TO_stop _ _ _ _ [] tok rest); [reflexivity|constructor|exact Hstop].
Qed.

(** T1: with [trailing_values] set, [parse_loop] is [absorb] -- for every command, every token
    list (whatever the tokens look like), every state *)
Theorem trailing_is_absorb : forall toks ls st,
  l_trailing ls = true -> parse_loop c toks ls st = absorb toks ls st.
Proof.
  induction toks as [|tok rest IH]; intros ls st Htr; [reflexivity|].
  rewrite (parse_loop_trailing_step tok rest ls st Htr). cbn [absorb].
  apply pos_body_ext. intros ls' st' H. apply IH. exact H.
Qed.


(** T1': the result of the trailing-mode loop is determined by [tstep]/[tstop] alone *)
Theorem trailing_outcome : forall toks ls st,
  l_trailing ls = true -> toutcome toks ls st (parse_loop c toks ls st).
Proof. intros toks ls st H. rewrite (trailing_is_absorb toks ls st H). apply absorb_outcome. Qed.

(** no token after the escape selects a subcommand or the help subcommand; an external
    subcommand only when no positional is left for the token *)
Theorem trailing_no_dispatch : forall toks ls st r,
  l_trailing ls = true -> parse_loop c toks ls st = ROk r ->
  (exists st', r = LDone st') \/
  (exists pre tok rest st1, toks = pre ++ tok :: rest /\ r = LExternal tok rest st1 /\
                            is_set s_allow_external c = true).
Proof.
  intros toks ls st r Htr E.
  destruct (trailing_outcome toks ls st Htr) as [ls' st' _ Er|pre tok rest ls1 st1 Eq _ Hst].
  - left. exists st'. rewrite E in Er. injection Er as ->. reflexivity.
  - right. rewrite E in Hst. inversion Hst; subst. exists pre, tok, rest, st1. repeat split; assumption.
Qed.

(** * Verbatim delivery (class [sink])

    After the escape the positional counter is corrected to [sink_index pc]: the last positional
    when the command has a [last] positional or [allow_missing_positional], the current one
    otherwise.  [sink_arg pc = Some a] says that this positional is multi-valued and has no value
    terminator (and that the low-index-multiple look-ahead is not in play): then it absorbs
    every token that follows. *)
Definition low_index_mults_any : bool :=
  existsb (fun a => a_is_multiple a && negb (positional_count c =? opt_default 0 (a_index a))) (positionals c)
  && match last (map Some (positionals c)) None with Some p => negb (a_last p) | None => false end.

Definition sink_index (pc : N) : N :=
  if is_set s_allow_missing_pos c || existsb a_last (c_args c) then positional_count c else pc.

Definition sink_arg (pc : N) : option arg :=
  if low_index_mults_any then None else
  match get_pos c (sink_index pc) with
  | Some a => if a_multiple_values a && negb (is_some (a_term a)) then Some a else None
  | None => None
  end.

Lemma sink_index_idem pc : sink_index (sink_index pc) = sink_index pc.
Proof. unfold sink_index. destruct (_ || _); reflexivity. Qed.

Lemma pos_correct_sink pc vaf rest :
  low_index_mults_any = false -> pos_correct pc vaf rest = ROk (sink_index pc).
Proof.
  intros H. unfold pos_correct, sink_index. unfold low_index_mults_any in H. cbv zeta.
  destruct (pc + 1 =? positional_count c); cbn [andb]; [rewrite H|]; cbn [andb];
    destruct (is_set s_allow_missing_pos c || existsb a_last (c_args c)); reflexivity.
Qed.

Lemma sink_arg_spec pc a : sink_arg pc = Some a ->
  low_index_mults_any = false /\ get_pos c (sink_index pc) = Some a /\
  a_multiple_values a = true /\ a_term a = None.
Proof.
  unfold sink_arg. destruct low_index_mults_any; [discriminate|].
  destruct (get_pos c (sink_index pc)) as [a'|]; [|discriminate].
  destruct (a_multiple_values a') eqn:Em; [|discriminate].
  destruct (a_term a') eqn:Et; [discriminate|]. cbn. intros E. injection E as <-. auto.
Qed.

Lemma sink_arg_stable pc a : sink_arg pc = Some a -> sink_arg (sink_index pc) = Some a.
Proof. unfold sink_arg. rewrite sink_index_idem. auto. Qed.

(** values and trailing index of the occurrence being collected *)
Definition pend_raw (m : matcher) : list bytes :=
  match mt_pending m with Some p => p_raw p | None => [] end.
Definition pend_ti (m : matcher) : N :=
  match mt_pending m with
  | Some p => match p_trailing_idx p with Some t => t | None => N.of_nat (length (p_raw p)) end
  | None => 0
  end.

Lemma push_spec m i idn tok m1 :
  pending_values_push m i idn true (Some tok) = Some m1 ->
  exists p, mt_pending m1 = Some p /\ beq (p_id p) i = true /\
            p_raw p = pend_raw m ++ [tok] /\ p_trailing_idx p = Some (pend_ti m) /\
            mt_args m1 = mt_args m /\ mt_sub m1 = mt_sub m.
Proof.
  unfold pending_values_push, pend_raw, pend_ti.
  destruct (mt_pending m) as [p|].
  - destruct (beq (p_id p) i) eqn:Eb; cbn [negb]; [|discriminate].
    destruct (_ && _); [discriminate|]. intros E. injection E as <-.
    eexists. split; [reflexivity|]. cbn. repeat split; try assumption.
    destruct (p_trailing_idx p); reflexivity.
  - cbn. rewrite beq_refl. cbn [negb].
    destruct (_ && _); [discriminate|]. intros E. injection E as <-.
    eexists. split; [reflexivity|]. cbn. rewrite beq_refl. repeat split.
Qed.

(** one step at the sink *)
Lemma tstep_sink tok rest ls st ls' st' a :
  sink_arg (l_pos ls) = Some a -> tstep tok rest ls st ls' st' ->
  exists st0 p, flush_for a st = ROk st0 /\
    l_pos ls' = sink_index (l_pos ls) /\
    mt_pending (mt st') = Some p /\ beq (p_id p) (a_id a) = true /\
    p_raw p = pend_raw (mt st0) ++ [tok] /\ p_trailing_idx p = Some (pend_ti (mt st0)) /\
    mt_args (mt st') = mt_args (mt st0) /\ mt_sub (mt st') = mt_sub (mt st0) /\
    cur_idx st' = cur_idx st0.
Proof.
  intros Hs Ht. destruct (sink_arg_spec _ _ Hs) as (Hl & Hg & Hm & Hterm).
  destruct Ht as [pc' a' st1 Hpc Hg' Hf Hct|pc' a' st1 m1 Hpc Hg' Hf Hct Hp];
    rewrite (pos_correct_sink _ _ _ Hl) in Hpc; injection Hpc as <-;
    rewrite Hg in Hg'; injection Hg' as <-.
  - unfold check_terminator in Hct. rewrite Hterm in Hct. discriminate.
  - destruct (push_spec _ _ _ _ _ Hp) as (p & E1 & E2 & E3 & E4 & E5 & E6).
    exists st1, p. unfold a_is_multiple. rewrite Hm. cbn [orb negb l_pos].
    repeat split; assumption.
Qed.

Lemma truns_snoc_inv : forall pre suffix t ls st ls' st',
  truns suffix (pre ++ [t]) ls st ls' st' ->
  exists lsm stm, truns (t :: suffix) pre ls st lsm stm /\ tstep t suffix lsm stm ls' st'.
Proof.
  induction pre as [|x pre IH]; intros suffix t ls st ls' st' Hr.
  - cbn [app] in Hr. inversion Hr as [|? ? ? ? ls1 st1 ? ? Hst Hrest]; subst. inversion Hrest; subst.
    exists ls, st. split; [constructor|exact Hst].
  - cbn [app] in Hr. inversion Hr as [|? ? ? ? ls1 st1 ? ? Hst Hrest]; subst.
    destruct (IH _ _ _ _ _ _ Hrest) as (lsm & stm & Hr' & Hst').
    exists lsm, stm. split; [|exact Hst'].
    econstructor; [|exact Hr']. rewrite <- app_assoc in Hst. exact Hst.
Qed.

Lemma truns_sink : forall pre suffix ls st ls' st' a,
  sink_arg (l_pos ls) = Some a -> truns suffix pre ls st ls' st' -> sink_arg (l_pos ls') = Some a.
Proof.
  induction pre as [|x pre IH]; intros suffix ls st ls' st' a Hs Hr;
    inversion Hr as [|? ? ? ? ls1 st1 ? ? Hst Hrest]; subst; [exact Hs|].
  eapply IH; [|exact Hrest].
  destruct (tstep_sink _ _ _ _ _ _ _ Hs Hst) as (? & ? & _ & Hp & _). rewrite Hp.
  apply sink_arg_stable. exact Hs.
Qed.

(** T2: every token after the escape reaches the pending occurrence of the sink positional,
    byte for byte and in order; nothing else in the matcher changes *)
Theorem tail_verbatim : forall tail suffix tok ls st ls' st' a,
  sink_arg (l_pos ls) = Some a ->
  truns suffix (tok :: tail) ls st ls' st' ->
  exists st0 p, flush_for a st = ROk st0 /\
    mt_pending (mt st') = Some p /\ beq (p_id p) (a_id a) = true /\
    p_raw p = pend_raw (mt st0) ++ tok :: tail /\
    p_trailing_idx p = Some (pend_ti (mt st0)) /\
    mt_args (mt st') = mt_args (mt st0) /\ mt_sub (mt st') = mt_sub (mt st0) /\
    cur_idx st' = cur_idx st0.
Proof.
  induction tail as [|t2 tail IH] using rev_ind; intros suffix tok ls st ls' st' a Hs Hr.
  - inversion Hr as [|? ? ? ? ls1 st1 ? ? Hst Hrest]; subst. inversion Hrest; subst.
    destruct (tstep_sink _ _ _ _ _ _ _ Hs Hst) as (st0 & p & H1 & _ & H2 & H3 & H4 & H5 & H6 & H7 & H8).
    exists st0, p. repeat split; assumption.
  - (* split the run: all but the last token, then one step *)
    rewrite app_comm_cons in Hr.
    destruct (truns_snoc_inv _ _ _ _ _ _ _ Hr) as (lsm & stm & Hr1 & Hst).
    pose proof (truns_sink _ _ _ _ _ _ _ Hs Hr1) as Hsm.
    destruct (IH _ _ _ _ _ _ _ Hs Hr1) as (st0 & p & H1 & H2 & H3 & H4 & H5 & H6 & H7 & H8).
    destruct (tstep_sink _ _ _ _ _ _ _ Hsm Hst) as (stf & p' & F1 & _ & F2 & F3 & F4 & F5 & F6 & F7 & F8).
    (* no flush in the last step: the pending occurrence already belongs to [a] *)
    assert (stf = stm).
    { unfold flush_for, pending_arg_id in F1. rewrite H2 in F1. cbn [opt_map] in F1. rewrite H3 in F1.
      destruct (sink_arg_spec _ _ Hs) as (_ & _ & Hm & _). rewrite Hm in F1. cbn in F1.
      injection F1 as <-. reflexivity. }
    subst stf. exists st0, p'. split; [exact H1|]. split; [exact F2|]. split; [exact F3|].
    unfold pend_raw, pend_ti in F4, F5. rewrite H2 in F4, F5. rewrite H5 in F5.
    split; [rewrite F4, H4, <- app_assoc; reflexivity|].
    split; [exact F5|]. rewrite F6, F7, F8. auto.
Qed.

(** * Delimiter splitting of the collected values ([react]) *)

Lemma delimit_go_exempt db k : forall l i, k <= i -> delimit_go true db (Some k) i l = Some l.
Proof.
  induction l as [|v t IH]; intros i Hk; [reflexivity|].
  cbn [delimit_go]. assert (E : (k <=? i) = true) by (apply N.leb_le; exact Hk).
  rewrite E. cbn [andb]. rewrite orb_true_r. rewrite IH by lia. reflexivity.
Qed.

Lemma delimit_go_app ddt db ti : forall l1 l2 i,
  delimit_go ddt db ti i (l1 ++ l2) =
  match delimit_go ddt db ti i l1, delimit_go ddt db ti (i + N.of_nat (length l1)) l2 with
  | Some x, Some y => Some (x ++ y)
  | _, _ => None
  end.
Proof.
  induction l1 as [|v t IH]; intros l2 i.
  - cbn [app delimit_go length N.of_nat]. rewrite N.add_0_r. destruct (delimit_go _ _ _ _ l2); reflexivity.
  - cbn [app delimit_go length]. rewrite IH.
    replace (i + 1 + N.of_nat (length t)) with (i + N.of_nat (S (length t))) by lia.
    match goal with |- context [if ?b then Some [v] else ?e] => destruct (if b then Some [v] else e) as [h|] end;
      [|reflexivity].
    destruct (delimit_go ddt db ti (i + 1) t) as [x|]; [|reflexivity].
    destruct (delimit_go ddt db ti _ l2) as [y|]; [|reflexivity].
    rewrite app_assoc. reflexivity.
Qed.

(** with [dont_delimit_trailing_values] the values after the escape are not split at all,
    whatever was collected for the same occurrence before the escape *)
Theorem delimit_trailing_verbatim : forall a before tail before',
  is_set s_dont_delimit_trailing c = true ->
  delimit c a before (Some (N.of_nat (length before))) = Some before' ->
  delimit c a (before ++ tail) (Some (N.of_nat (length before))) = Some (before' ++ tail).
Proof.
  intros a before tail before' Hd. unfold delimit. destruct (a_delim a) as [d|].
  - rewrite Hd. cbn [andb]. destruct before as [|b0 before].
    + cbn. intros E. injection E as <-. reflexivity.
    + change (N.of_nat (length (b0 :: before))) with (N.pos (Pos.of_succ_nat (length before))).
      cbv iota. intros E. rewrite delimit_go_app, E, delimit_go_exempt; [reflexivity|].
      change (N.pos (Pos.of_succ_nat (length before))) with (N.of_nat (length (b0 :: before))). lia.
  - intros E. injection E as <-. reflexivity.
Qed.

(** without a declared delimiter nothing is ever split *)
Theorem delimit_no_delimiter : forall a raw ti, a_delim a = None -> delimit c a raw ti = Some raw.
Proof. intros a raw ti H. unfold delimit. rewrite H. reflexivity. Qed.

(** a value that does not contain the delimiter is never changed *)
Theorem delimit_go_clean : forall ddt db ti l i,
  forallb (fun v => negb (contains v db)) l = true -> delimit_go ddt db ti i l = Some l.
Proof.
  intros ddt db ti. induction l as [|v t IH]; intros i H; [reflexivity|].
  cbn [forallb] in H. apply andb_true_iff in H as [Hv Ht].
  cbn [delimit_go]. rewrite Hv. cbn [orb]. rewrite IH by exact Ht. reflexivity.
Qed.

(** * Help and version after the escape *)
Definition is_display (k : ekind) : bool :=
  match k with EDisplayHelp | EDisplayVersion => true | _ => false end.
Definition display_action (a : arg) : bool :=
  match a_get_action a with AHelp | AHelpShort | AHelpLong | AVersion => true | _ => false end.

Lemma vp_parse_kind v s k : vp_parse v s = Some k -> is_display k = false.
Proof. apply (ClapModel.ParseProofs.VpKinds.vp_parse_kind_ind (fun k => is_display k = false)); reflexivity. Qed.

Lemma verify_num_args_kind a raw st e st' :
  verify_num_args c a raw st = RErr e st' -> is_display (e_kind e) = false.
Proof.
  unfold verify_num_args, expect, mkerr.
  destruct (is_set s_ignore_errors c); [discriminate|].
  destruct (a_num a) as [r|]; cbn [rbind]; [|discriminate].
  repeat match goal with
         | |- context [if ?x then _ else _] => destruct x
         | |- context [match r_num_values ?x with _ => _ end] => destruct (r_num_values x)
         | |- context [match raw with _ => _ end] => destruct raw
         end; intros E; try discriminate; injection E as <- _; reflexivity.
Qed.

Lemma push_arg_values_kind a : forall raw st e st',
  push_arg_values c a raw st = RErr e st' -> is_display (e_kind e) = false.
Proof.
  induction raw as [|v t IH]; intros st e st'; cbn [push_arg_values]; [discriminate|].
  unfold expect. destruct (a_vp a) as [vp|]; cbn [rbind]; [|discriminate].
  destruct (vp_parse vp v) as [k|] eqn:Ek.
  - intros E. injection E as <- _. cbn. exact (vp_parse_kind _ _ _ Ek).
  - destruct (add_val_to _ _ _) as [m1|]; cbn [rbind]; [|discriminate].
    destruct (add_index_to _ _ _) as [m2|]; cbn [rbind]; [|discriminate].
    apply IH.
Qed.

Lemma start_custom_arg_no_err a s m e st : start_custom_arg c a s m <> RErr e st.
Proof.
  unfold start_custom_arg. destruct (src_explicit s); [|discriminate].
  generalize (start_custom_arg_m (match s with SCmdLine => remove_overrides c a m | _ => m end) a s).
  intros m0. assert (H : forall l r, (forall e st, r <> RErr e st) ->
    fold_left (fun rm g => do m <- rm; let m' := start_custom_group_m m g s in
                           expect 1533 (add_val_to m' g (a_id a))) l r <> RErr e st).
  { induction l as [|g l IH]; intros r Hr; cbn [fold_left]; [apply Hr|].
    apply IH. intros e' st'. destruct r as [x| |]; cbn [rbind].
    - unfold expect. destruct (add_val_to _ _ _); discriminate.
    - exfalso. eapply Hr. reflexivity.
    - discriminate. }
  apply H. discriminate.
Qed.

Lemma react_core_kind idn s a raw ti st e st' :
  display_action a = false ->
  react_core c idn s a raw ti st = RErr e st' -> is_display (e_kind e) = false.
Proof.
  intros Ha. unfold react_core.
  destruct (if is_cmdline s then verify_num_args c a raw st else ROk tt) as [u|e0 s0|s0] eqn:Ev; cbn [rbind].
  2:{ intros E. injection E as <- <-. destruct (is_cmdline s); [|discriminate].
      eapply verify_num_args_kind. exact Ev. }
  2:{ discriminate. }
  match goal with |- context [match ?x with (r, t) => _ end] => destruct x as [raw' ti'] end.
  unfold expect. destruct (delimit c a raw' ti') as [raw2|]; cbn [rbind]; [|discriminate].
  unfold display_action in Ha.
  assert (Hsc : forall m (k : matcher -> res (ps * presult)),
            (forall m2, k m2 = RErr e st' -> is_display (e_kind e) = false) ->
            (do m2 <- start_custom_arg c a s m; k m2) = RErr e st' -> is_display (e_kind e) = false).
  { intros m k Hk. pose proof (start_custom_arg_no_err a s m) as Hn.
    destruct (start_custom_arg c a s m) as [m2|e1 s1|s1]; cbn [rbind].
    - apply Hk.
    - exfalso. eapply Hn. reflexivity.
    - discriminate. }
  assert (Hpush : forall rawx stx,
            (do st2 <- push_arg_values c a rawx stx; ROk (st2, PRValuesDone)) = RErr e st' ->
            is_display (e_kind e) = false).
  { intros rawx stx. destruct (push_arg_values c a rawx stx) as [s2|e2 s2|s2] eqn:Ep; cbn [rbind]; try discriminate.
    intros E. injection E as <- <-. eapply push_arg_values_kind. exact Ep. }
  destruct (a_get_action a); try discriminate Ha.
  - (* Set *)
    match goal with |- context [mt_remove ?m ?i] => destruct (mt_remove m i) as [m1 removed] end.
    destruct (removed && _).
    + intros E. injection E as <- _. reflexivity.
    + apply Hsc. intros m2. apply Hpush.
  - apply Hsc. intros m2. apply Hpush.
  - match goal with |- context [mt_remove ?m ?i] => destruct (mt_remove m i) as [m1 removed] end.
    destruct (removed && _).
    + intros E. injection E as <- _. reflexivity.
    + apply Hsc. intros m2. apply Hpush.
  - match goal with |- context [mt_remove ?m ?i] => destruct (mt_remove m i) as [m1 removed] end.
    destruct (removed && _).
    + intros E. injection E as <- _. reflexivity.
    + apply Hsc. intros m2. apply Hpush.
  - match goal with |- context [mt_remove ?m ?i] => destruct (mt_remove m i) as [m1 removed] end.
    apply Hsc. intros m2. apply Hpush.
Qed.

(** a help/version error out of [resolve_pending] needs a pending occurrence of an argument
    whose action is Help/Version (such arguments take no values and are never pending) *)
Lemma resolve_pending_display st e st' :
  resolve_pending c st = RErr e st' -> is_display (e_kind e) = true ->
  exists p a, mt_pending (mt st) = Some p /\ find_arg c (p_id p) = Some a /\ display_action a = true.
Proof.
  unfold resolve_pending. destruct (mt_pending (mt st)) as [p|]; [|discriminate].
  unfold expect. destruct (find_arg c (p_id p)) as [a|] eqn:Ef; cbn [rbind]; [|discriminate].
  destruct (react_core c _ _ a _ _ _) as [r|e1 s1|s1] eqn:Er; cbn [rbind]; try discriminate.
  intros E Hd. injection E as <- <-. exists p, a. split; [reflexivity|]. split; [exact Ef|].
  destruct (display_action a) eqn:Ea; [reflexivity|].
  rewrite (react_core_kind _ _ _ _ _ _ _ _ Ea Er) in Hd. discriminate.
Qed.

(** T1'': no token after the escape is a help or version request: a DisplayHelp/DisplayVersion
    error of the trailing-mode loop can only come out of resolving a pending occurrence of an
    argument with a Help/Version action, in a state reached by [tstep]s *)
Theorem trailing_no_display : forall toks ls st e st',
  l_trailing ls = true -> parse_loop c toks ls st = RErr e st' -> is_display (e_kind e) = true ->
  exists pre tok rest ls1 st1 p a,
    toks = pre ++ tok :: rest /\ truns (tok :: rest) pre ls st ls1 st1 /\
    mt_pending (mt st1) = Some p /\ find_arg c (p_id p) = Some a /\ display_action a = true.
Proof.
  intros toks ls st e st' Htr E Hd.
  destruct (trailing_outcome toks ls st Htr) as [ls' st2 _ Er|pre tok rest ls1 st1 Eq Hr Hst].
  - rewrite E in Er. discriminate.
  - rewrite E in Hst. inversion Hst as [| |pc' e0 s0 _ _ Hk|e0 s0 Hrp]; subst.
    + destruct (e_kind e); discriminate.
    + destruct (resolve_pending_display _ _ _ Hrp Hd) as (p & a & H1 & H2 & H3).
      exists pre, tok, rest, ls1, st1, p, a. auto.
Qed.

(** * What the tail can change in the matcher *)

(** T2 at the level of the loop result (sink class): after [--] and a non-empty tail the loop
    ends with the tail appended to the pending occurrence of the sink positional; the entries of
    the matcher are those of [flush_for a st] -- the state at the escape, with the occurrence that
    was open there closed exactly as it is closed when nothing follows the [--] *)
Theorem trailing_done_sink : forall tok tail ls st st' a,
  l_trailing ls = true -> sink_arg (l_pos ls) = Some a ->
  parse_loop c (tok :: tail) ls st = ROk (LDone st') ->
  exists st0 p, flush_for a st = ROk st0 /\
    mt_pending (mt st') = Some p /\ beq (p_id p) (a_id a) = true /\
    p_raw p = pend_raw (mt st0) ++ tok :: tail /\
    p_trailing_idx p = Some (pend_ti (mt st0)) /\
    mt_args (mt st') = mt_args (mt st0) /\ mt_sub (mt st') = mt_sub (mt st0) /\
    cur_idx st' = cur_idx st0.
Proof.
  intros tok tail ls st st' a Htr Hs E.
  destruct (trailing_outcome (tok :: tail) ls st Htr) as [ls' st2 Hr Er|pre tok' rest ls1 st1 Eq Hr Hst].
  - rewrite E in Er. injection Er as ->. eapply tail_verbatim; eassumption.
  - rewrite E in Hst. inversion Hst.
Qed.

(** frame of [react]: resolving an occurrence of [a] changes only the entries of [a] itself, of
    the groups [a] belongs to, of the arguments [a] overrides and of those that override [a] *)
Definition touched (a : arg) (x : id) : bool :=
  beq (a_id a) x || existsb (fun g => beq g x) (groups_for_arg c (a_id a))
  || existsb (fun o => beq o x) (a_overrides a)
  || match find_arg c x with Some ov => mem_id (a_id a) (a_overrides ov) | None => false end.

Lemma fm_get_update_other {V} k x (f : V -> V) : forall l, beq k x = false -> fm_get x (fm_update k f l) = fm_get x l.
Proof.
  intros l H. induction l as [|[k' v] t IH]; [reflexivity|]. cbn [fm_update fm_get].
  destruct (beq k' k) eqn:E; cbn [fm_get].
  - apply beq_eq in E. subst k'. rewrite H. reflexivity.
  - rewrite IH. reflexivity.
Qed.
Lemma fm_get_remove_other {V} k x : forall (l : list (id * V)), beq k x = false -> fm_get x (fst (fm_remove k l)) = fm_get x l.
Proof.
  intros l H. induction l as [|[k' v] t IH]; [reflexivity|]. cbn [fm_remove fm_get].
  destruct (beq k' k) eqn:E.
  - apply beq_eq in E. subst k'. rewrite H. reflexivity.
  - destruct (fm_remove k t) as [t' b]. cbn [fst fm_get] in *. rewrite IH. reflexivity.
Qed.
Lemma fm_get_app_other {V} k x (v : V) : forall l, beq k x = false -> fm_get x (l ++ [(k, v)]) = fm_get x l.
Proof.
  intros l H. induction l as [|[k' v'] t IH]; cbn [app fm_get]; [rewrite H; reflexivity|].
  rewrite IH. reflexivity.
Qed.
Lemma fm_get_entry_other {V} k x (v0 : V) f l : beq k x = false -> fm_get x (fm_entry_or_insert k v0 f l) = fm_get x l.
Proof.
  intros H. unfold fm_entry_or_insert. destruct (fm_contains k l);
    [apply fm_get_update_other|apply fm_get_app_other]; exact H.
Qed.

Definition get_entry (x : id) (st : ps) := fm_get x (mt_args (mt st)).

Lemma mt_remove_frame m k x : beq k x = false -> fm_get x (mt_args (fst (mt_remove m k))) = fm_get x (mt_args m).
Proof.
  intros H. unfold mt_remove. pose proof (fm_get_remove_other k x (mt_args m) H) as E.
  destruct (fm_remove k (mt_args m)) as [l b]. cbn [fst] in *. exact E.
Qed.

Lemma fold_remove_frame x : forall l m,
  existsb (fun o => beq o x) l = false ->
  fm_get x (mt_args (fold_left (fun m o => fst (mt_remove m o)) l m)) = fm_get x (mt_args m).
Proof.
  induction l as [|o l IH]; intros m H; [reflexivity|].
  cbn [existsb] in H. apply orb_false_iff in H as [Ho Hl].
  cbn [fold_left]. rewrite IH by exact Hl. apply mt_remove_frame. exact Ho.
Qed.

Lemma remove_overrides_frame a m x : touched a x = false ->
  fm_get x (mt_args (remove_overrides c a m)) = fm_get x (mt_args m).
Proof.
  unfold touched. intros H. apply orb_false_iff in H as [H Htr]. apply orb_false_iff in H as [H Hov].
  unfold remove_overrides. rewrite fold_remove_frame.
  - apply fold_remove_frame. exact Hov.
  - clear -Htr. generalize (arg_ids (fold_left (fun m o => fst (mt_remove m o)) (a_overrides a) m)).
    induction l as [|i l IH]; [reflexivity|]. cbn [filter].
    destruct (match find_arg c i with Some ov => mem_id (a_id a) (a_overrides ov) | None => false end) eqn:Ei;
      [|exact IH].
    cbn [existsb]. rewrite IH, orb_false_r.
    destruct (beq i x) eqn:Eb; [|reflexivity]. apply beq_eq in Eb. subst i. rewrite Htr in Ei. discriminate.
Qed.

Lemma add_val_to_frame m k v m' x : add_val_to m k v = Some m' -> beq k x = false ->
  fm_get x (mt_args m') = fm_get x (mt_args m).
Proof.
  unfold add_val_to. destruct (fm_get k (mt_args m)) as [e|]; [|discriminate].
  destruct (append_val v e); [|discriminate]. intros E H. injection E as <-. cbn.
  apply fm_get_update_other. exact H.
Qed.
Lemma add_index_to_frame m k i m' x : add_index_to m k i = Some m' -> beq k x = false ->
  fm_get x (mt_args m') = fm_get x (mt_args m).
Proof.
  unfold add_index_to. destruct (fm_get k (mt_args m)) as [e|]; [|discriminate].
  intros E H. injection E as <-. cbn. apply fm_get_update_other. exact H.
Qed.

Lemma push_arg_values_frame a x : beq (a_id a) x = false -> forall raw st st',
  push_arg_values c a raw st = ROk st' -> get_entry x st' = get_entry x st.
Proof.
  intros H. induction raw as [|v t IH]; intros st st'; cbn [push_arg_values].
  - intros E. injection E as <-. reflexivity.
  - unfold expect. destruct (a_vp a) as [vp|]; cbn [rbind]; [|discriminate].
    destruct (vp_parse vp v); [discriminate|].
    destruct (add_val_to _ _ _) as [m1|] eqn:E1; cbn [rbind]; [|discriminate].
    destruct (add_index_to _ _ _) as [m2|] eqn:E2; cbn [rbind]; [|discriminate].
    intros E. rewrite (IH _ _ E). unfold get_entry. cbn.
    rewrite (add_index_to_frame _ _ _ _ _ E2 H), (add_val_to_frame _ _ _ _ _ E1 H). reflexivity.
Qed.

Lemma start_custom_arg_frame a s m m' x : touched a x = false ->
  start_custom_arg c a s m = ROk m' -> fm_get x (mt_args m') = fm_get x (mt_args m).
Proof.
  intros Ht. pose proof Ht as Ht0. unfold touched in Ht.
  apply orb_false_iff in Ht as [Ht _]. apply orb_false_iff in Ht as [Ht _].
  apply orb_false_iff in Ht as [Hid Hg].
  unfold start_custom_arg.
  set (m1 := match s with SCmdLine => remove_overrides c a m | _ => m end).
  assert (E1 : fm_get x (mt_args m1) = fm_get x (mt_args m)).
  { subst m1. destruct s; try reflexivity. apply remove_overrides_frame. exact Ht0. }
  assert (E2 : fm_get x (mt_args (start_custom_arg_m m1 a s)) = fm_get x (mt_args m)).
  { rewrite <- E1. unfold start_custom_arg_m. cbn. apply fm_get_entry_other. exact Hid. }
  destruct (src_explicit s).
  - revert E2. generalize (start_custom_arg_m m1 a s). revert Hg. generalize (groups_for_arg c (a_id a)).
    intros l Hl m0 E0.
    assert (H : forall l r, existsb (fun g => beq g x) l = false ->
              (forall mm, r = ROk mm -> fm_get x (mt_args mm) = fm_get x (mt_args m)) ->
              fold_left (fun rm g => do m <- rm; let m' := start_custom_group_m m g s in
                                     expect 1533 (add_val_to m' g (a_id a))) l r = ROk m' ->
              fm_get x (mt_args m') = fm_get x (mt_args m)).
    { clear. induction l as [|g l IH]; intros r Hl Hr; cbn [fold_left]; [apply Hr|].
      cbn [existsb] in Hl. apply orb_false_iff in Hl as [Hg Hl].
      apply IH; [exact Hl|]. intros mm. destruct r as [m2| |]; cbn [rbind]; try discriminate.
      unfold expect. destruct (add_val_to _ _ _) as [m3|] eqn:E3; [|discriminate].
      intros E. injection E as <-. rewrite (add_val_to_frame _ _ _ _ _ E3 Hg).
      unfold start_custom_group_m. cbn. rewrite fm_get_entry_other by exact Hg. apply Hr. reflexivity. }
    apply H; [exact Hl|]. intros mm E. injection E as <-. exact E0.
  - intros E. injection E as <-. exact E2.
Qed.

Lemma react_core_frame idn s a raw ti st st' r x :
  touched a x = false ->
  react_core c idn s a raw ti st = ROk (st', r) -> get_entry x st' = get_entry x st.
Proof.
  intros Ht. pose proof Ht as Ht0. unfold touched in Ht.
  apply orb_false_iff in Ht as [Ht _]. apply orb_false_iff in Ht as [Ht _].
  apply orb_false_iff in Ht as [Hid _].
  unfold react_core.
  destruct (if is_cmdline s then verify_num_args c a raw st else ROk tt) as [u|e0 s0|s0]; cbn [rbind];
    try discriminate.
  match goal with |- context [match ?x with (r, t) => _ end] => destruct x as [raw' ti'] end.
  unfold expect. destruct (delimit c a raw' ti') as [raw2|]; cbn [rbind]; [|discriminate].
  assert (Hpush : forall rawx stx m2,
            get_entry x (stx <| mt := m2 |>) = get_entry x st ->
            (do st2 <- push_arg_values c a rawx (stx <| mt := m2 |>); ROk (st2, PRValuesDone)) = ROk (st', r) ->
            get_entry x st' = get_entry x st).
  { intros rawx stx m2 E0. destruct (push_arg_values c a rawx _) as [s2|e2 s2|s2] eqn:Ep; cbn [rbind]; try discriminate.
    intros E. injection E as <- _. rewrite (push_arg_values_frame a x Hid _ _ _ Ep). exact E0. }
  assert (Hsc : forall m stx rawx, fm_get x (mt_args m) = get_entry x st ->
            (do m2 <- start_custom_arg c a s m;
             do st2 <- push_arg_values c a rawx (stx <| mt := m2 |>); ROk (st2, PRValuesDone)) = ROk (st', r) ->
            get_entry x st' = get_entry x st).
  { intros m stx rawx E0. destruct (start_custom_arg c a s m) as [m2|e1 s1|s1] eqn:Es; cbn [rbind]; try discriminate.
    apply Hpush. unfold get_entry. cbn. rewrite (start_custom_arg_frame _ _ _ _ _ Ht0 Es). exact E0. }
  assert (Hbump : forall b : bool, get_entry x (if b then ps_bump st else st) = get_entry x st).
  { intros []; reflexivity. }
  assert (Hrem : forall stx, get_entry x stx = get_entry x st ->
            fm_get x (mt_args (fst (mt_remove (mt stx) (a_id a)))) = get_entry x st).
  { intros stx E0. rewrite mt_remove_frame by exact Hid. exact E0. }
  destruct (a_get_action a); try discriminate.
  - match goal with |- context [mt_remove (mt ?sx) ?i] =>
      pose proof (Hrem sx (Hbump _)) as Hr; destruct (mt_remove (mt sx) i) as [m1 removed] end.
    cbn [fst] in Hr. destruct (removed && _); [discriminate|]. apply Hsc. exact Hr.
  - apply Hsc. apply Hbump.
  - match goal with |- context [mt_remove (mt ?sx) ?i] =>
      pose proof (Hrem sx (Hbump false)) as Hr; destruct (mt_remove (mt sx) i) as [m1 removed] end.
    cbn [fst] in Hr. destruct (removed && _); [discriminate|]. apply Hsc. exact Hr.
  - match goal with |- context [mt_remove (mt ?sx) ?i] =>
      pose proof (Hrem sx (Hbump false)) as Hr; destruct (mt_remove (mt sx) i) as [m1 removed] end.
    cbn [fst] in Hr. destruct (removed && _); [discriminate|]. apply Hsc. exact Hr.
  - match goal with |- context [mt_remove (mt ?sx) ?i] =>
      pose proof (Hrem sx (eq_refl _)) as Hr; destruct (mt_remove (mt sx) i) as [m1 removed] end.
    cbn [fst] in Hr. apply Hsc. exact Hr.
Qed.

(** the last hop: [push_arg_values] appends the (delimited) values, in order, to the last value
    group of the entry of [a] *)
Lemma fm_get_update_same {V} k (f : V -> V) : forall l, fm_get k (fm_update k f l) = opt_map f (fm_get k l).
Proof.
  induction l as [|[k' v] t IH]; [reflexivity|]. cbn [fm_update fm_get].
  destruct (beq k' k) eqn:E; cbn [fm_get]; rewrite E; [reflexivity|exact IH].
Qed.

Lemma mt_args_set m x : mt_args (m <| mt_args := x |>) = x.
Proof. reflexivity. Qed.

Lemma push_last_snoc {A} (x : A) gs g : push_last x (gs ++ [g]) = Some (gs ++ [g ++ [x]]).
Proof. unfold push_last. rewrite rev_app_distr. cbn. rewrite rev_involutive. reflexivity. Qed.

Theorem push_arg_values_entry : forall a raw st st' m gs g,
  push_arg_values c a raw st = ROk st' ->
  get_entry (a_id a) st = Some m -> m_raw m = gs ++ [g] ->
  exists m', get_entry (a_id a) st' = Some m' /\ m_raw m' = gs ++ [g ++ raw].
Proof.
  intros a. induction raw as [|v t IH]; intros st st' m gs g; cbn [push_arg_values].
  - intros E Hm Hr. injection E as <-. exists m. rewrite app_nil_r. auto.
  - unfold expect. destruct (a_vp a) as [vp|]; cbn [rbind]; [|discriminate].
    destruct (vp_parse vp v); [discriminate|].
    unfold add_val_to, get_entry. cbn [mt ps_bump]. intros E Hm Hr. revert E.
    change (mt (ps_bump st)) with (mt st). rewrite Hm. unfold append_val. rewrite Hr, push_last_snoc.
    cbn [rbind]. unfold add_index_to. rewrite !mt_args_set. rewrite fm_get_update_same, Hm. cbn [opt_map rbind].
    intros E.
    destruct (IH _ _ (push_index (cur_idx (ps_bump st)) (m <| m_raw := gs ++ [g ++ [v]] |>)) gs (g ++ [v]) E)
      as (m' & E1 & E2).
    + unfold get_entry. change (mt (ps_bump st <| mt := ?x |>)) with x.
      rewrite !mt_args_set, !fm_get_update_same, Hm. cbn [opt_map]. reflexivity.
    + reflexivity.
    + exists m'. split; [exact E1|]. rewrite E2, <- app_assoc. reflexivity.
Qed.

(** T3: closing a pending occurrence of [a] leaves every entry outside [touched a] as it was *)
Theorem resolve_pending_frame : forall st st' p a x,
  mt_pending (mt st) = Some p -> find_arg c (p_id p) = Some a -> touched a x = false ->
  resolve_pending c st = ROk st' -> get_entry x st' = get_entry x st.
Proof.
  intros st st' p a x Hp Hf Ht. unfold resolve_pending. rewrite Hp, Hf. cbn [expect rbind].
  destruct (react_core c _ _ a _ _ _) as [[s2 r]| |] eqn:Er; cbn [rbind]; try discriminate.
  intros E. injection E as <-. cbn [fst]. rewrite (react_core_frame _ _ _ _ _ _ _ _ _ Ht Er). reflexivity.
Qed.

(** * The iteration on [--] *)
Definition dashdash : bytes := [DASH; DASH].

(** the subcommand test that precedes everything else in the non-trailing part of the loop *)
Definition sub_hit (tok : bytes) (ls : lstate) : option bytes :=
  if is_set s_sub_precedence c || match l_pst ls with PSValuesDone => true | _ => false end
  then possible_subcommand c tok (l_vaf ls) else None.

(** does the argument whose values are being collected accept hyphen values? *)
Definition hyphen_pending (sa : option arg) : bool :=
  match sa with Some a => a_hyphen a | None => false end.

(** T4: [--] switches the loop to trailing mode (and marks where the trailing values start in
    the occurrence being collected), unless the argument being collected accepts hyphen values *)
Theorem escape_recognised : forall rest ls st sa,
  l_trailing ls = false ->
  sub_hit dashdash ls = None ->
  state_arg c (l_pst ls) = ROk sa -> hyphen_pending sa = false ->
  parse_loop c (dashdash :: rest) ls st =
  parse_loop c rest (mkL (l_pst ls) (l_pos ls) (l_vaf ls) true) (st <| mt := start_trailing (mt st) |>).
Proof.
  intros rest [pst pc vaf tr] st sa Htr Hsub Hsa Hh. cbn [l_trailing l_pst l_pos l_vaf] in *. subst tr.
  unfold sub_hit in Hsub. cbn [l_pst l_vaf] in Hsub.
  cbn [parse_loop l_trailing l_pos l_vaf l_pst].
  rewrite Hsub. change (is_escape dashdash) with true. cbv iota.
  rewrite Hsa. cbn [rbind]. fold (hyphen_pending sa). rewrite Hh. reflexivity.
Qed.

(** the documented exception: an option that is still collecting values and accepts hyphen
    values takes [--] as one more value; the loop stays in classifying mode *)
Theorem hyphen_opt_takes_dashdash : forall rest ls st i a,
  l_trailing ls = false ->
  sub_hit dashdash ls = None ->
  l_pst ls = PSOpt i -> find_arg c i = Some a -> a_hyphen a = true ->
  parse_loop c (dashdash :: rest) ls st =
  if check_terminator a dashdash
  then parse_loop c rest (mkL PSValuesDone (l_pos ls) (l_vaf ls) false) st
  else
    do m1 <- expect 297 (pending_values_push (mt st) i None false (Some dashdash));
    do more <- expect 299 (needs_more_vals m1 a);
    parse_loop c rest (mkL (if more then PSOpt i else PSValuesDone) (l_pos ls) (l_vaf ls) false)
               (st <| mt := m1 |>).
Proof.
  intros rest [pst pc vaf tr] st i a Htr Hsub Hp Hf Hh. cbn [l_trailing l_pst l_pos l_vaf] in *. subst tr pst.
  unfold sub_hit in Hsub. cbn [l_pst l_vaf] in Hsub.
  cbn [parse_loop l_trailing l_pos l_vaf l_pst].
  rewrite Hsub. change (is_escape dashdash) with true. cbv iota.
  cbn [state_arg]. rewrite Hf. cbn [expect rbind]. rewrite Hh.
  cbn [rbind l_trailing l_pos l_vaf l_pst]. rewrite Hf. cbn [expect rbind]. reflexivity.
Qed.

End Escape.

(** * Non-vacuity: a command with an option accepting hyphen values, a subcommand and a
    multi-valued [last] positional *)
Definition ex_pos : arg :=
  (arg_new [112]) <| a_index := Some 1 |> <| a_action := Some AAppend |>
    <| a_num := Some {| vmin := 1; vmax := usize_max |} |> <| a_vp := Some VPOsString |>
    <| a_last := true |> <| a_delim := Some 44 |>.
Definition ex_opt : arg :=
  (arg_new [111]) <| a_long := Some [111; 112; 116] |> <| a_action := Some ASet |>
    <| a_num := Some {| vmin := 1; vmax := 2 |} |> <| a_vp := Some VPOsString |> <| a_hyphen := true |>.
Definition ex_cmd : cmd :=
  (cmd_new [112]) <| c_args := [ex_opt; ex_pos] |> <| c_subs := [cmd_new [115; 117; 98]] |>.
Definition ex_ls0 := mkL PSValuesDone 1 false false.
Definition t_help : bytes := [45; 45; 104; 101; 108; 112].
Definition t_sub : bytes := [115; 117; 98].
Definition t_optv : bytes := [45; 45; 111; 112; 116; 61; 118].

Example ex_sink : sink_arg ex_cmd 1 = Some ex_pos.
Proof. vm_compute. reflexivity. Qed.

(** [-- --help sub "" --opt=v --]: every token lands in the pending occurrence of the positional *)
Example ex_run :
  match parse_loop ex_cmd [dashdash; t_help; t_sub; []; t_optv; dashdash] ex_ls0 ps_new with
  | ROk (LDone st) => pend_raw (mt st) = [t_help; t_sub; []; t_optv; dashdash] /\ mt_args (mt st) = []
  | _ => False
  end.
Proof. vm_compute. split; reflexivity. Qed.

(** the same tokens without the escape: the first one is a help request *)
Example ex_run_no_escape :
  match parse_loop ex_cmd [t_help; t_sub] ex_ls0 ps_new with
  | RErr _ _ => True
  | _ => False
  end.
Proof. vm_compute. exact I. Qed.

Example ex_escape_hyps :
  l_trailing ex_ls0 = false /\ sub_hit ex_cmd dashdash ex_ls0 = None /\
  state_arg ex_cmd (l_pst ex_ls0) = ROk None /\ hyphen_pending None = false.
Proof. vm_compute. repeat split; reflexivity. Qed.

Example ex_hyphen_hyps :
  let ls := mkL (PSOpt [111]) 1 true false in
  l_trailing ls = false /\ sub_hit ex_cmd dashdash ls = None /\ l_pst ls = PSOpt [111] /\
  find_arg ex_cmd [111] = Some ex_opt /\ a_hyphen ex_opt = true.
Proof. vm_compute. repeat split; reflexivity. Qed.

(** [--opt -- --help]: the option (hyphen values, up to two values) takes [--] and then
    [--help] as its values; the loop never enters trailing mode *)
Example ex_hyphen_run :
  match parse_loop ex_cmd [[45; 45; 111; 112; 116]; dashdash; t_help] ex_ls0 ps_new with
  | ROk (LDone st) =>
      mt_pending (mt st) = Some (mkPending [111] (Some ILong) [dashdash; t_help] None)
  | _ => False
  end.
Proof. vm_compute. reflexivity. Qed.

Example ex_touched : touched ex_cmd ex_pos [111] = false /\ touched ex_cmd ex_pos [112] = true.
Proof. vm_compute. split; reflexivity. Qed.

Example ex_delimit_hyps :
  let c := ex_cmd <| c_set := settings_none <| s_dont_delimit_trailing := true |> |> in
  is_set s_dont_delimit_trailing c = true /\
  delimit c ex_pos [[97; 44; 98]] (Some 1) = Some [[97]; [98]] /\
  delimit c ex_pos ([[97; 44; 98]] ++ [[99; 44; 100]; [44]]) (Some 1) = Some ([[97]; [98]] ++ [[99; 44; 100]; [44]]).
Proof. vm_compute. repeat split; reflexivity. Qed.
