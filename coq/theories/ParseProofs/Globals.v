(** Property C09, second sentence: the merge of global-argument values across the levels of
    the subcommand chain ([ArgMatcher::propagate_globals] / [fill_in_global_values],
    parser/arg_matcher.rs) and the list of ids it is run on ([Command::get_used_global_args]).

    The main result is a closed form of [fill_in_global_values] for matches chains of ANY
    depth and ANY list of global ids (duplicates allowed, as [get_used_global_args] produces):

      levels (result) = map (ins_all vmF) (levels m)      vmF = fold of [vm_step] down the chain

    from which: every level receives the same entry for every key of the final [vals_map]
    (agreement), that entry is the one of maximal source rank on the chain and the deepest
    among equals (an explicit occurrence beats a default), ids outside [vals_map] are untouched
    (frame), and the chain of subcommand names is unchanged. *)
From ClapModel Require Import Base.Bytes Base.Machine.
From ClapModel Require Import Parse.Cmd Parse.Build Parse.Valid Parse.Matcher Parse.Errors Parse.Validator Parse.Parser.
From Coq Require Import ZArith.
Open Scope N_scope.

(** * The chain of levels of a [matches] value *)
Fixpoint levels (m : matches) : list (list (id * marg)) :=
  match m with
  | Matches a None => [a]
  | Matches a (Some (_, s)) => a :: levels s
  end.
Fixpoint chain (m : matches) : list bytes :=
  match m with
  | Matches _ None => []
  | Matches _ (Some (n, s)) => n :: chain s
  end.


(** * FlatMap facts *)
Lemma beq_sym a b : beq a b = beq b a.
Proof.
  destruct (beq a b) eqn:E.
  - apply beq_eq in E. subst. symmetry. apply beq_refl.
  - apply beq_neq in E. symmetry. apply beq_neq. congruence.
Qed.

Section FlatMap.
Context {V : Type}.
Implicit Types l : list (id * V).

Lemma fm_get_update k k' f l :
  fm_get k (fm_update k' f l) = if beq k' k then opt_map f (fm_get k l) else fm_get k l.
Proof.
  induction l as [|[k0 v0] t IH]; cbn [fm_update fm_get].
  - destruct (beq k' k); reflexivity.
  - destruct (beq k0 k') eqn:E0.
    + apply beq_eq in E0. subst k0. cbn [fm_get].
      destruct (beq k' k); reflexivity.
    + cbn [fm_get]. destruct (beq k0 k) eqn:E1.
      * apply beq_eq in E1. subst k0. rewrite (beq_sym k' k), E0. reflexivity.
      * exact IH.
Qed.

Lemma fm_get_app_single k k' v l :
  fm_get k (l ++ [(k', v)]) =
  match fm_get k l with Some x => Some x | None => if beq k' k then Some v else None end.
Proof.
  induction l as [|[k0 v0] t IH]; cbn [app fm_get].
  - reflexivity.
  - destruct (beq k0 k); [reflexivity | exact IH].
Qed.

Lemma fm_get_insert k k' v l :
  fm_get k (fm_insert k' v l) = if beq k' k then Some v else fm_get k l.
Proof.
  unfold fm_insert, fm_contains.
  destruct (fm_get k' l) as [x|] eqn:E; cbn [is_some].
  - rewrite fm_get_update. destruct (beq k' k) eqn:Ek; [|reflexivity].
    apply beq_eq in Ek. subst k'. rewrite E. reflexivity.
  - rewrite fm_get_app_single. destruct (beq k' k) eqn:Ek.
    + apply beq_eq in Ek. subst k'. rewrite E. reflexivity.
    + destruct (fm_get k l); reflexivity.
Qed.

Lemma fm_keys_update k f l : map fst (fm_update k f l) = map fst l.
Proof.
  induction l as [|[k0 v0] t IH]; cbn [fm_update map]; [reflexivity|].
  destruct (beq k0 k); cbn [map fst]; [reflexivity | rewrite IH; reflexivity].
Qed.

Lemma fm_get_none_notin k l : fm_get k l = None <-> ~ In k (map fst l).
Proof.
  induction l as [|[k0 v0] t IH]; cbn [fm_get map fst In].
  - split; [intros _ [] | reflexivity].
  - destruct (beq k0 k) eqn:E.
    + apply beq_eq in E. subst. split; [discriminate | intros H; exfalso; apply H; left; reflexivity].
    + apply beq_neq in E. rewrite IH. split; [intros H [H1|H1]; [congruence | exact (H H1)] | intros H H1; apply H; right; exact H1].
Qed.

Lemma fm_insert_nodup k v l : NoDup (map fst l) -> NoDup (map fst (fm_insert k v l)).
Proof.
  intros H. unfold fm_insert, fm_contains.
  destruct (fm_get k l) eqn:E; cbn [is_some].
  - rewrite fm_keys_update. exact H.
  - rewrite map_app. cbn [map fst].
    apply fm_get_none_notin in E.
    apply NoDup_rev in H. rewrite <- (rev_involutive (map fst l ++ [k])).
    apply NoDup_rev. rewrite rev_app_distr. cbn [rev app].
    constructor; [rewrite <- in_rev; exact E | exact H].
Qed.

(** inserting a whole map, entry by entry: the last loop of [fill_in_global_values] *)
Definition ins_all (vm args : list (id * V)) : list (id * V) :=
  fold_left (fun args p => fm_insert (fst p) (snd p) args) vm args.

Lemma ins_all_get : forall vm args k, NoDup (map fst vm) ->
  fm_get k (ins_all vm args) = match fm_get k vm with Some v => Some v | None => fm_get k args end.
Proof.
  induction vm as [|[k0 v0] t IH]; intros args k Hnd; cbn [ins_all fold_left fm_get fst snd].
  - reflexivity.
  - inversion Hnd as [|? ? Hnotin Hnd']; subst.
    change (fold_left _ t ?a) with (ins_all t a).
    rewrite (IH _ _ Hnd'). rewrite fm_get_insert.
    destruct (beq k0 k) eqn:E.
    + apply beq_eq in E. subst k0.
      apply fm_get_none_notin in Hnotin. rewrite Hnotin. reflexivity.
    + reflexivity.
Qed.
End FlatMap.

(** * The source order and the choice between the parent's and the level's entry *)
(** [Option<ValueSource>] is ordered [None < Some DefaultValue < Some EnvVariable < Some CommandLine] *)
Definition mrank (ma : marg) : N :=
  match m_source ma with None => 0 | Some s => src_rank s + 1 end.
Definition osrc_gt (a b : option src) : bool :=
  match a, b with
  | Some a, Some b => src_gt a b
  | Some _, None => true
  | None, _ => false
  end.
(** [to_update]: the parent's entry survives only when its source is strictly greater *)
Definition choose (parent : option marg) (ma : marg) : marg :=
  match parent with
  | Some p => if osrc_gt (m_source p) (m_source ma) then p else ma
  | None => ma
  end.

Lemma osrc_gt_rank p ma : osrc_gt (m_source p) (m_source ma) = (mrank ma <? mrank p).
Proof.
  unfold mrank, osrc_gt, src_gt.
  destruct (m_source p) as [[]|], (m_source ma) as [[]|]; reflexivity.
Qed.

Lemma choose_idem acc ma : choose (Some (choose acc ma)) ma = choose acc ma.
Proof.
  unfold choose. destruct acc as [p|].
  - destruct (osrc_gt (m_source p) (m_source ma)) eqn:E.
    + rewrite E. reflexivity.
    + rewrite osrc_gt_rank, N.ltb_irrefl. reflexivity.
  - rewrite osrc_gt_rank, N.ltb_irrefl. reflexivity.
Qed.

Lemma choose_ge_self acc ma : mrank ma <= mrank (choose acc ma).
Proof.
  unfold choose. destruct acc as [p|]; [|lia].
  rewrite osrc_gt_rank. destruct (mrank ma <? mrank p) eqn:E; [apply N.ltb_lt in E|]; lia.
Qed.
Lemma choose_ge_parent p ma : mrank p <= mrank (choose (Some p) ma).
Proof.
  unfold choose. rewrite osrc_gt_rank.
  destruct (mrank ma <? mrank p) eqn:E; [|apply N.ltb_ge in E]; lia.
Qed.
Lemma choose_cases acc ma :
  (exists p, acc = Some p /\ choose acc ma = p /\ mrank ma < mrank p) \/
  (choose acc ma = ma /\ forall p, acc = Some p -> mrank p <= mrank ma).
Proof.
  unfold choose. destruct acc as [p|].
  - rewrite osrc_gt_rank. destruct (mrank ma <? mrank p) eqn:E.
    + apply N.ltb_lt in E. left. exists p. auto.
    + apply N.ltb_ge in E. right. split; [reflexivity|]. intros q Hq. inversion Hq; subst. exact E.
  - right. split; [reflexivity | discriminate].
Qed.

(** * One level's update of [vals_map]: the first loop of [fill_in_global_values] *)
Definition vm_step (globals : list id) (args vm : list (id * marg)) : list (id * marg) :=
  fold_left (fun vm g =>
               match fm_get g args with
               | Some ma => fm_insert g (choose (fm_get g vm) ma) vm
               | None => vm
               end) globals vm.

(** the whole walk down the chain *)
Definition final_vm (globals : list id) (lv : list (list (id * marg))) (vm : list (id * marg)) :=
  fold_left (fun vm args => vm_step globals args vm) lv vm.

Lemma fill_step fuel globals a sub vm :
  fill_in_global_values (S fuel) globals (Matches a sub) vm =
  let vm1 := vm_step globals a vm in
  let '(sub', vm2) :=
    match sub with
    | Some (name, sm) => let '(sm', vm') := fill_in_global_values fuel globals sm vm1 in (Some (name, sm'), vm')
    | None => (None, vm1)
    end in
  (Matches (ins_all vm2 a) sub', vm2).
Proof. reflexivity. Qed.

Lemma vm_step_get : forall globals args vm g,
  fm_get g (vm_step globals args vm) =
  if mem_id g globals then
    match fm_get g args with
    | Some ma => Some (choose (fm_get g vm) ma)
    | None => fm_get g vm
    end
  else fm_get g vm.
Proof.
  induction globals as [|h t IH]; intros args vm g; cbn [vm_step fold_left mem_id existsb].
  - reflexivity.
  - change (fold_left _ t ?v) with (vm_step t args v).
    rewrite IH. fold (mem_id g t).
    destruct (beq g h) eqn:Egh.
    + apply beq_eq in Egh. subst h. cbn [orb].
      destruct (fm_get g args) as [ma|] eqn:Ea.
      * rewrite fm_get_insert, beq_refl. rewrite choose_idem.
        destruct (mem_id g t); reflexivity.
      * destruct (mem_id g t); reflexivity.
    + cbn [orb].
      assert (Hsame : fm_get g (match fm_get h args with
                                | Some ma => fm_insert h (choose (fm_get h vm) ma) vm
                                | None => vm end) = fm_get g vm).
      { destruct (fm_get h args); [|reflexivity].
        rewrite fm_get_insert, (beq_sym h g), Egh. reflexivity. }
      rewrite Hsame. reflexivity.
Qed.

Lemma vm_step_nodup : forall globals args vm, NoDup (map fst vm) -> NoDup (map fst (vm_step globals args vm)).
Proof.
  induction globals as [|h t IH]; intros args vm H; cbn [vm_step fold_left]; [exact H|].
  change (fold_left _ t ?v) with (vm_step t args v).
  apply IH. destruct (fm_get h args); [apply fm_insert_nodup|]; exact H.
Qed.

Lemma final_vm_nodup : forall globals lv vm, NoDup (map fst vm) -> NoDup (map fst (final_vm globals lv vm)).
Proof.
  intros globals lv. induction lv as [|a t IH]; intros vm H; cbn [final_vm fold_left]; [exact H|].
  apply IH. apply vm_step_nodup. exact H.
Qed.

(** * Closed form of [fill_in_global_values] *)
Theorem fill_closed_form : forall fuel globals m vm,
  (matches_depth m <= fuel)%nat ->
  let r := fill_in_global_values fuel globals m vm in
  snd r = final_vm globals (levels m) vm /\
  levels (fst r) = map (ins_all (snd r)) (levels m) /\
  chain (fst r) = chain m.
Proof.
  induction fuel as [|f IH]; intros globals m vm Hd.
  - destruct m as [a [[n s]|]]; cbn in Hd; lia.
  - destruct m as [a [[n s]|]].
    + cbn [matches_depth] in Hd.
      assert (Hd' : (matches_depth s <= f)%nat) by lia.
      specialize (IH globals s (vm_step globals a vm) Hd').
      cbv zeta in IH |- *. rewrite fill_step. cbv zeta.
      destruct (fill_in_global_values f globals s (vm_step globals a vm)) as [sm' vm'] eqn:E.
      cbn [fst snd] in IH |- *. destruct IH as [H1 [H2 H3]].
      cbn [levels chain final_vm fold_left map].
      split; [exact H1|]. split; [rewrite H2; reflexivity | rewrite H3; reflexivity].
    + cbv zeta. rewrite fill_step. cbn [fst snd levels chain final_vm fold_left map].
      auto.
Qed.

(** * What the closed form says, key by key *)
(** the winner among the entries found while walking down: [acc] is what [vals_map] holds *)
Fixpoint pick (acc : option marg) (es : list (option marg)) : option marg :=
  match es with
  | [] => acc
  | None :: t => pick acc t
  | Some ma :: t => pick (Some (choose acc ma)) t
  end.

Lemma final_vm_get : forall globals lv vm g,
  fm_get g (final_vm globals lv vm) =
  if mem_id g globals then pick (fm_get g vm) (map (fm_get g) lv) else fm_get g vm.
Proof.
  intros globals lv. induction lv as [|a t IH]; intros vm g; cbn [final_vm fold_left map pick].
  - destruct (mem_id g globals); reflexivity.
  - change (fold_left _ t ?v) with (final_vm globals t v).
    rewrite IH, vm_step_get.
    destruct (mem_id g globals); [|reflexivity].
    destruct (fm_get g a); reflexivity.
Qed.

(** [pick] returns the entry of maximal rank, the deepest among equals *)
Lemma pick_spec : forall es acc e, pick acc es = Some e ->
  (acc = Some e /\ forall e', In (Some e') es -> mrank e' < mrank e) \/
  (exists l1 l2, es = l1 ++ Some e :: l2 /\
     (forall p, acc = Some p -> mrank p <= mrank e) /\
     (forall e', In (Some e') l1 -> mrank e' <= mrank e) /\
     (forall e', In (Some e') l2 -> mrank e' < mrank e)).
Proof.
  induction es as [|[ma|] t IH]; intros acc e H; cbn [pick] in H.
  - left. split; [exact H | intros e' []].
  - destruct (IH _ _ H) as [[Hacc Hall] | [l1 [l2 [Ht [Hp [H1 H2]]]]]].
    + injection Hacc as Hc.
      destruct (choose_cases acc ma) as [[p [Ha [Hc' Hlt]]] | [Hc' Hle]].
      * assert (Hpe : p = e) by congruence. rewrite Hpe in Ha, Hlt.
        left. split; [exact Ha|]. intros e' [He'|He']; [injection He' as <-; exact Hlt | apply Hall, He'].
      * assert (Hme : ma = e) by congruence. rewrite Hme in Hle |- *.
        right. exists [], t. cbn [app]. split; [reflexivity|].
        split; [exact Hle|]. split; [intros e' [] | exact Hall].
    + right. exists (Some ma :: l1), l2. cbn [app]. split; [rewrite Ht; reflexivity|].
      pose proof (Hp _ eq_refl) as Hce.
      split; [|split].
      * intros p Hacc. subst acc. pose proof (choose_ge_parent p ma). lia.
      * intros e' [He'|He']; [inversion He'; subst; pose proof (choose_ge_self acc e'); lia | apply H1, He'].
      * exact H2.
  - destruct (IH _ _ H) as [[Hacc Hall] | [l1 [l2 [Ht [Hp [H1 H2]]]]]].
    + left. split; [exact Hacc|]. intros e' [He'|He']; [discriminate | apply Hall, He'].
    + right. exists (None :: l1), l2. cbn [app]. split; [rewrite Ht; reflexivity|].
      split; [exact Hp|]. split; [|exact H2].
      intros e' [He'|He']; [discriminate | apply H1, He'].
Qed.

Lemma pick_none : forall es acc, pick acc es = None -> acc = None /\ forall e, ~ In (Some e) es.
Proof.
  induction es as [|[ma|] t IH]; intros acc H; cbn [pick] in H.
  - split; [exact H | intros e []].
  - apply IH in H. destruct H as [H _]. discriminate.
  - apply IH in H. destruct H as [H1 H2]. split; [exact H1|]. intros e [He|He]; [discriminate | exact (H2 e He)].
Qed.

Lemma pick_some_of_in : forall es acc e', In (Some e') es -> exists e, pick acc es = Some e.
Proof.
  intros es acc e' Hin. destruct (pick acc es) as [e|] eqn:E; [eauto|].
  apply pick_none in E. destruct E as [_ E]. exfalso. exact (E _ Hin).
Qed.

(** ** the statements used by Properties/C09.v *)
Definition filled (fuel : nat) (globals : list id) (m : matches) := fill_in_global_values fuel globals m [].

Lemma vmF_nodup fuel globals m : (matches_depth m <= fuel)%nat -> NoDup (map fst (snd (filled fuel globals m))).
Proof.
  intros Hfuel. unfold filled. destruct (fill_closed_form fuel globals m [] Hfuel) as [H _]. rewrite H.
  apply final_vm_nodup. constructor.
Qed.

(** (a) agreement: every level of the result holds, for every key of the final [vals_map],
    exactly the final entry *)
Theorem merge_agree fuel globals m : (matches_depth m <= fuel)%nat ->
  forall lv g e, In lv (levels (fst (filled fuel globals m))) ->
  fm_get g (snd (filled fuel globals m)) = Some e -> fm_get g lv = Some e.
Proof.
  intros Hfuel lv g e Hin Hg.
  pose proof (vmF_nodup fuel globals m Hfuel) as Hnd. unfold filled in *.
  destruct (fill_closed_form fuel globals m [] Hfuel) as [_ [H2 _]]. rewrite H2 in Hin.
  apply in_map_iff in Hin. destruct Hin as [a [<- _]].
  rewrite ins_all_get by exact Hnd. rewrite Hg. reflexivity.
Qed.

(** (c) frame: a key that is not in the final [vals_map] keeps, at every level, what the
    parser stored there; and only ids of [globals] can be keys *)
Theorem merge_frame fuel globals m : (matches_depth m <= fuel)%nat ->
  forall k g, fm_get g (snd (filled fuel globals m)) = None ->
  option_map (fm_get g) (nth_error (levels (fst (filled fuel globals m))) k) =
  option_map (fm_get g) (nth_error (levels m) k).
Proof.
  intros Hfuel k g Hg.
  pose proof (vmF_nodup fuel globals m Hfuel) as Hnd. unfold filled in *.
  destruct (fill_closed_form fuel globals m [] Hfuel) as [_ [H2 _]]. rewrite H2.
  rewrite nth_error_map. destruct (nth_error (levels m) k) as [a|]; cbn [option_map]; [|reflexivity].
  rewrite ins_all_get by exact Hnd. rewrite Hg. reflexivity.
Qed.

Theorem merge_keys fuel globals m : (matches_depth m <= fuel)%nat ->
  forall g, mem_id g globals = false -> fm_get g (snd (filled fuel globals m)) = None.
Proof.
  intros Hfuel g Hg. unfold filled.
  destruct (fill_closed_form fuel globals m [] Hfuel) as [H _]. rewrite H.
  rewrite final_vm_get, Hg. reflexivity.
Qed.

(** (b) the final entry of a global id is the [pick] of the entries on the chain *)
Theorem merge_pick fuel globals m : (matches_depth m <= fuel)%nat ->
  forall g, mem_id g globals = true ->
  fm_get g (snd (filled fuel globals m)) = pick None (map (fm_get g) (levels m)).
Proof.
  intros Hfuel g Hg. unfold filled.
  destruct (fill_closed_form fuel globals m [] Hfuel) as [H _]. rewrite H.
  rewrite final_vm_get, Hg. reflexivity.
Qed.

(** (d) the chain of subcommand names and the number of levels are unchanged *)
Theorem merge_chain fuel globals m : (matches_depth m <= fuel)%nat ->
  chain (fst (filled fuel globals m)) = chain m /\
  length (levels (fst (filled fuel globals m))) = length (levels m).
Proof.
  intros Hfuel. unfold filled. destruct (fill_closed_form fuel globals m [] Hfuel) as [_ [H1 H]].
  split; [exact H|]. rewrite H1, map_length. reflexivity.
Qed.

(** The statement of the property for the merge: [g] a global id, present (with whatever
    source) at some level of the parsed chain.  Then there is ONE entry [e] such that
    - every level of the result holds [e] for [g] (same values, same source, at every level);
    - [e] is one of the entries the parser stored, at level [length l1];
    - no entry on the chain has a greater source, and every deeper one is strictly smaller
      (explicit beats default; the deepest wins among equals). *)
Theorem globals_merge : forall fuel globals m g e0,
  (matches_depth m <= fuel)%nat ->
  mem_id g globals = true ->
  In (Some e0) (map (fm_get g) (levels m)) ->
  exists e l1 l2,
    (forall lv, In lv (levels (fst (filled fuel globals m))) -> fm_get g lv = Some e) /\
    map (fm_get g) (levels m) = l1 ++ Some e :: l2 /\
    (forall e', In (Some e') l1 -> mrank e' <= mrank e) /\
    (forall e', In (Some e') l2 -> mrank e' < mrank e).
Proof.
  intros fuel globals m g e0 Hf Hg Hin.
  destruct (pick_some_of_in _ None _ Hin) as [e He].
  pose proof (merge_pick fuel globals m Hf g Hg) as Hp. rewrite He in Hp.
  destruct (pick_spec _ _ _ He) as [[Habs _] | [l1 [l2 [Hs [_ [H1 H2]]]]]]; [discriminate|].
  exists e, l1, l2. split; [|auto].
  intros lv Hlv. exact (merge_agree fuel globals m Hf lv g e Hlv Hp).
Qed.

(** an explicit occurrence always beats a default: if any level holds a command-line entry
    for [g], every level of the result reports source CommandLine (and likewise "not default"
    as soon as one level holds an env or command-line entry) *)
Lemma mrank_cmdline e : m_source e = Some SCmdLine <-> mrank e = 3.
Proof. unfold mrank. destruct (m_source e) as [[]|]; cbn; split; intros H; try reflexivity; try discriminate; lia. Qed.
Lemma mrank_le3 e : mrank e <= 3.
Proof. unfold mrank. destruct (m_source e) as [[]|]; cbn; lia. Qed.

Theorem explicit_beats_default : forall fuel globals m g e0,
  (matches_depth m <= fuel)%nat ->
  mem_id g globals = true ->
  In (Some e0) (map (fm_get g) (levels m)) ->
  exists e,
    (forall lv, In lv (levels (fst (filled fuel globals m))) -> fm_get g lv = Some e) /\
    In (Some e) (map (fm_get g) (levels m)) /\
    mrank e0 <= mrank e /\
    (m_source e0 = Some SCmdLine -> m_source e = Some SCmdLine).
Proof.
  intros fuel globals m g e0 Hf Hg Hin.
  destruct (globals_merge fuel globals m g e0 Hf Hg Hin) as [e [l1 [l2 [Ha [Hs [H1 H2]]]]]].
  exists e. split; [exact Ha|].
  assert (Hle : mrank e0 <= mrank e).
  { rewrite Hs in Hin. apply in_app_iff in Hin. destruct Hin as [Hin|[Hin|Hin]].
    - apply H1, Hin.
    - inversion Hin; subst. lia.
    - apply N.lt_le_incl, H2, Hin. }
  split; [rewrite Hs; apply in_app_iff; right; left; reflexivity|].
  split; [exact Hle|].
  intros Hc. apply mrank_cmdline. apply mrank_cmdline in Hc. pose proof (mrank_le3 e). lia.
Qed.

(** * [get_used_global_args]: every global argument of every command on the reported chain is in the list *)
Fixpoint chain_cmds (fuel : nat) (c : cmd) (m : matches) : list cmd :=
  match fuel with
  | O => []
  | S f => c :: match ms_sub m with
                | Some (name, sm) => match find_subcommand c name with
                                     | Some sc => chain_cmds f sc sm
                                     | None => []
                                     end
                | None => []
                end
  end.

Theorem used_globals_complete : forall fuel c m lc a,
  In lc (chain_cmds fuel c m) -> In a (c_args lc) -> a_global a = true ->
  mem_id (a_id a) (used_global_args fuel c m) = true.
Proof.
  induction fuel as [|f IH]; intros c m lc a Hlc Ha Hg; cbn [chain_cmds used_global_args] in *; [destruct Hlc|].
  unfold mem_id. rewrite existsb_app. apply orb_true_iff.
  destruct Hlc as [<-|Hlc].
  - left. apply existsb_exists. exists (a_id a). split; [|apply beq_refl].
    apply in_map. apply filter_In. auto.
  - right. destruct (ms_sub m) as [[name sm]|]; [|destruct Hlc].
    destruct (find_subcommand c name) as [sc|]; [|destruct Hlc].
    exact (IH _ _ _ _ Hlc Ha Hg).
Qed.

(** only ids of global arguments of commands on the chain are in the list *)
Theorem used_globals_sound : forall fuel c m g,
  mem_id g (used_global_args fuel c m) = true ->
  exists lc a, In lc (chain_cmds fuel c m) /\ In a (c_args lc) /\ a_global a = true /\ a_id a = g.
Proof.
  induction fuel as [|f IH]; intros c m g H; cbn [chain_cmds used_global_args] in *; [discriminate|].
  unfold mem_id in H. rewrite existsb_app in H. apply orb_true_iff in H. destruct H as [H|H].
  - apply existsb_exists in H. destruct H as [x [Hx Hb]]. apply beq_eq in Hb. subst x.
    apply in_map_iff in Hx. destruct Hx as [a [Hid Hf]]. apply filter_In in Hf. destruct Hf as [Hin Hgl].
    exists c, a. split; [left; reflexivity | auto].
  - destruct (ms_sub m) as [[name sm]|]; [|discriminate].
    destruct (find_subcommand c name) as [sc|]; [|discriminate].
    destruct (IH _ _ _ H) as [lc [a [H1 H2]]]. exists lc, a. split; [right; exact H1 | exact H2].
Qed.

(** [_do_parse] returns the merge of what the parser produced *)
Theorem do_parse_is_merge c0 toks m' :
  do_parse c0 toks = OOk m' ->
  exists m globals,
    m' = fst (filled (S (matches_depth m)) globals m) /\
    globals = used_global_args (S (matches_depth m)) (build_recursive (S (S (depth (build_self c0)))) c0) m.
Proof.
  unfold do_parse. destruct (valid c0); cbn [negb]; [|discriminate].
  destruct (get_matches_with _ _ _ _) as [st|e st|s].
  - intros H. injection H as <-. exists (into_inner (mt st)). eexists. split; reflexivity.
  - destruct (_ && _); [|discriminate]. intros H. injection H as <-.
    exists (into_inner (mt st)). eexists. split; reflexivity.
  - destruct s; discriminate.
Qed.

(** the two frame statements together, and the two directions of [get_used_global_args] *)
Theorem globals_frame : forall fuel globals m,
  (matches_depth m <= fuel)%nat ->
  (forall g, mem_id g globals = false -> fm_get g (snd (filled fuel globals m)) = None) /\
  (forall k g, fm_get g (snd (filled fuel globals m)) = None ->
     option_map (fm_get g) (nth_error (levels (fst (filled fuel globals m))) k) =
     option_map (fm_get g) (nth_error (levels m) k)).
Proof. intros fuel globals m H. split; [exact (merge_keys fuel globals m H) | exact (merge_frame fuel globals m H)]. Qed.

Theorem used_globals_iff : forall fuel c m g,
  mem_id g (used_global_args fuel c m) = true <->
  exists lc a, In lc (chain_cmds fuel c m) /\ In a (c_args lc) /\ a_global a = true /\ a_id a = g.
Proof.
  intros fuel c m g. split; [apply used_globals_sound|].
  intros [lc [a [H1 [H2 [H3 <-]]]]]. exact (used_globals_complete fuel c m lc a H1 H2 H3).
Qed.
