(** Property C07: how the occurrences of an argument combine, by action.

    Everything here is about the functions of Parse/Parser.v ([react_core], [react],
    [remove_overrides], [start_custom_arg], [push_arg_values]) and Parse/Matcher.v, for EVERY
    matcher state whose FlatMap has unique keys ([wf_m]; an invariant of [FlatMap], proved to be
    preserved by every step below and true of [matcher_new]).

    Layout:
      1. FlatMap facts ([fm_get] after [fm_remove]/[fm_update]/[fm_entry_or_insert])
      2. [remove_overrides]: exact characterisation, both directions  (override symmetry)
      3. [start_custom_arg], [push_arg_values]
      4. [react_core]: master single-step specification [react_core_spec], conflict lemma
      5. per-action corollaries (Set / Append / Count / SetTrue / SetFalse), defaults from [Arg::_build]
      6. sequences of occurrences: [react_all] refines an abstract per-argument fold [step_abs];
         corollaries: saturating count for all n, append order, last-wins, later-given override wins *)
From ClapModel Require Import Base.Bytes Base.Machine Base.Utf8 Lex.OsStrExtModel.
From ClapModel Require Import Parse.Cmd Parse.Build Parse.Valid Parse.Matcher Parse.Errors Parse.Validator Parse.Parser.
From ClapModel Require ParseProofs.VpKinds.
From Coq Require Import ZArith.
From RecordUpdate Require Import RecordSet.
Import RecordSetNotations.
Open Scope N_scope.

(** * 1. FlatMap *)
Definition keys {V} (l : list (id * V)) : list id := map fst l.
Definition fm_wf {V} (l : list (id * V)) : Prop := NoDup (keys l).

Lemma beq_sym a b : beq a b = beq b a.
Proof.
  destruct (beq a b) eqn:E.
  - apply beq_eq in E. subst. symmetry. apply beq_refl.
  - apply beq_neq in E. symmetry. apply beq_neq. congruence.
Qed.

Lemma beq_true_eq a b : beq a b = true -> a = b.
Proof. apply beq_eq. Qed.

Lemma beq_false_neq a b : a <> b -> beq a b = false.
Proof. apply beq_neq. Qed.

Lemma mem_id_in x l : mem_id x l = true <-> In x l.
Proof.
  unfold mem_id. rewrite existsb_exists. split.
  - intros [y [Hy E]]. apply beq_eq in E. subst. exact Hy.
  - intros H. exists x. split; [exact H|apply beq_refl].
Qed.

Lemma mem_id_notin x l : mem_id x l = false <-> ~ In x l.
Proof.
  split.
  - intros H Hin. apply mem_id_in in Hin. congruence.
  - intros H. destruct (mem_id x l) eqn:E; [|reflexivity]. apply mem_id_in in E. contradiction.
Qed.

Lemma mem_id_cons x y l : mem_id x (y :: l) = beq x y || mem_id x l.
Proof. reflexivity. Qed.

Lemma fm_get_none {V} k (l : list (id * V)) : fm_get k l = None <-> ~ In k (keys l).
Proof.
  induction l as [|[k' v] t IH]; cbn [fm_get keys map fst In].
  - split; [intros _ []|reflexivity].
  - destruct (beq k' k) eqn:E.
    + apply beq_eq in E. subst. split; [discriminate|intros H; exfalso; apply H; left; reflexivity].
    + apply beq_neq in E. rewrite IH. unfold keys. split.
      * intros H [H1|H1]; [congruence|contradiction].
      * intros H H1. apply H. right. exact H1.
Qed.

Lemma fm_get_some_in {V} k (l : list (id * V)) v : fm_get k l = Some v -> In k (keys l).
Proof.
  intros H. destruct (in_dec (list_eq_dec N.eq_dec) k (keys l)) as [i|n]; [exact i|].
  apply fm_get_none in n. congruence.
Qed.

Lemma mem_keys_is_some {V} k (l : list (id * V)) : mem_id k (keys l) = is_some (fm_get k l).
Proof.
  induction l as [|[k' v] t IH]; [reflexivity|].
  cbn [keys map fst fm_get]. rewrite mem_id_cons. rewrite (beq_sym k k').
  destruct (beq k' k); [reflexivity|]. cbn [orb]. exact IH.
Qed.

Lemma fm_remove_fst_cons {V} k k' (v : V) t :
  fst (fm_remove k ((k', v) :: t)) = if beq k' k then t else (k', v) :: fst (fm_remove k t).
Proof. cbn [fm_remove]. destruct (beq k' k); [reflexivity|]. destruct (fm_remove k t); reflexivity. Qed.

Lemma fm_remove_snd_cons {V} k k' (v : V) t :
  snd (fm_remove k ((k', v) :: t)) = if beq k' k then true else snd (fm_remove k t).
Proof. cbn [fm_remove]. destruct (beq k' k); [reflexivity|]. destruct (fm_remove k t); reflexivity. Qed.

Lemma fm_remove_keys_incl {V} k (l : list (id * V)) x :
  In x (keys (fst (fm_remove k l))) -> In x (keys l).
Proof.
  induction l as [|[k' v] t IH]; [intros []|].
  rewrite fm_remove_fst_cons. destruct (beq k' k).
  - intros H. right. exact H.
  - cbn [keys map fst In]. intros [H|H]; [left; exact H|right; apply IH; exact H].
Qed.

Lemma fm_remove_wf {V} k (l : list (id * V)) : fm_wf l -> fm_wf (fst (fm_remove k l)).
Proof.
  unfold fm_wf. induction l as [|[k' v] t IH]; [intros H; exact H|].
  rewrite fm_remove_fst_cons. cbn [keys map fst]. intros H. inversion H as [|? ? Hn Hd]; subst.
  destruct (beq k' k); [exact Hd|].
  cbn [keys map fst]. constructor; [|apply IH; exact Hd].
  intros Hin. apply Hn. apply (fm_remove_keys_incl k t). exact Hin.
Qed.

Lemma fm_remove_get_same {V} k (l : list (id * V)) : fm_wf l -> fm_get k (fst (fm_remove k l)) = None.
Proof.
  unfold fm_wf. induction l as [|[k' v] t IH]; [reflexivity|].
  rewrite fm_remove_fst_cons. cbn [keys map fst]. intros H. inversion H as [|? ? Hn Hd]; subst.
  destruct (beq k' k) eqn:E.
  - apply beq_eq in E. subst. apply fm_get_none. exact Hn.
  - cbn [fm_get]. rewrite E. apply IH. exact Hd.
Qed.

Lemma fm_remove_get_other {V} k k' (l : list (id * V)) :
  k' <> k -> fm_get k' (fst (fm_remove k l)) = fm_get k' l.
Proof.
  intros Hne. induction l as [|[k0 v] t IH]; [reflexivity|].
  rewrite fm_remove_fst_cons. destruct (beq k0 k) eqn:E.
  - apply beq_eq in E. subst. cbn [fm_get]. rewrite (beq_false_neq k k'); [reflexivity|congruence].
  - cbn [fm_get]. destruct (beq k0 k'); [reflexivity|exact IH].
Qed.

Lemma fm_remove_snd {V} k (l : list (id * V)) : snd (fm_remove k l) = fm_contains k l.
Proof.
  unfold fm_contains. induction l as [|[k' v] t IH]; [reflexivity|].
  rewrite fm_remove_snd_cons. cbn [fm_get]. destruct (beq k' k); [reflexivity|exact IH].
Qed.

Lemma fm_update_keys {V} k (f : V -> V) l : keys (fm_update k f l) = keys l.
Proof.
  induction l as [|[k' v] t IH]; [reflexivity|]. cbn [fm_update].
  destruct (beq k' k); cbn [keys map fst]; [reflexivity|]. f_equal. exact IH.
Qed.

Lemma fm_update_get_same {V} k (f : V -> V) l : fm_get k (fm_update k f l) = opt_map f (fm_get k l).
Proof.
  induction l as [|[k' v] t IH]; [reflexivity|]. cbn [fm_update fm_get].
  destruct (beq k' k) eqn:E; cbn [fm_get]; rewrite E; [reflexivity|exact IH].
Qed.

Lemma fm_update_get_other {V} k k' (f : V -> V) l : k' <> k -> fm_get k' (fm_update k f l) = fm_get k' l.
Proof.
  intros Hne. induction l as [|[k0 v] t IH]; [reflexivity|]. cbn [fm_update fm_get].
  destruct (beq k0 k) eqn:E; cbn [fm_get].
  - apply beq_eq in E. subst. rewrite (beq_false_neq k k'); [reflexivity|congruence].
  - destruct (beq k0 k'); [reflexivity|exact IH].
Qed.

Lemma fm_get_app_single {V} k k' (x : V) l :
  fm_get k' (l ++ [(k, x)]) = match fm_get k' l with Some v => Some v | None => if beq k k' then Some x else None end.
Proof.
  induction l as [|[k0 v] t IH]; [reflexivity|]. cbn [app fm_get].
  destruct (beq k0 k'); [reflexivity|exact IH].
Qed.

Lemma fm_entry_get_same {V} k (v0 : V) f l :
  fm_get k (fm_entry_or_insert k v0 f l) = Some (f (opt_default v0 (fm_get k l))).
Proof.
  unfold fm_entry_or_insert, fm_contains. destruct (fm_get k l) as [v|] eqn:E; cbn [is_some].
  - rewrite fm_update_get_same, E. reflexivity.
  - rewrite fm_get_app_single, E, beq_refl. reflexivity.
Qed.

Lemma fm_entry_get_other {V} k k' (v0 : V) f l :
  k' <> k -> fm_get k' (fm_entry_or_insert k v0 f l) = fm_get k' l.
Proof.
  intros Hne. unfold fm_entry_or_insert. destruct (fm_contains k l).
  - apply fm_update_get_other. exact Hne.
  - rewrite fm_get_app_single. rewrite (beq_false_neq k k'); [|congruence]. destruct (fm_get k' l); reflexivity.
Qed.

Lemma fm_entry_wf {V} k (v0 : V) f l : fm_wf l -> fm_wf (fm_entry_or_insert k v0 f l).
Proof.
  unfold fm_wf, fm_entry_or_insert, fm_contains. intros H. destruct (fm_get k l) eqn:E; cbn [is_some].
  - rewrite fm_update_keys. exact H.
  - unfold keys. rewrite map_app. cbn [map fst].
    apply fm_get_none in E.
    apply NoDup_rev in H. rewrite <- (rev_involutive (map fst l ++ [k])). apply NoDup_rev.
    rewrite rev_app_distr. cbn [rev app]. constructor; [|exact H].
    intros Hin. apply in_rev in Hin. contradiction.
Qed.

(** * matcher level *)
Definition wf_m (m : matcher) : Prop := fm_wf (mt_args m).
Definition get (j : id) (m : matcher) : option marg := fm_get j (mt_args m).
(** the observable value of an argument: its raw value groups, one per kept occurrence *)
Definition groups := list (list bytes).
Definition groups_of (j : id) (m : matcher) : option groups := opt_map m_raw (get j m).

Lemma wf_m_new : wf_m matcher_new.
Proof. constructor. Qed.

Lemma mt_remove_args m i : mt_args (fst (mt_remove m i)) = fst (fm_remove i (mt_args m)).
Proof. unfold mt_remove. destruct (fm_remove i (mt_args m)). reflexivity. Qed.
Lemma mt_remove_pending m i : mt_pending (fst (mt_remove m i)) = mt_pending m.
Proof. unfold mt_remove. destruct (fm_remove i (mt_args m)). reflexivity. Qed.
Lemma mt_remove_removed m i : snd (mt_remove m i) = mt_contains m i.
Proof. unfold mt_remove, mt_contains. rewrite <- fm_remove_snd. destruct (fm_remove i (mt_args m)). reflexivity. Qed.

Lemma mt_remove_wf m i : wf_m m -> wf_m (fst (mt_remove m i)).
Proof. unfold wf_m. rewrite mt_remove_args. apply fm_remove_wf. Qed.
Lemma mt_remove_get m i j : wf_m m ->
  get j (fst (mt_remove m i)) = if beq j i then None else get j m.
Proof.
  unfold wf_m, get. rewrite mt_remove_args. intros H. destruct (beq j i) eqn:E.
  - apply beq_eq in E. subst. apply fm_remove_get_same. exact H.
  - apply beq_neq in E. apply fm_remove_get_other. exact E.
Qed.

(** * 2. [remove_overrides] *)
Definition remove_all (ids : list id) (m : matcher) : matcher :=
  fold_left (fun m o => fst (mt_remove m o)) ids m.

Lemma remove_all_spec : forall ids m, wf_m m ->
  wf_m (remove_all ids m) /\ mt_pending (remove_all ids m) = mt_pending m /\
  forall j, get j (remove_all ids m) = if mem_id j ids then None else get j m.
Proof.
  induction ids as [|o ids IH]; intros m Hwf; cbn [remove_all fold_left].
  - split; [exact Hwf|]. split; [reflexivity|]. intros j. reflexivity.
  - destruct (IH (fst (mt_remove m o)) (mt_remove_wf m o Hwf)) as [H1 [H2 H3]].
    split; [exact H1|]. split; [unfold remove_all in H2; rewrite H2; apply mt_remove_pending|].
    intros j. unfold remove_all in H3. rewrite H3. rewrite mem_id_cons. rewrite mt_remove_get by exact Hwf.
    destruct (beq j o); cbn [orb]; [destruct (mem_id j ids); reflexivity|reflexivity].
Qed.

(** [b] is in an override relation with [a], in either direction: [a] names [b], or [b] (an
    argument of the command) names [a] *)
Definition overrides_me (c : cmd) (a : arg) (j : id) : bool :=
  match find_arg c j with Some ov => mem_id (a_id a) (a_overrides ov) | None => false end.
Definition overridden (c : cmd) (a : arg) (j : id) : bool :=
  mem_id j (a_overrides a) || overrides_me c a j.

Lemma mem_id_filter (P : id -> bool) j l : mem_id j (filter P l) = mem_id j l && P j.
Proof.
  induction l as [|x l IH]; [reflexivity|]. cbn [filter]. destruct (P x) eqn:Px.
  - rewrite !mem_id_cons, IH. destruct (beq j x) eqn:E; cbn [orb]; [|reflexivity].
    apply beq_eq in E. subst. rewrite Px. reflexivity.
  - rewrite mem_id_cons, IH. destruct (beq j x) eqn:E; cbn [orb]; [|reflexivity].
    apply beq_eq in E. subst. rewrite Px. rewrite andb_false_r. reflexivity.
Qed.

Lemma remove_overrides_unfold c a m :
  remove_overrides c a m =
  remove_all (filter (overrides_me c a) (arg_ids (remove_all (a_overrides a) m))) (remove_all (a_overrides a) m).
Proof. reflexivity. Qed.

(** Exact characterisation: an entry survives iff it is unrelated to [a]; a surviving entry is unchanged. *)
Theorem remove_overrides_spec c a m : wf_m m ->
  wf_m (remove_overrides c a m) /\ mt_pending (remove_overrides c a m) = mt_pending m /\
  forall j, get j (remove_overrides c a m) = if overridden c a j then None else get j m.
Proof.
  intros Hwf. rewrite remove_overrides_unfold.
  destruct (remove_all_spec (a_overrides a) m Hwf) as [W1 [P1 G1]].
  set (m1 := remove_all (a_overrides a) m) in *.
  destruct (remove_all_spec (filter (overrides_me c a) (arg_ids m1)) m1 W1) as [W2 [P2 G2]].
  split; [exact W2|]. split; [rewrite P2; exact P1|].
  intros j. rewrite G2, mem_id_filter. unfold arg_ids. fold (keys (mt_args m1)).
  rewrite mem_keys_is_some. fold (get j m1). rewrite G1. unfold overridden.
  destruct (mem_id j (a_overrides a)); cbn [orb is_some andb]; [reflexivity|].
  destruct (overrides_me c a j); [|rewrite andb_false_r; reflexivity].
  rewrite andb_true_r. destruct (get j m); reflexivity.
Qed.

(** * 3. [start_custom_arg] and [push_arg_values] *)
Lemma push_last_app {A} (x : A) l g : push_last x (l ++ [g]) = Some (l ++ [g ++ [x]]).
Proof. unfold push_last. rewrite rev_app_distr. cbn [rev app]. rewrite rev_involutive. reflexivity. Qed.

Lemma start_custom_arg_m_spec m a s : wf_m m ->
  wf_m (start_custom_arg_m m a s) /\ mt_pending (start_custom_arg_m m a s) = mt_pending m /\
  get (a_id a) (start_custom_arg_m m a s)
    = Some (new_val_group (set_source s (opt_default (marg_new (a_ignore_case a) false) (get (a_id a) m)))) /\
  forall j, j <> a_id a -> get j (start_custom_arg_m m a s) = get j m.
Proof.
  intros Hwf. unfold start_custom_arg_m, wf_m, get. destruct m as [args pend sub]. cbn.
  split; [apply fm_entry_wf; exact Hwf|]. split; [reflexivity|]. split.
  - exact (fm_entry_get_same (a_id a) _ (fun m => new_val_group (set_source s m)) args).
  - intros j Hj. apply fm_entry_get_other. exact Hj.
Qed.

(** one group of the argument: [start_custom_group] then [add_val_to] never hits its [expect] *)
Lemma group_step m g s v : wf_m m ->
  exists m', expect 1533 (add_val_to (start_custom_group_m m g s) g v) = ROk m' /\
    wf_m m' /\ mt_pending m' = mt_pending m /\ forall j, j <> g -> get j m' = get j m.
Proof.
  intros Hwf. unfold add_val_to, start_custom_group_m. destruct m as [args pend sub]. cbn.
  rewrite fm_entry_get_same. unfold append_val, new_val_group. cbn. rewrite push_last_app.
  eexists. split; [reflexivity|]. unfold wf_m, get. cbn. split; [|split; [reflexivity|]].
  - unfold fm_wf. rewrite fm_update_keys. apply fm_entry_wf. exact Hwf.
  - intros j Hj. rewrite fm_update_get_other by exact Hj. apply fm_entry_get_other. exact Hj.
Qed.

Lemma groups_fold_spec (a_idv : id) s : forall gs m, wf_m m ->
  exists m', fold_left (fun rm g => do m <- rm;
                 let m' := start_custom_group_m m g s in
                 expect 1533 (add_val_to m' g a_idv)) gs (ROk m) = ROk m' /\
    wf_m m' /\ mt_pending m' = mt_pending m /\ forall j, ~ In j gs -> get j m' = get j m.
Proof.
  induction gs as [|g gs IH]; intros m Hwf; cbn [fold_left].
  - exists m. split; [reflexivity|]. split; [exact Hwf|]. split; [reflexivity|]. intros; reflexivity.
  - cbn [rbind]. destruct (group_step m g s a_idv Hwf) as [m1 [E1 [W1 [P1 G1]]]].
    rewrite E1. destruct (IH m1 W1) as [m2 [E2 [W2 [P2 G2]]]].
    exists m2. split; [exact E2|]. split; [exact W2|]. split; [congruence|].
    intros j Hj. rewrite G2, G1; [reflexivity| |]; intros H; apply Hj; [left; congruence|right; exact H].
Qed.

(** what is left of [a]'s own earlier occurrences when a new one starts *)
Definition own_prev (c : cmd) (s : src) (a : arg) {A} (prev : option A) : option A :=
  if is_cmdline s && overridden c a (a_id a) then None else prev.

(** [start_custom_arg] never hits its [expect]; it removes the override-related entries (command
    line only), opens a new value group for [a], and touches no other argument entry. *)
Theorem start_custom_arg_spec c a s m : wf_m m ->
  exists m', start_custom_arg c a s m = ROk m' /\ wf_m m' /\ mt_pending m' = mt_pending m /\
    (~ In (a_id a) (groups_for_arg c (a_id a)) ->
       get (a_id a) m' = Some (new_val_group (set_source s
           (opt_default (marg_new (a_ignore_case a) false) (own_prev c s a (get (a_id a) m)))))) /\
    forall j, j <> a_id a -> ~ In j (groups_for_arg c (a_id a)) ->
       get j m' = if is_cmdline s && overridden c a j then None else get j m.
Proof.
  intros Hwf. unfold start_custom_arg.
  set (m1 := match s with SCmdLine => remove_overrides c a m | _ => m end).
  assert (H1 : wf_m m1 /\ mt_pending m1 = mt_pending m /\
               forall j, get j m1 = if is_cmdline s && overridden c a j then None else get j m).
  { unfold m1. destruct s; cbn [is_cmdline andb]; try (split; [exact Hwf|split; [reflexivity|intros; reflexivity]]).
    apply remove_overrides_spec. exact Hwf. }
  destruct H1 as [W1 [P1 G1]].
  destruct (start_custom_arg_m_spec m1 a s W1) as [W2 [P2 [G2 F2]]].
  set (m2 := start_custom_arg_m m1 a s) in *.
  destruct (src_explicit s).
  - destruct (groups_fold_spec (a_id a) s (groups_for_arg c (a_id a)) m2 W2) as [m3 [E3 [W3 [P3 G3]]]].
    exists m3. split; [exact E3|]. split; [exact W3|]. split; [congruence|]. split.
    + intros Hn. rewrite G3 by exact Hn. rewrite G2, G1. reflexivity.
    + intros j Hj Hg. rewrite G3 by exact Hg. rewrite F2 by exact Hj. apply G1.
  - exists m2. split; [reflexivity|]. split; [exact W2|]. split; [congruence|]. split.
    + intros _. rewrite G2, G1. reflexivity.
    + intros j Hj _. rewrite F2 by exact Hj. apply G1.
Qed.

Lemma set_mt_mt st m : mt (st <| mt := m |>) = m.
Proof. destruct st. reflexivity. Qed.
Lemma ps_bump_mt st : mt (ps_bump st) = mt st.
Proof. destruct st. reflexivity. Qed.

Lemma add_val_to_spec m i v ma gs g : wf_m m -> get i m = Some ma -> m_raw ma = gs ++ [g] ->
  exists m' ma', add_val_to m i v = Some m' /\ wf_m m' /\ mt_pending m' = mt_pending m /\
    get i m' = Some ma' /\ m_raw ma' = gs ++ [g ++ [v]] /\ m_source ma' = m_source ma /\
    forall j, j <> i -> get j m' = get j m.
Proof.
  intros Hwf Hg Hr. unfold add_val_to. unfold get in Hg. rewrite Hg. unfold append_val. rewrite Hr, push_last_app.
  eexists. eexists. split; [reflexivity|]. destruct m as [args pend sub]. unfold wf_m, get in *. cbn in *.
  split; [unfold fm_wf; rewrite fm_update_keys; exact Hwf|]. split; [reflexivity|].
  split; [rewrite fm_update_get_same, Hg; reflexivity|]. split; [destruct ma; reflexivity|].
  split; [destruct ma; reflexivity|]. intros j Hj. apply fm_update_get_other. exact Hj.
Qed.

Lemma add_index_to_spec m i ix ma : wf_m m -> get i m = Some ma ->
  exists m' ma', add_index_to m i ix = Some m' /\ wf_m m' /\ mt_pending m' = mt_pending m /\
    get i m' = Some ma' /\ m_raw ma' = m_raw ma /\ m_source ma' = m_source ma /\
    forall j, j <> i -> get j m' = get j m.
Proof.
  intros Hwf Hg. unfold add_index_to. unfold get in Hg. rewrite Hg.
  eexists. eexists. split; [reflexivity|]. destruct m as [args pend sub]. unfold wf_m, get in *. cbn in *.
  split; [unfold fm_wf; rewrite fm_update_keys; exact Hwf|]. split; [reflexivity|].
  split; [rewrite fm_update_get_same, Hg; reflexivity|]. split; [destruct ma; reflexivity|].
  split; [destruct ma; reflexivity|]. intros j Hj. apply fm_update_get_other. exact Hj.
Qed.

(** a successful [push_arg_values] appends the values, in order, to the LAST group of [a] and
    touches nothing else; every pushed value was accepted by the value parser *)
Theorem push_arg_values_spec c a : forall raw st st' ma gs g,
  push_arg_values c a raw st = ROk st' ->
  wf_m (mt st) -> get (a_id a) (mt st) = Some ma -> m_raw ma = gs ++ [g] ->
  exists ma', get (a_id a) (mt st') = Some ma' /\ m_raw ma' = gs ++ [g ++ raw] /\ m_source ma' = m_source ma /\
    wf_m (mt st') /\ mt_pending (mt st') = mt_pending (mt st) /\
    (forall j, j <> a_id a -> get j (mt st') = get j (mt st)) /\
    (forall v, In v raw -> exists vp, a_vp a = Some vp /\ vp_parse vp v = None).
Proof.
  induction raw as [|v t IH]; intros st st' ma gs g H Hwf Hg Hr; cbn [push_arg_values] in H.
  - inversion H; subst. exists ma. rewrite app_nil_r. repeat split; try assumption; try reflexivity. intros v [].
  - destruct (a_vp a) as [vp|] eqn:Evp; cbn [expect rbind] in H; [|discriminate].
    destruct (vp_parse vp v) eqn:Ep; [discriminate|].
    rewrite <- (ps_bump_mt st) in Hwf, Hg.
    destruct (add_val_to_spec _ _ v _ _ _ Hwf Hg Hr) as [m1 [ma1 [E1 [W1 [P1 [G1 [R1 [S1 F1]]]]]]]].
    rewrite E1 in H. cbn [expect rbind] in H.
    destruct (add_index_to_spec m1 (a_id a) (cur_idx (ps_bump st)) ma1 W1 G1) as [m2 [ma2 [E2 [W2 [P2 [G2 [R2 [S2 F2]]]]]]]].
    rewrite E2 in H. cbn [expect rbind] in H.
    rewrite <- (set_mt_mt (ps_bump st) m2) in W2, G2.
    rewrite R1 in R2.
    destruct (IH _ _ _ _ _ H W2 G2 R2) as [ma' [G' [R' [S' [W' [P' [F' V']]]]]]].
    exists ma'. split; [exact G'|]. split; [rewrite R', <- app_assoc; reflexivity|].
    split; [congruence|]. split; [exact W'|].
    split; [rewrite P', set_mt_mt, P2, P1, ps_bump_mt; reflexivity|]. split.
    + intros j Hj. rewrite F' by exact Hj. rewrite set_mt_mt, F2, F1, ps_bump_mt by exact Hj. reflexivity.
    + intros x [<-|Hx]; [exists vp; split; [reflexivity|exact Ep]|apply V'; exact Hx].
Qed.

(** conversely: when the value parser accepts every value, [push_arg_values] succeeds *)
Theorem push_arg_values_ok c a vp : a_vp a = Some vp -> forall raw st ma gs g,
  Forall (fun v => vp_parse vp v = None) raw ->
  wf_m (mt st) -> get (a_id a) (mt st) = Some ma -> m_raw ma = gs ++ [g] ->
  exists st', push_arg_values c a raw st = ROk st'.
Proof.
  intros Evp. induction raw as [|v t IH]; intros st ma gs g Hall Hwf Hg Hr; cbn [push_arg_values].
  - eexists; reflexivity.
  - inversion Hall as [|? ? Hv Ht]; subst. rewrite Evp. cbn [expect rbind]. rewrite Hv.
    rewrite <- (ps_bump_mt st) in Hwf, Hg.
    destruct (add_val_to_spec _ _ v _ _ _ Hwf Hg Hr) as [m1 [ma1 [E1 [W1 [P1 [G1 [R1 [S1 F1]]]]]]]].
    rewrite E1. cbn [expect rbind].
    destruct (add_index_to_spec m1 (a_id a) (cur_idx (ps_bump st)) ma1 W1 G1) as [m2 [ma2 [E2 [W2 [P2 [G2 [R2 [S2 F2]]]]]]]].
    rewrite E2. cbn [expect rbind].
    rewrite <- (set_mt_mt (ps_bump st) m2) in W2, G2. rewrite R1 in R2.
    apply (IH _ _ _ _ Ht W2 G2 R2).
Qed.

(** * 4. [react_core] *)
(** the values of one occurrence as [react] sees them after the default-missing substitution
    and the delimiter split ([None] = the [split] panic site 1184) *)
Definition occ_values (c : cmd) (a : arg) (raw : list bytes) (ti : option N) : option (list bytes) :=
  let '(raw, ti) := match raw with
                    | [] => if negb (is_nil (a_default_missing a))
                            then (a_default_missing a, None) else (raw, ti)
                    | _ => (raw, ti) end in
  delimit c a raw ti.

Definition self_override (c : cmd) (a : arg) : bool :=
  is_set s_args_override_self c || mem_id (a_id a) (a_overrides a).

(** [set_like] of [react_core], named *)
Definition set_like (c : cmd) (idn : option ident) (s : src) (a : arg) (raw : list bytes) (bump : bool) (st : ps)
  : res (ps * presult) :=
  let st := if bump && is_cmdline s && is_flag_ident idn then ps_bump st else st in
  let '(m1, removed) := mt_remove (mt st) (a_id a) in
  let st := st <| mt := m1 |> in
  if removed && negb (self_override c a) then RErr (mkerr c EArgumentConflict (a_id a)) st
  else do m2 <- start_custom_arg c a s m1;
       do st' <- push_arg_values c a raw (st <| mt := m2 |>);
       ROk (st', PRValuesDone).

(** the [match arg.get_action()] of [react_core] on the final value list *)
Definition react_action (c : cmd) (idn : option ident) (s : src) (a : arg) (raw : list bytes) (st : ps)
  : res (ps * presult) :=
  match a_get_action a with
  | ASet => set_like c idn s a raw true st
  | AAppend =>
      let st := if is_cmdline s && is_flag_ident idn then ps_bump st else st in
      do m2 <- start_custom_arg c a s (mt st);
      do st' <- push_arg_values c a raw (st <| mt := m2 |>);
      ROk (st', PRValuesDone)
  | ASetTrue => set_like c idn s a (match raw with [] => [s_true] | _ => raw end) false st
  | ASetFalse => set_like c idn s a (match raw with [] => [s_false] | _ => raw end) false st
  | ACount =>
      let raw := match raw with
                 | [] => [n_to_dec (N.min 255 (existing_count a (mt st) + 1))]
                 | _ => raw end in
      let '(m1, _) := mt_remove (mt st) (a_id a) in
      do m2 <- start_custom_arg c a s m1;
      do st' <- push_arg_values c a raw (st <| mt := m2 |>);
      ROk (st', PRValuesDone)
  | AHelp => RErr (help_err c (match idn with Some IShort => false | _ => true end)) st
  | AHelpShort => RErr (help_err c false) st
  | AHelpLong => RErr (help_err c true) st
  | AVersion => RErr (version_err c (match idn with Some IShort => false | _ => true end)) st
  end.

Lemma react_core_unfold c idn s a raw ti st :
  react_core c idn s a raw ti st =
  (do _ <- (if is_cmdline s then verify_num_args c a raw st else ROk tt);
   do vals <- expect 1184 (occ_values c a raw ti);
   react_action c idn s a vals st).
Proof.
  unfold react_core, occ_values.
  destruct (if is_cmdline s then verify_num_args c a raw st else ROk tt) as [[]|e st0|site]; cbn [rbind]; try reflexivity.
  destruct raw as [|r0 rt]; [destruct (negb (is_nil (a_default_missing a)))|]; reflexivity.
Qed.

(** abstract combination of one occurrence (values [vals]) of [a] with what was stored before *)
Definition count_of (prev : option groups) : N :=
  match prev with
  | Some gs => match concat gs with
               | v :: _ => match parse_i64 v with Some z => Z.to_N z | None => 0 end
               | [] => 0 end
  | None => 0
  end.
Definition step_self (c : cmd) (s : src) (a : arg) (vals : list bytes) (prev : option groups) : groups :=
  match a_get_action a with
  | ASet => [vals]
  | AAppend => opt_default [] (own_prev c s a prev) ++ [vals]
  | ASetTrue => [match vals with [] => [s_true] | _ => vals end]
  | ASetFalse => [match vals with [] => [s_false] | _ => vals end]
  | ACount => [match vals with [] => [n_to_dec (N.min 255 (count_of prev + 1))] | _ => vals end]
  | _ => []
  end.

Lemma existing_count_of a m : existing_count a m = count_of (groups_of (a_id a) m).
Proof. unfold existing_count, count_of, groups_of, get. destruct (fm_get (a_id a) (mt_args m)); reflexivity. Qed.

(** effect of [start_custom_arg; push_arg_values] (the tail of every storing branch) *)
Lemma start_push_spec c a s vals (st0 : ps) m st' :
  wf_m m -> ~ In (a_id a) (groups_for_arg c (a_id a)) ->
  (do m2 <- start_custom_arg c a s m; push_arg_values c a vals (st0 <| mt := m2 |>)) = ROk st' ->
  wf_m (mt st') /\ mt_pending (mt st') = mt_pending m /\
  groups_of (a_id a) (mt st') = Some (opt_default [] (own_prev c s a (groups_of (a_id a) m)) ++ [vals]) /\
  (exists ma', get (a_id a) (mt st') = Some ma' /\
     m_source ma' = Some (match opt_default None (opt_map m_source (own_prev c s a (get (a_id a) m))) with
                          | Some e => src_max e s | None => s end)) /\
  (forall j, j <> a_id a -> ~ In j (groups_for_arg c (a_id a)) ->
     get j (mt st') = if is_cmdline s && overridden c a j then None else get j m) /\
  (forall v, In v vals -> exists vp, a_vp a = Some vp /\ vp_parse vp v = None).
Proof.
  intros Hwf Hng H.
  destruct (start_custom_arg_spec c a s m Hwf) as [m2 [E2 [W2 [P2 [G2 F2]]]]].
  rewrite E2 in H. cbn [rbind] in H. specialize (G2 Hng).
  rewrite <- (set_mt_mt st0 m2) in W2, G2.
  set (ma0 := opt_default (marg_new (a_ignore_case a) false) (own_prev c s a (get (a_id a) m))) in *.
  assert (R2 : m_raw (new_val_group (set_source s ma0)) = m_raw ma0 ++ [[]]) by (destruct ma0; reflexivity).
  destruct (push_arg_values_spec c a vals _ _ _ _ _ H W2 G2 R2) as [ma' [G' [R' [S' [W' [P' [F' V']]]]]]].
  split; [exact W'|]. split; [rewrite P', set_mt_mt; exact P2|]. split; [|split; [|split]].
  - unfold groups_of. rewrite G'. cbn [opt_map]. rewrite R'. cbn [app]. f_equal. f_equal.
    unfold ma0, own_prev. destruct (is_cmdline s && overridden c a (a_id a)); [reflexivity|].
    destruct (get (a_id a) m); reflexivity.
  - exists ma'. split; [exact G'|]. rewrite S'. unfold ma0, own_prev.
    destruct (is_cmdline s && overridden c a (a_id a)); [reflexivity|].
    destruct (get (a_id a) m) as [x|]; [destruct x|]; reflexivity.
  - intros j Hj Hg. rewrite F' by exact Hj. rewrite set_mt_mt. apply F2; assumption.
  - exact V'.
Qed.

Lemma set_like_spec c idn s a vals bump st st' pr :
  wf_m (mt st) -> ~ In (a_id a) (groups_for_arg c (a_id a)) ->
  set_like c idn s a vals bump st = ROk (st', pr) ->
  wf_m (mt st') /\ mt_pending (mt st') = mt_pending (mt st) /\
  groups_of (a_id a) (mt st') = Some [vals] /\
  (exists ma', get (a_id a) (mt st') = Some ma' /\ m_source ma' = Some s) /\
  (mt_contains (mt st) (a_id a) = true -> self_override c a = true) /\
  (forall j, j <> a_id a -> ~ In j (groups_for_arg c (a_id a)) ->
     get j (mt st') = if is_cmdline s && overridden c a j then None else get j (mt st)) /\
  (forall v, In v vals -> exists vp, a_vp a = Some vp /\ vp_parse vp v = None).
Proof.
  intros Hwf Hng H. unfold set_like in H.
  set (st1 := if bump && is_cmdline s && is_flag_ident idn then ps_bump st else st) in *.
  assert (E1 : mt st1 = mt st) by (unfold st1; destruct (bump && is_cmdline s && is_flag_ident idn); [apply ps_bump_mt|reflexivity]).
  rewrite E1 in H.
  pose proof (mt_remove_wf (mt st) (a_id a) Hwf) as W1.
  pose proof (mt_remove_get (mt st) (a_id a)) as G1.
  pose proof (mt_remove_pending (mt st) (a_id a)) as P1.
  pose proof (mt_remove_removed (mt st) (a_id a)) as R1.
  destruct (mt_remove (mt st) (a_id a)) as [m1 removed]. cbn [fst snd] in *.
  destruct (removed && negb (self_override c a)) eqn:Ec; [discriminate|].
  assert (H' : (do m2 <- start_custom_arg c a s m1; push_arg_values c a vals ((st1 <| mt := m1 |>) <| mt := m2 |>)) = ROk st').
  { destruct (start_custom_arg c a s m1); cbn [rbind] in *; try discriminate.
    destruct (push_arg_values c a vals _); cbn [rbind] in *; try discriminate. inversion H; reflexivity. }
  destruct (start_push_spec c a s vals _ m1 st' W1 Hng H') as [W' [P' [G' [S' [F' V']]]]].
  assert (Gs : get (a_id a) m1 = None) by (rewrite G1 by exact Hwf; rewrite beq_refl; reflexivity).
  split; [exact W'|]. split; [congruence|]. split; [|split; [|split; [|split]]].
  - rewrite G'. unfold groups_of. rewrite Gs. unfold own_prev. destruct (is_cmdline s && overridden c a (a_id a)); reflexivity.
  - destruct S' as [ma' [Gm Sm]]. exists ma'. split; [exact Gm|]. rewrite Sm, Gs. unfold own_prev.
    destruct (is_cmdline s && overridden c a (a_id a)); reflexivity.
  - intros Hc. rewrite <- R1 in Hc. rewrite Hc in Ec. cbn [andb] in Ec. destruct (self_override c a); [reflexivity|discriminate Ec].
  - intros j Hj Hg. rewrite F' by assumption. rewrite G1 by exact Hwf. rewrite (beq_false_neq j (a_id a) Hj). reflexivity.
  - exact V'.
Qed.

(** ** Master single-step specification.  For every matcher state with unique keys, every
    identifier, source, argument and raw occurrence: if [react_core] succeeds then
    - the occurrence's values [vals] are [occ_values] (default-missing, delimiter),
    - the entry of [a] holds exactly [step_self .. vals (what it held before)],
    - every other entry (that is not one of [a]'s groups) is unchanged, except that on the
      command line every entry in an override relation with [a] - in either direction - is gone,
    - every stored value was accepted by [a]'s value parser. *)
Theorem react_core_spec c idn s a raw ti st st' pr :
  wf_m (mt st) -> ~ In (a_id a) (groups_for_arg c (a_id a)) ->
  react_core c idn s a raw ti st = ROk (st', pr) ->
  exists vals, occ_values c a raw ti = Some vals /\
    wf_m (mt st') /\ mt_pending (mt st') = mt_pending (mt st) /\
    groups_of (a_id a) (mt st') = Some (step_self c s a vals (groups_of (a_id a) (mt st))) /\
    (forall j, j <> a_id a -> ~ In j (groups_for_arg c (a_id a)) ->
       get j (mt st') = if is_cmdline s && overridden c a j then None else get j (mt st)) /\
    (forall gs v, groups_of (a_id a) (mt st') = Some gs -> In v (last gs []) ->
       exists vp, a_vp a = Some vp /\ vp_parse vp v = None).
Proof.
  intros Hwf Hng H. rewrite react_core_unfold in H.
  destruct (if is_cmdline s then verify_num_args c a raw st else ROk tt) as [[]|e0 st0|site]; cbn [rbind] in H; try discriminate.
  destruct (occ_values c a raw ti) as [vals|]; cbn [expect rbind] in H; [|discriminate].
  exists vals. split; [reflexivity|]. unfold react_action, step_self in *.
  destruct (a_get_action a) eqn:Ea; try discriminate.
  - (* Set *)
    destruct (set_like_spec _ _ _ _ _ _ _ _ _ Hwf Hng H) as [W [P [G [_ [_ [F V]]]]]].
    repeat split; try assumption. intros gs v Hgs Hv. rewrite G in Hgs. inversion Hgs; subst. apply V. exact Hv.
  - (* Append *)
    set (st1 := if is_cmdline s && is_flag_ident idn then ps_bump st else st) in *.
    assert (E1 : mt st1 = mt st) by (unfold st1; destruct (is_cmdline s && is_flag_ident idn); [apply ps_bump_mt|reflexivity]).
    rewrite E1 in H.
    assert (H' : (do m2 <- start_custom_arg c a s (mt st); push_arg_values c a vals (st1 <| mt := m2 |>)) = ROk st').
    { destruct (start_custom_arg c a s (mt st)); cbn [rbind] in *; try discriminate.
      destruct (push_arg_values c a vals _); cbn [rbind] in *; try discriminate. inversion H; reflexivity. }
    destruct (start_push_spec c a s vals _ _ st' Hwf Hng H') as [W' [P' [G' [_ [F' V']]]]].
    repeat split; try assumption. intros gs v Hgs Hv. rewrite G' in Hgs. inversion Hgs; subst.
    rewrite last_last in Hv. apply V'. exact Hv.
  - (* SetTrue *)
    destruct (set_like_spec _ _ _ _ _ _ _ _ _ Hwf Hng H) as [W [P [G [_ [_ [F V]]]]]].
    repeat split; try assumption. intros gs v Hgs Hv. rewrite G in Hgs. inversion Hgs; subst. apply V. exact Hv.
  - (* SetFalse *)
    destruct (set_like_spec _ _ _ _ _ _ _ _ _ Hwf Hng H) as [W [P [G [_ [_ [F V]]]]]].
    repeat split; try assumption. intros gs v Hgs Hv. rewrite G in Hgs. inversion Hgs; subst. apply V. exact Hv.
  - (* Count *)
    rewrite existing_count_of in H.
    set (vals' := match vals with [] => [n_to_dec (N.min 255 (count_of (groups_of (a_id a) (mt st)) + 1))] | _ => vals end) in *.
    pose proof (mt_remove_wf (mt st) (a_id a) Hwf) as W1.
    pose proof (mt_remove_get (mt st) (a_id a)) as G1.
    pose proof (mt_remove_pending (mt st) (a_id a)) as P1.
    destruct (mt_remove (mt st) (a_id a)) as [m1 removed]. cbn [fst snd] in *.
    assert (H' : (do m2 <- start_custom_arg c a s m1; push_arg_values c a vals' (st <| mt := m2 |>)) = ROk st').
    { destruct (start_custom_arg c a s m1); cbn [rbind] in *; try discriminate.
      destruct (push_arg_values c a vals' _); cbn [rbind] in *; try discriminate. inversion H; reflexivity. }
    destruct (start_push_spec c a s vals' _ m1 st' W1 Hng H') as [W' [P' [G' [_ [F' V']]]]].
    assert (Gs : get (a_id a) m1 = None) by (rewrite G1 by exact Hwf; rewrite beq_refl; reflexivity).
    assert (G'' : groups_of (a_id a) (mt st') = Some [vals']).
    { rewrite G'. unfold groups_of. rewrite Gs. unfold own_prev. destruct (is_cmdline s && overridden c a (a_id a)); reflexivity. }
    split; [exact W'|]. split; [congruence|]. split; [exact G''|]. split.
    + intros j Hj Hg. rewrite F' by assumption. rewrite G1 by exact Hwf. rewrite (beq_false_neq j (a_id a) Hj). reflexivity.
    + intros gs v Hgs Hv. rewrite G'' in Hgs. inversion Hgs; subst. apply V'. exact Hv.
Qed.

(** ** A repeated Set-like occurrence without self-override is a conflict; and that is the only
    way [react_core] produces [ArgumentConflict]. *)
Definition set_family (a : arg) : bool :=
  match a_get_action a with ASet | ASetTrue | ASetFalse => true | _ => false end.

Theorem react_core_repeat_conflict c idn s a raw ti st vals :
  set_family a = true ->
  (if is_cmdline s then verify_num_args c a raw st else ROk tt) = ROk tt ->
  occ_values c a raw ti = Some vals ->
  mt_contains (mt st) (a_id a) = true ->
  is_set s_args_override_self c = false -> mem_id (a_id a) (a_overrides a) = false ->
  exists st', react_core c idn s a raw ti st = RErr (mkerr c EArgumentConflict (a_id a)) st' /\
              cur_idx st <= cur_idx st' <= cur_idx st + 1 /\
              mt st' = fst (mt_remove (mt st) (a_id a)).
Proof.
  intros Hf Hv Ho Hc Hs1 Hs2. rewrite react_core_unfold, Hv, Ho. cbn [rbind expect].
  unfold react_action, set_family in *.
  assert (forall vs bump, exists st', set_like c idn s a vs bump st = RErr (mkerr c EArgumentConflict (a_id a)) st' /\
              cur_idx st <= cur_idx st' <= cur_idx st + 1 /\ mt st' = fst (mt_remove (mt st) (a_id a))) as HS.
  { intros vs bump. unfold set_like.
    set (st1 := if bump && is_cmdline s && is_flag_ident idn then ps_bump st else st).
    assert (E1 : mt st1 = mt st) by (unfold st1; destruct (bump && is_cmdline s && is_flag_ident idn); [apply ps_bump_mt|reflexivity]).
    assert (I1 : cur_idx st <= cur_idx st1 <= cur_idx st + 1).
    { unfold st1. destruct (bump && is_cmdline s && is_flag_ident idn); [destruct st; cbn; lia|lia]. }
    rewrite E1. pose proof (mt_remove_removed (mt st) (a_id a)) as R1.
    destruct (mt_remove (mt st) (a_id a)) as [m1 removed]. cbn [fst snd] in *.
    rewrite R1, Hc. unfold self_override. rewrite Hs1, Hs2. cbn [orb negb andb].
    eexists. split; [reflexivity|]. split; [destruct st1; cbn in *; exact I1|destruct st1; reflexivity]. }
  destruct (a_get_action a); try discriminate; apply HS.
Qed.

Lemma verify_num_args_kind c a raw st e st' :
  verify_num_args c a raw st = RErr e st' -> e_kind e <> EArgumentConflict.
Proof.
  unfold verify_num_args. destruct (is_set s_ignore_errors c); [discriminate|].
  destruct (a_num a) as [r|]; cbn [expect rbind]; [|discriminate].
  destruct ((0 <? vmin r) && (N.of_nat (length raw) =? 0)); [intros H; inversion H; subst; cbn; discriminate|].
  destruct (r_num_values r).
  - destruct (negb (n =? N.of_nat (length raw))); [intros H; inversion H; subst; cbn; discriminate|discriminate].
  - destruct (N.of_nat (length raw) <? vmin r); [intros H; inversion H; subst; cbn; discriminate|].
    destruct (vmax r <? N.of_nat (length raw)); [|discriminate].
    destruct raw; [discriminate|intros H; inversion H; subst; cbn; discriminate].
Qed.

Lemma vp_parse_kind v s k : vp_parse v s = Some k -> k <> EArgumentConflict.
Proof. apply (ClapModel.ParseProofs.VpKinds.vp_parse_kind_ind (fun k => k <> EArgumentConflict)); discriminate. Qed.

Lemma push_arg_values_kind c a : forall raw st e st',
  push_arg_values c a raw st = RErr e st' -> e_kind e <> EArgumentConflict.
Proof.
  induction raw as [|v t IH]; intros st e st'; cbn [push_arg_values]; [discriminate|].
  destruct (a_vp a) as [vp|]; cbn [expect rbind]; [|discriminate].
  destruct (vp_parse vp v) eqn:Ep.
  - intros H; inversion H; subst. cbn. apply (vp_parse_kind _ _ _ Ep).
  - destruct (add_val_to _ _ _); cbn [expect rbind]; [|discriminate].
    destruct (add_index_to _ _ _); cbn [expect rbind]; [|discriminate]. apply IH.
Qed.

Lemma start_custom_arg_no_err c a s m e st : wf_m m -> start_custom_arg c a s m <> RErr e st.
Proof. intros Hwf. destruct (start_custom_arg_spec c a s m Hwf) as [m' [E _]]. rewrite E. discriminate. Qed.

Theorem react_core_conflict_only_repeat c idn s a raw ti st e st' :
  wf_m (mt st) ->
  react_core c idn s a raw ti st = RErr e st' -> e_kind e = EArgumentConflict ->
  set_family a = true /\ mt_contains (mt st) (a_id a) = true /\ self_override c a = false.
Proof.
  intros Hwf H Hk. rewrite react_core_unfold in H.
  destruct (if is_cmdline s then verify_num_args c a raw st else ROk tt) as [[]|e0 st0|site] eqn:Ev; cbn [rbind] in H; try discriminate.
  2:{ inversion H; subst. destruct (is_cmdline s); [|discriminate]. exfalso. apply (verify_num_args_kind _ _ _ _ _ _ Ev Hk). }
  destruct (occ_values c a raw ti) as [vals|]; cbn [expect rbind] in H; [|discriminate].
  assert (forall vs bump, set_like c idn s a vs bump st = RErr e st' ->
            mt_contains (mt st) (a_id a) = true /\ self_override c a = false) as HS.
  { intros vs bump. unfold set_like.
    set (st1 := if bump && is_cmdline s && is_flag_ident idn then ps_bump st else st).
    assert (E1 : mt st1 = mt st) by (unfold st1; destruct (bump && is_cmdline s && is_flag_ident idn); [apply ps_bump_mt|reflexivity]).
    rewrite E1. pose proof (mt_remove_removed (mt st) (a_id a)) as R1.
    pose proof (mt_remove_wf (mt st) (a_id a) Hwf) as W1.
    destruct (mt_remove (mt st) (a_id a)) as [m1 removed]. cbn [fst snd] in *.
    destruct (removed && negb (self_override c a)) eqn:Ec.
    - intros _. apply andb_true_iff in Ec. destruct Ec as [Er En]. subst removed. split; [congruence|].
      destruct (self_override c a); [discriminate|reflexivity].
    - destruct (start_custom_arg c a s m1) as [m2|e2 st2|] eqn:Es; cbn [rbind]; try discriminate.
      + destruct (push_arg_values c a vs _) as [x|e3 st3|] eqn:Epv; cbn [rbind]; try discriminate.
        intros Hx; inversion Hx; subst. exfalso. apply (push_arg_values_kind _ _ _ _ _ _ Epv Hk).
      + exfalso. apply (start_custom_arg_no_err c a s m1 e2 st2 W1 Es). }
  unfold react_action in H. unfold set_family.
  destruct (a_get_action a) eqn:Ea.
  - split; [reflexivity|]. apply (HS _ _ H).
  - exfalso.
    set (st1 := if is_cmdline s && is_flag_ident idn then ps_bump st else st) in *.
    assert (E1 : mt st1 = mt st) by (unfold st1; destruct (is_cmdline s && is_flag_ident idn); [apply ps_bump_mt|reflexivity]).
    rewrite E1 in H.
    destruct (start_custom_arg c a s (mt st)) as [m2|e2 st2|] eqn:Es; cbn [rbind] in H; try discriminate.
    + destruct (push_arg_values c a vals _) as [x|e3 st3|] eqn:Epv; cbn [rbind] in H; try discriminate.
      inversion H; subst. apply (push_arg_values_kind _ _ _ _ _ _ Epv Hk).
    + apply (start_custom_arg_no_err c a s (mt st) e2 st2 Hwf Es).
  - split; [reflexivity|]. apply (HS _ _ H).
  - split; [reflexivity|]. apply (HS _ _ H).
  - exfalso.
    pose proof (mt_remove_wf (mt st) (a_id a) Hwf) as W1.
    destruct (mt_remove (mt st) (a_id a)) as [m1 removed]. cbn [fst] in W1.
    destruct (start_custom_arg c a s m1) as [m2|e2 st2|] eqn:Es; cbn [rbind] in H; try discriminate.
    + destruct (push_arg_values c a _ _) as [x|e3 st3|] eqn:Epv; cbn [rbind] in H; try discriminate.
      inversion H; subst. apply (push_arg_values_kind _ _ _ _ _ _ Epv Hk).
    + apply (start_custom_arg_no_err c a s m1 e2 st2 W1 Es).
  - inversion H; subst. cbn in Hk. discriminate.
  - inversion H; subst. cbn in Hk. discriminate.
  - inversion H; subst. cbn in Hk. discriminate.
  - inversion H; subst. cbn in Hk. discriminate.
Qed.

(** * 5. Per-action corollaries *)
Theorem set_last_wins c idn s a raw ti st st' pr :
  wf_m (mt st) -> ~ In (a_id a) (groups_for_arg c (a_id a)) -> a_get_action a = ASet ->
  react_core c idn s a raw ti st = ROk (st', pr) ->
  exists vals, occ_values c a raw ti = Some vals /\ groups_of (a_id a) (mt st') = Some [vals].
Proof.
  intros Hwf Hng Ea H. destruct (react_core_spec _ _ _ _ _ _ _ _ _ Hwf Hng H) as [vals [Ho [_ [_ [G _]]]]].
  exists vals. split; [exact Ho|]. rewrite G. unfold step_self. rewrite Ea. reflexivity.
Qed.

Theorem append_in_order c idn s a raw ti st st' pr :
  wf_m (mt st) -> ~ In (a_id a) (groups_for_arg c (a_id a)) -> a_get_action a = AAppend ->
  react_core c idn s a raw ti st = ROk (st', pr) ->
  exists vals, occ_values c a raw ti = Some vals /\
    groups_of (a_id a) (mt st') = Some (opt_default [] (own_prev c s a (groups_of (a_id a) (mt st))) ++ [vals]) /\
    (forall j, j <> a_id a -> ~ In j (groups_for_arg c (a_id a)) ->
       get j (mt st') = if is_cmdline s && overridden c a j then None else get j (mt st)).
Proof.
  intros Hwf Hng Ea H. destruct (react_core_spec _ _ _ _ _ _ _ _ _ Hwf Hng H) as [vals [Ho [_ [_ [G [F _]]]]]].
  exists vals. split; [exact Ho|]. split; [|exact F]. rewrite G. unfold step_self. rewrite Ea. reflexivity.
Qed.

(** the source recorded by a Set-like occurrence is the occurrence's source *)
Theorem set_like_source c idn s a raw ti st st' pr :
  wf_m (mt st) -> ~ In (a_id a) (groups_for_arg c (a_id a)) -> set_family a = true ->
  react_core c idn s a raw ti st = ROk (st', pr) ->
  exists ma, get (a_id a) (mt st') = Some ma /\ m_source ma = Some s.
Proof.
  intros Hwf Hng Hf H. rewrite react_core_unfold in H.
  destruct (if is_cmdline s then verify_num_args c a raw st else ROk tt) as [[]|e0 st0|site]; cbn [rbind] in H; try discriminate.
  destruct (occ_values c a raw ti) as [vals|]; cbn [expect rbind] in H; [|discriminate].
  unfold react_action in H. unfold set_family in Hf.
  destruct (a_get_action a); try discriminate;
    destruct (set_like_spec _ _ _ _ _ _ _ _ _ Hwf Hng H) as [_ [_ [_ [S _]]]]; exact S.
Qed.

Lemma delimit_nil c a ti : delimit c a [] ti = Some [].
Proof.
  unfold delimit. destruct (a_delim a); [|reflexivity].
  destruct (is_set s_dont_delimit_trailing c && match ti with Some 0 => true | _ => false end); reflexivity.
Qed.
Lemma occ_values_nil c a ti : a_default_missing a = [] -> occ_values c a [] ti = Some [].
Proof. intros H. unfold occ_values. rewrite H. cbn [is_nil negb]. apply delimit_nil. Qed.
Lemma occ_values_nodelim c a raw ti : a_delim a = None -> raw <> [] -> occ_values c a raw ti = Some raw.
Proof. intros Hd Hr. unfold occ_values, delimit. destruct raw; [contradiction|]. rewrite Hd. reflexivity. Qed.
Lemma occ_values_dmissing c a ti : a_delim a = None -> a_default_missing a <> [] ->
  occ_values c a [] ti = Some (a_default_missing a).
Proof. intros Hd Hr. unfold occ_values, delimit. destruct (a_default_missing a); [contradiction|]. cbn. rewrite Hd. reflexivity. Qed.

(** SetTrue / SetFalse: the stored value of an occurrence of the bare flag *)
Definition flag_value (b : bool) : bytes := if b then s_true else s_false.
Definition flag_action (b : bool) : action := if b then ASetTrue else ASetFalse.

Theorem flag_truth c idn s a ti st st' pr b :
  wf_m (mt st) -> ~ In (a_id a) (groups_for_arg c (a_id a)) ->
  a_get_action a = flag_action b -> a_delim a = None ->
  (a_default_missing a = [] \/ a_default_missing a = [flag_value b]) ->
  react_core c idn s a [] ti st = ROk (st', pr) ->
  exists ma, get (a_id a) (mt st') = Some ma /\ m_raw ma = [[flag_value b]] /\ m_source ma = Some s.
Proof.
  intros Hwf Hng Ea Hd Hdm H.
  assert (Hf : set_family a = true) by (unfold set_family; rewrite Ea; destruct b; reflexivity).
  destruct (set_like_source _ _ _ _ _ _ _ _ _ Hwf Hng Hf H) as [ma [Gm Sm]].
  destruct (react_core_spec _ _ _ _ _ _ _ _ _ Hwf Hng H) as [vals [Ho [_ [_ [G _]]]]].
  exists ma. split; [exact Gm|]. split; [|exact Sm].
  unfold groups_of in G. rewrite Gm in G. cbn [opt_map] in G. inversion G as [G']. clear G.
  rewrite G'. unfold step_self. rewrite Ea.
  destruct Hdm as [Hdm|Hdm].
  - rewrite occ_values_nil in Ho by exact Hdm. inversion Ho; subst vals. destruct b; reflexivity.
  - rewrite occ_values_dmissing in Ho; [|exact Hd|rewrite Hdm; discriminate]. rewrite Hdm in Ho. inversion Ho; subst vals.
    destruct b; reflexivity.
Qed.

(** [Arg::_build] installs the opposite default and the truth value as default-missing *)
Theorem flag_build_defaults a0 b :
  a_action a0 = Some (flag_action b) -> a_default a0 = [] -> a_default_missing a0 = [] ->
  a_get_action (arg_build a0) = flag_action b /\
  a_default (arg_build a0) = [flag_value (negb b)] /\
  a_default_missing (arg_build a0) = [flag_value b] /\
  a_id (arg_build a0) = a_id a0 /\ a_delim (arg_build a0) = a_delim a0 /\
  (a_vp a0 = None -> a_vp (arg_build a0) = Some VPBool).
Proof.
  intros Ha Hd Hm. destruct a0. cbn in Ha, Hd, Hm. subst.
  unfold arg_build, ab_num, ab_vp, ab_dmissing, ab_default, ab_action, a_get_action.
  destruct b; cbn; (destruct a_vp; destruct a_num; cbn; try destruct (1 <? a_nvalnames); cbn;
    repeat split; try reflexivity; try discriminate; intros; try discriminate).
Qed.

(** the default phase: [add_default_value] never overwrites an entry, and otherwise is one
    [react] with source [DefaultValue] *)
Theorem add_default_value_present c a st :
  a_default_ifs a = [] -> mt_contains (mt st) (a_id a) = true -> add_default_value c a st = ROk st.
Proof.
  intros Hi Hc. unfold add_default_value. rewrite Hi, Hc. cbn [is_nil negb andb].
  destruct (negb (is_nil (a_default a))); reflexivity.
Qed.
Theorem add_default_value_absent c a st :
  a_default_ifs a = [] -> a_default a <> [] -> mt_contains (mt st) (a_id a) = false ->
  add_default_value c a st = (do x <- react c None SDefault a (a_default a) None st; ROk (fst x)).
Proof.
  intros Hi Hd Hc. unfold add_default_value. rewrite Hi, Hc. cbn [is_nil negb andb].
  destruct (a_default a); [contradiction|reflexivity].
Qed.

(** ** Count *)
Definition upto256 : list N := map N.of_nat (seq 0 256).
Lemma in_upto256 k : k <= 255 -> In k upto256.
Proof.
  intros H. unfold upto256. rewrite <- (N2Nat.id k). apply in_map. apply in_seq. lia.
Qed.
Lemma dec_sweep :
  forallb (fun k => match parse_i64 (n_to_dec k) with Some z => (z =? Z.of_N k)%Z | None => false end
                    && match vp_parse VPCount (n_to_dec k) with None => true | Some _ => false end) upto256 = true.
Proof. vm_compute. reflexivity. Qed.
Lemma dec_roundtrip k : k <= 255 -> parse_i64 (n_to_dec k) = Some (Z.of_N k).
Proof.
  intros H. pose proof dec_sweep as S. rewrite forallb_forall in S. specialize (S k (in_upto256 k H)).
  apply andb_true_iff in S. destruct S as [S _]. destruct (parse_i64 (n_to_dec k)); [|discriminate].
  apply Z.eqb_eq in S. subst. reflexivity.
Qed.
Lemma dec_accept k : k <= 255 -> vp_parse VPCount (n_to_dec k) = None.
Proof.
  intros H. pose proof dec_sweep as S. rewrite forallb_forall in S. specialize (S k (in_upto256 k H)).
  apply andb_true_iff in S. destruct S as [_ S]. destruct (vp_parse VPCount (n_to_dec k)); [discriminate|reflexivity].
Qed.

(** the abstract counter: what the entry of a Count flag holds after [k] occurrences *)
Definition enc (k : N) : option groups := if k =? 0 then None else Some [[n_to_dec (N.min k 255)]].
Lemma count_of_enc k : count_of (enc k) = N.min k 255.
Proof.
  unfold enc. destruct (k =? 0) eqn:E; [apply N.eqb_eq in E; subst; reflexivity|].
  cbn [count_of concat app]. rewrite dec_roundtrip by lia. apply N2Z.id.
Qed.
Lemma enc_succ k : Some [[n_to_dec (N.min 255 (count_of (enc k) + 1))]] = enc (k + 1).
Proof.
  rewrite count_of_enc. unfold enc. destruct (k + 1 =? 0) eqn:E; [apply N.eqb_eq in E; lia|].
  replace (N.min 255 (N.min k 255 + 1)) with (N.min (k + 1) 255) by lia. reflexivity.
Qed.

(** a Count flag as [Arg::_build] leaves it *)
Definition count_flag (a : arg) : Prop :=
  a_get_action a = ACount /\ a_vp a = Some VPCount /\ a_default_missing a = [] /\ a_num a = Some r_empty.

Theorem count_build a0 :
  a_action a0 = Some ACount -> a_vp a0 = None -> a_default_missing a0 = [] -> a_num a0 = None -> a_nvalnames a0 <= 1 ->
  count_flag (arg_build a0) /\ a_id (arg_build a0) = a_id a0 /\ (a_default a0 = [] -> a_default (arg_build a0) = [[48]]).
Proof.
  intros Ha Hv Hm Hn Hk. destruct a0. cbn in Ha, Hv, Hm, Hn, Hk. subst.
  unfold count_flag, arg_build, ab_num, ab_vp, ab_dmissing, ab_default, ab_action, a_get_action. cbn.
  assert (E : (1 <? a_nvalnames) = false) by (apply N.ltb_ge; exact Hk).
  destruct (is_nil a_default) eqn:Ed; cbn; rewrite E; cbn; repeat split; try reflexivity;
    intros Hd; subst; cbn in Ed; try discriminate; reflexivity.
Qed.

Lemma verify_num_args_flag c a st : a_num a = Some r_empty -> verify_num_args c a [] st = ROk tt.
Proof. intros H. unfold verify_num_args. rewrite H. destruct (is_set s_ignore_errors c); reflexivity. Qed.

(** one occurrence of a Count flag always succeeds and stores the saturated successor *)
Theorem count_step c idn s a ti st :
  wf_m (mt st) -> ~ In (a_id a) (groups_for_arg c (a_id a)) -> count_flag a ->
  exists st', react_core c idn s a [] ti st = ROk (st', PRValuesDone) /\
    wf_m (mt st') /\ mt_pending (mt st') = mt_pending (mt st) /\
    groups_of (a_id a) (mt st') = Some [[n_to_dec (N.min 255 (count_of (groups_of (a_id a) (mt st)) + 1))]] /\
    (forall j, j <> a_id a -> ~ In j (groups_for_arg c (a_id a)) ->
       get j (mt st') = if is_cmdline s && overridden c a j then None else get j (mt st)).
Proof.
  intros Hwf Hng [Ea [Evp [Edm En]]].
  assert (Hok : exists st', react_core c idn s a [] ti st = ROk (st', PRValuesDone)).
  { rewrite react_core_unfold. rewrite (verify_num_args_flag c a st En).
    assert (Hv : (if is_cmdline s then ROk tt else ROk tt) = @ROk unit tt) by (destruct (is_cmdline s); reflexivity).
    rewrite Hv. cbn [rbind]. rewrite (occ_values_nil c a ti Edm). cbn [expect rbind].
    unfold react_action. rewrite Ea.
    set (v := n_to_dec (N.min 255 (existing_count a (mt st) + 1))).
    pose proof (mt_remove_wf (mt st) (a_id a) Hwf) as W1.
    destruct (mt_remove (mt st) (a_id a)) as [m1 removed]. cbn [fst] in W1.
    destruct (start_custom_arg_spec c a s m1 W1) as [m2 [E2 [W2 [P2 [G2 F2]]]]].
    rewrite E2. cbn [rbind]. specialize (G2 Hng).
    rewrite <- (set_mt_mt st m2) in W2, G2.
    set (ma0 := opt_default (marg_new (a_ignore_case a) false) (own_prev c s a (get (a_id a) m1))) in *.
    assert (R2 : m_raw (new_val_group (set_source s ma0)) = m_raw ma0 ++ [[]]) by (destruct ma0; reflexivity).
    assert (Hall : Forall (fun x => vp_parse VPCount x = None) [v]).
    { constructor; [|constructor]. apply dec_accept. lia. }
    destruct (push_arg_values_ok c a VPCount Evp [v] _ _ _ _ Hall W2 G2 R2) as [st' E'].
    rewrite E'. cbn [rbind]. exists st'. reflexivity. }
  destruct Hok as [st' H]. exists st'. split; [exact H|].
  destruct (react_core_spec _ _ _ _ _ _ _ _ _ Hwf Hng H) as [vals [Ho [W [P [G [F _]]]]]].
  rewrite occ_values_nil in Ho by exact Edm. inversion Ho; subst.
  split; [exact W|]. split; [exact P|]. split; [|exact F].
  rewrite G. unfold step_self. rewrite Ea. reflexivity.
Qed.

(** the side condition on group ids follows from the configuration gate [assert_app] *)
Theorem assert_app_group_ids c a : assert_app c = true -> In a (c_args c) ->
  forall x, ~ In (a_id a) (groups_for_arg c x).
Proof.
  intros H Hin x Hg. unfold assert_app in H.
  repeat (apply andb_prop in H; destruct H as [H ?]).
  match goal with Hgr : forallb _ (c_groups c) = true |- _ => rename Hgr into HG end.
  unfold groups_for_arg in Hg. apply in_map_iff in Hg. destruct Hg as [g [Eg Hgin]].
  apply filter_In in Hgin. destruct Hgin as [Hgin _].
  rewrite forallb_forall in HG. specialize (HG g Hgin).
  repeat (apply andb_prop in HG; destruct HG as [HG ?]).
  match goal with Hn : negb (is_some (find_arg c (g_id g))) = true |- _ => rename Hn into HN end.
  rewrite Eg in HN. unfold find_arg in HN.
  destruct (List.find (fun a0 => beq (a_id a0) (a_id a)) (c_args c)) eqn:Ef; [discriminate|].
  pose proof (find_none _ _ Ef a Hin) as Hx. cbn beta in Hx. rewrite beq_refl in Hx. discriminate.
Qed.

(** * 6. Sequences of occurrences *)
Record occ := mkOcc { o_ident : option ident; o_src : src; o_arg : arg; o_raw : list bytes; o_ti : option N }.

(** what [Parser::parse] does with a sequence of occurrences: one [react] each, in order *)
Fixpoint react_all (c : cmd) (os : list occ) (st : ps) : res ps :=
  match os with
  | [] => ROk st
  | o :: t => do x <- react c (o_ident o) (o_src o) (o_arg o) (o_raw o) (o_ti o) st; react_all c t (fst x)
  end.

Lemma react_no_pending c idn s a raw ti st : mt_pending (mt st) = None ->
  react c idn s a raw ti st = react_core c idn s a raw ti st.
Proof. intros H. unfold react, resolve_pending. rewrite H. reflexivity. Qed.

(** the abstract per-argument fold: what one occurrence [o] does to the stored groups of argument [i] *)
Definition o_vals (c : cmd) (o : occ) : list bytes := opt_default [] (occ_values c (o_arg o) (o_raw o) (o_ti o)).
Definition step_abs (c : cmd) (i : id) (prev : option groups) (o : occ) : option groups :=
  if beq (a_id (o_arg o)) i
  then Some (step_self c (o_src o) (o_arg o) (o_vals c o) prev)
  else if is_cmdline (o_src o) && overridden c (o_arg o) i then None else prev.

Definition no_group_clash (c : cmd) (i : id) (o : occ) : Prop :=
  ~ In (a_id (o_arg o)) (groups_for_arg c (a_id (o_arg o))) /\ ~ In i (groups_for_arg c (a_id (o_arg o))).

(** Refinement: for every argument id [i], any successful sequence of occurrences leaves in the
    matcher exactly what the abstract fold computes. *)
Theorem react_all_denote c i : forall os st st',
  wf_m (mt st) -> mt_pending (mt st) = None -> Forall (no_group_clash c i) os ->
  react_all c os st = ROk st' ->
  groups_of i (mt st') = fold_left (step_abs c i) os (groups_of i (mt st)) /\
  wf_m (mt st') /\ mt_pending (mt st') = None.
Proof.
  induction os as [|o os IH]; intros st st' Hwf Hp Hall H; cbn [react_all fold_left] in *.
  - inversion H; subst. repeat split; assumption.
  - inversion Hall as [|? ? [Hc1 Hc2] Hall']; subst.
    rewrite react_no_pending in H by exact Hp.
    destruct (react_core c (o_ident o) (o_src o) (o_arg o) (o_raw o) (o_ti o) st) as [[st1 pr]|e st1|site] eqn:E;
      cbn [rbind fst] in H; try discriminate.
    destruct (react_core_spec _ _ _ _ _ _ _ _ _ Hwf Hc1 E) as [vals [Ho [W [P [G [F _]]]]]].
    rewrite Hp in P.
    destruct (IH st1 st' W P Hall' H) as [R [W' P']].
    split; [|split; assumption]. rewrite R. f_equal.
    unfold step_abs, o_vals. rewrite Ho. cbn [opt_default].
    destruct (beq (a_id (o_arg o)) i) eqn:Ei.
    + apply beq_eq in Ei. subst i. exact G.
    + apply beq_neq in Ei. unfold groups_of. rewrite F; [|congruence|exact Hc2].
      destruct (is_cmdline (o_src o) && overridden c (o_arg o) i); reflexivity.
Qed.

(** ** corollaries about the abstract fold *)
(** [o] is neither an occurrence of [i] nor of an argument in an override relation with [i] *)
Definition unrelated (c : cmd) (i : id) (o : occ) : Prop :=
  beq (a_id (o_arg o)) i = false /\ is_cmdline (o_src o) && overridden c (o_arg o) i = false.
Fixpoint count_occ (i : id) (os : list occ) : nat :=
  match os with [] => O | o :: t => (if beq (a_id (o_arg o)) i then 1 else 0) + count_occ i t end.

Lemma step_abs_unrelated c i prev o : unrelated c i o -> step_abs c i prev o = prev.
Proof. intros [H1 H2]. unfold step_abs. rewrite H1, H2. reflexivity. Qed.

(** Count: n occurrences, interleaved with anything unrelated, for ALL n *)
Lemma abs_count c a : a_get_action a = ACount -> a_default_missing a = [] ->
  forall os k, Forall (fun o => (o_arg o = a /\ o_raw o = []) \/ unrelated c (a_id a) o) os ->
  fold_left (step_abs c (a_id a)) os (enc k) = enc (k + N.of_nat (count_occ (a_id a) os)).
Proof.
  intros Ea Edm. induction os as [|o os IH]; intros k Hall; cbn [fold_left count_occ].
  - f_equal. lia.
  - inversion Hall as [|? ? Ho Hall']; subst. destruct Ho as [[Eo Er]|Hu].
    + unfold step_abs at 2. rewrite Eo, beq_refl. unfold o_vals. rewrite Eo, Er, occ_values_nil by exact Edm.
      cbn [opt_default]. unfold step_self. rewrite Ea. rewrite enc_succ, IH by exact Hall'. f_equal. lia.
    + rewrite step_abs_unrelated by exact Hu. destruct Hu as [Hu _]. rewrite Hu, IH by exact Hall'. f_equal.
Qed.

(** Append: all occurrences' values, in command-line order, one group each *)
Definition occ_groups (c : cmd) (i : id) (os : list occ) : groups :=
  flat_map (fun o => if beq (a_id (o_arg o)) i then [o_vals c o] else []) os.

Lemma abs_append c a : a_get_action a = AAppend ->
  forall os prev,
  Forall (fun o => (o_arg o = a /\ is_cmdline (o_src o) && overridden c a (a_id a) = false) \/ unrelated c (a_id a) o) os ->
  opt_default [] (fold_left (step_abs c (a_id a)) os prev) = opt_default [] prev ++ occ_groups c (a_id a) os /\
  (is_some prev = true \/ (0 < count_occ (a_id a) os)%nat -> is_some (fold_left (step_abs c (a_id a)) os prev) = true).
Proof.
  intros Ea. induction os as [|o os IH]; intros prev Hall; cbn [fold_left occ_groups flat_map count_occ].
  - rewrite app_nil_r. split; [reflexivity|]. intros [H|H]; [exact H|lia].
  - inversion Hall as [|? ? Ho Hall']; subst. destruct Ho as [[Eo Er]|Hu].
    + unfold step_abs at 2 4. rewrite Eo, beq_refl. unfold step_self. rewrite Ea. unfold own_prev. rewrite Er.
      destruct (IH (Some (opt_default [] prev ++ [o_vals c o])) Hall') as [I1 I2].
      split; [etransitivity; [exact I1|]; cbn [opt_default]; rewrite <- app_assoc; reflexivity|].
      intros _. apply I2. left. reflexivity.
    + rewrite step_abs_unrelated by exact Hu. destruct Hu as [Hu _]. rewrite Hu. cbn [app plus]. apply IH. exact Hall'.
Qed.

(** Set / SetTrue / SetFalse: the last occurrence decides, whatever came before *)
Lemma fold_unrelated c i os : Forall (unrelated c i) os -> forall prev, fold_left (step_abs c i) os prev = prev.
Proof.
  induction os as [|o os IH]; intros Hall prev; [reflexivity|]. inversion Hall; subst.
  cbn [fold_left]. rewrite step_abs_unrelated by assumption. apply IH. assumption.
Qed.

Lemma abs_last_wins c a os1 o os2 prev : set_family a = true -> o_arg o = a ->
  Forall (unrelated c (a_id a)) os2 ->
  fold_left (step_abs c (a_id a)) (os1 ++ o :: os2) prev = Some (step_self c (o_src o) a (o_vals c o) None).
Proof.
  intros Hf Eo Hall. rewrite fold_left_app. cbn [fold_left]. rewrite fold_unrelated by exact Hall.
  unfold step_abs. rewrite Eo, beq_refl. f_equal. unfold step_self, set_family in *.
  destruct (a_get_action a); try discriminate; reflexivity.
Qed.

(** Overrides: after a command-line occurrence of an argument related to [i] (either direction),
    [i] holds nothing until it occurs again - the later-given one is what remains *)
Lemma fold_absent c i os : Forall (fun o => beq (a_id (o_arg o)) i = false) os ->
  fold_left (step_abs c i) os None = None.
Proof.
  induction os as [|o os IH]; intros Hall; [reflexivity|]. inversion Hall as [|? ? Ho Hall']; subst.
  cbn [fold_left]. unfold step_abs at 2. rewrite Ho.
  destruct (is_cmdline (o_src o) && overridden c (o_arg o) i); apply IH; exact Hall'.
Qed.

Lemma abs_override_later_wins c i os1 o os2 prev :
  beq (a_id (o_arg o)) i = false -> o_src o = SCmdLine -> overridden c (o_arg o) i = true ->
  Forall (fun o' => beq (a_id (o_arg o')) i = false) os2 ->
  fold_left (step_abs c i) (os1 ++ o :: os2) prev = None.
Proof.
  intros Hb Hs Ho Hall. rewrite fold_left_app. cbn [fold_left]. unfold step_abs at 2.
  rewrite Hb, Hs, Ho. cbn [is_cmdline andb]. apply fold_absent. exact Hall.
Qed.

(** ** the same, stated on [react_all] *)
Theorem count_saturates c a os st st' :
  a_get_action a = ACount -> a_default_missing a = [] ->
  wf_m (mt st) -> mt_pending (mt st) = None -> groups_of (a_id a) (mt st) = None ->
  Forall (no_group_clash c (a_id a)) os ->
  Forall (fun o => (o_arg o = a /\ o_raw o = []) \/ unrelated c (a_id a) o) os ->
  react_all c os st = ROk st' ->
  groups_of (a_id a) (mt st') = enc (N.of_nat (count_occ (a_id a) os)).
Proof.
  intros Ea Edm Hwf Hp Hg Hc Hall H.
  destruct (react_all_denote c (a_id a) os st st' Hwf Hp Hc H) as [R _].
  rewrite R, Hg. change None with (enc 0). rewrite (abs_count c a Ea Edm os 0 Hall). reflexivity.
Qed.

(** n occurrences of a built Count flag never fail, from any state holding the abstract counter k *)
Theorem count_total c a idn s ti : count_flag a -> ~ In (a_id a) (groups_for_arg c (a_id a)) ->
  forall n st k, wf_m (mt st) -> mt_pending (mt st) = None -> groups_of (a_id a) (mt st) = enc k ->
  exists st', react_all c (repeat (mkOcc idn s a [] ti) n) st = ROk st' /\
    wf_m (mt st') /\ mt_pending (mt st') = None /\
    groups_of (a_id a) (mt st') = enc (k + N.of_nat n).
Proof.
  intros Hcf Hng. induction n as [|n IH]; intros st k Hwf Hp Hg; cbn [repeat react_all].
  - exists st. repeat split; try assumption. rewrite Hg. f_equal. lia.
  - cbn [o_ident o_src o_arg o_raw o_ti]. rewrite react_no_pending by exact Hp.
    destruct (count_step c idn s a ti st Hwf Hng Hcf) as [st1 [E [W [P [G _]]]]].
    rewrite E. cbn [rbind fst]. rewrite Hp in P. rewrite Hg, enc_succ in G.
    destruct (IH st1 (k + 1) W P G) as [st' [E' [W' [P' G']]]].
    exists st'. split; [exact E'|]. split; [exact W'|]. split; [exact P'|]. rewrite G'. f_equal. lia.
Qed.

Theorem append_all_in_order c a os st st' :
  a_get_action a = AAppend ->
  wf_m (mt st) -> mt_pending (mt st) = None ->
  Forall (no_group_clash c (a_id a)) os ->
  Forall (fun o => (o_arg o = a /\ is_cmdline (o_src o) && overridden c a (a_id a) = false) \/ unrelated c (a_id a) o) os ->
  react_all c os st = ROk st' ->
  opt_default [] (groups_of (a_id a) (mt st')) = opt_default [] (groups_of (a_id a) (mt st)) ++ occ_groups c (a_id a) os /\
  ((0 < count_occ (a_id a) os)%nat -> is_some (groups_of (a_id a) (mt st')) = true).
Proof.
  intros Ea Hwf Hp Hc Hall H.
  destruct (react_all_denote c (a_id a) os st st' Hwf Hp Hc H) as [R _].
  rewrite R. destruct (abs_append c a Ea os (groups_of (a_id a) (mt st)) Hall) as [A1 A2].
  split; [exact A1|]. intros Hn. apply A2. right. exact Hn.
Qed.

Theorem set_last_occurrence_wins c a os1 o os2 st st' :
  set_family a = true -> o_arg o = a ->
  wf_m (mt st) -> mt_pending (mt st) = None ->
  Forall (no_group_clash c (a_id a)) (os1 ++ o :: os2) -> Forall (unrelated c (a_id a)) os2 ->
  react_all c (os1 ++ o :: os2) st = ROk st' ->
  groups_of (a_id a) (mt st') = Some (step_self c (o_src o) a (o_vals c o) None).
Proof.
  intros Hf Eo Hwf Hp Hc Hall H.
  destruct (react_all_denote c (a_id a) _ st st' Hwf Hp Hc H) as [R _].
  rewrite R. apply abs_last_wins; assumption.
Qed.

Theorem override_later_wins c i os1 o os2 st st' :
  beq (a_id (o_arg o)) i = false -> o_src o = SCmdLine -> overridden c (o_arg o) i = true ->
  wf_m (mt st) -> mt_pending (mt st) = None ->
  Forall (no_group_clash c i) (os1 ++ o :: os2) ->
  Forall (fun o' => beq (a_id (o_arg o')) i = false) os2 ->
  react_all c (os1 ++ o :: os2) st = ROk st' ->
  groups_of i (mt st') = None.
Proof.
  intros Hb Hs Ho Hwf Hp Hc Hall H.
  destruct (react_all_denote c i _ st st' Hwf Hp Hc H) as [R _].
  rewrite R. apply abs_override_later_wins; assumption.
Qed.

Theorem count_decimal k : k <= 255 ->
  parse_i64 (n_to_dec k) = Some (Z.of_N k) /\ vp_parse VPCount (n_to_dec k) = None /\ count_of (enc k) = k.
Proof. intros H. split; [exact (dec_roundtrip k H)|]. split; [exact (dec_accept k H)|]. rewrite count_of_enc. lia. Qed.

Theorem default_only_when_absent c a st :
  a_default_ifs a = [] ->
  (mt_contains (mt st) (a_id a) = true -> add_default_value c a st = ROk st) /\
  (a_default a <> [] -> mt_contains (mt st) (a_id a) = false ->
   add_default_value c a st = (do x <- react c None SDefault a (a_default a) None st; ROk (fst x))).
Proof.
  intros Hi. split; [exact (add_default_value_present c a st Hi)|exact (add_default_value_absent c a st Hi)].
Qed.

(** * Non-vacuity: a concrete command on which every hypothesis above is satisfiable *)
Module Examples.
  (** prog -v (Count) -q (SetTrue) -n (SetFalse) --opt <v> (Append) --set <v> (Set, overrides itself and q)
      --uniq <v> (Set), -x (SetTrue, overrides v) *)
  Definition v : arg := arg_build ((arg_new [118]) <| a_short := Some 118 |> <| a_action := Some ACount |>).
  Definition q : arg := arg_build ((arg_new [113]) <| a_short := Some 113 |> <| a_action := Some ASetTrue |>).
  Definition n : arg := arg_build ((arg_new [110]) <| a_short := Some 110 |> <| a_action := Some ASetFalse |>).
  Definition opt : arg := arg_build ((arg_new [111]) <| a_long := Some [111; 112; 116] |> <| a_action := Some AAppend |>
                                       <| a_num := Some {| vmin := 1; vmax := 3 |} |>).
  Definition set : arg := arg_build ((arg_new [115]) <| a_long := Some [115; 101; 116] |> <| a_action := Some ASet |>
                                       <| a_overrides := [[115]; [113]] |>).
  Definition uniq : arg := arg_build ((arg_new [117]) <| a_long := Some [117] |> <| a_action := Some ASet |>).
  Definition x : arg := arg_build ((arg_new [120]) <| a_short := Some 120 |> <| a_action := Some ASetTrue |>
                                     <| a_overrides := [[118]] |>).
  Definition c : cmd := (cmd_new [112]) <| c_args := [v; q; n; opt; set; uniq; x] |>.
  Definition o (a : arg) (raw : list bytes) := mkOcc (Some IShort) SCmdLine a raw None.
  Definition run (os : list occ) := react_all c os ps_new.
  Definition groups_after (i : id) (os : list occ) : option (option groups) :=
    match run os with ROk st => Some (groups_of i (mt st)) | _ => None end.

  Example count_flag_v : count_flag v.
  Proof. repeat split; reflexivity. Qed.
  Example no_clash : forall a, In a (c_args c) -> groups_for_arg c (a_id a) = [].
  Proof. intros a H. reflexivity. Qed.
  (** 0, 1, 255, 256, 300 occurrences of -v *)
  Example count_0 : groups_after [118] [] = Some None. Proof. reflexivity. Qed.
  Example count_1 : groups_after [118] [o v []] = Some (Some [[[49]]]). Proof. vm_compute. reflexivity. Qed.
  Example count_255 : groups_after [118] (repeat (o v []) 255) = Some (Some [[[50; 53; 53]]]). Proof. vm_compute. reflexivity. Qed.
  Example count_256 : groups_after [118] (repeat (o v []) 256) = Some (Some [[[50; 53; 53]]]). Proof. vm_compute. reflexivity. Qed.
  Example count_300_interleaved :
    groups_after [118] (flat_map (fun _ => [o v []; o opt [[119]]]) (seq 0 300)) = Some (Some [[[50; 53; 53]]]).
  Proof. vm_compute. reflexivity. Qed.
  (** -q is unrelated to v; -x overrides v: a later -x removes v, a later -v removes x *)
  Example unrelated_q : unrelated c [118] (o q []).
  Proof. split; reflexivity. Qed.
  Example overridden_both_directions : overridden c x [118] = true /\ overridden c v [120] = true.
  Proof. split; reflexivity. Qed.
  Example override_v_then_x : groups_after [118] [o v []; o v []; o x []] = Some None /\
                              groups_after [120] [o v []; o v []; o x []] = Some (Some [[s_true]]).
  Proof. split; vm_compute; reflexivity. Qed.
  Example override_x_then_v : groups_after [120] [o x []; o v []] = Some None /\
                              groups_after [118] [o x []; o v []] = Some (Some [[[49]]]).
  Proof. split; vm_compute; reflexivity. Qed.
  (** Append keeps order and boundaries *)
  Example append_order : groups_after [111] [o opt [[97]]; o q []; o opt [[98]; [99]]] = Some (Some [[[97]]; [[98]; [99]]]).
  Proof. vm_compute. reflexivity. Qed.
  (** Set: self-override -> last wins; without -> ArgumentConflict *)
  Example set_last : groups_after [115] [o set [[97]]; o set [[98]]] = Some (Some [[[98]]]).
  Proof. vm_compute. reflexivity. Qed.
  Example set_conflict :
    match run [o uniq [[97]]; o uniq [[98]]] with RErr e _ => e_kind e = EArgumentConflict | _ => False end.
  Proof. vm_compute. reflexivity. Qed.
  Example conflict_hypotheses :
    exists st, run [o uniq [[97]]] = ROk st /\ set_family uniq = true /\
      verify_num_args c uniq [[98]] st = ROk tt /\ occ_values c uniq [[98]] None = Some [[98]] /\
      mt_contains (mt st) (a_id uniq) = true /\ is_set s_args_override_self c = false /\
      mem_id (a_id uniq) (a_overrides uniq) = false.
  Proof. eexists. split; [vm_compute; reflexivity|]. repeat split; reflexivity. Qed.
  (** flags: value on occurrence, opposite default from Arg::_build *)
  Example flag_q : groups_after [113] [o q []] = Some (Some [[s_true]]) /\ a_default q = [s_false].
  Proof. split; vm_compute; reflexivity. Qed.
  Example flag_n : groups_after [110] [o n []] = Some (Some [[s_false]]) /\ a_default n = [s_true].
  Proof. split; vm_compute; reflexivity. Qed.
  Example well_formed_start : wf_m (mt ps_new) /\ mt_pending (mt ps_new) = None.
  Proof. split; [apply wf_m_new|reflexivity]. Qed.
End Examples.
