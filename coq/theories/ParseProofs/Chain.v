(** Property C09, whole-argv composition for the subcommand chain.

    Part 1: the token loop [parse_loop] never touches the recorded subcommand ([mt_sub]) —
            for every command, token list, loop state and parser state.
    Part 2: a class of option prefixes ([prefix_ok]: `--flag`, `--opt=v`, `--opt v`, flag clusters
            `-abc`, with values that are not subcommand names) is consumed by the loop item by item;
            the loop reaches the next token in state ValuesDone with the matcher that the prefix
            alone produces.
    Part 3: chain theorem by induction over the nesting ([line]): a successful parse of
            `pre_0 n_1 pre_1 … n_k pre_k` reports exactly `[canon n_1; …; canon n_k]`
            (names, aliases, long flag-subcommands, an external subcommand last with its arguments
            verbatim), each level being computed from its own prefix and its own definition.
    Part 4: composition with the globals merge of Globals.v. *)
From ClapModel Require Import Base.Bytes Base.Machine Base.Utf8 Lex.OsStrExtModel.
From ClapModel Require Import Parse.Cmd Parse.Build Parse.Valid Parse.Matcher Parse.Errors Parse.Validator Parse.Parser.
From ClapModel Require Import ParseProofs.Actions ParseProofs.ActionsLoop ParseProofs.Spelling.
From ClapModel Require Import ParseProofs.Globals ParseProofs.Dispatch.
From ClapModel Require Reentrancy.ReentrancyProofs.
From Coq Require Import ZArith Lia.
From RecordUpdate Require Import RecordSet.
Import RecordSetNotations.
Open Scope N_scope.

(** * Part 1: [parse_loop] leaves [mt_sub] untouched *)
Definition lr_st (lr : loop_res) : ps :=
  match lr with
  | LDone st => st
  | LSub _ _ _ st _ => st
  | LExternal _ _ st => st
  | LHelpSub _ st => st
  end.

Section LoopSub.
Variable c : cmd.
Variable s : option (bytes * matches).
Notation SS := (S_ s).

Lemma resolve_pending_ignore_sub st : SS st -> holds SS SS (resolve_pending_ignore c st).
Proof.
  intros Hs. unfold resolve_pending_ignore. pose proof (resolve_pending_sub c s st Hs) as H.
  destruct (resolve_pending c st) as [s1|e s1|x]; cbn [holds] in *; auto.
Qed.

Lemma pending_values_push_sub m i idn tr v m' :
  pending_values_push m i idn tr v = Some m' -> mt_sub m' = mt_sub m.
Proof.
  unfold pending_values_push. destruct (negb _); [discriminate|]. destruct (_ && _); [discriminate|].
  intros H. inversion H. reflexivity.
Qed.

Lemma start_trailing_sub m : mt_sub (start_trailing m) = mt_sub m.
Proof. unfold start_trailing. destruct (mt_pending m); reflexivity. Qed.

Lemma state_arg_sub pst (Qe : ps -> Prop) : holds (fun _ : option arg => True) Qe (state_arg c pst).
Proof.
  destruct pst as [|i|i]; cbn [state_arg]; [exact I| |];
    (destruct (find_arg c i); cbn [expect rbind holds]; exact I).
Qed.

Lemma parse_opt_value_sub idn att a he st :
  SS st -> holds (fun x => SS (fst x)) SS (parse_opt_value c idn att a he st).
Proof.
  intros Hs. unfold parse_opt_value. destruct (a_req_eq a && negb he).
  - eapply holds_bind; [apply holds_expect; intros; exact I|]. intros r _.
    destruct (vmin r =? 0); [|exact Hs].
    eapply holds_bind; [apply react_sub; exact Hs|]. intros x Hx. exact Hx.
  - destruct att as [v|].
    + eapply holds_bind; [apply react_sub; exact Hs|]. intros x Hx. exact Hx.
    + eapply holds_bind; [apply resolve_pending_sub; exact Hs|]. intros st1 H1.
      eapply holds_bind.
      { apply (holds_expect (fun m => mt_sub m = s)). intros m Hm. apply pending_values_push_sub in Hm.
        rewrite Hm. exact H1. }
      intros m Hm. exact Hm.
Qed.

Lemma parse_long_arg_sub f ok v pst pos vaf st :
  SS st -> holds (fun x => SS (fst (fst x))) SS (parse_long_arg c f ok v pst pos vaf st).
Proof.
  intros Hs. rewrite parse_long_arg_unfold.
  eapply holds_bind; [apply state_arg_sub|]. intros sa _.
  destruct (match sa with Some a => a_hyphen a | None => false end); [exact Hs|].
  destruct (negb ok); [exact Hs|].
  destruct (is_nil f && negb (is_some v)); [exact I|].
  unfold parse_long_found. destruct (lookup_long c f) as [a|].
  - destruct (a_takes_value a).
    + eapply holds_bind; [apply parse_opt_value_sub; exact Hs|]. intros x Hx. exact Hx.
    + destruct v as [r|]; [exact Hs|].
      eapply holds_bind; [apply react_sub; exact Hs|]. intros x Hx. exact Hx.
  - destruct (possible_long_flag_subcommand c f); [exact Hs|].
    destruct (match get_pos c pos with Some a => a_hyphen a && negb (a_last a) | None => false end); exact Hs.
Qed.

Lemma short_loop_sub : forall fuel r ret vaf st,
  SS st -> holds (fun x => SS (fst (fst x))) SS (short_loop c fuel r ret vaf st).
Proof.
  induction fuel as [|f IH]; intros r ret vaf st Hs; cbn [short_loop]; [exact I|].
  destruct (sf_next r) as [[[ch|rs] r']|]; [|exact Hs|exact Hs].
  destruct (get_short c ch) as [a|].
  - destruct (negb (a_takes_value a)).
    + eapply holds_bind; [apply react_sub; exact Hs|]. intros x Hx. apply IH. exact Hx.
    + match goal with |- context [let '(_, _) := ?X in _] => destruct X as [val he] end.
      eapply holds_bind; [apply parse_opt_value_sub; exact Hs|]. intros x Hx.
      destruct (snd x); try exact Hx. apply IH. exact Hx.
  - destruct (find_short_subcmd c ch) as [n|]; [|exact Hs].
    eapply holds_bind; [apply resolve_pending_sub; exact Hs|]. intros st1 H1. exact H1.
Qed.

Lemma parse_short_arg_sub r pst pos vaf st :
  SS st -> holds (fun x => SS (fst (fst x))) SS (parse_short_arg c r pst pos vaf st).
Proof.
  intros Hs. unfold parse_short_arg.
  eapply holds_bind; [apply state_arg_sub|]. intros sa _.
  match goal with |- holds _ _ (if ?b then _ else _) => destruct b end; [exact Hs|].
  match goal with |- holds _ _ (if ?b then _ else _) => destruct b end; [exact Hs|].
  match goal with |- holds _ _ (if ?b then _ else _) => destruct b end; [exact Hs|].
  eapply holds_bind; [apply holds_expect; intros; exact I|]. intros r0 _.
  apply short_loop_sub. exact Hs.
Qed.

Lemma is_new_arg_sub n a (Qe : ps -> Prop) : holds (fun _ : bool => True) Qe (is_new_arg c n a).
Proof.
  unfold is_new_arg. destruct (find_arg c (a_id a)) as [a0|]; cbn [expect rbind]; [|exact I].
  destruct (a_hyphen a0 || (a_negnum a0 && pa_is_negative_number n)); [exact I|].
  destruct (is_long n); [exact I|]. destruct (is_short n); exact I.
Qed.

Notation LS := (fun lr => SS (lr_st lr)).

Lemma parse_loop_sub : forall toks ls st, SS st -> holds LS SS (parse_loop c toks ls st).
Proof.
  induction toks as [|tok rest IH]; intros ls st Hs; [exact Hs|].
  cbn [parse_loop].
  match goal with |- holds _ _ (rbind ?ph _) => set (phase1 := ph) end.
  assert (Hph : holds (fun x => let '(early, ls1, st1) := x in
                         SS st1 /\ match early with Some r => holds LS SS r | None => True end) SS phase1).
  { subst phase1. destruct (l_trailing ls); [cbn; split; [exact Hs|exact I]|].
    destruct (if is_set s_sub_precedence c || match l_pst ls with PSValuesDone => true | _ => false end
              then possible_subcommand c tok (l_vaf ls) else None) as [sc|].
    { destruct (beq sc s_help && negb (is_set s_disable_help_sub c)); cbn; split; exact Hs. }
    assert (After : forall x, SS (fst (fst x)) ->
       holds (fun y => let '(early, ls1, st1) := y in
                        SS st1 /\ match early with Some r => holds LS SS r | None => True end) SS
         (let '(st1, pr, vaf1) := x in
          let ls1 := mkL (l_pst ls) (l_pos ls) vaf1 false in
          match pr with
          | PRValuesDone => ROk (Some (parse_loop c rest (mkL PSValuesDone (l_pos ls) vaf1 false) st1), ls1, st1)
          | PROpt i => ROk (Some (parse_loop c rest (mkL (PSOpt i) (l_pos ls) vaf1 false) st1), ls1, st1)
          | PRFlagSub n => ROk (Some (ROk (LSub n false vaf1 st1 rest)), ls1, st1)
          | PREqualsNotProvided a =>
              do st2 <- resolve_pending_ignore c st1; ROk (Some (RErr (mkerr c ENoEquals a) st2), ls1, st2)
          | PRNoMatchingArg a =>
              do st2 <- resolve_pending_ignore c st1; ROk (Some (RErr (mkerr c EUnknownArgument a) st2), ls1, st2)
          | PRUnneeded r a =>
              do st2 <- resolve_pending_ignore c st1; ROk (Some (RErr (mkerr c ETooManyValues a) st2), ls1, st2)
          | PRMaybeHyphen => ROk (None, ls1, st1)
          | PRNoArg => ROk (None, ls1, st1)
          | PRAttachedNotConsumed => RPanic 203
          end)).
    { intros [[st1 pr] vaf1] H1. cbn [fst] in H1. cbv zeta.
      destruct pr; cbn [holds].
      - split; exact H1.
      - split; [exact H1|]. apply IH. exact H1.
      - split; [exact H1|]. apply IH. exact H1.
      - exact I.
      - eapply holds_bind; [apply resolve_pending_ignore_sub; exact H1|]. intros st2 H2. cbn. split; exact H2.
      - split; [exact H1|exact I].
      - eapply holds_bind; [apply resolve_pending_ignore_sub; exact H1|]. intros st2 H2. cbn. split; exact H2.
      - eapply holds_bind; [apply resolve_pending_ignore_sub; exact H1|]. intros st2 H2. cbn. split; exact H2.
      - split; [exact H1|exact I]. }
    destruct (is_escape tok).
    { eapply holds_bind; [apply state_arg_sub|]. intros sa _.
      destruct (match sa with Some a => a_hyphen a | None => false end); cbn [holds]; [split; [exact Hs|exact I]|].
      split; [exact Hs|]. apply IH. unfold S_. cbn. rewrite start_trailing_sub. exact Hs. }
    destruct (to_long tok) as [[[f ok] v]|].
    { eapply holds_bind; [apply parse_long_arg_sub; exact Hs|].
      intros [[st1 pr] vaf1] H1. cbn [fst snd] in *.
      pose proof (After (st1, pr, vaf1) H1) as HA.
      destruct pr; try exact I; cbn in HA |- *; exact HA. }
    destruct (to_short tok) as [r|]; [|cbn; split; [exact Hs|exact I]].
    eapply holds_bind; [apply parse_short_arg_sub; exact Hs|].
    intros [[st1 pr] vaf1] H1. cbn [fst] in H1.
    pose proof (After (st1, pr, vaf1) H1) as HA.
    destruct pr; try exact I; try (cbn in HA |- *; exact HA). clear HA.
    destruct (fs_at st1) as [a0|]; [|cbn; split; exact H1].
    eapply holds_bind; [apply holds_expect; intros; exact I|]. intros d _. cbn. split; exact H1. }
  eapply holds_bind; [exact Hph|]. clear Hph phase1.
  intros [[early ls1] st1] [H1 He].
  destruct early as [r|]; [exact He|]. clear He.
  match goal with
  | |- holds _ _ (match _ with PSValuesDone => ?t | PSOpt _ => _ | PSPos _ => _ end) =>
      assert (Hpos : holds LS SS t)
  end.
  { cbv zeta.
    eapply (holds_bind (fun _ : N => True)).
    { match goal with |- holds _ _ (if ?b then _ else _) => destruct b end.
      - destruct rest as [|n rest']; [exact I|].
        destruct (List.find _ (positionals c)) as [a|]; [|exact I].
        eapply holds_bind; [apply is_new_arg_sub|]. intros na _. exact I.
      - match goal with |- holds _ _ (if ?b then _ else _) => destruct b end; exact I. }
    intros pcv _.
    destruct (get_pos c pcv) as [a|].
    - destruct (a_last a && negb (l_trailing ls1)).
      + eapply holds_bind; [apply resolve_pending_ignore_sub; exact H1|]. intros s2 H2. exact H2.
      + eapply (holds_bind SS).
        { match goal with |- holds _ _ (if ?b then _ else _) => destruct b end;
            [apply resolve_pending_sub; exact H1|exact H1]. }
        intros s2 H2.
        destruct (check_terminator a tok); [apply IH; exact H2|].
        eapply holds_bind.
        { apply (holds_expect (fun m => mt_sub m = s)). intros m Hm. apply pending_values_push_sub in Hm.
          rewrite Hm. exact H2. }
        intros m1 Hm1. destruct (negb (a_is_multiple a)); apply IH; exact Hm1.
    - destruct (is_set s_allow_external c).
      + destruct (utf8_valid tok); [exact H1|].
        eapply holds_bind; [apply resolve_pending_ignore_sub; exact H1|]. intros s2 H2. exact H2.
      + eapply holds_bind; [apply resolve_pending_ignore_sub; exact H1|]. intros s2 H2. exact H2. }
  destruct (if l_trailing ls1 then PSValuesDone else l_pst ls1).
  - exact Hpos.
  - eapply holds_bind; [apply holds_expect; intros; exact I|]. intros a _.
    destruct (check_terminator a tok); [apply IH; exact H1|].
    eapply holds_bind.
    { apply (holds_expect (fun m => mt_sub m = s)). intros m Hm. apply pending_values_push_sub in Hm.
      rewrite Hm. exact H1. }
    intros m1 Hm1.
    eapply holds_bind; [apply holds_expect; intros; exact I|]. intros more _.
    apply IH. exact Hm1.
  - exact Hpos.
Qed.
End LoopSub.

(** the statement for all commands, token lists, loop states and parser states: whatever the loop
    returns (end of input, a selected subcommand, an external subcommand, the help subcommand, or
    an error), the recorded subcommand of the state it hands back is the one it started with *)
Theorem loop_keeps_sub c toks ls st :
  holds (fun lr => mt_sub (mt (lr_st lr)) = mt_sub (mt st))
        (fun st' => mt_sub (mt st') = mt_sub (mt st))
        (parse_loop c toks ls st).
Proof. exact (parse_loop_sub c (mt_sub (mt st)) toks ls st eq_refl). Qed.

(** * Part 2: option prefixes are consumed item by item *)

(** the loop state between items: no value is being collected, `--` not seen *)
Definition lsV (pos : N) (vaf : bool) : lstate := mkL PSValuesDone pos vaf false.

(** the token is not read as a subcommand of [c] (neither a name, an alias, nor — with
    [infer_subcommands] — a unique prefix of one) *)
Definition no_sub (c : cmd) (tok : bytes) : Prop := forall vaf, possible_subcommand c tok vaf = None.

Lemma to_long_not_escape tok x : to_long tok = Some x -> is_escape tok = false.
Proof.
  intros H. destruct (is_escape tok) eqn:E; [|reflexivity].
  unfold is_escape in E. apply beq_eq in E. subst tok. cbv in H. discriminate.
Qed.

Lemma to_long_flag_nonempty tok f ok : to_long tok = Some (f, ok, None) -> is_nil f = false.
Proof.
  unfold to_long. destruct (strip_prefix tok [DASH; DASH]) as [[|b t]|]; try discriminate.
  destruct (split_once (b :: t) [EQ]) as [[f0 v0]|]; [discriminate|].
  intros H. inversion H. reflexivity.
Qed.

Lemma resolve_pending_fs c st st1 : resolve_pending c st = ROk st1 -> fs_skip st1 = fs_skip st.
Proof.
  unfold resolve_pending. destruct (mt_pending (mt st)) as [p|]; [|intros H; inversion H; reflexivity].
  destruct (find_arg c (p_id p)) as [a|]; cbn [expect rbind]; [|discriminate].
  destruct (react_core c (p_ident p) SCmdLine a (p_raw p) (p_trailing_idx p) _) as [[st' pr]|e s0|x] eqn:E;
    cbn [rbind fst]; try discriminate.
  intros H. inversion H; subst. apply react_core_fs in E. rewrite E. reflexivity.
Qed.

(** ** one item = one or two tokens; what it does to the parser state *)

(** `--opt v` (the value in the next token): flush what was pending, then the occurrence itself
    becomes the pending one (it is flushed by the next [react] or by the phases after the loop) *)
Definition sep_fn (c : cmd) (idn : ident) (a : arg) (v : bytes) (st : ps) : res ps :=
  do st1 <- resolve_pending c st;
  ROk (st1 <| mt := (mt st1) <| mt_pending := Some (mkPending (a_id a) (Some idn) [v] None) |> |>).

Definition long_occ (a : arg) (raw : list bytes) : occ := mkOcc (Some ILong) SCmdLine a raw None.

Section Items.
Variable c : cmd.

Lemma loop_long_flag tok f a rest pos vaf st :
  no_sub c tok -> to_long tok = Some (f, true, None) -> get_long c f = Some a -> a_takes_value a = false ->
  parse_loop c (tok :: rest) (lsV pos vaf) st =
  (do st' <- react_all c [long_occ a []] st; parse_loop c rest (lsV pos true) st').
Proof.
  intros Hns Hl Hg Htv. unfold lsV. cbn [parse_loop l_trailing l_pst l_vaf l_pos].
  rewrite orb_true_r, (Hns vaf), (to_long_not_escape _ _ Hl), Hl.
  rewrite parse_long_arg_unfold. cbn [state_arg rbind negb].
  rewrite (to_long_flag_nonempty _ _ _ Hl). cbn [andb].
  rewrite (long_exact_wins c f a Hg). unfold parse_long_found. rewrite Htv.
  cbn [react_all long_occ o_ident o_src o_arg o_raw o_ti].
  destruct (react c (Some ILong) SCmdLine a [] None st) as [[st1 pr]|e st1|site] eqn:Er; cbn [rbind fst snd]; try reflexivity.
  rewrite (react_ok_pr _ _ _ _ _ _ _ _ _ Er). reflexivity.
Qed.

Lemma loop_long_eq tok f v a rest pos vaf st :
  no_sub c tok -> to_long tok = Some (f, true, Some v) -> get_long c f = Some a -> a_takes_value a = true ->
  parse_loop c (tok :: rest) (lsV pos vaf) st =
  (do st' <- react_all c [long_occ a [v]] st; parse_loop c rest (lsV pos true) st').
Proof.
  intros Hns Hl Hg Htv. unfold lsV. cbn [parse_loop l_trailing l_pst l_vaf l_pos].
  rewrite orb_true_r, (Hns vaf), (to_long_not_escape _ _ Hl), Hl.
  rewrite parse_long_arg_unfold. cbn [state_arg rbind negb is_some]. rewrite andb_false_r.
  rewrite (long_exact_wins c f a Hg). unfold parse_long_found. rewrite Htv.
  unfold parse_opt_value. cbn [is_some negb]. rewrite andb_false_r.
  cbn [react_all long_occ o_ident o_src o_arg o_raw o_ti].
  destruct (react c (Some ILong) SCmdLine a [v] None st) as [[st1 pr]|e st1|site]; cbn [rbind fst snd]; reflexivity.
Qed.

(** `--opt` alone, the option wants a value: the loop goes on in state Opt with an empty pending occurrence *)
Lemma loop_long_open tok f a rest pos vaf st :
  no_sub c tok -> to_long tok = Some (f, true, None) -> get_long c f = Some a -> a_takes_value a = true ->
  a_req_eq a = false ->
  parse_loop c (tok :: rest) (lsV pos vaf) st =
  (do st1 <- resolve_pending c st;
   parse_loop c rest (mkL (PSOpt (a_id a)) pos true false)
     (st1 <| mt := (mt st1) <| mt_pending := Some (mkPending (a_id a) (Some ILong) [] None) |> |>)).
Proof.
  intros Hns Hl Hg Htv Hre. unfold lsV. cbn [parse_loop l_trailing l_pst l_vaf l_pos].
  rewrite orb_true_r, (Hns vaf), (to_long_not_escape _ _ Hl), Hl.
  rewrite parse_long_arg_unfold. cbn [state_arg rbind negb].
  rewrite (to_long_flag_nonempty _ _ _ Hl). cbn [andb].
  rewrite (long_exact_wins c f a Hg). unfold parse_long_found. rewrite Htv.
  unfold parse_opt_value. rewrite Hre. cbn [andb is_some].
  destruct (resolve_pending c st) as [st1|e s1|x] eqn:RP; cbn [rbind]; try reflexivity.
  pose proof (resolve_pending_clears _ _ _ RP) as PN.
  assert (PV1 : pending_values_push (mt st1) (a_id a) (Some ILong) false None =
                Some ((mt st1) <| mt_pending := Some (mkPending (a_id a) (Some ILong) [] None) |>)).
  { unfold pending_values_push. rewrite PN. cbn [p_id p_ident p_raw p_trailing_idx is_some].
    rewrite beq_refl. reflexivity. }
  rewrite PV1. cbn [expect rbind fst snd]. reflexivity.
Qed.

(** the value token of a pending option *)
Lemma loop_value tok rest pos vaf st a r p :
  no_sub c tok -> is_escape tok = false -> to_long tok = None -> to_short tok = None ->
  find_arg c (a_id a) = Some a -> check_terminator a tok = false ->
  a_num a = Some r -> r_accepts_more r (N.of_nat (S (length (p_raw p)))) = false ->
  mt_pending (mt st) = Some p -> p_id p = a_id a ->
  parse_loop c (tok :: rest) (mkL (PSOpt (a_id a)) pos vaf false) st =
  parse_loop c rest (lsV pos vaf)
    (st <| mt := (mt st) <| mt_pending := Some (mkPending (p_id p) (p_ident p) (p_raw p ++ [tok]) (p_trailing_idx p)) |> |>).
Proof.
  intros Hns He Hl Hs Hf Hct Hn Hacc Hp Hid. cbn [parse_loop l_trailing l_pst l_vaf l_pos].
  replace (if is_set s_sub_precedence c || false then possible_subcommand c tok vaf else None) with (@None bytes)
    by (destruct (is_set s_sub_precedence c); cbn [orb]; [rewrite (Hns vaf)|]; reflexivity).
  rewrite He, Hl, Hs. cbn [rbind l_trailing l_pst l_vaf l_pos]. rewrite Hf. cbn [expect rbind]. rewrite Hct.
  unfold pending_values_push. rewrite Hp, Hid, beq_refl. cbn [negb is_some andb expect rbind].
  set (P := mkPending (a_id a) (p_ident p) (p_raw p ++ [tok]) (p_trailing_idx p)).
  unfold needs_more_vals.
  replace (mt_pending (mt st <| mt_pending := Some P |>)) with (Some P) by reflexivity.
  subst P. cbn [p_id p_raw]. rewrite beq_refl, Hn. cbn [expect rbind].
  rewrite app_length. cbn [length]. rewrite Nat.add_1_r, Hacc. reflexivity.
Qed.

Lemma loop_long_sep tok f a r v rest pos vaf st :
  no_sub c tok -> to_long tok = Some (f, true, None) -> get_long c f = Some a -> a_takes_value a = true ->
  a_req_eq a = false -> find_arg c (a_id a) = Some a -> a_num a = Some r -> r_accepts_more r 1 = false ->
  no_sub c v -> is_escape v = false -> to_long v = None -> to_short v = None -> check_terminator a v = false ->
  parse_loop c (tok :: v :: rest) (lsV pos vaf) st =
  (do st' <- sep_fn c ILong a v st; parse_loop c rest (lsV pos true) st').
Proof.
  intros Hns Hl Hg Htv Hre Hf Hn Hacc Hnsv Hev Hlv Hsv Hct.
  rewrite (loop_long_open tok f a (v :: rest) pos vaf st Hns Hl Hg Htv Hre).
  unfold sep_fn. destruct (resolve_pending c st) as [st1|e s1|x]; cbn [rbind]; try reflexivity.
  set (st2 := st1 <| mt := (mt st1) <| mt_pending := Some (mkPending (a_id a) (Some ILong) [] None) |> |>).
  pose proof (loop_value v rest pos true st2 a r (mkPending (a_id a) (Some ILong) [] None)
                Hnsv Hev Hlv Hsv Hf Hct Hn Hacc eq_refl eq_refl) as HV.
  rewrite HV. reflexivity.
Qed.

Lemma loop_cluster tok os rest pos vaf st :
  no_sub c tok -> cluster_token c tok os -> fs_skip st = 0 ->
  parse_loop c (tok :: rest) (lsV pos vaf) st =
  (do st' <- react_all c os st; parse_loop c rest (lsV pos true) st').
Proof.
  intros Hns [ch [r [Et [Hne [Hd Hc]]]]] Hskip. subst tok.
  pose proof (parse_short_cluster c ch r os pos vaf st Hd Hc Hskip) as Hpsa.
  assert (E45 : (ch =? 45) = false) by (apply N.eqb_neq; exact Hne).
  assert (Hesc : is_escape (45 :: ch :: r) = false).
  { unfold is_escape, DASH. cbn [beq]. rewrite E45. reflexivity. }
  assert (Hlong : to_long (45 :: ch :: r) = None).
  { unfold to_long, strip_prefix, DASH. cbn [starts_with]. rewrite E45. reflexivity. }
  assert (Hshort : to_short (45 :: ch :: r) = Some (ch :: r)).
  { unfold to_short, strip_prefix, DASH. cbn [starts_with length skipn].
    change ((45 =? 45) && true) with true. cbn iota. cbn [starts_with]. rewrite E45. reflexivity. }
  unfold lsV. cbn [parse_loop]. cbn [l_trailing l_pst l_vaf l_pos].
  rewrite orb_true_r, (Hns vaf), Hesc, Hlong, Hshort, Hpsa.
  destruct (react_all c os st) as [st1|e st1|site]; cbn [rbind fst snd]; reflexivity.
Qed.
(** short options: `-ov` (value attached) and `-o v` *)
Definition no_hyphen (c0 : cmd) : Prop := forall pos, no_hyphen_pos c0 pos.
Definition short_occ (a : arg) (raw : list bytes) : occ := mkOcc (Some IShort) SCmdLine a raw None.

Lemma loop_short_att tok r ch b t a rest pos vaf st :
  no_sub c tok -> is_escape tok = false -> to_long tok = None -> to_short tok = Some r ->
  sf_next r = Some (inl ch, b :: t) -> b <> 61 -> get_short c ch = Some a -> a_takes_value a = true ->
  a_req_eq a = false -> no_hyphen c -> fs_skip st = 0 ->
  parse_loop c (tok :: rest) (lsV pos vaf) st =
  (do st' <- react_all c [short_occ a [b :: t]] st; parse_loop c rest (lsV pos true) st').
Proof.
  intros Hns He Hl Hs Hn Hb Hg Htv Hre Hpos Hsk. unfold lsV. cbn [parse_loop l_trailing l_pst l_vaf l_pos].
  rewrite orb_true_r, (Hns vaf), He, Hl, Hs.
  rewrite (parse_short_arg_clean c r pos vaf st Hsk (Hpos pos)).
  replace (st <| fs_skip := 0 |>) with st by (destruct st as [m0 ci fa fk]; cbn in Hsk; subst fk; reflexivity).
  rewrite (short_loop_opt_attached c _ r ch a b t PRNoArg vaf st Hn Hb Hg Htv Hre).
  unfold parse_opt_value. rewrite Hre. cbn [andb].
  cbn [react_all short_occ o_ident o_src o_arg o_raw o_ti]. unfold bytes in *.
  match goal with |- context [react ?a1 ?a2 ?a3 ?a4 ?a5 ?a6 ?a7] =>
    destruct (react a1 a2 a3 a4 a5 a6 a7) as [[st1 pr]|e st1|site] end; cbn [rbind fst snd]; reflexivity.
Qed.

Lemma loop_short_open tok r ch a rest pos vaf st :
  no_sub c tok -> is_escape tok = false -> to_long tok = None -> to_short tok = Some r ->
  sf_next r = Some (inl ch, []) -> get_short c ch = Some a -> a_takes_value a = true ->
  a_req_eq a = false -> no_hyphen c -> fs_skip st = 0 ->
  parse_loop c (tok :: rest) (lsV pos vaf) st =
  (do st1 <- resolve_pending c st;
   parse_loop c rest (mkL (PSOpt (a_id a)) pos true false)
     (st1 <| mt := (mt st1) <| mt_pending := Some (mkPending (a_id a) (Some IShort) [] None) |> |>)).
Proof.
  intros Hns He Hl Hs Hn Hg Htv Hre Hpos Hsk. unfold lsV. cbn [parse_loop l_trailing l_pst l_vaf l_pos].
  rewrite orb_true_r, (Hns vaf), He, Hl, Hs.
  rewrite (parse_short_arg_clean c r pos vaf st Hsk (Hpos pos)).
  replace (st <| fs_skip := 0 |>) with st by (destruct st as [m0 ci fa fk]; cbn in Hsk; subst fk; reflexivity).
  rewrite (short_loop_opt_alone c _ r ch a PRNoArg vaf st Hn Hg Htv).
  unfold parse_opt_value. rewrite Hre. cbn [andb].
  destruct (resolve_pending c st) as [st1|e s1|x] eqn:RP; cbn [rbind]; try reflexivity.
  pose proof (resolve_pending_clears _ _ _ RP) as PN.
  assert (PV1 : pending_values_push (mt st1) (a_id a) (Some IShort) false None =
                Some ((mt st1) <| mt_pending := Some (mkPending (a_id a) (Some IShort) [] None) |>)).
  { unfold pending_values_push. rewrite PN. cbn [p_id p_ident p_raw p_trailing_idx is_some].
    rewrite beq_refl. reflexivity. }
  rewrite PV1. cbn [expect rbind fst snd]. reflexivity.
Qed.

Lemma loop_short_sep tok r0 ch a r v rest pos vaf st :
  no_sub c tok -> is_escape tok = false -> to_long tok = None -> to_short tok = Some r0 ->
  sf_next r0 = Some (inl ch, []) -> get_short c ch = Some a -> a_takes_value a = true ->
  a_req_eq a = false -> no_hyphen c -> find_arg c (a_id a) = Some a -> a_num a = Some r -> r_accepts_more r 1 = false ->
  no_sub c v -> is_escape v = false -> to_long v = None -> to_short v = None -> check_terminator a v = false ->
  fs_skip st = 0 ->
  parse_loop c (tok :: v :: rest) (lsV pos vaf) st =
  (do st' <- sep_fn c IShort a v st; parse_loop c rest (lsV pos true) st').
Proof.
  intros Hns He Hl Hs Hn Hg Htv Hre Hpos Hf Hnum Hacc Hnsv Hev Hlv Hsv Hct Hsk.
  rewrite (loop_short_open tok r0 ch a (v :: rest) pos vaf st Hns He Hl Hs Hn Hg Htv Hre Hpos Hsk).
  unfold sep_fn. destruct (resolve_pending c st) as [st1|e s1|x]; cbn [rbind]; try reflexivity.
  set (st2 := st1 <| mt := (mt st1) <| mt_pending := Some (mkPending (a_id a) (Some IShort) [] None) |> |>).
  pose proof (loop_value v rest pos true st2 a r (mkPending (a_id a) (Some IShort) [] None)
                Hnsv Hev Hlv Hsv Hf Hct Hnum Hacc eq_refl eq_refl) as HV.
  rewrite HV. reflexivity.
Qed.
End Items.

(** ** the class of option prefixes: a list of items, with the state transformer it denotes *)
Inductive item (c : cmd) : list bytes -> (ps -> res ps) -> Prop :=
| it_flag tok f a :        (* `--flag`, an exact long key of an argument that takes no value *)
    no_sub c tok -> to_long tok = Some (f, true, None) -> get_long c f = Some a -> a_takes_value a = false ->
    item c [tok] (react_all c [long_occ a []])
| it_eq tok f v a :        (* `--opt=v` *)
    no_sub c tok -> to_long tok = Some (f, true, Some v) -> get_long c f = Some a -> a_takes_value a = true ->
    item c [tok] (react_all c [long_occ a [v]])
| it_sep tok f a r v :     (* `--opt v`, one value at most, [v] does not look like a flag and is not a subcommand *)
    no_sub c tok -> to_long tok = Some (f, true, None) -> get_long c f = Some a -> a_takes_value a = true ->
    a_req_eq a = false -> find_arg c (a_id a) = Some a -> a_num a = Some r -> r_accepts_more r 1 = false ->
    no_sub c v -> is_escape v = false -> to_long v = None -> to_short v = None -> check_terminator a v = false ->
    item c [tok; v] (sep_fn c ILong a v)
| it_cluster tok os :      (* `-abc`: ASCII shorts of arguments that take no value *)
    no_sub c tok -> cluster_token c tok os ->
    item c [tok] (react_all c os)
| it_short_att tok r ch b t a :   (* `-ov`: the value attached, not starting with `=` *)
    no_sub c tok -> is_escape tok = false -> to_long tok = None -> to_short tok = Some r ->
    sf_next r = Some (inl ch, b :: t) -> b <> 61 -> get_short c ch = Some a -> a_takes_value a = true ->
    a_req_eq a = false -> no_hyphen c ->
    item c [tok] (react_all c [short_occ a [b :: t]])
| it_short_sep tok r0 ch a r v :  (* `-o v` *)
    no_sub c tok -> is_escape tok = false -> to_long tok = None -> to_short tok = Some r0 ->
    sf_next r0 = Some (inl ch, []) -> get_short c ch = Some a -> a_takes_value a = true ->
    a_req_eq a = false -> no_hyphen c -> find_arg c (a_id a) = Some a -> a_num a = Some r -> r_accepts_more r 1 = false ->
    no_sub c v -> is_escape v = false -> to_long v = None -> to_short v = None -> check_terminator a v = false ->
    item c [tok; v] (sep_fn c IShort a v).

Inductive prefix_ok (c : cmd) : list bytes -> (ps -> res ps) -> Prop :=
| po_nil : prefix_ok c [] (fun st => ROk st)
| po_cons toks F pre G : item c toks F -> prefix_ok c pre G ->
    prefix_ok c (toks ++ pre) (fun st => do st' <- F st; G st').

Lemma item_step c toks F : item c toks F -> forall rest pos vaf st, fs_skip st = 0 ->
  parse_loop c (toks ++ rest) (lsV pos vaf) st = (do st' <- F st; parse_loop c rest (lsV pos true) st').
Proof.
  intros Hi rest pos vaf st Hfs. destruct Hi; cbn [app].
  - apply (loop_long_flag c tok f a); assumption.
  - apply (loop_long_eq c tok f v a); assumption.
  - apply (loop_long_sep c tok f a r v); assumption.
  - apply loop_cluster; assumption.
  - apply (loop_short_att c tok r ch b t a); assumption.
  - apply (loop_short_sep c tok r0 ch a r v); assumption.
Qed.

Lemma item_fs c toks F : item c toks F -> forall st st', F st = ROk st' -> fs_skip st' = fs_skip st.
Proof.
  intros Hi st st' H. destruct Hi; try (apply (react_all_fs _ _ _ _ H)).
  all: unfold sep_fn in H; destruct (resolve_pending c st) as [st1|e s1|x] eqn:E; cbn [rbind] in H; try discriminate;
    inversion H; subst; apply resolve_pending_fs in E; rewrite <- E; reflexivity.
Qed.

Lemma item_nonempty c toks F : item c toks F -> is_nil toks = false.
Proof. intros Hi. destruct Hi; reflexivity. Qed.

Lemma prefix_fs c pre F : prefix_ok c pre F -> forall st st', F st = ROk st' -> fs_skip st' = fs_skip st.
Proof.
  induction 1 as [|toks F pre G Hi Hp IH]; intros st st' H; [inversion H; reflexivity|].
  destruct (F st) as [st1|e s1|x] eqn:E; cbn [rbind] in H; try discriminate.
  rewrite (IH _ _ H). exact (item_fs c toks F Hi _ _ E).
Qed.

(** the loop on `pre ++ rest` IS the prefix's state transformer followed by the loop on [rest], in state
    ValuesDone, same positional counter, `--` not seen *)
Theorem loop_prefix c pre F : prefix_ok c pre F -> forall rest pos vaf st, fs_skip st = 0 ->
  parse_loop c (pre ++ rest) (lsV pos vaf) st =
  (do st' <- F st; parse_loop c rest (lsV pos (vaf || negb (is_nil pre))) st').
Proof.
  induction 1 as [|toks F pre G Hi Hp IH]; intros rest pos vaf st Hfs.
  - cbn [app rbind is_nil negb]. rewrite orb_false_r. reflexivity.
  - rewrite <- app_assoc, (item_step c toks F Hi (pre ++ rest) pos vaf st Hfs).
    destruct (F st) as [st1|e s1|x] eqn:E; cbn [rbind]; try reflexivity.
    rewrite IH by (rewrite (item_fs c toks F Hi _ _ E); exact Hfs).
    pose proof (item_nonempty c toks F Hi) as Hne. destruct toks as [|t0 ts]; [discriminate|].
    cbn [app is_nil negb orb]. rewrite orb_true_r. reflexivity.
Qed.

(** the prefix alone: the loop ends with [LDone] of the same state *)
Corollary loop_prefix_alone c pre F : prefix_ok c pre F -> forall pos vaf st, fs_skip st = 0 ->
  parse_loop c pre (lsV pos vaf) st = (do st' <- F st; ROk (LDone st')).
Proof.
  intros Hp pos vaf st Hfs. pose proof (loop_prefix c pre F Hp [] pos vaf st Hfs) as H.
  rewrite app_nil_r in H. rewrite H. destruct (F st); reflexivity.
Qed.

(** the same without the transformer: what the loop does on `pre ++ rest` is what it does on [pre]
    alone, continued on [rest] from the state the prefix alone ends in (level isolation, loop level) *)
Definition opt_prefix (c : cmd) (pre : list bytes) : Prop := exists F, prefix_ok c pre F.

Theorem loop_prefix_split c pre : opt_prefix c pre -> forall rest pos vaf st, fs_skip st = 0 ->
  parse_loop c (pre ++ rest) (lsV pos vaf) st =
  (do lr <- parse_loop c pre (lsV pos vaf) st;
   match lr with
   | LDone st' => parse_loop c rest (lsV pos (vaf || negb (is_nil pre))) st'
   | other => ROk other
   end).
Proof.
  intros [F Hp] rest pos vaf st Hfs.
  rewrite (loop_prefix c pre F Hp rest pos vaf st Hfs), (loop_prefix_alone c pre F Hp pos vaf st Hfs).
  destruct (F st); reflexivity.
Qed.

(** ** the selecting token *)
Definition not_help (c : cmd) (n : bytes) : Prop := (beq n s_help && negb (is_set s_disable_help_sub c)) = false.

Inductive sel (c : cmd) : bytes -> bytes -> Prop :=
| sel_name tok sc0 :       (* a name or an alias, no inference *)
    utf8_valid tok = true -> is_set s_infer_sub c = false -> find_subcommand c tok = Some sc0 ->
    not_help c (c_name sc0) -> sel c tok (c_name sc0)
| sel_long tok flag n :    (* `--sub`, a long flag-subcommand *)
    no_sub c tok -> to_long tok = Some (flag, true, None) -> get_long c flag = None ->
    is_set s_infer_long c = false -> possible_long_flag_subcommand c flag = Some n -> sel c tok n.

Lemma sel_loop c tok n : sel c tok n -> is_set s_args_negate_subs c = false ->
  forall rest pos vaf st, parse_loop c (tok :: rest) (lsV pos vaf) st = ROk (LSub n false vaf st rest).
Proof.
  intros Hs Hn rest pos vaf st. destruct Hs as [tok sc0 Hu Hi Hf Hh|tok flag n Hns Hl Hg Hi Hp].
  - apply dispatch_by_name; try assumption. rewrite Hn. reflexivity.
  - apply (dispatch_long_flag c tok flag); try assumption.
    + apply Hns.
    + exact (to_long_not_escape _ _ Hl).
    + intros ->. apply to_long_flag_nonempty in Hl. discriminate.
Qed.

Lemma sel_resolves c tok n : sel c tok n -> exists sc0, find_subcommand c n = Some sc0.
Proof.
  intros Hs. destruct Hs as [tok sc0 Hu Hi Hf Hh|tok flag n Hns Hl Hg Hi Hp].
  - apply Dispatch.find_some_in in Hf. destruct Hf as [Hin _]. apply Dispatch.find_subcommand_name. exact Hin.
  - exact (possible_long_flag_subcommand_resolves c flag n Hp).
Qed.

(** the token that starts an external subcommand: not a subcommand, does not look like a flag, the
    command has no positional arguments and allows external subcommands *)
Definition pos_free (c : cmd) : Prop :=
  filter (fun p : key * arg => match fst p with KPos _ => true | _ => false end) (keymap c) = [].
Definition ext_tok (c : cmd) (tok : bytes) : Prop :=
  no_sub c tok /\ is_escape tok = false /\ to_long tok = None /\ to_short tok = None /\
  utf8_valid tok = true /\ is_set s_allow_external c = true /\ pos_free c.

Lemma find_none_of_filter {A} (p q : A -> bool) l :
  filter p l = [] -> (forall x, q x = true -> p x = true) -> List.find q l = None.
Proof.
  intros Hf Himp. induction l as [|x t IH]; [reflexivity|]. cbn [filter List.find] in *.
  destruct (q x) eqn:Eq.
  - rewrite (Himp x Eq) in Hf. discriminate.
  - apply IH. destruct (p x); [discriminate|exact Hf].
Qed.

Lemma pos_free_get_pos c n : pos_free c -> get_pos c n = None.
Proof.
  intros H. unfold get_pos. rewrite (find_none_of_filter _ _ _ H); [reflexivity|].
  intros [k a]. cbn [fst]. destruct k; try discriminate. reflexivity.
Qed.
Lemma pos_free_count c : pos_free c -> positional_count c = 0.
Proof. intros H. unfold positional_count. rewrite H. reflexivity. Qed.

Lemma ext_loop c tok : ext_tok c tok -> forall rest pos vaf st,
  parse_loop c (tok :: rest) (lsV pos vaf) st = ROk (LExternal tok rest st).
Proof.
  intros [Hns [He [Hl [Hs [Hu [Ha Hpf]]]]]] rest pos vaf st. unfold lsV.
  cbn [parse_loop l_trailing l_pst l_vaf l_pos].
  rewrite orb_true_r, (Hns vaf), He, Hl, Hs. cbn [rbind l_trailing l_pst l_vaf l_pos].
  rewrite (pos_free_count c Hpf).
  replace (pos + 1 =? 0) with false by (symmetry; apply N.eqb_neq; lia).
  rewrite !andb_false_r. cbn [andb orb rbind].
  rewrite (pos_free_get_pos c pos Hpf), Ha, Hu. reflexivity.
Qed.

(** * Part 3: the chain theorem *)
Lemma build_subcommand_name c n sc : build_subcommand c n = Some sc -> c_name sc = n.
Proof.
  unfold build_subcommand. destruct (List.find (fun s => beq (c_name s) n) (c_subs c)) as [s0|] eqn:E; [|discriminate].
  apply Dispatch.find_some_in in E. destruct E as [_ E]. apply beq_eq in E.
  intros H. inversion H. rewrite ReentrancyProofs.build_self_name.
  destruct (c_display_name _); exact E.
Qed.

(** the innermost level of a matches chain *)
Fixpoint deepest (m : matches) : list (id * marg) :=
  match m with
  | Matches a None => a
  | Matches _ (Some (_, s)) => deepest s
  end.

(** a level that neither swallows the errors of its children nor lets its arguments forbid subcommands *)
Definition lvl_ok (c : cmd) : Prop :=
  is_set s_args_negate_subs c = false /\ is_set s_ignore_errors c = false.

(** the child is the first one with its name, and its name resolves to it (no other child uses that
    name as an alias): what [debug_asserts] guarantees for a valid command *)
Definition canonical (c sc0 : cmd) : Prop :=
  find_subcommand c (c_name sc0) = Some sc0 /\
  List.find (fun s => beq (c_name s) (c_name sc0)) (c_subs c) = Some sc0.

(** [line c toks names ext]: [toks] is `pre_0 n_1 pre_1 … n_k pre_k` for the (built) command [c]:
    [pre_i] an option prefix of the level reached, [n_i] a token selecting a child of that level
    ([sel]); [names] are the canonical names [c_name] of the children [find_subcommand] resolves the
    selections to; the last element may instead be the name of an external subcommand, then [ext] holds
    its arguments (every remaining token) *)
Inductive line : cmd -> list bytes -> list bytes -> option (list bytes) -> Prop :=
| ln_end c pre : opt_prefix c pre -> line c pre [] None
| ln_sub c pre tok n sc0 sc rest names ext :
    lvl_ok c -> opt_prefix c pre -> sel c tok n -> find_subcommand c n = Some sc0 ->
    canonical c sc0 ->
    build_subcommand c (c_name sc0) = Some sc -> line sc rest names ext ->
    line c (pre ++ tok :: rest) (c_name sc0 :: names) ext
| ln_ext c pre tok rest :
    opt_prefix c pre -> ext_tok c tok -> line c (pre ++ tok :: rest) [tok] (Some rest).

Lemma chain_into_inner m n sm : mt_sub m = Some (n, sm) ->
  chain (into_inner m) = n :: chain sm /\ deepest (into_inner m) = deepest sm.
Proof. intros H. unfold into_inner. rewrite H. split; reflexivity. Qed.

Theorem chain_of_line : forall c toks names ext, line c toks names ext ->
  forall f st, get_matches_with f c toks ps_new = ROk st ->
  chain (into_inner (mt st)) = names /\
  match ext with
  | Some vals => deepest (into_inner (mt st)) = [(ext_id, ext_marg vals)]
  | None => True
  end.
Proof.
  induction 1 as [c pre [F Hp]|c pre tok n sc0 sc rest names ext [Hneg Hign] [F Hp] Hsel Hfind Hcan Hbuild Hline IH|c pre tok rest [F Hp] Hext];
    intros f st H; (destruct f as [|f]; [discriminate|]);
    destruct (gmw_step f c _ ps_new st H) as [lr [Hlr Hm]]; change (mkL PSValuesDone 1 false false) with (lsV 1 false) in Hlr.
  - rewrite (loop_prefix_alone c pre F Hp 1 false ps_new eq_refl) in Hlr.
    destruct (F ps_new) as [st'|e s1|x] eqn:EF; cbn [rbind] in Hlr; try discriminate.
    inversion Hlr; subst lr. clear Hlr.
    pose proof (loop_keeps_sub c pre (lsV 1 false) ps_new) as Hk.
    rewrite (loop_prefix_alone c pre F Hp 1 false ps_new eq_refl), EF in Hk. cbn [rbind holds lr_st] in Hk.
    split; [|exact I]. unfold into_inner. rewrite Hm, Hk. reflexivity.
  - rewrite (loop_prefix c pre F Hp (tok :: rest) 1 false ps_new eq_refl) in Hlr.
    destruct (F ps_new) as [st'|e s1|x] eqn:EF; cbn [rbind] in Hlr; try discriminate.
    rewrite (sel_loop c tok n Hsel Hneg) in Hlr. inversion Hlr; subst lr. clear Hlr.
    destruct Hm as [sc0' [Hf' Hm]]. rewrite Hfind in Hf'. inversion Hf'; subst sc0'. clear Hf'.
    rewrite Hbuild in Hm. destruct Hm as [sub_st [Hchild Hsub]].
    destruct Hchild as [Hchild|[e [_ Hi]]]; [|rewrite Hign in Hi; discriminate].
    change (sub_init false st') with ps_new in Hchild.
    destruct (IH f sub_st Hchild) as [IH1 IH2].
    destruct (chain_into_inner _ _ _ Hsub) as [C1 C2].
    rewrite C1, C2, IH1, (build_subcommand_name c _ sc Hbuild). split; [reflexivity|exact IH2].
  - rewrite (loop_prefix c pre F Hp (tok :: rest) 1 false ps_new eq_refl) in Hlr.
    destruct (F ps_new) as [st'|e s1|x] eqn:EF; cbn [rbind] in Hlr; try discriminate.
    rewrite (ext_loop c tok Hext) in Hlr. inversion Hlr; subst lr. clear Hlr.
    destruct (chain_into_inner _ _ _ Hm) as [C1 C2]. rewrite C1, C2. split; reflexivity.
Qed.

(** * Examples: the hypotheses are satisfiable (three levels, alias, long options in the three
    spellings, a cluster, a global option given at two levels, an external subcommand last) *)
Definition dd (s : bytes) : bytes := 45 :: 45 :: s.
Definition w_verbose : bytes := [118; 101; 114; 98; 111; 115; 101].
Definition w_cfg : bytes := [99; 102; 103].
Definition w_yes : bytes := [121; 101; 115].
Definition w_out : bytes := [111; 117; 116].
Definition w_sync : bytes := [115; 121; 110; 99].
Definition w_tool : bytes := [116; 111; 111; 108].
(** p(--cfg <v> global, default d; --verbose/-v) -> sync|sy|--sf(--yes/-y; --out <v>) -> q(-z; external allowed) *)
Definition ex_chain : cmd :=
  (cmd_new (b1 112))
    <| c_args := [ (arg_new w_cfg) <| a_long := Some w_cfg |> <| a_action := Some ASet |> <| a_global := true |> <| a_default := [b1 100] |>;
                   (arg_new w_verbose) <| a_long := Some w_verbose |> <| a_short := Some 118 |> <| a_action := Some ASetTrue |> ] |>
    <| c_subs :=
      [ (cmd_new w_sync) <| c_aliases := [([115; 121], true)] |> <| c_long_flag := Some [115; 102] |>
          <| c_args := [ (arg_new w_yes) <| a_long := Some w_yes |> <| a_short := Some 121 |> <| a_action := Some ASetTrue |>;
                         (arg_new w_out) <| a_long := Some w_out |> <| a_action := Some ASet |> ] |>
          <| c_subs := [ (cmd_new (b1 113)) <| c_args := [ex_flag 122 122] |>
                           <| c_set := settings_none <| s_allow_external := true |> |> ] |> ] |>.
(** `--verbose --cfg=a sy -y --out o1 --cfg b q -z tool -- -x` *)
Definition ex_line : list bytes :=
  [dd w_verbose; dd (w_cfg ++ [61; 97]); [115; 121]; [45; 121]; dd w_out; [111; 49]; dd w_cfg; b1 98;
   b1 113; [45; 122]; w_tool; [45; 45]; [45; 120]].
(** `--verbose --sf --yes` *)
Definition ex_line2 : list bytes := [dd w_verbose; dd [115; 102]; dd w_yes].

Ltac solve_nosub := let v := fresh "v" in intros v; destruct v; vm_compute; reflexivity.
Ltac vmr := vm_compute; reflexivity.

Example ex_line_is_line :
  exists names, line (build_self ex_chain) ex_line names (Some [[45; 45]; [45; 120]]) /\
                names = [w_sync; b1 113; w_tool].
Proof.
  eexists. split.
  - eapply (ln_sub _ [dd w_verbose; dd (w_cfg ++ [61; 97])] [115; 121] _ _ _
                   [[45; 121]; dd w_out; [111; 49]; dd w_cfg; b1 98; b1 113; [45; 122]; w_tool; [45; 45]; [45; 120]]).
    + split; vmr.
    + eexists. eapply (po_cons _ [dd w_verbose] _ [dd (w_cfg ++ [61; 97])]).
      * eapply it_flag; [solve_nosub|vmr|vmr|vmr].
      * eapply (po_cons _ [dd (w_cfg ++ [61; 97])] _ []); [|apply po_nil].
        eapply it_eq; [solve_nosub|vmr|vmr|vmr].
    + eapply sel_name; [vmr|vmr|vmr|vmr].
    + vmr.
    + split; vmr.
    + vmr.
    + eapply (ln_sub _ [[45; 121]; dd w_out; [111; 49]; dd w_cfg; b1 98] (b1 113) _ _ _
                     [[45; 122]; w_tool; [45; 45]; [45; 120]]).
      * split; vmr.
      * eexists. eapply (po_cons _ [[45; 121]] _ [dd w_out; [111; 49]; dd w_cfg; b1 98]).
        { eapply it_cluster; [solve_nosub|].
          exists 121, []. split; [reflexivity|]. split; [discriminate|]. split; [reflexivity|].
          eapply cf_cons; [reflexivity|vmr|vmr|apply cf_nil]. }
        eapply (po_cons _ [dd w_out; [111; 49]] _ [dd w_cfg; b1 98]).
        { eapply it_sep; [solve_nosub|vmr|vmr|vmr|vmr|vmr|vmr|vmr|solve_nosub|vmr|vmr|vmr|vmr]. }
        eapply (po_cons _ [dd w_cfg; b1 98] _ []); [|apply po_nil].
        eapply it_sep; [solve_nosub|vmr|vmr|vmr|vmr|vmr|vmr|vmr|solve_nosub|vmr|vmr|vmr|vmr].
      * eapply sel_name; [vmr|vmr|vmr|vmr].
      * vmr.
      * split; vmr.
      * vmr.
      * eapply (ln_ext _ [[45; 122]] w_tool [[45; 45]; [45; 120]]).
        { eexists. eapply (po_cons _ [[45; 122]] _ []); [|apply po_nil].
          eapply it_cluster; [solve_nosub|].
          exists 122, []. split; [reflexivity|]. split; [discriminate|]. split; [reflexivity|].
          eapply cf_cons; [reflexivity|vmr|vmr|apply cf_nil]. }
        split; [solve_nosub|]. repeat split; vmr.
  - vmr.
Qed.

(** the long flag-subcommand `--sf` *)
Example ex_line2_is_line :
  exists names, line (build_self ex_chain) ex_line2 names None /\ names = [w_sync].
Proof.
  eexists. split.
  - eapply (ln_sub _ [dd w_verbose] (dd [115; 102]) _ _ _ [dd w_yes]).
    + split; vmr.
    + eexists. eapply (po_cons _ [dd w_verbose] _ []); [|apply po_nil].
      eapply it_flag; [solve_nosub|vmr|vmr|vmr].
    + eapply sel_long; [solve_nosub|vmr|vmr|vmr|vmr].
    + vmr.
    + split; vmr.
    + vmr.
    + apply ln_end. eexists. eapply (po_cons _ [dd w_yes] _ []); [|apply po_nil].
      eapply it_flag; [solve_nosub|vmr|vmr|vmr].
  - vmr.
Qed.

(** and the parse of the first line succeeds, so [chain_of_line] applies to it *)
Example ex_line_parses :
  exists st, get_matches_with 5 (build_self ex_chain) ex_line ps_new = ROk st.
Proof. vm_compute. eexists. reflexivity. Qed.

(** * Part 2/3, corollaries used by Properties/C09.v *)

(** the loop reaches the selecting token in state ValuesDone and dispatches *)
Theorem loop_prefix_sel c pre F tok n : prefix_ok c pre F -> sel c tok n -> is_set s_args_negate_subs c = false ->
  forall rest pos vaf st, fs_skip st = 0 ->
  parse_loop c (pre ++ tok :: rest) (lsV pos vaf) st =
  (do st' <- F st; ROk (LSub n false (vaf || negb (is_nil pre)) st' rest)).
Proof.
  intros Hp Hs Hn rest pos vaf st Hfs. rewrite (loop_prefix c pre F Hp (tok :: rest) pos vaf st Hfs).
  destruct (F st) as [st'|e s1|x]; cbn [rbind]; try reflexivity. apply (sel_loop c tok n Hs Hn).
Qed.

(** … or hands every remaining token to an external subcommand *)
Theorem loop_prefix_ext c pre F tok : prefix_ok c pre F -> ext_tok c tok ->
  forall rest pos vaf st, fs_skip st = 0 ->
  parse_loop c (pre ++ tok :: rest) (lsV pos vaf) st = (do st' <- F st; ROk (LExternal tok rest st')).
Proof.
  intros Hp He rest pos vaf st Hfs. rewrite (loop_prefix c pre F Hp (tok :: rest) pos vaf st Hfs).
  destruct (F st) as [st'|e s1|x]; cbn [rbind]; try reflexivity. apply (ext_loop c tok He).
Qed.

(** one level of [get_matches_with] on `pre ++ tok :: rest`: the level is a function of its own
    definition [c], its own prefix [pre] (through [F]) and of the child's run; the child's run
    ([after_sub] with keep = false) is [get_matches_with f sc rest ps_new]: the child's definition,
    the remaining tokens, a fresh state — nothing of [pre] or of the parent's matcher enters it *)
Theorem level_step c pre F tok n f : prefix_ok c pre F -> sel c tok n -> is_set s_args_negate_subs c = false ->
  forall rest st0, fs_skip st0 = 0 ->
  get_matches_with (S f) c (pre ++ tok :: rest) st0 =
  post c (do st' <- F st0; after_sub f c n false (negb (is_nil pre)) st' rest).
Proof.
  intros Hp Hs Hn rest st0 Hfs. rewrite gmw_unfold. unfold parsed_of.
  change (mkL PSValuesDone 1 false false) with (lsV 1 false).
  rewrite (loop_prefix_sel c pre F tok n Hp Hs Hn rest 1 false st0 Hfs).
  destruct (F st0) as [st'|e s1|x]; reflexivity.
Qed.

(** * Part 4: the chain composed with the globals merge *)
Fixpoint matches_ind' (P : matches -> Prop)
  (H0 : forall a, P (Matches a None))
  (H1 : forall a n s, P s -> P (Matches a (Some (n, s)))) (m : matches) : P m :=
  match m with
  | Matches a None => H0 a
  | Matches a (Some (n, s)) => H1 a n s (matches_ind' P H0 H1 s)
  end.

Lemma levels_length m : length (levels m) = S (length (chain m)).
Proof.
  induction m as [a|a n s IH] using matches_ind'; cbn [levels chain length]; [reflexivity|].
  rewrite IH. reflexivity.
Qed.

(** the global arguments of the top command are always in the list [propagate_globals] works on *)
Lemma root_globals_used c0 a k f m :
  In a (c_args (build_self c0)) -> a_global a = true ->
  mem_id (a_id a) (used_global_args (S k) (build_recursive (S f) c0) m) = true.
Proof.
  intros Hin Hg. cbn [used_global_args build_recursive]. unfold mem_id. rewrite existsb_app.
  apply orb_true_iff. left. apply existsb_exists. exists (a_id a). split; [|apply beq_refl].
  apply in_map. apply filter_In. split; [exact Hin|exact Hg].
Qed.

Lemma do_parse_ok c0 toks m' :
  do_parse c0 toks = OOk m' -> is_set s_ignore_errors (build_self c0) = false ->
  exists st, get_matches_with (S (S (depth (build_self c0)))) (build_self c0) toks ps_new = ROk st /\
    m' = fst (filled (S (matches_depth (into_inner (mt st))))
                (used_global_args (S (matches_depth (into_inner (mt st))))
                   (build_recursive (S (S (depth (build_self c0)))) c0) (into_inner (mt st)))
                (into_inner (mt st))).
Proof.
  intros H Hign. unfold do_parse in H.
  destruct (valid c0); cbn [negb] in H; [|discriminate].
  destruct (get_matches_with (S (S (depth (build_self c0)))) (build_self c0) toks ps_new) as [st|e st|site] eqn:Eg.
  - exists st. split; [reflexivity|]. injection H as H. symmetry. exact H.
  - rewrite Hign in H. cbn [andb] in H. discriminate.
  - destruct site; discriminate.
Qed.

Theorem do_parse_line c0 toks names ext m' :
  line (build_self c0) toks names ext -> is_set s_ignore_errors (build_self c0) = false ->
  do_parse c0 toks = OOk m' ->
  exists m globals,
    (* what the parser produced, and the merge *)
    m' = fst (filled (S (matches_depth m)) globals m) /\
    globals = used_global_args (S (matches_depth m)) (build_recursive (S (S (depth (build_self c0)))) c0) m /\
    (* the chain, before and after the merge *)
    chain m = names /\ chain m' = names /\ length (levels m') = S (length names) /\
    match ext with Some vals => deepest m = [(ext_id, ext_marg vals)] | None => True end /\
    (* the global arguments of the top command are merged … *)
    (forall a, In a (c_args (build_self c0)) -> a_global a = true -> mem_id (a_id a) globals = true) /\
    (* … and every merged id that has an entry at some level of the chain has ONE entry at every
       level of the result: same values, same source; it is one of the parsed entries, of maximal
       source, so an explicit occurrence at any level beats the defaults of all levels *)
    (forall g e0, mem_id g globals = true -> In (Some e0) (map (fm_get g) (levels m)) ->
       exists e,
         (forall lv, In lv (levels m') -> fm_get g lv = Some e) /\
         In (Some e) (map (fm_get g) (levels m)) /\
         mrank e0 <= mrank e /\
         (m_source e0 = Some SCmdLine -> m_source e = Some SCmdLine)).
Proof.
  intros Hline Hign H. destruct (do_parse_ok c0 toks m' H Hign) as [st [Eg Hm']].
  destruct (chain_of_line _ _ _ _ Hline _ _ Eg) as [Hc Hd].
  set (m := into_inner (mt st)) in *.
  set (globals := used_global_args (S (matches_depth m)) (build_recursive (S (S (depth (build_self c0)))) c0) m) in *.
  assert (Hfuel : (matches_depth m <= S (matches_depth m))%nat) by lia.
  destruct (merge_chain (S (matches_depth m)) globals m Hfuel) as [Hmc Hml].
  exists m, globals. split; [exact Hm'|]. split; [reflexivity|]. split; [exact Hc|].
  rewrite Hm'. split; [rewrite Hmc; exact Hc|]. split; [rewrite Hml, levels_length, Hc; reflexivity|].
  split; [exact Hd|]. split.
  - intros a Hin Hg. apply root_globals_used; assumption.
  - intros g e0 Hg Hin. exact (explicit_beats_default (S (matches_depth m)) globals m g e0 Hfuel Hg Hin).
Qed.

(** the whole pipeline on the example line: [do_parse_line] applies ([line]: [ex_line_is_line]) *)
Example ex_do_parse :
  exists m', do_parse ex_chain ex_line = OOk m' /\
    is_set s_ignore_errors (build_self ex_chain) = false /\
    chain m' = [w_sync; b1 113; w_tool] /\
    map (fun lv => opt_map (fun e => (m_source e, m_raw e)) (fm_get w_cfg lv)) (levels m') =
      [Some (Some SCmdLine, [[b1 98]]); Some (Some SCmdLine, [[b1 98]]);
       Some (Some SCmdLine, [[b1 98]]); Some (Some SCmdLine, [[b1 98]])].
Proof. vm_compute. eexists. repeat split; reflexivity. Qed.

(** * Part 5: the entries of a level do not depend on the recorded subcommand
    Every phase that stores values ([react], [resolve_pending], [add_env], [add_defaults]) commutes
    with setting [mt_sub]: the entries of a level are those its own prefix produces. *)
Definition msub (s : option (bytes * matches)) (m : matcher) : matcher := m <| mt_sub := s |>.
Definition ssub (s : option (bytes * matches)) (st : ps) : ps := st <| mt := msub s (mt st) |>.
Definition rmap {A B} (f : A -> B) (g : ps -> ps) (r : res A) : res B :=
  match r with ROk a => ROk (f a) | RErr e st => RErr e (g st) | RPanic x => RPanic x end.

Lemma rmap_bind {A B A' B'} (f : A -> A') (f' : B -> B') g (r : res A) (k : A -> res B) (k' : A' -> res B') :
  (forall a, k' (f a) = rmap f' g (k a)) ->
  rbind (rmap f g r) k' = rmap f' g (rbind r k).
Proof. intros H. destruct r; cbn [rmap rbind]; [apply H|reflexivity|reflexivity]. Qed.

Lemma rmap_expect {A B} (f : A -> B) g site (o : option A) :
  expect site (option_map f o) = rmap f g (expect site o).
Proof. destruct o; reflexivity. Qed.

Section SubFrame.
Variable c : cmd.
Variable s : option (bytes * matches).

Lemma mt_remove_msub m i : mt_remove (msub s m) i = (msub s (fst (mt_remove m i)), snd (mt_remove m i)).
Proof. unfold mt_remove, msub. cbn. destruct (fm_remove i (mt_args m)); reflexivity. Qed.

Lemma fold_remove_msub l : forall m,
  fold_left (fun m o => fst (mt_remove m o)) l (msub s m) = msub s (fold_left (fun m o => fst (mt_remove m o)) l m).
Proof.
  induction l as [|o t IH]; intros m; cbn [fold_left]; [reflexivity|].
  rewrite mt_remove_msub. cbn [fst]. apply IH.
Qed.

Lemma remove_overrides_msub a m : remove_overrides c a (msub s m) = msub s (remove_overrides c a m).
Proof.
  unfold remove_overrides. rewrite fold_remove_msub.
  set (m1 := fold_left (fun m o => fst (mt_remove m o)) (a_overrides a) m).
  change (arg_ids (msub s m1)) with (arg_ids m1). apply fold_remove_msub.
Qed.

Lemma add_val_to_msub m i v : add_val_to (msub s m) i v = option_map (msub s) (add_val_to m i v).
Proof.
  unfold add_val_to, msub. cbn. destruct (fm_get i (mt_args m)) as [ma|]; [|reflexivity].
  destruct (append_val v ma); reflexivity.
Qed.
Lemma add_index_to_msub m i k : add_index_to (msub s m) i k = option_map (msub s) (add_index_to m i k).
Proof. unfold add_index_to, msub. cbn. destruct (fm_get i (mt_args m)); reflexivity. Qed.

Lemma start_custom_arg_msub a sr m :
  start_custom_arg c a sr (msub s m) = rmap (msub s) (ssub s) (start_custom_arg c a sr m).
Proof.
  unfold start_custom_arg.
  assert (H1 : match sr with SCmdLine => remove_overrides c a (msub s m) | _ => msub s m end =
               msub s (match sr with SCmdLine => remove_overrides c a m | _ => m end)).
  { destruct sr; try reflexivity. apply remove_overrides_msub. }
  rewrite H1. set (m1 := match sr with SCmdLine => remove_overrides c a m | _ => m end).
  change (start_custom_arg_m (msub s m1) a sr) with (msub s (start_custom_arg_m m1 a sr)).
  destruct (src_explicit sr); [|reflexivity].
  generalize (groups_for_arg c (a_id a)). intros gl.
  change (ROk (msub s (start_custom_arg_m m1 a sr)) : res matcher)
    with (rmap (msub s) (ssub s) (ROk (start_custom_arg_m m1 a sr) : res matcher)).
  generalize (ROk (start_custom_arg_m m1 a sr) : res matcher). intros acc. revert acc.
  induction gl as [|g t IH]; intros acc; cbn [fold_left]; [reflexivity|].
  rewrite <- IH. f_equal.
  apply rmap_bind. intros m0.
  change (start_custom_group_m (msub s m0) g sr) with (msub s (start_custom_group_m m0 g sr)).
  rewrite add_val_to_msub. apply rmap_expect.
Qed.

Lemma push_arg_values_ssub a : forall raw st,
  push_arg_values c a raw (ssub s st) = rmap (ssub s) (ssub s) (push_arg_values c a raw st).
Proof.
  induction raw as [|v t IH]; intros st; cbn [push_arg_values]; [reflexivity|].
  destruct (a_vp a) as [vp|]; cbn [expect rbind]; [|reflexivity].
  destruct (vp_parse vp v); [reflexivity|].
  change (mt (ps_bump (ssub s st))) with (msub s (mt (ps_bump st))).
  rewrite add_val_to_msub.
  destruct (add_val_to (mt (ps_bump st)) (a_id a) v) as [m1|]; cbn [option_map expect rbind]; [|reflexivity].
  change (cur_idx (ps_bump (ssub s st))) with (cur_idx (ps_bump st)).
  rewrite add_index_to_msub.
  destruct (add_index_to m1 (a_id a) (cur_idx (ps_bump st))) as [m2|]; cbn [option_map expect rbind]; [|reflexivity].
  replace (ps_bump (ssub s st) <| mt := msub s m2 |>) with (ssub s (ps_bump st <| mt := m2 |>)) by reflexivity.
  apply IH.
Qed.

Lemma verify_num_args_ssub a raw st :
  verify_num_args c a raw (ssub s st) = rmap (fun u : unit => u) (ssub s) (verify_num_args c a raw st).
Proof.
  unfold verify_num_args. destruct (is_set s_ignore_errors c); [reflexivity|].
  destruct (a_num a) as [r|]; cbn [expect rbind]; [|reflexivity].
  destruct (_ && _); [reflexivity|]. destruct (r_num_values r).
  - destruct (negb _); reflexivity.
  - destruct (_ <? _); [reflexivity|]. destruct (_ <? _); [|reflexivity]. destruct raw; reflexivity.
Qed.

Notation pmap := (rmap (fun x : ps * presult => (ssub s (fst x), snd x)) (ssub s)).

Lemma tail_ssub a sr raw st m1 :
  (do m2 <- start_custom_arg c a sr (msub s m1);
   do st' <- push_arg_values c a raw (ssub s st <| mt := m2 |>);
   ROk (st', PRValuesDone)) =
  pmap (do m2 <- start_custom_arg c a sr m1;
        do st' <- push_arg_values c a raw (st <| mt := m2 |>);
        ROk (st', PRValuesDone)).
Proof.
  rewrite start_custom_arg_msub.
  destruct (start_custom_arg c a sr m1) as [m2|e s1|x]; cbn [rmap rbind]; try reflexivity.
  change (ssub s st <| mt := msub s m2 |>) with (ssub s (st <| mt := m2 |>)).
  rewrite push_arg_values_ssub.
  destruct (push_arg_values c a raw (st <| mt := m2 |>)); reflexivity.
Qed.

Lemma set_like_ssub idn sr a raw bump st :
  set_like c idn sr a raw bump (ssub s st) = pmap (set_like c idn sr a raw bump st).
Proof.
  unfold set_like.
  set (b := bump && is_cmdline sr && is_flag_ident idn).
  assert (Hb : (if b then ps_bump (ssub s st) else ssub s st) = ssub s (if b then ps_bump st else st))
    by (destruct b; reflexivity).
  rewrite Hb. set (st1 := if b then ps_bump st else st).
  change (mt (ssub s st1)) with (msub s (mt st1)). rewrite mt_remove_msub.
  destruct (mt_remove (mt st1) (a_id a)) as [m1 removed]. cbn [fst snd].
  destruct (removed && negb (self_override c a)); [reflexivity|].
  change (ssub s st1 <| mt := msub s m1 |>) with (ssub s (st1 <| mt := m1 |>)).
  exact (tail_ssub a sr raw (st1 <| mt := m1 |>) m1).
Qed.

Lemma react_core_ssub idn sr a raw ti st :
  react_core c idn sr a raw ti (ssub s st) = pmap (react_core c idn sr a raw ti st).
Proof.
  rewrite !react_core_unfold.
  assert (Hv : (if is_cmdline sr then verify_num_args c a raw (ssub s st) else ROk tt) =
               rmap (fun u : unit => u) (ssub s) (if is_cmdline sr then verify_num_args c a raw st else ROk tt))
    by (destruct (is_cmdline sr); [apply verify_num_args_ssub|reflexivity]).
  rewrite Hv.
  destruct (if is_cmdline sr then verify_num_args c a raw st else ROk tt) as [[]|e s1|x]; cbn [rmap rbind]; try reflexivity.
  destruct (occ_values c a raw ti) as [vals|]; cbn [expect rbind]; [|reflexivity].
  unfold react_action. destruct (a_get_action a); try reflexivity; try apply set_like_ssub.
  - set (b := is_cmdline sr && is_flag_ident idn).
    assert (Hb : (if b then ps_bump (ssub s st) else ssub s st) = ssub s (if b then ps_bump st else st))
      by (destruct b; reflexivity).
    rewrite Hb. set (st1 := if b then ps_bump st else st).
    exact (tail_ssub a sr vals st1 (mt st1)).
  - change (existing_count a (mt (ssub s st))) with (existing_count a (mt st)).
    change (mt (ssub s st)) with (msub s (mt st)). rewrite mt_remove_msub.
    destruct (mt_remove (mt st) (a_id a)) as [m1 removed]. cbn [fst snd].
    exact (tail_ssub a sr _ st m1).
Qed.

Lemma resolve_pending_ssub st : resolve_pending c (ssub s st) = rmap (ssub s) (ssub s) (resolve_pending c st).
Proof.
  unfold resolve_pending. change (mt_pending (mt (ssub s st))) with (mt_pending (mt st)).
  destruct (mt_pending (mt st)) as [p|]; [|reflexivity].
  destruct (find_arg c (p_id p)) as [a|]; cbn [expect rbind]; [|reflexivity].
  change (ssub s st <| mt := mt (ssub s st) <| mt_pending := None |> |>)
    with (ssub s (st <| mt := mt st <| mt_pending := None |> |>)).
  rewrite react_core_ssub. destruct (react_core c _ _ _ _ _ _) as [x|e s1|y]; reflexivity.
Qed.

Lemma react_ssub idn sr a raw ti st : react c idn sr a raw ti (ssub s st) = pmap (react c idn sr a raw ti st).
Proof.
  unfold react. rewrite resolve_pending_ssub.
  destruct (resolve_pending c st) as [st1|e s1|x]; cbn [rmap rbind]; try reflexivity. apply react_core_ssub.
Qed.

Lemma fold_ssub {X} (f : ps -> X -> res ps) (l : list X) :
  (forall st x, f (ssub s st) x = rmap (ssub s) (ssub s) (f st x)) ->
  forall r, fold_left (fun rst x => do st <- rst; f st x) l (rmap (ssub s) (ssub s) r) =
            rmap (ssub s) (ssub s) (fold_left (fun rst x => do st <- rst; f st x) l r).
Proof.
  intros Hf. induction l as [|x t IH]; intros r; cbn [fold_left]; [reflexivity|].
  rewrite <- IH. f_equal. destruct r; cbn [rmap rbind]; try reflexivity. apply Hf.
Qed.

Lemma add_env_ssub st : add_env c (ssub s st) = rmap (ssub s) (ssub s) (add_env c st).
Proof.
  unfold add_env.
  apply (fold_ssub (fun st a => if mt_contains (mt st) (a_id a) then ROk st
       else match a_env a with Some v => do x <- react c None SEnv a [v] None st; ROk (fst x) | None => ROk st end)
       (c_args c)) with (r := ROk st).
  intros st0 a. change (mt_contains (mt (ssub s st0)) (a_id a)) with (mt_contains (mt st0) (a_id a)).
  destruct (mt_contains (mt st0) (a_id a)); [reflexivity|]. destruct (a_env a) as [v|]; [|reflexivity].
  rewrite react_ssub. destruct (react c None SEnv a [v] None st0); reflexivity.
Qed.

Lemma add_default_value_ssub a st :
  add_default_value c a (ssub s st) = rmap (ssub s) (ssub s) (add_default_value c a st).
Proof.
  unfold add_default_value.
  change (mt_contains (mt (ssub s st)) (a_id a)) with (mt_contains (mt st) (a_id a)).
  change (mt_args (mt (ssub s st))) with (mt_args (mt st)).
  assert (Hplain : (if negb (is_nil (a_default a)) then
                      if mt_contains (mt st) (a_id a) then ROk (ssub s st)
                      else do x <- react c None SDefault a (a_default a) None (ssub s st); ROk (fst x)
                    else ROk (ssub s st)) =
                   rmap (ssub s) (ssub s)
                     (if negb (is_nil (a_default a)) then
                        if mt_contains (mt st) (a_id a) then ROk st
                        else do x <- react c None SDefault a (a_default a) None st; ROk (fst x)
                      else ROk st)).
  { destruct (negb _); [|reflexivity]. destruct (mt_contains _ _); [reflexivity|].
    rewrite react_ssub. destruct (react c None SDefault a (a_default a) None st); reflexivity. }
  destruct (_ && _); [|exact Hplain].
  destruct (List.find _ _) as [[[i p] [d|]]|]; [|reflexivity|exact Hplain].
  rewrite react_ssub. destruct (react c None SDefault a [d] None st); reflexivity.
Qed.

Lemma add_defaults_ssub st : add_defaults c (ssub s st) = rmap (ssub s) (ssub s) (add_defaults c st).
Proof.
  unfold add_defaults.
  apply (fold_ssub (fun st a => add_default_value c a st) (c_args c)) with (r := ROk st).
  intros st0 a. apply add_default_value_ssub.
Qed.

(** the value-storing phases after the loop *)
Definition fill (st : ps) : res ps :=
  do st1 <- resolve_pending c st; do st2 <- add_env c st1; add_defaults c st2.

Lemma fill_ssub st : fill (ssub s st) = rmap (ssub s) (ssub s) (fill st).
Proof.
  unfold fill. rewrite resolve_pending_ssub.
  destruct (resolve_pending c st) as [st1|e s1|x]; cbn [rmap rbind]; try reflexivity.
  rewrite add_env_ssub. destruct (add_env c st1) as [st2|e s2|x]; cbn [rmap rbind]; try reflexivity.
  apply add_defaults_ssub.
Qed.
End SubFrame.

Lemma ssub_eta st : ssub (mt_sub (mt st)) st = st.
Proof. destruct st as [m ci fa fk]. destruct m as [ar pe su]. reflexivity. Qed.

Lemma after_sub_ok f c n keep vaf st rest st2 :
  after_sub f c n keep vaf st rest = ROk st2 -> st2 = ssub (mt_sub (mt st2)) st.
Proof.
  unfold after_sub. destruct (_ && _); [discriminate|].
  destruct (find_subcommand c n) as [sc0|]; cbn [expect rbind]; [|discriminate].
  destruct (build_subcommand c (c_name sc0)) as [sc|].
  - destruct (negb (assert_app sc)); [discriminate|].
    destruct (get_matches_with f sc rest (sub_init keep st)) as [sub_st|e sub_st|x]; [| |discriminate].
    + intros H. inversion H. reflexivity.
    + destruct (is_set s_ignore_errors c); [|discriminate]. intros H. inversion H. reflexivity.
  - intros H. inversion H; subst. symmetry. apply ssub_eta.
Qed.

Lemma post_ok c x st : post c (ROk x) = ROk st -> fill c x = ROk st.
Proof.
  cbn [post]. unfold fill.
  destruct (resolve_pending c x) as [st1|e s1|y]; cbn [rbind]; try discriminate.
  destruct (add_env c st1) as [st2|e s2|y]; cbn [rbind]; try discriminate.
  destruct (add_defaults c st2) as [st3|e s3|y]; cbn [rbind]; try discriminate.
  unfold vres_to_res. destruct (validate c (mt st3)); try discriminate. intros H. exact H.
Qed.

Lemma post_err c e x st : is_set s_ignore_errors c = false -> post c (RErr e x) = ROk st -> False.
Proof. intros Hi. cbn [post]. rewrite Hi. discriminate. Qed.

(** level isolation on the entries: a successful level `pre ++ tok :: rest` ends in the state that
    its own prefix — the loop on [pre] alone, then [resolve_pending], [add_env], [add_defaults] against
    [c] — produces, with the subcommand record set: nothing of [tok :: rest] or of the child enters
    the entries ([mt_args]), the pending buffer or the counters of the level *)
Theorem level_entries c pre F tok n f rest st :
  prefix_ok c pre F -> sel c tok n -> lvl_ok c ->
  get_matches_with (S f) c (pre ++ tok :: rest) ps_new = ROk st ->
  exists st' stf,
    parse_loop c pre (lsV 1 false) ps_new = ROk (LDone st') /\
    fill c st' = ROk stf /\
    st = ssub (mt_sub (mt st)) stf.
Proof.
  intros Hp Hs [Hneg Hign] H.
  rewrite (level_step c pre F tok n f Hp Hs Hneg rest ps_new eq_refl) in H.
  rewrite (loop_prefix_alone c pre F Hp 1 false ps_new eq_refl).
  destruct (F ps_new) as [st'|e s1|x]; cbn [rbind] in H |- *; [|exfalso; exact (post_err c e s1 st Hign H)|discriminate].
  destruct (after_sub f c n false (negb (is_nil pre)) st' rest) as [st2|e s2|x] eqn:Ea;
    [|exfalso; exact (post_err c e s2 st Hign H)|discriminate].
  apply after_sub_ok in Ea. apply post_ok in H. rewrite Ea, fill_ssub in H.
  destruct (fill c st') as [stf|e s3|x] eqn:Ef; cbn [rmap] in H; try discriminate.
  exists st', stf. split; [reflexivity|]. split; [exact Ef|].
  inversion H. reflexivity.
Qed.

Example ex_level_entries :
  let c := build_self ex_chain in
  exists st, get_matches_with 5 c ([dd w_verbose; dd (w_cfg ++ [61; 97])] ++ [115; 121] :: [[45; 121]]) ps_new = ROk st /\
    lvl_ok c /\
    map fst (mt_args (mt st)) = [w_verbose; w_cfg].
Proof. vm_compute. eexists. repeat split; reflexivity. Qed.

(** * Part 6: short flag-subcommands in the chain — `-S` alone, and `-Syu` (the first letter of a
    cluster selects, the child re-reads the same token from the next letter) *)

(** ** [react] and the prefixes leave [flag_subcmd_at] alone *)
Lemma push_arg_values_fsat c a : forall raw st st', push_arg_values c a raw st = ROk st' -> fs_at st' = fs_at st.
Proof.
  induction raw as [|v t IH]; intros st st' H; cbn [push_arg_values] in H.
  - inversion H; reflexivity.
  - destruct (a_vp a); cbn [expect rbind] in H; [|discriminate].
    destruct (vp_parse v0 v); [discriminate|].
    destruct (add_val_to _ _ _); cbn [expect rbind] in H; [|discriminate].
    destruct (add_index_to _ _ _); cbn [expect rbind] in H; [|discriminate].
    apply IH in H. rewrite H. destruct st; reflexivity.
Qed.

Lemma react_core_fsat c idn s a raw ti st st' pr : react_core c idn s a raw ti st = ROk (st', pr) -> fs_at st' = fs_at st.
Proof.
  rewrite react_core_unfold.
  destruct (if is_cmdline s then verify_num_args c a raw st else ROk tt) as [[]|e0 st0|site]; cbn [rbind]; try discriminate.
  destruct (occ_values c a raw ti) as [vals|]; cbn [expect rbind]; [|discriminate].
  assert (forall vs bump, set_like c idn s a vs bump st = ROk (st', pr) -> fs_at st' = fs_at st) as HS.
  { intros vs bump. unfold set_like.
    set (st1 := if bump && is_cmdline s && is_flag_ident idn then ps_bump st else st).
    assert (E1 : fs_at st1 = fs_at st) by (unfold st1; destruct (bump && is_cmdline s && is_flag_ident idn); destruct st; reflexivity).
    destruct (mt_remove _ _) as [m1 removed]. destruct (removed && negb (self_override c a)); [discriminate|].
    destruct (start_custom_arg c a s m1); cbn [rbind]; try discriminate.
    destruct (push_arg_values c a vs _) eqn:Ep; cbn [rbind]; try discriminate. intros H; inversion H; subst.
    apply push_arg_values_fsat in Ep. rewrite Ep, <- E1. destruct st1; reflexivity. }
  unfold react_action. destruct (a_get_action a); try discriminate; try apply HS.
  - set (st1 := if is_cmdline s && is_flag_ident idn then ps_bump st else st).
    assert (E1 : fs_at st1 = fs_at st) by (unfold st1; destruct (is_cmdline s && is_flag_ident idn); destruct st; reflexivity).
    destruct (start_custom_arg c a s _); cbn [rbind]; try discriminate.
    destruct (push_arg_values c a vals _) eqn:Ep; cbn [rbind]; try discriminate. intros H; inversion H; subst.
    apply push_arg_values_fsat in Ep. rewrite Ep, <- E1. destruct st1; reflexivity.
  - destruct (mt_remove _ _) as [m1 removed].
    destruct (start_custom_arg c a s m1); cbn [rbind]; try discriminate.
    destruct (push_arg_values c a _ _) eqn:Ep; cbn [rbind]; try discriminate. intros H; inversion H; subst.
    apply push_arg_values_fsat in Ep. rewrite Ep. destruct st; reflexivity.
Qed.

Lemma resolve_pending_fsat c st st1 : resolve_pending c st = ROk st1 -> fs_at st1 = fs_at st.
Proof.
  unfold resolve_pending. destruct (mt_pending (mt st)) as [p|]; [|intros H; inversion H; reflexivity].
  destruct (find_arg c (p_id p)) as [a|]; cbn [expect rbind]; [|discriminate].
  destruct (react_core c (p_ident p) SCmdLine a (p_raw p) (p_trailing_idx p) _) as [[st' pr]|e s0|x] eqn:E;
    cbn [rbind fst]; try discriminate.
  intros H. inversion H; subst. apply react_core_fsat in E. rewrite E. reflexivity.
Qed.

Lemma react_fsat c idn s a raw ti st st' pr : react c idn s a raw ti st = ROk (st', pr) -> fs_at st' = fs_at st.
Proof.
  unfold react. destruct (resolve_pending c st) as [st1|e s1|x] eqn:E; cbn [rbind]; try discriminate.
  intros H. apply react_core_fsat in H. apply resolve_pending_fsat in E. congruence.
Qed.

Lemma react_all_fsat c : forall os st st', react_all c os st = ROk st' -> fs_at st' = fs_at st.
Proof.
  induction os as [|o os IH]; intros st st' H; cbn [react_all] in H; [inversion H; reflexivity|].
  destruct (react c _ _ _ _ _ st) as [[st1 pr]|e st1|site] eqn:Er; cbn [rbind fst] in H; try discriminate.
  rewrite (IH _ _ H). apply (react_fsat _ _ _ _ _ _ _ _ _ Er).
Qed.

Lemma item_fsat c toks F : item c toks F -> forall st st', F st = ROk st' -> fs_at st' = fs_at st.
Proof.
  intros Hi st st' H. destruct Hi; try (apply (react_all_fsat _ _ _ _ H)).
  all: unfold sep_fn in H; destruct (resolve_pending c st) as [st1|e s1|x] eqn:E; cbn [rbind] in H; try discriminate;
    inversion H; subst; apply resolve_pending_fsat in E; rewrite <- E; reflexivity.
Qed.

Lemma prefix_fsat c pre F : prefix_ok c pre F -> forall st st', F st = ROk st' -> fs_at st' = fs_at st.
Proof.
  induction 1 as [|toks F pre G Hi Hp IH]; intros st st' H; [inversion H; reflexivity|].
  destruct (F st) as [st1|e s1|x] eqn:E; cbn [rbind] in H; try discriminate.
  rewrite (IH _ _ H). exact (item_fsat c toks F Hi _ _ E).
Qed.

(** ** the selecting letter *)
Lemma fs_skip_eta st : fs_skip st = 0 -> st <| fs_skip := 0 |> = st.
Proof. destruct st as [m ci fa fk]. cbn. intros ->. reflexivity. Qed.

Lemma short_loop_flag_sub_gen c fuel r ch r' ret vaf st n :
  sf_next r = Some (inl ch, r') -> get_short c ch = None -> find_short_subcmd c ch = Some n ->
  short_loop c (S fuel) r ret vaf st =
  (do st1 <- resolve_pending c st;
   ROk ((ps_bump st1) <| fs_at := if is_nil r' then None
                                 else match fs_at st1 with Some a => Some a | None => Some (cur_idx st1 + 1) end |>,
        PRFlagSub n, vaf)).
Proof.
  intros Hn Hg Hf. cbn [short_loop]. rewrite Hn, Hg, Hf.
  destruct (resolve_pending c st) as [st1|e s1|x]; reflexivity.
Qed.

(** `-S`: the letter is the whole cluster; the child starts fresh with the remaining tokens *)
Definition short_sel (c : cmd) (tok : bytes) (n : bytes) : Prop :=
  exists r ch, no_sub c tok /\ is_escape tok = false /\ to_long tok = None /\ to_short tok = Some r /\
    sf_next r = Some (inl ch, []) /\ get_short c ch = None /\ find_short_subcmd c ch = Some n /\
    no_hyphen_pos c 1.

Lemma loop_short_sel c tok n : short_sel c tok n -> forall rest vaf st, fs_skip st = 0 ->
  parse_loop c (tok :: rest) (lsV 1 vaf) st =
  (do st1 <- resolve_pending c st; ROk (LSub n false vaf ((ps_bump st1) <| fs_at := None |>) rest)).
Proof.
  intros [r [ch [Hns [He [Hl [Hs [Hn [Hg [Hf Hpos]]]]]]]]] rest vaf st Hsk.
  unfold lsV. cbn [parse_loop l_trailing l_pst l_vaf l_pos].
  rewrite orb_true_r, (Hns vaf), He, Hl, Hs.
  rewrite (parse_short_arg_clean c r 1 vaf st Hsk Hpos), (fs_skip_eta st Hsk).
  rewrite (short_loop_flag_sub_gen c _ r ch [] PRNoArg vaf st n Hn Hg Hf).
  destruct (resolve_pending c st) as [st1|e s1|x]; cbn [rbind is_nil]; reflexivity.
Qed.

(** `-Syu`: the letter is the first of a longer cluster, read by a parser with a clean resume state *)
Definition cluster_sel (c : cmd) (tok : bytes) (n : bytes) : Prop :=
  exists r ch r', no_sub c tok /\ is_escape tok = false /\ to_long tok = None /\ to_short tok = Some r /\
    sf_next r = Some (inl ch, r') /\ r' <> [] /\ get_short c ch = None /\ find_short_subcmd c ch = Some n /\
    no_hyphen_pos c 1.

Lemma loop_cluster_sel c tok n : cluster_sel c tok n -> forall rest vaf st, fs_skip st = 0 -> fs_at st = None ->
  parse_loop c (tok :: rest) (lsV 1 vaf) st =
  (do st1 <- resolve_pending c st;
   ROk (LSub n true vaf ((ps_bump st1) <| fs_at := Some (cur_idx st1 + 1) |> <| fs_skip := 1 |>) (tok :: rest))).
Proof.
  intros [r [ch [r' [Hns [He [Hl [Hs [Hn [Hne [Hg [Hf Hpos]]]]]]]]]]] rest vaf st Hsk Hat.
  unfold lsV. cbn [parse_loop l_trailing l_pst l_vaf l_pos].
  rewrite orb_true_r, (Hns vaf), He, Hl, Hs.
  rewrite (parse_short_arg_clean c r 1 vaf st Hsk Hpos), (fs_skip_eta st Hsk).
  rewrite (short_loop_flag_sub_gen c _ r ch r' PRNoArg vaf st n Hn Hg Hf).
  destruct (resolve_pending c st) as [st1|e s1|x] eqn:E; cbn [rbind]; try reflexivity.
  rewrite (resolve_pending_fsat c st st1 E), Hat.
  destruct r' as [|b0 t0]; [contradiction|]. cbn [is_nil].
  cbn [fs_at cur_idx ps_bump]. unfold checked_sub. cbn. rewrite N.leb_refl, N.sub_diag. reflexivity.
Qed.

(** the child side: entered with skip = 1 it reads the rest of the cluster as its own flags *)
Definition resumed_tok (c : cmd) (tok : bytes) (os : list occ) : Prop :=
  exists r ch r', no_sub c tok /\ is_escape tok = false /\ to_long tok = None /\ to_short tok = Some r /\
    sf_next r = Some (inl ch, r') /\ r' <> [] /\ cluster_flags c r' os /\ no_hyphen_pos c 1.

Lemma loop_resumed c tok os : resumed_tok c tok os -> forall rest st, fs_skip st = 1 ->
  parse_loop c (tok :: rest) (lsV 1 false) st =
  (do st' <- react_all c os (st <| fs_skip := 0 |>); parse_loop c rest (lsV 1 true) st').
Proof.
  intros [r [ch [r' [Hns [He [Hl [Hs [Hn [Hne [Hc Hpos]]]]]]]]]] rest st Hsk.
  unfold lsV. cbn [parse_loop l_trailing l_pst l_vaf l_pos].
  rewrite orb_true_r, (Hns false), He, Hl, Hs.
  rewrite (parse_short_arg_resume c r ch r' 1 false st Hsk Hpos Hn).
  rewrite (short_loop_cluster c r' os Hc) by lia.
  destruct (react_all c os (st <| fs_skip := 0 |>)) as [st1|e s1|x]; cbn [rbind]; try reflexivity.
  inversion Hc; subst; [contradiction|]. reflexivity.
Qed.

(** ** levels, prefixes and lines with short flag-subcommands *)

(** the prefix of a level; a level entered through a continued cluster ([true]) first re-reads that
    token (with skip = 1) as flags of its own *)
Inductive lprefix (c : cmd) : bool -> list bytes -> (ps -> res ps) -> Prop :=
| lp_plain pre F : prefix_ok c pre F -> lprefix c false pre F
| lp_resumed tok os pre F : resumed_tok c tok os -> prefix_ok c pre F ->
    lprefix c true (tok :: pre) (fun st => do st1 <- react_all c os (st <| fs_skip := 0 |>); F st1).

Definition start_skip (b : bool) : N := if b then 1 else 0.

Theorem loop_lprefix c b pre F : lprefix c b pre F -> forall rest st, fs_skip st = start_skip b ->
  parse_loop c (pre ++ rest) (lsV 1 false) st =
  (do st' <- F st; parse_loop c rest (lsV 1 (negb (is_nil pre))) st').
Proof.
  intros [pre0 F0 Hp|tok os pre0 F0 Hr Hp] rest st Hsk.
  - exact (loop_prefix c pre0 F0 Hp rest 1 false st Hsk).
  - cbn [app]. rewrite (loop_resumed c tok os Hr (pre0 ++ rest) st Hsk).
    destruct (react_all c os (st <| fs_skip := 0 |>)) as [st1|e s1|x] eqn:E; cbn [rbind]; try reflexivity.
    rewrite (loop_prefix c pre0 F0 Hp rest 1 true st1); [reflexivity|].
    rewrite (react_all_fs _ _ _ _ E). reflexivity.
Qed.

Lemma lprefix_fs c b pre F : lprefix c b pre F -> forall st st', fs_skip st = start_skip b -> F st = ROk st' ->
  fs_skip st' = 0 /\ fs_at st' = fs_at st.
Proof.
  intros [pre0 F0 Hp|tok os pre0 F0 Hr Hp] st st' Hsk H.
  - split; [rewrite (prefix_fs c pre0 F0 Hp _ _ H); exact Hsk|exact (prefix_fsat c pre0 F0 Hp _ _ H)].
  - destruct (react_all c os (st <| fs_skip := 0 |>)) as [st1|e s1|x] eqn:E; cbn [rbind] in H; try discriminate.
    split.
    + rewrite (prefix_fs c pre0 F0 Hp _ _ H), (react_all_fs _ _ _ _ E). reflexivity.
    + rewrite (prefix_fsat c pre0 F0 Hp _ _ H), (react_all_fsat _ _ _ _ E). reflexivity.
Qed.

(** the selecting token of a level: as before ([sel]), or a short flag-subcommand letter alone, or —
    only in a level that was not itself entered through a cluster (stale [flag_subcmd_at], the
    recorded finding) — the first letter of a longer cluster; the boolean result is [keep_state] *)
Inductive gsel (c : cmd) : bool -> bytes -> bytes -> bool -> Prop :=
| gs_plain b tok n : sel c tok n -> gsel c b tok n false
| gs_short b tok n : short_sel c tok n -> gsel c b tok n false
| gs_cluster tok n : cluster_sel c tok n -> gsel c false tok n true.

Lemma gsel_loop c b tok n keep : gsel c b tok n keep -> is_set s_args_negate_subs c = false ->
  forall rest vaf st, fs_skip st = 0 -> (b = false -> fs_at st = None) ->
  exists T : ps -> res ps,
    parse_loop c (tok :: rest) (lsV 1 vaf) st =
      (do st1 <- T st; ROk (LSub n keep vaf st1 (if keep then tok :: rest else rest))) /\
    (forall st1, T st = ROk st1 -> keep = true -> fs_skip st1 = 1).
Proof.
  intros Hg Hneg rest vaf st Hsk Hat. destruct Hg as [b tok n Hs|b tok n Hs|tok n Hs].
  - exists (fun st => ROk st). split; [exact (sel_loop c tok n Hs Hneg rest 1 vaf st)|discriminate].
  - exists (fun st => do st1 <- resolve_pending c st; ROk ((ps_bump st1) <| fs_at := None |>)).
    split; [|discriminate]. rewrite (loop_short_sel c tok n Hs rest vaf st Hsk).
    destruct (resolve_pending c st); reflexivity.
  - exists (fun st => do st1 <- resolve_pending c st;
                       ROk ((ps_bump st1) <| fs_at := Some (cur_idx st1 + 1) |> <| fs_skip := 1 |>)).
    split.
    + rewrite (loop_cluster_sel c tok n Hs rest vaf st Hsk (Hat eq_refl)).
      destruct (resolve_pending c st); reflexivity.
    + intros st1 H _. destruct (resolve_pending c st); cbn [rbind] in H; try discriminate.
      inversion H. reflexivity.
Qed.

Lemma gsel_resolves c b tok n keep : gsel c b tok n keep -> exists sc0, find_subcommand c n = Some sc0.
Proof.
  intros [b0 tok0 n0 Hs|b0 tok0 n0 [r [ch [_ [_ [_ [_ [_ [_ [Hf _]]]]]]]]]|tok0 n0 [r [ch [r' [_ [_ [_ [_ [_ [_ [_ [Hf _]]]]]]]]]]]].
  - exact (sel_resolves c tok0 n0 Hs).
  - exact (short_flag_subcommand_resolves c ch n0 Hf).
  - exact (short_flag_subcommand_resolves c ch n0 Hf).
Qed.

(** [gline c b toks names ext]: as [line], with the three kinds of selecting tokens; after a
    cluster selection the child's tokens start with the same token again *)
Inductive gline : cmd -> bool -> list bytes -> list bytes -> option (list bytes) -> Prop :=
| gl_end c b pre F : lprefix c b pre F -> gline c b pre [] None
| gl_sub c b pre F tok n keep sc0 sc rest names ext :
    lvl_ok c -> lprefix c b pre F -> gsel c b tok n keep -> find_subcommand c n = Some sc0 ->
    canonical c sc0 ->
    build_subcommand c (c_name sc0) = Some sc ->
    gline sc keep (if keep then tok :: rest else rest) names ext ->
    gline c b (pre ++ tok :: rest) (c_name sc0 :: names) ext
| gl_ext c b pre F tok rest :
    lprefix c b pre F -> ext_tok c tok -> gline c b (pre ++ tok :: rest) [tok] (Some rest).

Lemma line_gline : forall c toks names ext, line c toks names ext -> gline c false toks names ext.
Proof.
  induction 1 as [c pre [F Hp]|c pre tok n sc0 sc rest names ext Hl [F Hp] Hsel Hfind Hcan Hbuild Hline IH|c pre tok rest [F Hp] Hext].
  - eapply gl_end. apply lp_plain. exact Hp.
  - eapply (gl_sub c false pre F tok n false); try eassumption; [apply lp_plain; exact Hp|apply gs_plain; exact Hsel].
  - eapply gl_ext; [apply lp_plain; exact Hp|exact Hext].
Qed.

(** the state a level starts from: nothing recorded, the resume counter as announced, and a clean
    [flag_subcmd_at] unless the level was entered through a cluster *)
Definition start_ok (b : bool) (st0 : ps) : Prop :=
  mt_sub (mt st0) = None /\ fs_skip st0 = start_skip b /\ (b = false -> fs_at st0 = None).

Theorem chain_of_gline : forall c b toks names ext, gline c b toks names ext ->
  forall f st0 st, start_ok b st0 -> get_matches_with f c toks st0 = ROk st ->
  chain (into_inner (mt st)) = names /\
  match ext with
  | Some vals => deepest (into_inner (mt st)) = [(ext_id, ext_marg vals)]
  | None => True
  end.
Proof.
  induction 1 as [c b pre F Hp|c b pre F tok n keep sc0 sc rest names ext [Hneg Hign] Hp Hsel Hfind Hcan Hbuild Hline IH|c b pre F tok rest Hp Hext];
    intros f st0 st [Hsub0 [Hsk0 Hat0]] H; (destruct f as [|f]; [discriminate|]);
    destruct (gmw_step f c _ st0 st H) as [lr [Hlr Hm]]; change (mkL PSValuesDone 1 false false) with (lsV 1 false) in Hlr.
  - pose proof (loop_keeps_sub c pre (lsV 1 false) st0) as Hk. rewrite Hlr in Hk. cbn [holds] in Hk.
    pose proof (loop_lprefix c b pre F Hp [] st0 Hsk0) as Hl. rewrite app_nil_r in Hl. rewrite Hl in Hlr.
    destruct (F st0) as [st'|e s1|x]; cbn [rbind parse_loop] in Hlr; try discriminate.
    inversion Hlr; subst lr. cbn [lr_st] in Hk.
    split; [|exact I]. unfold into_inner. rewrite Hm, Hk, Hsub0. reflexivity.
  - rewrite (loop_lprefix c b pre F Hp (tok :: rest) st0 Hsk0) in Hlr.
    destruct (F st0) as [st'|e s1|x] eqn:EF; cbn [rbind] in Hlr; try discriminate.
    destruct (lprefix_fs c b pre F Hp st0 st' Hsk0 EF) as [Hsk' Hat'].
    destruct (gsel_loop c b tok n keep Hsel Hneg rest (negb (is_nil pre)) st' Hsk'
                (fun Hb => eq_trans Hat' (Hat0 Hb))) as [T [HT Hkeep]].
    rewrite HT in Hlr. destruct (T st') as [st1|e s1|x] eqn:ET; cbn [rbind] in Hlr; try discriminate.
    inversion Hlr; subst lr. clear Hlr.
    destruct Hm as [sc0' [Hf' Hm]]. rewrite Hfind in Hf'. inversion Hf'; subst sc0'. clear Hf'.
    rewrite Hbuild in Hm. destruct Hm as [sub_st [Hchild Hsub]].
    destruct Hchild as [Hchild|[e [_ Hi]]]; [|rewrite Hign in Hi; discriminate].
    assert (Hstart : start_ok keep (sub_init keep st1)).
    { destruct keep; cbn [sub_init].
      - split; [reflexivity|]. split; [exact (Hkeep st1 eq_refl eq_refl)|discriminate].
      - split; [reflexivity|]. split; [reflexivity|]. intros _. reflexivity. }
    destruct (IH f _ sub_st Hstart Hchild) as [IH1 IH2].
    destruct (chain_into_inner _ _ _ Hsub) as [C1 C2].
    rewrite C1, C2, IH1, (build_subcommand_name c _ sc Hbuild). split; [reflexivity|exact IH2].
  - rewrite (loop_lprefix c b pre F Hp (tok :: rest) st0 Hsk0) in Hlr.
    destruct (F st0) as [st'|e s1|x] eqn:EF; cbn [rbind] in Hlr; try discriminate.
    rewrite (ext_loop c tok Hext) in Hlr. inversion Hlr; subst lr. clear Hlr.
    destruct (chain_into_inner _ _ _ Hm) as [C1 C2]. rewrite C1, C2. split; reflexivity.
Qed.

Lemma start_ok_new : start_ok false ps_new.
Proof. split; [reflexivity|]. split; [reflexivity|]. intros _. reflexivity. Qed.

(** `-v -Sy -Q -z tool -- -x` on [ex_tree] (Dispatch.v): a flag of the top level, `S` as the first
    letter of a cluster whose rest is a flag of [sync], `Q` alone, a flag of [q], an external subcommand *)
Definition ex_gline : list bytes := [[45; 118]; [45; 83; 121]; [45; 81]; [45; 122]; [116]; [45; 45]; [45; 120]].

Example ex_gline_is_gline :
  exists names, gline (build_self ex_tree) false ex_gline names (Some [[45; 45]; [45; 120]]) /\
                names = [[115; 121; 110; 99]; b1 113; [116]].
Proof.
  eexists. split.
  - eapply (gl_sub _ false [[45; 118]] _ [45; 83; 121] _ true _ _ [[45; 81]; [45; 122]; [116]; [45; 45]; [45; 120]]).
    + split; vmr.
    + apply lp_plain. eapply (po_cons _ [[45; 118]] _ []); [|apply po_nil].
      eapply it_cluster; [solve_nosub|].
      exists 118, []. split; [reflexivity|]. split; [discriminate|]. split; [reflexivity|].
      eapply cf_cons; [reflexivity|vmr|vmr|apply cf_nil].
    + apply gs_cluster. exists [83; 121], 83, [121].
      split; [solve_nosub|]. split; [vmr|]. split; [vmr|]. split; [vmr|]. split; [vmr|].
      split; [discriminate|]. split; [vmr|]. split; [vmr|]. vm_compute. exact I.
    + vmr.
    + split; vmr.
    + vmr.
    + cbv iota.
      eapply (gl_sub _ true [[45; 83; 121]] _ [45; 81] _ false _ _ [[45; 122]; [116]; [45; 45]; [45; 120]]).
      * split; vmr.
      * eapply (lp_resumed _ [45; 83; 121] _ []); [|apply po_nil].
        exists [83; 121], 83, [121].
        split; [solve_nosub|]. split; [vmr|]. split; [vmr|]. split; [vmr|]. split; [vmr|].
        split; [discriminate|]. split; [|vm_compute; exact I].
        eapply cf_cons; [reflexivity|vmr|vmr|apply cf_nil].
      * apply gs_short. exists [81], 81.
        split; [solve_nosub|]. split; [vmr|]. split; [vmr|]. split; [vmr|]. split; [vmr|].
        split; [vmr|]. split; [vmr|]. vm_compute. exact I.
      * vmr.
      * split; vmr.
      * vmr.
      * cbv iota.
        eapply (gl_ext _ false [[45; 122]] _ [116] [[45; 45]; [45; 120]]).
        { apply lp_plain. eapply (po_cons _ [[45; 122]] _ []); [|apply po_nil].
          eapply it_cluster; [solve_nosub|].
          exists 122, []. split; [reflexivity|]. split; [discriminate|]. split; [reflexivity|].
          eapply cf_cons; [reflexivity|vmr|vmr|apply cf_nil]. }
        split; [solve_nosub|]. repeat split; vmr.
  - vmr.
Qed.

Example ex_gline_parses :
  exists m', do_parse ex_tree ex_gline = OOk m' /\ is_set s_ignore_errors (build_self ex_tree) = false /\
             chain m' = [[115; 121; 110; 99]; b1 113; [116]].
Proof. vm_compute. eexists. repeat split; reflexivity. Qed.

(** * Part 7: every global argument of every level of the line is merged
    [get_used_global_args] walks the (eagerly built) tree along the reported chain; the parser built
    the levels lazily ([_build_subcommand]).  The two agree on the arguments of every level, and the
    fuel of the eager build suffices wherever the parser itself did not run out of fuel. *)
Import ReentrancyProofs.

Ltac fstage F := intros c; unfold F; repeat match goal with |- context[if ?b then _ else _] => destruct b end; reflexivity.
Lemma al_st1 : forall c, c_aliases (st1 c) = c_aliases c. Proof. fstage st1. Qed.
Lemma al_st2 : forall c, c_aliases (st2 c) = c_aliases c. Proof. fstage st2. Qed.
Lemma al_st3 : forall c, c_aliases (st3 c) = c_aliases c. Proof. fstage st3. Qed.
Lemma al_st4 : forall c, c_aliases (st4 c) = c_aliases c. Proof. fstage st4. Qed.
Lemma al_hv1 : forall c, c_aliases (hv1 c) = c_aliases c. Proof. fstage hv1. Qed.
Lemma al_hv2 : forall c, c_aliases (hv2 c) = c_aliases c. Proof. fstage hv2. Qed.
Lemma al_hv3 : forall c, c_aliases (hv3 c) = c_aliases c. Proof. fstage hv3. Qed.
Lemma al_mark c : c_aliases (bs_mark c) = c_aliases c. Proof. reflexivity. Qed.
Lemma al_deprecated c : c_aliases (bs_deprecated c) = c_aliases c. Proof. reflexivity. Qed.
Lemma al_args c : c_aliases (bs_args c) = c_aliases c. Proof. reflexivity. Qed.
Lemma al_globals c : c_aliases (bs_globals c) = c_aliases c. Proof. reflexivity. Qed.
Lemma al_propagate c : c_aliases (bs_propagate c) = c_aliases c. Proof. reflexivity. Qed.
Lemma build_self_aliases c : c_aliases (build_self c) = c_aliases c.
Proof.
  unfold build_self. destruct (s_built (c_set c)); [reflexivity|].
  rewrite al_mark, al_deprecated, al_args, al_globals.
  rewrite bs_hv_eq, al_hv3, al_hv2, al_hv1, al_propagate.
  rewrite bs_settings_eq, al_st4, al_st3, al_st2, al_st1. reflexivity.
Qed.

Lemma build_recursive_name f c : c_name (build_recursive f c) = c_name c.
Proof. destruct f; [reflexivity|]. cbn [build_recursive]. exact (build_self_name c). Qed.
Lemma build_recursive_aliases f c : c_aliases (build_recursive f c) = c_aliases c.
Proof. destruct f; [reflexivity|]. cbn [build_recursive]. exact (build_self_aliases c). Qed.
Lemma aliases_to_rec f s n : aliases_to (build_recursive f s) n = aliases_to s n.
Proof. unfold aliases_to, all_aliases. rewrite build_recursive_name, build_recursive_aliases. reflexivity. Qed.

Lemma find_map_pres {A} (g : A -> A) (p : A -> bool) l :
  (forall x, p (g x) = p x) -> List.find p (map g l) = option_map g (List.find p l).
Proof.
  intros H. induction l as [|x t IH]; [reflexivity|]. cbn [map List.find]. rewrite H.
  destruct (p x); [reflexivity|exact IH].
Qed.

Lemma find_subcommand_rec f x n :
  find_subcommand (build_recursive (S f) x) n = option_map (build_recursive f) (find_subcommand (build_self x) n).
Proof.
  unfold find_subcommand. cbn [build_recursive].
  change (c_subs (build_self x <| c_subs := map (build_recursive f) (c_subs (build_self x)) |>))
    with (map (build_recursive f) (c_subs (build_self x))).
  apply find_map_pres. intros s. apply aliases_to_rec.
Qed.

Lemma build_subcommand_U c sc0 sc :
  List.find (fun s => beq (c_name s) (c_name sc0)) (c_subs c) = Some sc0 ->
  build_subcommand c (c_name sc0) = Some sc -> exists v w, sc = U v w (build_self sc0).
Proof.
  intros Hf Hb. unfold build_subcommand in Hb. rewrite Hf in Hb. inversion Hb as [Hsc]. clear Hb Hsc.
  set (bn := match c_bin_name c with Some b => b ++ [32] ++ c_name sc0 | None => c_name sc0 end).
  change (c_display_name (sc0 <| c_bin_name := Some bn |>)) with (c_display_name sc0).
  destruct (c_display_name sc0) as [d|] eqn:Ed.
  - exists (Some bn), (Some d). rewrite <- names_commute_with_build. f_equal.
    unfold U. rewrite <- Ed. dc sc0. reflexivity.
  - eexists (Some bn), _. rewrite <- names_commute_with_build. reflexivity.
Qed.

Fixpoint lazy_cmds (c : cmd) (names : list bytes) : list cmd :=
  c :: match names with
       | [] => []
       | n :: t => match build_subcommand c n with Some sc => lazy_cmds sc t | None => [] end
       end.
(** the names that are subcommands of the tree (an external subcommand, always last, is not) *)
Definition real_names (names : list bytes) (ext : option (list bytes)) : list bytes :=
  match ext with Some _ => removelast names | None => names end.

Lemma gline_ext_names c b toks names vals : gline c b toks names (Some vals) -> names <> [].
Proof. intros H. inversion H; discriminate. Qed.

Lemma real_names_cons c b toks n names ext : gline c b toks names ext ->
  real_names (n :: names) ext = n :: real_names names ext.
Proof.
  intros H. destruct ext as [vals|]; [|reflexivity]. unfold real_names.
  apply gline_ext_names in H. destruct names; [contradiction|reflexivity].
Qed.

Lemma gl_sub_step c b pre F tok n keep sc0 sc rest f st0 st :
  lvl_ok c -> lprefix c b pre F -> gsel c b tok n keep -> find_subcommand c n = Some sc0 ->
  build_subcommand c (c_name sc0) = Some sc ->
  start_ok b st0 -> get_matches_with (S f) c (pre ++ tok :: rest) st0 = ROk st ->
  exists st1 sub_st,
    get_matches_with f sc (if keep then tok :: rest else rest) (sub_init keep st1) = ROk sub_st /\
    start_ok keep (sub_init keep st1) /\
    mt_sub (mt st) = Some (c_name sc, into_inner (mt sub_st)).
Proof.
  intros [Hneg Hign] Hp Hsel Hfind Hbuild [Hsub0 [Hsk0 Hat0]] H.
  destruct (gmw_step f c _ st0 st H) as [lr [Hlr Hm]]. change (mkL PSValuesDone 1 false false) with (lsV 1 false) in Hlr.
  rewrite (loop_lprefix c b pre F Hp (tok :: rest) st0 Hsk0) in Hlr.
  destruct (F st0) as [st'|e s1|x] eqn:EF; cbn [rbind] in Hlr; try discriminate.
  destruct (lprefix_fs c b pre F Hp st0 st' Hsk0 EF) as [Hsk' Hat'].
  destruct (gsel_loop c b tok n keep Hsel Hneg rest (negb (is_nil pre)) st' Hsk'
              (fun Hb => eq_trans Hat' (Hat0 Hb))) as [T [HT Hkeep]].
  rewrite HT in Hlr. destruct (T st') as [st1|e s1|x] eqn:ET; cbn [rbind] in Hlr; try discriminate.
  inversion Hlr; subst lr. clear Hlr.
  destruct Hm as [sc0' [Hf' Hm]]. rewrite Hfind in Hf'. inversion Hf'; subst sc0'. clear Hf'.
  rewrite Hbuild in Hm. destruct Hm as [sub_st [Hchild Hsub]].
  destruct Hchild as [Hchild|[e [_ Hi]]]; [|rewrite Hign in Hi; discriminate].
  exists st1, sub_st. split; [exact Hchild|]. split; [|exact Hsub].
  destruct keep; cbn [sub_init].
  - split; [reflexivity|]. split; [exact (Hkeep st1 eq_refl eq_refl)|discriminate].
  - split; [reflexivity|]. split; [reflexivity|]. intros _. reflexivity.
Qed.

Lemma root_used x v w f k m lc a :
  lc = U v w (build_self x) -> In a (c_args lc) -> a_global a = true ->
  mem_id (a_id a) (used_global_args (S k) (build_recursive (S f) x) m) = true.
Proof.
  intros -> Hin Hg. cbn [used_global_args build_recursive]. unfold mem_id. rewrite existsb_app.
  apply orb_true_iff. left. apply existsb_exists. exists (a_id a). split; [|apply beq_refl].
  apply in_map. apply filter_In. split; [exact Hin|exact Hg].
Qed.

Theorem gline_globals_used : forall c b toks names ext, gline c b toks names ext ->
  forall f st0 st x v w k, start_ok b st0 -> get_matches_with f c toks st0 = ROk st ->
  c = U v w (build_self x) -> (matches_depth (into_inner (mt st)) <= k)%nat ->
  forall lc a, In lc (lazy_cmds c (real_names names ext)) -> In a (c_args lc) -> a_global a = true ->
  mem_id (a_id a) (used_global_args k (build_recursive f x) (into_inner (mt st))) = true.
Proof.
  induction 1 as [c b pre F Hp|c b pre F tok n keep sc0 sc rest names ext Hlvl Hp Hsel Hfind [Hcan Hfirst] Hbuild Hline IH|c b pre F tok rest Hp Hext];
    intros f st0 st x v w k Hstart H Hc Hk lc a Hlc Ha Hg;
    (destruct f as [|f]; [discriminate|]);
    (destruct k as [|k]; [exfalso; unfold into_inner in Hk; destruct (mt_sub (mt st)) as [[? ?]|]; cbn [matches_depth] in Hk; lia|]).
  - cbn [real_names lazy_cmds] in Hlc. destruct Hlc as [<-|[]]. exact (root_used x v w f k _ c a Hc Ha Hg).
  - rewrite (real_names_cons _ _ _ _ _ _ Hline) in Hlc. cbn [lazy_cmds] in Hlc. rewrite Hbuild in Hlc.
    destruct Hlc as [<-|Hlc]; [exact (root_used x v w f k _ c a Hc Ha Hg)|].
    destruct (gl_sub_step c b pre F tok n keep sc0 sc rest f st0 st Hlvl Hp Hsel Hfind Hbuild Hstart H)
      as [st1 [sub_st [Hchild [Hstart' Hsub]]]].
    destruct (build_subcommand_U c sc0 sc Hfirst Hbuild) as [v' [w' Hsc]].
    assert (Hk' : (matches_depth (into_inner (mt sub_st)) <= k)%nat).
    { unfold into_inner in Hk at 1. rewrite Hsub in Hk. cbn [matches_depth] in Hk. lia. }
    pose proof (IH f _ sub_st sc0 v' w' k Hstart' Hchild Hsc Hk' lc a Hlc Ha Hg) as Hmem.
    cbn [used_global_args]. unfold mem_id. rewrite existsb_app. apply orb_true_iff. right.
    unfold into_inner at 1. cbn [ms_sub]. rewrite Hsub.
    rewrite find_subcommand_rec.
    assert (Hfs : find_subcommand (build_self x) (c_name sc) = Some sc0).
    { rewrite (build_subcommand_name c _ sc Hbuild). rewrite <- Hcan. subst c. reflexivity. }
    rewrite Hfs. cbn [option_map]. exact Hmem.
  - cbn [real_names removelast lazy_cmds] in Hlc. destruct Hlc as [<-|[]]. exact (root_used x v w f k _ c a Hc Ha Hg).
Qed.

(** ** the chain with short flag-subcommands, composed with the globals merge *)
Theorem do_parse_gline c0 toks names ext m' :
  gline (build_self c0) false toks names ext -> is_set s_ignore_errors (build_self c0) = false ->
  do_parse c0 toks = OOk m' ->
  exists m globals,
    m' = fst (filled (S (matches_depth m)) globals m) /\
    globals = used_global_args (S (matches_depth m)) (build_recursive (S (S (depth (build_self c0)))) c0) m /\
    chain m = names /\ chain m' = names /\ length (levels m') = S (length names) /\
    match ext with Some vals => deepest m = [(ext_id, ext_marg vals)] | None => True end /\
    (forall lc a, In lc (lazy_cmds (build_self c0) (real_names names ext)) -> In a (c_args lc) -> a_global a = true ->
       mem_id (a_id a) globals = true) /\
    (forall g e0, mem_id g globals = true -> In (Some e0) (map (fm_get g) (levels m)) ->
       exists e,
         (forall lv, In lv (levels m') -> fm_get g lv = Some e) /\
         In (Some e) (map (fm_get g) (levels m)) /\
         mrank e0 <= mrank e /\
         (m_source e0 = Some SCmdLine -> m_source e = Some SCmdLine)).
Proof.
  intros Hline Hign H. destruct (do_parse_ok c0 toks m' H Hign) as [st [Eg Hm']].
  destruct (chain_of_gline _ _ _ _ _ Hline _ _ _ start_ok_new Eg) as [Hc Hd].
  set (m := into_inner (mt st)) in *.
  set (globals := used_global_args (S (matches_depth m)) (build_recursive (S (S (depth (build_self c0)))) c0) m) in *.
  assert (Hfuel : (matches_depth m <= S (matches_depth m))%nat) by lia.
  destruct (merge_chain (S (matches_depth m)) globals m Hfuel) as [Hmc Hml].
  exists m, globals. split; [exact Hm'|]. split; [reflexivity|]. split; [exact Hc|].
  rewrite Hm'. split; [rewrite Hmc; exact Hc|]. split; [rewrite Hml, levels_length, Hc; reflexivity|].
  split; [exact Hd|]. split.
  - intros lc a Hlc Hin Hg.
    eapply (gline_globals_used _ _ _ _ _ Hline _ _ _ c0 _ _ _ start_ok_new Eg);
      [symmetry; apply U_eta|exact Hfuel|exact Hlc|exact Hin|exact Hg].
  - intros g e0 Hg Hin. exact (explicit_beats_default (S (matches_depth m)) globals m g e0 Hfuel Hg Hin).
Qed.


(** on the example: the global `g` of the top command and the levels reached *)
Example ex_gline_levels :
  map c_name (lazy_cmds (build_self ex_tree) (real_names [[115; 121; 110; 99]; b1 113; [116]] (Some [[45; 45]; [45; 120]])))
  = [b1 112; [115; 121; 110; 99]; b1 113].
Proof. vm_compute. reflexivity. Qed.

(** short options in a prefix: `-g w sy -y -gx q` on [ex_tree] (`-g` is the global option of the top level) *)
Lemma pos_free_no_hyphen c : pos_free c -> no_hyphen c.
Proof. intros H pos. unfold no_hyphen_pos. rewrite (pos_free_get_pos c pos H). exact I. Qed.

Definition ex_sline : list bytes := [[45; 103]; b1 119; [115; 121]; [45; 121]; [45; 103; 120]; b1 113].

Example ex_sline_is_line :
  exists names, line (build_self ex_tree) ex_sline names None /\ names = [[115; 121; 110; 99]; b1 113].
Proof.
  eexists. split.
  - eapply (ln_sub _ [[45; 103]; b1 119] [115; 121] _ _ _ [[45; 121]; [45; 103; 120]; b1 113]).
    + split; vmr.
    + eexists. eapply (po_cons _ [[45; 103]; b1 119] _ []); [|apply po_nil].
      eapply (it_short_sep _ [45; 103] [103] 103);
        [solve_nosub|vmr|vmr|vmr|vmr|vmr|vmr|vmr|apply pos_free_no_hyphen; vmr|vmr|vmr|vmr|solve_nosub|vmr|vmr|vmr|vmr].
    + eapply sel_name; [vmr|vmr|vmr|vmr].
    + vmr.
    + split; vmr.
    + vmr.
    + eapply (ln_sub _ [[45; 121]; [45; 103; 120]] (b1 113) _ _ _ []).
      * split; vmr.
      * eexists. eapply (po_cons _ [[45; 121]] _ [[45; 103; 120]]).
        { eapply it_cluster; [solve_nosub|].
          exists 121, []. split; [reflexivity|]. split; [discriminate|]. split; [reflexivity|].
          eapply cf_cons; [reflexivity|vmr|vmr|apply cf_nil]. }
        eapply (po_cons _ [[45; 103; 120]] _ []); [|apply po_nil].
        eapply (it_short_att _ [45; 103; 120] [103; 120] 103 120 []);
          [solve_nosub|vmr|vmr|vmr|vmr|discriminate|vmr|vmr|vmr|apply pos_free_no_hyphen; vmr].
      * eapply sel_name; [vmr|vmr|vmr|vmr].
      * vmr.
      * split; vmr.
      * vmr.
      * apply ln_end. exists (fun st => ROk st). apply po_nil.
  - vmr.
Qed.

Example ex_sline_parses :
  exists m', do_parse ex_tree ex_sline = OOk m' /\ chain m' = [[115; 121; 110; 99]; b1 113] /\
    map (fun lv => opt_map (fun e => (m_source e, m_raw e)) (fm_get (b1 103) lv)) (levels m') =
      [Some (Some SCmdLine, [[b1 120]]); Some (Some SCmdLine, [[b1 120]]); Some (Some SCmdLine, [[b1 120]])].
Proof. vm_compute. eexists. repeat split; reflexivity. Qed.
