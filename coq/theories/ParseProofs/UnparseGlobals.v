(** Property C02, third pass, item (4): the un-parser theorem composed with the merge of global values.

    [C02_unparse] left [_do_parse]'s last step as [finish_outcome]; C09 (Globals.v) gives that step a closed form.
    Here the two are composed: for a rendered tree WITH global arguments whose meaning [run_inv] succeeds,
    [parse_top] returns exactly the matches of the meaning with ONE final map [vmF] of global values inserted
    at every level ([ins_levels vmF]), where [vmF] is the fold of the per-level update down the chain
    ([final_vm]) over the ids [get_used_global_args] collects.  Which entry [vmF] holds for an id is C09's
    theorem ([C09_globals]: the most explicit source, the deepest level among equals); what an inserted map does to a
    level is [ins_all_get]. *)
From ClapModel Require Import Base.Bytes Base.Machine Base.Utf8 Lex.OsStrExtModel.
From ClapModel Require Import Parse.Cmd Parse.Build Parse.Valid Parse.Matcher Parse.Errors Parse.Validator Parse.Parser.
From ClapModel Require Import ParseProofs.Actions ParseProofs.Globals ParseProofs.Unparse ParseProofs.UnparseProofs ParseProofs.UnparseTop
                              ParseProofs.UnparseSub ParseProofs.UnparseTrail ParseProofs.UnparseTree
                              ParseProofs.UnparseX ParseProofs.UnparseXProofs ParseProofs.UnparseXTree.
From Coq Require Import ZArith Lia List Bool.
Import ListNotations.
Open Scope N_scope.

(** insert one map at every level of a chain of matches *)
Fixpoint ins_levels (vm : list (id * marg)) (m : matches) : matches :=
  match m with
  | Matches a None => Matches (ins_all vm a) None
  | Matches a (Some (n, s)) => Matches (ins_all vm a) (Some (n, ins_levels vm s))
  end.

Lemma ins_levels_levels vm : forall m, levels (ins_levels vm m) = map (ins_all vm) (levels m).
Proof.
  fix IH 1. intros [a [[n s]|]]; cbn [ins_levels levels map]; [|reflexivity]. rewrite IH. reflexivity.
Qed.
Lemma ins_levels_chain vm : forall m, chain (ins_levels vm m) = chain m.
Proof.
  fix IH 1. intros [a [[n s]|]]; cbn [ins_levels chain]; [|reflexivity]. rewrite IH. reflexivity.
Qed.

(** matches are determined by their levels and their chain of names *)
Lemma levels_nonempty : forall m, levels m <> [].
Proof. intros [a [[n s]|]]; discriminate. Qed.
Lemma matches_ext : forall p q, levels p = levels q -> chain p = chain q -> p = q.
Proof.
  fix IH 1. intros [a [[n s]|]] [b [[n' s']|]]; cbn [levels chain]; intros L C.
  - inversion L. inversion C. subst. f_equal. f_equal. f_equal. apply IH; assumption.
  - discriminate C.
  - discriminate C.
  - inversion L. reflexivity.
Qed.

(** the ids whose values are merged, and the final map, for the matches [m] the parser produced *)
Definition merged_ids (c0 : cmd) (m : matches) : list id :=
  used_global_args (S (matches_depth m)) (build_recursive (S (S (depth (build_self c0)))) c0) m.
Definition merged_map (c0 : cmd) (m : matches) : list (id * marg) := final_vm (merged_ids c0 m) (levels m) [].

Theorem finish_is_merge c0 st :
  finish_outcome c0 (ROk st) = OOk (ins_levels (merged_map c0 (into_inner (mt st))) (into_inner (mt st))).
Proof.
  unfold finish_outcome. f_equal. set (m := into_inner (mt st)).
  destruct (fill_closed_form (S (matches_depth m)) (merged_ids c0 m) m [] (Nat.le_succ_diag_r _)) as [E1 [E2 E3]].
  apply matches_ext.
  - rewrite ins_levels_levels. fold (merged_ids c0 m). rewrite E2, E1. reflexivity.
  - rewrite ins_levels_chain. fold (merged_ids c0 m). exact E3.
Qed.

(** THE UN-PARSER THEOREM WITH GLOBAL ARGUMENTS (old class, any tree incl. [--] tails) *)
Theorem parse_top_merged c0 bin i st : is_set s_no_binary_name c0 = false ->
  valid (with_bin c0 bin) = true -> wf_inv (build_self (with_bin c0 bin)) i = true ->
  run_inv (build_self (with_bin c0 bin)) i = ROk st ->
  parse_top c0 (bin :: render_inv i) =
  OOk (ins_levels (merged_map (with_bin c0 bin) (into_inner (mt st))) (into_inner (mt st))).
Proof. intros Hn Hv Hw Hr. rewrite (parse_top_inv c0 bin i Hn Hv Hw), Hr. apply finish_is_merge. Qed.

(** ... and for the lifted class *)
Theorem parse_top_merged_x c0 bin i st : is_set s_no_binary_name c0 = false ->
  valid (with_bin c0 bin) = true -> wfx_inv (build_self (with_bin c0 bin)) i = true ->
  run_inv (build_self (with_bin c0 bin)) i = ROk st ->
  parse_top c0 (bin :: render_inv i) =
  OOk (ins_levels (merged_map (with_bin c0 bin) (into_inner (mt st))) (into_inner (mt st))).
Proof. intros Hn Hv Hw Hr. rewrite (parse_top_inv_x c0 bin i Hn Hv Hw), Hr. apply finish_is_merge. Qed.

(** what the reported matches hold, level by level and key by key: the final map's entry if the id is
    one of its keys, otherwise exactly what the meaning of the invocation has at that level; the keys are
    pairwise distinct and are merged ids; the chain of names is the meaning's *)
Theorem merged_levels c0 m :
  let vmF := merged_map c0 m in
  NoDup (map fst vmF) /\
  (forall g, mem_id g (merged_ids c0 m) = false -> fm_get g vmF = None) /\
  (forall g, fm_get g vmF = if mem_id g (merged_ids c0 m) then pick None (map (fm_get g) (levels m)) else None) /\
  chain (ins_levels vmF m) = chain m /\
  levels (ins_levels vmF m) = map (ins_all vmF) (levels m) /\
  (forall lv k, fm_get k (ins_all vmF lv) = match fm_get k vmF with Some e => Some e | None => fm_get k lv end).
Proof.
  cbv zeta. assert (ND : NoDup (map fst (merged_map c0 m))) by (apply final_vm_nodup; constructor).
  split; [exact ND|]. split.
  - intros g Hg. unfold merged_map.
    destruct (globals_frame (S (matches_depth m)) (merged_ids c0 m) m (Nat.le_succ_diag_r _)) as [F _].
    specialize (F g Hg). unfold filled in F.
    destruct (fill_closed_form (S (matches_depth m)) (merged_ids c0 m) m [] (Nat.le_succ_diag_r _)) as [E1 _].
    rewrite E1 in F. exact F.
  - split; [intros g; unfold merged_map; rewrite final_vm_get; reflexivity|].
    split; [apply ins_levels_chain|]. split; [apply ins_levels_levels|].
    intros lv k. apply ins_all_get. exact ND.
Qed.

(** * non-vacuity: a tree WITH a global argument *)
From RecordUpdate Require Import RecordSet.
Import RecordSetNotations.
Module GlobEx.
  (** prog --gl <v> (global, Set)  -q (SetTrue);  subcommand run: -x (SetTrue)
      line: prog --gl=R -q run --gl=S -x   -- both levels give [gl]; the reported value at BOTH levels is the subcommand's *)
  Definition gl : arg := (arg_new [103; 108]) <| a_long := Some [103; 108] |> <| a_action := Some ASet |> <| a_global := true |>.
  Definition q : arg := (arg_new [113]) <| a_short := Some 113 |> <| a_action := Some ASetTrue |>.
  Definition x : arg := (arg_new [120]) <| a_short := Some 120 |> <| a_action := Some ASetTrue |>.
  Definition run : cmd := (cmd_new [114; 117; 110]) <| c_args := [x] |>.
  Definition c0 : cmd := (cmd_new [112]) <| c_args := [gl; q] |> <| c_subs := [run] |>.
  Definition bin : bytes := [112].
  Definition c : cmd := build_self (with_bin c0 bin).
  Definition ginv : inv :=
    ISub [ItLongEq [103; 108] [82]; ItCluster [113] TNone] [114; 117; 110] (ILeaf [ItLongEq [103; 108] [83]; ItCluster [120] TNone]).
  Definition raw_of (i : id) (m : matches) : option groups := opt_map m_raw (fm_get i (ms_args m)).
  Example ex_hyps :
    is_set s_no_binary_name c0 = false /\ valid (with_bin c0 bin) = true /\ wf_inv c ginv = true /\
    no_globals (build_recursive (S (S (depth c))) (with_bin c0 bin)) = false /\
    render_inv ginv = [[45; 45; 103; 108; 61; 82]; [45; 113]; [114; 117; 110]; [45; 45; 103; 108; 61; 83]; [45; 120]].
  Proof. vm_compute. repeat split; reflexivity. Qed.
  Example ex_run : exists st sm, run_inv c ginv = ROk st /\
    (* the meaning: root [gl] = R, subcommand [gl] = S *)
    raw_of [103; 108] (into_inner (mt st)) = Some [[[82]]] /\ ms_sub (into_inner (mt st)) = Some ([114; 117; 110], sm) /\
    raw_of [103; 108] sm = Some [[[83]]] /\
    merged_ids (with_bin c0 bin) (into_inner (mt st)) = [[103; 108]; [103; 108]] /\
    map fst (merged_map (with_bin c0 bin) (into_inner (mt st))) = [[103; 108]] /\
    (* what [parse_top] reports: S at both levels, the rest untouched *)
    exists mp smp, parse_top c0 (bin :: render_inv ginv) = OOk mp /\ ms_sub mp = Some ([114; 117; 110], smp) /\
      raw_of [103; 108] mp = Some [[[83]]] /\ raw_of [103; 108] smp = Some [[[83]]] /\
      raw_of [113] mp = Some [[s_true]] /\ raw_of [120] smp = Some [[s_true]].
  Proof.
    eexists. eexists. split; [vm_compute; reflexivity|]. split; [reflexivity|]. split; [reflexivity|]. split; [reflexivity|].
    split; [vm_compute; reflexivity|]. split; [vm_compute; reflexivity|].
    eexists. eexists. split; [vm_compute; reflexivity|]. repeat split.
  Qed.
End GlobEx.
