(** Property C09, first sentence: subcommand dispatch.  What the token loop selects, what
    [Parser::parse] does with the selection ([get_matches_with] / [after_sub]), external
    subcommands, and the copying of global definitions by the build step. *)
From ClapModel Require Import Base.Bytes Base.Machine Base.Utf8 Lex.OsStrExtModel.
From ClapModel Require Import Parse.Cmd Parse.Build Parse.Valid Parse.Matcher Parse.Errors Parse.Validator Parse.Parser.
From ClapModel Require Import ParseProofs.Globals.
From ClapModel Require ParseProofs.PendingFlush.
From Coq Require Import ZArith.
From RecordUpdate Require Import RecordSet.
Import RecordSetNotations.
Open Scope N_scope.

(** * Partial-correctness predicate on results: a panic satisfies everything *)
Definition holds {A} (Qok : A -> Prop) (Qerr : ps -> Prop) (r : res A) : Prop :=
  match r with ROk a => Qok a | RErr _ st => Qerr st | RPanic _ => True end.

Lemma holds_bind {A B} (Q1 : A -> Prop) (Q2 : B -> Prop) Qe (r : res A) (f : A -> res B) :
  holds Q1 Qe r -> (forall a, Q1 a -> holds Q2 Qe (f a)) -> holds Q2 Qe (rbind r f).
Proof. destruct r; cbn; auto. Qed.
Lemma holds_weaken {A} (Q1 Q2 : A -> Prop) (Qe1 Qe2 : ps -> Prop) (r : res A) :
  holds Q1 Qe1 r -> (forall a, Q1 a -> Q2 a) -> (forall s, Qe1 s -> Qe2 s) -> holds Q2 Qe2 r.
Proof. destruct r; cbn; auto. Qed.
Lemma holds_expect {A} (Q : A -> Prop) Qe site (o : option A) :
  (forall a, o = Some a -> Q a) -> holds Q Qe (expect site o).
Proof. destruct o; cbn; auto. Qed.

(** * The phases after the token loop never touch the recorded subcommand *)
Section KeepSub.
Variable c : cmd.
Variable s : option (bytes * matches).
Definition S_ (st : ps) : Prop := mt_sub (mt st) = s.
Definition M_ (m : matcher) : Prop := mt_sub m = s.

Lemma mt_remove_sub m o : mt_sub (fst (mt_remove m o)) = mt_sub m.
Proof. unfold mt_remove. destruct (fm_remove o (mt_args m)). reflexivity. Qed.

Lemma fold_remove_sub l : forall m, mt_sub (fold_left (fun m o => fst (mt_remove m o)) l m) = mt_sub m.
Proof. induction l as [|o t IH]; intros m; cbn [fold_left]; [reflexivity|]. rewrite IH. apply mt_remove_sub. Qed.

Lemma remove_overrides_sub a m : mt_sub (remove_overrides c a m) = mt_sub m.
Proof. unfold remove_overrides. rewrite !fold_remove_sub. reflexivity. Qed.

Lemma add_val_to_sub m i v m' : add_val_to m i v = Some m' -> mt_sub m' = mt_sub m.
Proof.
  unfold add_val_to. destruct (fm_get i (mt_args m)); [|discriminate].
  destruct (append_val v m0); [|discriminate]. intros H. inversion H. reflexivity.
Qed.
Lemma add_index_to_sub m i k m' : add_index_to m i k = Some m' -> mt_sub m' = mt_sub m.
Proof.
  unfold add_index_to. destruct (fm_get i (mt_args m)); [|discriminate]. intros H. inversion H. reflexivity.
Qed.

Lemma start_custom_arg_sub a sr m : M_ m -> holds M_ (fun _ => False) (start_custom_arg c a sr m).
Proof.
  intros Hm. unfold start_custom_arg.
  set (m1 := match sr with SCmdLine => remove_overrides c a m | _ => m end).
  assert (H1 : M_ m1). { unfold M_ in *. subst m1. destruct sr; try exact Hm. rewrite remove_overrides_sub. exact Hm. }
  assert (H2 : M_ (start_custom_arg_m m1 a sr)) by exact H1.
  destruct (src_explicit sr); [|exact H2].
  generalize (groups_for_arg c (a_id a)).
  assert (H0 : holds M_ (fun _ => False) (ROk (start_custom_arg_m m1 a sr) : res matcher)) by exact H2.
  revert H0. generalize (ROk (start_custom_arg_m m1 a sr) : res matcher).
  intros r H0 l. revert r H0. induction l as [|g t IH]; intros r H0; cbn [fold_left]; [exact H0|].
  apply IH. eapply holds_bind; [exact H0|]. intros m0 Hm0.
  apply holds_expect. intros m' Hm'. apply add_val_to_sub in Hm'. unfold M_ in *. rewrite Hm'. exact Hm0.
Qed.

Lemma push_arg_values_sub a : forall raw st, S_ st -> holds S_ S_ (push_arg_values c a raw st).
Proof.
  induction raw as [|v t IH]; intros st Hs; cbn [push_arg_values]; [exact Hs|].
  eapply holds_bind; [apply holds_expect; intros; exact I|]. intros vp _.
  destruct (vp_parse vp v); [exact Hs|].
  eapply holds_bind; [apply (holds_expect (fun m1 => mt_sub m1 = s)); intros m1 H1; apply add_val_to_sub in H1; rewrite H1; exact Hs|].
  intros m1 Hm1.
  eapply holds_bind; [apply (holds_expect (fun m2 => mt_sub m2 = s)); intros m2 H2; apply add_index_to_sub in H2; rewrite H2; exact Hm1|].
  intros m2 Hm2. apply IH. exact Hm2.
Qed.

Lemma verify_num_args_sub a raw st : S_ st -> holds (fun _ => True) S_ (verify_num_args c a raw st).
Proof.
  intros Hs. unfold verify_num_args. destruct (is_set s_ignore_errors c); [exact I|].
  eapply holds_bind; [apply holds_expect; intros; exact I|]. intros r _.
  destruct (_ && _); [exact Hs|]. destruct (r_num_values r).
  - destruct (negb _); [exact Hs | exact I].
  - destruct (_ <? _); [exact Hs|]. destruct (_ <? _); [|exact I]. destruct raw; [exact I | exact Hs].
Qed.

Lemma react_core_sub idn sr a raw ti st :
  S_ st -> holds (fun x => S_ (fst x)) S_ (react_core c idn sr a raw ti st).
Proof.
  intros Hs. unfold react_core.
  eapply holds_bind.
  { destruct (is_cmdline sr); [apply verify_num_args_sub; exact Hs | exact I]. }
  intros _ _.
  match goal with |- context [let '(_, _) := ?X in _] => destruct X as [raw' ti'] end.
  eapply holds_bind; [apply holds_expect; intros; exact I|]. intros raw2 _.
  assert (Hbump : forall (b : bool) st0, S_ st0 -> S_ (if b then ps_bump st0 else st0)) by (intros [] ? ?; assumption).
  assert (Hset : forall raw0 bump st0, S_ st0 ->
     holds (fun x : ps * presult => S_ (fst x)) S_
       (let st := if bump && is_cmdline sr && is_flag_ident idn then ps_bump st0 else st0 in
        let '(m1, removed) := mt_remove (mt st) (a_id a) in
        let st := st <| mt := m1 |> in
        if removed && negb (is_set s_args_override_self c || mem_id (a_id a) (a_overrides a))
        then RErr (mkerr c EArgumentConflict (a_id a)) st
        else do m2 <- start_custom_arg c a sr m1;
             do st' <- push_arg_values c a raw0 (st <| mt := m2 |>);
             ROk (st', PRValuesDone))).
  { intros raw0 bump st0 Hs0. cbv zeta.
    pose proof (Hbump (bump && is_cmdline sr && is_flag_ident idn) st0 Hs0) as Hb.
    set (stb := if bump && is_cmdline sr && is_flag_ident idn then ps_bump st0 else st0) in *.
    pose proof (mt_remove_sub (mt stb) (a_id a)) as Hr.
    destruct (mt_remove (mt stb) (a_id a)) as [m1 removed]. cbn [fst] in Hr.
    assert (Hm1 : M_ m1) by (unfold M_, S_ in *; congruence).
    destruct (removed && _); [exact Hm1|].
    eapply holds_bind; [eapply holds_weaken; [apply start_custom_arg_sub; exact Hm1 | intros ? H; exact H | intros ? []]|].
    intros m2 Hm2.
    eapply holds_bind; [apply push_arg_values_sub; exact Hm2|]. intros st' Hst'. exact Hst'. }
  destruct (a_get_action a).
  - apply Hset. exact Hs.
  - assert (Hb := Hbump (is_cmdline sr && is_flag_ident idn) st Hs).
    eapply holds_bind; [eapply holds_weaken; [apply start_custom_arg_sub; exact Hb | intros ? H; exact H | intros ? []]|].
    intros m2 Hm2. eapply holds_bind; [apply push_arg_values_sub; exact Hm2|]. intros st' Hst'. exact Hst'.
  - apply Hset. exact Hs.
  - apply Hset. exact Hs.
  - pose proof (mt_remove_sub (mt st) (a_id a)) as Hr.
    destruct (mt_remove (mt st) (a_id a)) as [m1 removed]. cbn [fst] in Hr.
    assert (Hm1 : M_ m1) by (unfold M_, S_ in *; congruence).
    eapply holds_bind; [eapply holds_weaken; [apply start_custom_arg_sub; exact Hm1 | intros ? H; exact H | intros ? []]|].
    intros m2 Hm2. eapply holds_bind; [apply push_arg_values_sub; exact Hm2|]. intros st' Hst'. exact Hst'.
  - exact Hs.
  - exact Hs.
  - exact Hs.
  - exact Hs.
Qed.

Lemma resolve_pending_sub st : S_ st -> holds S_ S_ (resolve_pending c st).
Proof.
  intros Hs. unfold resolve_pending. destruct (mt_pending (mt st)) as [p|]; [|exact Hs].
  eapply holds_bind; [apply holds_expect; intros; exact I|]. intros a _.
  eapply holds_bind; [apply react_core_sub; exact Hs|]. intros x Hx. exact Hx.
Qed.

Lemma react_sub idn sr a raw ti st : S_ st -> holds (fun x => S_ (fst x)) S_ (react c idn sr a raw ti st).
Proof.
  intros Hs. unfold react. eapply holds_bind; [apply resolve_pending_sub; exact Hs|].
  intros st1 H1. apply react_core_sub. exact H1.
Qed.

Lemma fold_res_sub {X} (f : ps -> X -> res ps) (l : list X) :
  (forall st x, S_ st -> holds S_ S_ (f st x)) ->
  forall r, holds S_ S_ r -> holds S_ S_ (fold_left (fun rst x => do st <- rst; f st x) l r).
Proof.
  intros Hf. induction l as [|x t IH]; intros r Hr; cbn [fold_left]; [exact Hr|].
  apply IH. eapply holds_bind; [exact Hr|]. intros st Hst. apply Hf. exact Hst.
Qed.

Lemma add_env_sub st : S_ st -> holds S_ S_ (add_env c st).
Proof.
  intros Hs. unfold add_env. apply (fold_res_sub (fun st a => if mt_contains (mt st) (a_id a) then ROk st
       else match a_env a with Some v => do x <- react c None SEnv a [v] None st; ROk (fst x) | None => ROk st end)); [|exact Hs].
  intros st0 a H0. destruct (mt_contains _ _); [exact H0|]. destruct (a_env a); [|exact H0].
  eapply holds_bind; [apply react_sub; exact H0|]. intros x Hx. exact Hx.
Qed.

Lemma add_default_value_sub a st : S_ st -> holds S_ S_ (add_default_value c a st).
Proof.
  intros Hs. unfold add_default_value.
  assert (Hplain : holds S_ S_ (if negb (is_nil (a_default a)) then
      if mt_contains (mt st) (a_id a) then ROk st
      else do x <- react c None SDefault a (a_default a) None st; ROk (fst x) else ROk st)).
  { destruct (negb _); [|exact Hs]. destruct (mt_contains _ _); [exact Hs|].
    eapply holds_bind; [apply react_sub; exact Hs|]. intros x Hx. exact Hx. }
  destruct (_ && _); [|exact Hplain].
  destruct (List.find _ _) as [[[i p] [d|]]|]; [| exact Hs | exact Hplain].
  eapply holds_bind; [apply react_sub; exact Hs|]. intros x Hx. exact Hx.
Qed.

Lemma add_defaults_sub st : S_ st -> holds S_ S_ (add_defaults c st).
Proof.
  intros Hs. unfold add_defaults.
  apply (fold_res_sub (fun st a => add_default_value c a st)); [|exact Hs].
  intros st0 a H0. apply add_default_value_sub. exact H0.
Qed.
End KeepSub.

(** * [get_matches_with], one level: named pieces of its body *)
Definition ext_marg (vals : list bytes) : marg := mkMarg (Some SCmdLine) [] [vals] false false.

Definition external_matches (c : cmd) (name : bytes) (vals : list bytes) (st : ps) : res ps :=
  let vp := opt_default VPOsString (c_ext_vp c) in
  let sc_m := start_custom_arg_m matcher_new (arg_new ext_id) SCmdLine in
  let filled := fold_left (fun rm v =>
                  do m <- rm;
                  match vp_parse vp v with
                  | Some k => RErr (mkerr c k []) st
                  | None => expect 458 (add_val_to m ext_id v)
                  end) vals (ROk sc_m) in
  do m <- filled;
  ROk (st <| mt := (mt st) <| mt_sub := Some (name, into_inner m) |> |>).

(** the state the child level starts from: a fresh matcher; only the index counter and the
    flag-subcommand resume counters are handed down, and only when a short cluster continues *)
Definition sub_init (keep : bool) (st : ps) : ps :=
  if keep then mkPs matcher_new (cur_idx st) (fs_at st) (fs_skip st) else ps_new.

Definition record_sub (st : ps) (name : bytes) (sub_st : ps) : ps :=
  st <| mt := (mt st) <| mt_sub := Some (name, into_inner (mt sub_st)) |> |>.

Definition after_sub (f : nat) (c : cmd) (name : bytes) (keep vaf : bool) (st : ps) (rest : list bytes) : res ps :=
  if is_set s_args_negate_subs c && vaf then RErr (mkerr c EArgumentConflict name) st
  else
    do sc0 <- expect 494 (find_subcommand c name);
    match build_subcommand c (c_name sc0) with
    | None => ROk st
    | Some sc =>
        if negb (assert_app sc) then RPanic 4407 else
        match get_matches_with f sc rest (sub_init keep st) with
        | ROk sub_st => ROk (record_sub st (c_name sc) sub_st)
        | RErr e sub_st => if is_set s_ignore_errors c then ROk (record_sub st (c_name sc) sub_st) else RErr e st
        | RPanic s => RPanic s
        end
    end.

Definition parsed_of (f : nat) (c : cmd) (toks : list bytes) (st0 : ps) : res ps :=
  do lr <- parse_loop c toks (mkL PSValuesDone 1 false false) st0;
  match lr with
  | LDone st => ROk st
  | LSub name keep vaf st rest => after_sub f c name keep vaf st rest
  | LHelpSub names st => RErr (help_walk c names) st
  | LExternal name vals st => external_matches c name vals st
  end.

Definition post (c : cmd) (parsed : res ps) : res ps :=
  match parsed with
  | RPanic s => RPanic s
  | RErr e st =>
      if is_set s_ignore_errors c then
        let st0 := match resolve_pending c st with ROk s => s | RErr _ s => s | RPanic _ => st end in
        let st1 := match add_env c st0 with ROk s => s | RErr _ s => s | RPanic _ => st0 end in
        let st2 := match add_defaults c st1 with ROk s => s | RErr _ s => s | RPanic _ => st1 end in
        match resolve_pending c st with
        | RPanic s => RPanic s
        | _ =>
          match add_env c st0, add_defaults c st1 with
          | RPanic s, _ => RPanic s
          | _, RPanic s => RPanic s
          | _, _ => RErr e st2
          end
        end
      else RErr e st
  | ROk st =>
      do st1 <- resolve_pending c st;
      do st2 <- add_env c st1;
      do st3 <- add_defaults c st2;
      vres_to_res c (validate c (mt st3)) st3
  end.

Lemma gmw_unfold f c toks st0 :
  get_matches_with (S f) c toks st0 = post c (parsed_of f c toks st0).
Proof. reflexivity. Qed.

(** the error branch of [post] is the named function of PendingFlush.v (repaired statement order: the pending
    occurrence, the environment, the defaults -- each result dropped) *)
Lemma post_err_unfold c e st :
  post c (RErr e st) = if is_set s_ignore_errors c then PendingFlush.ignored_post c e st else RErr e st.
Proof. reflexivity. Qed.

Lemma post_err_not_ok c e st s : post c (RErr e st) <> ROk s.
Proof. rewrite post_err_unfold. destruct (is_set s_ignore_errors c); [apply PendingFlush.ignored_post_not_ok|discriminate]. Qed.

Lemma post_err_same_error c e st e' s : post c (RErr e st) = RErr e' s -> e' = e.
Proof.
  rewrite post_err_unfold. destruct (is_set s_ignore_errors c); [apply PendingFlush.ignored_post_err|].
  intros [= <- _]. reflexivity.
Qed.

Lemma post_keeps_sub c s parsed : holds (S_ s) (S_ s) parsed -> holds (S_ s) (S_ s) (post c parsed).
Proof.
  destruct parsed as [st|e st|x]; cbn [holds post]; intros Hs; [| |exact I].
  - eapply holds_bind; [apply resolve_pending_sub; exact Hs|]. intros st1 H1.
    eapply holds_bind; [apply add_env_sub; exact H1|]. intros st2 H2.
    eapply holds_bind; [apply add_defaults_sub; exact H2|]. intros st3 H3.
    unfold vres_to_res. destruct (validate c (mt st3)); cbn [holds]; auto.
  - destruct (is_set s_ignore_errors c); [|exact Hs].
    pose proof (resolve_pending_sub c s st Hs) as Hr.
    destruct (resolve_pending c st) as [s0|e0 s0|x0]; cbn [holds] in Hr; [| |exact I].
    all: pose proof (add_env_sub c s s0 Hr) as He.
    all: destruct (add_env c s0) as [s1|e1 s1|x1]; cbn [holds] in He; [| |exact I].
    all: pose proof (add_defaults_sub c s s1 He) as Hd.
    all: destruct (add_defaults c s1) as [s2|e2 s2|x2]; cbn [holds] in Hd |- *; auto.
Qed.

(** ** external subcommand: every remaining token, in order, byte for byte *)
Lemma fold_rerr {X} (F : matcher -> X -> res matcher) e st0 : forall l,
  fold_left (fun rm v => do m <- rm; F m v) l (RErr e st0) = RErr e st0.
Proof. induction l as [|x t IH]; cbn [fold_left rbind]; [reflexivity | exact IH]. Qed.

Lemma external_fold c st vp : forall vals acc,
  holds (fun m => m = mkMatcher [(ext_id, ext_marg (acc ++ vals))] None None) (fun st' => st' = st)
    (fold_left (fun rm v =>
                  do m <- rm;
                  match vp_parse vp v with
                  | Some k => RErr (mkerr c k []) st
                  | None => expect 458 (add_val_to m ext_id v)
                  end) vals (ROk (mkMatcher [(ext_id, ext_marg acc)] None None))).
Proof.
  induction vals as [|v t IH]; intros acc; cbn [fold_left].
  - rewrite app_nil_r. reflexivity.
  - cbn [rbind]. destruct (vp_parse vp v) as [k|].
    + rewrite (fold_rerr (fun m v => match vp_parse vp v with
                                       | Some k => RErr (mkerr c k []) st
                                       | None => expect 458 (add_val_to m ext_id v) end)).
      reflexivity.
    + replace (expect 458 (add_val_to (mkMatcher [(ext_id, ext_marg acc)] None None) ext_id v))
        with (ROk (mkMatcher [(ext_id, ext_marg (acc ++ [v]))] None None) : res matcher) by reflexivity.
      replace (acc ++ v :: t) with ((acc ++ [v]) ++ t) by (rewrite <- app_assoc; reflexivity).
      apply IH.
Qed.

Theorem external_verbatim c name vals st :
  holds (fun st' => st' = st <| mt := (mt st) <| mt_sub := Some (name, Matches [(ext_id, ext_marg vals)] None) |> |>)
        (fun st' => st' = st)
        (external_matches c name vals st).
Proof.
  unfold external_matches. cbv zeta.
  eapply holds_bind; [exact (external_fold c st _ vals [])|].
  intros m ->. reflexivity.
Qed.

(** ** the step theorem: what a successful level recorded, and how the child was run *)
Theorem gmw_step f c toks st0 st :
  get_matches_with (S f) c toks st0 = ROk st ->
  exists lr, parse_loop c toks (mkL PSValuesDone 1 false false) st0 = ROk lr /\
  match lr with
  | LDone st1 => mt_sub (mt st) = mt_sub (mt st1)
  | LSub name keep vaf st1 rest =>
      exists sc0, find_subcommand c name = Some sc0 /\
      match build_subcommand c (c_name sc0) with
      | None => mt_sub (mt st) = mt_sub (mt st1)
      | Some sc =>
          exists sub_st,
            (get_matches_with f sc rest (sub_init keep st1) = ROk sub_st \/
             exists e, get_matches_with f sc rest (sub_init keep st1) = RErr e sub_st /\ is_set s_ignore_errors c = true) /\
            mt_sub (mt st) = Some (c_name sc, into_inner (mt sub_st))
      end
  | LExternal name vals st1 => mt_sub (mt st) = Some (name, Matches [(ext_id, ext_marg vals)] None)
  | LHelpSub _ _ => False
  end.
Proof.
  rewrite gmw_unfold. intros H.
  destruct (parsed_of f c toks st0) as [stp|e stp|x] eqn:Ep.
  - assert (Hsub : mt_sub (mt st) = mt_sub (mt stp)).
    { pose proof (post_keeps_sub c (mt_sub (mt stp)) (ROk stp) eq_refl) as Hk. rewrite H in Hk. exact Hk. }
    clear H. unfold parsed_of in Ep.
    destruct (parse_loop c toks _ st0) as [lr|e l|x]; cbn [rbind] in Ep; [|discriminate|discriminate].
    exists lr. split; [reflexivity|].
    destruct lr as [st1|name keep vaf st1 rest|name vals st1|names st1].
    + inversion Ep; subst. exact Hsub.
    + unfold after_sub in Ep. destruct (_ && _); [discriminate|].
      destruct (find_subcommand c name) as [sc0|]; cbn [expect rbind] in Ep; [|discriminate].
      exists sc0. split; [reflexivity|].
      destruct (build_subcommand c (c_name sc0)) as [sc|].
      * destruct (negb (assert_app sc)); [discriminate|].
        destruct (get_matches_with f sc rest (sub_init keep st1)) as [sub_st|e sub_st|x] eqn:Eg; [| |discriminate].
        -- inversion Ep; subst. exists sub_st. split; [left; reflexivity|]. rewrite Hsub. reflexivity.
        -- destruct (is_set s_ignore_errors c) eqn:Ei; [|discriminate].
           inversion Ep; subst. exists sub_st. split; [right; exists e; auto|]. rewrite Hsub. reflexivity.
      * inversion Ep; subst. exact Hsub.
    + pose proof (external_verbatim c name vals st1) as Hx. rewrite Ep in Hx. cbn [holds] in Hx.
      rewrite Hsub, Hx. reflexivity.
    + discriminate.
  - exfalso. cbn [post] in H. destruct (is_set s_ignore_errors c); [|discriminate].
    destruct (resolve_pending c stp) as [s0|e0 s0|x0]; [| |discriminate];
      (destruct (add_env c s0) as [s1|e1 s1|x1]; [| |discriminate];
        (destruct (add_defaults c s1) as [s2|e2 s2|x2]; discriminate)).
  - discriminate.
Qed.

(** * What the token loop selects resolves through [find_subcommand] (the [expect 494] site) *)
Lemma find_exists {A} (f : A -> bool) l x : In x l -> f x = true -> exists y, List.find f l = Some y.
Proof.
  intros Hin Hf. destruct (List.find f l) as [y|] eqn:E; [eauto|].
  exfalso. pose proof (find_none f l E x Hin). congruence.
Qed.
Lemma find_some_in {A} (f : A -> bool) l x : List.find f l = Some x -> In x l /\ f x = true.
Proof. apply find_some. Qed.

Lemma aliases_to_name s : aliases_to s (c_name s) = true.
Proof. unfold aliases_to. rewrite beq_refl. reflexivity. Qed.

Lemma find_subcommand_name c s : In s (c_subs c) -> exists s', find_subcommand c (c_name s) = Some s'.
Proof. intros H. exact (find_exists _ _ s H (aliases_to_name s)). Qed.

Lemma find_short_subcmd_resolves c ch n :
  find_short_subcmd c ch = Some n -> exists s, In s (c_subs c) /\ c_name s = n /\ short_flag_aliases_to s ch = true.
Proof.
  unfold find_short_subcmd. destruct (List.find _ _) as [s|] eqn:E; cbn [opt_map]; [|discriminate].
  intros H. inversion H; subst. apply find_some_in in E. destruct E. eauto.
Qed.
Lemma find_long_subcmd_resolves c l n :
  find_long_subcmd c l = Some n -> exists s, In s (c_subs c) /\ c_name s = n /\ long_flag_aliases_to s l = true.
Proof.
  unfold find_long_subcmd. destruct (List.find _ _) as [s|] eqn:E; cbn [opt_map]; [|discriminate].
  intros H. inversion H; subst. apply find_some_in in E. destruct E. eauto.
Qed.

Lemma first_unique_in {A} (l : list A) x : first_unique l = Some x -> In x l.
Proof. destruct l as [|y [|z t]]; cbn; intros H; inversion H; subst; auto. Qed.
Lemma filter_map_in {A B} (f : A -> option B) l y : In y (filter_map f l) -> exists x, In x l /\ f x = Some y.
Proof.
  induction l as [|a t IH]; cbn [filter_map]; [intros []|].
  destruct (f a) as [b|] eqn:E.
  - intros [<-|H]; [exists a; split; [left; reflexivity | exact E]|].
    destruct (IH H) as [x [H1 H2]]. exists x. split; [right; exact H1 | exact H2].
  - intros H. destruct (IH H) as [x [H1 H2]]. exists x. split; [right; exact H1 | exact H2].
Qed.

Theorem possible_subcommand_resolves c tok vaf n :
  possible_subcommand c tok vaf = Some n -> exists s', find_subcommand c n = Some s'.
Proof.
  unfold possible_subcommand. destruct (negb (utf8_valid tok)); [discriminate|].
  destruct (_ && _); [discriminate|].
  destruct (if is_set s_infer_sub c then _ else None) as [m|] eqn:Ei.
  - intros H. inversion H; subst m. destruct (is_set s_infer_sub c); [|discriminate].
    apply first_unique_in, filter_map_in in Ei. destruct Ei as [s [Hs Hf]].
    destruct (is_prefix tok (c_name s)).
    + inversion Hf; subst. apply find_subcommand_name. exact Hs.
    + apply find_some_in in Hf. destruct Hf as [Hin _].
      apply (find_exists _ _ s Hs). unfold aliases_to. apply orb_true_iff. right.
      apply existsb_exists. exists n. split; [exact Hin | apply beq_refl].
  - destruct (find_subcommand c tok) as [s|] eqn:E; cbn [opt_map]; [|discriminate].
    intros H. inversion H; subst. apply find_some_in in E. destruct E as [Hin _].
    apply find_subcommand_name. exact Hin.
Qed.

Theorem possible_long_flag_subcommand_resolves c l n :
  possible_long_flag_subcommand c l = Some n -> exists s', find_subcommand c n = Some s'.
Proof.
  unfold possible_long_flag_subcommand.
  destruct (if is_set s_infer_sub c then _ else None) as [m|] eqn:Ei.
  - intros H. inversion H; subst m. destruct (is_set s_infer_sub c); [|discriminate].
    apply first_unique_in, filter_map_in in Ei. destruct Ei as [s [Hs Hf]].
    destruct (c_long_flag s); [|discriminate].
    destruct (is_prefix l b); [inversion Hf; subst; apply find_subcommand_name; exact Hs|].
    destruct (existsb _ _); [|discriminate]. inversion Hf; subst. apply find_subcommand_name. exact Hs.
  - intros H. apply find_long_subcmd_resolves in H. destruct H as [s [Hs [<- _]]].
    apply find_subcommand_name. exact Hs.
Qed.

Theorem short_flag_subcommand_resolves c ch n :
  find_short_subcmd c ch = Some n -> exists s', find_subcommand c n = Some s'.
Proof.
  intros H. apply find_short_subcmd_resolves in H. destruct H as [s [Hs [<- _]]].
  apply find_subcommand_name. exact Hs.
Qed.

Theorem selected_resolves c :
  (forall tok vaf n, possible_subcommand c tok vaf = Some n -> exists s', find_subcommand c n = Some s') /\
  (forall l n, possible_long_flag_subcommand c l = Some n -> exists s', find_subcommand c n = Some s') /\
  (forall ch n, find_short_subcmd c ch = Some n -> exists s', find_subcommand c n = Some s').
Proof.
  split; [exact (possible_subcommand_resolves c)|].
  split; [exact (possible_long_flag_subcommand_resolves c) | exact (short_flag_subcommand_resolves c)].
Qed.

(** * Dispatch by name or alias: the canonical name is selected, the remaining tokens are handed on verbatim *)
Lemma possible_subcommand_exact c tok vaf sc :
  utf8_valid tok = true -> is_set s_infer_sub c = false ->
  (is_set s_args_negate_subs c && vaf) = false ->
  find_subcommand c tok = Some sc ->
  possible_subcommand c tok vaf = Some (c_name sc).
Proof.
  intros Hu Hi Hn Hf. unfold possible_subcommand. rewrite Hu, Hn, Hi, Hf. reflexivity.
Qed.

Theorem dispatch_by_name c tok rest pos vaf st sc :
  utf8_valid tok = true -> is_set s_infer_sub c = false ->
  (is_set s_args_negate_subs c && vaf) = false ->
  find_subcommand c tok = Some sc ->
  (beq (c_name sc) s_help && negb (is_set s_disable_help_sub c)) = false ->
  parse_loop c (tok :: rest) (mkL PSValuesDone pos vaf false) st = ROk (LSub (c_name sc) false vaf st rest).
Proof.
  intros Hu Hi Hn Hf Hh. cbn [parse_loop l_trailing l_pst l_vaf].
  rewrite orb_true_r. rewrite (possible_subcommand_exact c tok vaf sc Hu Hi Hn Hf). rewrite Hh.
  reflexivity.
Qed.

(** * Dispatch by long flag-subcommand *)
Theorem dispatch_long_flag c tok flag rest pos vaf st n :
  possible_subcommand c tok vaf = None -> is_escape tok = false ->
  to_long tok = Some (flag, true, None) -> flag <> [] ->
  get_long c flag = None -> is_set s_infer_long c = false ->
  possible_long_flag_subcommand c flag = Some n ->
  parse_loop c (tok :: rest) (mkL PSValuesDone pos vaf false) st = ROk (LSub n false vaf st rest).
Proof.
  intros Hp He Hl Hne Hg Hi Hf. cbn [parse_loop l_trailing l_pst l_vaf l_pos].
  rewrite orb_true_r, Hp, He, Hl.
  unfold parse_long_arg. cbn [state_arg rbind negb]. 
  destruct flag as [|b0 fl]; [contradiction|]. cbn [is_nil andb].
  rewrite Hg, Hi, Hf. cbn [rbind fst snd]. reflexivity.
Qed.

(** * Dispatch by short flag-subcommand, alone or as the first letter of a cluster *)
Definition no_hyphen_pos (c : cmd) (pos : N) : Prop :=
  match get_pos c pos with
  | Some a => a_negnum a = false /\ (a_hyphen a && negb (a_last a)) = false
  | None => True
  end.

Lemma parse_short_arg_clean c r pos vaf st :
  fs_skip st = 0 -> no_hyphen_pos c pos ->
  parse_short_arg c r PSValuesDone pos vaf st = short_loop c (S (length r)) r PRNoArg vaf (st <| fs_skip := 0 |>).
Proof.
  intros Hs Hp. unfold parse_short_arg. cbn [state_arg rbind]. unfold no_hyphen_pos in Hp.
  destruct (get_pos c pos) as [a|]; [destruct Hp as [H1 H2]; rewrite H1, H2|]; cbn [andb]; rewrite Hs; reflexivity.
Qed.

(** the resume: a parser entered with [flag_subcmd_skip = 1] re-reads the cluster from the
    letter after the flag-subcommand letter *)
Lemma parse_short_arg_resume c r ch r' pos vaf st :
  fs_skip st = 1 -> no_hyphen_pos c pos -> sf_next r = Some (inl ch, r') ->
  parse_short_arg c r PSValuesDone pos vaf st = short_loop c (S (length r')) r' PRNoArg vaf (st <| fs_skip := 0 |>).
Proof.
  intros Hs Hp Hn. unfold parse_short_arg. cbn [state_arg rbind]. unfold no_hyphen_pos in Hp.
  assert (Hadv : sf_advance_by (N.to_nat (N.min 1 (N.of_nat (S (length r))))) r = Some r').
  { replace (N.min 1 (N.of_nat (S (length r)))) with 1 by lia. change (N.to_nat 1) with 1%nat. cbn [sf_advance_by].
    rewrite Hn. reflexivity. }
  destruct (get_pos c pos) as [a|]; [destruct Hp as [H1 H2]; rewrite H1, H2|]; cbn [andb]; rewrite Hs, Hadv; reflexivity.
Qed.

Lemma short_loop_flag_sub c fuel r ch r' ret vaf st n :
  sf_next r = Some (inl ch, r') -> get_short c ch = None -> find_short_subcmd c ch = Some n ->
  mt_pending (mt st) = None ->
  short_loop c (S fuel) r ret vaf st =
  ROk ((ps_bump st) <| fs_at := if is_nil r' then None
                                else match fs_at st with Some a => Some a | None => Some (cur_idx st + 1) end |>,
       PRFlagSub n, vaf).
Proof.
  intros Hn Hg Hf Hp. cbn [short_loop]. rewrite Hn, Hg, Hf. unfold resolve_pending. rewrite Hp. reflexivity.
Qed.

(** the letter alone (or last): the child starts fresh with the remaining tokens *)
Theorem dispatch_short_flag c tok r ch rest pos vaf st n :
  possible_subcommand c tok vaf = None -> is_escape tok = false -> to_long tok = None ->
  to_short tok = Some r -> sf_next r = Some (inl ch, []) ->
  get_short c ch = None -> find_short_subcmd c ch = Some n ->
  mt_pending (mt st) = None -> fs_skip st = 0 -> no_hyphen_pos c pos ->
  parse_loop c (tok :: rest) (mkL PSValuesDone pos vaf false) st =
  ROk (LSub n false vaf ((ps_bump st) <| fs_skip := 0 |> <| fs_at := None |>) rest).
Proof.
  intros Hp He Hl Hs Hn Hg Hf Hpend Hsk Hpos. cbn [parse_loop l_trailing l_pst l_vaf l_pos].
  rewrite orb_true_r, Hp, He, Hl, Hs.
  rewrite (parse_short_arg_clean c r pos vaf st Hsk Hpos).
  assert (Hpend' : mt_pending (mt (st <| fs_skip := 0 |>)) = None) by exact Hpend.
  rewrite (short_loop_flag_sub c _ r ch [] PRNoArg vaf _ n Hn Hg Hf Hpend').
  cbn [rbind is_nil]. reflexivity.
Qed.

(** first letter of a longer cluster, read by a parser with a clean resume state: the SAME token
    is handed to the child again, with skip = 1 *)
Theorem dispatch_flag_cluster_first c tok r ch r' rest pos vaf st n :
  possible_subcommand c tok vaf = None -> is_escape tok = false -> to_long tok = None ->
  to_short tok = Some r -> sf_next r = Some (inl ch, r') -> r' <> [] ->
  get_short c ch = None -> find_short_subcmd c ch = Some n ->
  mt_pending (mt st) = None -> fs_skip st = 0 -> fs_at st = None -> no_hyphen_pos c pos ->
  parse_loop c (tok :: rest) (mkL PSValuesDone pos vaf false) st =
  ROk (LSub n true vaf ((ps_bump st) <| fs_skip := 0 |> <| fs_at := Some (cur_idx st + 1) |> <| fs_skip := 1 |>)
            (tok :: rest)).
Proof.
  intros Hp He Hl Hs Hn Hne Hg Hf Hpend Hsk Hat Hpos. cbn [parse_loop l_trailing l_pst l_vaf l_pos].
  rewrite orb_true_r, Hp, He, Hl, Hs.
  rewrite (parse_short_arg_clean c r pos vaf st Hsk Hpos).
  assert (Hpend' : mt_pending (mt (st <| fs_skip := 0 |>)) = None) by exact Hpend.
  rewrite (short_loop_flag_sub c _ r ch r' PRNoArg vaf _ n Hn Hg Hf Hpend').
  destruct r' as [|b0 t0]; [contradiction|]. cbn [rbind is_nil].
  change (fs_at (st <| fs_skip := 0 |>)) with (fs_at st). rewrite Hat.
  cbn [fs_at cur_idx ps_bump]. unfold checked_sub. cbn. rewrite N.leb_refl, N.sub_diag. reflexivity.
Qed.

(** * Global definitions are copied down by the build step ([_propagate_global_args], [_build_subcommand]) *)
Definition add_global (sc : cmd) (a : arg) : cmd :=
  if is_some (find_arg sc (a_id a)) then sc else sc <| c_args := c_args sc ++ [a] |>.

Lemma find_app_l {A} (f : A -> bool) l l' x : List.find f l = Some x -> List.find f (l ++ l') = Some x.
Proof. induction l as [|a t IH]; cbn [List.find app]; [discriminate|]. destruct (f a); auto. Qed.
Lemma find_app_none {A} (f : A -> bool) l l' : List.find f l = None -> List.find f (l ++ l') = List.find f l'.
Proof. induction l as [|a t IH]; cbn [List.find app]; [reflexivity|]. destruct (f a); [discriminate | auto]. Qed.

Lemma add_global_name sc a : c_name (add_global sc a) = c_name sc.
Proof. unfold add_global. destruct (is_some _); reflexivity. Qed.
Lemma fold_add_global_name gl : forall sc, c_name (fold_left add_global gl sc) = c_name sc.
Proof. induction gl as [|h t IH]; intros sc; cbn [fold_left]; [reflexivity|]. rewrite IH. apply add_global_name. Qed.

Lemma add_global_keeps sc a i a0 : find_arg sc i = Some a0 -> find_arg (add_global sc a) i = Some a0.
Proof.
  intros H. unfold add_global. destruct (is_some _); [exact H|].
  unfold find_arg in *. cbn. apply find_app_l. exact H.
Qed.
Lemma fold_add_global_keeps gl : forall sc i a0, find_arg sc i = Some a0 -> find_arg (fold_left add_global gl sc) i = Some a0.
Proof.
  induction gl as [|h t IH]; intros sc i a0 H; cbn [fold_left]; [exact H|].
  apply IH. apply add_global_keeps. exact H.
Qed.

Lemma fold_add_global_new gl : forall sc i a, find_arg sc i = None -> In a gl -> a_id a = i ->
  exists a', In a' gl /\ a_id a' = i /\ find_arg (fold_left add_global gl sc) i = Some a'.
Proof.
  induction gl as [|h t IH]; intros sc i a Hn Hin Hid; [destruct Hin|]. cbn [fold_left].
  destruct (beq (a_id h) i) eqn:E.
  - apply beq_eq in E. exists h. split; [left; reflexivity|]. split; [exact E|].
    apply fold_add_global_keeps. unfold add_global. rewrite E, Hn. cbn [is_some].
    unfold find_arg in *. cbn. rewrite (find_app_none _ _ _ Hn). cbn [List.find]. rewrite E, beq_refl. reflexivity.
  - destruct Hin as [->|Hin]; [rewrite Hid, beq_refl in E; discriminate|].
    assert (Hn' : find_arg (add_global sc h) i = None).
    { unfold add_global. destruct (is_some _); [exact Hn|]. unfold find_arg in *. cbn.
      rewrite (find_app_none _ _ _ Hn). cbn [List.find]. rewrite E. reflexivity. }
    destruct (IH _ _ _ Hn' Hin Hid) as [a' [H1 [H2 H3]]]. exists a'. split; [right; exact H1 | auto].
Qed.

Definition auto_help (c sc : cmd) : bool := beq (c_name sc) s_help && negb (is_set s_disable_help_sub c).

(** one step: after [_propagate_global_args] every global argument of the parent is findable in
    every subcommand except the auto-generated help; the found definition is the subcommand's own
    one if it had one with that id, otherwise a verbatim copy of a global of the parent *)
Theorem bs_globals_copies c a sc' :
  In a (c_args c) -> a_global a = true ->
  In sc' (c_subs (bs_globals c)) -> auto_help c sc' = false ->
  exists sc a', In sc (c_subs c) /\ c_name sc = c_name sc' /\
    find_arg sc' (a_id a) = Some a' /\ a_id a' = a_id a /\
    (find_arg sc (a_id a) = Some a' \/ (find_arg sc (a_id a) = None /\ In a' (c_args c) /\ a_global a' = true)).
Proof.
  intros Ha Hg Hin Hh.
  change (c_subs (bs_globals c)) with
    (map (fun sc => if beq (c_name sc) s_help && negb (is_set s_disable_help_sub c) then sc
                    else fold_left add_global (filter a_global (c_args c)) sc) (c_subs c)) in Hin.
  apply in_map_iff in Hin. destruct Hin as [sc [Heq Hsc]].
  assert (Hname : c_name sc' = c_name sc).
  { subst sc'. destruct (_ && _); [reflexivity | apply fold_add_global_name]. }
  unfold auto_help in Hh. rewrite Hname in Hh. rewrite Hh in Heq. subst sc'.
  exists sc. destruct (find_arg sc (a_id a)) as [a0|] eqn:E.
  - exists a0. split; [exact Hsc|]. split; [symmetry; exact Hname|].
    split; [apply fold_add_global_keeps; exact E|].
    split; [|left; reflexivity]. unfold find_arg in E. apply find_some_in in E. destruct E as [_ E]. apply beq_eq in E. exact E.
  - assert (Hf : In a (filter a_global (c_args c))) by (apply filter_In; auto).
    destruct (fold_add_global_new _ sc (a_id a) a E Hf eq_refl) as [a' [H1 [H2 H3]]].
    exists a'. split; [exact Hsc|]. split; [symmetry; exact Hname|]. split; [exact H3|]. split; [exact H2|].
    right. apply filter_In in H1. destruct H1. auto.
Qed.

(** the later build steps keep ids and the global flag position by position *)
Lemma arg_build_id a : a_id (arg_build a) = a_id a /\ a_global (arg_build a) = a_global a.
Proof.
  unfold arg_build, ab_num, ab_vp, ab_dmissing, ab_default, ab_action.
  repeat match goal with |- context [match ?x with _ => _ end] => destruct x end; split; reflexivity.
Qed.
Lemma build_args_ids : forall args groups pc,
  map a_id (fst (build_args args groups pc)) = map a_id args /\
  map a_global (fst (build_args args groups pc)) = map a_global args.
Proof.
  induction args as [|x t IH]; intros groups pc; cbn [build_args]; [split; reflexivity|].
  destruct (arg_build_id x) as [Hi Hg].
  destruct (a_is_positional (arg_build x) && negb (is_some (a_index (arg_build x)))).
  - destruct (build_args t _ (pc + 1)) as [t' g'] eqn:E. cbn [fst map].
    destruct (IH (add_arg_to_groups (a_id x) (a_groups x) groups) (pc + 1)) as [H1 H2]. rewrite E in H1, H2. cbn [fst] in H1, H2.
    cbn. rewrite H1, H2, Hi, Hg. split; reflexivity.
  - destruct (build_args t _ pc) as [t' g'] eqn:E. cbn [fst map].
    destruct (IH (add_arg_to_groups (a_id x) (a_groups x) groups) pc) as [H1 H2]. rewrite E in H1, H2. cbn [fst] in H1, H2.
    rewrite H1, H2, Hi, Hg. split; reflexivity.
Qed.
Lemma bs_deprecated_arg_id c h a : a_id (bs_deprecated_arg c h a) = a_id a /\ a_global (bs_deprecated_arg c h a) = a_global a.
Proof.
  unfold bs_deprecated_arg.
  repeat match goal with |- context [if ?x then _ else _] => destruct x end; split; reflexivity.
Qed.

Definition has_global_in (l : list arg) (g : id) : Prop :=
  exists a, List.find (fun a => beq (a_id a) g) l = Some a /\ a_global a = true.
Definition has_global (c : cmd) (g : id) : Prop := has_global_in (c_args c) g.

Lemma has_global_in_pos : forall l l' g,
  map a_id l = map a_id l' -> map a_global l = map a_global l' -> has_global_in l g -> has_global_in l' g.
Proof.
  induction l as [|a t IH]; intros [|a' t'] g Hi Hg [x [Hf Hx]]; cbn [map] in *; try discriminate.
  inversion Hi as [[Hi1 Hi2]]. inversion Hg as [[Hg1 Hg2]]. unfold has_global_in. cbn [List.find] in *.
  rewrite <- Hi1. destruct (beq (a_id a) g).
  - inversion Hf; subst x. exists a'. split; [reflexivity | congruence].
  - apply (IH t' g Hi2 Hg2). exists x. auto.
Qed.
Lemma has_global_in_app l l' g : has_global_in l g -> has_global_in (l ++ l') g.
Proof. intros [a [Hf Ha]]. exists a. split; [apply find_app_l; exact Hf | exact Ha]. Qed.
Lemma has_global_in_In l g : has_global_in l g -> exists a, In a l /\ a_id a = g /\ a_global a = true.
Proof. intros [a [Hf Ha]]. apply find_some_in in Hf. destruct Hf as [H1 H2]. apply beq_eq in H2. eauto. Qed.

Lemma map_map_ids c h l :
  map a_id (map (bs_deprecated_arg c h) l) = map a_id l /\ map a_global (map (bs_deprecated_arg c h) l) = map a_global l.
Proof.
  induction l as [|a t [IH1 IH2]]; cbn [map]; [split; reflexivity|].
  destruct (bs_deprecated_arg_id c h a) as [H1 H2]. rewrite H1, H2, IH1, IH2. split; reflexivity.
Qed.

(** the arguments of [build_self c0] are, id by id and flag by flag, those present when
    [_propagate_global_args] ran *)
Definition pre_globals (c0 : cmd) : cmd := bs_help_version (bs_propagate (bs_settings c0)).

Lemma c_args_mark x : c_args (bs_mark x) = c_args x. Proof. reflexivity. Qed.
Lemma c_args_deprecated x : c_args (bs_deprecated x) =
  map (bs_deprecated_arg x (fold_left (fun m a => match a_index a with Some n => N.max m n | None => m end) (c_args x) 0)) (c_args x).
Proof. reflexivity. Qed.
Lemma c_args_args x : c_args (bs_args x) = fst (build_args (c_args x) (c_groups x) 1). Proof. reflexivity. Qed.
Lemma c_args_globals x : c_args (bs_globals x) = c_args x. Proof. reflexivity. Qed.
Lemma c_subs_mark x : c_subs (bs_mark x) = c_subs x. Proof. reflexivity. Qed.
Lemma c_subs_deprecated x : c_subs (bs_deprecated x) = c_subs x. Proof. reflexivity. Qed.
Lemma c_subs_args x : c_subs (bs_args x) = c_subs x. Proof. reflexivity. Qed.
Lemma dhs_mark x : is_set s_disable_help_sub (bs_mark x) = is_set s_disable_help_sub x. Proof. reflexivity. Qed.
Lemma dhs_deprecated x : is_set s_disable_help_sub (bs_deprecated x) = is_set s_disable_help_sub x. Proof. reflexivity. Qed.
Lemma dhs_args x : is_set s_disable_help_sub (bs_args x) = is_set s_disable_help_sub x. Proof. reflexivity. Qed.
Lemma dhs_globals x : is_set s_disable_help_sub (bs_globals x) = is_set s_disable_help_sub x. Proof. reflexivity. Qed.

Lemma build_self_unbuilt c0 : s_built (c_set c0) = false ->
  build_self c0 = bs_mark (bs_deprecated (bs_args (bs_globals (pre_globals c0)))).
Proof. intros Hb. unfold build_self, pre_globals. rewrite Hb. reflexivity. Qed.

Lemma build_self_args_ids c0 : s_built (c_set c0) = false ->
  map a_id (c_args (build_self c0)) = map a_id (c_args (pre_globals c0)) /\
  map a_global (c_args (build_self c0)) = map a_global (c_args (pre_globals c0)).
Proof.
  intros Hb. rewrite (build_self_unbuilt c0 Hb).
  generalize (pre_globals c0). intros X.
  rewrite c_args_mark, c_args_deprecated.
  destruct (map_map_ids (bs_args (bs_globals X))
              (fold_left (fun m a => match a_index a with Some n => N.max m n | None => m end)
                         (c_args (bs_args (bs_globals X))) 0)
              (c_args (bs_args (bs_globals X)))) as [H1 H2].
  rewrite H1, H2, c_args_args.
  destruct (build_args_ids (c_args (bs_globals X)) (c_groups (bs_globals X)) 1) as [H3 H4].
  rewrite H3, H4, c_args_globals. split; reflexivity.
Qed.

Lemma build_self_subs c0 : s_built (c_set c0) = false -> c_subs (build_self c0) = c_subs (bs_globals (pre_globals c0)).
Proof. intros Hb. rewrite (build_self_unbuilt c0 Hb). rewrite c_subs_mark, c_subs_deprecated, c_subs_args. reflexivity. Qed.

Lemma build_self_help_sub c0 : s_built (c_set c0) = false ->
  is_set s_disable_help_sub (build_self c0) = is_set s_disable_help_sub (pre_globals c0).
Proof. intros Hb. rewrite (build_self_unbuilt c0 Hb). rewrite dhs_mark, dhs_deprecated, dhs_args, dhs_globals. reflexivity. Qed.

(** a freshly built command: each of its global arguments is findable in each of its subcommands *)
Theorem build_self_copies c0 g sc' :
  s_built (c_set c0) = false -> has_global (build_self c0) g ->
  In sc' (c_subs (build_self c0)) -> auto_help (build_self c0) sc' = false ->
  exists a', find_arg sc' g = Some a'.
Proof.
  intros Hb Hg Hin Hh.
  destruct (build_self_args_ids c0 Hb) as [H1 H2].
  pose proof (build_self_subs c0 Hb) as H3. pose proof (build_self_help_sub c0 Hb) as H4.
  revert Hg Hin Hh H1 H2 H3 H4. generalize (build_self c0) (pre_globals c0).
  intros B X Hg Hin Hh H1 H2 H3 H4.
  unfold has_global in Hg.
  pose proof (has_global_in_pos _ _ g H1 H2 Hg) as Hg'.
  apply has_global_in_In in Hg'. destruct Hg' as [a [Ha [Hid Hgl]]].
  rewrite H3 in Hin.
  assert (Hh' : auto_help X sc' = false) by (unfold auto_help in *; rewrite <- H4; exact Hh).
  destruct (bs_globals_copies X a sc' Ha Hgl Hin Hh') as [sc [a' [_ [_ [Hf _]]]]].
  rewrite Hid in Hf. eauto.
Qed.

(** [_build_subcommand] keeps what the parent's propagation put into the child *)
Theorem build_subcommand_keeps c n sc0 sc' g :
  List.find (fun s => beq (c_name s) n) (c_subs c) = Some sc0 ->
  build_subcommand c n = Some sc' ->
  has_global sc0 g -> has_global sc' g.
Proof.
  intros Hf Hb Hg. unfold build_subcommand in Hb. rewrite Hf in Hb. inversion Hb as [Hsc]. clear Hb.
  set (sc1 := match c_display_name _ with Some _ => _ | None => _ end) in *.
  assert (Hargs : c_args sc1 = c_args sc0) by (subst sc1; destruct (c_display_name _); reflexivity).
  assert (Hg1 : has_global sc1 g) by (unfold has_global; rewrite Hargs; exact Hg).
  destruct (s_built (c_set sc1)) eqn:Ebuilt.
  - unfold build_self. rewrite Ebuilt. exact Hg1.
  - destruct (build_self_args_ids sc1 Ebuilt) as [H1 H2]. unfold has_global.
    apply (has_global_in_pos (c_args (pre_globals sc1)) _ g); [symmetry; exact H1 | symmetry; exact H2|].
    unfold pre_globals, bs_help_version.
    assert (Hbase : has_global_in (c_args (bs_propagate (bs_settings sc1))) g).
    { unfold has_global in Hg1. unfold bs_propagate, bs_settings.
      repeat match goal with |- context [if ?x then _ else _] => destruct x end; exact Hg1. }
    repeat match goal with |- context [if ?x then _ else _] => destruct x end; cbn;
      repeat apply has_global_in_app; exact Hbase.
Qed.

(** to every depth: follow [_build_subcommand] down a path of subcommand names.  The side
    conditions of a step: the child is not the auto-generated help subcommand, it does not
    redefine [g] as a non-global argument, and it was not built before. *)
Inductive gpath (g : id) : cmd -> list bytes -> cmd -> Prop :=
| gp_nil c : gpath g c [] c
| gp_cons c n sc0 sc' names c' :
    List.find (fun s => beq (c_name s) n) (c_subs c) = Some sc0 ->
    auto_help c sc0 = false ->
    (forall a', find_arg sc0 g = Some a' -> a_global a' = true) ->
    s_built (c_set sc0) = false ->
    build_subcommand c n = Some sc' ->
    gpath g sc' names c' ->
    gpath g c (n :: names) c'.

Theorem defs_copied_deep g : forall c names c', gpath g c names c' ->
  (exists c0, c = build_self c0 /\ s_built (c_set c0) = false) ->
  has_global c g -> has_global c' g.
Proof.
  induction 1 as [c|c n sc0 sc' names c' Hf Hh Hns Hb Hbs Hp IH]; intros [c0 [Hc Hb0]] Hg; [exact Hg|].
  apply IH.
  - unfold build_subcommand in Hbs. rewrite Hf in Hbs. inversion Hbs as [Hsc]. eexists. split; [reflexivity|].
    destruct (c_display_name sc0); exact Hb.
  - apply (build_subcommand_keeps c n sc0 sc' g Hf Hbs).
    pose proof (find_some_in _ _ _ Hf) as [Hin _]. subst c.
    destruct (build_self_copies c0 g sc0 Hb0 Hg Hin Hh) as [a' Ha'].
    exists a'. split; [exact Ha' | exact (Hns a' Ha')].
Qed.

(** * Witnesses: the two recorded flag-cluster findings, and a three-level example *)
Definition b1 (x : N) : bytes := [x].
Definition ex_flag (i s : N) : arg := (arg_new (b1 i)) <| a_short := Some s |> <| a_action := Some ASetTrue |>.
Definition ex_opt (i s : N) (glob : bool) (d : list bytes) : arg :=
  (arg_new (b1 i)) <| a_short := Some s |> <| a_action := Some ASet |> <| a_global := glob |> <| a_default := d |>.

(** root(-v) -> sync(-S; -y) *)
Definition ex_prefix : cmd :=
  (cmd_new (b1 112)) <| c_args := [ex_flag 118 118] |>
    <| c_subs := [(cmd_new [115; 121; 110; 99]) <| c_short_flag := Some 83 |> <| c_args := [ex_flag 121 121] |>] |>.
(** root -> a(-A; -v) -> b(-B; -l -x) *)
Definition ex_stale : cmd :=
  (cmd_new (b1 112)) <| c_subs :=
    [(cmd_new (b1 97)) <| c_short_flag := Some 65 |> <| c_args := [ex_flag 118 118] |>
       <| c_subs := [(cmd_new (b1 98)) <| c_short_flag := Some 66 |> <| c_args := [ex_flag 108 108; ex_flag 120 120] |>] |>] |>.

Definition out_chain (o : outcome) : option (list bytes) := match o with OOk m => Some (chain m) | _ => None end.
Definition out_err (o : outcome) : option ekind := match o with OErr e => Some (e_kind e) | _ => None end.

(** `p -v -Sy` selects [sync]; `p -vSy` (parent flag before the letter, letters after it) is rejected *)
Theorem prefix_refuted :
  out_chain (parse_top ex_prefix [b1 112; [45; 118]; [45; 83; 121]]) = Some [[115; 121; 110; 99]] /\
  out_err (parse_top ex_prefix [b1 112; [45; 118; 83; 121]]) = Some EUnknownArgument.
Proof. split; vm_compute; reflexivity. Qed.

(** `p -Av -B -lx` selects [a; b]; `p -Av -Blx` (a second continued cluster) is rejected *)
Theorem stale_at_refuted :
  out_chain (parse_top ex_stale [b1 112; [45; 65; 118]; [45; 66]; [45; 108; 120]]) = Some [b1 97; b1 98] /\
  out_err (parse_top ex_stale [b1 112; [45; 65; 118]; [45; 66; 108; 120]]) = Some EUnknownArgument.
Proof. split; vm_compute; reflexivity. Qed.

(** a three-level tree with a global option defined at the root (default d), an alias, a short and
    a long flag-subcommand and an external subcommand *)
Definition ex_tree : cmd :=
  (cmd_new (b1 112)) <| c_args := [ex_opt 103 103 true [b1 100]; ex_flag 118 118] |>
    <| c_subs :=
      [(cmd_new [115; 121; 110; 99]) <| c_aliases := [([115; 121], true)] |> <| c_short_flag := Some 83 |>
         <| c_long_flag := Some [115; 102] |> <| c_args := [ex_flag 121 121] |>
         <| c_subs := [(cmd_new (b1 113)) <| c_short_flag := Some 81 |> <| c_args := [ex_flag 122 122] |>
                         <| c_set := settings_none <| s_allow_external := true |> |>] |>] |>.

(** `p sy -Qz -g w`: alias, nested short flag-subcommand, the global given at the deepest level *)
Example ex_tree_parse :
  match parse_top ex_tree [b1 112; [115; 121]; [45; 81; 122]; [45; 103]; b1 119] with
  | OOk m => chain m = [[115; 121; 110; 99]; b1 113] /\
             map (fun lv => opt_map (fun e => (m_source e, m_raw e)) (fm_get (b1 103) lv)) (levels m)
             = [Some (Some SCmdLine, [[b1 119]]); Some (Some SCmdLine, [[b1 119]]); Some (Some SCmdLine, [[b1 119]])]
  | _ => False
  end.
Proof. vm_compute. split; reflexivity. Qed.

(** `p -Sy tool -- -x`: cluster, then an external subcommand with its arguments verbatim *)
Example ex_tree_external :
  match parse_top ex_tree [b1 112; [45; 83; 81]; [116]; [45; 45]; [45; 120]] with
  | OOk m => chain m = [[115; 121; 110; 99]; b1 113; [116]] /\
             nth_error (levels m) 3 <> None
  | _ => False
  end.
Proof. vm_compute. split; [reflexivity | discriminate]. Qed.

(** non-vacuity of the hypotheses of the step theorems on [build_self ex_tree] *)
Example dispatch_by_name_nonvacuous :
  let c := build_self ex_tree in
  exists sc, utf8_valid [115; 121] = true /\ is_set s_infer_sub c = false /\
    (is_set s_args_negate_subs c && false) = false /\ find_subcommand c [115; 121] = Some sc /\
    (beq (c_name sc) s_help && negb (is_set s_disable_help_sub c)) = false /\ c_name sc = [115; 121; 110; 99].
Proof. vm_compute. eexists. repeat split; reflexivity. Qed.

Example dispatch_flag_cluster_first_nonvacuous :
  let c := build_self ex_tree in let tok := [45; 83; 121] in
  possible_subcommand c tok false = None /\ is_escape tok = false /\ to_long tok = None /\
  to_short tok = Some [83; 121] /\ sf_next [83; 121] = Some (inl 83, [121]) /\
  get_short c 83 = None /\ find_short_subcmd c 83 = Some [115; 121; 110; 99] /\
  mt_pending (mt ps_new) = None /\ fs_skip ps_new = 0 /\ fs_at ps_new = None /\ no_hyphen_pos c 1.
Proof. vm_compute. repeat split; reflexivity. Qed.

Example dispatch_long_flag_nonvacuous :
  let c := build_self ex_tree in let tok := [45; 45; 115; 102] in
  possible_subcommand c tok false = None /\ is_escape tok = false /\ to_long tok = Some ([115; 102], true, None) /\
  get_long c [115; 102] = None /\ is_set s_infer_long c = false /\
  possible_long_flag_subcommand c [115; 102] = Some [115; 121; 110; 99].
Proof. vm_compute. repeat split; reflexivity. Qed.

Example gmw_step_nonvacuous :
  exists st, get_matches_with 5 (build_self ex_tree) [[115; 121]; [45; 81; 122]] ps_new = ROk st.
Proof. vm_compute. eexists. reflexivity. Qed.

Example gpath_nonvacuous :
  exists c', gpath (b1 103) (build_self ex_tree) [[115; 121; 110; 99]; b1 113] c' /\
             has_global (build_self ex_tree) (b1 103).
Proof.
  eexists. split.
  - eapply gp_cons; [vm_compute; reflexivity | vm_compute; reflexivity | vm_compute; intros a' H; inversion H; reflexivity
                    | vm_compute; reflexivity | vm_compute; reflexivity |].
    eapply gp_cons; [vm_compute; reflexivity | vm_compute; reflexivity | vm_compute; intros a' H; inversion H; reflexivity
                    | vm_compute; reflexivity | vm_compute; reflexivity |].
    apply gp_nil.
  - vm_compute. eexists. split; reflexivity.
Qed.

Example globals_merge_nonvacuous :
  let e_def := mkMarg (Some SDefault) [1] [[b1 100]] false false in
  let e_cmd := mkMarg (Some SCmdLine) [2] [[b1 119]] false false in
  let m := Matches [(b1 103, e_def)] (Some (b1 115, Matches [(b1 103, e_cmd)] (Some (b1 113, Matches [(b1 103, e_def)] None)))) in
  (matches_depth m <= 4)%nat /\ mem_id (b1 103) [b1 103; b1 103] = true /\
  In (Some e_def) (map (fm_get (b1 103)) (levels m)) /\
  map (fm_get (b1 103)) (levels (fst (filled 4 [b1 103; b1 103] m))) = [Some e_cmd; Some e_cmd; Some e_cmd].
Proof. vm_compute. repeat split; auto. Qed.
