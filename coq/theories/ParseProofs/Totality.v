(** Totality-related facts about the parser model (property C01). *)
From ClapModel Require Import Base.Bytes Base.Machine Base.Utf8.
From ClapModel Require Import Parse.Cmd Parse.Build Parse.Valid Parse.Matcher Parse.Errors Parse.Validator Parse.Parser.
From ClapModel Require Import ParseProofs.Safe.
From Coq Require Import ZArith Lia.
From RecordUpdate Require Import RecordSet.
Import RecordSetNotations.
Open Scope N_scope.

(** * [Arg::_build] fills in action, value count and value parser *)
Lemma ab_action_spec a : a_action (ab_action a) <> None.
Proof. unfold ab_action. destruct (a_action a) eqn:E; [rewrite E; discriminate | cbn; discriminate]. Qed.
Lemma ab_default_action a : a_action (ab_default a) = a_action a.
Proof. unfold ab_default. destruct (action_default_value _); [destruct (is_nil _)|]; reflexivity. Qed.
Lemma ab_dmissing_action a : a_action (ab_dmissing a) = a_action a.
Proof. unfold ab_dmissing. destruct (action_default_missing_value _); [destruct (is_nil _)|]; reflexivity. Qed.
Lemma ab_vp_action a : a_action (ab_vp a) = a_action a.
Proof. unfold ab_vp. destruct (a_vp a); reflexivity. Qed.
Lemma ab_vp_spec a : a_vp (ab_vp a) <> None.
Proof. unfold ab_vp. destruct (a_vp a) eqn:E; [rewrite E; discriminate | cbn; discriminate]. Qed.
Lemma ab_num_action a : a_action (ab_num a) = a_action a.
Proof. unfold ab_num. destruct (a_num a); [|destruct (1 <? _)]; reflexivity. Qed.
Lemma ab_num_vp a : a_vp (ab_num a) = a_vp a.
Proof. unfold ab_num. destruct (a_num a); [|destruct (1 <? _)]; reflexivity. Qed.
Lemma ab_num_spec a : a_num (ab_num a) <> None.
Proof. unfold ab_num. destruct (a_num a) eqn:E; [rewrite E; discriminate|destruct (1 <? _); cbn; discriminate]. Qed.

Lemma arg_build_complete a : arg_complete (arg_build a).
Proof.
  unfold arg_complete, arg_build. split; [|split].
  - rewrite ab_num_action, ab_vp_action, ab_dmissing_action, ab_default_action. apply ab_action_spec.
  - apply ab_num_spec.
  - rewrite ab_num_vp. apply ab_vp_spec.
Qed.

Lemma build_args_complete : forall args groups pc a,
  In a (fst (build_args args groups pc)) -> arg_complete a.
Proof.
  induction args as [|x t IH]; intros groups pc a; cbn [build_args fst]; [intros []|].
  set (groups' := add_arg_to_groups (a_id x) (a_groups x) groups).
  pose proof (arg_build_complete x) as Hc.
  destruct (a_is_positional (arg_build x) && negb (is_some (a_index (arg_build x)))) eqn:E.
  - destruct (build_args t groups' (pc + 1)) as [t' g'] eqn:Eb. cbn [fst].
    intros [<-|Hin].
    + unfold arg_complete in *. cbn. exact Hc.
    + apply (IH groups' (pc + 1)). rewrite Eb. exact Hin.
  - destruct (build_args t groups' pc) as [t' g'] eqn:Eb. cbn [fst].
    intros [<-|Hin]; [exact Hc|]. apply (IH groups' pc). rewrite Eb. exact Hin.
Qed.

(** every argument of a freshly built command is complete: the [expect]s on
    [get_num_args()] (parser.rs 1029, 1333, arg_matcher needs_more_vals) and on the value
    parser (1101) cannot fail *)
Lemma bs_deprecated_arg_complete c h a : arg_complete a -> arg_complete (bs_deprecated_arg c h a).
Proof.
  unfold arg_complete, bs_deprecated_arg. intros H.
  repeat match goal with |- context [if ?x then _ else _] => destruct x end; cbn; exact H.
Qed.

Lemma c_args_bs_mark c : c_args (bs_mark c) = c_args c.
Proof. reflexivity. Qed.
Lemma c_args_bs_deprecated c :
  c_args (bs_deprecated c) =
  map (bs_deprecated_arg c (fold_left (fun m a => match a_index a with Some n => N.max m n | None => m end) (c_args c) 0))
      (c_args c).
Proof. reflexivity. Qed.
Lemma c_args_bs_args c : c_args (bs_args c) = fst (build_args (c_args c) (c_groups c) 1).
Proof. reflexivity. Qed.

Theorem build_self_args_complete c a :
  s_built (c_set c) = false -> In a (c_args (build_self c)) -> arg_complete a.
Proof.
  intros Hb. unfold build_self. rewrite Hb.
  rewrite c_args_bs_mark, c_args_bs_deprecated.
  intros Hin. apply in_map_iff in Hin. destruct Hin as [b [<- Hb']].
  apply bs_deprecated_arg_complete.
  rewrite c_args_bs_args in Hb'.
  apply (build_args_complete _ _ _ b Hb').
Qed.

(** * The short-cluster walk terminates within its fuel *)
Lemma sf_any_unknown_total c : forall fuel r, (length r < fuel)%nat ->
  forall fuel', (length r < fuel')%nat -> sf_any_unknown c fuel r = sf_any_unknown c fuel' r.
Proof.
  induction fuel as [|f IH]; intros r Hl fuel' Hl'; [lia|].
  destruct fuel' as [|f']; [lia|]. cbn [sf_any_unknown].
  destruct (sf_next r) as [[[ch|rest] r']|] eqn:E; try reflexivity.
  apply sf_next_shrinks in E. f_equal. apply IH; lia.
Qed.

(** * Error-ignoring: every stderr-class error is swallowed by [_do_parse] *)
Theorem do_parse_ignore_errors c toks :
  is_set s_ignore_errors (build_self c) = true ->
  match do_parse c toks with
  | OOk _ => True
  | OErr e => e_kind e = EDisplayHelp \/ e_kind e = EDisplayVersion
  | OPanicked _ | OOutOfFuel | OInvalidConfig => True
  end.
Proof.
  intros Hig. unfold do_parse. destruct (valid c); cbn [negb]; [|exact I].
  destruct (get_matches_with _ _ _ _) as [st|e st|s]; [exact I| |destruct s; exact I].
  rewrite Hig. cbn [andb].
  destruct (e_kind e) eqn:K; cbn; try exact I; rewrite K; auto.
Qed.
