(** Totality-related facts about the parser model (property C01). *)
From ClapModel Require Import Base.Bytes Base.Machine Base.Utf8.
From ClapModel Require Import Parse.Cmd Parse.Build Parse.Valid Parse.Matcher Parse.Errors Parse.Validator Parse.Parser.
From ClapModel Require Import ParseProofs.Safe.
From Coq Require Import ZArith Lia.
From RecordUpdate Require Import RecordSet.
Import RecordSetNotations.
Open Scope N_scope.

(** * [Arg::_build] fills in action, value count and value parser *)
Lemma ab_action_spec a : a_action (ab_action a) <> None.
Proof. unfold ab_action. destruct (a_action a) eqn:E; [rewrite E; discriminate | cbn; discriminate]. Qed.
Lemma ab_default_action a : a_action (ab_default a) = a_action a.
Proof. unfold ab_default. destruct (action_default_value _); [destruct (is_nil _)|]; reflexivity. Qed.
Lemma ab_dmissing_action a : a_action (ab_dmissing a) = a_action a.
Proof. unfold ab_dmissing. destruct (action_default_missing_value _); [destruct (is_nil _)|]; reflexivity. Qed.
Lemma ab_vp_action a : a_action (ab_vp a) = a_action a.
Proof. unfold ab_vp. destruct (a_vp a); reflexivity. Qed.
Lemma ab_vp_spec a : a_vp (ab_vp a) <> None.
Proof. unfold ab_vp. destruct (a_vp a) eqn:E; [rewrite E; discriminate | cbn; discriminate]. Qed.
Lemma ab_num_action a : a_action (ab_num a) = a_action a.
Proof. unfold ab_num. destruct (a_num a); [|destruct (1 <? _)]; reflexivity. Qed.
Lemma ab_num_vp a : a_vp (ab_num a) = a_vp a.
Proof. unfold ab_num. destruct (a_num a); [|destruct (1 <? _)]; reflexivity. Qed.
Lemma ab_num_spec a : a_num (ab_num a) <> None.
Proof. unfold ab_num. destruct (a_num a) eqn:E; [rewrite E; discriminate|destruct (1 <? _); cbn; discriminate]. Qed.

Lemma arg_build_complete a : arg_complete (arg_build a).
Proof.
  unfold arg_complete, arg_build. split; [|split].
  - rewrite ab_num_action, ab_vp_action, ab_dmissing_action, ab_default_action. apply ab_action_spec.
  - apply ab_num_spec.
  - rewrite ab_num_vp. apply ab_vp_spec.
Qed.

Lemma build_args_complete : forall args groups pc a,
  In a (fst (build_args args groups pc)) -> arg_complete a.
Proof.
  induction args as [|x t IH]; intros groups pc a; cbn [build_args fst]; [intros []|].
  set (groups' := add_arg_to_groups (a_id x) (a_groups x) groups).
  pose proof (arg_build_complete x) as Hc.
  destruct (a_is_positional (arg_build x) && negb (is_some (a_index (arg_build x)))) eqn:E.
  - destruct (build_args t groups' (pc + 1)) as [t' g'] eqn:Eb. cbn [fst].
    intros [<-|Hin].
    + unfold arg_complete in *. cbn. exact Hc.
    + apply (IH groups' (pc + 1)). rewrite Eb. exact Hin.
  - destruct (build_args t groups' pc) as [t' g'] eqn:Eb. cbn [fst].
    intros [<-|Hin]; [exact Hc|]. apply (IH groups' pc). rewrite Eb. exact Hin.
Qed.

(** every argument of a freshly built command is complete: the [expect]s on
    [get_num_args()] (parser.rs 1029, 1333, arg_matcher needs_more_vals) and on the value
    parser (1101) cannot fail *)
Lemma bs_deprecated_arg_complete c h a : arg_complete a -> arg_complete (bs_deprecated_arg c h a).
Proof.
  unfold arg_complete, bs_deprecated_arg. intros H.
  repeat match goal with |- context [if ?x then _ else _] => destruct x end; cbn; exact H.
Qed.

Lemma c_args_bs_mark c : c_args (bs_mark c) = c_args c.
Proof. reflexivity. Qed.
Lemma c_args_bs_deprecated c :
  c_args (bs_deprecated c) =
  map (bs_deprecated_arg c (fold_left (fun m a => match a_index a with Some n => N.max m n | None => m end) (c_args c) 0))
      (c_args c).
Proof. reflexivity. Qed.
Lemma c_args_bs_args c : c_args (bs_args c) = fst (build_args (c_args c) (c_groups c) 1).
Proof. reflexivity. Qed.

Theorem build_self_args_complete c a :
  s_built (c_set c) = false -> In a (c_args (build_self c)) -> arg_complete a.
Proof.
  intros Hb. unfold build_self. rewrite Hb.
  rewrite c_args_bs_mark, c_args_bs_deprecated.
  intros Hin. apply in_map_iff in Hin. destruct Hin as [b [<- Hb']].
  apply bs_deprecated_arg_complete.
  rewrite c_args_bs_args in Hb'.
  apply (build_args_complete _ _ _ b Hb').
Qed.

(** * The short-cluster walk terminates within its fuel *)
Lemma sf_any_unknown_total c : forall fuel r, (length r < fuel)%nat ->
  forall fuel', (length r < fuel')%nat -> sf_any_unknown c fuel r = sf_any_unknown c fuel' r.
Proof.
  induction fuel as [|f IH]; intros r Hl fuel' Hl'; [lia|].
  destruct fuel' as [|f']; [lia|]. cbn [sf_any_unknown].
  destruct (sf_next r) as [[[ch|rest] r']|] eqn:E; try reflexivity.
  apply sf_next_shrinks in E. f_equal. apply IH; lia.
Qed.

(** * Error-ignoring: every stderr-class error is swallowed by [_do_parse] *)
Theorem do_parse_ignore_errors c toks :
  is_set s_ignore_errors (build_self c) = true ->
  match do_parse c toks with
  | OOk _ => True
  | OErr e => e_kind e = EDisplayHelp \/ e_kind e = EDisplayVersion
  | OPanicked _ | OOutOfFuel | OInvalidConfig => True
  end.
Proof.
  intros Hig. unfold do_parse. destruct (valid c); cbn [negb]; [|exact I].
  destruct (get_matches_with _ _ _ _) as [st|e st|s]; [exact I| |destruct s; exact I].
  rewrite Hig. cbn [andb].
  destruct (e_kind e) eqn:K; cbn; try exact I; rewrite K; auto.
Qed.

(** * Totality across the command tree *)
From ClapModel Require Import ParseProofs.Invariant.

(** the per-level facts used by Invariant.v *)
Definition wfc (c : cmd) : Prop :=
  (forall a, In a (c_args c) -> arg_complete a)
  /\ (forall a, In a (c_args c) -> a_index a <> None -> a_is_positional a = true)
  /\ (forall a, In a (c_args c) -> find_arg c (a_id a) = Some a)
  /\ (forall ch, find_short_subcmd c ch = None)
  /\ (forall a, In a (c_args c) -> a_is_positional a = true -> a_index a <> None).

(** a state predicate closed under the primitive matcher operations (see Invariant.v); [V] is the
    provenance predicate on values that the "push a value" operation may rely on *)
Definition closedP (c : cmd) (V : bytes -> Prop) (P : list (id * marg) -> N -> Prop) : Prop :=
  (forall l k, P l k -> P l (k + 1))
  /\ (forall l k i, P l k -> P (fst (fm_remove i l)) k)
  /\ (forall l k i ic grp s, P l k ->
        P (fm_entry_or_insert i (marg_new ic grp) (fun m => new_val_group (set_source s m)) l) k)
  /\ (forall l k i j m m' v, In i (groups_for_arg c j) ->
        P l k -> fm_get i l = Some m -> append_val v m = Some m' ->
        P (fm_update i (fun _ => m') l) k)
  /\ (forall l k i m m' v, V v -> P l k -> fm_get i l = Some m -> append_val v m = Some m' ->
        P (fm_update i (push_index (k + 1)) (fm_update i (fun _ => m') l)) (k + 1))
  /\ P [] 0.

(** what a provenance predicate must admit at one level: the action literals, the pieces of an
    admitted value, and the values the definition itself declares *)
Definition Vok (c : cmd) (V : bytes -> Prop) : Prop :=
  V s_true /\ V s_false /\ (forall n, V (n_to_dec n))
  /\ (forall v d l, V v -> Lex.OsStrExtModel.split v d = Lex.OsStrExtModel.SplitOk l -> Forall V l)
  /\ (forall a, In a (c_args c) -> Forall V (a_default_missing a))
  /\ (forall a, In a (c_args c) -> Forall V (a_default a))
  /\ (forall a v, In a (c_args c) -> a_env a = Some v -> V v)
  /\ (forall a i p d, In a (c_args c) -> In (i, p, Some d) (a_default_ifs a) -> V d).

(** what the tree must satisfy, level by level, along every chain of built subcommands *)
Fixpoint tree_ok (fuel : nat) (c : cmd) : Prop :=
  match fuel with
  | O => False
  | S f => wfc c /\ assert_app c = true
           /\ forall name sc, build_subcommand c name = Some sc -> tree_ok f sc
  end.

Section Tree.
(** predicates indexed by the level (its command and its token list) *)
Variable V : cmd -> list bytes -> bytes -> Prop.
Variable P : cmd -> list bytes -> list (id * marg) -> N -> Prop.
Hypothesis HP : forall c toks, closedP c (V c toks) (P c toks).
Hypothesis HV : forall c toks, Vok c (V c toks) /\ Forall (fun tok => forall n, V c toks (skipn n tok)) toks.
(** the validator's own panic sites (validator.rs) are dealt with separately *)
Hypothesis validate_total : forall c m, wfc c -> assert_app c = true ->
  entries_ok c (mt_args m) -> forall s, validate c m <> VPanic s.

Lemma gmw_safe : forall fuel c toks st0, tree_ok fuel c -> G c (P c toks) (V c toks) st0 ->
  safe (G c (P c toks) (V c toks)) (G c (P c toks) (V c toks)) (get_matches_with fuel c toks st0).
Proof.
  induction fuel as [|f IH]; intros c toks st0 Hok HG; [destruct Hok|].
  destruct (HP c toks) as [PC1 [PC2 [PC3 [PC4 [PC5 PC0]]]]].
  destruct (HV c toks) as [[V1 [V2 [V3 [V4 [V5 [V6 [V7 V8]]]]]]] HVtoks].
  destruct Hok as [Hwf [Happ Hch]]. pose proof Hwf as [W1 [W2 [W3 [W4 W5]]]].
  cbn [get_matches_with].
  match goal with |- safe _ _ (match ?pp with ROk _ => _ | RErr _ _ => _ | RPanic _ => _ end) => set (parsed := pp) end.
  assert (Hparsed : safe (G c (P c toks) (V c toks)) (G c (P c toks) (V c toks)) parsed).
  { subst parsed. eapply safe_bind.
    - eapply parse_loop_safe; try eassumption. exact I.
    - intros lr Hlr. destruct lr as [st|name keep vaf st rest|name vals st|names st].
      + exact (proj1 Hlr).
      + destruct Hlr as [HGs [-> [sc0 Hfind]]].
        destruct (is_set s_args_negate_subs c && vaf); [exact HGs|].
        rewrite Hfind. cbn [expect rbind].
        destruct (build_subcommand c (c_name sc0)) as [sc|] eqn:Eb; [|exact HGs].
        pose proof (Hch _ _ Eb) as Hsc.
        destruct f as [|f']; [destruct Hsc|].
        pose proof Hsc as [_ [Happsc _]]. rewrite Happsc. cbn [negb].
        destruct (HP sc rest) as [_ [_ [_ [_ [_ PC0s]]]]].
        pose proof (IH sc rest ps_new Hsc (G_ps_new sc (P sc rest) (V sc rest) PC0s)) as Hsub.
        destruct (get_matches_with (S f') sc rest ps_new) as [sub_st|e sub_st|site]; cbn in Hsub.
        * apply G_set_sub; exact HGs.
        * destruct (is_set s_ignore_errors c); [apply G_set_sub; exact HGs|exact HGs].
        * contradiction.
      + destruct Hlr as [HGs _].
        match goal with |- safe _ _ (rbind ?fl _) => set (filled := fl) end.
        assert (Hfill : match filled with ROk _ => True | RErr _ s => s = st | RPanic _ => False end).
        { subst filled. apply external_fill_safe. cbn.
          eexists. split; [reflexivity|]. cbn. discriminate. }
        destruct filled as [m|e s|x]; cbn [rbind]; [|subst s; exact HGs|contradiction].
        apply G_set_sub; exact HGs.
      + exact (proj1 Hlr). }
  destruct parsed as [st|e st|site]; cbn in Hparsed; [| |contradiction].
  - eapply safe_bind; [eapply resolve_pending_safe; eassumption|].
    intros st1 [HG1 _].
    eapply safe_bind; [eapply add_env_safe; eassumption|].
    intros st2 HG2.
    eapply safe_bind; [eapply add_defaults_safe; eassumption|].
    intros st3 HG3. unfold vres_to_res.
    destruct (validate c (mt st3)) as [|k a|s] eqn:Ev; [exact HG3|exact HG3|].
    exfalso. apply (validate_total c (mt st3) Hwf Happ) with (s := s); [apply HG3|exact Ev].
  - destruct (is_set s_ignore_errors c); [|exact Hparsed].
    (* repaired order: the pending occurrence is stored first (its error, if any, is dropped) *)
    assert (Hr : safe (G c (P c toks) (V c toks)) (G c (P c toks) (V c toks)) (resolve_pending c st)).
    { eapply safe_weaken; [eapply resolve_pending_safe; eassumption|intros a Ha; exact (proj1 Ha)|auto]. }
    destruct (resolve_pending c st) as [s0|e0 s0|x0]; cbn in Hr; [| |contradiction].
    all: assert (He : safe (G c (P c toks) (V c toks)) (G c (P c toks) (V c toks)) (add_env c s0)) by (eapply add_env_safe; eassumption).
    all: destruct (add_env c s0) as [s1|e1 s1|x1]; cbn in He; [| |contradiction].
    all: assert (Hd : safe (G c (P c toks) (V c toks)) (G c (P c toks) (V c toks)) (add_defaults c s1)) by (eapply add_defaults_safe; eassumption).
    all: destruct (add_defaults c s1) as [s2|e2 s2|x2]; cbn in Hd; [exact Hd|exact Hd|contradiction].
Qed.
End Tree.

(** * Discharging the level hypotheses: [build_self] of a definition as users can write it *)

(** [plain x]: no node carries the internal [Built] flag (users cannot set it), and — the class
    this file's totality theorem is stated for — no subcommand has a short flag
    (see the recorded finding on nested short flag-subcommands). *)
Fixpoint plain (x : cmd) : bool :=
  match x with
  | mkCmd _ _ _ _ _ _ _ _ subs set gset _ _ _ _ _ _ _ =>
      negb (s_built set) && negb (s_built gset)
      && (fix go (l : list cmd) : bool :=
            match l with
            | [] => true
            | s :: t => match c_short_flag s with None => true | Some _ => false end
                        && is_nil (c_short_flag_aliases s) && plain s && go t
            end) subs
  end.

Definition nsf (s : cmd) : Prop := c_short_flag s = None /\ c_short_flag_aliases s = [].

Lemma plain_spec x : plain x = true <->
  s_built (c_set x) = false /\ s_built (c_gset x) = false
  /\ forall s, In s (c_subs x) -> nsf s /\ plain s = true.
Proof.
  destruct x as [n al sf lf sfa lfa args groups subs set gset v lv ext bn dn ab lab]. cbn [plain c_set c_gset c_subs].
  set (go := fix go (l : list cmd) : bool :=
            match l with
            | [] => true
            | s :: t => match c_short_flag s with None => true | Some _ => false end
                        && is_nil (c_short_flag_aliases s) && plain s && go t
            end).
  assert (Hgo : forall l, go l = true <-> forall s, In s l -> nsf s /\ plain s = true).
  { induction l as [|s t IH]; cbn [go]; [split; [intros _ s []|reflexivity]|].
    rewrite !Bool.andb_true_iff, IH. unfold nsf. split.
    - intros [[[H1 H2] H3] H4] s' [<-|Hin]; [|apply H4; exact Hin].
      destruct (c_short_flag s); [discriminate|]. destruct (c_short_flag_aliases s); [|discriminate]. auto.
    - intros H. destruct (H s (or_introl eq_refl)) as [[H1 H2] H3]. rewrite H1, H2.
      split; [split; [split; reflexivity|exact H3]|]. intros s' Hs'. apply H. right; exact Hs'. }
  rewrite !Bool.andb_true_iff, !Bool.negb_true_iff, Hgo. tauto.
Qed.

(** ** subcommands of a built command *)
Definition add_globals (globals : list arg) (sc : cmd) : cmd :=
  fold_left (fun sc a => if is_some (find_arg sc (a_id a)) then sc else sc <| c_args := c_args sc ++ [a] |>) globals sc.

Lemma add_globals_frame globals : forall sc,
  c_subs (add_globals globals sc) = c_subs sc /\ c_set (add_globals globals sc) = c_set sc
  /\ c_gset (add_globals globals sc) = c_gset sc /\ c_short_flag (add_globals globals sc) = c_short_flag sc
  /\ c_short_flag_aliases (add_globals globals sc) = c_short_flag_aliases sc
  /\ c_name (add_globals globals sc) = c_name sc.
Proof.
  unfold add_globals. induction globals as [|a t IH]; intros sc; cbn [fold_left]; [repeat split|].
  destruct (is_some (find_arg sc (a_id a))); [apply IH|].
  destruct (IH (sc <| c_args := c_args sc ++ [a] |>)) as [H1 [H2 [H3 [H4 [H5 H6]]]]].
  rewrite H1, H2, H3, H4, H5, H6. repeat split.
Qed.

(** the frame of a child: what [plain] and [nsf] read *)
Definition same_frame (a b : cmd) : Prop :=
  c_subs a = c_subs b /\ c_short_flag a = c_short_flag b /\ c_short_flag_aliases a = c_short_flag_aliases b.

Lemma c_subs_bs_mark c : c_subs (bs_mark c) = c_subs c. Proof. reflexivity. Qed.
Lemma c_subs_bs_deprecated c : c_subs (bs_deprecated c) = c_subs c. Proof. reflexivity. Qed.
Lemma c_subs_bs_args c : c_subs (bs_args c) = c_subs c. Proof. reflexivity. Qed.

Lemma subs_build_self x : s_built (c_set x) = false ->
  forall s, In s (c_subs (build_self x)) ->
  (exists s0, In s0 (c_subs x) /\ same_frame s s0
              /\ s_built (c_set s) = s_built (c_set s0) || s_built (c_gset x)
              /\ s_built (c_gset s) = s_built (c_gset s0) || s_built (c_gset x))
  \/ (c_subs s = [] /\ nsf s /\ s_built (c_set s) = s_built (c_gset x) /\ s_built (c_gset s) = s_built (c_gset x)).
Proof.
  intros Hb s. unfold build_self. rewrite Hb.
  rewrite c_subs_bs_mark, c_subs_bs_deprecated, c_subs_bs_args.
  set (x1 := bs_settings x).
  assert (Hx1 : c_subs x1 = c_subs x /\ c_gset x1 = c_gset x).
  { subst x1. unfold bs_settings.
    repeat match goal with |- context [if ?b then _ else _] => destruct b end; split; reflexivity. }
  destruct Hx1 as [Hs1 Hg1].
  set (x2 := bs_propagate x1). set (x3 := bs_help_version x2).
  unfold bs_globals. cbn [c_subs]. intros Hin.
  change (c_subs (x3 <| c_subs := ?l |>)) with l in Hin.
  apply in_map_iff in Hin. destruct Hin as [s3 [Hs Hin3]].
  (* s3 is a child of x3: a propagated child of x or the help subcommand *)
  assert (H3 : (exists s0, In s0 (c_subs x) /\ s3 = propagate_subcommand x1 s0)
               \/ s3 = fix_help_unset (help_subcommand (if negb (is_disable_version_flag_set
                      (if negb (is_set s_disable_help_flag x2) then x2 <| c_args := c_args x2 ++ [help_arg] |> else x2))
                      then (if negb (is_set s_disable_help_flag x2) then x2 <| c_args := c_args x2 ++ [help_arg] |> else x2)
                           <| c_args := c_args (if negb (is_set s_disable_help_flag x2) then x2 <| c_args := c_args x2 ++ [help_arg] |> else x2) ++ [version_arg] |>
                      else (if negb (is_set s_disable_help_flag x2) then x2 <| c_args := c_args x2 ++ [help_arg] |> else x2)))).
  { subst x3. unfold bs_help_version in Hin3.
    set (y1 := if negb (is_set s_disable_help_flag x2) then x2 <| c_args := c_args x2 ++ [help_arg] |> else x2) in *.
    set (y2 := if negb (is_disable_version_flag_set y1) then y1 <| c_args := c_args y1 ++ [version_arg] |> else y1) in *.
    assert (Hy2 : c_subs y2 = map (propagate_subcommand x1) (c_subs x1)).
    { subst y2 y1 x2. unfold bs_propagate.
      repeat match goal with |- context [if ?b then _ else _] => destruct b end; reflexivity. }
    destruct (negb (is_set s_disable_help_sub y2)).
    - cbn [c_subs] in Hin3. change (c_subs (y2 <| c_subs := ?l |>)) with l in Hin3.
      rewrite Hy2 in Hin3. apply in_app_or in Hin3. destruct Hin3 as [Hin3|[Hin3|[]]].
      + apply in_map_iff in Hin3. destruct Hin3 as [s0 [<- Hin0]]. left. exists s0. rewrite <- Hs1. auto.
      + right. rewrite <- Hin3. reflexivity.
    - rewrite Hy2 in Hin3. apply in_map_iff in Hin3. destruct Hin3 as [s0 [<- Hin0]]. left. exists s0. rewrite <- Hs1. auto. }
  (* the globals step keeps the frame *)
  assert (Hfr : same_frame s s3 /\ c_set s = c_set s3 /\ c_gset s = c_gset s3).
  { rewrite <- Hs. destruct (beq (c_name s3) s_help && negb (is_set s_disable_help_sub x3)); [repeat split|].
    destruct (add_globals_frame (filter a_global (c_args x3)) s3) as [H1 [H2 [H3' [H4 [H5 _]]]]].
    unfold add_globals in *. repeat split; assumption. }
  destruct Hfr as [[Hf1 [Hf2 Hf3]] [Hf4 Hf5]].
  destruct H3 as [[s0 [Hin0 Heq]]|Heq]; subst s3.
  - left. exists s0. split; [exact Hin0|]. rewrite Hf4, Hf5. unfold same_frame. rewrite Hf1, Hf2, Hf3.
    unfold propagate_subcommand.
    destruct (s_propagate_version (c_set x1));
      repeat match goal with |- context [match ?o with Some _ => _ | None => _ end] => destruct o end;
      cbn; rewrite ?Hg1; repeat split; reflexivity.
  - right. rewrite Hf1, Hf4, Hf5. unfold nsf. rewrite Hf2, Hf3.
    match goal with |- context [help_subcommand ?y] => set (yy := y) end.
    assert (Hgy : c_gset yy = c_gset x).
    { subst yy x2. unfold bs_propagate.
      repeat match goal with |- context [if ?b then _ else _] => destruct b end; cbn; exact Hg1. }
    unfold fix_help_unset, help_subcommand, propagate_subcommand.
    destruct (s_propagate_version (c_set yy));
      repeat match goal with |- context [match ?o with Some _ => _ | None => _ end] => destruct o end;
      cbn; rewrite ?Hgy; repeat split; reflexivity.
Qed.
