(** Property C06: command line > environment > default; sources are reported honestly.
    Proofs about [Parser.get_matches_with] (phase order), [add_env], [add_defaults],
    [add_default_value], [react_core] (default-missing injection), [start_custom_arg],
    [Matcher.set_source] and [Validator.validate] (defaults are inert).

    Conventions: [c] is the built command of one level, [st] a parser state, [mt st] its
    matcher, [mt_args] the FlatMap of entries in insertion order ([fm_get] = first match). *)
From ClapModel Require Import Base.Bytes Base.Machine Base.Utf8 Lex.OsStrExtModel.
From ClapModel Require Import Parse.Cmd Parse.Build Parse.Valid Parse.Matcher Parse.Errors Parse.Validator Parse.Parser.
From ClapModel Require Import Sources.Present.
From Coq Require Import ZArith Lia.
From RecordUpdate Require Import RecordSet.
Import RecordSetNotations.
Open Scope N_scope.

(** * 0. FlatMap facts *)

Lemma beq_sym a b : beq a b = beq b a.
Proof.
  destruct (beq a b) eqn:E.
  - apply beq_eq in E. subst. symmetry. apply beq_refl.
  - destruct (beq b a) eqn:E'; [|reflexivity]. apply beq_eq in E'. subst. rewrite beq_refl in E. discriminate.
Qed.

Lemma fm_get_app {V} k (l l' : list (id * V)) :
  fm_get k (l ++ l') = match fm_get k l with Some v => Some v | None => fm_get k l' end.
Proof.
  induction l as [|[k' v] t IH]; [reflexivity|]. cbn [app fm_get].
  destruct (beq k' k); [reflexivity | exact IH].
Qed.

Lemma fm_get_update {V} k k' (f : V -> V) (l : list (id * V)) :
  fm_get k (fm_update k' f l) = if beq k' k then opt_map f (fm_get k l) else fm_get k l.
Proof.
  induction l as [|[k0 v] t IH]; cbn [fm_update fm_get].
  - destruct (beq k' k); reflexivity.
  - destruct (beq k0 k') eqn:E0.
    + apply beq_eq in E0. subst k0. cbn [fm_get].
      destruct (beq k' k); reflexivity.
    + cbn [fm_get]. destruct (beq k0 k) eqn:E1.
      * apply beq_eq in E1. subst k0. rewrite beq_sym, E0. reflexivity.
      * exact IH.
Qed.

Lemma fm_update_keys {V} k (f : V -> V) (l : list (id * V)) : map fst (fm_update k f l) = map fst l.
Proof.
  induction l as [|[k0 v] t IH]; [reflexivity|]. cbn [fm_update].
  destruct (beq k0 k); cbn [map fst]; [reflexivity | rewrite IH; reflexivity].
Qed.

Lemma fm_remove_absent {V} k (l : list (id * V)) : fm_get k l = None -> fm_remove k l = (l, false).
Proof.
  induction l as [|[k0 v] t IH]; [reflexivity|]. cbn [fm_get fm_remove].
  destruct (beq k0 k); [discriminate|]. intros H. rewrite (IH H). reflexivity.
Qed.

Lemma fm_get_remove_other {V} k k' (l : list (id * V)) :
  beq k' k = false -> fm_get k (fst (fm_remove k' l)) = fm_get k l.
Proof.
  intros Hne. induction l as [|[k0 v] t IH]; [reflexivity|]. cbn [fm_remove fm_get].
  destruct (beq k0 k') eqn:E0.
  - apply beq_eq in E0. subst k0. rewrite Hne. reflexivity.
  - destruct (fm_remove k' t) as [t' b] eqn:Er. cbn [fst fm_get] in *.
    destruct (beq k0 k); [reflexivity | exact IH].
Qed.

Lemma fm_contains_false {V} k (l : list (id * V)) : fm_contains k l = false <-> fm_get k l = None.
Proof. unfold fm_contains. destruct (fm_get k l); cbn; split; congruence. Qed.

Lemma fm_entry_or_insert_absent {V} k (v0 : V) f (l : list (id * V)) :
  fm_get k l = None -> fm_entry_or_insert k v0 f l = l ++ [(k, f v0)].
Proof. intros H. unfold fm_entry_or_insert, fm_contains. rewrite H. reflexivity. Qed.

Lemma fm_get_entry_or_insert_other {V} k k' (v0 : V) f (l : list (id * V)) :
  beq k' k = false -> fm_get k (fm_entry_or_insert k' v0 f l) = fm_get k l.
Proof.
  intros Hne. unfold fm_entry_or_insert. destruct (fm_contains k' l).
  - rewrite fm_get_update, Hne. reflexivity.
  - rewrite fm_get_app. destruct (fm_get k l); [reflexivity|]. cbn [fm_get]. rewrite Hne. reflexivity.
Qed.

(** * 1. [set_source] only raises ([ValueSource]'s derived [Ord]: Default < Env < CommandLine) *)

Lemma src_max_rank a b : src_rank (src_max a b) = N.max (src_rank a) (src_rank b).
Proof. destruct a, b; reflexivity. Qed.

Definition opt_src_rank (o : option src) : N := match o with Some s => 1 + src_rank s | None => 0 end.

(** the new source is the maximum of the old one and the requested one *)
Lemma set_source_rank s m :
  opt_src_rank (m_source (set_source s m)) = N.max (opt_src_rank (m_source m)) (1 + src_rank s).
Proof.
  unfold set_source. destruct m as [[e|] ? ? ? ?]; [destruct e|]; destruct s; reflexivity.
Qed.

Theorem set_source_monotone s m :
  opt_src_rank (m_source m) <= opt_src_rank (m_source (set_source s m))
  /\ 1 + src_rank s <= opt_src_rank (m_source (set_source s m)).
Proof. rewrite set_source_rank. lia. Qed.

Theorem set_source_cmdline_sticky s m :
  m_source m = Some SCmdLine -> m_source (set_source s m) = Some SCmdLine.
Proof. intros H. unfold set_source. cbn. rewrite H. destruct s; reflexivity. Qed.

Theorem set_source_fresh s ic g : m_source (set_source s (marg_new ic g)) = Some s.
Proof. reflexivity. Qed.

Lemma set_source_other_fields s m :
  m_raw (set_source s m) = m_raw m /\ m_indices (set_source s m) = m_indices m
  /\ m_ignore_case (set_source s m) = m_ignore_case m /\ m_is_group (set_source s m) = m_is_group m.
Proof. repeat split. Qed.

(** the reported label is never weaker than what any writer asked for: an entry written with
    [SCmdLine] at any time reads [SCmdLine] after any number of later [set_source]s *)
Theorem set_source_sequence_max (l : list src) m :
  opt_src_rank (m_source (fold_left (fun m s => set_source s m) l m))
  = fold_left (fun r s => N.max r (1 + src_rank s)) l (opt_src_rank (m_source m)).
Proof.
  revert m. induction l as [|s t IH]; intros m; [reflexivity|]. cbn [fold_left].
  rewrite IH, set_source_rank. reflexivity.
Qed.

(** * 2. The default-missing injection of [react] *)

(** the block [if raw_vals.is_empty() { if !arg.default_missing_vals.is_empty() {..} }] *)
Definition react_vals (a : arg) (raw : list bytes) (ti : option N) : list bytes * option N :=
  match raw with
  | [] => if negb (is_nil (a_default_missing a)) then (a_default_missing a, None) else (raw, ti)
  | _ => (raw, ti)
  end.

(** the remainder of [react] after that block (a verbatim copy of the tail of
    [Parser.react_core]; [react_core_unfold] below is proved by [reflexivity], so any edit of
    the model that is not mirrored here breaks the proof) *)
Definition react_tail (c : cmd) (idn : option ident) (s : src) (a : arg) (raw : list bytes)
           (ti : option N) (st : ps) : res (ps * presult) :=
  do raw <- expect 1184 (delimit c a raw ti);
  let self_override := is_set s_args_override_self c || mem_id (a_id a) (a_overrides a) in
  let set_like (raw : list bytes) (bump : bool) (st : ps) :=
      let st := if bump && is_cmdline s && is_flag_ident idn then ps_bump st else st in
      let '(m1, removed) := mt_remove (mt st) (a_id a) in
      let st := st <| mt := m1 |> in
      if removed && negb self_override then RErr (mkerr c EArgumentConflict (a_id a)) st
      else do m2 <- start_custom_arg c a s m1;
           do st' <- push_arg_values c a raw (st <| mt := m2 |>);
           ROk (st', PRValuesDone) in
  match a_get_action a with
  | ASet => set_like raw true st
  | AAppend =>
      let st := if is_cmdline s && is_flag_ident idn then ps_bump st else st in
      do m2 <- start_custom_arg c a s (mt st);
      do st' <- push_arg_values c a raw (st <| mt := m2 |>);
      ROk (st', PRValuesDone)
  | ASetTrue => set_like (match raw with [] => [s_true] | _ => raw end) false st
  | ASetFalse => set_like (match raw with [] => [s_false] | _ => raw end) false st
  | ACount =>
      let raw := match raw with
                 | [] => [n_to_dec (N.min 255 (existing_count a (mt st) + 1))]
                 | _ => raw end in
      let '(m1, _) := mt_remove (mt st) (a_id a) in
      do m2 <- start_custom_arg c a s m1;
      do st' <- push_arg_values c a raw (st <| mt := m2 |>);
      ROk (st', PRValuesDone)
  | AHelp => RErr (help_err c (match idn with Some IShort => false | _ => true end)) st
  | AHelpShort => RErr (help_err c false) st
  | AHelpLong => RErr (help_err c true) st
  | AVersion => RErr (version_err c (match idn with Some IShort => false | _ => true end)) st
  end.

Lemma react_core_unfold c idn s a raw ti st :
  react_core c idn s a raw ti st =
  do _ <- (if is_cmdline s then verify_num_args c a raw st else ROk tt);
  react_tail c idn s a (fst (react_vals a raw ti)) (snd (react_vals a raw ti)) st.
Proof.
  unfold react_core, react_tail, react_vals.
  destruct raw as [|v t]; [destruct (negb (is_nil (a_default_missing a)))|]; reflexivity.
Qed.

(** the missing-value default is injected precisely when the occurrence carries no value
    (and the argument declares one); the trailing index is then forgotten *)
Theorem default_missing_iff a raw ti :
  (raw = [] /\ a_default_missing a <> [] -> react_vals a raw ti = (a_default_missing a, None))
  /\ (raw <> [] \/ a_default_missing a = [] -> react_vals a raw ti = (raw, ti))
  /\ (fst (react_vals a raw ti) <> raw <-> raw = [] /\ a_default_missing a <> []).
Proof.
  unfold react_vals. split; [|split].
  - intros [-> H]. destruct (a_default_missing a); [contradiction|reflexivity].
  - intros [H|H].
    + destruct raw; [contradiction|reflexivity].
    + rewrite H. destruct raw; reflexivity.
  - destruct raw as [|v t].
    + destruct (a_default_missing a) as [|d ds]; cbn; split.
      * intros H; contradiction.
      * intros [_ H]; contradiction.
      * intros _. split; [reflexivity|discriminate].
      * intros _. discriminate.
    + cbn. split; [intros H; contradiction | intros [H _]; discriminate].
Qed.

(** * 3. Primitive steps on the matcher *)

Lemma push_last_app {A} (x : A) gs g : push_last x (gs ++ [g]) = Some (gs ++ [g ++ [x]]).
Proof. unfold push_last. rewrite rev_app_distr. cbn. rewrite rev_involutive. reflexivity. Qed.

Lemma push_last_some {A} (x : A) l l' : push_last x l = Some l' ->
  exists gs g, l = gs ++ [g] /\ l' = gs ++ [g ++ [x]].
Proof.
  unfold push_last. destruct (rev l) as [|g r] eqn:E; [discriminate|]. intros H; inversion H; subst.
  exists (rev r), g. split; [|reflexivity].
  rewrite <- (rev_involutive l), E. reflexivity.
Qed.

(** what [add_val_to] followed by [add_index_to] do to the matcher *)
Lemma add_val_to_spec mt0 i v mt1 : add_val_to mt0 i v = Some mt1 ->
  exists m gs g, fm_get i (mt_args mt0) = Some m /\ m_raw m = gs ++ [g]
    /\ mt_args mt1 = fm_update i (fun _ => m <| m_raw := gs ++ [g ++ [v]] |>) (mt_args mt0)
    /\ mt_pending mt1 = mt_pending mt0 /\ mt_sub mt1 = mt_sub mt0.
Proof.
  unfold add_val_to. destruct (fm_get i (mt_args mt0)) as [m|] eqn:E; [|discriminate].
  unfold append_val. destruct (push_last v (m_raw m)) as [rs|] eqn:Ep; [|discriminate].
  intros H; inversion H; subst. apply push_last_some in Ep. destruct Ep as [gs [g [E1 E2]]].
  exists m, gs, g. subst rs. repeat split; assumption.
Qed.

Lemma add_index_to_spec mt0 i ix mt1 : add_index_to mt0 i ix = Some mt1 ->
  mt_args mt1 = fm_update i (push_index ix) (mt_args mt0)
  /\ mt_pending mt1 = mt_pending mt0 /\ mt_sub mt1 = mt_sub mt0.
Proof.
  unfold add_index_to. destruct (fm_get i (mt_args mt0)); [|discriminate].
  intros H; inversion H; subst. repeat split.
Qed.

(** the entry of [a] seen through [push_arg_values]: source untouched, the values are appended to
    the last value group in order, every other entry is untouched *)
Lemma push_arg_values_spec c a : forall raw st st',
  push_arg_values c a raw st = ROk st' ->
  (forall j, beq (a_id a) j = false -> fm_get j (mt_args (mt st')) = fm_get j (mt_args (mt st)))
  /\ map fst (mt_args (mt st')) = map fst (mt_args (mt st))
  /\ mt_pending (mt st') = mt_pending (mt st) /\ mt_sub (mt st') = mt_sub (mt st)
  /\ (raw = [] -> st' = st)
  /\ (forall m gs g, fm_get (a_id a) (mt_args (mt st)) = Some m -> m_raw m = gs ++ [g] ->
        exists m', fm_get (a_id a) (mt_args (mt st')) = Some m' /\ m_source m' = m_source m
                   /\ m_raw m' = gs ++ [g ++ raw] /\ m_is_group m' = m_is_group m).
Proof.
  induction raw as [|v t IH]; intros st st' H.
  - cbn in H. inversion H; subst. repeat split; try reflexivity.
    intros m gs g Hm Hr. exists m. rewrite app_nil_r. repeat split; assumption.
  - cbn [push_arg_values] in H.
    destruct (a_vp a) as [vp|]; [|discriminate]. cbn [expect rbind] in H.
    destruct (vp_parse vp v); [discriminate|].
    destruct (add_val_to (mt (ps_bump st)) (a_id a) v) as [m1|] eqn:E1; [|discriminate]. cbn [expect rbind] in H.
    destruct (add_index_to m1 (a_id a) (cur_idx (ps_bump st))) as [m2|] eqn:E2; [|discriminate]. cbn [expect rbind] in H.
    apply IH in H. destruct H as [Hfr [Hk [Hp [Hs [_ He]]]]].
    apply add_val_to_spec in E1. destruct E1 as [m0 [gs0 [g0 [G0 [R0 [A1 [P1 S1]]]]]]].
    apply add_index_to_spec in E2. destruct E2 as [A2 [P2 S2]].
    cbn in Hfr, Hk, Hp, Hs, He, G0, A1, P1, S1.
    repeat split.
    + intros j Hj. rewrite (Hfr j Hj). rewrite A2, fm_get_update, Hj, A1, fm_get_update, Hj. reflexivity.
    + rewrite Hk, A2, fm_update_keys, A1, fm_update_keys. reflexivity.
    + rewrite Hp, P2, P1. reflexivity.
    + rewrite Hs, S2, S1. reflexivity.
    + discriminate.
    + intros m gs g Hm Hr. rewrite Hm in G0. inversion G0; subst m0.
      rewrite Hr in R0. apply app_inj_tail in R0. destruct R0 as [<- <-].
      destruct (He (push_index (cur_idx (ps_bump st)) (m <| m_raw := gs ++ [g ++ [v]] |>)) gs (g ++ [v])) as [m' [G' [S' [R' I']]]].
      * rewrite A2, fm_get_update, beq_refl, A1, fm_get_update, beq_refl, Hm. reflexivity.
      * reflexivity.
      * exists m'. rewrite <- app_assoc in R'. repeat split; assumption.
Qed.

(** ** [start_custom_arg] *)

(** with source [DefaultValue] nothing but the argument's own entry is touched: no override is
    removed, no group is started *)
Theorem start_custom_arg_default c a m :
  start_custom_arg c a SDefault m = ROk (start_custom_arg_m m a SDefault).
Proof. reflexivity. Qed.

(** with source [EnvVariable] no override is removed *)
Lemma start_custom_arg_env_unfold c a m :
  start_custom_arg c a SEnv m =
  fold_left (fun rm g => do m <- rm;
               let m' := start_custom_group_m m g SEnv in
               expect 1533 (add_val_to m' g (a_id a)))
            (groups_for_arg c (a_id a)) (ROk (start_custom_arg_m m a SEnv)).
Proof. reflexivity. Qed.

Definition group_step (a : arg) (s : src) (rm : res matcher) (g : id) : res matcher :=
  do m <- rm; let m' := start_custom_group_m m g s in expect 1533 (add_val_to m' g (a_id a)).

Lemma group_fold_err a s gs e st : fold_left (group_step a s) gs (RErr e st) = RErr e st.
Proof. induction gs; [reflexivity|exact IHgs]. Qed.
Lemma group_fold_panic a s gs x : fold_left (group_step a s) gs (RPanic x) = RPanic x.
Proof. induction gs; [reflexivity|exact IHgs]. Qed.

(** one group start: only the entry of [g] changes; an entry whose source is [s] keeps it *)
Lemma group_step_spec a s m g m' : group_step a s (ROk m) g = ROk m' ->
  (forall j, beq g j = false -> fm_get j (mt_args m') = fm_get j (mt_args m))
  /\ mt_pending m' = mt_pending m /\ mt_sub m' = mt_sub m
  /\ (exists e, fm_get g (mt_args m') = Some e /\
        opt_src_rank (m_source e) = N.max (opt_src_rank (opt_default None (opt_map m_source (fm_get g (mt_args m))))) (1 + src_rank s)).
Proof.
  unfold group_step. cbn [rbind].
  destruct (add_val_to (start_custom_group_m m g s) g (a_id a)) as [m1|] eqn:E; [|discriminate].
  cbn [expect]. intros H; inversion H; subst m'.
  apply add_val_to_spec in E. destruct E as [e [gs [g0 [G [R [A [P S]]]]]]].
  cbn in G, A, P, S. repeat split.
  - intros j Hj. rewrite A, fm_get_update, Hj. apply fm_get_entry_or_insert_other. exact Hj.
  - exact P.
  - exact S.
  - exists (e <| m_raw := gs ++ [g0 ++ [a_id a]] |>). split.
    + rewrite A, fm_get_update, beq_refl, G. reflexivity.
    + cbn. revert G. unfold fm_entry_or_insert, fm_contains.
      destruct (fm_get g (mt_args m)) as [e0|] eqn:E0; cbn [is_some].
      * rewrite fm_get_update, beq_refl, E0. cbn. intros G; inversion G; subst e. cbn.
        destruct (m_source e0) as [[]|], s; reflexivity.
      * rewrite fm_get_app, E0. cbn [fm_get]. rewrite beq_refl. intros G; inversion G; subst e.
        destruct s; reflexivity.
Qed.

Lemma group_fold_spec a s : forall gs m m', fold_left (group_step a s) gs (ROk m) = ROk m' ->
  (forall j, mem_id j gs = false -> fm_get j (mt_args m') = fm_get j (mt_args m))
  /\ mt_pending m' = mt_pending m /\ mt_sub m' = mt_sub m
  /\ (forall j e, fm_get j (mt_args m) = Some e -> m_source e = Some s ->
        exists e', fm_get j (mt_args m') = Some e' /\ m_source e' = Some s).
Proof.
  induction gs as [|g t IH]; intros m m' H.
  - cbn in H. inversion H; subst. repeat split; try reflexivity. intros j e G S. exists e. split; assumption.
  - cbn [fold_left] in H. destruct (group_step a s (ROk m) g) as [m1|e st|x] eqn:E1.
    + apply IH in H. destruct H as [Hf [Hp [Hs Hsrc]]].
      pose proof (group_step_spec _ _ _ _ _ E1) as [Gf [Gp [Gs [e1 [Ge Gr]]]]].
      repeat split.
      * intros j Hj. cbn [mem_id existsb] in Hj. apply orb_false_iff in Hj. destruct Hj as [Hj1 Hj2].
        rewrite (Hf j Hj2). apply Gf. rewrite beq_sym. exact Hj1.
      * congruence.
      * congruence.
      * intros j e G S. destruct (beq g j) eqn:Egj.
        -- apply beq_eq in Egj. subst j. rewrite G in Gr. cbn in Gr. rewrite S in Gr. cbn [opt_src_rank] in Gr.
           apply (Hsrc g e1 Ge). destruct (m_source e1) as [s1|]; cbn [opt_src_rank] in Gr.
           ++ f_equal. destruct s1, s; cbn in Gr; try reflexivity; lia.
           ++ destruct s; cbn in Gr; lia.
        -- apply (Hsrc j e); [|exact S]. rewrite (Gf j Egj). exact G.
    + rewrite group_fold_err in H. discriminate.
    + rewrite group_fold_panic in H. discriminate.
Qed.

Lemma in_groups_for_arg c i j : mem_id j (groups_for_arg c i) = true -> find_group c j <> None.
Proof.
  unfold groups_for_arg, mem_id, find_group. rewrite existsb_exists. intros [g [Hin Hb]].
  apply in_map_iff in Hin. destruct Hin as [grp [<- Hf]]. apply filter_In in Hf. destruct Hf as [Hin _].
  apply beq_eq in Hb. subst j.
  destruct (List.find (fun g0 => beq (g_id g0) (g_id grp)) (c_groups c)) eqn:E; [discriminate|].
  exfalso. apply (find_none _ _ E) in Hin. rewrite beq_refl in Hin. discriminate.
Qed.

(** [start_custom_arg] for a source other than the command line, on an argument that has no
    entry yet: a fresh entry labelled [s] is appended; apart from it only entries of groups
    containing the argument can change (and only for an explicit source) *)
Lemma start_custom_arg_noncmd c a s m m2 :
  s <> SCmdLine -> fm_get (a_id a) (mt_args m) = None ->
  start_custom_arg c a s m = ROk m2 ->
  (forall j, beq (a_id a) j = false -> (src_explicit s = true -> find_group c j = None) ->
             fm_get j (mt_args m2) = fm_get j (mt_args m))
  /\ mt_pending m2 = mt_pending m /\ mt_sub m2 = mt_sub m
  /\ (exists e, fm_get (a_id a) (mt_args m2) = Some e /\ m_source e = Some s)
  /\ (find_group c (a_id a) = None \/ src_explicit s = false ->
      fm_get (a_id a) (mt_args m2) = Some (new_val_group (set_source s (marg_new (a_ignore_case a) false))))
  /\ (src_explicit s = false -> mt_args m2 = mt_args m ++ [(a_id a, new_val_group (set_source s (marg_new (a_ignore_case a) false)))]).
Proof.
  intros Hs Habs H. unfold start_custom_arg in H.
  assert (Hm1 : (match s with SCmdLine => remove_overrides c a m | _ => m end) = m) by (destruct s; congruence).
  rewrite Hm1 in H. clear Hm1.
  set (e0 := new_val_group (set_source s (marg_new (a_ignore_case a) false))) in *.
  assert (A0 : mt_args (start_custom_arg_m m a s) = mt_args m ++ [(a_id a, e0)]).
  { unfold start_custom_arg_m. cbn. apply fm_entry_or_insert_absent. exact Habs. }
  assert (G0 : fm_get (a_id a) (mt_args (start_custom_arg_m m a s)) = Some e0).
  { rewrite A0, fm_get_app, Habs. cbn. rewrite beq_refl. reflexivity. }
  assert (F0 : forall j, beq (a_id a) j = false -> fm_get j (mt_args (start_custom_arg_m m a s)) = fm_get j (mt_args m)).
  { intros j Hj. rewrite A0, fm_get_app. destruct (fm_get j (mt_args m)); [reflexivity|]. cbn. rewrite Hj. reflexivity. }
  destruct (src_explicit s) eqn:Ex.
  - change (fold_left (group_step a s) (groups_for_arg c (a_id a)) (ROk (start_custom_arg_m m a s)) = ROk m2) in H.
    apply group_fold_spec in H. destruct H as [Hf [Hp [Hsub Hsrc]]].
    repeat split.
    + intros j Hj Hg. rewrite Hf; [apply F0; exact Hj|].
      destruct (mem_id j (groups_for_arg c (a_id a))) eqn:Em; [|reflexivity].
      apply in_groups_for_arg in Em. rewrite (Hg eq_refl) in Em. contradiction.
    + rewrite Hp. reflexivity.
    + rewrite Hsub. reflexivity.
    + apply (Hsrc (a_id a) e0 G0). reflexivity.
    + intros [Hg|Hg]; [|discriminate]. rewrite Hf; [exact G0|].
      destruct (mem_id (a_id a) (groups_for_arg c (a_id a))) eqn:Em; [|reflexivity].
      apply in_groups_for_arg in Em. rewrite Hg in Em. contradiction.
    + discriminate.
  - inversion H; subst m2. repeat split.
    + intros j Hj _. apply F0. exact Hj.
    + exists e0. split; [exact G0|reflexivity].
    + intros _. exact G0.
    + intros _. exact A0.
Qed.

(** ** shape of the entry list through [push_arg_values] *)
Lemma fm_update_id {V} k (l : list (id * V)) : fm_update k (fun x => x) l = l.
Proof.
  induction l as [|[k0 v] t IH]; [reflexivity|]. cbn [fm_update].
  destruct (beq k0 k); [reflexivity | rewrite IH; reflexivity].
Qed.
Lemma fm_update_compose {V} k (f g : V -> V) (l : list (id * V)) :
  fm_update k f (fm_update k g l) = fm_update k (fun x => f (g x)) l.
Proof.
  induction l as [|[k0 v] t IH]; [reflexivity|]. cbn [fm_update].
  destruct (beq k0 k) eqn:E; cbn [fm_update]; rewrite E; [reflexivity | rewrite IH; reflexivity].
Qed.
Lemma fm_update_app_absent {V} k (f : V -> V) (l : list (id * V)) e :
  fm_get k l = None -> fm_update k f (l ++ [(k, e)]) = l ++ [(k, f e)].
Proof.
  induction l as [|[k0 v] t IH]; cbn [fm_get app fm_update].
  - rewrite beq_refl. reflexivity.
  - destruct (beq k0 k); [discriminate|]. intros H. rewrite (IH H). reflexivity.
Qed.

Lemma push_arg_values_shape c a : forall raw st st',
  push_arg_values c a raw st = ROk st' ->
  exists f, mt_args (mt st') = fm_update (a_id a) f (mt_args (mt st)).
Proof.
  induction raw as [|v t IH]; intros st st' H.
  - cbn in H. inversion H; subst. exists (fun x => x). rewrite fm_update_id. reflexivity.
  - cbn [push_arg_values] in H.
    destruct (a_vp a) as [vp|]; [|discriminate]. cbn [expect rbind] in H.
    destruct (vp_parse vp v); [discriminate|].
    destruct (add_val_to (mt (ps_bump st)) (a_id a) v) as [m1|] eqn:E1; [|discriminate]. cbn [expect rbind] in H.
    destruct (add_index_to m1 (a_id a) (cur_idx (ps_bump st))) as [m2|] eqn:E2; [|discriminate]. cbn [expect rbind] in H.
    apply IH in H. destruct H as [f Hf].
    apply add_val_to_spec in E1. destruct E1 as [m0 [gs0 [g0 [G0 [R0 [A1 [P1 S1]]]]]]].
    apply add_index_to_spec in E2. destruct E2 as [A2 [P2 S2]].
    cbn in Hf, A1. rewrite A2, A1, !fm_update_compose in Hf.
    eexists. exact Hf.
Qed.

(** ** the delimiter block never yields an empty list from a non-empty one *)
Lemma split_fuel_nonempty : forall fuel h n l, split_fuel fuel h n = Some l -> l <> [].
Proof.
  destruct fuel as [|f]; intros h n l; cbn [split_fuel]; [discriminate|].
  destruct (split_once h n) as [[a b]|].
  - destruct (split_fuel f b n); [|discriminate]. intros H; inversion H; discriminate.
  - intros H; inversion H; discriminate.
Qed.

Lemma delimit_go_nonempty ddt db ti : forall l i vs,
  l <> [] -> delimit_go ddt db ti i l = Some vs -> vs <> [].
Proof.
  intros [|v t] i vs Hl; [contradiction|]. cbn [delimit_go].
  set (here := if negb (contains v db) || (ddt && match ti with Some k => k <=? i | None => false end)
               then Some [v] else match split v db with SplitOk parts => Some parts | _ => None end).
  assert (Hh : forall a, here = Some a -> a <> []).
  { subst here. intros a. destruct (negb (contains v db) || _).
    - intros H; inversion H; discriminate.
    - unfold split. destruct db; [discriminate|].
      destruct (split_fuel _ _ _) eqn:E; [|discriminate]. intros H; inversion H; subst.
      eapply split_fuel_nonempty; exact E. }
  destruct here as [a|]; [|discriminate]. destruct (delimit_go ddt db ti (i + 1) t) as [b|]; [|discriminate].
  intros H; inversion H; subst. specialize (Hh a eq_refl). destruct a; [contradiction|discriminate].
Qed.

Lemma delimit_nonempty c a raw ti vs : raw <> [] -> delimit c a raw ti = Some vs -> vs <> [].
Proof.
  intros Hr. unfold delimit. destruct (a_delim a) as [d|].
  - destruct (is_set s_dont_delimit_trailing c && _).
    + intros H; inversion H; subst; exact Hr.
    + apply delimit_go_nonempty. exact Hr.
  - intros H; inversion H; subst; exact Hr.
Qed.

Lemma push_arg_values_source c a : forall raw st st' m,
  push_arg_values c a raw st = ROk st' -> fm_get (a_id a) (mt_args (mt st)) = Some m ->
  exists m', fm_get (a_id a) (mt_args (mt st')) = Some m' /\ m_source m' = m_source m.
Proof.
  induction raw as [|v t IH]; intros st st' m H Hm.
  - cbn in H. inversion H; subst. exists m. split; [exact Hm|reflexivity].
  - cbn [push_arg_values] in H.
    destruct (a_vp a) as [vp|]; [|discriminate]. cbn [expect rbind] in H.
    destruct (vp_parse vp v); [discriminate|].
    destruct (add_val_to (mt (ps_bump st)) (a_id a) v) as [m1|] eqn:E1; [|discriminate]. cbn [expect rbind] in H.
    destruct (add_index_to m1 (a_id a) (cur_idx (ps_bump st))) as [m2|] eqn:E2; [|discriminate]. cbn [expect rbind] in H.
    apply add_val_to_spec in E1. destruct E1 as [m0 [gs0 [g0 [G0 [R0 [A1 [P1 S1]]]]]]].
    apply add_index_to_spec in E2. destruct E2 as [A2 [P2 S2]].
    cbn in G0, A1. rewrite Hm in G0. inversion G0; subst m0.
    apply (IH _ _ (push_index (cur_idx (ps_bump st)) (m <| m_raw := gs0 ++ [g0 ++ [v]] |>))) in H.
    + destruct H as [m' [G' S']]. exists m'. split; [exact G'|]. rewrite S'. reflexivity.
    + cbn. rewrite A2, fm_get_update, beq_refl, A1, fm_get_update, beq_refl, Hm. reflexivity.
Qed.

(** ** one [react] for a source other than the command line, on an argument without an entry *)

(** what such a [react] leaves behind, relative to the matcher [m1] it started from *)
Definition stored (c : cmd) (a : arg) (s : src) (vs : list bytes) (m1 m' : matcher) : Prop :=
  (exists e, fm_get (a_id a) (mt_args m') = Some e /\ m_source e = Some s)
  /\ (find_group c (a_id a) = None \/ src_explicit s = false ->
       exists e, fm_get (a_id a) (mt_args m') = Some e /\ m_source e = Some s /\ m_raw e = [vs] /\ m_is_group e = false)
  /\ (forall j, beq (a_id a) j = false -> (src_explicit s = true -> find_group c j = None) ->
        fm_get j (mt_args m') = fm_get j (mt_args m1))
  /\ mt_pending m' = mt_pending m1 /\ mt_sub m' = mt_sub m1
  /\ (src_explicit s = false -> exists e, mt_args m' = mt_args m1 ++ [(a_id a, e)]).

Lemma store_noncmd c a s vs (st0 : ps) m1 st' pr :
  s <> SCmdLine -> fm_get (a_id a) (mt_args m1) = None ->
  (do m2 <- start_custom_arg c a s m1;
   do st' <- push_arg_values c a vs (st0 <| mt := m2 |>);
   ROk (st', PRValuesDone)) = ROk (st', pr) ->
  stored c a s vs m1 (mt st').
Proof.
  intros Hs Habs H.
  destruct (start_custom_arg c a s m1) as [m2| |] eqn:E1; [|discriminate|discriminate]. cbn [rbind] in H.
  destruct (push_arg_values c a vs (st0 <| mt := m2 |>)) as [st2| |] eqn:E2; [|discriminate|discriminate].
  cbn [rbind] in H. inversion H; subst st2 pr. clear H.
  apply (start_custom_arg_noncmd c a s m1 m2 Hs Habs) in E1.
  destruct E1 as [Hf [Hp [Hsub [[e [Ge Se]] [Hfresh Happ]]]]].
  pose proof (push_arg_values_spec _ _ _ _ _ E2) as [Pf [Pk [Pp [Psub [_ Pe]]]]].
  cbn in Pf, Pk, Pp, Psub, Pe.
  unfold stored. repeat split.
  - destruct (push_arg_values_source _ _ _ _ _ e E2 Ge) as [e' [G' S']]. exists e'. split; [exact G'|congruence].
  - intros Hc. specialize (Hfresh Hc).
    destruct (Pe _ [] [] Hfresh eq_refl) as [e' [G' [S' [R' I']]]].
    exists e'. split; [exact G'|]. split; [rewrite S'; reflexivity|]. split; [exact R'|exact I'].
  - intros j Hj Hg. rewrite (Pf j Hj). apply Hf; assumption.
  - congruence.
  - congruence.
  - intros Hx. specialize (Happ Hx).
    destruct (push_arg_values_shape _ _ _ _ _ E2) as [f Hshape]. cbn in Hshape.
    rewrite Hshape, Happ. eexists. apply fm_update_app_absent. exact Habs.
Qed.

Lemma mt_remove_absent mt0 i : fm_get i (mt_args mt0) = None ->
  mt_remove mt0 i = (mt0 <| mt_args := mt_args mt0 |>, false).
Proof. intros H. unfold mt_remove. rewrite (fm_remove_absent _ _ H). reflexivity. Qed.

Theorem react_core_noncmd c idn s a raw ti st st' pr :
  s <> SCmdLine -> raw <> [] -> fm_get (a_id a) (mt_args (mt st)) = None ->
  react_core c idn s a raw ti st = ROk (st', pr) ->
  exists vs, delimit c a raw ti = Some vs /\ vs <> [] /\ stored c a s vs (mt st) (mt st').
Proof.
  intros Hs Hraw Habs H. rewrite react_core_unfold in H.
  assert (Hc : is_cmdline s = false) by (destruct s; [reflexivity|reflexivity|congruence]).
  rewrite Hc in H. cbn [rbind] in H.
  assert (Hv : react_vals a raw ti = (raw, ti)) by (destruct raw; [contradiction|reflexivity]).
  rewrite Hv in H. cbn [fst snd] in H. unfold react_tail in H.
  destruct (delimit c a raw ti) as [vs|] eqn:Ed; [|discriminate]. cbn [expect rbind] in H.
  pose proof (delimit_nonempty _ _ _ _ _ Hraw Ed) as Hvs.
  exists vs. split; [reflexivity|]. split; [exact Hvs|].
  rewrite Hc in H. rewrite !andb_false_r in H; cbn [andb] in H.
  rewrite (mt_remove_absent _ _ Habs) in H. cbn [andb] in H.
  assert (Hfill : forall d, match vs with [] => d | _ => vs end = vs) by (intros d; destruct vs; [contradiction|reflexivity]).
  rewrite !Hfill in H.
  destruct (a_get_action a); try discriminate;
    (eapply store_noncmd in H; [|exact Hs|exact Habs]; exact H).
Qed.

(** * 4. The defaults phase: [add_default_value], [add_defaults] *)

(** "the condition of a [default_value_if] rule holds" as the code and the documentation define
    it: the named argument has an entry in the matcher (whatever its source) and, for
    [Equals v], one of its raw values is [v] *)
Definition rule_holds (m : matcher) (r : id * pred * option bytes) : bool :=
  let '(i, p, _) := r in
  match fm_get i (mt_args m) with
  | Some ma => match p with
               | PEquals v => existsb (beq v) (concat (m_raw ma))
               | PIsPresent => true end
  | None => false end.

(** the raw default values an argument without an entry receives: the first rule (in declaration
    order) whose condition holds decides — its value, or nothing at all when the rule carries
    no value; only when no rule fires do the plain defaults apply *)
Inductive default_choice (a : arg) (m : matcher) : option (list bytes) -> Prop :=
| DC_rule l1 i p d l2 :
    a_default_ifs a = l1 ++ (i, p, d) :: l2 ->
    (forall r, In r l1 -> rule_holds m r = false) ->
    rule_holds m (i, p, d) = true ->
    default_choice a m (opt_map (fun x => [x]) d)
| DC_plain :
    (forall r, In r (a_default_ifs a) -> rule_holds m r = false) ->
    default_choice a m (if is_nil (a_default a) then None else Some (a_default a)).

Lemma find_split {A} (f : A -> bool) : forall l x, List.find f l = Some x ->
  exists l1 l2, l = l1 ++ x :: l2 /\ f x = true /\ forall y, In y l1 -> f y = false.
Proof.
  induction l as [|h t IH]; intros x; cbn [List.find]; [discriminate|].
  destruct (f h) eqn:E.
  - intros H; inversion H; subst. exists [], t. repeat split; [exact E | intros y []].
  - intros H. destruct (IH x H) as [l1 [l2 [-> [Hx Hl]]]].
    exists (h :: l1), l2. repeat split; [exact Hx|]. intros y [<-|Hy]; [exact E | apply Hl; exact Hy].
Qed.

Lemma resolve_pending_none c st : mt_pending (mt st) = None -> resolve_pending c st = ROk st.
Proof. intros H. unfold resolve_pending. rewrite H. reflexivity. Qed.

Lemma react_no_pending c idn s a raw ti st :
  mt_pending (mt st) = None -> react c idn s a raw ti st = react_core c idn s a raw ti st.
Proof. intros H. unfold react. rewrite (resolve_pending_none c st H). reflexivity. Qed.

(** the state after a [react] with source [DefaultValue] on an argument without an entry:
    exactly one entry is appended *)
Definition default_added (c : cmd) (a : arg) (raw : list bytes) (st st' : ps) : Prop :=
  exists vs e, delimit c a raw None = Some vs /\ vs <> []
    /\ mt_args (mt st') = mt_args (mt st) ++ [(a_id a, e)]
    /\ m_source e = Some SDefault /\ m_raw e = [vs] /\ m_is_group e = false
    /\ mt_pending (mt st') = mt_pending (mt st) /\ mt_sub (mt st') = mt_sub (mt st).

Lemma react_default c a raw st x :
  mt_pending (mt st) = None -> raw <> [] -> fm_get (a_id a) (mt_args (mt st)) = None ->
  react c None SDefault a raw None st = ROk x -> default_added c a raw st (fst x).
Proof.
  intros Hp Hr Habs H. rewrite (react_no_pending _ _ _ _ _ _ _ Hp) in H. destruct x as [st' pr].
  apply react_core_noncmd in H; [|discriminate|exact Hr|exact Habs].
  destruct H as [vs [Hd [Hvs [_ [H2 [_ [P [S H6]]]]]]]].
  destruct (H2 (or_intror eq_refl)) as [e [Ge [Se [Re Ie]]]].
  destruct (H6 eq_refl) as [e' Happ].
  assert (e' = e).
  { rewrite Happ, fm_get_app, Habs in Ge. cbn in Ge. rewrite beq_refl in Ge. congruence. }
  subst e'. exists vs, e. cbn [fst]. repeat split; assumption.
Qed.

Theorem add_default_value_spec c a st st' :
  mt_pending (mt st) = None -> add_default_value c a st = ROk st' ->
  (fm_get (a_id a) (mt_args (mt st)) <> None -> st' = st)
  /\ (fm_get (a_id a) (mt_args (mt st)) = None ->
      exists ch, default_choice a (mt st) ch /\
        match ch with
        | None => st' = st
        | Some raw => default_added c a raw st st'
        end).
Proof.
  intros Hp H. unfold add_default_value in H. unfold mt_contains, fm_contains in H.
  destruct (fm_get (a_id a) (mt_args (mt st))) as [e|] eqn:Eg; cbn [is_some negb] in H.
  - rewrite andb_false_r in H. split; [intros _ | discriminate].
    destruct (negb (is_nil (a_default a))); inversion H; reflexivity.
  - split; [intros Hne; contradiction|]. intros _.
    assert (Hplain :
      (if negb (is_nil (a_default a))
       then do x <- react c None SDefault a (a_default a) None st; ROk (fst x)
       else ROk st) = ROk st' ->
      match (if is_nil (a_default a) then None else Some (a_default a)) with
      | None => st' = st | Some raw => default_added c a raw st st' end).
    { intros Hq. destruct (is_nil (a_default a)) eqn:En; cbn [negb] in Hq.
      - inversion Hq; reflexivity.
      - destruct (react c None SDefault a (a_default a) None st) as [x| |] eqn:Er; [|discriminate|discriminate].
        cbn [rbind] in Hq. inversion Hq; subst st'.
        apply (react_default c a _ st x Hp); [|exact Eg|exact Er].
        destruct (a_default a); [discriminate|discriminate]. }
    destruct (is_nil (a_default_ifs a)) eqn:Ei; cbn [negb andb] in H.
    + eexists. split; [|apply Hplain; exact H].
      apply DC_plain. destruct (a_default_ifs a); [intros r []|discriminate].
    + change (List.find _ (a_default_ifs a)) with (List.find (rule_holds (mt st)) (a_default_ifs a)) in H.
      destruct (List.find (rule_holds (mt st)) (a_default_ifs a)) as [[[i p] d]|] eqn:Ef.
      * apply find_split in Ef. destruct Ef as [l1 [l2 [Hl [Hh Hn]]]].
        exists (opt_map (fun x => [x]) d). split; [eapply DC_rule; eassumption|].
        destruct d as [d|]; cbn [opt_map].
        -- destruct (react c None SDefault a [d] None st) as [x| |] eqn:Er; [|discriminate|discriminate].
           cbn [rbind] in H. inversion H; subst st'.
           apply (react_default c a _ st x Hp); [discriminate|exact Eg|exact Er].
        -- inversion H; reflexivity.
      * eexists. split; [|apply Hplain; exact H].
        apply DC_plain. intros r Hr. apply (find_none _ _ Ef r Hr).
Qed.

(** the whole defaults phase only appends entries, all labelled [DefaultValue], each for an
    argument that had no entry; everything present before (command line, environment, groups)
    is left exactly as it was *)
Definition default_entry (c : cmd) (l : list arg) (old : list (id * marg)) (p : id * marg) : Prop :=
  m_source (snd p) = Some SDefault /\ m_is_group (snd p) = false
  /\ exists a, In a l /\ a_id a = fst p /\ fm_get (fst p) old = None.

Definition defaults_step (c : cmd) (rst : res ps) (a : arg) : res ps := do st <- rst; add_default_value c a st.

Lemma add_defaults_unfold c st : add_defaults c st = fold_left (defaults_step c) (c_args c) (ROk st).
Proof. reflexivity. Qed.

Lemma defaults_fold_err c l e st : fold_left (defaults_step c) l (RErr e st) = RErr e st.
Proof. induction l; [reflexivity|exact IHl]. Qed.
Lemma defaults_fold_panic c l x : fold_left (defaults_step c) l (RPanic x) = RPanic x.
Proof. induction l; [reflexivity|exact IHl]. Qed.

Lemma fm_get_app_none {V} k (l l' : list (id * V)) : fm_get k (l ++ l') = None -> fm_get k l = None.
Proof. rewrite fm_get_app. destruct (fm_get k l); [discriminate|reflexivity]. Qed.

Lemma add_defaults_fold_spec c : forall l st st',
  mt_pending (mt st) = None -> fold_left (defaults_step c) l (ROk st) = ROk st' ->
  mt_pending (mt st') = None /\ mt_sub (mt st') = mt_sub (mt st)
  /\ exists news, mt_args (mt st') = mt_args (mt st) ++ news
                  /\ Forall (default_entry c l (mt_args (mt st))) news.
Proof.
  induction l as [|a t IH]; intros st st' Hp H.
  - cbn in H. inversion H; subst. repeat split; [exact Hp|]. exists []. rewrite app_nil_r. split; [reflexivity|constructor].
  - cbn [fold_left] in H. unfold defaults_step at 2 in H. cbn [rbind] in H.
    destruct (add_default_value c a st) as [st1|e s1|x] eqn:E1;
      [|rewrite defaults_fold_err in H; discriminate|rewrite defaults_fold_panic in H; discriminate].
    pose proof (add_default_value_spec c a st st1 Hp E1) as [Hpres Habs].
    assert (Hcase : st1 = st \/ exists raw, fm_get (a_id a) (mt_args (mt st)) = None /\ default_added c a raw st st1).
    { destruct (fm_get (a_id a) (mt_args (mt st))) as [e|] eqn:Eg.
      - left. apply Hpres. discriminate.
      - destruct (Habs eq_refl) as [[raw|] [_ Hch]]; [right; exists raw; split; [reflexivity|exact Hch] | left; exact Hch]. }
    destruct Hcase as [-> | [raw [Eg Hadd]]].
    + destruct (IH st st' Hp H) as [P [S [news [A F]]]]. repeat split; [exact P|exact S|].
      exists news. split; [exact A|]. eapply Forall_impl; [|exact F].
      intros p [Hs [Hg [a0 [Hin [Hid Hn]]]]]. repeat split; [exact Hs|exact Hg|]. exists a0. repeat split; [right; exact Hin|exact Hid|exact Hn].
    + destruct Hadd as [vs [e [Hd [Hvs [A1 [Se [Re [Ie [P1 S1]]]]]]]]].
      assert (Hp1 : mt_pending (mt st1) = None) by congruence.
      destruct (IH st1 st' Hp1 H) as [P [S [news [A F]]]]. repeat split; [exact P|congruence|].
      exists ((a_id a, e) :: news). split.
      * rewrite A, A1, <- app_assoc. reflexivity.
      * constructor.
        -- repeat split; [exact Se|exact Ie|]. exists a. repeat split; [left; reflexivity|exact Eg].
        -- eapply Forall_impl; [|exact F].
           intros p [Hs [Hg [a0 [Hin [Hid Hn]]]]]. repeat split; [exact Hs|exact Hg|]. exists a0.
           repeat split; [right; exact Hin|exact Hid|]. rewrite A1 in Hn. apply fm_get_app_none in Hn. exact Hn.
Qed.

Theorem add_defaults_frame c st st' :
  mt_pending (mt st) = None -> add_defaults c st = ROk st' ->
  mt_pending (mt st') = None /\ mt_sub (mt st') = mt_sub (mt st)
  /\ (exists news, mt_args (mt st') = mt_args (mt st) ++ news
                   /\ Forall (default_entry c (c_args c) (mt_args (mt st))) news)
  /\ (forall j m, fm_get j (mt_args (mt st)) = Some m -> fm_get j (mt_args (mt st')) = Some m)
  /\ (forall j m', fm_get j (mt_args (mt st)) = None -> fm_get j (mt_args (mt st')) = Some m' ->
        m_source m' = Some SDefault).
Proof.
  intros Hp H. rewrite add_defaults_unfold in H.
  destruct (add_defaults_fold_spec c _ _ _ Hp H) as [P [S [news [A F]]]].
  repeat split; [exact P|exact S|exists news; split; assumption| |].
  - intros j m G. rewrite A, fm_get_app, G. reflexivity.
  - intros j m' G G'. rewrite A, fm_get_app, G in G'.
    clear A. induction news as [|[k e] t IH]; [discriminate|].
    inversion F; subst. cbn [fm_get] in G'. destruct (beq k j).
    + inversion G'; subst. destruct H2 as [Hs _]. exact Hs.
    + apply IH; assumption.
Qed.

Lemma fm_get_news_other c l old news k :
  Forall (default_entry c l old) news -> (forall a, In a l -> a_id a <> k) -> fm_get k news = None.
Proof.
  intros F Hk. induction news as [|[k0 e] t IH]; [reflexivity|]. inversion F; subst. cbn [fm_get].
  destruct (beq k0 k) eqn:E; [|apply IH; assumption].
  apply beq_eq in E. subst k0. destruct H1 as [_ [_ [a0 [Hin [Hid _]]]]]. cbn in Hid. exfalso. exact (Hk a0 Hin Hid).
Qed.

(** which default an argument gets: decided by [default_choice] on the matcher *as it is when the
    argument's turn comes* — command-line and environment entries plus the defaults of the
    arguments defined before it (so a default of an earlier argument can trigger a conditional
    default of a later one, not vice versa) *)
Theorem add_defaults_decides c st st' pre a post :
  NoDup (map a_id (c_args c)) -> c_args c = pre ++ a :: post ->
  mt_pending (mt st) = None -> add_defaults c st = ROk st' ->
  exists st_a,
    fold_left (defaults_step c) pre (ROk st) = ROk st_a
    /\ (exists news, mt_args (mt st_a) = mt_args (mt st) ++ news
                     /\ Forall (default_entry c pre (mt_args (mt st))) news)
    /\ (fm_get (a_id a) (mt_args (mt st)) = None ->
        exists ch, default_choice a (mt st_a) ch /\
          match ch with
          | None => fm_get (a_id a) (mt_args (mt st')) = None
          | Some raw => exists vs e, delimit c a raw None = Some vs /\ vs <> []
                          /\ fm_get (a_id a) (mt_args (mt st')) = Some e
                          /\ m_source e = Some SDefault /\ m_raw e = [vs]
          end).
Proof.
  intros Hnd Hsplit Hp H. rewrite add_defaults_unfold, Hsplit, fold_left_app in H. cbn [fold_left] in H.
  rewrite Hsplit, map_app in Hnd. cbn [map] in Hnd.
  destruct (fold_left (defaults_step c) pre (ROk st)) as [st_a|e s1|x] eqn:Epre;
    [|cbn in H; rewrite defaults_fold_err in H; discriminate|cbn in H; rewrite defaults_fold_panic in H; discriminate].
  exists st_a. split; [reflexivity|].
  destruct (add_defaults_fold_spec c _ _ _ Hp Epre) as [Pa [Sa [news [Aa Fa]]]].
  split; [exists news; split; assumption|]. intros Habs.
  assert (Hpre_ne : forall a0, In a0 pre -> a_id a0 <> a_id a).
  { intros a0 Hin Heq. apply NoDup_remove_2 in Hnd. apply Hnd. apply in_or_app. left.
    rewrite <- Heq. apply in_map. exact Hin. }
  assert (Hpost_ne : forall a0, In a0 post -> a_id a0 <> a_id a).
  { intros a0 Hin Heq. apply NoDup_remove_2 in Hnd. apply Hnd. apply in_or_app. right.
    rewrite <- Heq. apply in_map. exact Hin. }
  assert (Habs_a : fm_get (a_id a) (mt_args (mt st_a)) = None).
  { rewrite Aa, fm_get_app, Habs. eapply fm_get_news_other; eassumption. }
  unfold defaults_step at 2 in H. cbn [rbind] in H.
  destruct (add_default_value c a st_a) as [st1|e s1|x] eqn:E1;
    [|rewrite defaults_fold_err in H; discriminate|rewrite defaults_fold_panic in H; discriminate].
  destruct (add_default_value_spec c a st_a st1 Pa E1) as [_ Hdec].
  destruct (Hdec Habs_a) as [ch [Hch Hres]]. exists ch. split; [exact Hch|].
  assert (Hp1 : mt_pending (mt st1) = None).
  { destruct ch as [raw|]; [|subst st1; exact Pa].
    destruct Hres as [vs [e [_ [_ [_ [_ [_ [_ [P1 _]]]]]]]]]. congruence. }
  destruct (add_defaults_fold_spec c _ _ _ Hp1 H) as [_ [_ [news2 [A2 F2]]]].
  destruct ch as [raw|].
  - destruct Hres as [vs [e [Hd [Hvs [A1 [Se [Re _]]]]]]]. exists vs, e. repeat split; try assumption.
    rewrite A2, fm_get_app, A1, fm_get_app, Habs_a. cbn. rewrite beq_refl. reflexivity.
  - subst st1. rewrite A2, fm_get_app, Habs_a. eapply fm_get_news_other; eassumption.
Qed.

(** * 5. The environment phase: [add_env] *)

Definition env_step (c : cmd) (rst : res ps) (a : arg) : res ps :=
  do st <- rst;
  if mt_contains (mt st) (a_id a) then ROk st
  else match a_env a with
       | Some v => do x <- react c None SEnv a [v] None st; ROk (fst x)
       | None => ROk st
       end.

Lemma add_env_unfold c st : add_env c st = fold_left (env_step c) (c_args c) (ROk st).
Proof. reflexivity. Qed.

Lemma env_fold_err c l e st : fold_left (env_step c) l (RErr e st) = RErr e st.
Proof. induction l; [reflexivity|exact IHl]. Qed.
Lemma env_fold_panic c l x : fold_left (env_step c) l (RPanic x) = RPanic x.
Proof. induction l; [reflexivity|exact IHl]. Qed.

(** one step: either nothing happens (the argument has an entry, or its variable is unset), or
    the variable's value is stored for an argument that had no entry *)
Lemma env_step_spec c a st st1 :
  mt_pending (mt st) = None -> env_step c (ROk st) a = ROk st1 ->
  (st1 = st /\ (fm_get (a_id a) (mt_args (mt st)) <> None \/ a_env a = None))
  \/ (exists v vs, fm_get (a_id a) (mt_args (mt st)) = None /\ a_env a = Some v
        /\ delimit c a [v] None = Some vs /\ vs <> [] /\ stored c a SEnv vs (mt st) (mt st1)).
Proof.
  intros Hp H. unfold env_step in H. cbn [rbind] in H. unfold mt_contains, fm_contains in H.
  destruct (fm_get (a_id a) (mt_args (mt st))) as [e|] eqn:Eg; cbn [is_some] in H.
  - inversion H; subst. left. split; [reflexivity|left; discriminate].
  - destruct (a_env a) as [v|] eqn:Ee.
    + right. rewrite (react_no_pending _ _ _ _ _ _ _ Hp) in H.
      destruct (react_core c None SEnv a [v] None st) as [[st2 pr]| |] eqn:Er; [|discriminate|discriminate].
      cbn [rbind fst] in H. inversion H; subst st2.
      apply react_core_noncmd in Er; [|discriminate|discriminate|exact Eg].
      destruct Er as [vs [Hd [Hvs Hst]]]. exists v, vs.
      split; [reflexivity|]. split; [reflexivity|]. split; [exact Hd|]. split; [exact Hvs|exact Hst].
    + inversion H; subst. left. split; [reflexivity|right; reflexivity].
Qed.

(** The environment phase as a whole.  [j] ranges over ids that are not group ids (every
    argument id of a valid command). *)
Lemma add_env_fold_spec c : forall l st st',
  mt_pending (mt st) = None -> fold_left (env_step c) l (ROk st) = ROk st' ->
  mt_pending (mt st') = None /\ mt_sub (mt st') = mt_sub (mt st)
  (* entries present before the phase are untouched *)
  /\ (forall j m, find_group c j = None -> fm_get j (mt_args (mt st)) = Some m ->
        fm_get j (mt_args (mt st')) = Some m)
  (* an entry created by the phase is labelled EnvVariable and holds exactly the variable's value
     (delimited) of an argument of that id that had no entry *)
  /\ (forall j m', find_group c j = None -> fm_get j (mt_args (mt st)) = None ->
        fm_get j (mt_args (mt st')) = Some m' ->
        m_source m' = Some SEnv /\ m_is_group m' = false
        /\ exists a v vs, In a l /\ a_id a = j /\ a_env a = Some v
                          /\ delimit c a [v] None = Some vs /\ vs <> [] /\ m_raw m' = [vs])
  (* every argument whose variable is set has an entry afterwards *)
  /\ (forall a v, In a l -> a_env a = Some v -> find_group c (a_id a) = None ->
        fm_get (a_id a) (mt_args (mt st')) <> None)
  (* an argument without entry and without a set variable still has no entry *)
  /\ (forall j, find_group c j = None -> fm_get j (mt_args (mt st)) = None ->
        (forall a, In a l -> a_id a = j -> a_env a = None) ->
        fm_get j (mt_args (mt st')) = None).
Proof.
  induction l as [|a t IH]; intros st st' Hp H.
  - cbn in H. inversion H; subst. split; [exact Hp|]. split; [reflexivity|]. split; [intros j m _ G; exact G|].
    split; [intros j m' _ G G'; congruence|]. split; [intros a v []|]. intros j _ G _. exact G.
  - cbn [fold_left] in H.
    destruct (env_step c (ROk st) a) as [st1|e s1|x] eqn:E1;
      [|rewrite env_fold_err in H; discriminate|rewrite env_fold_panic in H; discriminate].
    destruct (env_step_spec c a st st1 Hp E1) as [[-> Hskip] | [v [vs [Eg [Ee [Hd [Hvs Hst]]]]]]].
    + destruct (IH st st' Hp H) as [P [S [K [N [Ex Ab]]]]].
      split; [exact P|]. split; [exact S|]. split; [exact K|]. split; [|split].
      * intros j m' Hg G G'. destruct (N j m' Hg G G') as [Hs [Hig [a0 [v0 [vs0 [Hin R]]]]]].
        split; [exact Hs|]. split; [exact Hig|]. exists a0, v0, vs0. split; [right; exact Hin|exact R].
      * intros a0 v0 [<-|Hin] He Hg.
        -- destruct Hskip as [Hc|Hn]; [|congruence].
           destruct (fm_get (a_id a) (mt_args (mt st))) as [m|] eqn:Eg; [|contradiction].
           rewrite (K _ m Hg Eg). discriminate.
        -- apply (Ex a0 v0 Hin He Hg).
      * intros j Hg G Hall. apply Ab; [exact Hg|exact G|]. intros a0 Hin. apply Hall. right. exact Hin.
    + destruct Hst as [[e1 [G1 S1]] [Hfresh [Hframe [P1 [Sub1 _]]]]].
      assert (Hp1 : mt_pending (mt st1) = None) by congruence.
      destruct (IH st1 st' Hp1 H) as [P [S [K [N [Ex Ab]]]]].
      assert (Hother : forall j, find_group c j = None -> beq (a_id a) j = false ->
                fm_get j (mt_args (mt st1)) = fm_get j (mt_args (mt st))).
      { intros j Hg Hj. apply Hframe; [exact Hj|]. intros _. exact Hg. }
      split; [exact P|]. split; [congruence|]. split; [|split; [|split]].
      * intros j m Hg G. apply K; [exact Hg|]. rewrite Hother; [exact G|exact Hg|].
        destruct (beq (a_id a) j) eqn:Ej; [|reflexivity]. apply beq_eq in Ej. subst j. congruence.
      * intros j m' Hg G G'. destruct (beq (a_id a) j) eqn:Ej.
        -- apply beq_eq in Ej. subst j.
           destruct (Hfresh (or_introl Hg)) as [e [Ge [Se [Re Ie]]]].
           rewrite (K _ e Hg Ge) in G'. inversion G'; subst m'.
           split; [exact Se|]. split; [exact Ie|]. exists a, v, vs.
           split; [left; reflexivity|]. split; [reflexivity|]. split; [exact Ee|]. split; [exact Hd|]. split; [exact Hvs|exact Re].
        -- assert (G1' : fm_get j (mt_args (mt st1)) = None) by (rewrite Hother; assumption).
           destruct (N j m' Hg G1' G') as [Hs [Hig [a0 [v0 [vs0 [Hin R]]]]]].
           split; [exact Hs|]. split; [exact Hig|]. exists a0, v0, vs0. split; [right; exact Hin|exact R].
      * intros a0 v0 [<-|Hin] He Hg.
        -- rewrite (K _ e1 Hg G1). discriminate.
        -- apply (Ex a0 v0 Hin He Hg).
      * intros j Hg G Hall. destruct (beq (a_id a) j) eqn:Ej.
        -- apply beq_eq in Ej. subst j. rewrite (Hall a (or_introl eq_refl) eq_refl) in Ee. discriminate.
        -- apply Ab; [exact Hg|rewrite Hother; assumption|]. intros a0 Hin. apply Hall. right. exact Hin.
Qed.

Theorem add_env_frame c st st' :
  mt_pending (mt st) = None -> add_env c st = ROk st' ->
  mt_pending (mt st') = None /\ mt_sub (mt st') = mt_sub (mt st)
  /\ (forall j m, find_group c j = None -> fm_get j (mt_args (mt st)) = Some m ->
        fm_get j (mt_args (mt st')) = Some m)
  /\ (forall j m', find_group c j = None -> fm_get j (mt_args (mt st)) = None ->
        fm_get j (mt_args (mt st')) = Some m' ->
        m_source m' = Some SEnv /\ m_is_group m' = false
        /\ exists a v vs, In a (c_args c) /\ a_id a = j /\ a_env a = Some v
                          /\ delimit c a [v] None = Some vs /\ vs <> [] /\ m_raw m' = [vs])
  /\ (forall a v, In a (c_args c) -> a_env a = Some v -> find_group c (a_id a) = None ->
        fm_get (a_id a) (mt_args (mt st')) <> None)
  /\ (forall j, find_group c j = None -> fm_get j (mt_args (mt st)) = None ->
        (forall a, In a (c_args c) -> a_id a = j -> a_env a = None) ->
        fm_get j (mt_args (mt st')) = None).
Proof. intros Hp H. rewrite add_env_unfold in H. exact (add_env_fold_spec c _ _ _ Hp H). Qed.

(** * 6. Values that came from defaults are invisible to the validator *)

Lemma fold_left_ext {A B} (f g : A -> B -> A) l : forall a,
  (forall x y, f x y = g x y) -> fold_left f l a = fold_left g l a.
Proof. induction l as [|h t IH]; intros a H; [reflexivity|]. cbn. rewrite H. apply IH. exact H. Qed.
Lemma existsb_pw {A} (f g : A -> bool) l : (forall x, f x = g x) -> existsb f l = existsb g l.
Proof. intros H. induction l as [|h t IH]; [reflexivity|]. cbn. rewrite H, IH. reflexivity. Qed.
Lemma forallb_pw {A} (f g : A -> bool) l : (forall x, f x = g x) -> forallb f l = forallb g l.
Proof. intros H. induction l as [|h t IH]; [reflexivity|]. cbn. rewrite H, IH. reflexivity. Qed.

(** two matchers the validator cannot tell apart *)
Definition vequiv (m m' : matcher) : Prop :=
  explicit_entries m = explicit_entries m' /\ mt_sub m = mt_sub m'
  /\ forall i p, check_explicit m i p = check_explicit m' i p.

Lemma fails_unless_equiv m m' a :
  (forall i p, check_explicit m i p = check_explicit m' i p) ->
  fails_arg_required_unless m a = fails_arg_required_unless m' a.
Proof.
  intros H. unfold fails_arg_required_unless.
  rewrite (forallb_pw _ (fun i => check_explicit m' i PIsPresent) (a_r_unless_all a)) by (intros; apply H).
  rewrite (existsb_pw _ (fun i => check_explicit m' i PIsPresent) (a_r_unless a)) by (intros; apply H).
  reflexivity.
Qed.

Lemma missing_required_equiv c m m' pot : vequiv m m' -> missing_required c m pot = missing_required c m' pot.
Proof.
  intros [He [_ Hc]]. unfold missing_required, gather_requires. rewrite He.
  destruct (fold_left _ (explicit_entries m') (Some (required_graph c))) as [required|]; [|reflexivity].
  match goal with |- match ?X with _ => _ end = match ?Y with _ => _ end => assert (EXY : X = Y) end.
  { apply fold_left_ext. intros acc aog. destruct acc as [[missing highest]|]; [|reflexivity].
    rewrite Hc. destruct (check_explicit m' aog PIsPresent); [reflexivity|].
    destruct (find_arg c aog); [reflexivity|]. destruct (find_group c aog); [|reflexivity].
    destruct (unroll_args_in_group c (g_id g)); [|reflexivity].
    rewrite (existsb_pw _ (fun x => check_explicit m' x PIsPresent) l) by (intros; apply Hc). reflexivity. }
  rewrite EXY. clear EXY.
  match goal with |- match ?Y with _ => _ end = _ => destruct Y as [[missing highest]|]; [|reflexivity] end.
  match goal with |- (let '(_, _) := ?X in _) = (let '(_, _) := ?Y in _) => assert (EXY : X = Y) end.
  { apply fold_left_ext. intros [ms hi] a. rewrite Hc.
    rewrite (existsb_pw _ (fun r => check_explicit m' (fst r) (PEquals (snd r))) (a_r_ifs a)) by (intros; apply Hc).
    rewrite (forallb_pw _ (fun r => check_explicit m' (fst r) (PEquals (snd r))) (a_r_ifs_all a)) by (intros; apply Hc).
    rewrite (fails_unless_equiv m m' a Hc). reflexivity. }
  rewrite EXY. clear EXY.
  match goal with |- (let '(_, _) := ?Y in _) = _ => destruct Y as [missing2 highest2] end.
  destruct (negb (is_set s_allow_missing_pos c)); [|reflexivity].
  f_equal. apply fold_left_ext. intros ms p. rewrite Hc. reflexivity.
Qed.

Theorem validate_equiv c m m' : vequiv m m' -> validate c m = validate c m'.
Proof.
  intros Hv. pose proof Hv as [He [Hs Hc]].
  unfold validate, conflicts_with_args, validate_conflicts, validate_exclusive.
  rewrite He, Hs, (missing_required_equiv c m m' _ Hv) || rewrite He, Hs.
  destruct (fold_right _ (Some []) (explicit_entries m')) as [pot|]; [|reflexivity].
  rewrite (missing_required_equiv c m m' pot Hv). reflexivity.
Qed.

Definition is_default_entry (p : id * marg) : Prop := m_source (snd p) = Some SDefault.

Lemma check_explicit_m_default p e : m_source e = Some SDefault -> check_explicit_m p e = false.
Proof. intros H. unfold check_explicit_m. rewrite H. reflexivity. Qed.

Lemma fm_get_all_default k news e :
  Forall is_default_entry news -> fm_get k news = Some e -> m_source e = Some SDefault.
Proof.
  induction news as [|[k0 e0] t IH]; intros F; [discriminate|]. inversion F; subst. cbn [fm_get].
  destruct (beq k0 k); [intros H; inversion H; subst; exact H1 | apply IH; exact H2].
Qed.

(** appending entries labelled [DefaultValue] to a matcher is invisible to the validator *)
Lemma vequiv_app_defaults m m' news :
  mt_args m' = mt_args m ++ news -> mt_sub m' = mt_sub m -> Forall is_default_entry news -> vequiv m m'.
Proof.
  intros A S F. unfold vequiv. split; [|split].
  - unfold explicit_entries. rewrite A, filter_app.
    assert (E : filter (fun p => check_explicit_m PIsPresent (snd p)) news = []).
    { clear A. induction news as [|p t IH]; [reflexivity|]. inversion F; subst. cbn [filter].
      rewrite (check_explicit_m_default _ _ H1). apply IH. exact H2. }
    rewrite E, app_nil_r. reflexivity.
  - symmetry. exact S.
  - intros i p. unfold check_explicit. rewrite A, fm_get_app.
    destruct (fm_get i (mt_args m)) as [e|]; [reflexivity|].
    destruct (fm_get i news) as [e|] eqn:G; [|reflexivity].
    rewrite (check_explicit_m_default p e (fm_get_all_default _ _ _ F G)). reflexivity.
Qed.

(** the validator gives the same verdict before and after the defaults phase: values that came
    from defaults trigger no conflict, no requirement, no "arguments present" logic — and satisfy none *)
Theorem defaults_inert c st st' :
  mt_pending (mt st) = None -> add_defaults c st = ROk st' ->
  validate c (mt st') = validate c (mt st)
  /\ explicit_entries (mt st') = explicit_entries (mt st)
  /\ (forall i p, check_explicit (mt st') i p = check_explicit (mt st) i p).
Proof.
  intros Hp H. destruct (add_defaults_frame c st st' Hp H) as [_ [S [[news [A F]] _]]].
  assert (Hv : vequiv (mt st) (mt st')).
  { apply (vequiv_app_defaults _ _ news A S). eapply Forall_impl; [|exact F]. intros p [Hs _]. exact Hs. }
  split; [symmetry; apply validate_equiv; exact Hv|]. destruct Hv as [He [_ Hc]].
  split; [symmetry; exact He | intros i p; symmetry; apply Hc].
Qed.

(** the general form: dropping every [DefaultValue] entry from a matcher with distinct keys *)
Definition is_default_b (p : id * marg) : bool :=
  match m_source (snd p) with Some SDefault => true | _ => false end.
Definition drop_defaults (m : matcher) : matcher :=
  m <| mt_args := filter (fun p => negb (is_default_b p)) (mt_args m) |>.

Lemma fm_get_none_notin {V} k (l : list (id * V)) : ~ In k (map fst l) -> fm_get k l = None.
Proof.
  induction l as [|[k0 v] t IH]; [reflexivity|]. cbn [map fst fm_get In]. intros H.
  destruct (beq k0 k) eqn:E; [apply beq_eq in E; subst; exfalso; apply H; left; reflexivity|].
  apply IH. intros Hin. apply H. right. exact Hin.
Qed.

Lemma fm_get_filter_nodup {V} (g : id * V -> bool) k : forall (l : list (id * V)),
  NoDup (map fst l) ->
  fm_get k (filter g l) = match fm_get k l with Some v => if g (k, v) then Some v else None | None => None end.
Proof.
  induction l as [|[k0 v] t IH]; intros Hnd; [reflexivity|]. cbn [map fst] in Hnd. inversion Hnd; subst.
  cbn [filter fm_get]. destruct (beq k0 k) eqn:E.
  - apply beq_eq in E. subst k0. destruct (g (k, v)).
    + cbn [fm_get]. rewrite beq_refl. reflexivity.
    + rewrite (IH H2). rewrite (fm_get_none_notin k t H1). reflexivity.
  - destruct (g (k0, v)); [cbn [fm_get]; rewrite E|]; apply IH; exact H2.
Qed.

Theorem validate_drop_defaults c m :
  NoDup (map fst (mt_args m)) -> validate c (drop_defaults m) = validate c m.
Proof.
  intros Hnd. symmetry. apply validate_equiv. unfold vequiv. split; [|split].
  - unfold explicit_entries, drop_defaults. cbn.
    induction (mt_args m) as [|p t IH]; [reflexivity|]. cbn [filter map fst] in *. inversion Hnd; subst.
    destruct (check_explicit_m PIsPresent (snd p)) eqn:Ec.
    + assert (Hd : is_default_b p = false).
      { unfold is_default_b. unfold check_explicit_m in Ec. destruct (m_source (snd p)) as [[]|]; try reflexivity. discriminate. }
      rewrite Hd. cbn [negb filter]. rewrite Ec. f_equal. apply IH. exact H2.
    + destruct (negb (is_default_b p)); [cbn [filter]; rewrite Ec|]; apply IH; exact H2.
  - reflexivity.
  - intros i p. unfold check_explicit, drop_defaults. cbn. rewrite (fm_get_filter_nodup _ i _ Hnd).
    destruct (fm_get i (mt_args m)) as [e|]; [|reflexivity].
    unfold is_default_b. cbn [snd]. destruct (m_source e) as [[]|] eqn:Es; cbn [negb]; try reflexivity.
    apply check_explicit_m_default. exact Es.
Qed.

(** [ArgMatches::args_present] sees exactly the validator's explicit entries (when every entry
    carries a source, which every writer guarantees), hence no default *)
Lemma args_present_explicit m :
  (forall p, In p (mt_args m) -> m_source (snd p) <> None) ->
  args_present (into_inner m) = negb (is_nil (explicit_entries m)).
Proof.
  unfold args_present, into_inner, explicit_entries. cbn [ms_args].
  induction (mt_args m) as [|p t IH]; intros Hsrc; [reflexivity|]. cbn [existsb filter].
  assert (E : marg_explicit (snd p) = check_explicit_m PIsPresent (snd p)).
  { unfold marg_explicit, check_explicit_m. specialize (Hsrc p (or_introl eq_refl)).
    destruct (m_source (snd p)) as [[]|]; try reflexivity. contradiction. }
  rewrite E. destruct (check_explicit_m PIsPresent (snd p)); [reflexivity|].
  apply IH. intros q Hq. apply Hsrc. right. exact Hq.
Qed.

Theorem args_present_ignores_defaults c st st' :
  mt_pending (mt st) = None -> add_defaults c st = ROk st' ->
  args_present (into_inner (mt st')) = args_present (into_inner (mt st)).
Proof.
  intros Hp H. destruct (add_defaults_frame c st st' Hp H) as [_ [_ [[news [A F]] _]]].
  unfold args_present, into_inner. cbn [ms_args]. rewrite A, existsb_app.
  assert (E : existsb (fun p => marg_explicit (snd p)) news = false).
  { clear A. induction news as [|p t IH]; [reflexivity|]. inversion F; subst. cbn [existsb].
    destruct H2 as [Hs _]. unfold marg_explicit at 1. rewrite Hs. cbn. apply IH. exact H3. }
  rewrite E, orb_false_r. reflexivity.
Qed.

(** * 7. Phase order of [get_matches_with] *)

(** the command-line phase: the token loop and the dispatch into a subcommand (a verbatim copy of
    the [parsed] block of [Parser.get_matches_with]; [get_matches_with_unfold] is proved by
    [reflexivity]) *)
Definition cmdline_phase (fuel' : nat) (c : cmd) (toks : list bytes) (st0 : ps) : res ps :=
  do lr <- parse_loop c toks (mkL PSValuesDone 1 false false) st0;
  let after_sub (name : bytes) (keep_state vaf : bool) (st : ps) (rest : list bytes) : res ps :=
    if is_set s_args_negate_subs c && vaf then
      RErr (mkerr c EArgumentConflict name) st
    else
      do sc0 <- expect 494 (find_subcommand c name);
      match build_subcommand c (c_name sc0) with
      | None => ROk st
      | Some sc =>
          if negb (assert_app sc) then RPanic 4407 else
          let sub_st0 := if keep_state then mkPs matcher_new (cur_idx st) (fs_at st) (fs_skip st) else ps_new in
          let finish (sub_st : ps) : res ps :=
            ROk (st <| mt := (mt st) <| mt_sub := Some (c_name sc, into_inner (mt sub_st)) |> |>) in
          match get_matches_with fuel' sc rest sub_st0 with
          | ROk sub_st => finish sub_st
          | RErr e sub_st => if is_set s_ignore_errors c then finish sub_st else RErr e st
          | RPanic s => RPanic s
          end
      end in
  match lr with
  | LDone st => ROk st
  | LSub name keep vaf st rest => after_sub name keep vaf st rest
  | LHelpSub names st => RErr (help_walk c names) st
  | LExternal name vals st =>
      let vp := opt_default VPOsString (c_ext_vp c) in
      let sc_m := start_custom_arg_m matcher_new (arg_new ext_id) SCmdLine in
      let filled := fold_left (fun rm v =>
                      do m <- rm;
                      match vp_parse vp v with
                      | Some k => RErr (mkerr c k []) st
                      | None => expect 458 (add_val_to m ext_id v)
                      end) vals (ROk sc_m) in
      do m <- filled;
      ROk (st <| mt := (mt st) <| mt_sub := Some (name, into_inner m) |> |>)
  end.

Lemma get_matches_with_unfold fuel' c toks st0 :
  get_matches_with (S fuel') c toks st0 =
  match cmdline_phase fuel' c toks st0 with
  | RPanic s => RPanic s
  | RErr e st =>
      if is_set s_ignore_errors c then
        let st0 := match resolve_pending c st with ROk s => s | RErr _ s => s | RPanic _ => st end in
        let st1 := match add_env c st0 with ROk s => s | RErr _ s => s | RPanic _ => st0 end in
        let st2 := match add_defaults c st1 with ROk s => s | RErr _ s => s | RPanic _ => st1 end in
        match resolve_pending c st with
        | RPanic s => RPanic s
        | _ =>
          match add_env c st0, add_defaults c st1 with
          | RPanic s, _ => RPanic s
          | _, RPanic s => RPanic s
          | _, _ => RErr e st2
          end
        end
      else RErr e st
  | ROk st =>
      do st1 <- resolve_pending c st;
      do st2 <- add_env c st1;
      do st3 <- add_defaults c st2;
      vres_to_res c (validate c (mt st3)) st3
  end.
Proof. reflexivity. Qed.

(** the entries after the command-line phase are those the token loop left *)
Lemma cmdline_phase_args fuel' c toks st0 st :
  cmdline_phase fuel' c toks st0 = ROk st ->
  exists lr st_l, parse_loop c toks (mkL PSValuesDone 1 false false) st0 = ROk lr
    /\ mt_args (mt st) = mt_args (mt st_l) /\ mt_pending (mt st) = mt_pending (mt st_l)
    /\ match lr with LDone s | LSub _ _ _ s _ | LExternal _ _ s | LHelpSub _ s => s = st_l end.
Proof.
  unfold cmdline_phase. destruct (parse_loop c toks _ st0) as [lr| |]; [|discriminate|discriminate].
  cbn [rbind]. intros H. exists lr. destruct lr as [s|name keep vaf s rest|name vals s|names s].
  - inversion H; subst. exists st. repeat split.
  - exists s. destruct (is_set s_args_negate_subs c && vaf); [discriminate|].
    destruct (find_subcommand c name) as [sc0|]; [|discriminate]. cbn [expect rbind] in H.
    destruct (build_subcommand c (c_name sc0)) as [sc|]; [|inversion H; subst; repeat split].
    destruct (negb (assert_app sc)); [discriminate|].
    destruct (get_matches_with fuel' sc rest _) as [sub_st|e sub_st|x].
    + inversion H; subst. repeat split.
    + destruct (is_set s_ignore_errors c); [|discriminate]. inversion H; subst. repeat split.
    + discriminate.
  - exists s. cbn zeta in H. destruct (fold_left _ vals _) as [m| |]; [|discriminate|discriminate].
    cbn [rbind] in H. inversion H; subst. repeat split.
  - discriminate.
Qed.

Lemma resolve_pending_clears c st st1 : resolve_pending c st = ROk st1 -> mt_pending (mt st1) = None.
Proof.
  unfold resolve_pending. destruct (mt_pending (mt st)) as [p|] eqn:Ep.
  - destruct (find_arg c (p_id p)) as [a|]; [|discriminate]. cbn [expect rbind].
    destruct (react_core c (p_ident p) SCmdLine a (p_raw p) (p_trailing_idx p) _) as [[st2 pr]| |] eqn:Er; [|discriminate|discriminate].
    cbn [rbind fst]. intros H; inversion H; subst st2. clear H.
    rewrite react_core_unfold in Er. cbn [is_cmdline] in Er.
    destruct (verify_num_args _ _ _ _); [|discriminate|discriminate]. cbn [rbind] in Er.
    unfold react_tail in Er. destruct (delimit c a _ _) as [vs|]; [|discriminate]. cbn [expect rbind] in Er.
    set (st0 := st <| mt := mt st <| mt_pending := None |> |>) in *.
    assert (Hstore : forall m1 (sx : ps) vs' sy pr',
      mt_pending m1 = None ->
      (do m2 <- start_custom_arg c a SCmdLine m1;
       do st' <- push_arg_values c a vs' (sx <| mt := m2 |>); ROk (st', PRValuesDone)) = ROk (sy, pr') ->
      mt_pending (mt sy) = None).
    { intros m1 sx vs' sy pr' Hm1 Hq.
      destruct (start_custom_arg c a SCmdLine m1) as [m2| |] eqn:E1; [|discriminate|discriminate]. cbn [rbind] in Hq.
      destruct (push_arg_values c a vs' _) as [s2| |] eqn:E2; [|discriminate|discriminate]. cbn [rbind] in Hq.
      inversion Hq; subst. apply push_arg_values_spec in E2. destruct E2 as [_ [_ [P2 _]]]. rewrite P2. cbn.
      clear -E1 Hm1. unfold start_custom_arg in E1. cbn [src_explicit] in E1.
      assert (Hro : mt_pending (remove_overrides c a m1) = None).
      { unfold remove_overrides.
        assert (Hfold : forall l m, mt_pending m = None -> mt_pending (fold_left (fun m o => fst (mt_remove m o)) l m) = None).
        { induction l as [|o t IH]; intros m Hm; [exact Hm|]. cbn [fold_left]. apply IH.
          unfold mt_remove. destruct (fm_remove o (mt_args m)). exact Hm. }
        apply Hfold. apply Hfold. exact Hm1. }
      change (fold_left (group_step a SCmdLine) (groups_for_arg c (a_id a))
                (ROk (start_custom_arg_m (remove_overrides c a m1) a SCmdLine)) = ROk m2) in E1.
      apply group_fold_spec in E1. destruct E1 as [_ [P _]]. rewrite P. exact Hro. }
    assert (Hrm : forall (sx : ps) i, mt_pending (mt sx) = None -> mt_pending (fst (mt_remove (mt sx) i)) = None).
    { intros sx i Hx. unfold mt_remove. destruct (fm_remove i (mt_args (mt sx))). exact Hx. }
    destruct (a_get_action a); try discriminate.
    + (* Set *)
      match type of Er with context [mt_remove (mt ?S) ?I] =>
        pose proof (Hrm S I) as Hr; destruct (mt_remove (mt S) I) as [m1 removed] end.
      cbn [fst] in Hr. destruct (removed && _); [discriminate|].
      eapply Hstore in Er; [exact Er|]. apply Hr. destruct (true && is_cmdline SCmdLine && is_flag_ident (p_ident p)); reflexivity.
    + (* Append *)
      eapply Hstore in Er; [exact Er|]. destruct (is_cmdline SCmdLine && is_flag_ident (p_ident p)); reflexivity.
    + match type of Er with context [mt_remove (mt ?S) ?I] =>
        pose proof (Hrm S I) as Hr; destruct (mt_remove (mt S) I) as [m1 removed] end.
      cbn [fst] in Hr. destruct (removed && _); [discriminate|].
      eapply Hstore in Er; [exact Er|]. apply Hr. reflexivity.
    + match type of Er with context [mt_remove (mt ?S) ?I] =>
        pose proof (Hrm S I) as Hr; destruct (mt_remove (mt S) I) as [m1 removed] end.
      cbn [fst] in Hr. destruct (removed && _); [discriminate|].
      eapply Hstore in Er; [exact Er|]. apply Hr. reflexivity.
    + match type of Er with context [mt_remove (mt ?S) ?I] =>
        pose proof (Hrm S I) as Hr; destruct (mt_remove (mt S) I) as [m1 removed] end.
      cbn [fst] in Hr. eapply Hstore in Er; [exact Er|]. apply Hr. reflexivity.
  - intros H; inversion H; subst. exact Ep.
Qed.

(** on success, [get_matches_with] is validate ∘ add_defaults ∘ add_env ∘ resolve_pending ∘ command line *)
Theorem phase_order fuel' c toks st0 st :
  get_matches_with (S fuel') c toks st0 = ROk st ->
  exists st_c st1 st2,
    cmdline_phase fuel' c toks st0 = ROk st_c
    /\ resolve_pending c st_c = ROk st1 /\ mt_pending (mt st1) = None
    /\ add_env c st1 = ROk st2 /\ mt_pending (mt st2) = None
    /\ add_defaults c st2 = ROk st
    /\ validate c (mt st) = VOk /\ validate c (mt st2) = VOk.
Proof.
  rewrite get_matches_with_unfold.
  destruct (cmdline_phase fuel' c toks st0) as [st_c|e s|x] eqn:Ec.
  2: { destruct (is_set s_ignore_errors c); [|discriminate]. cbn zeta.
       destruct (resolve_pending c s) as [s0|e0 s0|x0]; [| |discriminate];
         (destruct (add_env c s0) as [s1|e1 s1|x1]; [| |discriminate];
           match goal with |- context [add_defaults c ?S] => destruct (add_defaults c S) end; discriminate). }
  2: discriminate.
  destruct (resolve_pending c st_c) as [st1| |] eqn:E1; [|discriminate|discriminate]. cbn [rbind].
  destruct (add_env c st1) as [st2| |] eqn:E2; [|discriminate|discriminate]. cbn [rbind].
  destruct (add_defaults c st2) as [st3| |] eqn:E3; [|discriminate|discriminate]. cbn [rbind].
  unfold vres_to_res. destruct (validate c (mt st3)) eqn:Ev; [|discriminate|discriminate].
  intros H; inversion H; subst st3. clear H.
  pose proof (resolve_pending_clears c st_c st1 E1) as P1.
  destruct (add_env_frame c st1 st2 P1 E2) as [P2 _].
  exists st_c, st1, st2. repeat split; try assumption.
  destruct (defaults_inert c st2 st P2 E3) as [Hv _]. rewrite <- Hv. exact Ev.
Qed.

(** argument and group ids of the level are pairwise distinct (a validity condition of
    [debug_asserts.rs]: "Argument names must be unique", "Argument group name must be unique") *)
Definition ids_distinct (c : cmd) : Prop :=
  NoDup (map a_id (c_args c)) /\ forall a, In a (c_args c) -> find_group c (a_id a) = None.

Lemma nodup_map_inj {A B} (f : A -> B) : forall l x y,
  NoDup (map f l) -> In x l -> In y l -> f x = f y -> x = y.
Proof.
  induction l as [|h t IH]; intros x y Hnd Hx Hy Hf; [destruct Hx|]. cbn [map] in Hnd. inversion Hnd; subst.
  destruct Hx as [<-|Hx], Hy as [<-|Hy].
  - reflexivity.
  - exfalso. apply H1. rewrite Hf. apply in_map. exact Hy.
  - exfalso. apply H1. rewrite <- Hf. apply in_map. exact Hx.
  - apply IH; assumption.
Qed.

(** The precedence lattice, per argument of the level, on every successful parse:
    - an argument that has an entry after the command line keeps exactly that entry;
    - otherwise, if its environment variable is set, its entry holds exactly the (delimited)
      value of the variable and is labelled [EnvVariable];
    - otherwise its entry is what [default_choice] gives at its turn of the defaults phase,
      labelled [DefaultValue], or it has no entry at all. *)
Theorem precedence fuel' c toks st0 st :
  ids_distinct c ->
  get_matches_with (S fuel') c toks st0 = ROk st ->
  exists st_c st1 st2,
    cmdline_phase fuel' c toks st0 = ROk st_c /\ resolve_pending c st_c = ROk st1
    /\ add_env c st1 = ROk st2 /\ add_defaults c st2 = ROk st
    /\ forall pre a post, c_args c = pre ++ a :: post ->
       match fm_get (a_id a) (mt_args (mt st1)) with
       | Some m => fm_get (a_id a) (mt_args (mt st)) = Some m
       | None =>
           match a_env a with
           | Some v => exists vs e, delimit c a [v] None = Some vs /\ vs <> []
                         /\ fm_get (a_id a) (mt_args (mt st)) = Some e
                         /\ m_source e = Some SEnv /\ m_raw e = [vs]
           | None => exists st_a ch,
                       fold_left (defaults_step c) pre (ROk st2) = ROk st_a
                       /\ default_choice a (mt st_a) ch
                       /\ match ch with
                          | None => fm_get (a_id a) (mt_args (mt st)) = None
                          | Some raw => exists vs e, delimit c a raw None = Some vs /\ vs <> []
                                          /\ fm_get (a_id a) (mt_args (mt st)) = Some e
                                          /\ m_source e = Some SDefault /\ m_raw e = [vs]
                          end
           end
       end.
Proof.
  intros [Hnd Hng] H. destruct (phase_order _ _ _ _ _ H) as [st_c [st1 [st2 [Ec [E1 [P1 [E2 [P2 [E3 _]]]]]]]]].
  exists st_c, st1, st2. repeat split; try assumption.
  intros pre a post Hsplit.
  assert (Hin : In a (c_args c)) by (rewrite Hsplit; apply in_or_app; right; left; reflexivity).
  pose proof (Hng a Hin) as Hg.
  destruct (add_env_frame c st1 st2 P1 E2) as [_ [_ [Ek [En [Ex Ea]]]]].
  destruct (add_defaults_frame c st2 st P2 E3) as [_ [_ [_ [Dk _]]]].
  destruct (fm_get (a_id a) (mt_args (mt st1))) as [m|] eqn:G1.
  - apply Dk. apply Ek; assumption.
  - destruct (a_env a) as [v|] eqn:Ee.
    + pose proof (Ex a v Hin Ee Hg) as Hne.
      destruct (fm_get (a_id a) (mt_args (mt st2))) as [e|] eqn:G2; [|contradiction].
      destruct (En (a_id a) e Hg G1 G2) as [Se [_ [a' [v' [vs [Hin' [Hid [Ee' [Hd [Hvs Re]]]]]]]]]].
      assert (a' = a) by (eapply nodup_map_inj; eassumption). subst a'.
      rewrite Ee in Ee'. inversion Ee'; subst v'.
      exists vs, e. repeat split; try assumption. apply Dk. exact G2.
    + assert (G2 : fm_get (a_id a) (mt_args (mt st2)) = None).
      { apply Ea; [exact Hg|exact G1|]. intros a' Hin' Hid.
        assert (a' = a) by (eapply nodup_map_inj; eassumption). subst a'. exact Ee. }
      destruct (add_defaults_decides c st2 st pre a post Hnd Hsplit P2 E3) as [st_a [Hf [_ Hdec]]].
      destruct (Hdec G2) as [ch [Hch Hres]]. exists st_a, ch. repeat split; assumption.
Qed.

(** * 8. After the command-line phase every entry is labelled [CommandLine] *)

Definition entry_cl (p : id * marg) : Prop := m_source (snd p) = Some SCmdLine.
Definition all_cl (m : matcher) : Prop := Forall entry_cl (mt_args m).

Lemma all_remove k l : Forall entry_cl l -> Forall entry_cl (fst (fm_remove k l)).
Proof.
  induction l as [|[k0 e] t IH]; intros F; [constructor|]. inversion F; subst. cbn [fm_remove].
  destruct (beq k0 k); [exact H2|]. destruct (fm_remove k t) as [t' b]. cbn [fst] in *.
  constructor; [exact H1|apply IH; exact H2].
Qed.
Lemma all_update k f l :
  (forall e, m_source e = Some SCmdLine -> m_source (f e) = Some SCmdLine) ->
  Forall entry_cl l -> Forall entry_cl (fm_update k f l).
Proof.
  intros Hf. induction l as [|[k0 e] t IH]; intros F; [constructor|]. inversion F; subst. cbn [fm_update].
  destruct (beq k0 k); constructor; try assumption; [apply Hf; exact H1|apply IH; exact H2].
Qed.
Lemma all_entry_or_insert k v0 f l :
  (forall e, m_source e = Some SCmdLine -> m_source (f e) = Some SCmdLine) ->
  m_source (f v0) = Some SCmdLine ->
  Forall entry_cl l -> Forall entry_cl (fm_entry_or_insert k v0 f l).
Proof.
  intros Hf H0 F. unfold fm_entry_or_insert. destruct (fm_contains k l).
  - apply all_update; assumption.
  - apply Forall_app. split; [exact F|]. constructor; [exact H0|constructor].
Qed.
Lemma fm_get_forall k l e : Forall entry_cl l -> fm_get k l = Some e -> m_source e = Some SCmdLine.
Proof.
  induction l as [|[k0 e0] t IH]; intros F; [discriminate|]. inversion F; subst. cbn [fm_get].
  destruct (beq k0 k); [intros H; inversion H; subst; exact H1|apply IH; exact H2].
Qed.

Lemma new_group_cl e : m_source (new_val_group (set_source SCmdLine e)) = Some SCmdLine.
Proof. unfold new_val_group, set_source. cbn. destruct (m_source e) as [[]|]; reflexivity. Qed.

Lemma all_cl_mt_remove m i : all_cl m -> all_cl (fst (mt_remove m i)).
Proof. unfold all_cl, mt_remove. intros F. pose proof (all_remove i _ F) as H. destruct (fm_remove i (mt_args m)). exact H. Qed.

Lemma all_cl_remove_fold l : forall m, all_cl m -> all_cl (fold_left (fun m o => fst (mt_remove m o)) l m).
Proof. induction l as [|o t IH]; intros m F; [exact F|]. cbn [fold_left]. apply IH. apply all_cl_mt_remove. exact F. Qed.

Lemma all_cl_remove_overrides c a m : all_cl m -> all_cl (remove_overrides c a m).
Proof. intros F. unfold remove_overrides. apply all_cl_remove_fold. apply all_cl_remove_fold. exact F. Qed.

Lemma all_cl_start_arg m a : all_cl m -> all_cl (start_custom_arg_m m a SCmdLine).
Proof.
  intros F. unfold all_cl, start_custom_arg_m. cbn. apply all_entry_or_insert; [| |exact F]; intros; apply new_group_cl.
Qed.
Lemma all_cl_start_group m g : all_cl m -> all_cl (start_custom_group_m m g SCmdLine).
Proof.
  intros F. unfold all_cl, start_custom_group_m. cbn. apply all_entry_or_insert; [| |exact F]; intros; apply new_group_cl.
Qed.
Lemma all_cl_add_val m i v m' : add_val_to m i v = Some m' -> all_cl m -> all_cl m'.
Proof.
  intros H F. apply add_val_to_spec in H. destruct H as [e [gs [g [G [R [A _]]]]]].
  unfold all_cl. rewrite A. apply all_update; [|exact F]. intros _ _. cbn. exact (fm_get_forall _ _ _ F G).
Qed.
Lemma all_cl_add_index m i ix m' : add_index_to m i ix = Some m' -> all_cl m -> all_cl m'.
Proof.
  intros H F. apply add_index_to_spec in H. destruct H as [A _]. unfold all_cl. rewrite A.
  apply all_update; [|exact F]. intros e He. exact He.
Qed.

Lemma all_cl_start_custom_arg c a m m2 : start_custom_arg c a SCmdLine m = ROk m2 -> all_cl m -> all_cl m2.
Proof.
  intros H F. unfold start_custom_arg in H. cbn [src_explicit] in H.
  assert (F0 : all_cl (start_custom_arg_m (remove_overrides c a m) a SCmdLine))
    by (apply all_cl_start_arg, all_cl_remove_overrides; exact F).
  revert H F0. generalize (start_custom_arg_m (remove_overrides c a m) a SCmdLine).
  induction (groups_for_arg c (a_id a)) as [|g t IH]; intros m0 H F0.
  - cbn in H. inversion H; subst. exact F0.
  - cbn [fold_left] in H. cbn [rbind] in H.
    destruct (add_val_to (start_custom_group_m m0 g SCmdLine) g (a_id a)) as [m1|] eqn:E.
    + cbn [expect] in H. apply (IH m1 H). eapply all_cl_add_val; [exact E|]. apply all_cl_start_group. exact F0.
    + cbn [expect] in H. exfalso. clear -H. induction t as [|g' t' IH']; [discriminate|apply IH'; exact H].
Qed.

Lemma all_cl_push_arg_values c a : forall raw st st',
  push_arg_values c a raw st = ROk st' -> all_cl (mt st) -> all_cl (mt st').
Proof.
  induction raw as [|v t IH]; intros st st' H F.
  - cbn in H. inversion H; subst. exact F.
  - cbn [push_arg_values] in H.
    destruct (a_vp a) as [vp|]; [|discriminate]. cbn [expect rbind] in H.
    destruct (vp_parse vp v); [discriminate|].
    destruct (add_val_to (mt (ps_bump st)) (a_id a) v) as [m1|] eqn:E1; [|discriminate]. cbn [expect rbind] in H.
    destruct (add_index_to m1 (a_id a) (cur_idx (ps_bump st))) as [m2|] eqn:E2; [|discriminate]. cbn [expect rbind] in H.
    apply (IH _ _ H). cbn. eapply all_cl_add_index; [exact E2|]. eapply all_cl_add_val; [exact E1|]. exact F.
Qed.

Lemma all_cl_store c a vs (st0 : ps) m1 st' pr :
  all_cl m1 ->
  (do m2 <- start_custom_arg c a SCmdLine m1;
   do st' <- push_arg_values c a vs (st0 <| mt := m2 |>);
   ROk (st', PRValuesDone)) = ROk (st', pr) -> all_cl (mt st').
Proof.
  intros F H.
  destruct (start_custom_arg c a SCmdLine m1) as [m2| |] eqn:E1; [|discriminate|discriminate]. cbn [rbind] in H.
  destruct (push_arg_values c a vs _) as [s2| |] eqn:E2; [|discriminate|discriminate]. cbn [rbind] in H.
  inversion H; subst. eapply all_cl_push_arg_values; [exact E2|]. cbn. eapply all_cl_start_custom_arg; eassumption.
Qed.

(** a command-line [react] keeps the invariant *)
Lemma all_cl_react_core c idn a raw ti st st' pr :
  react_core c idn SCmdLine a raw ti st = ROk (st', pr) -> all_cl (mt st) -> all_cl (mt st').
Proof.
  intros H F. rewrite react_core_unfold in H. cbn [is_cmdline] in H.
  destruct (verify_num_args _ _ _ _); [|discriminate|discriminate]. cbn [rbind] in H.
  unfold react_tail in H. destruct (delimit c a _ _) as [vs|]; [|discriminate]. cbn [expect rbind] in H.
  destruct (a_get_action a); try discriminate.
  - match type of H with context [mt_remove (mt ?S) ?I] =>
      assert (Hr : all_cl (fst (mt_remove (mt S) I))) by (apply all_cl_mt_remove; destruct (true && _ && _); exact F);
      destruct (mt_remove (mt S) I) as [m1 removed] end.
    cbn [fst] in Hr. destruct (removed && _); [discriminate|]. eapply all_cl_store; eassumption.
  - eapply all_cl_store; [|exact H]. destruct (is_cmdline SCmdLine && _); exact F.
  - match type of H with context [mt_remove (mt ?S) ?I] =>
      assert (Hr : all_cl (fst (mt_remove (mt S) I))) by (apply all_cl_mt_remove; exact F);
      destruct (mt_remove (mt S) I) as [m1 removed] end.
    cbn [fst] in Hr. destruct (removed && _); [discriminate|]. eapply all_cl_store; eassumption.
  - match type of H with context [mt_remove (mt ?S) ?I] =>
      assert (Hr : all_cl (fst (mt_remove (mt S) I))) by (apply all_cl_mt_remove; exact F);
      destruct (mt_remove (mt S) I) as [m1 removed] end.
    cbn [fst] in Hr. destruct (removed && _); [discriminate|]. eapply all_cl_store; eassumption.
  - match type of H with context [mt_remove (mt ?S) ?I] =>
      assert (Hr : all_cl (fst (mt_remove (mt S) I))) by (apply all_cl_mt_remove; exact F);
      destruct (mt_remove (mt S) I) as [m1 removed] end.
    cbn [fst] in Hr. eapply all_cl_store; eassumption.
Qed.

Lemma all_cl_resolve_pending c st st1 : resolve_pending c st = ROk st1 -> all_cl (mt st) -> all_cl (mt st1).
Proof.
  unfold resolve_pending. destruct (mt_pending (mt st)) as [p|]; [|intros H F; inversion H; subst; exact F].
  destruct (find_arg c (p_id p)) as [a|]; [|discriminate]. cbn [expect rbind].
  destruct (react_core c _ SCmdLine a _ _ _) as [[s2 pr]| |] eqn:Er; [|discriminate|discriminate].
  cbn [rbind fst]. intros H F. inversion H; subst. eapply all_cl_react_core; [exact Er|]. exact F.
Qed.

Lemma all_cl_react c idn a raw ti st x :
  react c idn SCmdLine a raw ti st = ROk x -> all_cl (mt st) -> all_cl (mt (fst x)).
Proof.
  unfold react. destruct (resolve_pending c st) as [st1| |] eqn:E1; [|discriminate|discriminate]. cbn [rbind].
  destruct x as [st' pr]. intros H F. eapply all_cl_react_core; [exact H|]. eapply all_cl_resolve_pending; eassumption.
Qed.

(** partial-correctness predicate: if the computation succeeds, [Q] holds of the result *)
Definition okI {A} (r : res A) (Q : A -> Prop) : Prop := match r with ROk a => Q a | _ => True end.

Lemma okI_bind {A B} (r : res A) (f : A -> res B) (Q1 : A -> Prop) (Q2 : B -> Prop) :
  okI r Q1 -> (forall a, Q1 a -> okI (f a) Q2) -> okI (rbind r f) Q2.
Proof. destruct r; cbn; auto. Qed.
Lemma okI_expect {A B} site (o : option A) (f : A -> res B) Q :
  (forall a, o = Some a -> okI (f a) Q) -> okI (rbind (expect site o) f) Q.
Proof. destruct o; cbn; auto. Qed.
Lemma okI_of_imp {A} (r : res A) (Q : A -> Prop) : (forall a, r = ROk a -> Q a) -> okI r Q.
Proof. destruct r; cbn; auto. Qed.

Section LoopInv.
Variable c : cmd.

Lemma okI_react idn a raw ti st :
  all_cl (mt st) -> okI (react c idn SCmdLine a raw ti st) (fun x => all_cl (mt (fst x))).
Proof. intros F. apply okI_of_imp. intros x H. eapply all_cl_react; eassumption. Qed.
Lemma okI_resolve_pending st : all_cl (mt st) -> okI (resolve_pending c st) (fun s => all_cl (mt s)).
Proof. intros F. apply okI_of_imp. intros x H. eapply all_cl_resolve_pending; eassumption. Qed.

Lemma pending_values_push_args m i idn tr v m' : pending_values_push m i idn tr v = Some m' -> mt_args m' = mt_args m.
Proof.
  unfold pending_values_push. destruct (negb (beq _ i)); [discriminate|]. destruct (is_some idn && _); [discriminate|].
  intros H; inversion H; subst. reflexivity.
Qed.
Lemma start_trailing_args m : mt_args (start_trailing m) = mt_args m.
Proof. unfold start_trailing. destruct (mt_pending m); reflexivity. Qed.

Lemma okI_parse_opt_value idn att a has_eq st :
  all_cl (mt st) -> okI (parse_opt_value c idn att a has_eq st) (fun x => all_cl (mt (fst x))).
Proof.
  intros F. unfold parse_opt_value. destruct (a_req_eq a && negb has_eq).
  - apply okI_expect. intros r _. destruct (vmin r =? 0); [|exact F].
    eapply okI_bind; [apply okI_react; exact F|]. intros x Hx. exact Hx.
  - destruct att as [v|].
    + eapply okI_bind; [apply okI_react; exact F|]. intros x Hx. exact Hx.
    + eapply okI_bind; [apply okI_resolve_pending; exact F|]. intros st1 F1.
      apply okI_expect. intros m Hm. cbn. unfold all_cl. rewrite (pending_values_push_args _ _ _ _ _ _ Hm). exact F1.
Qed.

Lemma okI_parse_long_arg flag ok v pst pc vaf st :
  all_cl (mt st) -> okI (parse_long_arg c flag ok v pst pc vaf st) (fun x => all_cl (mt (fst (fst x)))).
Proof.
  intros F. unfold parse_long_arg.
  eapply okI_bind with (Q1 := fun _ => True); [destruct (state_arg c pst); exact I|]. intros sa _.
  destruct (match sa with Some a => a_hyphen a | None => false end); [exact F|].
  destruct (negb ok); [exact F|]. destruct (is_nil flag && negb (is_some v)); [exact I|].
  match goal with |- okI (match ?X with _ => _ end) _ => destruct X as [a|] end.
  - destruct (a_takes_value a).
    + eapply okI_bind; [apply okI_parse_opt_value; exact F|]. intros x Hx. exact Hx.
    + destruct v; [exact F|]. eapply okI_bind; [apply okI_react; exact F|]. intros x Hx. exact Hx.
  - destruct (possible_long_flag_subcommand c flag); [exact F|].
    match goal with |- okI (if ?X then _ else _) _ => destruct X end; exact F.
Qed.

Lemma okI_short_loop : forall fuel r ret vaf st,
  all_cl (mt st) -> okI (short_loop c fuel r ret vaf st) (fun x => all_cl (mt (fst (fst x)))).
Proof.
  induction fuel as [|f IH]; intros r ret vaf st F; [exact I|]. cbn [short_loop].
  destruct (sf_next r) as [[[ch|rest] r']|]; [| exact F | exact F].
  destruct (get_short c ch) as [a|].
  - destruct (negb (a_takes_value a)).
    + eapply okI_bind; [apply okI_react; exact F|]. intros x Hx. apply IH. exact Hx.
    + match goal with |- okI (let '(_, _) := ?X in _) _ => destruct X as [val has_eq] end.
      eapply okI_bind; [apply okI_parse_opt_value; exact F|]. intros x Hx.
      destruct (snd x); try exact Hx. apply IH. exact Hx.
  - destruct (find_short_subcmd c ch); [|exact F].
    eapply okI_bind; [apply okI_resolve_pending; exact F|]. intros st1 F1. exact F1.
Qed.

Lemma okI_parse_short_arg r pst pc vaf st :
  all_cl (mt st) -> okI (parse_short_arg c r pst pc vaf st) (fun x => all_cl (mt (fst (fst x)))).
Proof.
  intros F. unfold parse_short_arg.
  eapply okI_bind with (Q1 := fun _ => True); [destruct (state_arg c pst); exact I|]. intros sa _.
  match goal with |- okI (if ?X then _ else _) _ => destruct X end; [exact F|].
  match goal with |- okI (if ?X then _ else _) _ => destruct X end; [exact F|].
  match goal with |- okI (if ?X then _ else _) _ => destruct X end; [exact F|].
  apply okI_expect. intros r0 _. apply okI_short_loop. exact F.
Qed.
End LoopInv.

Section LoopInv2.
Variable c : cmd.

Definition lr_state (lr : loop_res) : ps :=
  match lr with LDone s | LSub _ _ _ s _ | LExternal _ _ s | LHelpSub _ s => s end.
Definition LR (lr : loop_res) : Prop := all_cl (mt (lr_state lr)).
Definition P1 (p1 : option (res loop_res) * lstate * ps) : Prop :=
  let '(early, _, st') := p1 in
  match early with Some r => okI r LR | None => all_cl (mt st') end.

Lemma okI_rpi {B} st (f : ps -> res B) Q :
  (forall s, okI (f s) Q) -> okI (rbind (resolve_pending_ignore c st) f) Q.
Proof. intros H. destruct (resolve_pending_ignore c st); cbn; auto. Qed.

Ltac leaf IH Hx :=
  cbn [okI P1 LR lr_state];
  first [ exact I | exact Hx | apply IH; exact Hx
        | apply okI_rpi; intros; exact I ].

Lemma okI_parse_loop : forall toks ls st,
  all_cl (mt st) -> okI (parse_loop c toks ls st) LR.
Proof.
  induction toks as [|tok rest IH]; intros ls st F; [exact F|].
  cbn [parse_loop].
  eapply okI_bind with (Q1 := P1).
  - destruct (l_trailing ls); [exact F|].
    match goal with |- okI (match ?X with _ => _ end) _ => destruct X as [sc|] end.
    + destruct (beq sc s_help && _); exact F.
    + destruct (is_escape tok).
      * eapply okI_bind with (Q1 := fun _ => True); [destruct (state_arg c (l_pst ls)); exact I|]. intros sa _.
        destruct (match sa with Some a => a_hyphen a | None => false end); [exact F|].
        cbn [okI P1]. apply IH. cbn. unfold all_cl. rewrite start_trailing_args. exact F.
      * destruct (to_long tok) as [[[f ok] v]|].
        -- eapply okI_bind; [apply okI_parse_long_arg; exact F|].
           intros [[st0 pr] vaf0] Hx. cbn [fst snd] in Hx |- *.
           destruct pr; leaf IH Hx.
        -- destruct (to_short tok) as [r|]; [|exact F].
           eapply okI_bind; [apply okI_parse_short_arg; exact F|].
           intros [[st0 pr] vaf0] Hx. cbn [fst snd] in Hx |- *.
           destruct pr; try (leaf IH Hx).
           destruct (fs_at st0); [apply okI_expect; intros d _|]; exact Hx.
  - intros [[early ls'] st'] HP. destruct early as [r|]; [exact HP|]. cbn [P1] in HP.
    match goal with |- okI (match ?X with PSValuesDone => ?A | PSOpt i => @?O i | PSPos _ => _ end) _ =>
      assert (HA : okI A LR); [| assert (HO : forall i, okI (O i) LR); [| destruct X; [exact HA | apply HO | exact HA]]] end.
    + eapply okI_bind with (Q1 := fun _ => True).
      { match goal with |- okI ?r _ => destruct r; exact I end. }
      intros pc' _. destruct (get_pos c pc') as [a|].
      * destruct (a_last a && negb (l_trailing ls')); [apply okI_rpi; intros; exact I|].
        eapply okI_bind with (Q1 := fun s => all_cl (mt s)).
        { match goal with |- okI (if ?B then _ else _) _ => destruct B end; [apply okI_resolve_pending; exact HP|exact HP]. }
        intros st1 F1. destruct (check_terminator a tok); [apply IH; exact F1|].
        apply okI_expect. intros m1 Hm1.
        assert (F2 : all_cl (mt (st1 <| mt := m1 |>))).
        { cbn. unfold all_cl. rewrite (pending_values_push_args _ _ _ _ _ _ Hm1). exact F1. }
        destruct (negb (a_is_multiple a)); apply IH; exact F2.
      * destruct (is_set s_allow_external c); [destruct (utf8_valid tok); [exact HP|apply okI_rpi; intros; exact I]|apply okI_rpi; intros; exact I].
    + intros i. apply okI_expect. intros a _. destruct (check_terminator a tok); [apply IH; exact HP|].
      apply okI_expect. intros m1 Hm1. apply okI_expect. intros more _. apply IH.
      cbn. unfold all_cl. rewrite (pending_values_push_args _ _ _ _ _ _ Hm1). exact HP.
Qed.

End LoopInv2.


(** every entry present after the command-line phase (token loop, subcommand dispatch, final
    [resolve_pending]) is labelled [CommandLine] *)
Theorem cmdline_phase_all_cl fuel' c toks st0 st_c st1 :
  mt_args (mt st0) = [] ->
  cmdline_phase fuel' c toks st0 = ROk st_c -> resolve_pending c st_c = ROk st1 ->
  all_cl (mt st1).
Proof.
  intros H0 Hc Hr. apply (all_cl_resolve_pending c st_c st1 Hr).
  destruct (cmdline_phase_args _ _ _ _ _ Hc) as [lr [st_l [Hl [Ha [_ Hst]]]]].
  unfold all_cl. rewrite Ha.
  assert (F0 : all_cl (mt st0)) by (unfold all_cl; rewrite H0; constructor).
  pose proof (okI_parse_loop c toks (mkL PSValuesDone 1 false false) st0 F0) as Hok.
  rewrite Hl in Hok. cbn [okI] in Hok. unfold LR in Hok.
  destruct lr; cbn [lr_state] in Hok; subst; exact Hok.
Qed.

(** the reported source names the origin: for every argument of the level that has values after a
    successful parse, the label says where they came from *)
Theorem source_honest fuel' c toks st0 st :
  ids_distinct c -> mt_args (mt st0) = [] ->
  get_matches_with (S fuel') c toks st0 = ROk st ->
  exists st_c st1,
    cmdline_phase fuel' c toks st0 = ROk st_c /\ resolve_pending c st_c = ROk st1
    /\ forall a e, In a (c_args c) -> fm_get (a_id a) (mt_args (mt st)) = Some e ->
       match m_source e with
       | Some SCmdLine => fm_get (a_id a) (mt_args (mt st1)) = Some e
       | Some SEnv => fm_get (a_id a) (mt_args (mt st1)) = None
                      /\ exists v vs, a_env a = Some v /\ delimit c a [v] None = Some vs /\ m_raw e = [vs]
       | Some SDefault => fm_get (a_id a) (mt_args (mt st1)) = None /\ a_env a = None
       | None => False
       end.
Proof.
  intros Hid H0 H. destruct (precedence _ _ _ _ _ Hid H) as [st_c [st1 [st2 [Ec [E1 [_ [_ Hper]]]]]]].
  exists st_c, st1. split; [exact Ec|]. split; [exact E1|].
  pose proof (cmdline_phase_all_cl _ _ _ _ _ _ H0 Ec E1) as Hcl.
  intros a e Hin Ge. destruct (in_split _ _ Hin) as [pre [post Hsplit]].
  specialize (Hper pre a post Hsplit).
  destruct (fm_get (a_id a) (mt_args (mt st1))) as [m|] eqn:G1.
  - rewrite Hper in Ge. inversion Ge; subst m. rewrite (fm_get_forall _ _ _ Hcl G1). reflexivity.
  - destruct (a_env a) as [v|] eqn:Ee.
    + destruct Hper as [vs [e' [Hd [_ [Ge' [Se Re]]]]]]. rewrite Ge' in Ge. inversion Ge; subst e'.
      rewrite Se. split; [reflexivity|]. exists v, vs. repeat split; assumption.
    + destruct Hper as [st_a [[raw|] [_ [_ Hres]]]].
      * destruct Hres as [vs [e' [_ [_ [Ge' [Se _]]]]]]. rewrite Ge' in Ge. inversion Ge; subst e'.
        rewrite Se. split; reflexivity.
      * rewrite Hres in Ge. discriminate.
Qed.

(** * 9. What a command-line occurrence stores: the given values, or the missing-value default *)

Lemma fm_get_entry_or_insert_same {V} k (v0 : V) f (l : list (id * V)) :
  fm_get k (fm_entry_or_insert k v0 f l) = Some (f (opt_default v0 (fm_get k l))).
Proof.
  unfold fm_entry_or_insert, fm_contains. destruct (fm_get k l) as [v|] eqn:E; cbn [is_some opt_default].
  - rewrite fm_get_update, beq_refl, E. reflexivity.
  - rewrite fm_get_app, E. cbn. rewrite beq_refl. reflexivity.
Qed.

Lemma start_custom_arg_cl_entry c a m m2 :
  find_group c (a_id a) = None -> start_custom_arg c a SCmdLine m = ROk m2 ->
  exists e gs, fm_get (a_id a) (mt_args m2) = Some e /\ m_raw e = gs ++ [[]] /\ m_source e = Some SCmdLine.
Proof.
  intros Hg H. unfold start_custom_arg in H. cbn [src_explicit] in H.
  change (fold_left (group_step a SCmdLine) (groups_for_arg c (a_id a))
            (ROk (start_custom_arg_m (remove_overrides c a m) a SCmdLine)) = ROk m2) in H.
  apply group_fold_spec in H. destruct H as [Hf _].
  rewrite Hf.
  - unfold start_custom_arg_m. cbn. rewrite fm_get_entry_or_insert_same.
    eexists. eexists. split; [reflexivity|]. split; [reflexivity|]. apply new_group_cl.
  - destruct (mem_id (a_id a) (groups_for_arg c (a_id a))) eqn:Em; [|reflexivity].
    apply in_groups_for_arg in Em. contradiction.
Qed.

(** For [Set]/[Append] arguments: the last value group of the entry after a command-line
    occurrence is the (delimited) list [react_vals] selected — by [default_missing_iff] the given
    values when there are any, the missing-value default exactly when there are none *)
Theorem react_cmdline_values c idn a raw ti st st' pr :
  find_group c (a_id a) = None ->
  a_get_action a = ASet \/ a_get_action a = AAppend ->
  react_core c idn SCmdLine a raw ti st = ROk (st', pr) ->
  exists e vs, fm_get (a_id a) (mt_args (mt st')) = Some e /\ m_source e = Some SCmdLine
    /\ delimit c a (fst (react_vals a raw ti)) (snd (react_vals a raw ti)) = Some vs
    /\ last (m_raw e) [] = vs.
Proof.
  intros Hg Hact H. rewrite react_core_unfold in H. cbn [is_cmdline] in H.
  destruct (verify_num_args _ _ _ _); [|discriminate|discriminate]. cbn [rbind] in H.
  unfold react_tail in H. destruct (delimit c a _ _) as [vs|] eqn:Ed; [|discriminate]. cbn [expect rbind] in H.
  assert (Hstore : forall m1 (sx : ps),
    (do m2 <- start_custom_arg c a SCmdLine m1;
     do st' <- push_arg_values c a vs (sx <| mt := m2 |>); ROk (st', PRValuesDone)) = ROk (st', pr) ->
    exists e, fm_get (a_id a) (mt_args (mt st')) = Some e /\ m_source e = Some SCmdLine /\ last (m_raw e) [] = vs).
  { intros m1 sx Hq.
    destruct (start_custom_arg c a SCmdLine m1) as [m2| |] eqn:E1; [|discriminate|discriminate]. cbn [rbind] in Hq.
    destruct (push_arg_values c a vs _) as [s2| |] eqn:E2; [|discriminate|discriminate]. cbn [rbind] in Hq.
    inversion Hq; subst s2. destruct (start_custom_arg_cl_entry c a m1 m2 Hg E1) as [e0 [gs [G0 [R0 S0]]]].
    apply push_arg_values_spec in E2. destruct E2 as [_ [_ [_ [_ [_ He]]]]].
    destruct (He e0 gs [] G0 R0) as [e' [G' [S' [R' _]]]].
    exists e'. split; [exact G'|]. split; [congruence|]. rewrite R'. cbn [app]. apply last_last. }
  destruct Hact as [Ha|Ha]; rewrite Ha in H.
  - match type of H with context [mt_remove (mt ?S) ?I] => destruct (mt_remove (mt S) I) as [m1 removed] end.
    destruct (removed && _); [discriminate|].
    destruct (Hstore _ _ H) as [e [G [S L]]]. exists e, vs. repeat split; assumption.
  - destruct (Hstore _ _ H) as [e [G [S L]]]. exists e, vs. repeat split; assumption.
Qed.

(** * 10. Non-vacuity and the order dependence of conditional defaults (DESIGN 7-P) *)

Definition ex_a : arg := (arg_new [97]) <| a_long := Some [97] |> <| a_action := Some ASet |> <| a_default := [[100]] |>.
Definition ex_b : arg := (arg_new [98]) <| a_long := Some [98] |> <| a_action := Some ASet |>
                           <| a_default_ifs := [([97], PIsPresent, Some [120])] |>.
Definition ex_e : arg := (arg_new [101]) <| a_long := Some [101] |> <| a_action := Some ASet |>
                           <| a_default := [[100]] |> <| a_env := Some [118] |>.
Definition ex_cmd (args : list arg) : cmd := build_self ((cmd_new [112]) <| c_args := args |>).

Definition entry_summary (r : res ps) (i : id) : option (option src * list (list bytes)) :=
  match r with
  | ROk st => opt_map (fun e => (m_source e, m_raw e)) (fm_get i (mt_args (mt st)))
  | _ => None end.

(** hypotheses of [precedence]/[source_honest] are satisfiable; command line > env > default on one argument *)
Example ex_ids_distinct : ids_distinct (ex_cmd [ex_a; ex_b; ex_e]).
Proof.
  split.
  - vm_compute.
    repeat (constructor; [intros H; cbn in H; repeat (destruct H as [H|H]; [discriminate H|]); exact H|]).
    constructor.
  - intros a _. unfold find_group.
    assert (E : c_groups (ex_cmd [ex_a; ex_b; ex_e]) = []) by (vm_compute; reflexivity).
    rewrite E. reflexivity.
Qed.
Example ex_env_beats_default :
  entry_summary (get_matches_with 2 (ex_cmd [ex_e]) [] ps_new) [101] = Some (Some SEnv, [[[118]]]).
Proof. vm_compute. reflexivity. Qed.
Example ex_cmdline_beats_env :
  entry_summary (get_matches_with 2 (ex_cmd [ex_e]) [[45;45;101]; [99]] ps_new) [101] = Some (Some SCmdLine, [[[99]]]).
Proof. vm_compute. reflexivity. Qed.
(** the default of an argument defined earlier triggers the conditional default of a later one ... *)
Example ex_default_triggers_later_rule :
  entry_summary (get_matches_with 2 (ex_cmd [ex_a; ex_b]) [] ps_new) [98] = Some (Some SDefault, [[[120]]]).
Proof. vm_compute. reflexivity. Qed.
(** ... but not of an earlier one: the outcome depends on the definition order *)
Example ex_default_does_not_trigger_earlier_rule :
  entry_summary (get_matches_with 2 (ex_cmd [ex_b; ex_a]) [] ps_new) [98] = None.
Proof. vm_compute. reflexivity. Qed.
(** a missing-value default: present without a value / with a value *)
Definition ex_m : arg := (arg_new [109]) <| a_long := Some [109] |> <| a_action := Some ASet |>
                           <| a_num := Some {| vmin := 0; vmax := 1 |} |> <| a_default_missing := [[77]] |>.
Example ex_default_missing_applies :
  entry_summary (get_matches_with 2 (ex_cmd [ex_m]) [[45;45;109]] ps_new) [109] = Some (Some SCmdLine, [[[77]]]).
Proof. vm_compute. reflexivity. Qed.
Example ex_default_missing_not_applied :
  entry_summary (get_matches_with 2 (ex_cmd [ex_m]) [[45;45;109;61;120]] ps_new) [109] = Some (Some SCmdLine, [[[120]]]).
Proof. vm_compute. reflexivity. Qed.
Example ex_default_missing_empty_value_given :
  entry_summary (get_matches_with 2 (ex_cmd [ex_m]) [[45;45;109;61]] ps_new) [109] = Some (Some SCmdLine, [[[]]]).
Proof. vm_compute. reflexivity. Qed.

(** * 11. The model's constant tables are those of the source (regenerated on every run by
    translators/tables.py into Gen/ActionDefaults.v) *)
From ClapModel Require Import Gen.ActionDefaults.

Definition action_name (a : action) : bytes :=
  match a with
  | ASet => [83; 101; 116] | AAppend => [65; 112; 112; 101; 110; 100]
  | ASetTrue => [83; 101; 116; 84; 114; 117; 101] | ASetFalse => [83; 101; 116; 70; 97; 108; 115; 101]
  | ACount => [67; 111; 117; 110; 116] | AHelp => [72; 101; 108; 112]
  | AHelpShort => [72; 101; 108; 112; 83; 104; 111; 114; 116] | AHelpLong => [72; 101; 108; 112; 76; 111; 110; 103]
  | AVersion => [86; 101; 114; 115; 105; 111; 110]
  end.
Definition all_actions := [ASet; AAppend; ASetTrue; ASetFalse; ACount; AHelp; AHelpShort; AHelpLong; AVersion].
Definition src_name_bytes (s : src) : bytes :=
  match s with
  | SDefault => [68; 101; 102; 97; 117; 108; 116; 86; 97; 108; 117; 101]
  | SEnv => [69; 110; 118; 86; 97; 114; 105; 97; 98; 108; 101]
  | SCmdLine => [67; 111; 109; 109; 97; 110; 100; 76; 105; 110; 101]
  end.

(** [ArgAction::default_value] / [default_missing_value] of the source, arm by arm, are the
    model's [action_default_value] / [action_default_missing_value]; [ValueSource]'s variants in
    declaration order are Default < Env < CommandLine with exactly [src_rank] as position, and
    [is_explicit] excludes exactly [DefaultValue] *)
Theorem tables_match_source :
  action_default_value_rows = map (fun a => (action_name a, action_default_value a)) all_actions
  /\ action_default_missing_value_rows = map (fun a => (action_name a, action_default_missing_value a)) all_actions
  /\ value_source_variants = map src_name_bytes [SDefault; SEnv; SCmdLine]
  /\ (forall s, nth_error value_source_variants (N.to_nat (src_rank s)) = Some (src_name_bytes s))
  /\ (forall s, src_explicit s = negb (beq (src_name_bytes s) value_source_not_explicit)).
Proof.
  split; [vm_compute; reflexivity|]. split; [vm_compute; reflexivity|]. split; [vm_compute; reflexivity|].
  split; intros []; vm_compute; reflexivity.
Qed.

(** * 12. Phase order on the error paths (no [ignore_errors]) *)

(** an error is returned by the first phase that fails; nothing of a later phase is consulted:
    a command-line error wins over everything, an environment error over defaults and validation,
    a default-value error over validation *)
Theorem phase_order_errors fuel' c toks st0 :
  is_set s_ignore_errors c = false ->
  (forall e s, cmdline_phase fuel' c toks st0 = RErr e s -> get_matches_with (S fuel') c toks st0 = RErr e s)
  /\ (forall st_c e s, cmdline_phase fuel' c toks st0 = ROk st_c -> resolve_pending c st_c = RErr e s ->
        get_matches_with (S fuel') c toks st0 = RErr e s)
  /\ (forall st_c st1 e s, cmdline_phase fuel' c toks st0 = ROk st_c -> resolve_pending c st_c = ROk st1 ->
        add_env c st1 = RErr e s -> get_matches_with (S fuel') c toks st0 = RErr e s)
  /\ (forall st_c st1 st2 e s, cmdline_phase fuel' c toks st0 = ROk st_c -> resolve_pending c st_c = ROk st1 ->
        add_env c st1 = ROk st2 -> add_defaults c st2 = RErr e s ->
        get_matches_with (S fuel') c toks st0 = RErr e s)
  /\ (forall st_c st1 st2 st3 k a, cmdline_phase fuel' c toks st0 = ROk st_c -> resolve_pending c st_c = ROk st1 ->
        add_env c st1 = ROk st2 -> add_defaults c st2 = ROk st3 -> validate c (mt st2) = VErr k a ->
        get_matches_with (S fuel') c toks st0 = RErr (mkerr c k a) st3).
Proof.
  intros Hig. rewrite get_matches_with_unfold. repeat split.
  - intros e s H. rewrite H, Hig. reflexivity.
  - intros st_c e s H1 H2. rewrite H1, H2. reflexivity.
  - intros st_c st1 e s H1 H2 H3. rewrite H1, H2. cbn [rbind]. rewrite H3. reflexivity.
  - intros st_c st1 st2 e s H1 H2 H3 H4. rewrite H1, H2. cbn [rbind]. rewrite H3. cbn [rbind]. rewrite H4. reflexivity.
  - intros st_c st1 st2 st3 k a H1 H2 H3 H4 H5. rewrite H1, H2. cbn [rbind]. rewrite H3. cbn [rbind]. rewrite H4. cbn [rbind].
    pose proof (resolve_pending_clears c st_c st1 H2) as P1.
    destruct (add_env_frame c st1 st2 P1 H3) as [P2 _].
    destruct (defaults_inert c st2 st3 P2 H4) as [Hv _]. rewrite Hv, H5. reflexivity.
Qed.

(** * 13. The validity gate gives the distinctness of ids the per-argument theorems assume *)

Lemma count_lt2_nodup {A} (f : A -> id) : forall l,
  (forall a, In a l -> Nat.ltb (count_if (fun x => beq (f x) (f a)) l) 2 = true) -> NoDup (map f l).
Proof.
  induction l as [|h t IH]; intros H; [constructor|]. cbn [map]. constructor.
  - intros Hin. apply in_map_iff in Hin. destruct Hin as [x [Hfx Hx]].
    specialize (H h (or_introl eq_refl)). unfold count_if in H. cbn [filter] in H. rewrite beq_refl in H. cbn [length] in H.
    assert (Hpos : (1 <= length (filter (fun x0 => beq (f x0) (f h)) t))%nat).
    { clear -Hfx Hx. induction t as [|y t IH]; [destruct Hx|]. cbn [filter]. destruct Hx as [->|Hx].
      - rewrite Hfx, beq_refl. cbn. lia.
      - destruct (beq (f y) (f h)); cbn [length]; [lia|apply IH; exact Hx]. }
    apply Nat.ltb_lt in H. lia.
  - apply IH. intros a Ha. specialize (H a (or_intror Ha)). unfold count_if in *. cbn [filter] in H.
    apply Nat.ltb_lt in H. apply Nat.ltb_lt. destruct (beq (f h) (f a)); cbn [length] in H; lia.
Qed.

(** [assert_app] (the model of clap's debug assertions on a built command, which [get_matches_with]
    re-checks for every subcommand it descends into) implies [ids_distinct] *)
Theorem assert_app_ids_distinct c : assert_app c = true -> ids_distinct c.
Proof.
  intros H. unfold assert_app in H.
  repeat match type of H with (_ && _) = true => apply andb_true_iff in H; let H' := fresh "Hc" in destruct H as [H H'] end.
  (* H is now the first conjunct; the forallb over args / groups are among the Hc's *)
  assert (Hargs : forall a, In a (c_args c) ->
            Nat.ltb (count_if (fun x => beq (a_id x) (a_id a)) (c_args c)) 2 = true).
  { intros a Ha.
    match goal with Hf : forallb _ (c_args c) = true |- _ => rewrite forallb_forall in Hf; specialize (Hf a Ha); rename Hf into Hfa end.
    repeat match type of Hfa with (_ && _) = true => apply andb_true_iff in Hfa; let H' := fresh "Hd" in destruct Hfa as [Hfa H'] end.
    assumption. }
  assert (Hgroups : forall g, In g (c_groups c) -> find_arg c (g_id g) = None).
  { intros g Hg.
    match goal with Hf : forallb _ (c_groups c) = true |- _ => rewrite forallb_forall in Hf; specialize (Hf g Hg); rename Hf into Hfg end.
    repeat match type of Hfg with (_ && _) = true => apply andb_true_iff in Hfg; let H' := fresh "He" in destruct Hfg as [Hfg H'] end.
    match goal with Hn : negb (is_some (find_arg c (g_id g))) = true |- _ =>
      destruct (find_arg c (g_id g)); [discriminate Hn|reflexivity] end. }
  split.
  - apply count_lt2_nodup. intros a Ha. rewrite <- (Hargs a Ha). f_equal.
  - intros a Ha. unfold find_group. destruct (List.find (fun g => beq (g_id g) (a_id a)) (c_groups c)) as [g|] eqn:Ef; [|reflexivity].
    exfalso. apply List.find_some in Ef. destruct Ef as [Hg Hb]. apply beq_eq in Hb.
    specialize (Hgroups g Hg). rewrite Hb in Hgroups. unfold find_arg in Hgroups.
    apply (List.find_none _ _ Hgroups) in Ha. rewrite beq_refl in Ha. discriminate.
Qed.

(** [source_honest] for every level the parser reaches: the root is gated by [valid], every
    subcommand by the [assert_app] check in [get_matches_with] *)
Corollary source_honest_valid fuel' c toks st0 st :
  assert_app c = true -> mt_args (mt st0) = [] ->
  get_matches_with (S fuel') c toks st0 = ROk st ->
  exists st_c st1,
    cmdline_phase fuel' c toks st0 = ROk st_c /\ resolve_pending c st_c = ROk st1
    /\ forall a e, In a (c_args c) -> fm_get (a_id a) (mt_args (mt st)) = Some e ->
       match m_source e with
       | Some SCmdLine => fm_get (a_id a) (mt_args (mt st1)) = Some e
       | Some SEnv => fm_get (a_id a) (mt_args (mt st1)) = None
                      /\ exists v vs, a_env a = Some v /\ delimit c a [v] None = Some vs /\ m_raw e = [vs]
       | Some SDefault => fm_get (a_id a) (mt_args (mt st1)) = None /\ a_env a = None
       | None => False
       end.
Proof. intros Hv. apply source_honest. apply assert_app_ids_distinct. exact Hv. Qed.

Lemma valid_assert_app c0 : valid c0 = true -> assert_app (build_self c0) = true.
Proof. unfold valid. cbn [valid_tree]. intros H. apply andb_true_iff in H. exact (proj1 H). Qed.
