(** Property C06: command line > environment > default; sources are reported honestly.
    Proofs about [Parser.get_matches_with] (phase order), [add_env], [add_defaults],
    [add_default_value], [react_core] (default-missing injection), [start_custom_arg],
    [Matcher.set_source] and [Validator.validate] (defaults are inert).

    Conventions: [c] is the built command of one level, [st] a parser state, [mt st] its
    matcher, [mt_args] the FlatMap of entries in insertion order ([fm_get] = first match). *)
From ClapModel Require Import Base.Bytes Base.Machine Base.Utf8 Lex.OsStrExtModel.
From ClapModel Require Import Parse.Cmd Parse.Build Parse.Valid Parse.Matcher Parse.Errors Parse.Validator Parse.Parser.
From Coq Require Import ZArith Lia.
From RecordUpdate Require Import RecordSet.
Import RecordSetNotations.
Open Scope N_scope.

(** * 0. FlatMap facts *)

Lemma beq_sym a b : beq a b = beq b a.
Proof.
  destruct (beq a b) eqn:E.
  - apply beq_eq in E. subst. symmetry. apply beq_refl.
  - destruct (beq b a) eqn:E'; [|reflexivity]. apply beq_eq in E'. subst. rewrite beq_refl in E. discriminate.
Qed.

Lemma fm_get_app {V} k (l l' : list (id * V)) :
  fm_get k (l ++ l') = match fm_get k l with Some v => Some v | None => fm_get k l' end.
Proof.
  induction l as [|[k' v] t IH]; [reflexivity|]. cbn [app fm_get].
  destruct (beq k' k); [reflexivity | exact IH].
Qed.

Lemma fm_get_update {V} k k' (f : V -> V) (l : list (id * V)) :
  fm_get k (fm_update k' f l) = if beq k' k then opt_map f (fm_get k l) else fm_get k l.
Proof.
  induction l as [|[k0 v] t IH]; cbn [fm_update fm_get].
  - destruct (beq k' k); reflexivity.
  - destruct (beq k0 k') eqn:E0.
    + apply beq_eq in E0. subst k0. cbn [fm_get].
      destruct (beq k' k); reflexivity.
    + cbn [fm_get]. destruct (beq k0 k) eqn:E1.
      * apply beq_eq in E1. subst k0. rewrite beq_sym, E0. reflexivity.
      * exact IH.
Qed.

Lemma fm_update_keys {V} k (f : V -> V) (l : list (id * V)) : map fst (fm_update k f l) = map fst l.
Proof.
  induction l as [|[k0 v] t IH]; [reflexivity|]. cbn [fm_update].
  destruct (beq k0 k); cbn [map fst]; [reflexivity | rewrite IH; reflexivity].
Qed.

Lemma fm_remove_absent {V} k (l : list (id * V)) : fm_get k l = None -> fm_remove k l = (l, false).
Proof.
  induction l as [|[k0 v] t IH]; [reflexivity|]. cbn [fm_get fm_remove].
  destruct (beq k0 k); [discriminate|]. intros H. rewrite (IH H). reflexivity.
Qed.

Lemma fm_get_remove_other {V} k k' (l : list (id * V)) :
  beq k' k = false -> fm_get k (fst (fm_remove k' l)) = fm_get k l.
Proof.
  intros Hne. induction l as [|[k0 v] t IH]; [reflexivity|]. cbn [fm_remove fm_get].
  destruct (beq k0 k') eqn:E0.
  - apply beq_eq in E0. subst k0. rewrite Hne. reflexivity.
  - destruct (fm_remove k' t) as [t' b] eqn:Er. cbn [fst fm_get] in *.
    destruct (beq k0 k); [reflexivity | exact IH].
Qed.

Lemma fm_contains_false {V} k (l : list (id * V)) : fm_contains k l = false <-> fm_get k l = None.
Proof. unfold fm_contains. destruct (fm_get k l); cbn; split; congruence. Qed.

Lemma fm_entry_or_insert_absent {V} k (v0 : V) f (l : list (id * V)) :
  fm_get k l = None -> fm_entry_or_insert k v0 f l = l ++ [(k, f v0)].
Proof. intros H. unfold fm_entry_or_insert, fm_contains. rewrite H. reflexivity. Qed.

Lemma fm_get_entry_or_insert_other {V} k k' (v0 : V) f (l : list (id * V)) :
  beq k' k = false -> fm_get k (fm_entry_or_insert k' v0 f l) = fm_get k l.
Proof.
  intros Hne. unfold fm_entry_or_insert. destruct (fm_contains k' l).
  - rewrite fm_get_update, Hne. reflexivity.
  - rewrite fm_get_app. destruct (fm_get k l); [reflexivity|]. cbn [fm_get]. rewrite Hne. reflexivity.
Qed.

(** * 1. [set_source] only raises ([ValueSource]'s derived [Ord]: Default < Env < CommandLine) *)

Lemma src_max_rank a b : src_rank (src_max a b) = N.max (src_rank a) (src_rank b).
Proof. destruct a, b; reflexivity. Qed.

Definition opt_src_rank (o : option src) : N := match o with Some s => 1 + src_rank s | None => 0 end.

(** the new source is the maximum of the old one and the requested one *)
Lemma set_source_rank s m :
  opt_src_rank (m_source (set_source s m)) = N.max (opt_src_rank (m_source m)) (1 + src_rank s).
Proof.
  unfold set_source. destruct m as [[e|] ? ? ? ?]; [destruct e|]; destruct s; reflexivity.
Qed.

Theorem set_source_monotone s m :
  opt_src_rank (m_source m) <= opt_src_rank (m_source (set_source s m))
  /\ 1 + src_rank s <= opt_src_rank (m_source (set_source s m)).
Proof. rewrite set_source_rank. lia. Qed.

Theorem set_source_cmdline_sticky s m :
  m_source m = Some SCmdLine -> m_source (set_source s m) = Some SCmdLine.
Proof. intros H. unfold set_source. cbn. rewrite H. destruct s; reflexivity. Qed.

Theorem set_source_fresh s ic g : m_source (set_source s (marg_new ic g)) = Some s.
Proof. reflexivity. Qed.

Lemma set_source_other_fields s m :
  m_raw (set_source s m) = m_raw m /\ m_indices (set_source s m) = m_indices m
  /\ m_ignore_case (set_source s m) = m_ignore_case m /\ m_is_group (set_source s m) = m_is_group m.
Proof. repeat split. Qed.

(** the reported label is never weaker than what any writer asked for: an entry written with
    [SCmdLine] at any time reads [SCmdLine] after any number of later [set_source]s *)
Theorem set_source_sequence_max (l : list src) m :
  opt_src_rank (m_source (fold_left (fun m s => set_source s m) l m))
  = fold_left (fun r s => N.max r (1 + src_rank s)) l (opt_src_rank (m_source m)).
Proof.
  revert m. induction l as [|s t IH]; intros m; [reflexivity|]. cbn [fold_left].
  rewrite IH, set_source_rank. reflexivity.
Qed.

(** * 2. The default-missing injection of [react] *)

(** the block [if raw_vals.is_empty() { if !arg.default_missing_vals.is_empty() {..} }] *)
Definition react_vals (a : arg) (raw : list bytes) (ti : option N) : list bytes * option N :=
  match raw with
  | [] => if negb (is_nil (a_default_missing a)) then (a_default_missing a, None) else (raw, ti)
  | _ => (raw, ti)
  end.

(** the remainder of [react] after that block (a verbatim copy of the tail of
    [Parser.react_core]; [react_core_unfold] below is proved by [reflexivity], so any edit of
    the model that is not mirrored here breaks the proof) *)
Definition react_tail (c : cmd) (idn : option ident) (s : src) (a : arg) (raw : list bytes)
           (ti : option N) (st : ps) : res (ps * presult) :=
  do raw <- expect 1184 (delimit c a raw ti);
  let self_override := is_set s_args_override_self c || mem_id (a_id a) (a_overrides a) in
  let set_like (raw : list bytes) (bump : bool) (st : ps) :=
      let st := if bump && is_cmdline s && is_flag_ident idn then ps_bump st else st in
      let '(m1, removed) := mt_remove (mt st) (a_id a) in
      let st := st <| mt := m1 |> in
      if removed && negb self_override then RErr (mkerr c EArgumentConflict (a_id a)) st
      else do m2 <- start_custom_arg c a s m1;
           do st' <- push_arg_values c a raw (st <| mt := m2 |>);
           ROk (st', PRValuesDone) in
  match a_get_action a with
  | ASet => set_like raw true st
  | AAppend =>
      let st := if is_cmdline s && is_flag_ident idn then ps_bump st else st in
      do m2 <- start_custom_arg c a s (mt st);
      do st' <- push_arg_values c a raw (st <| mt := m2 |>);
      ROk (st', PRValuesDone)
  | ASetTrue => set_like (match raw with [] => [s_true] | _ => raw end) false st
  | ASetFalse => set_like (match raw with [] => [s_false] | _ => raw end) false st
  | ACount =>
      let raw := match raw with
                 | [] => [n_to_dec (N.min 255 (existing_count a (mt st) + 1))]
                 | _ => raw end in
      let '(m1, _) := mt_remove (mt st) (a_id a) in
      do m2 <- start_custom_arg c a s m1;
      do st' <- push_arg_values c a raw (st <| mt := m2 |>);
      ROk (st', PRValuesDone)
  | AHelp => RErr (help_err c (match idn with Some IShort => false | _ => true end)) st
  | AHelpShort => RErr (help_err c false) st
  | AHelpLong => RErr (help_err c true) st
  | AVersion => RErr (version_err c (match idn with Some IShort => false | _ => true end)) st
  end.

Lemma react_core_unfold c idn s a raw ti st :
  react_core c idn s a raw ti st =
  do _ <- (if is_cmdline s then verify_num_args c a raw st else ROk tt);
  react_tail c idn s a (fst (react_vals a raw ti)) (snd (react_vals a raw ti)) st.
Proof.
  unfold react_core, react_tail, react_vals.
  destruct raw as [|v t]; [destruct (negb (is_nil (a_default_missing a)))|]; reflexivity.
Qed.

(** the missing-value default is injected precisely when the occurrence carries no value
    (and the argument declares one); the trailing index is then forgotten *)
Theorem default_missing_iff a raw ti :
  (raw = [] /\ a_default_missing a <> [] -> react_vals a raw ti = (a_default_missing a, None))
  /\ (raw <> [] \/ a_default_missing a = [] -> react_vals a raw ti = (raw, ti))
  /\ (fst (react_vals a raw ti) <> raw <-> raw = [] /\ a_default_missing a <> []).
Proof.
  unfold react_vals. split; [|split].
  - intros [-> H]. destruct (a_default_missing a); [contradiction|reflexivity].
  - intros [H|H].
    + destruct raw; [contradiction|reflexivity].
    + rewrite H. destruct raw; reflexivity.
  - destruct raw as [|v t].
    + destruct (a_default_missing a) as [|d ds]; cbn; split.
      * intros H; contradiction.
      * intros [_ H]; contradiction.
      * intros _. split; [reflexivity|discriminate].
      * intros _. discriminate.
    + cbn. split; [intros H; contradiction | intros [H _]; discriminate].
Qed.
