(** Property C09, third pass: the whole-argv chain theorem of Chain.v for a wider class of lines.

    Part 1: positional arguments before a subcommand name.  A value token of a positional is pushed
            onto the pending buffer ([pos_push]); a single-valued positional moves the counter on, a
            multi-valued one keeps the loop in state [PSPos] where — per level — either every further
            plain token is a value (also a subcommand NAME: it is swallowed), or, with
            [subcommand_precedence_over_arg] on THIS level, a subcommand name dispatches.
    Part 2: [infer_subcommands]: closed form of [possible_subcommand] ([nsel]); the unique prefix of a
            name or alias resolves to the one subcommand it matches (so the chain holds its canonical
            [c_name]); an ambiguous prefix is not dispatched and, in a command without positionals, rejected.
    Part 3: after `--` the loop never dispatches (no [LSub], no [LHelpSub]) — any tail.
    Part 4: the class [wline] (⊇ [gline] of Chain.v, no [canonical] premise) and the chain theorem.
    Part 5: the chain composed with the globals merge, [canonical] derived from [valid].
    Part 6: a user-defined subcommand `help` (generated one disabled).
    Part 7: a global given at several levels: the deepest explicit occurrence is reported everywhere. *)
From ClapModel Require Import Base.Bytes Base.Machine Base.Utf8 Lex.OsStrExtModel.
From ClapModel Require Import Parse.Cmd Parse.Build Parse.Valid Parse.Matcher Parse.Errors Parse.Validator Parse.Parser.
From ClapModel Require Import ParseProofs.Actions ParseProofs.ActionsLoop ParseProofs.Spelling.
From ClapModel Require Import ParseProofs.Globals ParseProofs.Dispatch ParseProofs.Chain.
From ClapModel Require Reentrancy.ReentrancyProofs.
From Coq Require Import ZArith Lia.
From RecordUpdate Require Import RecordSet.
Import RecordSetNotations.
Open Scope N_scope.

(** * Part 1: positional values *)

(** no low-index multiples, no [allow_missing_positional]: the positional counter is not corrected *)
Definition pos_plain (c : cmd) : Prop :=
  is_set s_allow_missing_pos c = false /\
  existsb (fun a => a_is_multiple a && negb (positional_count c =? opt_default 0 (a_index a))) (positionals c) = false.

(** what the loop does with one value token of the positional [a] (before `--`, [a] not trailing-var-arg) *)
Definition pos_push (c : cmd) (a : arg) (v : bytes) (st : ps) : res ps :=
  do st1 <- (if negb (match pending_arg_id (mt st) with Some i => beq i (a_id a) | None => false end)
                || negb (a_multiple_values a)
             then resolve_pending c st else ROk st);
  do m1 <- expect 415 (pending_values_push (mt st1) (a_id a) (Some IIndex) false (Some v));
  ROk (st1 <| mt := m1 |>).

(** a token that is a plain word: not `--`, not a long, not a short *)
Definition plain_tok (tok : bytes) : Prop := is_escape tok = false /\ to_long tok = None /\ to_short tok = None.

(** the positional at the counter takes this token as a value *)
Definition takes_at (c : cmd) (pos : N) (a : arg) (tok : bytes) : Prop :=
  pos_plain c /\ get_pos c pos = Some a /\ a_last a = false /\ a_tva a = false /\ check_terminator a tok = false.

Definition after_pos (a : arg) (pos : N) : lstate :=
  if a_is_multiple a then mkL (PSPos (a_id a)) pos true false else lsV (pos + 1) true.

Section PosStep.
Variable c : cmd.

Lemma loop_pos_step pst tok a rest pos vaf st :
  match pst with PSOpt _ => False | _ => True end ->
  (if is_set s_sub_precedence c || match pst with PSValuesDone => true | _ => false end
   then possible_subcommand c tok vaf else None) = None ->
  plain_tok tok -> takes_at c pos a tok ->
  parse_loop c (tok :: rest) (mkL pst pos vaf false) st =
  (do st' <- pos_push c a tok st; parse_loop c rest (after_pos a pos) st').
Proof.
  intros Hpst Hns [He [Hl Hs]] [[Hmiss Hlow] [Hg [Hlast [Htva Hct]]]].
  cbn [parse_loop l_trailing l_pst l_vaf l_pos].
  rewrite Hns, He, Hl, Hs. cbn [rbind l_trailing l_pst l_vaf l_pos].
  assert (Hbody :
    (let pc := pos in
        let is_second_to_last := (pc + 1 =? positional_count c) in
        let low_index_mults := is_second_to_last
             && existsb (fun a => a_is_multiple a && negb (positional_count c =? opt_default 0 (a_index a))) (positionals c)
             && match last (map Some (positionals c)) None with Some p => negb (a_last p) | None => false end in
        let is_terminated := match get_pos c pc with Some a => is_some (a_term a) | None => false end in
        let missing_pos := is_set s_allow_missing_pos c && is_second_to_last && negb false in
        do pc' <-
          (if (low_index_mults || missing_pos) && negb is_terminated then
             match rest with
             | n :: _ =>
                 match List.find (fun a => match a_index a with Some k => k =? pc | None => false end) (positionals c) with
                 | Some a => do na <- is_new_arg c n a;
                             ROk (if na || is_some (possible_subcommand c n vaf) then pc + 1 else pc)
                 | None => ROk (pc + 1)
                 end
             | [] => ROk (pc + 1)
             end
           else if false && (is_set s_allow_missing_pos c || existsb a_last (c_args c)) then ROk (positional_count c)
           else ROk pc);
        match get_pos c pc' with
        | Some a =>
            if a_last a && negb false then
              do st1 <- resolve_pending_ignore c st;
              RErr (mkerr c EUnknownArgument tok) st1
            else
              let trailing := false || a_tva a in
              do st1 <- (if negb (match pending_arg_id (mt st) with Some i => beq i (a_id a) | None => false end)
                            || negb (a_multiple_values a)
                         then resolve_pending c st else ROk st);
              if check_terminator a tok then
                parse_loop c rest (mkL PSValuesDone (pc' + 1) true trailing) st1
              else
                do m1 <- expect 415 (pending_values_push (mt st1) (a_id a) (Some IIndex) trailing (Some tok));
                if negb (a_is_multiple a)
                then parse_loop c rest (mkL PSValuesDone (pc' + 1) true trailing) (st1 <| mt := m1 |>)
                else parse_loop c rest (mkL (PSPos (a_id a)) pc' true trailing) (st1 <| mt := m1 |>)
        | None =>
            if is_set s_allow_external c then
              if utf8_valid tok then ROk (LExternal tok rest st)
              else do st1 <- resolve_pending_ignore c st; RErr (mkerr c EInvalidUtf8 []) st1
            else do st1 <- resolve_pending_ignore c st;
                 RErr (match_arg_error c tok vaf false) st1
        end) =
    (do st' <- pos_push c a tok st; parse_loop c rest (after_pos a pos) st')).
  { cbv zeta. rewrite Hlow, Hmiss. rewrite !andb_false_r. cbn [andb orb rbind].
    rewrite Hg, Hlast, Htva, Hct. cbn [andb orb].
    unfold pos_push, after_pos, lsV.
    destruct (if negb match pending_arg_id (mt st) with Some i => beq i (a_id a) | None => false end
                 || negb (a_multiple_values a) then resolve_pending c st else ROk st) as [st1|e s1|x];
      cbn [rbind]; try reflexivity.
    destruct (pending_values_push (mt st1) (a_id a) (Some IIndex) false (Some tok)) as [m1|]; cbn [expect rbind]; [|reflexivity].
    destruct (a_is_multiple a); reflexivity. }
  destruct pst as [|i|i]; [exact Hbody|contradiction|exact Hbody].
Qed.
End PosStep.

(** a single-valued positional: the value becomes the pending occurrence (flushed by the next [react]
    or by the phases after the loop), exactly as `--opt v` does *)
Lemma pos_push_single c a v st : a_is_multiple a = false -> pos_push c a v st = sep_fn c IIndex a v st.
Proof.
  intros Hm. unfold a_is_multiple in Hm. apply orb_false_elim in Hm. destruct Hm as [Hmv _].
  unfold pos_push, sep_fn. rewrite Hmv. cbn [negb]. rewrite orb_true_r.
  destruct (resolve_pending c st) as [st1|e s1|x] eqn:RP; cbn [rbind]; try reflexivity.
  pose proof (resolve_pending_clears _ _ _ RP) as PN.
  unfold pending_values_push. rewrite PN. cbn [p_id p_ident p_raw p_trailing_idx is_some ident_eqb negb andb app].
  rewrite beq_refl. reflexivity.
Qed.

Lemma pos_push_fs c a v st st' : pos_push c a v st = ROk st' -> fs_skip st' = fs_skip st /\ fs_at st' = fs_at st.
Proof.
  unfold pos_push.
  destruct (negb _ || negb _).
  - destruct (resolve_pending c st) as [st1|e s1|x] eqn:RP; cbn [rbind]; try discriminate.
    destruct (pending_values_push _ _ _ _ _); cbn [expect rbind]; [|discriminate].
    intros H. inversion H. cbn. split; [exact (resolve_pending_fs c st st1 RP)|exact (resolve_pending_fsat c st st1 RP)].
  - cbn [rbind]. destruct (pending_values_push _ _ _ _ _); cbn [expect rbind]; [|discriminate].
    intros H. inversion H. split; reflexivity.
Qed.

Lemma sep_fn_fs c idn a v st st' : sep_fn c idn a v st = ROk st' -> fs_skip st' = fs_skip st /\ fs_at st' = fs_at st.
Proof.
  unfold sep_fn. destruct (resolve_pending c st) as [st1|e s1|x] eqn:RP; cbn [rbind]; try discriminate.
  intros H. inversion H. cbn. split; [exact (resolve_pending_fs c st st1 RP)|exact (resolve_pending_fsat c st st1 RP)].
Qed.

(** ** prefixes of options AND single-valued positionals; the indices are the positional counter
    before and after *)
Inductive pitems (c : cmd) : N -> list bytes -> (ps -> res ps) -> N -> Prop :=
| pi_nil pos : pitems c pos [] (fun st => ROk st) pos
| pi_opt pos toks F pre G pos' : item c toks F -> pitems c pos pre G pos' ->
    pitems c pos (toks ++ pre) (fun st => do st' <- F st; G st') pos'
| pi_pos pos tok a pre G pos' :
    no_sub c tok -> plain_tok tok -> takes_at c pos a tok -> a_is_multiple a = false ->
    pitems c (pos + 1) pre G pos' ->
    pitems c pos (tok :: pre) (fun st => do st' <- sep_fn c IIndex a tok st; G st') pos'.

Lemma prefix_pitems c pre F : prefix_ok c pre F -> forall pos, pitems c pos pre F pos.
Proof. induction 1 as [|toks F pre G Hi Hp IH]; intros pos; [apply pi_nil|apply pi_opt; [exact Hi|apply IH]]. Qed.

Lemma pitems_fs c pos pre F pos' : pitems c pos pre F pos' -> forall st st', F st = ROk st' ->
  fs_skip st' = fs_skip st /\ fs_at st' = fs_at st.
Proof.
  induction 1 as [pos|pos toks F pre G pos' Hi Hp IH|pos tok a pre G pos' Hns Hpl Ht Hm Hp IH]; intros st st' H.
  - inversion H. split; reflexivity.
  - destruct (F st) as [st1|e s1|x] eqn:E; cbn [rbind] in H; try discriminate.
    destruct (IH _ _ H) as [H1 H2]. rewrite H1, H2. split; [exact (item_fs c toks F Hi _ _ E)|exact (item_fsat c toks F Hi _ _ E)].
  - destruct (sep_fn c IIndex a tok st) as [st1|e s1|x] eqn:E; cbn [rbind] in H; try discriminate.
    destruct (IH _ _ H) as [H1 H2]. destruct (sep_fn_fs _ _ _ _ _ _ E) as [H3 H4]. rewrite H1, H2. split; assumption.
Qed.

Theorem loop_pitems c pos pre F pos' : pitems c pos pre F pos' -> forall rest vaf st, fs_skip st = 0 ->
  parse_loop c (pre ++ rest) (lsV pos vaf) st =
  (do st' <- F st; parse_loop c rest (lsV pos' (vaf || negb (is_nil pre))) st').
Proof.
  induction 1 as [pos|pos toks F pre G pos' Hi Hp IH|pos tok a pre G pos' Hns Hpl Ht Hm Hp IH]; intros rest vaf st Hfs.
  - cbn [app rbind is_nil negb]. rewrite orb_false_r. reflexivity.
  - rewrite <- app_assoc, (item_step c toks F Hi (pre ++ rest) pos vaf st Hfs).
    destruct (F st) as [st1|e s1|x] eqn:E; cbn [rbind]; try reflexivity.
    rewrite IH by (rewrite (item_fs c toks F Hi _ _ E); exact Hfs).
    pose proof (item_nonempty c toks F Hi) as Hne. destruct toks as [|t0 ts]; [discriminate|].
    cbn [app is_nil negb orb]. rewrite orb_true_r. reflexivity.
  - cbn [app]. unfold lsV at 1.
    rewrite (loop_pos_step c PSValuesDone tok a (pre ++ rest) pos vaf st I); [| |exact Hpl|exact Ht].
    2:{ rewrite orb_true_r. apply Hns. }
    rewrite (pos_push_single c a tok st Hm). unfold after_pos. rewrite Hm.
    destruct (sep_fn c IIndex a tok st) as [st1|e s1|x] eqn:E; cbn [rbind]; try reflexivity.
    destruct (sep_fn_fs _ _ _ _ _ _ E) as [H3 _].
    rewrite IH by (rewrite H3; exact Hfs). cbn [is_nil negb orb]. rewrite orb_true_r. reflexivity.
Qed.

(** ** a multi-valued positional: every further plain token is a value *)
Fixpoint push_all (c : cmd) (a : arg) (vs : list bytes) (st : ps) : res ps :=
  match vs with [] => ROk st | v :: t => do st' <- pos_push c a v st; push_all c a t st' end.

(** [v1 :: vs] are values of the multi-valued positional [a] at counter [pos]: plain words; the first is
    not a subcommand of [c]; the others need not be — unless THIS level has
    [subcommand_precedence_over_arg], then none of them may be *)
Definition multi_vals (c : cmd) (pos : N) (a : arg) (v1 : bytes) (vs : list bytes) : Prop :=
  a_is_multiple a = true /\ no_sub c v1 /\
  (is_set s_sub_precedence c = true -> Forall (no_sub c) vs) /\
  Forall (fun v => plain_tok v /\ takes_at c pos a v) (v1 :: vs).

Lemma push_all_fs c a : forall vs st st', push_all c a vs st = ROk st' -> fs_skip st' = fs_skip st /\ fs_at st' = fs_at st.
Proof.
  induction vs as [|v t IH]; intros st st' H; cbn [push_all] in H; [inversion H; split; reflexivity|].
  destruct (pos_push c a v st) as [st1|e s1|x] eqn:E; cbn [rbind] in H; try discriminate.
  destruct (IH _ _ H) as [H1 H2]. destruct (pos_push_fs _ _ _ _ _ E) as [H3 H4]. rewrite H1, H2. split; assumption.
Qed.

Lemma loop_multi_more c pos a : a_is_multiple a = true -> forall vs,
  (is_set s_sub_precedence c = true -> Forall (no_sub c) vs) ->
  Forall (fun v => plain_tok v /\ takes_at c pos a v) vs ->
  forall rest st,
  parse_loop c (vs ++ rest) (mkL (PSPos (a_id a)) pos true false) st =
  (do st' <- push_all c a vs st; parse_loop c rest (mkL (PSPos (a_id a)) pos true false) st').
Proof.
  intros Hm. induction vs as [|v t IH]; intros Hprec Hall rest st; [reflexivity|].
  inversion Hall as [|v0 t0 [Hpl Ht] Hall']; subst. cbn [app push_all].
  rewrite (loop_pos_step c (PSPos (a_id a)) v a (t ++ rest) pos true st I); [| |exact Hpl|exact Ht].
  2:{ rewrite orb_false_r. destruct (is_set s_sub_precedence c) eqn:Ep; [|reflexivity].
      specialize (Hprec eq_refl). inversion Hprec; subst. auto. }
  unfold after_pos. rewrite Hm.
  destruct (pos_push c a v st) as [st1|e s1|x]; cbn [rbind]; try reflexivity.
  apply IH; [|exact Hall']. intros Ep. specialize (Hprec Ep). inversion Hprec; assumption.
Qed.

Theorem loop_multi c pos a v1 vs : multi_vals c pos a v1 vs -> forall rest vaf st,
  parse_loop c ((v1 :: vs) ++ rest) (lsV pos vaf) st =
  (do st' <- push_all c a (v1 :: vs) st; parse_loop c rest (mkL (PSPos (a_id a)) pos true false) st').
Proof.
  intros [Hm [Hns [Hprec Hall]]] rest vaf st. inversion Hall as [|v0 t0 [Hpl Ht] Hall']; subst.
  cbn [app push_all]. unfold lsV.
  rewrite (loop_pos_step c PSValuesDone v1 a (vs ++ rest) pos vaf st I); [| |exact Hpl|exact Ht].
  2:{ rewrite orb_true_r. apply Hns. }
  unfold after_pos. rewrite Hm.
  destruct (pos_push c a v1 st) as [st1|e s1|x]; cbn [rbind]; try reflexivity.
  exact (loop_multi_more c pos a Hm vs Hprec Hall' rest st1).
Qed.

(** * Part 2: selection by name, with and without [infer_subcommands] *)

(** [tok] is a prefix of the name or of an alias of [s] *)
Definition sub_matches (tok : bytes) (s : cmd) : bool :=
  is_prefix tok (c_name s) || existsb (is_prefix tok) (all_aliases s).
(** what the inference reports for [s]: its name, or the first alias with that prefix *)
Definition infer_pick (tok : bytes) (s : cmd) : option bytes :=
  if is_prefix tok (c_name s) then Some (c_name s) else List.find (is_prefix tok) (all_aliases s).
Definition infer_list (c : cmd) (tok : bytes) : list bytes := filter_map (infer_pick tok) (c_subs c).

(** [nsel c tok n]: the word [tok] selects a subcommand of [c] by NAME; [n] is what
    [possible_subcommand] returns (with inference possibly the text of an alias) *)
Inductive nsel (c : cmd) : bytes -> bytes -> Prop :=
| ns_exact tok sc0 :    (* no inference: a name or an alias *)
    utf8_valid tok = true -> is_set s_infer_sub c = false -> find_subcommand c tok = Some sc0 ->
    not_help c (c_name sc0) -> nsel c tok (c_name sc0)
| ns_unique tok n :     (* inference: exactly one subcommand has a name or alias starting with [tok] *)
    utf8_valid tok = true -> is_set s_infer_sub c = true -> infer_list c tok = [n] ->
    not_help c n -> nsel c tok n
| ns_ambig tok sc0 :    (* inference finds none or several, but [tok] is an exact name or alias *)
    utf8_valid tok = true -> is_set s_infer_sub c = true -> first_unique (infer_list c tok) = None ->
    find_subcommand c tok = Some sc0 -> not_help c (c_name sc0) -> nsel c tok (c_name sc0).

Lemma possible_subcommand_infer c tok vaf :
  utf8_valid tok = true -> (is_set s_args_negate_subs c && vaf) = false -> is_set s_infer_sub c = true ->
  possible_subcommand c tok vaf =
  match first_unique (infer_list c tok) with Some n => Some n | None => opt_map c_name (find_subcommand c tok) end.
Proof. intros Hu Hn Hi. unfold possible_subcommand. rewrite Hu, Hn, Hi. reflexivity. Qed.

Lemma nsel_possible c tok n : nsel c tok n -> is_set s_args_negate_subs c = false ->
  forall vaf, possible_subcommand c tok vaf = Some n.
Proof.
  intros Hs Hneg vaf. assert (Hn : (is_set s_args_negate_subs c && vaf) = false) by (rewrite Hneg; reflexivity).
  destruct Hs as [tok sc0 Hu Hi Hf Hh|tok n Hu Hi Hl Hh|tok sc0 Hu Hi Hl Hf Hh].
  - exact (possible_subcommand_exact c tok vaf sc0 Hu Hi Hn Hf).
  - rewrite (possible_subcommand_infer c tok vaf Hu Hn Hi), Hl. reflexivity.
  - rewrite (possible_subcommand_infer c tok vaf Hu Hn Hi), Hl, Hf. reflexivity.
Qed.

Lemma nsel_not_help c tok n : nsel c tok n -> not_help c n.
Proof. intros Hs. destruct Hs; assumption. Qed.

(** the loop dispatches on such a word whenever it looks for subcommands at all: between arguments
    (state ValuesDone), or — with [subcommand_precedence_over_arg] on this level — in any state *)
Lemma nsel_loop c tok n : nsel c tok n -> is_set s_args_negate_subs c = false ->
  forall pst, (is_set s_sub_precedence c || match pst with PSValuesDone => true | _ => false end) = true ->
  forall rest pos vaf st,
  parse_loop c (tok :: rest) (mkL pst pos vaf false) st = ROk (LSub n false vaf st rest).
Proof.
  intros Hs Hneg pst Htry rest pos vaf st. cbn [parse_loop l_trailing l_pst l_vaf l_pos].
  rewrite Htry, (nsel_possible c tok n Hs Hneg vaf).
  pose proof (nsel_not_help c tok n Hs) as Hh. unfold not_help in Hh. rewrite Hh. reflexivity.
Qed.

(** ** inference: the unique prefix match resolves to the ONE subcommand it matches *)
Lemma infer_pick_some tok s n : infer_pick tok s = Some n -> is_prefix tok n = true /\ aliases_to s n = true.
Proof.
  unfold infer_pick, aliases_to. destruct (is_prefix tok (c_name s)) eqn:E.
  - intros H. inversion H; subst. split; [exact E|]. rewrite beq_refl. reflexivity.
  - intros H. apply find_some in H. destruct H as [Hin Hp]. split; [exact Hp|].
    apply orb_true_iff. right. apply existsb_exists. exists n. split; [exact Hin|apply beq_refl].
Qed.

Lemma infer_pick_none tok s n : infer_pick tok s = None -> is_prefix tok n = true -> aliases_to s n = false.
Proof.
  unfold infer_pick, aliases_to. intros H Hp. destruct (is_prefix tok (c_name s)) eqn:E; [discriminate|].
  apply orb_false_iff. split.
  - destruct (beq (c_name s) n) eqn:B; [|reflexivity]. apply beq_eq in B. rewrite B, Hp in E. discriminate.
  - destruct (existsb (beq n) (all_aliases s)) eqn:X; [|reflexivity]. apply existsb_exists in X.
    destruct X as [y [Hin Hy]]. apply beq_eq in Hy. subst y.
    pose proof (find_none _ _ H n Hin) as Hn. rewrite Hp in Hn. discriminate.
Qed.

Lemma infer_pick_matches tok s : sub_matches tok s = is_some (infer_pick tok s).
Proof.
  unfold sub_matches, infer_pick. destruct (is_prefix tok (c_name s)); [reflexivity|]. cbn [orb].
  destruct (List.find (is_prefix tok) (all_aliases s)) as [y|] eqn:E.
  - apply find_some in E. destruct E as [Hin Hp]. apply existsb_exists. exists y. split; assumption.
  - destruct (existsb (is_prefix tok) (all_aliases s)) eqn:X; [|reflexivity].
    apply existsb_exists in X. destruct X as [y [Hin Hy]]. pose proof (find_none _ _ E y Hin). congruence.
Qed.

Lemma filter_map_single {A B} (f : A -> option B) : forall l n, filter_map f l = [n] ->
  exists l1 s l2, l = l1 ++ s :: l2 /\ f s = Some n /\ (forall x, In x l1 -> f x = None) /\ (forall x, In x l2 -> f x = None).
Proof.
  induction l as [|a t IH]; intros n H; cbn [filter_map] in H; [discriminate|].
  destruct (f a) as [b|] eqn:E.
  - inversion H; subst. exists [], a, t. split; [reflexivity|]. split; [exact E|]. split; [intros x []|].
    intros x Hx. destruct (f x) as [y|] eqn:Ex; [|reflexivity]. exfalso.
    clear -Hx Ex H2. induction t as [|h t IH]; [destruct Hx|]. cbn [filter_map] in H2.
    destruct Hx as [->|Hx]; [rewrite Ex in H2; discriminate|]. destruct (f h); [discriminate|]. exact (IH H2 Hx).
  - destruct (IH n H) as [l1 [s [l2 [H1 [H2 [H3 H4]]]]]]. exists (a :: l1), s, l2.
    split; [rewrite H1; reflexivity|]. split; [exact H2|]. split; [|exact H4].
    intros x [<-|Hx]; [exact E|exact (H3 x Hx)].
Qed.

(** [infer_list c tok = [n]]: [n] resolves ([find_subcommand]) to a subcommand [sc0] of [c] that [tok] is a
    prefix of (name or alias), [n] is its name or one of its aliases, and NO other subcommand of [c] has
    a name or alias starting with [tok]: the chain records [c_name sc0], the canonical name *)
Theorem infer_unique_target c tok n : infer_list c tok = [n] ->
  exists sc0, find_subcommand c n = Some sc0 /\ In sc0 (c_subs c) /\ sub_matches tok sc0 = true /\
    aliases_to sc0 n = true /\ is_prefix tok n = true /\
    (forall s, In s (c_subs c) -> sub_matches tok s = true -> s = sc0).
Proof.
  intros H. unfold infer_list in H. destruct (filter_map_single _ _ _ H) as [l1 [s [l2 [Hl [Hs [H1 H2]]]]]].
  destruct (infer_pick_some tok s n Hs) as [Hp Ha].
  exists s. split; [|split; [|split; [|split; [exact Ha|split; [exact Hp|]]]]].
  - unfold find_subcommand. rewrite Hl. rewrite find_app_none.
    + cbn [List.find]. rewrite Ha. reflexivity.
    + destruct (List.find (fun s0 => aliases_to s0 n) l1) as [y|] eqn:E; [|reflexivity].
      apply find_some in E. destruct E as [Hin Hy]. rewrite (infer_pick_none tok y n (H1 y Hin) Hp) in Hy. discriminate.
  - rewrite Hl. apply in_or_app. right. left. reflexivity.
  - rewrite infer_pick_matches, Hs. reflexivity.
  - intros s' Hin Hm. rewrite infer_pick_matches in Hm. rewrite Hl in Hin. apply in_app_or in Hin.
    destruct Hin as [Hin|[Heq|Hin]]; [rewrite (H1 s' Hin) in Hm; discriminate|symmetry; exact Heq|
                                      rewrite (H2 s' Hin) in Hm; discriminate].
Qed.

Lemma nsel_resolves c tok n : nsel c tok n -> exists sc0, find_subcommand c n = Some sc0.
Proof.
  intros Hs. destruct Hs as [tok sc0 Hu Hi Hf Hh|tok n Hu Hi Hl Hh|tok sc0 Hu Hi Hl Hf Hh].
  - apply Dispatch.find_some_in in Hf. destruct Hf as [Hin _]. apply Dispatch.find_subcommand_name. exact Hin.
  - destruct (infer_unique_target c tok n Hl) as [sc0 [Hf _]]. eauto.
  - apply Dispatch.find_some_in in Hf. destruct Hf as [Hin _]. apply Dispatch.find_subcommand_name. exact Hin.
Qed.

(** ** an ambiguous prefix (two or more subcommands match, no exact name) is not dispatched … *)
Theorem infer_ambiguous_no_sub c tok :
  is_set s_infer_sub c = true -> (2 <= length (infer_list c tok))%nat -> find_subcommand c tok = None ->
  no_sub c tok.
Proof.
  intros Hi Hlen Hf vaf. unfold possible_subcommand.
  destruct (negb (utf8_valid tok)); [reflexivity|]. destruct (_ && _); [reflexivity|].
  rewrite Hi, Hf. change (filter_map _ (c_subs c)) with (infer_list c tok).
  destruct (infer_list c tok) as [|x [|y t]]; cbn [length] in Hlen; try lia. reflexivity.
Qed.

(** … and, in a command without positional arguments and external subcommands, rejected as
    InvalidSubcommand whatever follows *)
Theorem infer_ambiguous_rejected c tok rest pos vaf st :
  is_set s_infer_sub c = true -> (2 <= length (infer_list c tok))%nat -> find_subcommand c tok = None ->
  plain_tok tok -> pos_free c -> is_set s_allow_external c = false -> is_set s_args_negate_subs c = false ->
  parse_loop c (tok :: rest) (lsV pos vaf) st =
  (do st1 <- resolve_pending_ignore c st; RErr (mkerr c EInvalidSubcommand tok) st1).
Proof.
  intros Hi Hlen Hf [He [Hl Hs]] Hpf Hext Hneg.
  pose proof (infer_ambiguous_no_sub c tok Hi Hlen Hf) as Hns.
  unfold lsV. cbn [parse_loop l_trailing l_pst l_vaf l_pos].
  rewrite orb_true_r, (Hns vaf), He, Hl, Hs. cbn [rbind l_trailing l_pst l_vaf l_pos].
  rewrite (pos_free_count c Hpf).
  replace (pos + 1 =? 0) with false by (symmetry; apply N.eqb_neq; lia).
  rewrite !andb_false_r. cbn [andb orb rbind].
  rewrite (pos_free_get_pos c pos Hpf), Hext.
  unfold match_arg_error. cbn [andb]. rewrite Hneg. cbn [andb].
  assert (Hsubs : has_subcommands c = true).
  { unfold has_subcommands, infer_list in *. destruct (c_subs c); [cbn in Hlen; lia|reflexivity]. }
  rewrite Hsubs, Hi, orb_true_r. reflexivity.
Qed.

(** * Part 3: after `--` nothing is dispatched *)
Definition esc : bytes := [DASH; DASH].

Lemma loop_escape c rest pos vaf st : no_sub c esc ->
  parse_loop c (esc :: rest) (lsV pos vaf) st =
  parse_loop c rest (mkL PSValuesDone pos vaf true) (st <| mt := start_trailing (mt st) |>).
Proof.
  intros Hns. unfold lsV. cbn [parse_loop l_trailing l_pst l_vaf l_pos].
  rewrite orb_true_r, (Hns vaf). change (is_escape esc) with true. cbn [state_arg rbind]. reflexivity.
Qed.

Lemma loop_escape_pos c i a rest pos vaf st : no_sub c esc -> find_arg c i = Some a -> a_hyphen a = false ->
  parse_loop c (esc :: rest) (mkL (PSPos i) pos vaf false) st =
  parse_loop c rest (mkL (PSPos i) pos vaf true) (st <| mt := start_trailing (mt st) |>).
Proof.
  intros Hns Hf Hh. cbn [parse_loop l_trailing l_pst l_vaf l_pos].
  replace (if is_set s_sub_precedence c || false then possible_subcommand c esc vaf else None) with (@None bytes)
    by (destruct (is_set s_sub_precedence c); cbn [orb]; [rewrite (Hns vaf)|]; reflexivity).
  change (is_escape esc) with true. cbn [state_arg]. rewrite Hf. cbn [expect rbind]. rewrite Hh. reflexivity.
Qed.

(** in a loop state with `--` seen, whatever the tokens: the loop ends ([LDone]), fails, or — only
    in a command that allows external subcommands — starts an external subcommand; it never selects a
    subcommand of the tree and never the help subcommand *)
Definition no_dispatch (c : cmd) (lr : loop_res) : Prop :=
  match lr with
  | LDone _ => True
  | LExternal _ _ _ => is_set s_allow_external c = true
  | LSub _ _ _ _ _ | LHelpSub _ _ => False
  end.

Theorem trailing_no_dispatch c : forall toks ls st, l_trailing ls = true ->
  holds (no_dispatch c) (fun _ => True) (parse_loop c toks ls st).
Proof.
  induction toks as [|tok rest IH]; intros ls st Ht; [exact I|].
  destruct ls as [pst pos vaf tr]. cbn [l_trailing] in Ht. subst tr.
  cbn [parse_loop l_trailing l_pst l_vaf l_pos rbind]. cbv zeta.
  eapply (holds_bind (fun _ : N => True)).
  { match goal with |- holds _ _ (if ?b then _ else _) => destruct b end.
    - destruct rest as [|n rest']; [exact I|].
      destruct (List.find _ (positionals c)) as [a|]; [|exact I].
      eapply holds_bind; [apply (is_new_arg_sub c n a (fun _ => True))|]. intros na _. exact I.
    - match goal with |- holds _ _ (if ?b then _ else _) => destruct b end; exact I. }
  intros pcv _.
  destruct (get_pos c pcv) as [a|].
  - cbn [negb andb orb]. rewrite andb_false_r.
    eapply (holds_bind (fun _ : ps => True)).
    { match goal with |- holds _ _ (if ?b then _ else _) => destruct b end; [|exact I].
      destruct (resolve_pending c st); exact I. }
    intros s2 _.
    destruct (check_terminator a tok); [apply IH; reflexivity|].
    eapply (holds_bind (fun _ : matcher => True)); [apply holds_expect; intros; exact I|].
    intros m1 _. destruct (negb (a_is_multiple a)); apply IH; reflexivity.
  - destruct (is_set s_allow_external c) eqn:Ex.
    + destruct (utf8_valid tok); [exact Ex|].
      destruct (resolve_pending_ignore c st); exact I.
    + destruct (resolve_pending_ignore c st); exact I.
Qed.

(** * Part 4: the wide class of lines and the chain theorem *)

(** the arguments of a level: options and single-valued positionals ([pitems], the counter starts at 1),
    optionally followed by the values of a multi-valued positional; the loop state it ends in *)
Inductive wbody (c : cmd) : list bytes -> (ps -> res ps) -> pstate_t -> N -> Prop :=
| wb_plain pre F pos' : pitems c 1 pre F pos' -> wbody c pre F PSValuesDone pos'
| wb_multi pre F pos' a v1 vs : pitems c 1 pre F pos' -> multi_vals c pos' a v1 vs ->
    wbody c (pre ++ v1 :: vs) (fun st => do st' <- F st; push_all c a (v1 :: vs) st') (PSPos (a_id a)) pos'.

Lemma loop_wbody c pre F pst pos' : wbody c pre F pst pos' -> forall rest vaf st, fs_skip st = 0 ->
  parse_loop c (pre ++ rest) (lsV 1 vaf) st =
  (do st' <- F st; parse_loop c rest (mkL pst pos' (vaf || negb (is_nil pre)) false) st').
Proof.
  intros [pre0 F0 pos0 Hp|pre0 F0 pos0 a v1 vs Hp Hm] rest vaf st Hfs.
  - exact (loop_pitems c 1 pre0 F0 pos0 Hp rest vaf st Hfs).
  - rewrite <- app_assoc. rewrite (loop_pitems c 1 pre0 F0 pos0 Hp ((v1 :: vs) ++ rest) vaf st Hfs).
    destruct (F0 st) as [st1|e s1|x]; cbn [rbind]; try reflexivity.
    rewrite (loop_multi c pos0 a v1 vs Hm rest _ st1).
    replace (vaf || negb (is_nil (pre0 ++ v1 :: vs))) with true; [reflexivity|].
    destruct pre0; cbn [app is_nil negb]; rewrite orb_true_r; reflexivity.
Qed.

Lemma wbody_fs c pre F pst pos' : wbody c pre F pst pos' -> forall st st', F st = ROk st' ->
  fs_skip st' = fs_skip st /\ fs_at st' = fs_at st.
Proof.
  intros [pre0 F0 pos0 Hp|pre0 F0 pos0 a v1 vs Hp Hm] st st' H.
  - exact (pitems_fs c 1 pre0 F0 pos0 Hp st st' H).
  - destruct (F0 st) as [st1|e s1|x] eqn:E; cbn [rbind] in H; try discriminate.
    destruct (pitems_fs c 1 pre0 F0 pos0 Hp st st1 E) as [H1 H2].
    destruct (push_all_fs c a _ _ _ H) as [H3 H4]. rewrite H3, H4. split; assumption.
Qed.

(** a level entered through a continued cluster ([true]) first re-reads that token as flags of its own *)
Inductive wprefix (c : cmd) : bool -> list bytes -> (ps -> res ps) -> pstate_t -> N -> Prop :=
| wp_plain pre F pst pos' : wbody c pre F pst pos' -> wprefix c false pre F pst pos'
| wp_resumed tok os pre F pst pos' : resumed_tok c tok os -> wbody c pre F pst pos' ->
    wprefix c true (tok :: pre) (fun st => do st1 <- react_all c os (st <| fs_skip := 0 |>); F st1) pst pos'.

Theorem loop_wprefix c b pre F pst pos' : wprefix c b pre F pst pos' -> forall rest st, fs_skip st = start_skip b ->
  parse_loop c (pre ++ rest) (lsV 1 false) st =
  (do st' <- F st; parse_loop c rest (mkL pst pos' (negb (is_nil pre)) false) st').
Proof.
  intros [pre0 F0 pst0 pos0 Hb|tok os pre0 F0 pst0 pos0 Hr Hb] rest st Hsk.
  - exact (loop_wbody c pre0 F0 pst0 pos0 Hb rest false st Hsk).
  - cbn [app]. rewrite (loop_resumed c tok os Hr (pre0 ++ rest) st Hsk).
    destruct (react_all c os (st <| fs_skip := 0 |>)) as [st1|e s1|x] eqn:E; cbn [rbind]; try reflexivity.
    rewrite (loop_wbody c pre0 F0 pst0 pos0 Hb rest true st1); [reflexivity|].
    rewrite (react_all_fs _ _ _ _ E). reflexivity.
Qed.

Lemma wprefix_fs c b pre F pst pos' : wprefix c b pre F pst pos' -> forall st st',
  fs_skip st = start_skip b -> F st = ROk st' -> fs_skip st' = 0 /\ fs_at st' = fs_at st.
Proof.
  intros [pre0 F0 pst0 pos0 Hb|tok os pre0 F0 pst0 pos0 Hr Hb] st st' Hsk H.
  - destruct (wbody_fs c pre0 F0 pst0 pos0 Hb st st' H) as [H1 H2]. split; [rewrite H1; exact Hsk|exact H2].
  - destruct (react_all c os (st <| fs_skip := 0 |>)) as [st1|e s1|x] eqn:E; cbn [rbind] in H; try discriminate.
    destruct (wbody_fs c pre0 F0 pst0 pos0 Hb st1 st' H) as [H1 H2]. split.
    + rewrite H1, (react_all_fs _ _ _ _ E). reflexivity.
    + rewrite H2, (react_all_fsat _ _ _ _ E). reflexivity.
Qed.

(** short flag-subcommands at any value of the positional counter *)
Definition short_sel_at (c : cmd) (pos : N) (tok : bytes) (n : bytes) : Prop :=
  exists r ch, no_sub c tok /\ is_escape tok = false /\ to_long tok = None /\ to_short tok = Some r /\
    sf_next r = Some (inl ch, []) /\ get_short c ch = None /\ find_short_subcmd c ch = Some n /\
    no_hyphen_pos c pos.
Definition cluster_sel_at (c : cmd) (pos : N) (tok : bytes) (n : bytes) : Prop :=
  exists r ch r', no_sub c tok /\ is_escape tok = false /\ to_long tok = None /\ to_short tok = Some r /\
    sf_next r = Some (inl ch, r') /\ r' <> [] /\ get_short c ch = None /\ find_short_subcmd c ch = Some n /\
    no_hyphen_pos c pos.

Lemma loop_short_sel_at c pos tok n : short_sel_at c pos tok n -> forall rest vaf st, fs_skip st = 0 ->
  parse_loop c (tok :: rest) (lsV pos vaf) st =
  (do st1 <- resolve_pending c st; ROk (LSub n false vaf ((ps_bump st1) <| fs_at := None |>) rest)).
Proof.
  intros [r [ch [Hns [He [Hl [Hs [Hn [Hg [Hf Hpos]]]]]]]]] rest vaf st Hsk.
  unfold lsV. cbn [parse_loop l_trailing l_pst l_vaf l_pos].
  rewrite orb_true_r, (Hns vaf), He, Hl, Hs.
  rewrite (parse_short_arg_clean c r pos vaf st Hsk Hpos), (fs_skip_eta st Hsk).
  rewrite (short_loop_flag_sub_gen c _ r ch [] PRNoArg vaf st n Hn Hg Hf).
  destruct (resolve_pending c st) as [st1|e s1|x]; cbn [rbind is_nil]; reflexivity.
Qed.

Lemma loop_cluster_sel_at c pos tok n : cluster_sel_at c pos tok n -> forall rest vaf st, fs_skip st = 0 -> fs_at st = None ->
  parse_loop c (tok :: rest) (lsV pos vaf) st =
  (do st1 <- resolve_pending c st;
   ROk (LSub n true vaf ((ps_bump st1) <| fs_at := Some (cur_idx st1 + 1) |> <| fs_skip := 1 |>) (tok :: rest))).
Proof.
  intros [r [ch [r' [Hns [He [Hl [Hs [Hn [Hne [Hg [Hf Hpos]]]]]]]]]]] rest vaf st Hsk Hat.
  unfold lsV. cbn [parse_loop l_trailing l_pst l_vaf l_pos].
  rewrite orb_true_r, (Hns vaf), He, Hl, Hs.
  rewrite (parse_short_arg_clean c r pos vaf st Hsk Hpos), (fs_skip_eta st Hsk).
  rewrite (short_loop_flag_sub_gen c _ r ch r' PRNoArg vaf st n Hn Hg Hf).
  destruct (resolve_pending c st) as [st1|e s1|x] eqn:E; cbn [rbind]; try reflexivity.
  rewrite (resolve_pending_fsat c st st1 E), Hat.
  destruct r' as [|b0 t0]; [contradiction|]. cbn [is_nil].
  cbn [fs_at cur_idx ps_bump]. unfold checked_sub. cbn. rewrite N.leb_refl, N.sub_diag. reflexivity.
Qed.

(** the selecting token of a level, given the loop state its arguments end in; the boolean result is
    [keep_state].  Between arguments: a long flag-subcommand or name ([sel]), a name with or without
    inference ([nsel]), `-S`, or the first letter of `-Syu` (only in a level not itself entered through
    a cluster).  While a multi-valued positional collects values: a name, and only if THIS level has
    [subcommand_precedence_over_arg] *)
Inductive wsel (c : cmd) : bool -> pstate_t -> N -> bytes -> bytes -> bool -> Prop :=
| ws_sel b pos tok n : sel c tok n -> wsel c b PSValuesDone pos tok n false
| ws_name b pos tok n : nsel c tok n -> wsel c b PSValuesDone pos tok n false
| ws_prec b i pos tok n : is_set s_sub_precedence c = true -> nsel c tok n -> wsel c b (PSPos i) pos tok n false
| ws_short b pos tok n : short_sel_at c pos tok n -> wsel c b PSValuesDone pos tok n false
| ws_cluster pos tok n : cluster_sel_at c pos tok n -> wsel c false PSValuesDone pos tok n true.

Lemma wsel_loop c b pst pos tok n keep : wsel c b pst pos tok n keep -> is_set s_args_negate_subs c = false ->
  forall rest vaf st, fs_skip st = 0 -> (b = false -> fs_at st = None) ->
  exists T : ps -> res ps,
    parse_loop c (tok :: rest) (mkL pst pos vaf false) st =
      (do st1 <- T st; ROk (LSub n keep vaf st1 (if keep then tok :: rest else rest))) /\
    (forall st1, T st = ROk st1 -> keep = true -> fs_skip st1 = 1).
Proof.
  intros Hg Hneg rest vaf st Hsk Hat. destruct Hg as [b pos tok n Hs|b pos tok n Hs|b i pos tok n Hp Hs|b pos tok n Hs|pos tok n Hs].
  - exists (fun st => ROk st). split; [exact (sel_loop c tok n Hs Hneg rest pos vaf st)|discriminate].
  - exists (fun st => ROk st). split; [|discriminate].
    apply (nsel_loop c tok n Hs Hneg PSValuesDone). apply orb_true_r.
  - exists (fun st => ROk st). split; [|discriminate].
    apply (nsel_loop c tok n Hs Hneg (PSPos i)). rewrite Hp. reflexivity.
  - exists (fun st => do st1 <- resolve_pending c st; ROk ((ps_bump st1) <| fs_at := None |>)).
    split; [|discriminate]. change (mkL PSValuesDone pos vaf false) with (lsV pos vaf).
    rewrite (loop_short_sel_at c pos tok n Hs rest vaf st Hsk).
    destruct (resolve_pending c st); reflexivity.
  - exists (fun st => do st1 <- resolve_pending c st;
                       ROk ((ps_bump st1) <| fs_at := Some (cur_idx st1 + 1) |> <| fs_skip := 1 |>)).
    split.
    + change (mkL PSValuesDone pos vaf false) with (lsV pos vaf).
      rewrite (loop_cluster_sel_at c pos tok n Hs rest vaf st Hsk (Hat eq_refl)).
      destruct (resolve_pending c st); reflexivity.
    + intros st1 H _. destruct (resolve_pending c st); cbn [rbind] in H; try discriminate.
      inversion H. reflexivity.
Qed.

Lemma wsel_resolves c b pst pos tok n keep : wsel c b pst pos tok n keep -> exists sc0, find_subcommand c n = Some sc0.
Proof.
  intros [b0 pos0 tok0 n0 Hs|b0 pos0 tok0 n0 Hs|b0 i pos0 tok0 n0 Hp Hs
         |b0 pos0 tok0 n0 [r [ch [_ [_ [_ [_ [_ [_ [Hf _]]]]]]]]]|pos0 tok0 n0 [r [ch [r' [_ [_ [_ [_ [_ [_ [_ [Hf _]]]]]]]]]]]].
  - exact (sel_resolves c tok0 n0 Hs).
  - exact (nsel_resolves c tok0 n0 Hs).
  - exact (nsel_resolves c tok0 n0 Hs).
  - exact (short_flag_subcommand_resolves c ch n0 Hf).
  - exact (short_flag_subcommand_resolves c ch n0 Hf).
Qed.

(** [wline c b toks names ext]: the arguments of each level are options, single-valued positionals and
    possibly the values of a multi-valued positional; a level ends with the end of the line, with `--`
    and an ARBITRARY tail (in a command without external subcommands), with a selecting token ([wsel])
    followed by the line of the child, or with the name of an external subcommand.  No premise on the
    children selected: [names] are the [c_name]s of what [find_subcommand] resolves the selections to *)
Inductive wline : cmd -> bool -> list bytes -> list bytes -> option (list bytes) -> Prop :=
| wl_end c b pre F pst pos : wprefix c b pre F pst pos -> wline c b pre [] None
| wl_escape c b pre F pos tail :
    wprefix c b pre F PSValuesDone pos -> no_sub c esc -> is_set s_allow_external c = false ->
    wline c b (pre ++ esc :: tail) [] None
| wl_escape_multi c b pre F i pos a tail :     (* `--` behind the values of a multi-valued positional *)
    wprefix c b pre F (PSPos i) pos -> find_arg c i = Some a -> a_hyphen a = false ->
    no_sub c esc -> is_set s_allow_external c = false ->
    wline c b (pre ++ esc :: tail) [] None
| wl_sub c b pre F pst pos tok n keep sc0 sc rest names ext :
    lvl_ok c -> wprefix c b pre F pst pos -> wsel c b pst pos tok n keep -> find_subcommand c n = Some sc0 ->
    build_subcommand c (c_name sc0) = Some sc ->
    wline sc keep (if keep then tok :: rest else rest) names ext ->
    wline c b (pre ++ tok :: rest) (c_name sc0 :: names) ext
| wl_ext c b pre F pos tok rest :
    wprefix c b pre F PSValuesDone pos -> ext_tok c tok -> wline c b (pre ++ tok :: rest) [tok] (Some rest).

(** [gline] (and with it [line]) of Chain.v is a special case *)
Lemma lprefix_wprefix c b pre F : lprefix c b pre F -> wprefix c b pre F PSValuesDone 1.
Proof.
  intros [pre0 F0 Hp|tok os pre0 F0 Hr Hp].
  - apply wp_plain, wb_plain, prefix_pitems. exact Hp.
  - apply wp_resumed; [exact Hr|]. apply wb_plain, prefix_pitems. exact Hp.
Qed.

Lemma gsel_wsel c b tok n keep : gsel c b tok n keep -> wsel c b PSValuesDone 1 tok n keep.
Proof.
  intros [b0 tok0 n0 Hs|b0 tok0 n0 Hs|tok0 n0 Hs].
  - apply ws_sel. exact Hs.
  - apply ws_short. exact Hs.
  - apply ws_cluster. exact Hs.
Qed.

Theorem gline_wline : forall c b toks names ext, gline c b toks names ext -> wline c b toks names ext.
Proof.
  induction 1 as [c b pre F Hp|c b pre F tok n keep sc0 sc rest names ext Hl Hp Hsel Hfind Hcan Hbuild Hline IH|c b pre F tok rest Hp Hext].
  - eapply wl_end. apply lprefix_wprefix. exact Hp.
  - eapply (wl_sub c b pre F PSValuesDone 1 tok n keep); try eassumption;
      [apply lprefix_wprefix; exact Hp|apply gsel_wsel; exact Hsel].
  - eapply wl_ext; [apply lprefix_wprefix; exact Hp|exact Hext].
Qed.

Theorem chain_of_wline : forall c b toks names ext, wline c b toks names ext ->
  forall f st0 st, start_ok b st0 -> get_matches_with f c toks st0 = ROk st ->
  chain (into_inner (mt st)) = names /\
  match ext with
  | Some vals => deepest (into_inner (mt st)) = [(ext_id, ext_marg vals)]
  | None => True
  end.
Proof.
  induction 1 as [c b pre F pst pos Hp|c b pre F pos tail Hp Hesc Hnoext
                 |c b pre F i pos a tail Hp Hfa Hhy Hesc Hnoext
                 |c b pre F pst pos tok n keep sc0 sc rest names ext [Hneg Hign] Hp Hsel Hfind Hbuild Hline IH
                 |c b pre F pos tok rest Hp Hext];
    intros f st0 st [Hsub0 [Hsk0 Hat0]] H; (destruct f as [|f]; [discriminate|]);
    destruct (gmw_step f c _ st0 st H) as [lr [Hlr Hm]]; change (mkL PSValuesDone 1 false false) with (lsV 1 false) in Hlr.
  - pose proof (loop_keeps_sub c pre (lsV 1 false) st0) as Hk. rewrite Hlr in Hk. cbn [holds] in Hk.
    pose proof (loop_wprefix c b pre F pst pos Hp [] st0 Hsk0) as Hl. rewrite app_nil_r in Hl. rewrite Hl in Hlr.
    destruct (F st0) as [st'|e s1|x]; cbn [rbind parse_loop] in Hlr; try discriminate.
    inversion Hlr; subst lr. cbn [lr_st] in Hk.
    split; [|exact I]. unfold into_inner. rewrite Hm, Hk, Hsub0. reflexivity.
  - pose proof (loop_keeps_sub c (pre ++ esc :: tail) (lsV 1 false) st0) as Hk. rewrite Hlr in Hk. cbn [holds] in Hk.
    rewrite (loop_wprefix c b pre F PSValuesDone pos Hp (esc :: tail) st0 Hsk0) in Hlr.
    destruct (F st0) as [st'|e s1|x]; cbn [rbind] in Hlr; try discriminate.
    change (mkL PSValuesDone pos (negb (is_nil pre)) false) with (lsV pos (negb (is_nil pre))) in Hlr.
    rewrite (loop_escape c tail pos _ st' Hesc) in Hlr.
    match type of Hlr with ?L = _ =>
      assert (Hnd : holds (no_dispatch c) (fun _ => True) L) by (apply trailing_no_dispatch; reflexivity) end.
    rewrite Hlr in Hnd. cbn [holds] in Hnd.
    destruct lr as [st1|? ? ? ? ?|? ? ?|? ?]; cbn [no_dispatch] in Hnd; try contradiction; [|congruence].
    cbn [lr_st] in Hk. split; [|exact I]. unfold into_inner. rewrite Hm, Hk, Hsub0. reflexivity.
  - pose proof (loop_keeps_sub c (pre ++ esc :: tail) (lsV 1 false) st0) as Hk. rewrite Hlr in Hk. cbn [holds] in Hk.
    rewrite (loop_wprefix c b pre F (PSPos i) pos Hp (esc :: tail) st0 Hsk0) in Hlr.
    destruct (F st0) as [st'|e s1|x]; cbn [rbind] in Hlr; try discriminate.
    rewrite (loop_escape_pos c i a tail pos _ st' Hesc Hfa Hhy) in Hlr.
    match type of Hlr with ?L = _ =>
      assert (Hnd : holds (no_dispatch c) (fun _ => True) L) by (apply trailing_no_dispatch; reflexivity) end.
    rewrite Hlr in Hnd. cbn [holds] in Hnd.
    destruct lr as [st1|? ? ? ? ?|? ? ?|? ?]; cbn [no_dispatch] in Hnd; try contradiction; [|congruence].
    cbn [lr_st] in Hk. split; [|exact I]. unfold into_inner. rewrite Hm, Hk, Hsub0. reflexivity.
  - rewrite (loop_wprefix c b pre F pst pos Hp (tok :: rest) st0 Hsk0) in Hlr.
    destruct (F st0) as [st'|e s1|x] eqn:EF; cbn [rbind] in Hlr; try discriminate.
    destruct (wprefix_fs c b pre F pst pos Hp st0 st' Hsk0 EF) as [Hsk' Hat'].
    destruct (wsel_loop c b pst pos tok n keep Hsel Hneg rest (negb (is_nil pre)) st' Hsk'
                (fun Hb => eq_trans Hat' (Hat0 Hb))) as [T [HT Hkeep]].
    rewrite HT in Hlr. destruct (T st') as [st1|e s1|x] eqn:ET; cbn [rbind] in Hlr; try discriminate.
    inversion Hlr; subst lr. clear Hlr.
    destruct Hm as [sc0' [Hf' Hm]]. rewrite Hfind in Hf'. inversion Hf'; subst sc0'. clear Hf'.
    rewrite Hbuild in Hm. destruct Hm as [sub_st [Hchild Hsub]].
    destruct Hchild as [Hchild|[e [_ Hi]]]; [|rewrite Hign in Hi; discriminate].
    assert (Hstart : start_ok keep (sub_init keep st1)).
    { destruct keep; cbn [sub_init].
      - split; [reflexivity|]. split; [exact (Hkeep st1 eq_refl eq_refl)|discriminate].
      - split; [reflexivity|]. split; [reflexivity|]. intros _. reflexivity. }
    destruct (IH f _ sub_st Hstart Hchild) as [IH1 IH2].
    destruct (chain_into_inner _ _ _ Hsub) as [C1 C2].
    rewrite C1, C2, IH1, (build_subcommand_name c _ sc Hbuild). split; [reflexivity|exact IH2].
  - rewrite (loop_wprefix c b pre F PSValuesDone pos Hp (tok :: rest) st0 Hsk0) in Hlr.
    destruct (F st0) as [st'|e s1|x] eqn:EF; cbn [rbind] in Hlr; try discriminate.
    change (mkL PSValuesDone pos (negb (is_nil pre)) false) with (lsV pos (negb (is_nil pre))) in Hlr.
    rewrite (ext_loop c tok Hext) in Hlr. inversion Hlr; subst lr. clear Hlr.
    destruct (chain_into_inner _ _ _ Hm) as [C1 C2]. rewrite C1, C2. split; reflexivity.
Qed.

(** ** the two readings of a subcommand NAME behind the values of a multi-valued positional, by the
    setting of the level the positional belongs to *)

(** [subcommand_precedence_over_arg] off: the name is one more value (any plain word is) *)
Theorem multi_swallows_name c pos a v1 vs tok :
  multi_vals c pos a v1 vs -> is_set s_sub_precedence c = false ->
  plain_tok tok -> takes_at c pos a tok ->
  forall rest vaf st,
  parse_loop c ((v1 :: vs) ++ tok :: rest) (lsV pos vaf) st =
  (do st' <- push_all c a ((v1 :: vs) ++ [tok]) st; parse_loop c rest (mkL (PSPos (a_id a)) pos true false) st').
Proof.
  intros [Hm [Hns [Hprec Hall]]] Hoff Hpl Ht rest vaf st.
  assert (Hmv : multi_vals c pos a v1 (vs ++ [tok])).
  { split; [exact Hm|]. split; [exact Hns|]. split; [rewrite Hoff; discriminate|].
    inversion Hall as [|x l Hx Hl]; subst. apply Forall_cons; [exact Hx|].
    apply Forall_app. split; [exact Hl|]. apply Forall_cons; [split; assumption|apply Forall_nil]. }
  pose proof (loop_multi c pos a v1 (vs ++ [tok]) Hmv rest vaf st) as H.
  replace ((v1 :: vs ++ [tok]) ++ rest) with ((v1 :: vs) ++ tok :: rest) in H
    by (cbn [app]; rewrite <- app_assoc; reflexivity).
  exact H.
Qed.

(** [subcommand_precedence_over_arg] on: the name dispatches, the values before it are the positional's *)
Theorem multi_then_name c pos a v1 vs tok n :
  multi_vals c pos a v1 vs -> is_set s_sub_precedence c = true -> nsel c tok n ->
  is_set s_args_negate_subs c = false ->
  forall rest vaf st,
  parse_loop c ((v1 :: vs) ++ tok :: rest) (lsV pos vaf) st =
  (do st' <- push_all c a (v1 :: vs) st; ROk (LSub n false true st' rest)).
Proof.
  intros Hmv Hon Hs Hneg rest vaf st. rewrite (loop_multi c pos a v1 vs Hmv (tok :: rest) vaf st).
  destruct (push_all c a (v1 :: vs) st) as [st'|e s1|x]; cbn [rbind]; try reflexivity.
  apply (nsel_loop c tok n Hs Hneg (PSPos (a_id a))). rewrite Hon. reflexivity.
Qed.

(** * Examples for parts 1–4 (non-vacuity): positionals, a multi-valued positional with and without
    [subcommand_precedence_over_arg], inference through a name prefix and through an alias prefix, `--` *)
Definition w_src : bytes := [115; 114; 99].
Definition w_files : bytes := [102; 105; 108; 101; 115].
Definition w_status : bytes := [115; 116; 97; 116; 117; 115].
Definition w_remove : bytes := [114; 101; 109; 111; 118; 101].
Definition w_delete : bytes := [100; 101; 108; 101; 116; 101].
(** p(-g <v> global, default d; -v; <src>; <files>...; infer_subcommands; precedence = [prec])
      -> sync(-y) | status | remove (alias delete) *)
Definition ex_wide (prec : bool) : cmd :=
  (cmd_new (b1 112))
    <| c_args := [ ex_opt 103 103 true [b1 100]; ex_flag 118 118;
                   (arg_new w_src) <| a_action := Some ASet |>;
                   (arg_new w_files) <| a_action := Some AAppend |> <| a_num := Some {| vmin := 1; vmax := usize_max |} |> ] |>
    <| c_set := settings_none <| s_infer_sub := true |> <| s_sub_precedence := prec |> |>
    <| c_gset := settings_none <| s_infer_sub := true |> |>
    <| c_subs := [ (cmd_new w_sync) <| c_args := [ex_flag 121 121] |>;
                   (cmd_new w_status);
                   (cmd_new w_remove) <| c_aliases := [(w_delete, true)] |> ] |>.

Ltac solve_plain := split; [vmr|split; vmr].
Ltac solve_takes := split; [split; vmr|split; [vmr|split; [vmr|split; vmr]]].
Ltac flag_cluster ch :=
  eapply it_cluster; [solve_nosub|];
  exists ch, []; split; [reflexivity|]; split; [discriminate|]; split; [reflexivity|];
  eapply cf_cons; [reflexivity|vmr|vmr|apply cf_nil].

(** `-v a sy -y`: a flag, the single-valued positional, then `sy` — the unique prefix of `sync` *)
Example ex_wide_pos_infer :
  exists names, wline (build_self (ex_wide false)) false [[45; 118]; b1 97; [115; 121]; [45; 121]] names None /\ names = [w_sync].
Proof.
  eexists. split.
  { eapply (wl_sub _ false [[45; 118]; b1 97] _ PSValuesDone 2 [115; 121] w_sync false _ _ [[45; 121]] [] None).
  - split; vmr.
  - apply wp_plain, wb_plain. eapply (pi_opt _ 1 [[45; 118]] _ [b1 97]); [flag_cluster 118|].
    eapply (pi_pos _ 1 (b1 97) _ []); [solve_nosub|solve_plain|solve_takes|vmr|apply pi_nil].
  - apply ws_name. apply ns_unique; vmr.
  - vmr.
  - vmr.
  - cbv iota. eapply wl_end. apply wp_plain, wb_plain.
    eapply (pi_opt _ 1 [[45; 121]] _ []); [flag_cluster 121|apply pi_nil]. }
  vmr.
Qed.

(** `a b sync c`, precedence off: `sync` is swallowed by <files>... — no subcommand *)
Example ex_wide_swallow :
  wline (build_self (ex_wide false)) false [b1 97; b1 98; w_sync; b1 99] [] None.
Proof.
  eapply (wl_end _ false _ _ _ 2). apply wp_plain.
  eapply (wb_multi _ [b1 97] _ 2 _ (b1 98) [w_sync; b1 99]).
  - eapply (pi_pos _ 1 (b1 97) _ []); [solve_nosub|solve_plain|solve_takes|vmr|apply pi_nil].
  - refine (conj _ (conj _ (conj _ _))); cycle 3.
    + repeat (apply Forall_cons; [split; [solve_plain|solve_takes]|]). apply Forall_nil.
    + vmr.
    + solve_nosub.
    + intros H; vm_compute in H; discriminate.
Qed.

(** `a b sync -y`, precedence on: `sync` dispatches *)
Example ex_wide_precedence :
  exists names, wline (build_self (ex_wide true)) false [b1 97; b1 98; w_sync; [45; 121]] names None /\ names = [w_sync].
Proof.
  eexists. split.
  { eapply (wl_sub _ false [b1 97; b1 98] _ _ 2 w_sync w_sync false _ _ [[45; 121]] [] None).
  - split; vmr.
  - apply wp_plain. eapply (wb_multi _ [b1 97] _ 2 _ (b1 98) []).
    + eapply (pi_pos _ 1 (b1 97) _ []); [solve_nosub|solve_plain|solve_takes|vmr|apply pi_nil].
    + refine (conj _ (conj _ (conj _ _))); cycle 3.
      * repeat (apply Forall_cons; [split; [solve_plain|solve_takes]|]). apply Forall_nil.
      * vmr.
      * solve_nosub.
      * intros _; apply Forall_nil.
  - apply ws_prec; [vmr|]. apply ns_unique; vmr.
  - vmr.
  - vmr.
  - cbv iota. eapply wl_end. apply wp_plain, wb_plain.
    eapply (pi_opt _ 1 [[45; 121]] _ []); [flag_cluster 121|apply pi_nil]. }
  vmr.
Qed.

(** `a -- sync`: nothing is dispatched after `--` *)
Example ex_wide_escape :
  wline (build_self (ex_wide false)) false [b1 97; esc; w_sync] [] None.
Proof.
  eapply (wl_escape _ false [b1 97] _ 2 [w_sync]); [|solve_nosub|vmr].
  apply wp_plain, wb_plain. eapply (pi_pos _ 1 (b1 97) _ []); [solve_nosub|solve_plain|solve_takes|vmr|apply pi_nil].
Qed.

(** `del`: the unique prefix of the ALIAS `delete`; the chain holds the canonical name `remove` *)
Example ex_wide_alias_prefix :
  exists names, wline (build_self (ex_wide false)) false [[100; 101; 108]] names None /\ names = [w_remove].
Proof.
  eexists. split.
  { eapply (wl_sub _ false [] _ PSValuesDone 1 [100; 101; 108] w_delete false _ _ [] [] None).
  - split; vmr.
  - apply wp_plain, wb_plain, pi_nil.
  - apply ws_name. apply ns_unique; vmr.
  - vmr.
  - vmr.
  - cbv iota. eapply wl_end. apply wp_plain, wb_plain, pi_nil. }
  vmr.
Qed.

(** `a b -- sync`: `--` behind the values of <files>... *)
Example ex_wide_escape_multi :
  wline (build_self (ex_wide true)) false [b1 97; b1 98; esc; w_sync] [] None.
Proof.
  eapply (wl_escape_multi _ false [b1 97; b1 98] _ _ 2 _ [w_sync]).
  - apply wp_plain. eapply (wb_multi _ [b1 97] _ 2 _ (b1 98) []).
    + eapply (pi_pos _ 1 (b1 97) _ []); [solve_nosub|solve_plain|solve_takes|vmr|apply pi_nil].
    + refine (conj _ (conj _ (conj _ _))); cycle 3.
      * repeat (apply Forall_cons; [split; [solve_plain|solve_takes]|]). apply Forall_nil.
      * vmr.
      * solve_nosub.
      * intros _; apply Forall_nil.
  - vmr.
  - vmr.
  - solve_nosub.
  - vmr.
Qed.

(** the setting is read from the level the positional belongs to: [ex_wide false] with the setting on the
    CHILD `sync` only still swallows `sync`; [ex_wide true] (setting on the root only) dispatches *)
Definition ex_wide_child_prec : cmd :=
  (ex_wide false) <| c_subs := [ (cmd_new w_sync) <| c_args := [ex_flag 121 121] |>
                                   <| c_set := settings_none <| s_sub_precedence := true |> |>;
                                 (cmd_new w_status);
                                 (cmd_new w_remove) <| c_aliases := [(w_delete, true)] |> ] |>.

Definition sh_chain (o : outcome) : option (list bytes) := match o with OOk m => Some (chain m) | _ => None end.
Example ex_wide_parses :
  sh_chain (do_parse (ex_wide false) [[45; 118]; b1 97; [115; 121]; [45; 121]]) = Some [w_sync] /\
  sh_chain (do_parse (ex_wide false) [b1 97; b1 98; w_sync; b1 99]) = Some [] /\
  sh_chain (do_parse (ex_wide true) [b1 97; b1 98; w_sync; [45; 121]]) = Some [w_sync] /\
  sh_chain (do_parse (ex_wide false) [b1 97; esc; w_sync]) = Some [] /\
  sh_chain (do_parse (ex_wide false) [[100; 101; 108]]) = Some [w_remove] /\
  sh_chain (do_parse (ex_wide true) [b1 97; b1 98; esc; w_sync]) = Some [] /\
  sh_chain (do_parse ex_wide_child_prec [b1 97; b1 98; w_sync; b1 99]) = Some [].
Proof. vm_compute. repeat split; reflexivity. Qed.

(** long flag-subcommands under [infer_subcommands] are already in the class ([sel_long] takes what
    [possible_long_flag_subcommand] returns — the canonical name, inference included): `--sy` for `--syncf` *)
Definition ex_lf : cmd :=
  (cmd_new (b1 112)) <| c_set := settings_none <| s_infer_sub := true |> |>
    <| c_gset := settings_none <| s_infer_sub := true |> |>
    <| c_subs := [ (cmd_new w_sync) <| c_long_flag := Some [115; 121; 110; 99; 102] |>;
                   (cmd_new w_status) <| c_long_flag := Some [115; 116; 97; 116; 102] |> ] |>.
Example ex_long_flag_prefix :
  exists names, wline (build_self ex_lf) false [dd [115; 121]] names None /\ names = [w_sync] /\
    sh_chain (do_parse ex_lf [dd [115; 121]]) = Some [w_sync].
Proof.
  eexists. split.
  { eapply (wl_sub _ false [] _ PSValuesDone 1 (dd [115; 121]) _ false _ _ [] [] None).
    - split; vmr.
    - apply wp_plain, wb_plain, pi_nil.
    - apply ws_sel. eapply sel_long; [solve_nosub|vmr|vmr|vmr|vmr].
    - vmr.
    - vmr.
    - cbv iota. eapply wl_end. apply wp_plain, wb_plain, pi_nil. }
  split; vmr.
Qed.

(** `s` is a prefix of `sync` and of `status`: rejected (command without positionals) *)
Definition ex_amb : cmd :=
  (cmd_new (b1 112)) <| c_set := settings_none <| s_infer_sub := true |> |>
    <| c_gset := settings_none <| s_infer_sub := true |> |>
    <| c_subs := [cmd_new w_sync; cmd_new w_status] |>.
Example ex_ambiguous_rejected :
  let c := build_self ex_amb in
  is_set s_infer_sub c = true /\ (2 <= length (infer_list c (b1 115)))%nat /\ find_subcommand c (b1 115) = None /\
  plain_tok (b1 115) /\ pos_free c /\ is_set s_allow_external c = false /\ is_set s_args_negate_subs c = false /\
  out_err (do_parse ex_amb [b1 115]) = Some EInvalidSubcommand.
Proof. cbv zeta. split; [vmr|]. split; [vm_compute; lia|]. split; [vmr|]. split; [solve_plain|]. repeat split; vmr. Qed.

(** ** the head of the chain, for an ARBITRARY rest of the line
    Whatever follows the selecting token — in or outside any class, accepted by the child or, under
    [ignore_errors], not — a level that succeeds records the canonical name of the subcommand the
    selection resolves to. *)
Lemma build_subcommand_some c sc0 : In sc0 (c_subs c) -> exists sc, build_subcommand c (c_name sc0) = Some sc.
Proof.
  intros Hin. unfold build_subcommand.
  destruct (find_exists (fun s => beq (c_name s) (c_name sc0)) (c_subs c) sc0 Hin (beq_refl _)) as [y Hy].
  rewrite Hy. eexists. reflexivity.
Qed.

Theorem wlevel_head c b pre F pst pos tok n keep rest f st0 st :
  is_set s_args_negate_subs c = false -> wprefix c b pre F pst pos -> wsel c b pst pos tok n keep ->
  start_ok b st0 -> get_matches_with (S f) c (pre ++ tok :: rest) st0 = ROk st ->
  exists sc0 m, find_subcommand c n = Some sc0 /\ mt_sub (mt st) = Some (c_name sc0, m).
Proof.
  intros Hneg Hp Hsel [Hsub0 [Hsk0 Hat0]] H.
  destruct (gmw_step f c _ st0 st H) as [lr [Hlr Hm]]. change (mkL PSValuesDone 1 false false) with (lsV 1 false) in Hlr.
  rewrite (loop_wprefix c b pre F pst pos Hp (tok :: rest) st0 Hsk0) in Hlr.
  destruct (F st0) as [st'|e s1|x] eqn:EF; cbn [rbind] in Hlr; try discriminate.
  destruct (wprefix_fs c b pre F pst pos Hp st0 st' Hsk0 EF) as [Hsk' Hat'].
  destruct (wsel_loop c b pst pos tok n keep Hsel Hneg rest (negb (is_nil pre)) st' Hsk'
              (fun Hb => eq_trans Hat' (Hat0 Hb))) as [T [HT _]].
  rewrite HT in Hlr. destruct (T st') as [st1|e s1|x] eqn:ET; cbn [rbind] in Hlr; try discriminate.
  inversion Hlr; subst lr. clear Hlr.
  destruct Hm as [sc0 [Hf Hm]]. exists sc0.
  pose proof (find_some_in _ _ _ Hf) as [Hin _].
  destruct (build_subcommand_some c sc0 Hin) as [sc Hb]. rewrite Hb in Hm.
  destruct Hm as [sub_st [_ Hsub]]. exists (into_inner (mt sub_st)). split; [exact Hf|].
  rewrite Hsub, (build_subcommand_name c _ sc Hb). reflexivity.
Qed.

(** the inferred case spelled out: [tok] is a prefix of a name or alias of exactly one subcommand [sc0]
    (possibly only of an ALIAS): the level records [c_name sc0], whatever the rest of the line *)
Theorem infer_head_canonical c b pre F pos tok n rest f st0 st :
  is_set s_args_negate_subs c = false -> wprefix c b pre F PSValuesDone pos ->
  utf8_valid tok = true -> is_set s_infer_sub c = true -> infer_list c tok = [n] -> not_help c n ->
  start_ok b st0 -> get_matches_with (S f) c (pre ++ tok :: rest) st0 = ROk st ->
  exists sc0 m, mt_sub (mt st) = Some (c_name sc0, m) /\ In sc0 (c_subs c) /\ sub_matches tok sc0 = true /\
    (forall s, In s (c_subs c) -> sub_matches tok s = true -> s = sc0).
Proof.
  intros Hneg Hp Hu Hi Hl Hh Hst H.
  assert (Hsel : wsel c b PSValuesDone pos tok n false) by (apply ws_name, ns_unique; assumption).
  destruct (wlevel_head c b pre F PSValuesDone pos tok n false rest f st0 st Hneg Hp Hsel Hst H) as [sc0 [m [Hf Hsub]]].
  destruct (infer_unique_target c tok n Hl) as [sc1 [Hf1 [Hin [Hm [_ [_ Huniq]]]]]].
  rewrite Hf1 in Hf. inversion Hf; subst sc1. exists sc0, m. auto.
Qed.

(** * Part 5: the chain composed with the globals merge; [canonical] comes from the validity gate *)
Import ReentrancyProofs.

Lemma nodup_ids_app_r a : forall b, nodup_ids (a ++ b) = true -> nodup_ids b = true.
Proof.
  induction a as [|x t IH]; intros b H; [exact H|]. cbn [app nodup_ids] in H.
  apply andb_true_iff in H. destruct H as [_ H]. exact (IH b H).
Qed.

Lemma mem_id_in y l : In y l -> mem_id y l = true.
Proof. intros H. unfold mem_id. apply existsb_exists. exists y. split; [exact H|apply beq_refl]. Qed.

Lemma nodup_ids_disjoint a : forall b y, nodup_ids (a ++ b) = true -> In y a -> In y b -> False.
Proof.
  induction a as [|x t IH]; intros b y H Ha Hb; [destruct Ha|]. cbn [app nodup_ids] in H.
  apply andb_true_iff in H. destruct H as [Hx H]. destruct Ha as [->|Ha]; [|exact (IH b y H Ha Hb)].
  rewrite (mem_id_in y (t ++ b)) in Hx; [discriminate|]. apply in_or_app. right. exact Hb.
Qed.

Lemma aliases_to_in s n : aliases_to s n = true -> In n (c_name s :: all_aliases s).
Proof.
  unfold aliases_to. intros H. apply orb_true_iff in H. destruct H as [H|H].
  - apply beq_eq in H. left. exact H.
  - apply existsb_exists in H. destruct H as [y [Hin Hy]]. apply beq_eq in Hy. subst y. right. exact Hin.
Qed.

Lemma canonical_of_nodup_list n sc0 : forall l,
  nodup_ids (flat_map (fun s => c_name s :: all_aliases s) l) = true ->
  List.find (fun s => aliases_to s n) l = Some sc0 ->
  List.find (fun s => aliases_to s (c_name sc0)) l = Some sc0 /\
  List.find (fun s => beq (c_name s) (c_name sc0)) l = Some sc0.
Proof.
  induction l as [|x t IH]; intros Hnd Hf; [discriminate|].
  cbn [List.find] in Hf |- *. destruct (aliases_to x n) eqn:Ea.
  - inversion Hf; subst x. rewrite aliases_to_name, beq_refl. split; reflexivity.
  - cbn [flat_map] in Hnd.
    destruct (IH (nodup_ids_app_r _ _ Hnd) Hf) as [H1 H2].
    assert (Hin : In (c_name sc0) (flat_map (fun s => c_name s :: all_aliases s) t)).
    { apply find_some in Hf. destruct Hf as [Hin _]. apply in_flat_map. exists sc0. split; [exact Hin|left; reflexivity]. }
    destruct (aliases_to x (c_name sc0)) eqn:E1.
    { exfalso. exact (nodup_ids_disjoint _ _ _ Hnd (aliases_to_in _ _ E1) Hin). }
    destruct (beq (c_name x) (c_name sc0)) eqn:E2.
    { exfalso. apply beq_eq in E2. apply (nodup_ids_disjoint _ _ (c_name sc0) Hnd); [left; exact E2|exact Hin]. }
    split; assumption.
Qed.

Lemma assert_app_nodup c : assert_app c = true -> nodup_ids (all_subcommand_names c) = true.
Proof.
  unfold assert_app. intros H.
  apply andb_true_iff in H. destruct H as [H _]. apply andb_true_iff in H. destruct H as [H _].
  apply andb_true_iff in H. destruct H as [_ H]. exact H.
Qed.

(** what [debug_asserts] guarantees (unique subcommand names and aliases) is what [Chain.v] assumed *)
Theorem canonical_of_assert c n sc0 : assert_app c = true -> find_subcommand c n = Some sc0 -> canonical c sc0.
Proof.
  intros Ha Hf. apply assert_app_nodup in Ha.
  exact (canonical_of_nodup_list n sc0 (c_subs c) Ha Hf).
Qed.

Lemma valid_assert_root c0 : valid c0 = true -> assert_app (build_self c0) = true.
Proof.
  unfold valid. cbv zeta. cbn [valid_tree]. intros H. apply andb_true_iff in H. destruct H as [H _]. exact H.
Qed.

Lemma do_parse_valid c0 toks m' : do_parse c0 toks = OOk m' -> valid c0 = true.
Proof. unfold do_parse. destruct (valid c0); [reflexivity|discriminate]. Qed.

Lemma post_err_never_ok c e x st : post c (RErr e x) = ROk st -> False.
Proof. intros H. exact (post_err_not_ok c e x st H). Qed.

(** a successful level that selected a subcommand ran the validity gate on the lazily built child *)
Lemma gmw_child_assert f c toks st0 st name keep vaf st1 rest sc0 sc :
  get_matches_with (S f) c toks st0 = ROk st ->
  parse_loop c toks (mkL PSValuesDone 1 false false) st0 = ROk (LSub name keep vaf st1 rest) ->
  find_subcommand c name = Some sc0 -> build_subcommand c (c_name sc0) = Some sc ->
  assert_app sc = true.
Proof.
  intros H Hl Hf Hb. rewrite gmw_unfold in H. unfold parsed_of in H. rewrite Hl in H. cbn [rbind] in H.
  unfold after_sub in H. destruct (is_set s_args_negate_subs c && vaf); [exfalso; exact (post_err_never_ok _ _ _ _ H)|].
  rewrite Hf in H. cbn [expect rbind] in H. rewrite Hb in H.
  destruct (assert_app sc); [reflexivity|]. cbn [negb post] in H. discriminate.
Qed.

Lemma wline_ext_names c b toks names vals : wline c b toks names (Some vals) -> names <> [].
Proof. intros H. inversion H; discriminate. Qed.

Lemma wreal_names_cons c b toks n names ext : wline c b toks names ext ->
  real_names (n :: names) ext = n :: real_names names ext.
Proof.
  intros H. destruct ext as [vals|]; [|reflexivity]. unfold real_names.
  apply wline_ext_names in H. destruct names; [contradiction|reflexivity].
Qed.

Lemma wl_sub_step c b pre F pst pos tok n keep sc0 sc rest f st0 st :
  lvl_ok c -> wprefix c b pre F pst pos -> wsel c b pst pos tok n keep -> find_subcommand c n = Some sc0 ->
  build_subcommand c (c_name sc0) = Some sc ->
  start_ok b st0 -> get_matches_with (S f) c (pre ++ tok :: rest) st0 = ROk st ->
  exists st1 sub_st,
    get_matches_with f sc (if keep then tok :: rest else rest) (sub_init keep st1) = ROk sub_st /\
    start_ok keep (sub_init keep st1) /\
    mt_sub (mt st) = Some (c_name sc, into_inner (mt sub_st)) /\
    assert_app sc = true.
Proof.
  intros [Hneg Hign] Hp Hsel Hfind Hbuild [Hsub0 [Hsk0 Hat0]] H.
  destruct (gmw_step f c _ st0 st H) as [lr [Hlr Hm]]. pose proof Hlr as Hlr0.
  change (mkL PSValuesDone 1 false false) with (lsV 1 false) in Hlr.
  rewrite (loop_wprefix c b pre F pst pos Hp (tok :: rest) st0 Hsk0) in Hlr.
  destruct (F st0) as [st'|e s1|x] eqn:EF; cbn [rbind] in Hlr; try discriminate.
  destruct (wprefix_fs c b pre F pst pos Hp st0 st' Hsk0 EF) as [Hsk' Hat'].
  destruct (wsel_loop c b pst pos tok n keep Hsel Hneg rest (negb (is_nil pre)) st' Hsk'
              (fun Hb => eq_trans Hat' (Hat0 Hb))) as [T [HT Hkeep]].
  rewrite HT in Hlr. destruct (T st') as [st1|e s1|x] eqn:ET; cbn [rbind] in Hlr; try discriminate.
  inversion Hlr; subst lr. clear Hlr.
  pose proof (gmw_child_assert f c _ st0 st _ _ _ _ _ sc0 sc H Hlr0 Hfind Hbuild) as Hassert.
  destruct Hm as [sc0' [Hf' Hm]]. rewrite Hfind in Hf'. inversion Hf'; subst sc0'. clear Hf'.
  rewrite Hbuild in Hm. destruct Hm as [sub_st [Hchild Hsub]].
  destruct Hchild as [Hchild|[e [_ Hi]]]; [|rewrite Hign in Hi; discriminate].
  exists st1, sub_st. split; [exact Hchild|]. split; [|split; [exact Hsub|exact Hassert]].
  destruct keep; cbn [sub_init].
  - split; [reflexivity|]. split; [exact (Hkeep st1 eq_refl eq_refl)|discriminate].
  - split; [reflexivity|]. split; [reflexivity|]. intros _. reflexivity.
Qed.

Theorem wline_globals_used : forall c b toks names ext, wline c b toks names ext ->
  forall f st0 st x v w k, start_ok b st0 -> get_matches_with f c toks st0 = ROk st ->
  c = U v w (build_self x) -> assert_app c = true -> (matches_depth (into_inner (mt st)) <= k)%nat ->
  forall lc a, In lc (lazy_cmds c (real_names names ext)) -> In a (c_args lc) -> a_global a = true ->
  mem_id (a_id a) (used_global_args k (build_recursive f x) (into_inner (mt st))) = true.
Proof.
  induction 1 as [c b pre F pst pos Hp|c b pre F pos tail Hp Hesc Hnoext
                 |c b pre F i pos a0 tail Hp Hfa Hhy Hesc Hnoext
                 |c b pre F pst pos tok n keep sc0 sc rest names ext Hlvl Hp Hsel Hfind Hbuild Hline IH
                 |c b pre F pos tok rest Hp Hext];
    intros f st0 st x v w k Hstart H Hc Hva Hk lc a Hlc Ha Hg;
    (destruct f as [|f]; [discriminate|]);
    (destruct k as [|k]; [exfalso; unfold into_inner in Hk; destruct (mt_sub (mt st)) as [[? ?]|]; cbn [matches_depth] in Hk; lia|]).
  - cbn [real_names lazy_cmds] in Hlc. destruct Hlc as [<-|[]]. exact (root_used x v w f k _ c a Hc Ha Hg).
  - cbn [real_names lazy_cmds] in Hlc. destruct Hlc as [<-|[]]. exact (root_used x v w f k _ c a Hc Ha Hg).
  - cbn [real_names lazy_cmds] in Hlc. destruct Hlc as [<-|[]]. exact (root_used x v w f k _ c a Hc Ha Hg).
  - rewrite (wreal_names_cons _ _ _ _ _ _ Hline) in Hlc. cbn [lazy_cmds] in Hlc. rewrite Hbuild in Hlc.
    destruct Hlc as [<-|Hlc]; [exact (root_used x v w f k _ c a Hc Ha Hg)|].
    destruct (canonical_of_assert c n sc0 Hva Hfind) as [Hcan Hfirst].
    destruct (wl_sub_step c b pre F pst pos tok n keep sc0 sc rest f st0 st Hlvl Hp Hsel Hfind Hbuild Hstart H)
      as [st1 [sub_st [Hchild [Hstart' [Hsub Hva']]]]].
    destruct (build_subcommand_U c sc0 sc Hfirst Hbuild) as [v' [w' Hsc]].
    assert (Hk' : (matches_depth (into_inner (mt sub_st)) <= k)%nat).
    { unfold into_inner in Hk at 1. rewrite Hsub in Hk. cbn [matches_depth] in Hk. lia. }
    pose proof (IH f _ sub_st sc0 v' w' k Hstart' Hchild Hsc Hva' Hk' lc a Hlc Ha Hg) as Hmem.
    cbn [used_global_args]. unfold mem_id. rewrite existsb_app. apply orb_true_iff. right.
    unfold into_inner at 1. cbn [ms_sub]. rewrite Hsub.
    rewrite find_subcommand_rec.
    assert (Hfs : find_subcommand (build_self x) (c_name sc) = Some sc0).
    { rewrite (build_subcommand_name c _ sc Hbuild). rewrite <- Hcan. subst c. reflexivity. }
    rewrite Hfs. cbn [option_map]. exact Hmem.
  - cbn [real_names removelast lazy_cmds] in Hlc. destruct Hlc as [<-|[]]. exact (root_used x v w f k _ c a Hc Ha Hg).
Qed.

(** the chain of a [wline] composed with the globals merge; no premise on the children: that
    [find_subcommand], [_build_subcommand] and [get_used_global_args] agree on them follows from the
    validity gate, which [_do_parse] ran on the root and the parser on every level it descended into *)
Theorem do_parse_wline c0 toks names ext m' :
  wline (build_self c0) false toks names ext -> is_set s_ignore_errors (build_self c0) = false ->
  do_parse c0 toks = OOk m' ->
  exists m globals,
    m' = fst (filled (S (matches_depth m)) globals m) /\
    globals = used_global_args (S (matches_depth m)) (build_recursive (S (S (depth (build_self c0)))) c0) m /\
    chain m = names /\ chain m' = names /\ length (levels m') = S (length names) /\
    match ext with Some vals => deepest m = [(ext_id, ext_marg vals)] | None => True end /\
    (forall lc a, In lc (lazy_cmds (build_self c0) (real_names names ext)) -> In a (c_args lc) -> a_global a = true ->
       mem_id (a_id a) globals = true) /\
    (forall g e0, mem_id g globals = true -> In (Some e0) (map (fm_get g) (levels m)) ->
       exists e,
         (forall lv, In lv (levels m') -> fm_get g lv = Some e) /\
         In (Some e) (map (fm_get g) (levels m)) /\
         mrank e0 <= mrank e /\
         (m_source e0 = Some SCmdLine -> m_source e = Some SCmdLine)).
Proof.
  intros Hline Hign H. destruct (do_parse_ok c0 toks m' H Hign) as [st [Eg Hm']].
  pose proof (valid_assert_root c0 (do_parse_valid c0 toks m' H)) as Hva.
  destruct (chain_of_wline _ _ _ _ _ Hline _ _ _ start_ok_new Eg) as [Hc Hd].
  set (m := into_inner (mt st)) in *.
  set (globals := used_global_args (S (matches_depth m)) (build_recursive (S (S (depth (build_self c0)))) c0) m) in *.
  assert (Hfuel : (matches_depth m <= S (matches_depth m))%nat) by lia.
  destruct (merge_chain (S (matches_depth m)) globals m Hfuel) as [Hmc Hml].
  exists m, globals. split; [exact Hm'|]. split; [reflexivity|]. split; [exact Hc|].
  rewrite Hm'. split; [rewrite Hmc; exact Hc|]. split; [rewrite Hml, levels_length, Hc; reflexivity|].
  split; [exact Hd|]. split.
  - intros lc a Hlc Hin Hg.
    eapply (wline_globals_used _ _ _ _ _ Hline _ _ _ c0 _ _ _ start_ok_new Eg);
      [symmetry; apply U_eta|exact Hva|exact Hfuel|exact Hlc|exact Hin|exact Hg].
  - intros g e0 Hg Hin. exact (explicit_beats_default (S (matches_depth m)) globals m g e0 Hfuel Hg Hin).
Qed.

(** * Part 6: a user-defined subcommand named `help` (the generated one disabled) *)

(** with [disable_help_subcommand] no child counts as the generated help: the guard of
    [_propagate_global_args] ([autogenerated_help]) copies the globals into a child named `help` too,
    and the parser's `help` special case ([LHelpSub]) is off *)
Lemma auto_help_disabled c sc : is_set s_disable_help_sub c = true -> auto_help c sc = false.
Proof. intros H. unfold auto_help. rewrite H. apply andb_false_r. Qed.

Lemma not_help_disabled c n : is_set s_disable_help_sub c = true -> not_help c n.
Proof. intros H. unfold not_help. rewrite H. apply andb_false_r. Qed.

(** the word `help` selects the user's subcommand like any other name *)
Theorem user_help_selected c sc0 :
  is_set s_disable_help_sub c = true -> is_set s_infer_sub c = false ->
  find_subcommand c s_help = Some sc0 -> nsel c s_help (c_name sc0).
Proof. intros Hd Hi Hf. apply ns_exact; [reflexivity|exact Hi|exact Hf|exact (not_help_disabled c _ Hd)]. Qed.

(** every global argument of a freshly built command is findable in its child named `help` *)
Theorem user_help_globals c0 g sc' :
  s_built (c_set c0) = false -> is_set s_disable_help_sub (build_self c0) = true ->
  has_global (build_self c0) g -> In sc' (c_subs (build_self c0)) -> c_name sc' = s_help ->
  exists a', find_arg sc' g = Some a'.
Proof.
  intros Hb Hd Hg Hin _. exact (build_self_copies c0 g sc' Hb Hg Hin (auto_help_disabled _ sc' Hd)).
Qed.

(** … and, hereditarily, a global of it once the parser has built the child ([defs_copied_deep] applies:
    its side condition [auto_help = false] holds for every child) *)
Theorem user_help_path g c sc0 sc' :
  is_set s_disable_help_sub c = true ->
  List.find (fun s => beq (c_name s) s_help) (c_subs c) = Some sc0 ->
  (forall a', find_arg sc0 g = Some a' -> a_global a' = true) -> s_built (c_set sc0) = false ->
  build_subcommand c s_help = Some sc' -> gpath g c [s_help] sc'.
Proof.
  intros Hd Hf Hns Hb Hbs. eapply gp_cons; [exact Hf|exact (auto_help_disabled c sc0 Hd)|exact Hns|exact Hb|exact Hbs|apply gp_nil].
Qed.

(** p(-g <v> global, default d; disable_help_subcommand) -> help(-t) ; `-g x help -t -g y` *)
Definition ex_uhelp : cmd :=
  (cmd_new (b1 112))
    <| c_args := [ex_opt 103 103 true [b1 100]] |>
    <| c_set := settings_none <| s_disable_help_sub := true |> |>
    <| c_gset := settings_none <| s_disable_help_sub := true |> |>
    <| c_subs := [ (cmd_new s_help) <| c_args := [ex_flag 116 116] |> ] |>.
Definition ex_uhelp_line : list bytes := [[45; 103]; b1 120; s_help; [45; 116]; [45; 103]; b1 121].

Example ex_uhelp_is_wline :
  exists names, wline (build_self ex_uhelp) false ex_uhelp_line names None /\ names = [s_help].
Proof.
  eexists. split.
  { eapply (wl_sub _ false [[45; 103]; b1 120] _ PSValuesDone 1 s_help _ false _ _ [[45; 116]; [45; 103]; b1 121] [] None).
    - split; vmr.
    - apply wp_plain, wb_plain. eapply (pi_opt _ 1 [[45; 103]; b1 120] _ []); [|apply pi_nil].
      eapply (it_short_sep _ [45; 103] [103] 103);
        [solve_nosub|vmr|vmr|vmr|vmr|vmr|vmr|vmr|apply pos_free_no_hyphen; vmr|vmr|vmr|vmr|solve_nosub|vmr|vmr|vmr|vmr].
    - apply ws_name. apply (user_help_selected (build_self ex_uhelp)); vmr.
    - vmr.
    - vmr.
    - cbv iota. eapply wl_end. apply wp_plain, wb_plain.
      eapply (pi_opt _ 1 [[45; 116]] _ [[45; 103]; b1 121]); [flag_cluster 116|].
      eapply (pi_opt _ 1 [[45; 103]; b1 121] _ []); [|apply pi_nil].
      eapply (it_short_sep _ [45; 103] [103] 103);
        [solve_nosub|vmr|vmr|vmr|vmr|vmr|vmr|vmr|apply pos_free_no_hyphen; vmr|vmr|vmr|vmr|solve_nosub|vmr|vmr|vmr|vmr]. }
  vmr.
Qed.

Example ex_uhelp_parses :
  exists m', do_parse ex_uhelp ex_uhelp_line = OOk m' /\ is_set s_ignore_errors (build_self ex_uhelp) = false /\
    chain m' = [s_help] /\
    map (fun lv => opt_map (fun e => (m_source e, m_raw e)) (fm_get (b1 103) lv)) (levels m') =
      [Some (Some SCmdLine, [[b1 121]]); Some (Some SCmdLine, [[b1 121]])] /\
    (exists sc' a', find_subcommand (build_self ex_uhelp) s_help = Some sc' /\ find_arg sc' (b1 103) = Some a' /\ a_global a' = true).
Proof.
  eexists. split; [vmr|]. split; [vmr|]. split; [vmr|]. split; [vmr|].
  eexists. eexists. split; [vmr|]. split; vmr.
Qed.

(** * Part 7: level isolation on the entries at every depth, and which occurrence of a global wins *)

(** selecting tokens that hand the child a fresh state and leave the parent's state alone: a name
    (with or without inference), `--sub`; behind multi-values a name with precedence *)
Inductive psel (c : cmd) : pstate_t -> bytes -> bytes -> Prop :=
| ps_sel tok n : sel c tok n -> psel c PSValuesDone tok n
| ps_name tok n : nsel c tok n -> psel c PSValuesDone tok n
| ps_prec i tok n : is_set s_sub_precedence c = true -> nsel c tok n -> psel c (PSPos i) tok n.

Lemma psel_wsel c b pst pos tok n : psel c pst tok n -> wsel c b pst pos tok n false.
Proof. intros [tok0 n0 H|tok0 n0 H|i tok0 n0 Hp H]; [apply ws_sel|apply ws_name|apply ws_prec]; assumption. Qed.

Lemma psel_loop c pst tok n : psel c pst tok n -> is_set s_args_negate_subs c = false ->
  forall rest pos vaf st, parse_loop c (tok :: rest) (mkL pst pos vaf false) st = ROk (LSub n false vaf st rest).
Proof.
  intros [tok0 n0 H|tok0 n0 H|i tok0 n0 Hp H] Hneg rest pos vaf st.
  - exact (sel_loop c tok0 n0 H Hneg rest pos vaf st).
  - apply (nsel_loop c tok0 n0 H Hneg PSValuesDone). apply orb_true_r.
  - apply (nsel_loop c tok0 n0 H Hneg (PSPos i)). rewrite Hp. reflexivity.
Qed.

Lemma wprefix_alone c pre F pst pos : wprefix c false pre F pst pos -> forall st, fs_skip st = 0 ->
  parse_loop c pre (lsV 1 false) st = (do st' <- F st; ROk (LDone st')).
Proof.
  intros Hp st Hsk. pose proof (loop_wprefix c false pre F pst pos Hp [] st Hsk) as H.
  rewrite app_nil_r in H. rewrite H. destruct (F st); reflexivity.
Qed.

(** one level, as an equation: the level is a function of its own definition, its own tokens (through
    [F]) and the child's run from a fresh state *)
Theorem wlevel_step c pre F pst pos tok n f : wprefix c false pre F pst pos -> psel c pst tok n ->
  is_set s_args_negate_subs c = false ->
  forall rest st0, fs_skip st0 = 0 ->
  get_matches_with (S f) c (pre ++ tok :: rest) st0 =
  post c (do st' <- F st0; after_sub f c n false (negb (is_nil pre)) st' rest).
Proof.
  intros Hp Hs Hn rest st0 Hfs. rewrite gmw_unfold. unfold parsed_of.
  change (mkL PSValuesDone 1 false false) with (lsV 1 false).
  rewrite (loop_wprefix c false pre F pst pos Hp (tok :: rest) st0 Hfs).
  destruct (F st0) as [st'|e s1|x]; cbn [rbind]; try reflexivity.
  rewrite (psel_loop c pst tok n Hs Hn). reflexivity.
Qed.

(** the entries of a level that selected a subcommand are those its own tokens alone produce *)
Theorem wlevel_entries c pre F pst pos tok n f rest st :
  wprefix c false pre F pst pos -> psel c pst tok n -> lvl_ok c ->
  get_matches_with (S f) c (pre ++ tok :: rest) ps_new = ROk st ->
  exists st' stf,
    parse_loop c pre (lsV 1 false) ps_new = ROk (LDone st') /\
    fill c st' = ROk stf /\
    st = ssub (mt_sub (mt st)) stf.
Proof.
  intros Hp Hs [Hneg Hign] H.
  rewrite (wlevel_step c pre F pst pos tok n f Hp Hs Hneg rest ps_new eq_refl) in H.
  rewrite (wprefix_alone c pre F pst pos Hp ps_new eq_refl).
  destruct (F ps_new) as [st'|e s1|x]; cbn [rbind] in H |- *; [|exfalso; exact (post_err c e s1 st Hign H)|discriminate].
  destruct (after_sub f c n false (negb (is_nil pre)) st' rest) as [st2|e s2|x] eqn:Ea;
    [|exfalso; exact (post_err c e s2 st Hign H)|discriminate].
  apply after_sub_ok in Ea. apply post_ok in H. rewrite Ea, fill_ssub in H.
  destruct (fill c st') as [stf|e s3|x] eqn:Ef; cbn [rmap] in H; try discriminate.
  exists st', stf. split; [reflexivity|]. split; [exact Ef|].
  inversion H. reflexivity.
Qed.

(** … and so are the entries of the last level *)
Theorem wlevel_end c pre F pst pos f st :
  wprefix c false pre F pst pos -> get_matches_with (S f) c pre ps_new = ROk st ->
  exists st', parse_loop c pre (lsV 1 false) ps_new = ROk (LDone st') /\ fill c st' = ROk st.
Proof.
  intros Hp H. rewrite gmw_unfold in H. unfold parsed_of in H.
  change (mkL PSValuesDone 1 false false) with (lsV 1 false) in H.
  rewrite (wprefix_alone c pre F pst pos Hp ps_new eq_refl) in H |- *.
  destruct (F ps_new) as [st'|e s1|x]; cbn [rbind] in H |- *; [|exfalso; exact (post_err_never_ok _ _ _ _ H)|discriminate].
  exists st'. split; [reflexivity|]. exact (post_ok c st' st H).
Qed.

(** what the tokens [pre] ALONE produce against the definition [c]: the token loop from a fresh state,
    then the pending occurrence, the environment and the defaults *)
Definition own_entries (c : cmd) (pre : list bytes) : option (list (id * marg)) :=
  match parse_loop c pre (lsV 1 false) ps_new with
  | ROk (LDone st') => match fill c st' with ROk stf => Some (mt_args (mt stf)) | _ => None end
  | _ => None
  end.

(** [wsplit c toks names lv]: a [wline] whose levels are left through [psel] tokens, together with its
    decomposition into (definition of the level, tokens of the level) *)
Inductive wsplit : cmd -> list bytes -> list bytes -> list (cmd * list bytes) -> Prop :=
| sp_end c pre F pst pos : wprefix c false pre F pst pos -> wsplit c pre [] [(c, pre)]
| sp_sub c pre F pst pos tok n sc0 sc rest names lv :
    lvl_ok c -> wprefix c false pre F pst pos -> psel c pst tok n -> find_subcommand c n = Some sc0 ->
    build_subcommand c (c_name sc0) = Some sc -> wsplit sc rest names lv ->
    wsplit c (pre ++ tok :: rest) (c_name sc0 :: names) ((c, pre) :: lv).

Lemma wsplit_wline : forall c toks names lv, wsplit c toks names lv -> wline c false toks names None.
Proof.
  induction 1 as [c pre F pst pos Hp|c pre F pst pos tok n sc0 sc rest names lv Hl Hp Hs Hf Hb Hsp IH].
  - eapply wl_end. exact Hp.
  - eapply (wl_sub c false pre F pst pos tok n false); try eassumption. apply psel_wsel. exact Hs.
Qed.

(** level isolation at every depth: the entries the parser reports at level j are exactly the entries
    the tokens of level j alone produce against the definition of level j *)
Theorem levels_of_wsplit : forall c toks names lv, wsplit c toks names lv ->
  forall f st, get_matches_with f c toks ps_new = ROk st ->
  map Some (levels (into_inner (mt st))) = map (fun p => own_entries (fst p) (snd p)) lv.
Proof.
  induction 1 as [c pre F pst pos Hp|c pre F pst pos tok n sc0 sc rest names lv Hl Hp Hs Hf Hb Hsp IH];
    intros f st H; (destruct f as [|f]; [discriminate|]).
  - assert (Hw : wline c false pre [] None) by (eapply wl_end; exact Hp).
    destruct (chain_of_wline _ _ _ _ _ Hw _ _ _ start_ok_new H) as [Hc _].
    destruct (wlevel_end c pre F pst pos f st Hp H) as [st' [Hloop Hfill]].
    cbn [map fst snd]. unfold own_entries. rewrite Hloop, Hfill.
    unfold into_inner in Hc |- *. destruct (mt_sub (mt st)) as [[n0 s0]|]; [discriminate|]. reflexivity.
  - destruct (wlevel_entries c pre F pst pos tok n f rest st Hp Hs Hl H) as [st' [stf [Hloop [Hfill Hst]]]].
    destruct (wl_sub_step c false pre F pst pos tok n false sc0 sc rest f ps_new st Hl Hp (psel_wsel c false pst pos tok n Hs)
                Hf Hb start_ok_new H) as [st1 [sub_st [Hchild [_ [Hsub _]]]]].
    cbn [sub_init] in Hchild. specialize (IH f sub_st Hchild).
    assert (Hargs : mt_args (mt st) = mt_args (mt stf)) by (rewrite Hst; reflexivity).
    cbn [map fst snd]. unfold own_entries at 1. rewrite Hloop, Hfill, <- IH.
    unfold into_inner at 1. rewrite Hsub, Hargs. reflexivity.
Qed.

(** ** the deepest explicit occurrence wins *)
Lemma app_split_cases {A} : forall (l1 l1' : list A) x x' l2 l2',
  l1 ++ x :: l2 = l1' ++ x' :: l2' ->
  (l1 = l1' /\ x = x' /\ l2 = l2') \/ (In x l2' /\ In x' l1) \/ (In x l1' /\ In x' l2).
Proof.
  induction l1 as [|a t IH]; intros [|a' t'] x x' l2 l2' H; cbn [app] in H.
  - inversion H. left. auto.
  - inversion H; subst. right. right. split; [left; reflexivity|]. apply in_or_app. right. left. reflexivity.
  - inversion H; subst. right. left. split; [apply in_or_app; right; left; reflexivity|left; reflexivity].
  - inversion H; subst. destruct (IH t' x x' l2 l2' H2) as [[E1 [E2 E3]]|[[H3 H4]|[H3 H4]]].
    + left. subst. auto.
    + right. left. split; [exact H3|right; exact H4].
    + right. right. split; [right; exact H3|exact H4].
Qed.

(** merge level: if level |l1| holds a command-line entry [e] for the global [g] and no deeper level
    holds a command-line entry, then EVERY level of the result reports [e] — whatever the levels above
    hold (other command-line values included) *)
Theorem deepest_explicit_wins fuel globals m g l1 e l2 :
  (matches_depth m <= fuel)%nat -> mem_id g globals = true ->
  map (fm_get g) (levels m) = l1 ++ Some e :: l2 ->
  m_source e = Some SCmdLine ->
  (forall e', In (Some e') l2 -> m_source e' <> Some SCmdLine) ->
  forall lv, In lv (levels (fst (filled fuel globals m))) -> fm_get g lv = Some e.
Proof.
  intros Hf Hg Hs Hc Hdeep.
  assert (Hin : In (Some e) (map (fm_get g) (levels m))) by (rewrite Hs; apply in_or_app; right; left; reflexivity).
  destruct (globals_merge fuel globals m g e Hf Hg Hin) as [e1 [k1 [k2 [Ha [Hs1 [H1 H2]]]]]].
  rewrite Hs in Hs1. apply mrank_cmdline in Hc.
  destruct (app_split_cases _ _ _ _ _ _ Hs1) as [[_ [E _]]|[[H3 H4]|[H3 H4]]].
  - inversion E; subst e1. exact Ha.
  - specialize (H2 e H3). pose proof (mrank_le3 e1). lia.
  - specialize (H1 e H3). assert (H5 : mrank e1 = 3) by (pose proof (mrank_le3 e1); lia).
    apply mrank_cmdline in H5. exfalso. exact (Hdeep e1 H4 H5).
Qed.

(** line level — WHICH occurrence wins: split the line into its levels ([wsplit]); let level j be the
    deepest whose own tokens produce a command-line entry [e] for the global [g] (every deeper level's
    own tokens leave [g] at a default / env value or absent).  Then every level of the final matches
    reports [e]: the values given at level j, source CommandLine — also where levels above j gave other
    values *)
Theorem deepest_explicit_line c0 toks names lv m' g l1 cj prej l2 ownj e :
  wsplit (build_self c0) toks names lv -> is_set s_ignore_errors (build_self c0) = false ->
  do_parse c0 toks = OOk m' ->
  (exists lc a, In lc (lazy_cmds (build_self c0) names) /\ In a (c_args lc) /\ a_global a = true /\ a_id a = g) ->
  lv = l1 ++ (cj, prej) :: l2 -> own_entries cj prej = Some ownj -> fm_get g ownj = Some e ->
  m_source e = Some SCmdLine ->
  (forall c' p' own' e', In (c', p') l2 -> own_entries c' p' = Some own' -> fm_get g own' = Some e' ->
     m_source e' <> Some SCmdLine) ->
  forall lvl, In lvl (levels m') -> fm_get g lvl = Some e.
Proof.
  intros Hsp Hign H [lc [a [Hlc [Ha [Hga Hid]]]]] Hlv Hown Hget Hc Hdeep.
  destruct (do_parse_ok c0 toks m' H Hign) as [st [Eg Hm']].
  pose proof (valid_assert_root c0 (do_parse_valid c0 toks m' H)) as Hva.
  pose proof (wsplit_wline _ _ _ _ Hsp) as Hline.
  set (m := into_inner (mt st)) in *.
  assert (Hfuel : (matches_depth m <= S (matches_depth m))%nat) by lia.
  assert (Hmem : mem_id g (used_global_args (S (matches_depth m)) (build_recursive (S (S (depth (build_self c0)))) c0) m) = true).
  { rewrite <- Hid.
    eapply (wline_globals_used _ _ _ _ _ Hline _ _ _ c0 _ _ _ start_ok_new Eg);
      [symmetry; apply U_eta|exact Hva|exact Hfuel|exact Hlc|exact Ha|exact Hga]. }
  pose proof (levels_of_wsplit _ _ _ _ Hsp _ _ Eg) as Hlev. fold m in Hlev. rewrite Hlv, map_app in Hlev. cbn [map fst snd] in Hlev.
  rewrite Hown in Hlev.
  destruct (map_eq_app _ _ _ _ Hlev) as [L1 [L2' [EL [EL1 EL2]]]].
  destruct (map_eq_cons _ _ EL2) as [o [L2 [EL3 [Eo EL4]]]]. inversion Eo; subst o. clear Eo.
  rewrite Hm'. apply (deepest_explicit_wins (S (matches_depth m)) _ m g (map (fm_get g) L1) e (map (fm_get g) L2) Hfuel Hmem).
  - rewrite EL, EL3, map_app. cbn [map]. rewrite Hget. reflexivity.
  - exact Hc.
  - intros e' Hin. apply in_map_iff in Hin. destruct Hin as [own' [Hg' Hin']].
    assert (Hs : In (Some own') (map Some L2)) by (apply in_map; exact Hin').
    rewrite EL4 in Hs. apply in_map_iff in Hs. destruct Hs as [[c' p'] [Ho Hin2]]. cbn [fst snd] in Ho.
    exact (Hdeep c' p' own' e' Hin2 Ho Hg').
Qed.

(** `-g x a sy -g y -y` on [ex_wide]: `-g` given at both levels with different values — level 1 wins;
    `-g x a sy -y`: only level 0 names it — its value is reported at both levels *)
Definition ex_gg_line : list bytes := [[45; 103]; b1 120; b1 97; [115; 121]; [45; 103]; b1 121; [45; 121]].
Definition ex_g_line : list bytes := [[45; 103]; b1 120; b1 97; [115; 121]; [45; 121]].

Lemma no_hyphen_of_args c :
  forallb (fun a => negb (a_negnum a) && negb (a_hyphen a)) (c_args c) = true -> no_hyphen c.
Proof.
  intros H pos. unfold no_hyphen_pos. destruct (get_pos c pos) as [a|] eqn:E; [|exact I].
  unfold get_pos in E. destruct (List.find _ (keymap c)) as [[k a0]|] eqn:Ef; cbn [opt_map snd] in E; [|discriminate].
  inversion E; subst a0. apply find_some in Ef. destruct Ef as [Hin _].
  unfold keymap in Hin. apply in_flat_map in Hin. destruct Hin as [a1 [Ha1 Hk]].
  apply in_map_iff in Hk. destruct Hk as [k1 [Hk1 _]]. inversion Hk1; subst a1.
  rewrite forallb_forall in H. specialize (H a Ha1). apply andb_true_iff in H. destruct H as [Hn Hh].
  apply negb_true_iff in Hn. apply negb_true_iff in Hh. rewrite Hn, Hh. split; reflexivity.
Qed.

Ltac short_sep_g :=
  eapply (it_short_sep _ [45; 103] [103] 103);
    [solve_nosub|vmr|vmr|vmr|vmr|vmr|vmr|vmr|apply no_hyphen_of_args; vmr
    |vmr|vmr|vmr|solve_nosub|vmr|vmr|vmr|vmr].

Example ex_gg_wsplit :
  exists names lv, wsplit (build_self (ex_wide false)) ex_gg_line names lv /\
    names = [w_sync] /\ map snd lv = [[[45; 103]; b1 120; b1 97]; [[45; 103]; b1 121; [45; 121]]].
Proof.
  eexists. eexists. split.
  { eapply (sp_sub _ [[45; 103]; b1 120; b1 97] _ PSValuesDone 2 [115; 121] _ _ _ [[45; 103]; b1 121; [45; 121]]).
    - split; vmr.
    - apply wp_plain, wb_plain. eapply (pi_opt _ 1 [[45; 103]; b1 120] _ [b1 97]); [short_sep_g|].
      eapply (pi_pos _ 1 (b1 97) _ []); [solve_nosub|solve_plain|solve_takes|vmr|apply pi_nil].
    - apply ps_name. apply ns_unique; vmr.
    - vmr.
    - vmr.
    - eapply sp_end. apply wp_plain, wb_plain.
      eapply (pi_opt _ 1 [[45; 103]; b1 121] _ [[45; 121]]); [short_sep_g|].
      eapply (pi_opt _ 1 [[45; 121]] _ []); [flag_cluster 121|apply pi_nil]. }
  split; vmr.
Qed.

Example ex_gg_parses :
  exists m', do_parse (ex_wide false) ex_gg_line = OOk m' /\
    map (fun lv => opt_map (fun e => (m_source e, m_raw e)) (fm_get (b1 103) lv)) (levels m') =
      [Some (Some SCmdLine, [[b1 121]]); Some (Some SCmdLine, [[b1 121]])] /\
    opt_map (fun own => opt_map (fun e => (m_source e, m_raw e)) (fm_get (b1 103) own))
            (own_entries (build_self (ex_wide false)) [[45; 103]; b1 120; b1 97]) = Some (Some (Some SCmdLine, [[b1 120]])).
Proof. eexists. split; [vmr|]. split; vmr. Qed.

Example ex_g_parses :
  exists m', do_parse (ex_wide false) ex_g_line = OOk m' /\
    map (fun lv => opt_map (fun e => (m_source e, m_raw e)) (fm_get (b1 103) lv)) (levels m') =
      [Some (Some SCmdLine, [[b1 120]]); Some (Some SCmdLine, [[b1 120]])].
Proof. eexists. split; vmr. Qed.

(** the hypotheses of [deepest_explicit_line] hold on `-g x a sy -g y -y`: two levels, BOTH name `-g`
    (level 0: x, level 1: y); the deepest one is level 1, nothing below it *)
Example ex_gg_deepest_hyps :
  let c := build_self (ex_wide false) in
  exists names lv cj prej ownj e,
    wsplit c ex_gg_line names lv /\
    lv = [(c, [[45; 103]; b1 120; b1 97])] ++ (cj, prej) :: [] /\
    own_entries cj prej = Some ownj /\ fm_get (b1 103) ownj = Some e /\
    m_source e = Some SCmdLine /\ m_raw e = [[b1 121]] /\
    (exists lc a, In lc (lazy_cmds c names) /\ In a (c_args lc) /\ a_global a = true /\ a_id a = b1 103).
Proof.
  cbv zeta. eexists. eexists. eexists. eexists. eexists. eexists. split.
  { eapply (sp_sub _ [[45; 103]; b1 120; b1 97] _ PSValuesDone 2 [115; 121] _ _ _ [[45; 103]; b1 121; [45; 121]]).
    - split; vmr.
    - apply wp_plain, wb_plain. eapply (pi_opt _ 1 [[45; 103]; b1 120] _ [b1 97]); [short_sep_g|].
      eapply (pi_pos _ 1 (b1 97) _ []); [solve_nosub|solve_plain|solve_takes|vmr|apply pi_nil].
    - apply ps_name. apply ns_unique; vmr.
    - vmr.
    - vmr.
    - eapply sp_end. apply wp_plain, wb_plain.
      eapply (pi_opt _ 1 [[45; 103]; b1 121] _ [[45; 121]]); [short_sep_g|].
      eapply (pi_opt _ 1 [[45; 121]] _ []); [flag_cluster 121|apply pi_nil]. }
  split; [reflexivity|]. split; [vmr|]. split; [vmr|]. split; [vmr|]. split; [vmr|].
  exists (build_self (ex_wide false)). eexists. split; [cbn [lazy_cmds]; apply in_eq|].
  split; [vm_compute; left; reflexivity|]. split; vmr.
Qed.

(** the hypotheses of [infer_head_canonical] hold for `del` on [ex_wide] (`del` matches only the alias
    `delete` of `remove`) *)
Example ex_infer_head_hyps :
  let c := build_self (ex_wide false) in
  is_set s_args_negate_subs c = false /\ utf8_valid [100; 101; 108] = true /\ is_set s_infer_sub c = true /\
  infer_list c [100; 101; 108] = [w_delete] /\ not_help c w_delete /\
  (exists st, get_matches_with 4 c ([] ++ [100; 101; 108] :: []) ps_new = ROk st /\
              opt_map fst (mt_sub (mt st)) = Some w_remove).
Proof.
  cbv zeta. split; [vmr|]. split; [vmr|]. split; [vmr|]. split; [vmr|]. split; [vmr|].
  eexists. split; vmr.
Qed.
