(** Property C07, part 8: the default of a flag comes from [Arg::_build], whether or not the flag is [required].

    ActionsTop.v's flag theorems assume the built argument's default ([a_default a = [flag_value (negb b)]]).  Here
    that is derived from the build step for an argument of the user's (unbuilt) definition: [_build] gives every
    SetTrue / SetFalse / Count argument its action's default value - there is no exception for [required(true)] -
    and [_build_self] carries it unchanged into the built command.  Consequence at [parse_top]: a flag (required or
    not) whose occurrences were all removed by a later argument in an override relation with it reports the
    action's default - "false" for SetTrue, "true" for SetFalse, "0" for Count - with source DefaultValue. *)
From ClapModel Require Import Base.Bytes Base.Machine Base.Utf8 Lex.OsStrExtModel.
From ClapModel Require Import Parse.Cmd Parse.Build Parse.Valid Parse.Matcher Parse.Errors Parse.Validator Parse.Parser.
From ClapModel Require Import ParseProofs.Actions ParseProofs.ActionsLoop ParseProofs.ActionsTokens ParseProofs.ActionsTop ParseProofs.ActionsWide ParseProofs.ActionsWideTop.
From Coq Require Import ZArith.
From RecordUpdate Require Import RecordSet.
Import RecordSetNotations.
Open Scope N_scope.

(** what the later build steps keep of [arg_build a0] *)
Definition built_from (a0 a : arg) : Prop :=
  a_id a = a_id a0 /\ a_required a = a_required a0 /\
  a_action a = a_action (arg_build a0) /\ a_default a = a_default (arg_build a0) /\
  a_default_missing a = a_default_missing (arg_build a0) /\ a_num a = a_num (arg_build a0) /\
  a_env a = a_env a0 /\ a_default_ifs a = a_default_ifs a0 /\ a_delim a = a_delim a0.

Lemma arg_build_frame a : a_id (arg_build a) = a_id a /\ a_required (arg_build a) = a_required a /\
  a_env (arg_build a) = a_env a /\ a_default_ifs (arg_build a) = a_default_ifs a /\ a_delim (arg_build a) = a_delim a.
Proof.
  unfold arg_build, ab_num, ab_vp, ab_dmissing, ab_default, ab_action.
  repeat match goal with |- context [match ?x with _ => _ end] => destruct x end; repeat split; reflexivity.
Qed.

Lemma built_from_build a0 : built_from a0 (arg_build a0).
Proof.
  destruct (arg_build_frame a0) as [H1 [H2 [H3 [H4 H5]]]]. unfold built_from. repeat split; assumption.
Qed.

Lemma built_from_index a0 a n : built_from a0 a -> built_from a0 (a <| a_index := Some n |>).
Proof. intros H. exact H. Qed.

Lemma built_from_deprecated c h a0 a : built_from a0 a -> built_from a0 (bs_deprecated_arg c h a).
Proof.
  intros H. unfold bs_deprecated_arg.
  repeat match goal with |- context [if ?x then _ else _] => destruct x end; exact H.
Qed.

Lemma build_args_from : forall args groups pc a0, In a0 args ->
  exists a, In a (fst (build_args args groups pc)) /\ built_from a0 a.
Proof.
  induction args as [|x t IH]; intros groups pc a0 Hin; [destruct Hin|]. cbn [build_args].
  set (groups' := add_arg_to_groups (a_id x) (a_groups x) groups).
  destruct (a_is_positional (arg_build x) && negb (is_some (a_index (arg_build x)))).
  - destruct (build_args t groups' (pc + 1)) as [t' g'] eqn:Eb. cbn [fst]. destruct Hin as [<-|Hin].
    + eexists. split; [left; reflexivity|]. apply built_from_index. apply built_from_build.
    + destruct (IH groups' (pc + 1) a0 Hin) as [a [Ha Hf]]. rewrite Eb in Ha. exists a. split; [right; exact Ha|exact Hf].
  - destruct (build_args t groups' pc) as [t' g'] eqn:Eb. cbn [fst]. destruct Hin as [<-|Hin].
    + eexists. split; [left; reflexivity|]. apply built_from_build.
    + destruct (IH groups' pc a0 Hin) as [a [Ha Hf]]. rewrite Eb in Ha. exists a. split; [right; exact Ha|exact Hf].
Qed.

Lemma pre_args_incl c a0 : In a0 (c_args c) ->
  In a0 (c_args (bs_globals (bs_help_version (bs_propagate (bs_settings c))))).
Proof.
  intros Hin.
  assert (H1 : c_args (bs_propagate (bs_settings c)) = c_args c).
  { unfold bs_propagate, bs_settings. cbn.
    repeat match goal with |- context [if ?x then _ else _] => destruct x end; reflexivity. }
  unfold bs_globals. cbn [c_args]. unfold bs_help_version. rewrite <- H1 in Hin.
  generalize dependent (bs_propagate (bs_settings c)). intros X HX _.
  repeat match goal with |- context [if ?x then _ else _] => destruct x end; cbn [c_args];
    repeat (apply in_or_app; left); exact HX.
Qed.

(** every argument of the definition is in the built command, as [_build] left it *)
Theorem build_self_from c a0 : s_built (c_set c) = false -> In a0 (c_args c) ->
  exists a, In a (c_args (build_self c)) /\ built_from a0 a.
Proof.
  intros Hb Hin. unfold build_self. rewrite Hb.
  set (X := bs_globals (bs_help_version (bs_propagate (bs_settings c)))).
  pose proof (pre_args_incl c a0 Hin) as HX. fold X in HX.
  destruct (build_args_from (c_args X) (c_groups X) 1 a0 HX) as [a [Ha Hf]].
  change (c_args (bs_mark (bs_deprecated (bs_args X)))) with
    (map (bs_deprecated_arg (bs_args X)
            (fold_left (fun m a => match a_index a with Some n => N.max m n | None => m end) (c_args (bs_args X)) 0))
         (c_args (bs_args X))).
  eexists. split; [apply in_map; exact Ha|]. apply built_from_deprecated. exact Hf.
Qed.

(** the default a flag of the definition carries in the built command: the action's, [required] or not *)
Theorem built_flag_default c a0 b : s_built (c_set c) = false -> In a0 (c_args c) ->
  a_action a0 = Some (flag_action b) -> a_default a0 = [] -> a_default_missing a0 = [] ->
  exists a, In a (c_args (build_self c)) /\ a_id a = a_id a0 /\ a_required a = a_required a0 /\
    a_get_action a = flag_action b /\ a_default a = [flag_value (negb b)] /\ a_default_missing a = [flag_value b] /\
    a_env a = a_env a0 /\ a_default_ifs a = a_default_ifs a0 /\ a_delim a = a_delim a0.
Proof.
  intros Hb Hin EA ED EM.
  destruct (build_self_from c a0 Hb Hin) as [a [Ha [F1 [F2 [F3 [F4 [F5 [F6 [F7 [F8 F9]]]]]]]]]].
  destruct (flag_build_defaults a0 b EA ED EM) as [B1 [B2 [B3 _]]].
  exists a. split; [exact Ha|]. split; [exact F1|]. split; [exact F2|].
  split; [unfold a_get_action in *; rewrite F3; exact B1|]. split; [rewrite F4; exact B2|].
  split; [rewrite F5; exact B3|]. auto.
Qed.

Theorem built_count_default c a0 : s_built (c_set c) = false -> In a0 (c_args c) ->
  a_action a0 = Some ACount -> a_default a0 = [] ->
  exists a, In a (c_args (build_self c)) /\ a_id a = a_id a0 /\ a_required a = a_required a0 /\
    a_get_action a = ACount /\ a_default a = [[48]] /\
    a_env a = a_env a0 /\ a_default_ifs a = a_default_ifs a0 /\ a_delim a = a_delim a0.
Proof.
  intros Hb Hin EA ED.
  destruct (build_self_from c a0 Hb Hin) as [a [Ha [F1 [F2 [F3 [F4 [F5 [F6 [F7 [F8 F9]]]]]]]]]].
  assert (B : a_action (arg_build a0) = Some ACount /\ a_default (arg_build a0) = [[48]]).
  { clear - EA ED. destruct a0. cbn in EA, ED. subst.
    unfold arg_build, ab_num, ab_vp, ab_dmissing, ab_default, ab_action, a_get_action. cbn.
    repeat match goal with |- context [match ?x with _ => _ end] => destruct x end; split; reflexivity. }
  destruct B as [B1 B2].
  exists a. split; [exact Ha|]. split; [exact F1|]. split; [exact F2|].
  split; [unfold a_get_action; rewrite F3, B1; reflexivity|]. split; [rewrite F4; exact B2|]. auto.
Qed.

(** * At [parse_top]: an overridden flag of the definition - required or not - reports the action's default *)
Theorem gen_top_overridden_flag_default c0 bin toks os1 o os2 m a0 b :
  let c := build_self (with_bin c0 bin) in
  gen_class c0 bin toks (os1 ++ o :: os2) -> parse_top c0 (bin :: toks) = OOk m ->
  s_built (c_set c0) = false -> In a0 (c_args c0) ->
  a_action a0 = Some (flag_action b) -> a_default a0 = [] -> a_default_missing a0 = [] ->
  a_env a0 = None -> a_default_ifs a0 = [] -> a_delim a0 = None ->
  beq (a_id (o_arg o)) (a_id a0) = false -> o_src o = SCmdLine -> overridden c (o_arg o) (a_id a0) = true ->
  Forall (fun o' => beq (a_id (o_arg o')) (a_id a0) = false) os2 ->
  exists e, fm_get (a_id a0) (ms_args m) = Some e /\ m_raw e = [[flag_value (negb b)]] /\ m_source e = Some SDefault /\
            get_flag_view m (a_id a0) = Some (negb b).
Proof.
  intros c TC HP Hb Hin EA ED EM EE EI EL Eb Es Eo HU.
  assert (Hb' : s_built (c_set (with_bin c0 bin)) = false).
  { unfold with_bin. destruct (c_bin_name c0); [exact Hb|]. destruct (utf8_valid bin && negb (is_nil bin)); exact Hb. }
  assert (Hin' : In a0 (c_args (with_bin c0 bin))).
  { unfold with_bin. destruct (c_bin_name c0); [exact Hin|]. destruct (utf8_valid bin && negb (is_nil bin)); exact Hin. }
  destruct (built_flag_default (with_bin c0 bin) a0 b Hb' Hin' EA ED EM) as [a [Ha [I1 [_ [A1 [A2 [A3 [A4 [A5 A6]]]]]]]]].
  fold c in Ha. rewrite <- I1 in *.
  assert (HF : fold_left (step_abs c (a_id a)) (os1 ++ o :: os2) None = None)
    by exact (abs_override_later_wins c (a_id a) os1 o os2 None Eb Es Eo HU).
  assert (HDne : a_default a <> []) by (rewrite A2; discriminate).
  destruct (gen_top_default c0 bin toks _ m a TC HP Ha HF ltac:(congruence) ltac:(congruence) HDne ltac:(congruence))
    as [e [Ge [Re Se]]].
  exists e. split; [exact Ge|]. split; [rewrite Re, A2; reflexivity|]. split; [exact Se|].
  unfold get_flag_view, first_value. rewrite Ge, Re, A2. destruct b; reflexivity.
Qed.

Theorem wide_overridden_flag_default c0 bin toks os1 o os2 m a0 b :
  let c := build_self (with_bin c0 bin) in
  wide_class c0 bin toks (os1 ++ o :: os2) -> parse_top c0 (bin :: toks) = OOk m ->
  s_built (c_set c0) = false -> In a0 (c_args c0) ->
  a_action a0 = Some (flag_action b) -> a_default a0 = [] -> a_default_missing a0 = [] ->
  a_env a0 = None -> a_default_ifs a0 = [] -> a_delim a0 = None ->
  beq (a_id (o_arg o)) (a_id a0) = false -> overridden c (o_arg o) (a_id a0) = true ->
  Forall (fun o' => beq (a_id (o_arg o')) (a_id a0) = false) os2 ->
  exists e, fm_get (a_id a0) (ms_args m) = Some e /\ m_raw e = [[flag_value (negb b)]] /\ m_source e = Some SDefault /\
            get_flag_view m (a_id a0) = Some (negb b).
Proof.
  intros c TC HP Hb Hin EA ED EM EE EI EL Eb Eo HU.
  assert (Es : o_src o = SCmdLine).
  { destruct TC as [_ [_ [_ HS]]]. pose proof (woccurrences_scanned _ toks _ HS) as HSc.
    apply Forall_app in HSc. destruct HSc as [_ HSc]. inversion HSc as [|? ? [_ [S _]] _]; subst. exact S. }
  exact (gen_top_overridden_flag_default c0 bin toks os1 o os2 m a0 b (wide_gen _ _ _ _ TC) HP Hb Hin EA ED EM EE EI EL Eb Es Eo HU).
Qed.

(** * Non-vacuity: a REQUIRED flag overridden by a later argument *)
Module RequiredExamples.
  Import WideExamples.
  (** prog -r (SetTrue, required) -x (SetTrue, overrides r) -f (SetFalse, required; x overrides it too) *)
  Definition c1 : cmd := (cmd_new [112]) <| c_args := [
     (mk [114]) <| a_short := Some 114 |> <| a_action := Some ASetTrue |> <| a_required := true |>;
     (mk [120]) <| a_short := Some 120 |> <| a_action := Some ASetTrue |> <| a_overrides := [[114]; [102]] |>;
     (mk [102]) <| a_short := Some 102 |> <| a_action := Some ASetFalse |> <| a_required := true |> ] |>.
  Definition bin : bytes := [112].
  Definition cb : cmd := build_self (with_bin c1 bin).
  Definition occs (toks : list bytes) : list occ := opt_default [] (woccurrences cb toks).
  Definition result (toks : list bytes) : matches :=
    match parse_top c1 (bin :: toks) with OOk m => m | _ => Matches [] None end.
  Definition lineR : list bytes := [[45;114]; [45;102]; [45;120]].     (* -r -f -x *)
  Definition a_r : arg := nth 0 (c_args c1) (arg_new []).
  Definition a_f : arg := nth 2 (c_args c1) (arg_new []).
  Definition dflt : occ := tok_occ IShort (arg_new []) [].
  Ltac vmr := vm_compute; reflexivity.
  Example classR : wide_class c1 bin lineR (occs lineR).
  Proof. unfold wide_class. split; [|split; [|split]]; vmr. Qed.
  Example okR : parse_top c1 (bin :: lineR) = OOk (result lineR).
  Proof. vmr. Qed.
  Example split_x : occs lineR = firstn 2 (occs lineR) ++ nth 2 (occs lineR) dflt :: [].
  Proof. vmr. Qed.
  Example required_r : a_required a_r = true /\ a_required a_f = true.
  Proof. split; reflexivity. Qed.
  Example overridden_required_r : get_flag_view (result lineR) [114] = Some false.
  Proof.
    pose proof classR as CR. rewrite split_x in CR.
    destruct (wide_overridden_flag_default c1 bin lineR _ _ _ (result lineR) a_r true CR okR ltac:(vmr)
                ltac:(left; reflexivity) ltac:(vmr) ltac:(vmr) ltac:(vmr) ltac:(vmr) ltac:(vmr) ltac:(vmr)
                ltac:(vmr) ltac:(vmr) (Forall_nil _)) as [e [_ [_ [_ H]]]].
    exact H.
  Qed.
  Example overridden_required_f : get_flag_view (result lineR) [102] = Some true.
  Proof.
    pose proof classR as CR. rewrite split_x in CR.
    destruct (wide_overridden_flag_default c1 bin lineR _ _ _ (result lineR) a_f false CR okR ltac:(vmr)
                ltac:(right; right; left; reflexivity) ltac:(vmr) ltac:(vmr) ltac:(vmr) ltac:(vmr) ltac:(vmr) ltac:(vmr)
                ltac:(vmr) ltac:(vmr) (Forall_nil _)) as [e [_ [_ [_ H]]]].
    exact H.
  Qed.
End RequiredExamples.
