(** C02's index discipline / "no value is invented" and C03's closed soundness for definitions WITH short
    flag-subcommands (class [FsTotality.flag_sub_class]): the same instances of the primitive-closed state
    predicate ([IndexInv.idx_inv], [Provenance.prov]) through [FsTotality.gmw_fs] instead of [Totality.gmw_safe].
    A level entered by re-reading a cluster starts with an EMPTY matcher and the parent's index counter; both
    predicates hold of the empty matcher at every counter. *)
From ClapModel Require Import Base.Bytes Base.Machine.
From ClapModel Require Import Parse.Cmd Parse.Build Parse.Valid Parse.Matcher Parse.Errors Parse.Validator Parse.Parser.
From ClapModel Require Import ParseProofs.Safe ParseProofs.Invariant ParseProofs.Totality
                              ParseProofs.Relations ParseProofs.ValidateTotal ParseProofs.TotalityMain
                              ParseProofs.IndexInv ParseProofs.Provenance
                              ParseProofs.FlagSubClass ParseProofs.FsInvariant ParseProofs.FsTotality.
From Coq Require Import ZArith Lia Sorting.Sorted.
From RecordUpdate Require Import RecordSet.
Import RecordSetNotations.
Open Scope N_scope.

Lemma idx_inv_empty k : idx_inv [] k.
Proof. repeat split; constructor. Qed.

Lemma fs_validate_total c m : assert_app c = true -> FsInv.entries_ok c (mt_args m) -> forall s, validate c m <> VPanic s.
Proof. intros Happ He s. apply validate_total; [apply assert_app_rel_wf; exact Happ|exact He]. Qed.

(** how a level is entered, for the two instances *)
Definition idx_entry := entry_ok (fun _ _ => trivV) (fun _ _ => idx_inv).
Definition prov_entry := entry_ok origin prov.

(** * C02: every successful level of the recursion, whichever way it was entered *)
Theorem level_indices_fs fuel c toks st0 st :
  tree_ok_fs fuel c -> idx_entry c toks st0 -> get_matches_with fuel c toks st0 = ROk st ->
  idx_inv (mt_args (mt st)) (cur_idx st).
Proof.
  intros Hok HG Hr.
  pose proof (gmw_fs (fun _ _ => trivV) (fun _ _ => idx_inv) (fun c' _ => idx_inv_closed c') (fun _ _ k => idx_inv_empty k)
                trivV_ok fs_validate_total fuel c toks st0 Hok HG) as Hs.
  rewrite Hr in Hs. cbn in Hs. apply Hs.
Qed.

Theorem root_indices_fs c0 toks st :
  flag_sub_class c0 = true -> valid c0 = true ->
  get_matches_with (S (S (depth (build_self c0)))) (build_self c0) toks ps_new = ROk st ->
  idx_inv (mt_args (mt st)) (cur_idx st).
Proof.
  intros Hc Hv Hr. unfold valid in Hv. cbn zeta in Hv.
  unfold flag_sub_class in Hc. cbn zeta in Hc. apply andb_true_iff in Hc. destruct Hc as [Hb Hc].
  apply Bool.negb_true_iff in Hb.
  eapply level_indices_fs; [eapply tree_ok_fs_of_class; eassumption| |exact Hr].
  left. apply FsInv.G_ps_new; [apply idx_inv_empty|right; reflexivity|reflexivity].
Qed.

Theorem level_provenance_fs fuel c toks st0 st :
  tree_ok_fs fuel c -> prov_entry c toks st0 ->
  get_matches_with fuel c toks st0 = ROk st ->
  forall i m, In (i, m) (mt_args (mt st)) -> (exists a, find_arg c i = Some a) ->
  Forall (Forall (origin c toks)) (m_raw m).
Proof.
  intros Hok HG Hr.
  assert (HP0 : forall c toks k, prov c toks [] k) by (intros c' t k _ i m []).
  pose proof (gmw_fs origin prov prov_closed HP0 origin_Vok fs_validate_total fuel c toks st0 Hok HG) as Hs.
  rewrite Hr in Hs. cbn in Hs. destruct Hs as [[_ [_ HP]] _].
  destruct fuel as [|f]; [destruct Hok|]. destruct Hok as [_ [Happ _]].
  apply HP. apply assert_app_groups_sane. exact Happ.
Qed.

Theorem root_provenance_fs c0 toks st :
  flag_sub_class c0 = true -> valid c0 = true ->
  get_matches_with (S (S (depth (build_self c0)))) (build_self c0) toks ps_new = ROk st ->
  forall i m, In (i, m) (mt_args (mt st)) -> (exists a, find_arg (build_self c0) i = Some a) ->
  Forall (Forall (origin (build_self c0) toks)) (m_raw m).
Proof.
  intros Hc Hv Hr. unfold valid in Hv. cbn zeta in Hv.
  unfold flag_sub_class in Hc. cbn zeta in Hc. apply andb_true_iff in Hc. destruct Hc as [Hb Hc].
  apply Bool.negb_true_iff in Hb.
  eapply level_provenance_fs; [eapply tree_ok_fs_of_class; eassumption| |exact Hr].
  left. apply FsInv.G_ps_new; [intros _ i m []|right; reflexivity|reflexivity].
Qed.

(** * C03: the key-uniqueness hypothesis of the validator's soundness theorem holds of the state the parser
      hands to it *)
Theorem parse_relations_fs c0 toks m :
  flag_sub_class c0 = true -> valid c0 = true ->
  do_parse c0 toks = OOk m -> is_set s_ignore_errors (build_self c0) = false ->
  exists st, run_level c0 toks = ROk st /\ m = reported c0 st /\ Relations (build_self c0) (mt st).
Proof.
  intros Hp Hv Hd Hi. destruct (do_parse_sound c0 toks m Hd Hi) as [st [Hr [Hm Hrel]]].
  exists st. split; [exact Hr|split; [exact Hm|]]. apply Hrel.
  unfold fm_wf. unfold run_level in Hr. cbn zeta in Hr.
  apply (root_indices_fs c0 toks st Hp Hv Hr).
Qed.

Theorem level_relations_fs fuel c toks st0 st :
  tree_ok_fs fuel c -> idx_entry c toks st0 -> get_matches_with fuel c toks st0 = ROk st ->
  Relations c (mt st).
Proof.
  intros Hok HG Hr. destruct fuel as [|f]; [destruct Hok|]. pose proof Hok as [_ [Happ _]].
  apply (gmw_sound (S f) c toks st0 st Happ Hr). unfold fm_wf.
  apply (level_indices_fs (S f) c toks st0 st Hok HG Hr).
Qed.

(** * non-vacuity: `p -a -Sx v` on [FlagSubClass.candidate_cmd] -- the root reports an index and a subcommand; the
    level `s` is entered by re-reading `-Sx` with skip = 1 (an [idx_entry] of the second kind) and reports the
    indices of `-x` and of `v` (and of the default of `-w`) continuing the parent's numbering *)
Example fs_index_example :
  flag_sub_class candidate_cmd = true /\ valid candidate_cmd = true
  /\ (exists st, run_level candidate_cmd [[45; 97]; [45; 83; 120]; [118]] = ROk st
                 /\ all_indices (mt_args (mt st)) = [1] /\ cur_idx st = 2
                 /\ exists sm, mt_sub (mt st) = Some ([115], sm)
                               /\ map (fun p => (fst p, m_indices (snd p))) (ms_args sm) = [([120], [3]); ([118], [4]); ([119], [5])]).
Proof.
  split; [vm_compute; reflexivity|split; [vm_compute; reflexivity|]].
  eexists. split; [vm_compute; reflexivity|].
  split; [vm_compute; reflexivity|split; [vm_compute; reflexivity|]].
  eexists. split; vm_compute; reflexivity.
Qed.
