(** Property C02, un-parser: non-vacuity.  A concrete command and an invocation that uses every
    item kind and every spelling; all hypotheses of the un-parser theorems hold for it (by
    computation) and the parse succeeds with the expected occurrence groups. *)
From ClapModel Require Import Base.Bytes Base.Machine Base.Utf8 Lex.OsStrExtModel.
From ClapModel Require Import Parse.Cmd Parse.Build Parse.Valid Parse.Matcher Parse.Errors Parse.Validator Parse.Parser.
From ClapModel Require Import ParseProofs.Actions ParseProofs.Unparse ParseProofs.UnparseProofs ParseProofs.UnparseTop
                              ParseProofs.UnparseSub ParseProofs.UnparseTrail ParseProofs.UnparseTree ParseProofs.UnparseIdx ParseProofs.UnparseIdxTop.
From Coq Require Import ZArith List Bool.
From RecordUpdate Require Import RecordSet.
Import RecordSetNotations.
Import ListNotations.
Open Scope N_scope.

Module UnparseEx.
  (** prog -v (Count)  -q/--qu (SetTrue)  -o/--opt <v> (Append)  -s/--set <v> (Set)
           -m/--mu <v>{1..3} (Append, delimiter ',')  -y/--yy [<v>] (Set, 0..1, default-missing "d")
           <f> (positional 1, one value)  <r>... (positional 2, 1.. values, Append)  -é (SetTrue; a two-byte short name) *)
  Definition v : arg := (arg_new [118]) <| a_short := Some 118 |> <| a_action := Some ACount |>.
  Definition q : arg := (arg_new [113]) <| a_short := Some 113 |> <| a_long := Some [113; 117] |> <| a_action := Some ASetTrue |>.
  Definition o : arg := (arg_new [111]) <| a_short := Some 111 |> <| a_long := Some [111; 112; 116] |> <| a_action := Some AAppend |>.
  Definition s : arg := (arg_new [115]) <| a_short := Some 115 |> <| a_long := Some [115; 101; 116] |> <| a_action := Some ASet |>.
  Definition m : arg := (arg_new [109]) <| a_short := Some 109 |> <| a_long := Some [109; 117] |> <| a_action := Some AAppend |>
                          <| a_num := Some {| vmin := 1; vmax := 3 |} |> <| a_delim := Some 44 |>.
  Definition y : arg := (arg_new [121]) <| a_short := Some 121 |> <| a_long := Some [121; 121] |> <| a_action := Some ASet |>
                          <| a_num := Some {| vmin := 0; vmax := 1 |} |> <| a_default_missing := [[100]] |>.
  Definition f : arg := arg_new [102].
  Definition r : arg := (arg_new [114]) <| a_num := Some {| vmin := 1; vmax := usize_max |} |>.
  Definition e : arg := (arg_new [101]) <| a_short := Some 233 |> <| a_action := Some ASetTrue |>.
  Definition c0 : cmd := (cmd_new [112]) <| c_args := [v; q; o; s; m; y; f; r; e] |>.
  Definition c : cmd := build_self c0.

  (** --qu F -vvoAB --opt=== --mu A B,C -vm A -s= R S --yy -v T -é *)
  Definition its : list item :=
    [ItLong [113; 117];
     ItPos [[70]];
     ItCluster [118; 118] (TAtt 111 [65; 66]);
     ItLongEq [111; 112; 116] [61; 61];
     ItLongSep [109; 117] [[65]; [66; 44; 67]];
     ItCluster [118] (TSep 109 [[65]]);
     ItCluster [] (TEq 115 []);
     ItPos [[82]; [83]];
     ItLongSep [121; 121] [];
     ItCluster [118] TNone;
     ItPos [[84]];
     ItCluster [233] TNone].
  Definition wf := wf_items c PSValuesDone 1 its.

  Example ex_valid : valid c0 = true. Proof. vm_compute. reflexivity. Qed.
  Example ex_conv : conv c = true. Proof. vm_compute. reflexivity. Qed.
  Example ex_no_ignore_errors : is_set s_ignore_errors c = false. Proof. vm_compute. reflexivity. Qed.
  Example ex_no_overrides : no_overrides c = true. Proof. vm_compute. reflexivity. Qed.
  Example ex_wf : wf_items c PSValuesDone 1 its = true. Proof. vm_compute. reflexivity. Qed.
  Example ex_render : render its =
    [[45; 45; 113; 117]; [70]; [45; 118; 118; 111; 65; 66]; [45; 45; 111; 112; 116; 61; 61; 61];
     [45; 45; 109; 117]; [65]; [66; 44; 67]; [45; 118; 109]; [65]; [45; 115; 61]; [82]; [83]; [45; 45; 121; 121]; [45; 118]; [84]; [45; 195; 169]].
  Proof. vm_compute. reflexivity. Qed.

  Definition groups_after (toks : list bytes) (i : id) : option (option groups) :=
    match get_matches_with 3 c toks ps_new with ROk st => Some (groups_of i (mt st)) | _ => None end.
  Example ex_parse :
    groups_after (render its) [111] = Some (Some [[[65; 66]]; [[61; 61]]]) /\
    groups_after (render its) [109] = Some (Some [[[65]; [66]; [67]]; [[65]]]) /\
    groups_after (render its) [115] = Some (Some [[[]]]) /\
    groups_after (render its) [121] = Some (Some [[[100]]]) /\
    groups_after (render its) [118] = Some (Some [[[52]]]) /\
    groups_after (render its) [113] = Some (Some [[s_true]]) /\
    groups_after (render its) [102] = Some (Some [[[70]]]) /\
    groups_after (render its) [114] = Some (Some [[[82]; [83]]; [[84]]]) /\
    groups_after (render its) [101] = Some (Some [[s_true]]).
  Proof. vm_compute. repeat split; reflexivity. Qed.
  Example ex_denote :
    denote_arg c [111] its = Some [[[65; 66]]; [[61; 61]]] /\
    denote_arg c [109] its = Some [[[65]; [66]; [67]]; [[65]]] /\
    denote_arg c [114] its = Some [[[82]; [83]]; [[84]]] /\
    occ_groups c [109] (occs c 1 its) = [[[65]; [66]; [67]]; [[65]]].
  Proof. vm_compute. repeat split; reflexivity. Qed.
  Example ex_append_hyps : exists a, get_long c [111; 112; 116] = Some a /\ In a (c_args c) /\ a_id a = [111] /\
    a_get_action a = AAppend /\ (0 < Actions.count_occ (a_id a) (occs c 1 its))%nat.
  Proof.
    eexists. split; [vm_compute; reflexivity|]. split; [apply (get_long_in c [111; 112; 116]); vm_compute; reflexivity|].
    split; [reflexivity|]. split; [reflexivity|]. vm_compute. repeat constructor.
  Qed.
  (** a state between two items in which an option is still open *)
  Example ex_open_state : items_pst c PSValuesDone 1 [ItLongSep [109; 117] [[65]]] = PSOpt [109]
                          /\ pst_ok c (PSOpt [109])
                          /\ items_pst c PSValuesDone 1 [ItPos [[70]]; ItPos [[82]]] = PSPos [114]
                          /\ items_pos c 1 its = 2.
  Proof. split; [vm_compute; reflexivity|]. split; [eexists; vm_compute; reflexivity|]. split; vm_compute; reflexivity. Qed.

  (** a tree: prog -v -q/--qu -o/--opt <v>;  subcommand run (alias go): -x (SetTrue), --name <v> (Set), <file>
      line: prog --qu -voA go -x --name=V F *)
  Definition x : arg := (arg_new [120]) <| a_short := Some 120 |> <| a_action := Some ASetTrue |>.
  Definition nm : arg := (arg_new [110]) <| a_long := Some [110; 97; 109; 101] |> <| a_action := Some ASet |>.
  Definition run : cmd := (cmd_new [114; 117; 110]) <| c_aliases := [([103; 111], true)] |> <| c_args := [x; nm; f] |>.
  Definition t0 : cmd := (cmd_new [112]) <| c_args := [v; q; o] |> <| c_subs := [run] |>.
  Definition tinv : inv :=
    ISub [ItLong [113; 117]; ItCluster [118] (TAtt 111 [65])] [103; 111]
         (ILeaf [ItCluster [120] TNone; ItLongEq [110; 97; 109; 101] [86]; ItPos [[70]]]).
  Definition tbin : bytes := [112].
  Example ex_tree_valid : valid (with_bin t0 tbin) = true. Proof. vm_compute. reflexivity. Qed.
  Example ex_tree_nobin : is_set s_no_binary_name t0 = false. Proof. reflexivity. Qed.
  Example ex_tree_wf : wf_inv (build_self (with_bin t0 tbin)) tinv = true. Proof. vm_compute. reflexivity. Qed.
  Example ex_tree_render : render_inv tinv =
    [[45; 45; 113; 117]; [45; 118; 111; 65]; [103; 111]; [45; 120]; [45; 45; 110; 97; 109; 101; 61; 86]; [70]].
  Proof. vm_compute. reflexivity. Qed.
  Example ex_tree_no_globals :
    no_globals (build_recursive (S (S (depth (build_self (with_bin t0 tbin))))) (with_bin t0 tbin)) = true.
  Proof. vm_compute. reflexivity. Qed.
  Example ex_tree_run : exists st, run_inv (build_self (with_bin t0 tbin)) tinv = ROk st.
  Proof. eexists. vm_compute. reflexivity. Qed.
  Definition raw_of (i : id) (m : matches) : option groups := opt_map m_raw (fm_get i (ms_args m)).
  Example ex_tree_parse : exists m sm,
    parse_top t0 (tbin :: render_inv tinv) = OOk m /\ ms_sub m = Some ([114; 117; 110], sm) /\
    raw_of [111] m = Some [[[65]]] /\ raw_of [118] m = Some [[[49]]] /\
    raw_of [120] sm = Some [[s_true]] /\ raw_of [110] sm = Some [[[86]]] /\ raw_of [102] sm = Some [[[70]]].
  Proof. eexists. eexists. split; [vm_compute; reflexivity|]. repeat split. Qed.

  (** indices of the one-level example: --qu F -vvoAB --opt=== --mu A B,C -vm A -s= R S --yy -v T *)
  Definition idx_after (toks : list bytes) (i : id) : option (option (list N)) :=
    match get_matches_with 3 c toks ps_new with ROk st => Some (idx_of i (mt st)) | _ => None end.
  Example ex_idx :
    denote_idx c [111] its = Some [6; 8] /\ idx_after (render its) [111] = Some (Some [6; 8]) /\
    denote_idx c [109] its = Some [10; 11; 12; 15] /\ idx_after (render its) [109] = Some (Some [10; 11; 12; 15]) /\
    denote_idx c [114] its = Some [18; 19; 23] /\ idx_after (render its) [114] = Some (Some [18; 19; 23]) /\
    denote_idx c [118] its = Some [22] /\ idx_after (render its) [118] = Some (Some [22]) /\
    denote_idx c [101] its = Some [24] /\ idx_after (render its) [101] = Some (Some [24]).
  Proof. vm_compute. repeat split; reflexivity. Qed.
  Example ex_events : events c its =
    [([113], [1]); ([102], [2]); ([118], [3]); ([118], [4]); ([111], [6]); ([111], [8]); ([109], [10; 11; 12]);
     ([118], [13]); ([109], [15]); ([115], [17]); ([114], [18; 19]); ([121], [21]); ([118], [22]); ([114], [23]); ([101], [24])].
  Proof. vm_compute. reflexivity. Qed.

  (** [--] and what follows: prog --qu --mu A -- F -x R   (after [--] the token [-x] is a value) *)
  Definition trinv : inv := ITrail [ItLong [113; 117]; ItLongSep [109; 117] [[65]]] [[70]; [45; 120]; [82]].
  Example ex_trail_valid : valid_tree 3 c = true. Proof. vm_compute. reflexivity. Qed.
  Example ex_trail_wf : wf_inv c trinv = true. Proof. vm_compute. reflexivity. Qed.
  Example ex_trail_render : render_inv trinv = [[45; 45; 113; 117]; [45; 45; 109; 117]; [65]; [45; 45]; [70]; [45; 120]; [82]].
  Proof. vm_compute. reflexivity. Qed.
  Example ex_trail_parse :
    groups_after (render_inv trinv) [109] = Some (Some [[[65]]]) /\
    groups_after (render_inv trinv) [102] = Some (Some [[[70]]]) /\
    groups_after (render_inv trinv) [114] = Some (Some [[[45; 120]; [82]]]) /\
    idx_after (render_inv trinv) [114] = Some (Some [5; 6]) /\
    denote_os c [114] (inv_occs c trinv) = Some [[[45; 120]; [82]]] /\
    denote_idx_os c [114] (inv_occs c trinv) = Some [5; 6].
  Proof. vm_compute. repeat split; reflexivity. Qed.
End UnparseEx.
