(** Property C05, round 2: [fill_in_global_values] (the propagation of global arguments that
    [do_parse] applies to a successful result) writes only entries whose id is in the list it is given
    ([fill_spec]), and that list contains only ids of global arguments of the tree ([used_in_all]). *)
From ClapModel Require Import Base.Bytes Base.Machine Base.Utf8 Lex.OsStrExtModel.
From ClapModel Require Import Parse.Cmd Parse.Build Parse.Valid Parse.Matcher Parse.Errors Parse.Validator Parse.Parser.
From ClapModel Require Import ParseProofs.Safe ParseProofs.Escape.
From Coq Require Import ZArith Lia List Bool.
From RecordUpdate Require Import RecordSet.
Import RecordSetNotations.
Import ListNotations.
Open Scope N_scope.

(** * [fill_in_global_values] only writes entries of global arguments *)
Section FillFrame.
Variable gl : list id.      (* ids that may be written *)
Variable gs : list id.      (* the list handed to [fill_in_global_values] *)
Hypothesis Hgs : forall g, In g gs -> mem_id g gl = true.

Lemma fm_get_insert_other {V} k y (v : V) l : beq k y = false -> fm_get y (fm_insert k v l) = fm_get y l.
Proof. intros H. unfold fm_insert. destruct (fm_contains k l); [apply fm_get_update_other|apply fm_get_app_other]; exact H. Qed.

Definition keys_in (vm : list (id * marg)) : Prop := forall p, In p vm -> mem_id (fst p) gl = true.

Lemma fm_insert_keys {V} k (v : V) (l : list (id * V)) (p : id * V) : In p (fm_insert k v l) -> (exists p0, In p0 l /\ fst p0 = fst p) \/ fst p = k.
Proof.
  unfold fm_insert. destruct (fm_contains k l).
  - destruct p as [k' v']. intros H. destruct (fm_update_in _ _ _ _ _ H) as [H1|(v0 & H1 & _)]; left; eexists; split; try eassumption; reflexivity.
  - intros H. apply in_app_or in H. destruct H as [H|[H|[]]]; [left; exists p; auto|right; subst p; reflexivity].
Qed.

Lemma keys_in_insert vm g v : keys_in vm -> mem_id g gl = true -> keys_in (fm_insert g v vm).
Proof.
  intros Hk Hg p Hp. destruct (fm_insert_keys _ _ _ _ Hp) as [(p0 & H0 & E)|E]; [rewrite <- E; apply Hk; exact H0|rewrite E; exact Hg].
Qed.

Lemma not_in_beq y (p : id * marg) : mem_id y gl = false -> mem_id (fst p) gl = true -> beq (fst p) y = false.
Proof. intros Hy Hp. destruct (beq (fst p) y) eqn:E; [|reflexivity]. apply beq_eq in E. rewrite E in Hp. congruence. Qed.

Lemma fold_insert_other : forall vm args y, keys_in vm -> mem_id y gl = false ->
  fm_get y (fold_left (fun args p => fm_insert (fst p) (snd p) args) vm args) = fm_get y args.
Proof.
  induction vm as [|p vm IH]; intros args y Hk Hy; [reflexivity|]. cbn [fold_left].
  rewrite IH; [|intros q Hq; apply Hk; right; exact Hq|exact Hy].
  apply fm_get_insert_other. apply not_in_beq; [exact Hy|apply Hk; left; reflexivity].
Qed.

(** the two matches trees agree on every entry that is not writable, level by level *)
Fixpoint sng (m m' : matches) : Prop :=
  match m, m' with
  | Matches a s, Matches a' s' =>
      (forall y, mem_id y gl = false -> fm_get y a' = fm_get y a)
      /\ match s, s' with
         | None, None => True
         | Some (n, sm), Some (n', sm') => n = n' /\ sng sm sm'
         | _, _ => False
         end
  end.

Lemma sng_refl : forall m, sng m m.
Proof.
  fix IH 1. intros [a [[n sm]|]]; cbn [sng]; (split; [intros; reflexivity|]).
  - split; [reflexivity|apply IH].
  - exact I.
Qed.

Lemma vals_fold_keys (m : matches) : forall l vm, (forall g, In g l -> In g gs) -> keys_in vm ->
  keys_in (fold_left (fun vm g =>
             match fm_get g (ms_args m) with
             | Some ma =>
                 let to_update :=
                   match fm_get g vm with
                   | Some parent_ma =>
                       let gt := match m_source parent_ma, m_source ma with
                                 | Some a, Some b => src_gt a b
                                 | Some _, None => true
                                 | None, _ => false end in
                       if gt then parent_ma else ma
                   | None => ma
                   end in
                 fm_insert g to_update vm
             | None => vm
             end) l vm).
Proof.
  induction l as [|g l IH]; intros vm Hl Hk; [exact Hk|]. cbn [fold_left].
  apply IH; [intros g' Hg'; apply Hl; right; exact Hg'|].
  destruct (fm_get g (ms_args m)); [|exact Hk].
  apply keys_in_insert; [exact Hk|apply Hgs, Hl; left; reflexivity].
Qed.

Lemma fill_spec : forall f m vm, keys_in vm ->
  keys_in (snd (fill_in_global_values f gs m vm)) /\ sng m (fst (fill_in_global_values f gs m vm)).
Proof.
  induction f as [|f IH]; intros m vm Hk; [split; [exact Hk|apply sng_refl]|].
  cbn [fill_in_global_values].
  match goal with |- context [fold_left ?F gs vm] => set (vm1 := fold_left F gs vm) end.
  assert (Hk1 : keys_in vm1) by (subst vm1; apply vals_fold_keys; [auto|exact Hk]).
  destruct m as [args [[name sm]|]]; cbn [ms_sub ms_args].
  - destruct (IH sm vm1 Hk1) as [Hk2 Hs]. destruct (fill_in_global_values f gs sm vm1) as [sm' vm2]. cbn [fst snd] in *.
    split; [exact Hk2|]. cbn [sng]. split; [|split; [reflexivity|exact Hs]].
    intros y Hy. apply fold_insert_other; assumption.
  - cbn [fst snd]. split; [exact Hk1|]. cbn [sng]. split; [|exact I].
    intros y Hy. apply fold_insert_other; assumption.
Qed.
End FillFrame.

(** every id [used_global_args] returns is the id of a global argument somewhere in the tree *)
Fixpoint all_globals (c : cmd) : list id :=
  match c with
  | mkCmd _ _ _ _ _ _ args _ subs _ _ _ _ _ _ _ _ _ =>
      map a_id (filter a_global args)
      ++ (fix go (l : list cmd) : list id := match l with [] => [] | s :: t => all_globals s ++ go t end) subs
  end.

Lemma all_globals_unfold c : all_globals c = map a_id (filter a_global (c_args c)) ++ flat_map all_globals (c_subs c).
Proof.
  destruct c as [? ? ? ? ? ? args ? subs ? ? ? ? ? ? ? ? ?]. reflexivity.
Qed.

Lemma used_in_all : forall n c m g, In g (used_global_args n c m) -> In g (all_globals c).
Proof.
  induction n as [|n IH]; intros c m g H; [destruct H|]. cbn [used_global_args] in H.
  rewrite all_globals_unfold. apply in_app_or in H. apply in_or_app. destruct H as [H|H]; [left; exact H|right].
  destruct (ms_sub m) as [[name sm]|]; [|destruct H].
  destruct (find_subcommand c name) as [sc|] eqn:Ef; [|destruct H].
  apply in_flat_map. exists sc. split; [|exact (IH _ _ _ H)].
  unfold find_subcommand in Ef. exact (proj1 (List.find_some _ _ Ef)).
Qed.

Lemma in_mem_id g l : In g l -> mem_id g l = true.
Proof. intros H. unfold mem_id. apply existsb_exists. exists g. split; [exact H|apply beq_refl]. Qed.
