(** C10: rejections are justified -- per error site of the parser model, the kind names a rule
    the input really breaks, and inputs that break no rule of that site are not rejected.

    Sites covered here, each for ALL inputs of the model:
    - [verify_num_args]   (value count per occurrence: InvalidValue(empty) / WrongNumberOfValues /
                           TooFewValues / TooManyValues) -- sound and complete
    - [vp_parse], [push_arg_values]  (value outside the parser's language) -- sound and complete
    - [react_core]        (classification of every error the reaction to one occurrence raises)
    - [parse_long_arg], [short_loop], [match_arg_error]  (unknown token triage)
    - [validate]          (ArgumentConflict: an explicitly present conflicting pair / exclusive
                           argument; MissingRequiredArgument: not explicitly present and required
                           by a rule) *)
From ClapModel Require Import Base.Bytes Base.Machine Base.Utf8 Lex.OsStrExtModel.
From ClapModel Require Import Parse.Cmd Parse.Build Parse.Valid Parse.Matcher Parse.Errors Parse.Validator Parse.Parser.
From ClapModel Require Value.ValueBase Value.IntFactory Value.BoolParse Value.PossibleValues.
From ClapModel Require ParseProofs.VpKinds.
From Coq Require Import ZArith Lia Bool List.
From RecordUpdate Require Import RecordSet.
Import RecordSetNotations.
Import ListNotations.
Open Scope N_scope.

(** * 1. value count: [verify_num_args] *)

(** the declared range of an argument accepts [n] values *)
Definition count_in_range (r : vrange) (n : N) : Prop := vmin r <= n /\ n <= vmax r.

(** what each count kind claims about the number of values [n] of the occurrence *)
Definition count_breaks (k : ekind) (r : vrange) (n : N) : Prop :=
  match k with
  | EInvalidValue => n = 0 /\ 0 < vmin r                         (* empty_value: no value, at least one needed *)
  | EWrongNumberOfValues => vmin r = vmax r /\ n <> vmin r        (* fixed count, different number given *)
  | ETooFewValues => vmin r <> vmax r /\ n < vmin r
  | ETooManyValues => vmin r <> vmax r /\ vmax r < n
  | _ => False
  end.

Lemma count_breaks_out_of_range k r n : count_breaks k r n -> ~ count_in_range r n.
Proof. unfold count_in_range. destruct k; cbn; try tauto; lia. Qed.

Theorem verify_num_args_sound c a raw st e st' :
  verify_num_args c a raw st = RErr e st' ->
  exists r, a_num a = Some r /\ st' = st /\ e_arg e = a_id a /\ is_set s_ignore_errors c = false /\
            In (e_kind e) [EInvalidValue; EWrongNumberOfValues; ETooFewValues; ETooManyValues] /\
            count_breaks (e_kind e) r (N.of_nat (length raw)).
Proof.
  unfold verify_num_args. destruct (is_set s_ignore_errors c); [discriminate|].
  destruct (a_num a) as [r|]; cbn [expect rbind]; [|discriminate].
  intros H. exists r. split; [reflexivity|].
  assert (Hfin : forall k, In k [EInvalidValue; EWrongNumberOfValues; ETooFewValues; ETooManyValues] ->
            count_breaks k r (N.of_nat (length raw)) ->
            st = st /\ e_arg (mkerr c k (a_id a)) = a_id a /\ false = false /\
            In (e_kind (mkerr c k (a_id a))) [EInvalidValue; EWrongNumberOfValues; ETooFewValues; ETooManyValues] /\
            count_breaks (e_kind (mkerr c k (a_id a))) r (N.of_nat (length raw))).
  { intros k Hk Hb. cbn [e_kind e_arg mkerr]. repeat (split; [reflexivity|]). split; assumption. }
  destruct ((0 <? vmin r) && (N.of_nat (length raw) =? 0)) eqn:E0.
  - injection H as <- <-. apply andb_true_iff in E0. destruct E0 as [E1 E2].
    apply N.ltb_lt in E1. apply N.eqb_eq in E2. apply Hfin; [cbn; tauto|]. cbn. split; assumption.
  - unfold r_num_values, r_is_fixed in H. destruct (vmin r =? vmax r) eqn:Ef.
    + apply N.eqb_eq in Ef. destruct (negb (vmin r =? N.of_nat (length raw))) eqn:En; [|discriminate].
      injection H as <- <-. apply negb_true_iff, N.eqb_neq in En. apply Hfin; [cbn; tauto|]. cbn. split; [exact Ef|congruence].
    + apply N.eqb_neq in Ef. destruct (N.of_nat (length raw) <? vmin r) eqn:El.
      * injection H as <- <-. apply N.ltb_lt in El. apply Hfin; [cbn; tauto|]. cbn. split; assumption.
      * destruct (vmax r <? N.of_nat (length raw)) eqn:Eg; [|discriminate].
        destruct raw as [|r0 rt]; [discriminate|]. injection H as <- <-. apply N.ltb_lt in Eg.
        apply Hfin; [cbn; tauto|]. cbn [count_breaks]. split; assumption.
Qed.

(** a rejected count really is outside the declared range *)
Corollary verify_num_args_justified c a raw st e st' r :
  verify_num_args c a raw st = RErr e st' -> a_num a = Some r ->
  ~ count_in_range r (N.of_nat (length raw)).
Proof.
  intros H Hr. destruct (verify_num_args_sound _ _ _ _ _ _ H) as [r' [Hr' [_ [_ [_ [_ Hb]]]]]].
  rewrite Hr in Hr'. injection Hr' as <-. eapply count_breaks_out_of_range, Hb.
Qed.

(** no spurious rejection: a count within the declared range is accepted *)
Theorem verify_num_args_complete c a raw st r :
  a_num a = Some r -> count_in_range r (N.of_nat (length raw)) -> verify_num_args c a raw st = ROk tt.
Proof.
  intros Hr [Hlo Hhi]. unfold verify_num_args. destruct (is_set s_ignore_errors c); [reflexivity|].
  rewrite Hr. cbn [expect rbind].
  destruct ((0 <? vmin r) && (N.of_nat (length raw) =? 0)) eqn:E0.
  - apply andb_true_iff in E0. destruct E0 as [E1 E2]. apply N.ltb_lt in E1. apply N.eqb_eq in E2. lia.
  - unfold r_num_values, r_is_fixed. destruct (vmin r =? vmax r) eqn:Ef.
    + apply N.eqb_eq in Ef. assert (En : vmin r =? N.of_nat (length raw) = true) by (apply N.eqb_eq; lia).
      rewrite En. reflexivity.
    + assert (El : N.of_nat (length raw) <? vmin r = false) by (apply N.ltb_ge; lia).
      assert (Eg : vmax r <? N.of_nat (length raw) = false) by (apply N.ltb_ge; lia).
      rewrite El, Eg. reflexivity.
Qed.

(** the boundary cases, on both sides (non-vacuity of soundness and completeness) *)
Definition ex_arg (lo hi : N) : arg := (arg_new [111]) <| a_num := Some {| vmin := lo; vmax := hi |} |>.
Example verify_boundaries :
  let c := cmd_new [112] in
  let k r := match r with RErr e _ => Some (e_kind e) | ROk _ => None | RPanic _ => None end in
  k (verify_num_args c (ex_arg 2 4) [[1]] ps_new) = Some ETooFewValues /\
  k (verify_num_args c (ex_arg 2 4) [[1]; [1]] ps_new) = None /\
  k (verify_num_args c (ex_arg 2 4) [[1]; [1]; [1]; [1]] ps_new) = None /\
  k (verify_num_args c (ex_arg 2 4) [[1]; [1]; [1]; [1]; [1]] ps_new) = Some ETooManyValues /\
  k (verify_num_args c (ex_arg 2 2) [[1]] ps_new) = Some EWrongNumberOfValues /\
  k (verify_num_args c (ex_arg 2 2) [[1]; [1]; [1]] ps_new) = Some EWrongNumberOfValues /\
  k (verify_num_args c (ex_arg 2 2) [[1]; [1]] ps_new) = None /\
  k (verify_num_args c (ex_arg 1 3) [] ps_new) = Some EInvalidValue /\
  k (verify_num_args c (ex_arg 0 1) [] ps_new) = None.
Proof. cbn. repeat split; reflexivity. Qed.

(** * 2. value language: [vp_parse], [push_arg_values] *)

(** the text of an integer: optional sign, at least one digit, nothing else *)
Fixpoint dec_value (d : bytes) (acc : Z) : Z :=
  match d with [] => acc | ch :: t => dec_value t (acc * 10 + Z.of_N (ch - 48))%Z end.
Definition i64_text (s : bytes) (z : Z) : Prop :=
  exists sign d, s = sign ++ d /\ (sign = [] \/ sign = [45] \/ sign = [43]) /\
                 d <> [] /\ forallb is_digit d = true /\
                 z = (if beq sign [45] then (- dec_value d 0)%Z else dec_value d 0) /\
                 in_i64 z = true.

Lemma digits_val_spec d : forall acc,
  digits_val d acc = if forallb is_digit d then Some (dec_value d acc) else None.
Proof.
  induction d as [|ch t IH]; intros acc; cbn [digits_val forallb dec_value]; [reflexivity|].
  destruct (is_digit ch); cbn [andb]; [apply IH|reflexivity].
Qed.

Definition sign_split (s : bytes) : bool * bytes :=
  match s with 45 :: d => (true, d) | 43 :: d => (false, d) | _ => (false, s) end.
Definition i64_body (p : bool * bytes) : option Z :=
  let '(neg, d) := p in
  match d with
  | [] => None
  | _ => match digits_val d 0%Z with
         | None => None
         | Some v => let v := if neg then (- v)%Z else v in if in_i64 v then Some v else None
         end
  end.
Lemma parse_i64_unfold s : parse_i64 s = i64_body (sign_split s).
Proof. reflexivity. Qed.

Lemma sign_split_spec s :
  (exists d, s = 45 :: d /\ sign_split s = (true, d)) \/
  (exists d, s = 43 :: d /\ sign_split s = (false, d)) \/
  (sign_split s = (false, s) /\ (forall d, s <> 45 :: d) /\ (forall d, s <> 43 :: d)).
Proof.
  destruct s as [|c0 t].
  - right; right. split; [reflexivity|split; intros d; discriminate].
  - destruct (N.eq_dec c0 45) as [->|N45]; [left; exists t; split; reflexivity|].
    destruct (N.eq_dec c0 43) as [->|N43]; [right; left; exists t; split; reflexivity|].
    right; right. split; [|split; intros d H; injection H as H _; contradiction].
    destruct c0 as [|p]; [reflexivity|].
    do 6 (destruct p as [p|p|]; try reflexivity); try (exfalso; apply N45; reflexivity);
      try (exfalso; apply N43; reflexivity).
Qed.

Lemma i64_body_spec neg d z :
  i64_body (neg, d) = Some z <->
  d <> [] /\ forallb is_digit d = true /\
  z = (if neg then (- dec_value d 0)%Z else dec_value d 0) /\ in_i64 z = true.
Proof.
  unfold i64_body. destruct d as [|d0 dt].
  - split; [discriminate|intros [H _]; contradiction H; reflexivity].
  - rewrite digits_val_spec. destruct (forallb is_digit (d0 :: dt)).
    + cbv zeta. split.
      * intros H. destruct (in_i64 (if neg then (- dec_value (d0 :: dt) 0)%Z else dec_value (d0 :: dt) 0)) eqn:Ei;
          [|discriminate]. injection H as <-. repeat split; [discriminate|exact Ei].
      * intros [_ [_ [-> Hi]]]. rewrite Hi. reflexivity.
    + split; [discriminate|intros [_ [H _]]; discriminate H].
Qed.

Lemma parse_i64_spec s z : parse_i64 s = Some z <-> i64_text s z.
Proof.
  rewrite parse_i64_unfold. unfold i64_text.
  destruct (sign_split_spec s) as [[d [-> Hs]]|[[d [-> Hs]]|[Hs [Hn45 Hn43]]]]; rewrite Hs, i64_body_spec.
  - split.
    + intros [H1 [H2 [H3 H4]]]. exists [45], d. repeat split; try assumption. right; left; reflexivity.
    + intros [sign [d' [Heq [Hsign [H1 [H2 [H3 H4]]]]]]].
      destruct Hsign as [-> | [-> | ->]]; cbn [app] in Heq.
      * subst d'. cbn in H2. discriminate H2.
      * injection Heq as <-. cbn in H3. repeat split; assumption.
      * discriminate Heq.
  - split.
    + intros [H1 [H2 [H3 H4]]]. exists [43], d. repeat split; try assumption. right; right; reflexivity.
    + intros [sign [d' [Heq [Hsign [H1 [H2 [H3 H4]]]]]]].
      destruct Hsign as [-> | [-> | ->]]; cbn [app] in Heq.
      * subst d'. cbn in H2. discriminate H2.
      * discriminate Heq.
      * injection Heq as <-. cbn in H3. repeat split; assumption.
  - split.
    + intros [H1 [H2 [H3 H4]]]. exists [], s. repeat split; try assumption. left; reflexivity.
    + intros [sign [d' [Heq [Hsign [H1 [H2 [H3 H4]]]]]]].
      destruct Hsign as [-> | [-> | ->]]; cbn [app] in Heq.
      * subst d'. cbn in H3. repeat split; assumption.
      * exfalso. apply (Hn45 d'). exact Heq.
      * exfalso. apply (Hn43 d'). exact Heq.
Qed.

(** the language of each value parser of the model *)
Definition in_lang (v : vparser) (s : bytes) : Prop :=
  match v with
  | VPString => utf8_valid s = true
  | VPOsString => True
  | VPBool => s = s_true \/ s = s_false
  | VPCount => utf8_valid s = true /\ exists z, i64_text s z /\ (0 <= z <= 255)%Z
  | VPI64 lo hi => utf8_valid s = true /\ exists z, i64_text s z /\ (lo <= z <= hi)%Z
  (* the parsers C04 models in depth: the language is "the C04 model answers [VOk]"; what that
     means per parser is C04's ([BoolParseProofs.boolish_parse_spec], [falsey_parse_spec],
     [nonempty_parse_spec], [PossibleValuesProofs.possible_parse_spec], [IntFactoryProofs.ranged_parse_ok]) *)
  | VPBoolish => exists b, ClapModel.Value.BoolParse.boolish_parse s = ClapModel.Value.ValueBase.VOk b
  | VPFalsey => exists b, ClapModel.Value.BoolParse.falsey_parse s = ClapModel.Value.ValueBase.VOk b
  | VPNonEmpty => exists s', ClapModel.Value.BoolParse.nonempty_parse s = ClapModel.Value.ValueBase.VOk s'
  | VPPossible ic pvs =>
      exists s', ClapModel.Value.PossibleValues.possible_parse clap_unicode ic (map fst pvs) s
                 = ClapModel.Value.ValueBase.VOk s'
  | VPRanged t lo hi =>
      exists z, ClapModel.Value.IntFactory.ranged_parse (ity_pkind t)
                  (ClapModel.Value.ValueBase.Included lo, ClapModel.Value.ValueBase.Included hi) t s
                = ClapModel.Value.ValueBase.VOk z
  end.

Lemma vres_kind_none {A} (r : ClapModel.Value.ValueBase.vresult A) :
  vres_kind r = None <-> exists a, r = ClapModel.Value.ValueBase.VOk a.
Proof.
  destruct r as [a|k]; cbn [vres_kind].
  - split; [intros _; exists a; reflexivity|reflexivity].
  - split; [discriminate|intros [a H]; discriminate H].
Qed.

Lemma vres_kind_some {A} (r : ClapModel.Value.ValueBase.vresult A) k :
  vres_kind r = Some k -> exists k', r = ClapModel.Value.ValueBase.VErr k' /\ k = ek_of k'.
Proof.
  destruct r as [a|k']; cbn [vres_kind]; [discriminate|]. intros H; injection H as <-. exists k'. split; reflexivity.
Qed.

Lemma ek_of_kinds k' : In (ek_of k') [EInvalidUtf8; EInvalidValue; EValueValidation].
Proof. destruct k'; cbn; tauto. Qed.

Lemma ek_of_utf8 k' : ek_of k' = EInvalidUtf8 -> k' = ClapModel.Value.ValueBase.InvalidUtf8.
Proof. destruct k'; cbn [ek_of]; [reflexivity|discriminate|discriminate]. Qed.

Lemma ranged_spec lo hi s :
  (if negb (utf8_valid s) then Some EInvalidUtf8
   else match parse_i64 s with
        | Some z => if ((lo <=? z) && (z <=? hi))%Z then None else Some EValueValidation
        | None => Some EValueValidation end) = None
  <-> utf8_valid s = true /\ exists z, i64_text s z /\ (lo <= z <= hi)%Z.
Proof.
  destruct (utf8_valid s); cbn [negb]; [|split; [discriminate|intros [H _]; discriminate H]].
  destruct (parse_i64 s) as [z|] eqn:E.
  - apply parse_i64_spec in E. destruct ((lo <=? z)%Z && (z <=? hi)%Z) eqn:Er.
    + split; [intros _|reflexivity]. split; [reflexivity|]. exists z. split; [exact E|].
      apply andb_true_iff in Er. destruct Er as [E1 E2]. apply Z.leb_le in E1. apply Z.leb_le in E2. lia.
    + split; [discriminate|]. intros [_ [z' [Hz' Hr]]]. apply parse_i64_spec in Hz'. apply parse_i64_spec in E.
      rewrite E in Hz'. injection Hz' as <-.
      assert ((lo <=? z)%Z && (z <=? hi)%Z = true).
      { apply andb_true_iff. split; apply Z.leb_le; lia. }
      congruence.
  - split; [discriminate|]. intros [_ [z [Hz _]]]. apply parse_i64_spec in Hz. congruence.
Qed.

(** accepted exactly when the value is in the parser's language: no spurious rejection,
    no rejection without cause *)
Theorem vp_parse_accepts_iff v s : vp_parse v s = None <-> in_lang v s.
Proof.
  destruct v as [| | | |lo hi| | | |ic pvs|t lo hi]; cbn [vp_parse in_lang].
  - destruct (utf8_valid s); split; try reflexivity; try discriminate; intros H; exact H.
  - tauto.
  - destruct (beq s s_true) eqn:E1; [|destruct (beq s s_false) eqn:E2]; cbn [orb].
    + apply beq_eq in E1. split; [intros _; left; exact E1|reflexivity].
    + apply beq_eq in E2. split; [intros _; right; exact E2|reflexivity].
    + apply beq_neq in E1. apply beq_neq in E2. split; [discriminate|tauto].
  - apply (ranged_spec 0 255).
  - apply ranged_spec.
  - apply vres_kind_none.
  - apply vres_kind_none.
  - apply vres_kind_none.
  - apply vres_kind_none.
  - apply vres_kind_none.
Qed.

(** the C04 parsers: one of the three value-error kinds, [InvalidUtf8] only for ill-formed input (VpKinds.v:
    from the definitions of the models; nothing about the regenerated tables is used) *)
Lemma vp_parse_reject_value v s k :
  match v with VPBoolish | VPFalsey | VPNonEmpty | VPPossible _ _ | VPRanged _ _ _ => True | _ => False end ->
  vp_parse v s = Some k ->
  In k [EInvalidUtf8; EInvalidValue; EValueValidation] /\ (k = EInvalidUtf8 -> utf8_valid s = false).
Proof.
  intros _ H. split.
  - destruct (ClapModel.ParseProofs.VpKinds.vp_parse_value_kind v s k H) as [->|[->| ->]]; cbn; tauto.
  - intros ->. exact (ClapModel.ParseProofs.VpKinds.vp_parse_utf8_kind v s H).
Qed.

Theorem vp_parse_reject_sound v s k :
  vp_parse v s = Some k ->
  ~ in_lang v s /\ In k [EInvalidUtf8; EInvalidValue; EValueValidation] /\
  (k = EInvalidUtf8 -> utf8_valid s = false).
Proof.
  intros H. pose proof (fun Hv => vp_parse_reject_value v s k Hv H) as HV. split; [|split].
  - intros Hl. apply vp_parse_accepts_iff in Hl. congruence.
  - destruct v as [| | | |lo hi| | | |ic pvs|t lo hi];
      try (exact (proj1 (HV I))); clear HV; cbn [vp_parse] in H;
      repeat match type of H with
             | (if ?x then _ else _) = _ => destruct x
             | match ?x with _ => _ end = _ => destruct x
             end; try discriminate H; injection H as <-; cbn; tauto.
  - destruct v as [| | | |lo hi| | | |ic pvs|t lo hi];
      try (exact (proj2 (HV I))); clear HV;
      intros ->; cbn [vp_parse] in H; destruct (utf8_valid s); try reflexivity; cbn [negb] in H;
      repeat match type of H with
             | (if ?x then _ else _) = _ => destruct x
             | match ?x with _ => _ end = _ => destruct x
             end; discriminate H.
Qed.

(** [push_arg_values] rejects only because one of the pushed values is outside the language of the
    argument's value parser, and reports the kind the value parser gave *)
Theorem push_arg_values_sound c a : forall raw st e st',
  push_arg_values c a raw st = RErr e st' ->
  exists vp v, a_vp a = Some vp /\ In v raw /\ vp_parse vp v = Some (e_kind e) /\
               ~ in_lang vp v /\ e_arg e = a_id a.
Proof.
  induction raw as [|v t IH]; intros st e st'; cbn [push_arg_values]; [discriminate|].
  destruct (a_vp a) as [vp|]; cbn [expect rbind]; [|discriminate].
  destruct (vp_parse vp v) as [k|] eqn:Ev.
  - intros H; injection H as <- <-. exists vp, v. repeat split; try reflexivity; [left; reflexivity|exact Ev|].
    apply (vp_parse_reject_sound _ _ _ Ev).
  - destruct (add_val_to _ _ _); cbn [expect rbind]; [|discriminate].
    destruct (add_index_to _ _ _); cbn [expect rbind]; [|discriminate].
    intros H. destruct (IH _ _ _ H) as [vp' [v' [H1 [H2 H3]]]].
    exists vp', v'. split; [exact H1|]. split; [right; exact H2|exact H3].
Qed.

(** values all in the language: never a value error *)
Theorem push_arg_values_complete c a : forall raw st e st' vp,
  a_vp a = Some vp -> (forall v, In v raw -> in_lang vp v) -> push_arg_values c a raw st <> RErr e st'.
Proof.
  intros raw st e st' vp Hvp Hall H. destruct (push_arg_values_sound _ _ _ _ _ _ H) as [vp' [v [H1 [H2 [_ [H4 _]]]]]].
  rewrite Hvp in H1. injection H1 as <-. apply H4, Hall, H2.
Qed.

Example vp_reject_example : vp_parse (VPI64 (-5) 300) [51; 48; 49] = Some EValueValidation.   (* "301" *)
Proof. reflexivity. Qed.
Example vp_accept_example : vp_parse (VPI64 (-5) 300) [51; 48; 48] = None.                    (* "300" *)
Proof. reflexivity. Qed.
Example vp_accept_neg_example : vp_parse (VPI64 (-5) 300) [45; 53] = None.                     (* "-5" *)
Proof. reflexivity. Qed.
Example vp_reject_neg_example : vp_parse (VPI64 (-5) 300) [45; 54] = Some EValueValidation.    (* "-6" *)
Proof. reflexivity. Qed.

(** * 3. the reaction to one occurrence: [react_core] *)

Lemma fold_expect_not_err {A B} (f : A -> B -> res A) (l : list B) :
  (forall a b e st, f a b <> RErr e st) ->
  forall r, (forall e st, r <> RErr e st) ->
  forall e st, fold_left (fun rm b => do m <- rm; f m b) l r <> RErr e st.
Proof.
  intros Hf. induction l as [|b t IH]; intros r Hr e st; cbn [fold_left]; [apply Hr|].
  apply IH. intros e' st'. destruct r as [a|e0 st0|s]; cbn [rbind].
  - apply Hf. - exfalso. apply (Hr e0 st0). reflexivity. - discriminate.
Qed.

Lemma start_custom_arg_not_err c a s m e st : start_custom_arg c a s m <> RErr e st.
Proof.
  unfold start_custom_arg. destruct (src_explicit s); [|discriminate].
  apply (fold_expect_not_err (fun m g => expect 1533 (add_val_to (start_custom_group_m m g s) g (a_id a)))).
  - intros m0 g e0 st0. destruct (add_val_to _ _ _); cbn; discriminate.
  - discriminate.
Qed.

Lemma fm_remove_contains {V} k (l : list (id * V)) : snd (fm_remove k l) = fm_contains k l.
Proof.
  unfold fm_contains. induction l as [|[k' v] t IH]; cbn [fm_remove fm_get]; [reflexivity|].
  destruct (beq k' k); [reflexivity|]. destruct (fm_remove k t) as [t' b]. cbn [snd] in *. exact IH.
Qed.

(** why the reaction to one occurrence of [a] (values [raw], source [s]) was an error *)
Inductive react_cause (c : cmd) (a : arg) (s : src) (raw : list bytes) (st : ps) (e : error) : Prop :=
| RCCount :                     (* the number of values of the occurrence is outside the declared range *)
    s = SCmdLine -> (exists st', verify_num_args c a raw st = RErr e st') -> react_cause c a s raw st e
| RCRepeat :                    (* a non-repeatable argument that is already present, without self-override *)
    e_kind e = EArgumentConflict -> e_arg e = a_id a ->
    mt_contains (mt st) (a_id a) = true ->
    (is_set s_args_override_self c || mem_id (a_id a) (a_overrides a)) = false ->
    In (a_get_action a) [ASet; ASetTrue; ASetFalse] -> react_cause c a s raw st e
| RCValue :                     (* a value outside the language of the argument's value parser *)
    (exists vp v, a_vp a = Some vp /\ vp_parse vp v = Some (e_kind e) /\ ~ in_lang vp v) ->
    e_arg e = a_id a -> react_cause c a s raw st e
| RCHelp :
    e_kind e = EDisplayHelp -> In (a_get_action a) [AHelp; AHelpShort; AHelpLong] -> react_cause c a s raw st e
| RCVersion :
    e_kind e = EDisplayVersion -> a_get_action a = AVersion -> react_cause c a s raw st e.

Lemma push_cause c a s raw0 st0 raw st e st' :
  push_arg_values c a raw st = RErr e st' -> react_cause c a s raw0 st0 e.
Proof.
  intros H. destruct (push_arg_values_sound _ _ _ _ _ _ H) as [vp [v [H1 [_ [H3 [H4 H5]]]]]].
  apply RCValue; [exists vp, v; repeat split; assumption|exact H5].
Qed.

Lemma mt_remove_snd m i : snd (mt_remove m i) = mt_contains m i.
Proof.
  unfold mt_remove, mt_contains. rewrite <- fm_remove_contains.
  destruct (fm_remove i (mt_args m)) as [l b]. reflexivity.
Qed.

Lemma expect_not_err {A} site (o : option A) e st : expect site o <> RErr e st.
Proof. destruct o; discriminate. Qed.

(** the common tail of the Set / SetTrue / SetFalse branches *)
Lemma set_like_cause c a s raw0 st0 (stb : ps) raw e st' :
  mt stb = mt st0 ->
  In (a_get_action a) [ASet; ASetTrue; ASetFalse] ->
  (let '(m1, removed) := mt_remove (mt stb) (a_id a) in
   if removed && negb (is_set s_args_override_self c || mem_id (a_id a) (a_overrides a))
   then RErr (mkerr c EArgumentConflict (a_id a)) (stb <| mt := m1 |>)
   else do m2 <- start_custom_arg c a s m1;
        do st' <- push_arg_values c a raw (stb <| mt := m1 |> <| mt := m2 |>);
        ROk (st', PRValuesDone)) = RErr e st' ->
  react_cause c a s raw0 st0 e.
Proof.
  intros Hmt Hact H.
  pose proof (mt_remove_snd (mt stb) (a_id a)) as Hs.
  destruct (mt_remove (mt stb) (a_id a)) as [m1 removed]. cbn [snd] in Hs.
  destruct (removed && negb (is_set s_args_override_self c || mem_id (a_id a) (a_overrides a))) eqn:Ec.
  - injection H as <- _. apply andb_true_iff in Ec. destruct Ec as [E1 E2]. subst removed.
    apply RCRepeat; try reflexivity; [rewrite <- Hmt; symmetry; exact Hs|apply negb_true_iff in E2; exact E2|exact Hact].
  - destruct (start_custom_arg c a s m1) as [m2|e1 s1|p1] eqn:Esc; cbn [rbind] in H.
    + destruct (push_arg_values c a raw _) as [s2|e2 s2|p2] eqn:Ep; cbn [rbind] in H; try discriminate H.
      injection H as <- _. eapply push_cause, Ep.
    + exfalso. eapply start_custom_arg_not_err, Esc.
    + discriminate H.
Qed.

Theorem react_core_err_sound c idn s a raw ti st e st' :
  react_core c idn s a raw ti st = RErr e st' -> react_cause c a s raw st e.
Proof.
  unfold react_core. intros H.
  destruct (if is_cmdline s then verify_num_args c a raw st else ROk tt) as [[]|e0 s0|p0] eqn:Ev; cbn [rbind] in H.
  2:{ injection H as <- <-. destruct (is_cmdline s) eqn:Es; [|discriminate Ev].
      apply RCCount; [destruct s; try discriminate Es; reflexivity|exists s0; exact Ev]. }
  2:{ discriminate H. }
  match type of H with (let '(_, _) := ?p in _) = _ => destruct p as [raw1 ti1] end.
  destruct (expect 1184 (delimit c a raw1 ti1)) as [raw2|e1 s1|p1] eqn:Ed; cbn [rbind] in H;
    [|exfalso; eapply expect_not_err, Ed|discriminate H].
  destruct (a_get_action a) eqn:Eact.
  - eapply set_like_cause; [| |exact H]; [destruct (_ && _ && _); reflexivity|rewrite Eact; cbn; auto].
  - destruct (start_custom_arg c a s _) as [m2|e2 s2|p2] eqn:Esc; cbn [rbind] in H.
    + destruct (push_arg_values c a raw2 _) as [s3|e3 s3|p3] eqn:Ep; cbn [rbind] in H; try discriminate H.
      injection H as <- _. eapply push_cause, Ep.
    + exfalso. eapply start_custom_arg_not_err, Esc.
    + discriminate H.
  - eapply set_like_cause; [| |exact H]; [destruct (_ && _ && _); reflexivity|rewrite Eact; cbn; auto].
  - eapply set_like_cause; [| |exact H]; [destruct (_ && _ && _); reflexivity|rewrite Eact; cbn; auto].
  - destruct (mt_remove (mt st) (a_id a)) as [m1 rem].
    destruct (start_custom_arg c a s m1) as [m2|e2 s2|p2] eqn:Esc; cbn [rbind] in H.
    + destruct (push_arg_values c a _ _) as [s3|e3 s3|p3] eqn:Ep; cbn [rbind] in H; try discriminate H.
      injection H as <- _. eapply push_cause, Ep.
    + exfalso. eapply start_custom_arg_not_err, Esc.
    + discriminate H.
  - injection H as <- _. apply RCHelp; [reflexivity|rewrite Eact; cbn; auto].
  - injection H as <- _. apply RCHelp; [reflexivity|rewrite Eact; cbn; auto].
  - injection H as <- _. apply RCHelp; [reflexivity|rewrite Eact; cbn; auto].
  - injection H as <- _. apply RCVersion; [reflexivity|exact Eact].
Qed.

(** [react] = [resolve_pending] (the reaction to the *pending* occurrence) then [react_core] *)
Theorem resolve_pending_err_sound c st e st' :
  resolve_pending c st = RErr e st' ->
  exists p a, mt_pending (mt st) = Some p /\ find_arg c (p_id p) = Some a /\
              react_cause c a SCmdLine (p_raw p) (st <| mt := (mt st) <| mt_pending := None |> |>) e.
Proof.
  unfold resolve_pending. destruct (mt_pending (mt st)) as [p|] eqn:Ep; [|discriminate].
  destruct (find_arg c (p_id p)) as [a|] eqn:Ea; cbn [expect rbind]; [|discriminate].
  destruct (react_core c (p_ident p) SCmdLine a (p_raw p) (p_trailing_idx p) _) as [x|e1 s1|p1] eqn:Er;
    cbn [rbind]; try discriminate.
  intros H; injection H as <- _. exists p, a. split; [reflexivity|split; [exact Ea|]]. eapply react_core_err_sound, Er.
Qed.

(** * 4. the validator: [validate] *)

(** [i] is an explicitly present entry of the matcher (an argument or a group) *)
Definition explicit_id (m : matcher) (i : id) : Prop := In i (map fst (explicit_entries m)).
(** [y] is among the direct conflicts [gather_direct_conflicts] computes for [x]: the ids [x]
    declares in [conflicts_with] / [overrides_with], the conflicts of the groups it belongs to,
    and the other members of its non-[multiple] groups *)
Definition directly_conflicts (c : cmd) (x y : id) : Prop :=
  exists l, gather_direct_conflicts c x = Some l /\ In y l.

Lemma first_err_in (l : list vres) k a : first_err l = VErr k a -> In (VErr k a) l.
Proof.
  induction l as [|x t IH]; cbn [first_err]; [discriminate|].
  destruct x; intros H; [right; apply IH, H|left; exact H|discriminate H].
Qed.

Lemma cwa_entries c m : forall pot,
  conflicts_with_args c m = Some pot ->
  forall k conf, In (k, conf) pot -> explicit_id m k /\ gather_direct_conflicts c k = Some conf.
Proof.
  unfold conflicts_with_args, explicit_id. induction (explicit_entries m) as [|p t IH]; cbn [fold_right map].
  - intros pot H; injection H as <-. intros k conf [].
  - intros pot H k conf Hin.
    destruct (fold_right _ (Some []) t) as [l|] eqn:El; [|discriminate H].
    destruct (gather_direct_conflicts c (fst p)) as [cf|] eqn:Eg; [|discriminate H].
    injection H as <-. destruct Hin as [Hin|Hin].
    + injection Hin as <- <-. split; [left; reflexivity|exact Eg].
    + destruct (IH l eq_refl k conf Hin) as [H1 H2]. split; [right; exact H1|exact H2].
Qed.

Lemma fm_get_in {V} k (l : list (id * V)) v : fm_get k l = Some v -> In (k, v) l.
Proof.
  induction l as [|[k' v'] t IH]; cbn [fm_get]; [discriminate|].
  destruct (beq k' k) eqn:E.
  - intros H; injection H as <-. apply beq_eq in E. subst k'. left; reflexivity.
  - intros H. right. apply IH, H.
Qed.

Lemma mem_id_in x l : mem_id x l = true -> In x l.
Proof.
  unfold mem_id. intros H. apply existsb_exists in H. destruct H as [y [Hy Hb]]. apply beq_eq in Hb. subst y. exact Hy.
Qed.

(** a non-empty result of [gather_conflicts] exhibits an explicitly present partner *)
Lemma gather_conflicts_sound c m pot n conf other :
  conflicts_with_args c m = Some pot ->
  gather_conflicts c pot n = Some conf -> In other conf ->
  explicit_id m other /\ other <> n /\ (directly_conflicts c n other \/ directly_conflicts c other n).
Proof.
  intros Hpot Hg Hin. unfold gather_conflicts in Hg.
  assert (Hmine : forall mine, match fm_get n pot with Some x => Some x | None => gather_direct_conflicts c n end = Some mine ->
                               gather_direct_conflicts c n = Some mine).
  { intros mine Hm. destruct (fm_get n pot) as [x|] eqn:Ef; [|exact Hm]. injection Hm as <-.
    apply fm_get_in in Ef. apply (cwa_entries _ _ _ Hpot) in Ef. tauto. }
  destruct (match fm_get n pot with Some x => Some x | None => gather_direct_conflicts c n end) as [mine|] eqn:Em;
    [|discriminate Hg].
  specialize (Hmine mine eq_refl). injection Hg as <-.
  apply in_flat_map in Hin. destruct Hin as [[o oconf] [Hop Hin]].
  destruct (cwa_entries _ _ _ Hpot _ _ Hop) as [Hexp Hgo].
  destruct (beq n o) eqn:Eno; [destruct Hin|]. apply beq_neq in Eno.
  apply in_app_or in Hin. destruct Hin as [Hin|Hin].
  - destruct (mem_id o mine) eqn:Emem; [|destruct Hin]. destruct Hin as [<-|[]].
    split; [exact Hexp|]. split; [congruence|]. left. exists mine. split; [exact Hmine|apply mem_id_in, Emem].
  - destruct (mem_id n oconf) eqn:Emem; [|destruct Hin]. destruct Hin as [<-|[]].
    split; [exact Hexp|]. split; [congruence|]. right. exists oconf. split; [exact Hgo|apply mem_id_in, Emem].
Qed.

Lemma build_conflict_err_sound c name ids k a :
  build_conflict_err c name ids = VErr k a -> k = EArgumentConflict /\ a = name /\ ids <> [] /\ is_some (find_arg c name) = true.
Proof.
  unfold build_conflict_err. destruct ids as [|i0 it]; cbn [is_nil]; [discriminate|].
  destruct (fold_right _ (Some []) (i0 :: it)) as [l|]; [|discriminate].
  destruct (forallb _ l); [|discriminate]. destruct (find_arg c name) eqn:Ef; [|discriminate].
  intros H; injection H as <- <-. repeat split. discriminate.
Qed.

Lemma validate_exclusive_sound c m k n :
  validate_exclusive c m = VErr k n ->
  k = EArgumentConflict /\
  exists a, find_arg c n = Some a /\ a_exclusive a = true /\ explicit_id m n /\
            (2 <= length (filter (fun p => is_some (find_arg c (fst p))) (explicit_entries m)))%nat.
Proof.
  unfold validate_exclusive.
  destruct (Nat.leb (length (filter _ (explicit_entries m))) 1) eqn:El; [discriminate|].
  apply Nat.leb_gt in El.
  destruct (find_map _ (explicit_entries m)) as [a|] eqn:Ef; [|discriminate].
  intros H; injection H as <- <-. split; [reflexivity|].
  assert (Hfm : forall l, find_map (fun p : id * marg => match find_arg c (fst p) with
                                     | Some a => if a_exclusive a then Some a else None
                                     | None => None end) l = Some a ->
                exists p, In p l /\ find_arg c (fst p) = Some a /\ a_exclusive a = true).
  { induction l as [|p t IH]; cbn [find_map]; [discriminate|].
    destruct (find_arg c (fst p)) as [a0|] eqn:Ea0.
    - destruct (a_exclusive a0) eqn:Ex.
      + intros H; injection H as ->. exists p. split; [left; reflexivity|]. split; assumption.
      + intros H. destruct (IH H) as [q [H1 H2]]. exists q. split; [right; exact H1|exact H2].
    - intros H. destruct (IH H) as [q [H1 H2]]. exists q. split; [right; exact H1|exact H2]. }
  destruct (Hfm _ Ef) as [p [Hp [Hfa Hex]]].
  assert (Hid : a_id a = fst p).
  { unfold find_arg in Hfa. apply find_some in Hfa. destruct Hfa as [_ Hb]. apply beq_eq in Hb. exact Hb. }
  exists a. rewrite Hid. split; [exact Hfa|]. split; [exact Hex|]. split; [apply in_map, Hp|lia].
Qed.

(** ArgumentConflict is justified: the named argument is explicitly present, and either it is
    [exclusive] while another argument is explicitly present too, or some *other* explicitly
    present entry stands in a declared direct conflict with it (in one direction or the other) *)
Theorem validate_conflict_sound c m n :
  validate c m = VErr EArgumentConflict n ->
  explicit_id m n /\ is_some (find_arg c n) = true /\
  ((exists a, find_arg c n = Some a /\ a_exclusive a = true /\
              (2 <= length (filter (fun p => is_some (find_arg c (fst p))) (explicit_entries m)))%nat)
   \/ exists other, explicit_id m other /\ other <> n /\
                    (directly_conflicts c n other \/ directly_conflicts c other n)).
Proof.
  unfold validate. destruct (conflicts_with_args c m) as [pot|] eqn:Ep; [|discriminate].
  destruct (negb (is_some (mt_sub m)) && is_set s_arg_required_else_help c && is_nil (explicit_entries m)); [discriminate|].
  destruct (negb (is_some (mt_sub m)) && is_set s_sub_required c); [discriminate|].
  destruct (validate_conflicts c m pot) as [|k a|s] eqn:Ev.
  - destruct (is_set s_subs_negate_reqs c && is_some (mt_sub m)); [discriminate|].
    destruct (missing_required c m pot) as [[|x t]|]; discriminate.
  - intros H; injection H as -> ->. unfold validate_conflicts in Ev.
    destruct (validate_exclusive c m) as [|k' a'|s'] eqn:Ex.
    + apply first_err_in in Ev. apply in_map_iff in Ev. destruct Ev as [p [Hp Hin]].
      apply filter_In in Hin. destruct Hin as [Hin Harg].
      destruct (gather_conflicts c pot (fst p)) as [conf|] eqn:Eg; [|discriminate Hp].
      apply build_conflict_err_sound in Hp. destruct Hp as [_ [Hn [Hne Hfa]]]. subst n.
      split; [apply in_map, Hin|]. split; [exact Hfa|]. right.
      destruct conf as [|o ot]; [contradiction Hne; reflexivity|].
      exists o. apply (gather_conflicts_sound c m pot (fst p) (o :: ot) o Ep Eg). left; reflexivity.
    + injection Ev as -> ->. apply validate_exclusive_sound in Ex. destruct Ex as [_ [a [H1 [H2 [H3 H4]]]]].
      split; [exact H3|]. split; [rewrite H1; reflexivity|]. left. exists a. repeat split; assumption.
    + discriminate Ev.
  - discriminate.
Qed.

(** what the direct conflicts of an argument are made of: declared relations only *)
Lemma gather_arg_direct_conflicts_in c a l y :
  gather_arg_direct_conflicts c a = Some l -> In y l ->
  In y (a_blacklist a) \/ In y (a_overrides a) \/
  exists gid g, In gid (groups_for_arg c (a_id a)) /\ find_group c gid = Some g /\
                (In y (g_conflicts g) \/ (g_multiple g = false /\ In y (g_args g) /\ y <> a_id a)).
Proof.
  unfold gather_arg_direct_conflicts.
  set (step := fun (acc : option (list id)) (gid : id) =>
                 match acc with
                 | None => None
                 | Some conf =>
                     match find_group c gid with
                     | None => None
                     | Some grp =>
                         let conf := conf ++ g_conflicts grp in
                         Some (if negb (g_multiple grp)
                               then conf ++ filter (fun m => negb (beq m (a_id a))) (g_args grp)
                               else conf)
                     end
                 end).
  assert (Hgen : forall gids acc res,
            fold_left step gids acc = Some res -> In y res ->
            (exists conf0, acc = Some conf0 /\ In y conf0) \/
            exists gid g, In gid gids /\ find_group c gid = Some g /\
                          (In y (g_conflicts g) \/ (g_multiple g = false /\ In y (g_args g) /\ y <> a_id a))).
  { induction gids as [|gid t IH]; intros acc res Hf Hy; cbn [fold_left] in Hf.
    - left. exists res. split; [exact Hf|exact Hy].
    - destruct (IH _ _ Hf Hy) as [[conf0 [Hacc Hin]]|[gid' [g [H1 H2]]]].
      + unfold step in Hacc. destruct acc as [conf|]; [|discriminate Hacc].
        destruct (find_group c gid) as [grp|] eqn:Eg; [|discriminate Hacc]. injection Hacc as <-.
        assert (Hcases : In y conf \/ In y (g_conflicts grp) \/
                         (g_multiple grp = false /\ In y (filter (fun m => negb (beq m (a_id a))) (g_args grp)))).
        { destruct (g_multiple grp); cbn [negb] in Hin.
          - apply in_app_or in Hin. tauto.
          - apply in_app_or in Hin. destruct Hin as [Hin|Hin]; [apply in_app_or in Hin; tauto|]. right; right. tauto. }
        destruct Hcases as [Hc|[Hc|[Hm Hc]]].
        * left. exists conf. split; [reflexivity|exact Hc].
        * right. exists gid, grp. split; [left; reflexivity|]. split; [exact Eg|left; exact Hc].
        * right. exists gid, grp. split; [left; reflexivity|]. split; [exact Eg|]. right.
          apply filter_In in Hc. destruct Hc as [Hc1 Hc2]. apply negb_true_iff, beq_neq in Hc2.
          repeat split; assumption.
      + right. exists gid', g. split; [right; exact H1|exact H2]. }
  intros H Hy.
  destruct (fold_left step (groups_for_arg c (a_id a)) (Some (a_blacklist a))) as [conf|] eqn:Ef; [|discriminate H].
  injection H as <-. apply in_app_or in Hy. destruct Hy as [Hy|Hy]; [|right; left; exact Hy].
  destruct (Hgen _ _ _ Ef Hy) as [[conf0 [Hc Hin]]|Hg].
  - injection Hc as <-. left; exact Hin.
  - right; right. exact Hg.
Qed.

Example conflict_example :
  let a := (arg_new [97]) <| a_long := Some [97] |> <| a_blacklist := [[98]] |> in
  let b := (arg_new [98]) <| a_long := Some [98] |> in
  let c := (cmd_new [112]) <| c_args := [a; b] |> in
  let ma := mkMarg (Some SCmdLine) [1] [[]] false false in
  validate c (mkMatcher [([97], ma); ([98], ma)] None None) = VErr EArgumentConflict [97].
Proof. vm_compute. reflexivity. Qed.

(** ** MissingRequiredArgument *)
Lemma fold_left_inv {A B} (f : A -> B -> A) (P : A -> Prop) (l : list B) :
  (forall a b, In b l -> P a -> P (f a b)) -> forall a, P a -> P (fold_left f l a).
Proof.
  induction l as [|b t IH]; intros Hf a Ha; cbn [fold_left]; [exact Ha|].
  apply IH; [intros a' b' Hb'; apply Hf; right; exact Hb'|apply Hf; [left; reflexivity|exact Ha]].
Qed.

(** the conditional requirement rules of [a] fire: [required_if_eq], [required_if_eq_all],
    [required_unless_present(_any/_all)] *)
Definition cond_required (m : matcher) (a : arg) : Prop :=
  (existsb (fun r => check_explicit m (fst r) (PEquals (snd r))) (a_r_ifs a)
   || (forallb (fun r => check_explicit m (fst r) (PEquals (snd r))) (a_r_ifs_all a) && negb (is_nil (a_r_ifs_all a)))
   || ((negb (is_nil (a_r_unless a)) || negb (is_nil (a_r_unless_all a))) && fails_arg_required_unless m a)) = true.

(** why [x] is reported missing: it is not explicitly present, and
    - it is in the requirement set [req] ([required(true)] arguments and groups, what required groups
      require, and the [requires] closure of the explicitly present arguments), or
    - one of its conditional requirement rules fires, or
    - it is a positional below a missing required positional (without [allow_missing_positional]) *)
Definition missing_cause (c : cmd) (m : matcher) (req : list id) (x : id) : Prop :=
  check_explicit m x PIsPresent = false /\
  (In x req
   \/ (exists a, In a (c_args c) /\ a_id a = x /\ cond_required m a)
   \/ (exists p, In p (positionals c) /\ a_id p = x /\ is_set s_allow_missing_pos c = false)).

Lemma find_arg_id c i a : find_arg c i = Some a -> a_id a = i /\ In a (c_args c).
Proof.
  unfold find_arg. intros H. apply find_some in H. destruct H as [H1 H2]. apply beq_eq in H2. split; assumption.
Qed.
Lemma find_group_id c i g : find_group c i = Some g -> g_id g = i /\ In g (c_groups c).
Proof.
  unfold find_group. intros H. apply find_some in H. destruct H as [H1 H2]. apply beq_eq in H2. split; assumption.
Qed.

Theorem missing_required_sound c m pot l :
  missing_required c m pot = Some l ->
  exists req, gather_requires c m (required_graph c) = Some req /\ Forall (missing_cause c m req) l.
Proof.
  unfold missing_required. destruct (gather_requires c m (required_graph c)) as [req|]; [|discriminate].
  intros H. exists req. split; [reflexivity|].
  set (Q := missing_cause c m req).
  match type of H with
  | match fold_left ?f req ?a0 with _ => _ end = _ =>
      assert (H1 : match fold_left f req a0 with None => True | Some (ms, _) => Forall Q ms end)
  end.
  { apply fold_left_inv with (P := fun acc : option (list id * N) =>
                                     match acc with None => True | Some (ms, _) => Forall Q ms end);
      [|constructor].
    intros acc aog Hin HP. destruct acc as [[ms h]|]; [|exact I].
    destruct (check_explicit m aog PIsPresent) eqn:Ece; [exact HP|].
    destruct (find_arg c aog) as [a|] eqn:Ea.
    - destruct (existsb _ (explicit_entries m)); [exact HP|].
      destruct (is_missing_required_ok c pot a) as [[|]|]; [exact HP| |exact I].
      apply Forall_app. split; [exact HP|]. constructor; [|constructor].
      destruct (find_arg_id _ _ _ Ea) as [-> _]. split; [exact Ece|left; exact Hin].
    - destruct (find_group c aog) as [g|] eqn:Eg; [|exact HP].
      destruct (unroll_args_in_group c (g_id g)) as [mem|]; [|exact I].
      destruct (existsb _ mem); [exact HP|].
      apply Forall_app. split; [exact HP|]. constructor; [|constructor].
      destruct (find_group_id _ _ _ Eg) as [-> _]. split; [exact Ece|left; exact Hin]. }
  match type of H with
  | match ?s1 with _ => _ end = _ => destruct s1 as [[ms h]|]; [|discriminate H]
  end.
  match type of H with
  | (let '(_, _) := fold_left ?f (c_args c) ?a0 in _) = _ =>
      assert (H2 : Forall Q (fst (fold_left f (c_args c) a0)))
  end.
  { apply fold_left_inv with (P := fun acc : list id * N => Forall Q (fst acc)); [|exact H1].
    intros [ms' h'] a Hin HP. cbn [fst] in HP.
    destruct (check_explicit m (a_id a) PIsPresent) eqn:Ece; [exact HP|].
    match goal with |- Forall Q (fst (if ?b then _ else _)) => destruct b eqn:Eb end; [|exact HP].
    cbn [fst]. apply Forall_app. split; [exact HP|]. constructor; [|constructor].
    split; [exact Ece|]. right; left. exists a. split; [exact Hin|]. split; [reflexivity|].
    apply andb_true_iff in Eb. destruct Eb as [_ Eb]. unfold cond_required. exact Eb. }
  match type of H with
  | (let '(_, _) := ?s2 in _) = _ => destruct s2 as [ms2 h2]
  end.
  cbn [fst] in H2. injection H as <-.
  destruct (negb (is_set s_allow_missing_pos c)) eqn:Eamp; [|exact H2].
  apply negb_true_iff in Eamp.
  apply fold_left_inv with (P := Forall Q); [|exact H2].
  intros ms' p Hin HP.
  destruct (check_explicit m (a_id p) PIsPresent) eqn:Ece; [exact HP|].
  assert (Hq : Q (a_id p)).
  { split; [exact Ece|]. right; right. exists p. repeat split; assumption. }
  destruct (a_index p) as [i|]; [destruct (i <? h2)|]; try exact HP;
    (apply Forall_app; split; [exact HP|constructor; [exact Hq|constructor]]).
Qed.

Lemma validate_conflicts_kind c m pot k a : validate_conflicts c m pot = VErr k a -> k = EArgumentConflict.
Proof.
  unfold validate_conflicts. destruct (validate_exclusive c m) as [|k' a'|s'] eqn:Ex.
  - intros Ev. apply first_err_in in Ev. apply in_map_iff in Ev. destruct Ev as [p [Hp _]].
    destruct (gather_conflicts c pot (fst p)); [|discriminate Hp].
    apply build_conflict_err_sound in Hp. tauto.
  - intros H; injection H as -> ->. apply validate_exclusive_sound in Ex. tauto.
  - discriminate.
Qed.

(** MissingRequiredArgument is justified: the named argument (or group) is not explicitly present
    and a requirement rule asks for it *)
Theorem validate_missing_sound c m x :
  validate c m = VErr EMissingRequiredArgument x ->
  exists req, gather_requires c m (required_graph c) = Some req /\ missing_cause c m req x.
Proof.
  unfold validate. destruct (conflicts_with_args c m) as [pot|]; [|discriminate].
  destruct (negb (is_some (mt_sub m)) && is_set s_arg_required_else_help c && is_nil (explicit_entries m)); [discriminate|].
  destruct (negb (is_some (mt_sub m)) && is_set s_sub_required c); [discriminate|].
  destruct (validate_conflicts c m pot) as [|k a|s] eqn:Ev.
  - destruct (is_set s_subs_negate_reqs c && is_some (mt_sub m)); [discriminate|].
    destruct (missing_required c m pot) as [[|y t]|] eqn:Em; try discriminate.
    intros H; injection H as ->. destruct (missing_required_sound _ _ _ _ Em) as [req [Hr Hall]].
    exists req. split; [exact Hr|]. inversion Hall; assumption.
  - intros H; injection H as -> ->. apply validate_conflicts_kind in Ev. discriminate Ev.
  - discriminate.
Qed.

(** what the requirement set is made of *)
Lemma graph_insert_in g i x : In x (graph_insert g i) -> In x g \/ x = i.
Proof.
  unfold graph_insert. destruct (mem_id i g); [tauto|]. intros H. apply in_app_or in H.
  destruct H as [H|[H|[]]]; [left; exact H|right; symmetry; exact H].
Qed.

Lemma required_graph_in c x :
  In x (required_graph c) ->
  (exists a, In a (c_args c) /\ a_required a = true /\ a_id a = x) \/
  (exists g, In g (c_groups c) /\ g_required g = true /\ (g_id g = x \/ In x (g_requires g))).
Proof.
  unfold required_graph.
  set (PA := fun l : list id => forall x, In x l -> exists a, In a (c_args c) /\ a_required a = true /\ a_id a = x).
  assert (HA : PA (fold_left (fun g a => if a_required a then graph_insert g (a_id a) else g) (c_args c) [])).
  { apply fold_left_inv with (P := PA); [|intros y []].
    intros l a Hin HP y Hy. destruct (a_required a) eqn:Er; [|apply HP, Hy].
    apply graph_insert_in in Hy. destruct Hy as [Hy| ->]; [apply HP, Hy|]. exists a. repeat split; assumption. }
  set (PG := fun l : list id => forall x, In x l ->
     (exists a, In a (c_args c) /\ a_required a = true /\ a_id a = x) \/
     (exists g, In g (c_groups c) /\ g_required g = true /\ (g_id g = x \/ In x (g_requires g)))).
  assert (HG : PG (fold_left (fun g grp => if g_required grp then graph_insert g (g_id grp) ++ g_requires grp else g)
                             (c_groups c)
                             (fold_left (fun g a => if a_required a then graph_insert g (a_id a) else g) (c_args c) []))).
  { apply fold_left_inv with (P := PG); [|intros y Hy; left; apply HA, Hy].
    intros l grp Hin HP y Hy. destruct (g_required grp) eqn:Er; [|apply HP, Hy].
    apply in_app_or in Hy. destruct Hy as [Hy|Hy].
    - apply graph_insert_in in Hy. destruct Hy as [Hy| ->]; [apply HP, Hy|].
      right. exists grp. repeat split; try assumption. left; reflexivity.
    - right. exists grp. repeat split; try assumption. right; exact Hy. }
  intros H. apply HG, H.
Qed.

Lemma fold_graph_insert_in rs : forall req x, In x (fold_left graph_insert rs req) -> In x req \/ In x rs.
Proof.
  induction rs as [|r t IH]; intros req x; cbn [fold_left]; [tauto|].
  intros H. apply IH in H. destruct H as [H|H]; [|right; right; exact H].
  apply graph_insert_in in H. destruct H as [H| ->]; [left; exact H|right; left; reflexivity].
Qed.

(** [req] = the unconditional requirements plus, for every explicitly present argument, the closure of
    its [requires] rules whose predicate holds, plus what explicitly present groups require *)
Lemma gather_requires_in c m base req x :
  gather_requires c m base = Some req -> In x req ->
  In x base \/
  exists p, In p (explicit_entries m) /\
    ((exists a rs, find_arg c (fst p) = Some a /\
                   unroll_arg_requires c (fun r => if check_explicit_m (fst r) (snd p) then Some (snd r) else None) (a_id a)
                   = Some rs /\ In x rs)
     \/ (exists g, find_arg c (fst p) = None /\ find_group c (fst p) = Some g /\ In x (g_requires g))).
Proof.
  unfold gather_requires.
  set (P := fun acc : option (list id) =>
              forall req, acc = Some req -> forall x, In x req ->
              In x base \/
              exists p, In p (explicit_entries m) /\
                ((exists a rs, find_arg c (fst p) = Some a /\
                     unroll_arg_requires c (fun r => if check_explicit_m (fst r) (snd p) then Some (snd r) else None) (a_id a)
                     = Some rs /\ In x rs)
                 \/ (exists g, find_arg c (fst p) = None /\ find_group c (fst p) = Some g /\ In x (g_requires g)))).
  intros H Hx. revert req H x Hx. change (P (fold_left
     (fun acc p => match acc with
                   | None => None
                   | Some req =>
                       let '(name, matched) := p in
                       match find_arg c name with
                       | Some arg =>
                           let is_relevant (r : pred * id) := if check_explicit_m (fst r) matched then Some (snd r) else None in
                           match unroll_arg_requires c is_relevant (a_id arg) with
                           | None => None
                           | Some rs => Some (fold_left graph_insert rs req)
                           end
                       | None => match find_group c name with
                                 | Some g => Some (fold_left graph_insert (g_requires g) req)
                                 | None => Some req end
                       end
                   end) (explicit_entries m) (Some base))).
  apply fold_left_inv with (P := P).
  - intros acc [name matched] Hin HP req Hreq x Hx. destruct acc as [req0|]; [|discriminate Hreq].
    destruct (find_arg c name) as [a|] eqn:Ea.
    + cbv zeta in Hreq. destruct (unroll_arg_requires c _ (a_id a)) as [rs|] eqn:Eu; [|discriminate Hreq].
      injection Hreq as <-. apply fold_graph_insert_in in Hx. destruct Hx as [Hx|Hx]; [apply (HP req0 eq_refl), Hx|].
      right. exists (name, matched). split; [exact Hin|]. left. exists a, rs. cbn [fst snd]. repeat split; assumption.
    + destruct (find_group c name) as [g|] eqn:Eg.
      * injection Hreq as <-. apply fold_graph_insert_in in Hx. destruct Hx as [Hx|Hx]; [apply (HP req0 eq_refl), Hx|].
        right. exists (name, matched). split; [exact Hin|]. right. exists g. cbn [fst]. repeat split; assumption.
      * injection Hreq as <-. apply (HP req0 eq_refl), Hx.
  - intros req Hreq x Hx. injection Hreq as <-. left; exact Hx.
Qed.

Example missing_example :
  let a := (arg_new [97]) <| a_long := Some [97] |> <| a_required := true |> in
  let c := (cmd_new [112]) <| c_args := [a] |> in
  validate c matcher_new = VErr EMissingRequiredArgument [97].
Proof. vm_compute. reflexivity. Qed.

(** * 5. unknown-token triage: [parse_long_arg], [short_loop], [match_arg_error] *)

Lemma react_core_ok_result c idn s a raw ti st st1 pr :
  react_core c idn s a raw ti st = ROk (st1, pr) -> pr = PRValuesDone.
Proof.
  unfold react_core. intros H.
  destruct (if is_cmdline s then verify_num_args c a raw st else ROk tt) as [[]|e0 s0|p0]; cbn [rbind] in H;
    try discriminate H.
  match type of H with (let '(_, _) := ?p in _) = _ => destruct p as [raw1 ti1] end.
  destruct (expect 1184 (delimit c a raw1 ti1)) as [raw2|e1 s1|p1]; cbn [rbind] in H; try discriminate H.
  destruct (a_get_action a);
    repeat match type of H with
           | (let '(_, _) := ?p in _) = _ => destruct p
           | (if ?b then _ else _) = _ => destruct b
           | rbind ?r _ = _ => destruct r; cbn [rbind] in H
           end; try discriminate H; injection H as _ <-; reflexivity.
Qed.

Lemma react_ok_result c idn s a raw ti st st1 pr :
  react c idn s a raw ti st = ROk (st1, pr) -> pr = PRValuesDone.
Proof.
  unfold react. destruct (resolve_pending c st); cbn [rbind]; try discriminate. apply react_core_ok_result.
Qed.

Definition not_no_match (pr : presult) : Prop := match pr with PRNoMatchingArg _ => False | _ => True end.

Lemma parse_opt_value_ok_result c idn att a has_eq st st1 pr :
  parse_opt_value c idn att a has_eq st = ROk (st1, pr) -> not_no_match pr.
Proof.
  unfold parse_opt_value. intros H.
  destruct (a_req_eq a && negb has_eq).
  - destruct (a_num a) as [r|]; cbn [expect rbind] in H; [|discriminate H].
    destruct (vmin r =? 0).
    + destruct (react c (Some idn) SCmdLine a [] None st) as [[s2 p2]| |]; cbn [rbind] in H; try discriminate H.
      injection H as _ <-. destruct (is_some att); exact I.
    + injection H as _ <-. exact I.
  - destruct att as [v|].
    + destruct (react c (Some idn) SCmdLine a [v] None st) as [[s2 p2]| |]; cbn [rbind] in H; try discriminate H.
      injection H as _ <-. exact I.
    + destruct (resolve_pending c st); cbn [rbind] in H; try discriminate H.
      destruct (pending_values_push _ _ _ _ _); cbn [expect rbind] in H; try discriminate H.
      injection H as _ <-. exact I.
Qed.

(** a long flag is reported as matching nothing only if it really is no key of the command: its
    spelling is not UTF-8, or it is neither a long/alias of an argument nor a long flag of a
    subcommand (the token is [--flag] or [--flag=value]) *)
Theorem parse_long_no_match_sound c flag ok value pst pc vaf st st1 a vaf1 :
  parse_long_arg c flag ok value pst pc vaf st = ROk (st1, PRNoMatchingArg a, vaf1) ->
  a = flag /\ st1 = st /\
  (ok = false \/ (get_long c flag = None /\ possible_long_flag_subcommand c flag = None)).
Proof.
  unfold parse_long_arg. intros H.
  destruct (state_arg c pst) as [sa|e0 s0|p0]; cbn [rbind] in H; try discriminate H.
  destruct (match sa with Some a0 => a_hyphen a0 | None => false end); [discriminate H|].
  destruct ok; cbn [negb] in H; [|injection H as <- <- _; repeat split; left; reflexivity].
  destruct (is_nil flag && negb (is_some value)); [discriminate H|].
  destruct (get_long c flag) as [ga|] eqn:Eg.
  - (* found: never a no-match result *)
    destruct (a_takes_value ga).
    + destruct (parse_opt_value c ILong value ga (is_some value) st) as [[s2 p2]| |] eqn:Ep; cbn [rbind] in H;
        try discriminate H. injection H as _ Hp _. apply parse_opt_value_ok_result in Ep. cbn [snd] in Hp.
      rewrite Hp in Ep. destruct Ep.
    + destruct value; [discriminate H|].
      destruct (react c (Some ILong) SCmdLine ga [] None st) as [[s2 p2]| |] eqn:Er; cbn [rbind] in H; try discriminate H.
      injection H as _ Hp _. apply react_ok_result in Er. cbn [snd] in Hp. congruence.
  - match type of H with
    | match ?found with _ => _ end = _ => destruct found as [fa|] eqn:Ef
    end.
    + destruct (a_takes_value fa).
      * destruct (parse_opt_value c ILong value fa (is_some value) st) as [[s2 p2]| |] eqn:Ep; cbn [rbind] in H;
          try discriminate H. injection H as _ Hp _. apply parse_opt_value_ok_result in Ep. cbn [snd] in Hp.
        rewrite Hp in Ep. destruct Ep.
      * destruct value; [discriminate H|].
        destruct (react c (Some ILong) SCmdLine fa [] None st) as [[s2 p2]| |] eqn:Er; cbn [rbind] in H; try discriminate H.
        injection H as _ Hp _. apply react_ok_result in Er. cbn [snd] in Hp. congruence.
    + destruct (possible_long_flag_subcommand c flag) eqn:Es; [discriminate H|].
      destruct (match get_pos c pc with Some a0 => a_hyphen a0 && negb (a_last a0) | None => false end); [discriminate H|].
      injection H as <- <- _. repeat split. right. split; reflexivity.
Qed.

(** a short flag is reported as matching nothing only if the character is neither a short/alias of
    an argument nor a short flag of a subcommand (or the cluster is not UTF-8 at that point) *)
Theorem short_loop_no_match_sound c : forall fuel r ret vaf st st1 a vaf1,
  not_no_match ret ->
  short_loop c fuel r ret vaf st = ROk (st1, PRNoMatchingArg a, vaf1) ->
  (exists ch, a = DASH :: encode_utf8 ch /\ get_short c ch = None /\ find_short_subcmd c ch = None)
  \/ (exists r' rest, sf_next r' = Some (inr rest, []) /\ a = DASH :: rest).
Proof.
  induction fuel as [|f IH]; intros r ret vaf st st1 a vaf1 Hret H; cbn [short_loop] in H; [discriminate H|].
  destruct (sf_next r) as [[[ch|rest] r']|] eqn:En.
  - destruct (get_short c ch) as [ga|] eqn:Eg.
    + destruct (negb (a_takes_value ga)).
      * destruct (react c (Some IShort) SCmdLine ga [] None st) as [[s2 p2]| |] eqn:Er; cbn [rbind] in H; try discriminate H.
        apply react_ok_result in Er. subst p2. cbn [fst snd] in H. eapply IH; [|exact H]. exact I.
      * match type of H with
        | (let '(_, _) := ?p in _) = _ => destruct p as [val has_eq]
        end.
        destruct (parse_opt_value c IShort val ga has_eq st) as [[s2 p2]| |] eqn:Ep; cbn [rbind] in H; try discriminate H.
        apply parse_opt_value_ok_result in Ep. cbn [fst snd] in H.
        destruct p2; try (injection H as _ Hp _; discriminate Hp); try (destruct Ep).
        eapply IH; [|exact H]. exact Hret.
    + destruct (find_short_subcmd c ch) eqn:Es.
      * destruct (resolve_pending c st); cbn [rbind] in H; try discriminate H.
      * injection H as _ <- _. left. exists ch. repeat split; assumption.
  - assert (r' = []).
    { unfold sf_next in En. destruct r; [discriminate En|]. destruct (utf8_step (n :: r)) as [[? ?]|]; [discriminate En|].
      injection En as _ <-. reflexivity. }
    subst r'. injection H as _ <- _. right. exists r, rest. split; [exact En|reflexivity].
  - injection H as _ Hp _. rewrite Hp in Hret. destruct Hret.
Qed.

(** the last resort: which kinds [match_arg_error] can report, and when *)
Theorem match_arg_error_kinds c tok vaf trailing :
  let e := match_arg_error c tok vaf trailing in
  e_arg e = tok /\
  (e_kind e = EUnknownArgument
   \/ (e_kind e = EInvalidSubcommand /\ has_subcommands c = true)
   \/ (e_kind e = EArgumentConflict /\ has_subcommands c = true /\ is_set s_args_negate_subs c = true /\ vaf = true)).
Proof.
  unfold match_arg_error. cbv zeta.
  destruct (trailing && is_some (possible_subcommand c tok vaf)); [split; [reflexivity|left; reflexivity]|].
  destruct (has_subcommands c) eqn:Eh; [|split; [reflexivity|left; reflexivity]].
  destruct (is_set s_args_negate_subs c && vaf) eqn:En.
  - apply andb_true_iff in En. destruct En as [E1 E2]. split; [reflexivity|]. right; right. repeat split; assumption.
  - destruct (negb (has_positionals c) || is_set s_infer_sub c).
    + split; [reflexivity|]. right; left. split; reflexivity.
    + split; [reflexivity|]. left. reflexivity.
Qed.

(** * 6. every error raised while a flag token is processed is a justified reaction error *)
Definition reaction_error (c : cmd) (e : error) : Prop := exists a s raw st, react_cause c a s raw st e.

Lemma react_err c idn s a raw ti st e st' : react c idn s a raw ti st = RErr e st' -> reaction_error c e.
Proof.
  unfold react. destruct (resolve_pending c st) as [s1|e1 s1|p1] eqn:Er; cbn [rbind].
  - intros H. apply react_core_err_sound in H. exists a, s, raw, s1. exact H.
  - intros H; injection H as <- _. apply resolve_pending_err_sound in Er. destruct Er as [p [a0 [_ [_ Hc]]]].
    eexists _, _, _, _. exact Hc.
  - discriminate.
Qed.

Lemma parse_opt_value_err c idn att a has_eq st e st' :
  parse_opt_value c idn att a has_eq st = RErr e st' -> reaction_error c e.
Proof.
  unfold parse_opt_value. destruct (a_req_eq a && negb has_eq).
  - destruct (a_num a) as [r|]; cbn [expect rbind]; [|discriminate]. destruct (vmin r =? 0); [|discriminate].
    destruct (react c (Some idn) SCmdLine a [] None st) as [x|e1 s1|p1] eqn:Er; cbn [rbind]; try discriminate.
    intros H; injection H as <- _. eapply react_err, Er.
  - destruct att as [v|].
    + destruct (react c (Some idn) SCmdLine a [v] None st) as [x|e1 s1|p1] eqn:Er; cbn [rbind]; try discriminate.
      intros H; injection H as <- _. eapply react_err, Er.
    + destruct (resolve_pending c st) as [s1|e1 s1|p1] eqn:Er; cbn [rbind].
      * destruct (pending_values_push _ _ _ _ _); cbn [expect rbind]; discriminate.
      * intros H; injection H as <- _. apply resolve_pending_err_sound in Er. destruct Er as [p [a0 [_ [_ Hc]]]].
        eexists _, _, _, _. exact Hc.
      * discriminate.
Qed.

Lemma state_arg_not_err c pst e st : state_arg c pst <> RErr e st.
Proof. destruct pst; cbn [state_arg]; try discriminate; destruct (find_arg c i); cbn; discriminate. Qed.

Lemma parse_long_arg_err c flag ok value pst pc vaf st e st' :
  parse_long_arg c flag ok value pst pc vaf st = RErr e st' -> reaction_error c e.
Proof.
  unfold parse_long_arg. intros H.
  destruct (state_arg c pst) as [sa|e0 s0|p0] eqn:Es; cbn [rbind] in H;
    [|exfalso; eapply state_arg_not_err, Es|discriminate H].
  destruct (match sa with Some a0 => a_hyphen a0 | None => false end); [discriminate H|].
  destruct (negb ok); [discriminate H|].
  destruct (is_nil flag && negb (is_some value)); [discriminate H|].
  match type of H with
  | match ?found with _ => _ end = _ => destruct found as [fa|]
  end.
  - destruct (a_takes_value fa).
    + destruct (parse_opt_value c ILong value fa (is_some value) st) as [x|e1 s1|p1] eqn:Ep; cbn [rbind] in H;
        try discriminate H. injection H as <- _. eapply parse_opt_value_err, Ep.
    + destruct value; [discriminate H|].
      destruct (react c (Some ILong) SCmdLine fa [] None st) as [x|e1 s1|p1] eqn:Er; cbn [rbind] in H;
        try discriminate H. injection H as <- _. eapply react_err, Er.
  - destruct (possible_long_flag_subcommand c flag); [discriminate H|].
    destruct (match get_pos c pc with Some a0 => a_hyphen a0 && negb (a_last a0) | None => false end); discriminate H.
Qed.

Lemma short_loop_err c : forall fuel r ret vaf st e st',
  short_loop c fuel r ret vaf st = RErr e st' -> reaction_error c e.
Proof.
  induction fuel as [|f IH]; intros r ret vaf st e st' H; cbn [short_loop] in H; [discriminate H|].
  destruct (sf_next r) as [[[ch|rest] r']|]; try discriminate H.
  destruct (get_short c ch) as [ga|].
  - destruct (negb (a_takes_value ga)).
    + destruct (react c (Some IShort) SCmdLine ga [] None st) as [x|e1 s1|p1] eqn:Er; cbn [rbind] in H.
      * eapply IH, H. * injection H as <- _. eapply react_err, Er. * discriminate H.
    + match type of H with
      | (let '(_, _) := ?p in _) = _ => destruct p as [val has_eq]
      end.
      destruct (parse_opt_value c IShort val ga has_eq st) as [[s2 p2]|e1 s1|p1] eqn:Ep; cbn [rbind] in H.
      * cbn [fst snd] in H. destruct p2; try discriminate H. eapply IH, H.
      * injection H as <- _. eapply parse_opt_value_err, Ep.
      * discriminate H.
  - destruct (find_short_subcmd c ch); [|discriminate H].
    destruct (resolve_pending c st) as [s1|e1 s1|p1] eqn:Er; cbn [rbind] in H; try discriminate H.
    injection H as <- _. apply resolve_pending_err_sound in Er. destruct Er as [p [a0 [_ [_ Hc]]]].
    eexists _, _, _, _. exact Hc.
Qed.

Lemma parse_short_arg_err c r pst pc vaf st e st' :
  parse_short_arg c r pst pc vaf st = RErr e st' -> reaction_error c e.
Proof.
  unfold parse_short_arg. intros H.
  destruct (state_arg c pst) as [sa|e0 s0|p0] eqn:Es; cbn [rbind] in H;
    [|exfalso; eapply state_arg_not_err, Es|discriminate H].
  repeat match type of H with (if ?b then _ else _) = _ => destruct b; [discriminate H|] end.
  destruct (sf_advance_by _ r) as [r0|]; cbn [expect rbind] in H; [|discriminate H].
  eapply short_loop_err, H.
Qed.

(** reaction errors are never "unknown token" errors, and each carries a kind of its cause *)
Theorem reaction_error_kinds c e :
  reaction_error c e ->
  In (e_kind e) [EInvalidValue; EWrongNumberOfValues; ETooFewValues; ETooManyValues; EArgumentConflict;
                 EInvalidUtf8; EValueValidation; EDisplayHelp; EDisplayVersion].
Proof.
  intros [a [s [raw [st H]]]]. destruct H as [_ [st' Hv]|Hk _ _ _ _|[vp [v [_ [Hv _]]]] _|Hk _|Hk _].
  - apply verify_num_args_sound in Hv. destruct Hv as [r [_ [_ [_ [_ [Hin _]]]]]].
    cbn in Hin. cbn. tauto.
  - rewrite Hk. cbn. tauto.
  - apply vp_parse_reject_sound in Hv. destruct Hv as [_ [Hin _]]. cbn in Hin. cbn. tauto.
  - rewrite Hk. cbn. tauto.
  - rewrite Hk. cbn. tauto.
Qed.

(** * 7. the token loop: an "unknown token" error names a token of the line that matches no key *)
Definition unknown_kind (k : ekind) : Prop := k = EUnknownArgument \/ k = EInvalidSubcommand.

Inductive unknown_cause (c : cmd) (tok : bytes) (e : error) : Prop :=
| UCLong f ok v : to_long tok = Some (f, ok, v) -> e_arg e = f ->
    (ok = false \/ (get_long c f = None /\ possible_long_flag_subcommand c f = None)) -> unknown_cause c tok e
| UCShort r : to_short tok = Some r ->
    ((exists ch, e_arg e = DASH :: encode_utf8 ch /\ get_short c ch = None /\ find_short_subcmd c ch = None)
     \/ (exists r' rest, sf_next r' = Some (inr rest, []) /\ e_arg e = DASH :: rest)) -> unknown_cause c tok e
| UCLast pc a : get_pos c pc = Some a -> a_last a = true -> e_arg e = tok -> unknown_cause c tok e
| UCNoPos pc vaf tr : get_pos c pc = None -> is_set s_allow_external c = false ->
    e = match_arg_error c tok vaf tr -> unknown_cause c tok e.

Lemma parse_short_no_match_sound c r pst pc vaf st st1 a vaf1 :
  parse_short_arg c r pst pc vaf st = ROk (st1, PRNoMatchingArg a, vaf1) ->
  (exists ch, a = DASH :: encode_utf8 ch /\ get_short c ch = None /\ find_short_subcmd c ch = None)
  \/ (exists r' rest, sf_next r' = Some (inr rest, []) /\ a = DASH :: rest).
Proof.
  unfold parse_short_arg. intros H.
  destruct (state_arg c pst) as [sa|e0 s0|p0]; cbn [rbind] in H; try discriminate H.
  repeat match type of H with (if ?b then _ else _) = _ => destruct b; [discriminate H|] end.
  destruct (sf_advance_by _ r) as [r0|]; cbn [expect rbind] in H; [|discriminate H].
  eapply short_loop_no_match_sound; [|exact H]. exact I.
Qed.

Lemma resolve_pending_ignore_not_err c st e st' : resolve_pending_ignore c st <> RErr e st'.
Proof. unfold resolve_pending_ignore. destruct (resolve_pending c st); discriminate. Qed.

Lemma reaction_not_unknown c e : reaction_error c e -> unknown_kind (e_kind e) -> False.
Proof.
  intros H [Hk|Hk]; apply reaction_error_kinds in H; rewrite Hk in H; cbn in H;
    repeat (destruct H as [H|H]; [discriminate H|]); exact H.
Qed.

Lemma resolve_pending_err c st e st' : resolve_pending c st = RErr e st' -> reaction_error c e.
Proof.
  intros Er. apply resolve_pending_err_sound in Er. destruct Er as [p [a0 [_ [_ Hc]]]]. eexists _, _, _, _. exact Hc.
Qed.

Lemma is_new_arg_not_err c n a e st : is_new_arg c n a <> RErr e st.
Proof.
  unfold is_new_arg. destruct (find_arg c (a_id a)); cbn [expect rbind]; [|discriminate].
  repeat match goal with |- (if ?b then _ else _) <> _ => destruct b end; discriminate.
Qed.

Ltac step_in H :=
  match type of H with
  | ROk _ = _ => fail 1
  | RErr _ _ = _ => fail 1
  | RPanic _ = _ => fail 1
  | Some _ = _ => fail 1
  | None = _ => fail 1
  | parse_loop _ _ _ _ = _ => fail 1
  | rbind ?r _ = _ => let E := fresh "E" in destruct r eqn:E; cbn [rbind] in H
  | (let '(_, _) := ?p in _) = _ => let E := fresh "E" in destruct p eqn:E
  | (if ?b then _ else _) = _ => let E := fresh "E" in destruct b eqn:E
  | match ?x with _ => _ end = _ => let E := fresh "E" in destruct x eqn:E
  end.


Ltac kill_err :=
  match goal with
  | E : state_arg _ _ = RErr _ _ |- _ => exfalso; eapply state_arg_not_err, E
  | E : resolve_pending_ignore _ _ = RErr _ _ |- _ => exfalso; eapply resolve_pending_ignore_not_err, E
  | E : expect _ _ = RErr _ _ |- _ => exfalso; eapply expect_not_err, E
  | E : is_new_arg _ _ _ = RErr _ _ |- _ => exfalso; eapply is_new_arg_not_err, E
  | E : parse_long_arg _ _ _ _ _ _ _ _ = RErr ?e _, Hk : unknown_kind (e_kind ?e) |- _ =>
      exfalso; eapply reaction_not_unknown; [eapply parse_long_arg_err, E|exact Hk]
  | E : parse_short_arg _ _ _ _ _ _ = RErr ?e _, Hk : unknown_kind (e_kind ?e) |- _ =>
      exfalso; eapply reaction_not_unknown; [eapply parse_short_arg_err, E|exact Hk]
  | E : resolve_pending _ _ = RErr ?e _, Hk : unknown_kind (e_kind ?e) |- _ =>
      exfalso; eapply reaction_not_unknown; [eapply resolve_pending_err, E|exact Hk]
  end.

Ltac use_IH IH H Hk :=
  let t := fresh "t" in let Ht := fresh "Ht" in let Hc := fresh "Hc" in
  destruct (IH _ _ _ _ H Hk) as [t [Ht Hc]]; exists t; split; [right; exact Ht|exact Hc].

Ltac other_kind H Hk :=
  injection H as <- _; exfalso; cbn [e_kind mkerr] in Hk; destruct Hk as [Hk|Hk]; discriminate Hk.

Ltac leaf IH H Hk :=
  first
  [ discriminate H
  | use_IH IH H Hk
  | other_kind H Hk
  | (injection H as <- _;
     match goal with
     | E : parse_long_arg _ ?f ?ok ?v _ _ _ _ = ROk (_, PRNoMatchingArg _, _), T : to_long ?tok = Some (?f, ?ok, ?v) |- _ =>
         let Hc := fresh "Hc" in
         apply parse_long_no_match_sound in E; destruct E as [-> [_ Hc]]; exists tok; split; [left; reflexivity|];
         eapply UCLong; [exact T|reflexivity|exact Hc]
     | E : parse_short_arg _ ?r _ _ _ _ = ROk (_, PRNoMatchingArg _, _), T : to_short ?tok = Some ?r |- _ =>
         apply parse_short_no_match_sound in E; exists tok; split; [left; reflexivity|];
         eapply UCShort; [exact T|]; cbn [e_arg mkerr]; exact E
     end)
  | (injection H as <- _; kill_err)
  | (injection H as <- _;
     match goal with
     | G : get_pos _ _ = Some ?a, L : a_last ?a && _ = true |- exists t, In t (?tok :: _) /\ _ =>
         apply andb_true_iff in L; destruct L as [L _]; exists tok; split; [left; reflexivity|];
         eapply UCLast; [exact G|exact L|reflexivity]
     end)
  | (injection H as <- _;
     match goal with
     | G : get_pos _ _ = None, X : is_set s_allow_external _ = false |- exists t, In t (?tok :: _) /\ _ =>
         exists tok; split; [left; reflexivity|]; eapply UCNoPos; [exact G|exact X|reflexivity]
     end)
  | (injection H as <- _;
     match goal with
     | E : _ = RErr ?e0 _, Hk' : unknown_kind (e_kind ?e0) |- _ =>
         exfalso; repeat step_in E; try discriminate E; try (injection E as <- _); kill_err
     end) ].

Theorem parse_loop_unknown_sound c : forall toks ls st e st',
  parse_loop c toks ls st = RErr e st' -> unknown_kind (e_kind e) ->
  exists tok, In tok toks /\ unknown_cause c tok e.
Proof.
  induction toks as [|tok rest IH]; intros ls st e st' H Hk; [discriminate H|].
  cbn [parse_loop] in H. cbv zeta in H.
  match type of H with rbind ?ph _ = _ => destruct ph as [[[early ls1] st1]|e1 s1|p1] eqn:Eph end; cbn [rbind] in H.
  3:{ discriminate H. }
  2:{ injection H as <- _. exfalso. repeat step_in Eph; try discriminate Eph.
      all: try (injection Eph as <- _); try kill_err. }
  repeat step_in Eph; try discriminate Eph.
  all: try kill_err.
  all: injection Eph as <- <- <-; cbv beta iota in H.
  all: try (leaf IH H Hk).
  all: repeat step_in H.
  all: try (leaf IH H Hk).
Qed.

(** * 8. one level and its subcommands: [get_matches_with] *)
Lemma fold_res_err {A B} (f : B -> A -> res A) (l : list B) e st' :
  forall r, fold_left (fun rst b => do st <- rst; f b st) l r = RErr e st' ->
  (exists s, r = RErr e s) \/ exists b st, In b l /\ (exists s, f b st = RErr e s).
Proof.
  induction l as [|b t IH]; intros r H; cbn [fold_left] in H.
  - left. exists st'. exact H.
  - apply IH in H. destruct H as [[s Hs]|[b' [st [Hin Hf]]]].
    + destruct r as [a|e0 s0|p0]; cbn [rbind] in Hs.
      * right. exists b, a. split; [left; reflexivity|exists s; exact Hs].
      * left. exists s0. injection Hs as -> _. reflexivity.
      * discriminate Hs.
    + right. exists b', st. split; [right; exact Hin|exact Hf].
Qed.

Lemma add_env_err c st e st' : add_env c st = RErr e st' -> reaction_error c e.
Proof.
  unfold add_env. intros H.
  apply (fold_res_err (fun a st => if mt_contains (mt st) (a_id a) then ROk st
                                   else match a_env a with
                                        | Some v => do x <- react c None SEnv a [v] None st; ROk (fst x)
                                        | None => ROk st end)) in H.
  destruct H as [[s Hs]|[a [st0 [_ [s Hf]]]]]; [discriminate Hs|].
  destruct (mt_contains (mt st0) (a_id a)); [discriminate Hf|]. destruct (a_env a); [|discriminate Hf].
  destruct (react c None SEnv a [b] None st0) as [x|e1 s1|p1] eqn:Er; cbn [rbind] in Hf; try discriminate Hf.
  injection Hf as <- _. eapply react_err, Er.
Qed.

Lemma add_default_value_err c a st e st' : add_default_value c a st = RErr e st' -> reaction_error c e.
Proof.
  unfold add_default_value. intros H.
  repeat match type of H with
         | (if ?b then _ else _) = _ => destruct b
         | match ?x with _ => _ end = _ => destruct x eqn:?
         | rbind ?r _ = _ => let E := fresh "E" in destruct r eqn:E; cbn [rbind] in H
         end; try discriminate H; injection H as <- _;
    match goal with E : react _ _ _ _ _ _ _ = RErr _ _ |- _ => eapply react_err, E end.
Qed.

Lemma add_defaults_err c st e st' : add_defaults c st = RErr e st' -> reaction_error c e.
Proof.
  unfold add_defaults. intros H. apply (fold_res_err (fun a st => add_default_value c a st)) in H.
  destruct H as [[s Hs]|[a [st0 [_ [s Hf]]]]]; [discriminate Hs|]. eapply add_default_value_err, Hf.
Qed.

Lemma validate_kinds c m k a :
  validate c m = VErr k a ->
  In k [EDisplayHelpOnMissing; EMissingSubcommand; EArgumentConflict; EMissingRequiredArgument].
Proof.
  unfold validate. destruct (conflicts_with_args c m) as [pot|]; [|discriminate].
  destruct (negb (is_some (mt_sub m)) && is_set s_arg_required_else_help c && is_nil (explicit_entries m));
    [intros H; injection H as <- _; cbn; tauto|].
  destruct (negb (is_some (mt_sub m)) && is_set s_sub_required c); [intros H; injection H as <- _; cbn; tauto|].
  destruct (validate_conflicts c m pot) as [|k' a'|s] eqn:Ev.
  - destruct (is_set s_subs_negate_reqs c && is_some (mt_sub m)); [discriminate|].
    destruct (missing_required c m pot) as [[|y t]|]; try discriminate. intros H; injection H as <- _; cbn; tauto.
  - intros H; injection H as <- _. apply validate_conflicts_kind in Ev. subst k'. cbn; tauto.
  - discriminate.
Qed.

(** the [help] subcommand walk: InvalidSubcommand names a word that is no subcommand of the level reached *)
Lemma help_walk_sound : forall names sc,
  let e := help_walk sc names in
  e_kind e = EDisplayHelp \/
  (e_kind e = EInvalidSubcommand /\ In (e_arg e) names /\
   exists sc', find_subcommand sc' (e_arg e) = None \/ (exists s, find_subcommand sc' (e_arg e) = Some s /\ build_subcommand sc' (c_name s) = None)).
Proof.
  induction names as [|n rest IH]; intros sc; cbn [help_walk]; [left; reflexivity|].
  destruct (find_subcommand sc n) as [s|] eqn:Ef.
  - destruct (build_subcommand sc (c_name s)) as [s'|] eqn:Eb.
    + destruct (IH s') as [H|[H1 [H2 H3]]]; [left; exact H|right]. split; [exact H1|]. split; [right; exact H2|exact H3].
    + right. cbn. split; [reflexivity|]. split; [left; reflexivity|]. exists sc. right. exists s. split; assumption.
  - right. cbn. split; [reflexivity|]. split; [left; reflexivity|]. exists sc. left. exact Ef.
Qed.

Lemma validate_not_unknown c m st e st' :
  vres_to_res c (validate c m) st = RErr e st' -> unknown_kind (e_kind e) -> False.
Proof.
  destruct (validate c m) as [|k a|s] eqn:Ev; cbn [vres_to_res]; try discriminate. intros H Hk. injection H as <- _.
  apply validate_kinds in Ev. cbn [e_kind mkerr] in Hk. destruct Hk as [Hk|Hk]; subst k; cbn in Ev;
    repeat (destruct Ev as [Ev|Ev]; [discriminate Ev|]); exact Ev.
Qed.

Lemma external_fill_not_unknown c vp st vals e st' : forall r,
  (forall e0 s0, r <> RErr e0 s0) ->
  fold_left (fun rm v => do m <- rm;
                         match vp_parse vp v with
                         | Some k => RErr (mkerr c k []) st
                         | None => expect 458 (add_val_to m ext_id v)
                         end) vals r = RErr e st' ->
  unknown_kind (e_kind e) -> False.
Proof.
  intros r Hr H Hk.
  apply (fold_res_err (fun v m => match vp_parse vp v with
                                  | Some k => RErr (mkerr c k []) st
                                  | None => expect 458 (add_val_to m ext_id v) end)) in H.
  destruct H as [[s Hs]|[v [m [_ [s Hf]]]]]; [eapply Hr, Hs|].
  destruct (vp_parse vp v) as [k|] eqn:Ev; [|eapply expect_not_err, Hf].
  injection Hf as <- _. apply vp_parse_reject_sound in Ev. destruct Ev as [_ [Hin _]].
  cbn [e_kind mkerr] in Hk. destruct Hk as [Hk|Hk]; subst k; cbn in Hin;
    repeat (destruct Hin as [Hin|Hin]; [discriminate Hin|]); exact Hin.
Qed.

(** an "unknown token" error of a whole level (with its subcommand levels) is either the token-loop
    error of some level -- justified by [parse_loop_unknown_sound] -- or the error of the [help]
    subcommand walk -- justified by [help_walk_sound] *)
Theorem get_matches_unknown_sound : forall fuel c toks st0 e st',
  get_matches_with fuel c toks st0 = RErr e st' -> unknown_kind (e_kind e) ->
  (exists c' toks' tok, In tok toks' /\ unknown_cause c' tok e) \/ (exists sc names, e = help_walk sc names).
Proof.
  induction fuel as [|f IH]; intros c toks st0 e st' H Hk; [discriminate H|].
  cbn [get_matches_with] in H. cbv zeta in H.
  match type of H with match ?parsed with _ => _ end = _ => destruct parsed as [stp|ep sp|pp] eqn:Ep end.
  - (* the loop and the subcommand succeeded: pending / env / defaults / validate *)
    exfalso. repeat step_in H; try discriminate H.
    all: try (injection H as <- _).
    all: try kill_err.
    all: try (eapply reaction_not_unknown; [|exact Hk]; first [eapply add_env_err; eassumption|eapply add_defaults_err; eassumption]).
    all: try (eapply validate_not_unknown; eassumption).
  - assert (He : e = ep).
    { repeat step_in H; try discriminate H; injection H as <- _; reflexivity. }
    subst ep. clear H.
    repeat step_in Ep; try discriminate Ep.
    all: try (injection Ep as <- _).
    all: try kill_err.
    all: try (exfalso; cbn [e_kind mkerr] in Hk; destruct Hk as [Hk|Hk]; discriminate Hk).
    all: try (left; match goal with E : parse_loop ?c ?toks _ _ = RErr ?e _ |- _ =>
                       destruct (parse_loop_unknown_sound _ _ _ _ _ _ E Hk) as [t [Ht Hc]];
                       exists c, toks, t; split; [exact Ht|exact Hc] end).
    all: try (match goal with E : get_matches_with _ _ _ _ = RErr ?e _ |- _ => eapply IH; [exact E|exact Hk] end).
    all: try (right; eexists _, _; reflexivity).
    all: try (exfalso; eapply external_fill_not_unknown; [|eassumption|exact Hk]; discriminate).
  - discriminate H.
Qed.

Lemma do_parse_err c0 toks e :
  do_parse c0 toks = OErr e -> exists fuel c st0 st', get_matches_with fuel c toks st0 = RErr e st'.
Proof.
  unfold do_parse. destruct (negb (valid c0)); [discriminate|].
  destruct (get_matches_with _ (build_self c0) toks ps_new) as [s|e1 s1|p] eqn:Eg.
  - discriminate.
  - destruct (is_set s_ignore_errors (build_self c0) && use_stderr (e_kind e1)); [discriminate|].
    intros H; injection H as <-. eexists _, _, _, _. exact Eg.
  - destruct p; discriminate.
Qed.

(** the whole parse: an UnknownArgument / InvalidSubcommand rejection is justified *)
Theorem parse_top_unknown_sound c0 argv e :
  parse_top c0 argv = OErr e -> unknown_kind (e_kind e) ->
  (exists c' toks' tok, In tok toks' /\ unknown_cause c' tok e) \/ (exists sc names, e = help_walk sc names).
Proof.
  unfold parse_top. intros H Hk.
  assert (Hd : exists c1 toks, do_parse c1 toks = OErr e).
  { destruct (is_set s_no_binary_name c0); [eexists _, _; exact H|].
    destruct argv as [|bin rest]; eexists _, _; exact H. }
  destruct Hd as [c1 [toks Hd]]. apply do_parse_err in Hd. destruct Hd as [fuel [c [st0 [st' Hg]]]].
  eapply get_matches_unknown_sound; eassumption.
Qed.

Example unknown_example :
  let c := (cmd_new [112]) <| c_about := Some [65] |> in
  match parse_top c [[112]; [45; 45; 122]] with OErr e => e_kind e = EUnknownArgument | _ => False end.
Proof. vm_compute. reflexivity. Qed.
