(** C10: rejections are justified -- per error site of the parser model, the kind names a rule
    the input really breaks, and inputs that break no rule of that site are not rejected.

    Sites covered here, each for ALL inputs of the model:
    - [verify_num_args]   (value count per occurrence: InvalidValue(empty) / WrongNumberOfValues /
                           TooFewValues / TooManyValues) -- sound and complete
    - [vp_parse], [push_arg_values]  (value outside the parser's language) -- sound and complete
    - [react_core]        (classification of every error the reaction to one occurrence raises)
    - [parse_long_arg], [short_loop], [match_arg_error]  (unknown token triage)
    - [validate]          (ArgumentConflict: an explicitly present conflicting pair / exclusive
                           argument; MissingRequiredArgument: not explicitly present and required
                           by a rule) *)
From ClapModel Require Import Base.Bytes Base.Machine Base.Utf8 Lex.OsStrExtModel.
From ClapModel Require Import Parse.Cmd Parse.Build Parse.Valid Parse.Matcher Parse.Errors Parse.Validator Parse.Parser.
From Coq Require Import ZArith Lia Bool List.
From RecordUpdate Require Import RecordSet.
Import RecordSetNotations.
Import ListNotations.
Open Scope N_scope.

(** * 1. value count: [verify_num_args] *)

(** the declared range of an argument accepts [n] values *)
Definition count_in_range (r : vrange) (n : N) : Prop := vmin r <= n /\ n <= vmax r.

(** what each count kind claims about the number of values [n] of the occurrence *)
Definition count_breaks (k : ekind) (r : vrange) (n : N) : Prop :=
  match k with
  | EInvalidValue => n = 0 /\ 0 < vmin r                         (* empty_value: no value, at least one needed *)
  | EWrongNumberOfValues => vmin r = vmax r /\ n <> vmin r        (* fixed count, different number given *)
  | ETooFewValues => vmin r <> vmax r /\ n < vmin r
  | ETooManyValues => vmin r <> vmax r /\ vmax r < n
  | _ => False
  end.

Lemma count_breaks_out_of_range k r n : count_breaks k r n -> ~ count_in_range r n.
Proof. unfold count_in_range. destruct k; cbn; try tauto; lia. Qed.

Theorem verify_num_args_sound c a raw st e st' :
  verify_num_args c a raw st = RErr e st' ->
  exists r, a_num a = Some r /\ st' = st /\ e_arg e = a_id a /\ is_set s_ignore_errors c = false /\
            In (e_kind e) [EInvalidValue; EWrongNumberOfValues; ETooFewValues; ETooManyValues] /\
            count_breaks (e_kind e) r (N.of_nat (length raw)).
Proof.
  unfold verify_num_args. destruct (is_set s_ignore_errors c); [discriminate|].
  destruct (a_num a) as [r|]; cbn [expect rbind]; [|discriminate].
  intros H. exists r. split; [reflexivity|].
  assert (Hfin : forall k, In k [EInvalidValue; EWrongNumberOfValues; ETooFewValues; ETooManyValues] ->
            count_breaks k r (N.of_nat (length raw)) ->
            st = st /\ e_arg (mkerr c k (a_id a)) = a_id a /\ false = false /\
            In (e_kind (mkerr c k (a_id a))) [EInvalidValue; EWrongNumberOfValues; ETooFewValues; ETooManyValues] /\
            count_breaks (e_kind (mkerr c k (a_id a))) r (N.of_nat (length raw))).
  { intros k Hk Hb. cbn [e_kind e_arg mkerr]. repeat (split; [reflexivity|]). split; assumption. }
  destruct ((0 <? vmin r) && (N.of_nat (length raw) =? 0)) eqn:E0.
  - injection H as <- <-. apply andb_true_iff in E0. destruct E0 as [E1 E2].
    apply N.ltb_lt in E1. apply N.eqb_eq in E2. apply Hfin; [cbn; tauto|]. cbn. split; assumption.
  - unfold r_num_values, r_is_fixed in H. destruct (vmin r =? vmax r) eqn:Ef.
    + apply N.eqb_eq in Ef. destruct (negb (vmin r =? N.of_nat (length raw))) eqn:En; [|discriminate].
      injection H as <- <-. apply negb_true_iff, N.eqb_neq in En. apply Hfin; [cbn; tauto|]. cbn. split; [exact Ef|congruence].
    + apply N.eqb_neq in Ef. destruct (N.of_nat (length raw) <? vmin r) eqn:El.
      * injection H as <- <-. apply N.ltb_lt in El. apply Hfin; [cbn; tauto|]. cbn. split; assumption.
      * destruct (vmax r <? N.of_nat (length raw)) eqn:Eg; [|discriminate].
        destruct raw as [|r0 rt]; [discriminate|]. injection H as <- <-. apply N.ltb_lt in Eg.
        apply Hfin; [cbn; tauto|]. cbn [count_breaks]. split; assumption.
Qed.

(** a rejected count really is outside the declared range *)
Corollary verify_num_args_justified c a raw st e st' r :
  verify_num_args c a raw st = RErr e st' -> a_num a = Some r ->
  ~ count_in_range r (N.of_nat (length raw)).
Proof.
  intros H Hr. destruct (verify_num_args_sound _ _ _ _ _ _ H) as [r' [Hr' [_ [_ [_ [_ Hb]]]]]].
  rewrite Hr in Hr'. injection Hr' as <-. eapply count_breaks_out_of_range, Hb.
Qed.

(** no spurious rejection: a count within the declared range is accepted *)
Theorem verify_num_args_complete c a raw st r :
  a_num a = Some r -> count_in_range r (N.of_nat (length raw)) -> verify_num_args c a raw st = ROk tt.
Proof.
  intros Hr [Hlo Hhi]. unfold verify_num_args. destruct (is_set s_ignore_errors c); [reflexivity|].
  rewrite Hr. cbn [expect rbind].
  destruct ((0 <? vmin r) && (N.of_nat (length raw) =? 0)) eqn:E0.
  - apply andb_true_iff in E0. destruct E0 as [E1 E2]. apply N.ltb_lt in E1. apply N.eqb_eq in E2. lia.
  - unfold r_num_values, r_is_fixed. destruct (vmin r =? vmax r) eqn:Ef.
    + apply N.eqb_eq in Ef. assert (En : vmin r =? N.of_nat (length raw) = true) by (apply N.eqb_eq; lia).
      rewrite En. reflexivity.
    + assert (El : N.of_nat (length raw) <? vmin r = false) by (apply N.ltb_ge; lia).
      assert (Eg : vmax r <? N.of_nat (length raw) = false) by (apply N.ltb_ge; lia).
      rewrite El, Eg. reflexivity.
Qed.

(** the boundary cases, on both sides (non-vacuity of soundness and completeness) *)
Definition ex_arg (lo hi : N) : arg := (arg_new [111]) <| a_num := Some {| vmin := lo; vmax := hi |} |>.
Example verify_boundaries :
  let c := cmd_new [112] in
  let k r := match r with RErr e _ => Some (e_kind e) | ROk _ => None | RPanic _ => None end in
  k (verify_num_args c (ex_arg 2 4) [[1]] ps_new) = Some ETooFewValues /\
  k (verify_num_args c (ex_arg 2 4) [[1]; [1]] ps_new) = None /\
  k (verify_num_args c (ex_arg 2 4) [[1]; [1]; [1]; [1]] ps_new) = None /\
  k (verify_num_args c (ex_arg 2 4) [[1]; [1]; [1]; [1]; [1]] ps_new) = Some ETooManyValues /\
  k (verify_num_args c (ex_arg 2 2) [[1]] ps_new) = Some EWrongNumberOfValues /\
  k (verify_num_args c (ex_arg 2 2) [[1]; [1]; [1]] ps_new) = Some EWrongNumberOfValues /\
  k (verify_num_args c (ex_arg 2 2) [[1]; [1]] ps_new) = None /\
  k (verify_num_args c (ex_arg 1 3) [] ps_new) = Some EInvalidValue /\
  k (verify_num_args c (ex_arg 0 1) [] ps_new) = None.
Proof. cbn. repeat split; reflexivity. Qed.

(** * 2. value language: [vp_parse], [push_arg_values] *)

(** the text of an integer: optional sign, at least one digit, nothing else *)
Fixpoint dec_value (d : bytes) (acc : Z) : Z :=
  match d with [] => acc | ch :: t => dec_value t (acc * 10 + Z.of_N (ch - 48))%Z end.
Definition i64_text (s : bytes) (z : Z) : Prop :=
  exists sign d, s = sign ++ d /\ (sign = [] \/ sign = [45] \/ sign = [43]) /\
                 d <> [] /\ forallb is_digit d = true /\
                 z = (if beq sign [45] then (- dec_value d 0)%Z else dec_value d 0) /\
                 in_i64 z = true.

Lemma digits_val_spec d : forall acc,
  digits_val d acc = if forallb is_digit d then Some (dec_value d acc) else None.
Proof.
  induction d as [|ch t IH]; intros acc; cbn [digits_val forallb dec_value]; [reflexivity|].
  destruct (is_digit ch); cbn [andb]; [apply IH|reflexivity].
Qed.

Definition sign_split (s : bytes) : bool * bytes :=
  match s with 45 :: d => (true, d) | 43 :: d => (false, d) | _ => (false, s) end.
Definition i64_body (p : bool * bytes) : option Z :=
  let '(neg, d) := p in
  match d with
  | [] => None
  | _ => match digits_val d 0%Z with
         | None => None
         | Some v => let v := if neg then (- v)%Z else v in if in_i64 v then Some v else None
         end
  end.
Lemma parse_i64_unfold s : parse_i64 s = i64_body (sign_split s).
Proof. reflexivity. Qed.

Lemma sign_split_spec s :
  (exists d, s = 45 :: d /\ sign_split s = (true, d)) \/
  (exists d, s = 43 :: d /\ sign_split s = (false, d)) \/
  (sign_split s = (false, s) /\ (forall d, s <> 45 :: d) /\ (forall d, s <> 43 :: d)).
Proof.
  destruct s as [|c0 t].
  - right; right. split; [reflexivity|split; intros d; discriminate].
  - destruct (N.eq_dec c0 45) as [->|N45]; [left; exists t; split; reflexivity|].
    destruct (N.eq_dec c0 43) as [->|N43]; [right; left; exists t; split; reflexivity|].
    right; right. split; [|split; intros d H; injection H as H _; contradiction].
    destruct c0 as [|p]; [reflexivity|].
    do 6 (destruct p as [p|p|]; try reflexivity); try (exfalso; apply N45; reflexivity);
      try (exfalso; apply N43; reflexivity).
Qed.

Lemma i64_body_spec neg d z :
  i64_body (neg, d) = Some z <->
  d <> [] /\ forallb is_digit d = true /\
  z = (if neg then (- dec_value d 0)%Z else dec_value d 0) /\ in_i64 z = true.
Proof.
  unfold i64_body. destruct d as [|d0 dt].
  - split; [discriminate|intros [H _]; contradiction H; reflexivity].
  - rewrite digits_val_spec. destruct (forallb is_digit (d0 :: dt)).
    + cbv zeta. split.
      * intros H. destruct (in_i64 (if neg then (- dec_value (d0 :: dt) 0)%Z else dec_value (d0 :: dt) 0)) eqn:Ei;
          [|discriminate]. injection H as <-. repeat split; [discriminate|exact Ei].
      * intros [_ [_ [-> Hi]]]. rewrite Hi. reflexivity.
    + split; [discriminate|intros [_ [H _]]; discriminate H].
Qed.

Lemma parse_i64_spec s z : parse_i64 s = Some z <-> i64_text s z.
Proof.
  rewrite parse_i64_unfold. unfold i64_text.
  destruct (sign_split_spec s) as [[d [-> Hs]]|[[d [-> Hs]]|[Hs [Hn45 Hn43]]]]; rewrite Hs, i64_body_spec.
  - split.
    + intros [H1 [H2 [H3 H4]]]. exists [45], d. repeat split; try assumption. right; left; reflexivity.
    + intros [sign [d' [Heq [Hsign [H1 [H2 [H3 H4]]]]]]].
      destruct Hsign as [-> | [-> | ->]]; cbn [app] in Heq.
      * subst d'. cbn in H2. discriminate H2.
      * injection Heq as <-. cbn in H3. repeat split; assumption.
      * discriminate Heq.
  - split.
    + intros [H1 [H2 [H3 H4]]]. exists [43], d. repeat split; try assumption. right; right; reflexivity.
    + intros [sign [d' [Heq [Hsign [H1 [H2 [H3 H4]]]]]]].
      destruct Hsign as [-> | [-> | ->]]; cbn [app] in Heq.
      * subst d'. cbn in H2. discriminate H2.
      * discriminate Heq.
      * injection Heq as <-. cbn in H3. repeat split; assumption.
  - split.
    + intros [H1 [H2 [H3 H4]]]. exists [], s. repeat split; try assumption. left; reflexivity.
    + intros [sign [d' [Heq [Hsign [H1 [H2 [H3 H4]]]]]]].
      destruct Hsign as [-> | [-> | ->]]; cbn [app] in Heq.
      * subst d'. cbn in H3. repeat split; assumption.
      * exfalso. apply (Hn45 d'). exact Heq.
      * exfalso. apply (Hn43 d'). exact Heq.
Qed.

(** the language of each value parser of the model *)
Definition in_lang (v : vparser) (s : bytes) : Prop :=
  match v with
  | VPString => utf8_valid s = true
  | VPOsString => True
  | VPBool => s = s_true \/ s = s_false
  | VPCount => utf8_valid s = true /\ exists z, i64_text s z /\ (0 <= z <= 255)%Z
  | VPI64 lo hi => utf8_valid s = true /\ exists z, i64_text s z /\ (lo <= z <= hi)%Z
  end.

Lemma ranged_spec lo hi s :
  (if negb (utf8_valid s) then Some EInvalidUtf8
   else match parse_i64 s with
        | Some z => if ((lo <=? z) && (z <=? hi))%Z then None else Some EValueValidation
        | None => Some EValueValidation end) = None
  <-> utf8_valid s = true /\ exists z, i64_text s z /\ (lo <= z <= hi)%Z.
Proof.
  destruct (utf8_valid s); cbn [negb]; [|split; [discriminate|intros [H _]; discriminate H]].
  destruct (parse_i64 s) as [z|] eqn:E.
  - apply parse_i64_spec in E. destruct ((lo <=? z)%Z && (z <=? hi)%Z) eqn:Er.
    + split; [intros _|reflexivity]. split; [reflexivity|]. exists z. split; [exact E|].
      apply andb_true_iff in Er. destruct Er as [E1 E2]. apply Z.leb_le in E1. apply Z.leb_le in E2. lia.
    + split; [discriminate|]. intros [_ [z' [Hz' Hr]]]. apply parse_i64_spec in Hz'. apply parse_i64_spec in E.
      rewrite E in Hz'. injection Hz' as <-.
      assert ((lo <=? z)%Z && (z <=? hi)%Z = true).
      { apply andb_true_iff. split; apply Z.leb_le; lia. }
      congruence.
  - split; [discriminate|]. intros [_ [z [Hz _]]]. apply parse_i64_spec in Hz. congruence.
Qed.

(** accepted exactly when the value is in the parser's language: no spurious rejection,
    no rejection without cause *)
Theorem vp_parse_accepts_iff v s : vp_parse v s = None <-> in_lang v s.
Proof.
  destruct v as [| | | |lo hi]; cbn [vp_parse in_lang].
  - destruct (utf8_valid s); split; try reflexivity; try discriminate; intros H; exact H.
  - tauto.
  - destruct (beq s s_true) eqn:E1; [|destruct (beq s s_false) eqn:E2]; cbn [orb].
    + apply beq_eq in E1. split; [intros _; left; exact E1|reflexivity].
    + apply beq_eq in E2. split; [intros _; right; exact E2|reflexivity].
    + apply beq_neq in E1. apply beq_neq in E2. split; [discriminate|tauto].
  - apply (ranged_spec 0 255).
  - apply ranged_spec.
Qed.

Theorem vp_parse_reject_sound v s k :
  vp_parse v s = Some k ->
  ~ in_lang v s /\ In k [EInvalidUtf8; EInvalidValue; EValueValidation] /\
  (k = EInvalidUtf8 -> utf8_valid s = false).
Proof.
  intros H. split; [|split].
  - intros Hl. apply vp_parse_accepts_iff in Hl. congruence.
  - destruct v; cbn [vp_parse] in H;
      repeat match type of H with
             | (if ?x then _ else _) = _ => destruct x
             | match ?x with _ => _ end = _ => destruct x
             end; try discriminate H; injection H as <-; cbn; tauto.
  - intros ->. destruct v; cbn [vp_parse] in H; destruct (utf8_valid s); try reflexivity; cbn [negb] in H;
      repeat match type of H with
             | (if ?x then _ else _) = _ => destruct x
             | match ?x with _ => _ end = _ => destruct x
             end; discriminate H.
Qed.

(** [push_arg_values] rejects only because one of the pushed values is outside the language of the
    argument's value parser, and reports the kind the value parser gave *)
Theorem push_arg_values_sound c a : forall raw st e st',
  push_arg_values c a raw st = RErr e st' ->
  exists vp v, a_vp a = Some vp /\ In v raw /\ vp_parse vp v = Some (e_kind e) /\
               ~ in_lang vp v /\ e_arg e = a_id a.
Proof.
  induction raw as [|v t IH]; intros st e st'; cbn [push_arg_values]; [discriminate|].
  destruct (a_vp a) as [vp|]; cbn [expect rbind]; [|discriminate].
  destruct (vp_parse vp v) as [k|] eqn:Ev.
  - intros H; injection H as <- <-. exists vp, v. repeat split; try reflexivity; [left; reflexivity|exact Ev|].
    apply (vp_parse_reject_sound _ _ _ Ev).
  - destruct (add_val_to _ _ _); cbn [expect rbind]; [|discriminate].
    destruct (add_index_to _ _ _); cbn [expect rbind]; [|discriminate].
    intros H. destruct (IH _ _ _ H) as [vp' [v' [H1 [H2 H3]]]].
    exists vp', v'. split; [exact H1|]. split; [right; exact H2|exact H3].
Qed.

(** values all in the language: never a value error *)
Theorem push_arg_values_complete c a : forall raw st e st' vp,
  a_vp a = Some vp -> (forall v, In v raw -> in_lang vp v) -> push_arg_values c a raw st <> RErr e st'.
Proof.
  intros raw st e st' vp Hvp Hall H. destruct (push_arg_values_sound _ _ _ _ _ _ H) as [vp' [v [H1 [H2 [_ [H4 _]]]]]].
  rewrite Hvp in H1. injection H1 as <-. apply H4, Hall, H2.
Qed.

Example vp_reject_example : vp_parse (VPI64 (-5) 300) [51; 48; 49] = Some EValueValidation.   (* "301" *)
Proof. reflexivity. Qed.
Example vp_accept_example : vp_parse (VPI64 (-5) 300) [51; 48; 48] = None.                    (* "300" *)
Proof. reflexivity. Qed.
Example vp_accept_neg_example : vp_parse (VPI64 (-5) 300) [45; 53] = None.                     (* "-5" *)
Proof. reflexivity. Qed.
Example vp_reject_neg_example : vp_parse (VPI64 (-5) 300) [45; 54] = Some EValueValidation.    (* "-6" *)
Proof. reflexivity. Qed.
