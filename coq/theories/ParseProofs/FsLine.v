(** C01, round 5 (D): the line side of the recorded finding.  For EVERY definition the gate accepts, a line in which no
    token is a short cluster of more than one character (`-x` is fine, `-xy` / `-x=v` / `-xVALUE` are not) never
    reaches a panic site: [flag_subcmd_at] is set only when a short flag-subcommand letter is FOLLOWED by more of its
    cluster, so on such lines the resume state stays [None]/[0] at every level, whatever the nesting of short
    flag-subcommands.  Together with FsTotality.v (definition side) and FsAny.v (only 920): a panic needs a definition
    outside [flag_sub_class] AND a multi-character cluster on the line, and then it is the assertion 920.

    Proof: [FsInv.parse_loop_fs] (FsInvariant.v, invariant [at = None \/ no short flag-subcommands here], [skip = 0]) says
    that a [keep_state] result comes with a [resumable] token list (its first token is a cluster with at least two
    characters); [SitesGuards.sub_tokens_suffix] says that this token list is a suffix of the level's own: on a line of
    the class that is impossible, so every level is entered with a fresh state. *)
From ClapModel Require Import Base.Bytes Base.Machine Base.Utf8 Lex.LexModel.
From ClapModel Require Import Parse.Cmd Parse.Build Parse.Valid Parse.Matcher Parse.Errors Parse.Validator Parse.Parser.
From ClapModel Require Import ParseProofs.Safe ParseProofs.Invariant ParseProofs.Totality
                              ParseProofs.Relations ParseProofs.ValidateTotal ParseProofs.TotalityMain
                              ParseProofs.FlagSubClass ParseProofs.FsInvariant ParseProofs.FsTotality ParseProofs.FsAny
                              ParseProofs.SitesGuards.
From Coq Require Import ZArith Lia.
From RecordUpdate Require Import RecordSet.
Import RecordSetNotations.
Open Scope N_scope.

Definition multi_cluster (t : bytes) : bool :=
  match to_short t with
  | Some r => match sf_next r with Some (inl _, _ :: _) => true | _ => false end
  | None => false
  end.
Definition single_clusters (toks : list bytes) : bool := forallb (fun t => negb (multi_cluster t)) toks.

Lemma first_ok_multi tok r : to_short tok = Some r -> FsInv.first_ok r -> multi_cluster tok = true.
Proof.
  intros Es [ch [r' [Hn Hr']]]. unfold multi_cluster. rewrite Es, Hn. destruct r'; [contradiction|reflexivity].
Qed.

Lemma single_clusters_suffix s l : is_suffix s l -> single_clusters l = true -> single_clusters s = true.
Proof.
  intros [pre ->] H. unfold single_clusters in *. rewrite forallb_app in H. apply andb_true_iff in H. apply H.
Qed.

Definition Gl (c : cmd) : ps -> Prop := FsInv.G c trivP trivV (FAc c) FS0.

Lemma GT_of_Gl' c st : Gl c st -> GT c st.
Proof. intros [H _]. split; [exact H|split; exact I]. Qed.

Lemma gmw_line : forall fuel c toks st0, tree_ok_any fuel c -> single_clusters toks = true -> Gl c st0 ->
  safe (GT c) (GT c) (get_matches_with fuel c toks st0).
Proof.
  induction fuel as [|f IH]; intros c toks st0 Hok Hline Hentry; [destruct Hok|].
  destruct (trivP_closed c) as [PC1 [PC2 [PC3 [PC4 [PC5 PC0]]]]].
  destruct (trivV_ok c toks) as [[V1 [V2 [V3 [V4 [V5 [V6 [V7 V8]]]]]]] HVtoks].
  destruct Hok as [Hwf [Happ Hch]]. pose proof Hwf as [W1 [W2 [W3 W5]]].
  assert (HFA : forall a, FAc c a <-> FsInv.W4c c \/ a = None) by (intros a; reflexivity).
  assert (HFS : forall s, FS0 s <-> s = 0) by (intros s; reflexivity).
  cbn [get_matches_with].
  match goal with |- safe _ _ (match ?pp with ROk _ => _ | RErr _ _ => _ | RPanic _ => _ end) => set (parsed := pp) end.
  assert (Hparsed : safe (GT c) (GT c) parsed).
  { subst parsed.
    assert (Hloop : safe (FsInv.lr_ok c trivP trivV) (Gl c)
                         (parse_loop c toks (mkL PSValuesDone 1 false false) st0)).
    { eapply FsInv.parse_loop_fs; try eassumption; try exact I. }
    destruct (parse_loop c toks (mkL PSValuesDone 1 false false) st0) as [lr|e0 s0|x0] eqn:Eloop;
      cbn in Hloop; cbn [rbind]; [|apply GT_of_Gl'; exact Hloop|contradiction].
    destruct lr as [st|name keep vaf st rest|name vals st|names st].
    + split; [exact Hloop|split; exact I].
    + destruct Hloop as [HGs [[sc0 Hfind] Hkeep]].
      assert (HGT : GT c st) by (split; [exact HGs|split; exact I]).
      pose proof (sub_tokens_suffix _ _ _ _ _ _ _ _ _ Eloop) as Hsuf.
      destruct (is_set s_args_negate_subs c && vaf); [exact HGT|].
      rewrite Hfind. cbn [expect rbind].
      destruct (build_subcommand c (c_name sc0)) as [sc|] eqn:Eb; [|exact HGT].
      pose proof (Hch _ _ Eb) as Hsc.
      destruct f as [|f']; [destruct Hsc|].
      pose proof Hsc as [_ [Happsc _]]. rewrite Happsc. cbn [negb].
      assert (Hk : keep = false).
      { destruct keep; [|reflexivity]. exfalso.
        destruct (Hkeep eq_refl) as [_ [_ [tok [rest' [r [Er [Es Hfo]]]]]]]. subst rest.
        pose proof (single_clusters_suffix _ _ Hsuf Hline) as Hs. cbn [single_clusters forallb] in Hs.
        rewrite (first_ok_multi _ _ Es Hfo) in Hs. discriminate. }
      subst keep.
      assert (Hsub : safe (GT sc) (GT sc) (get_matches_with (S f') sc rest ps_new)).
      { apply IH; [exact Hsc|eapply single_clusters_suffix; eassumption|].
        apply FsInv.G_ps_new; [exact I|right; reflexivity|reflexivity]. }
      destruct (get_matches_with (S f') sc rest ps_new) as [sub_st|e sub_st|site]; cbn in Hsub.
      * apply FsInv.G_set_sub; exact HGT.
      * destruct (is_set s_ignore_errors c); [apply FsInv.G_set_sub; exact HGT|exact HGT].
      * contradiction.
    + assert (HGT : GT c st) by (split; [exact Hloop|split; exact I]).
      match goal with |- safe _ _ (rbind ?fl _) => set (filled := fl) end.
      assert (Hfill : match filled with ROk _ => True | RErr _ s => s = st | RPanic _ => False end).
      { subst filled. apply external_fill_safe. cbn.
        eexists. split; [reflexivity|]. cbn. discriminate. }
      destruct filled as [m|e s|x]; cbn [rbind]; [|subst s; exact HGT|contradiction].
      apply FsInv.G_set_sub; exact HGT.
    + split; [exact Hloop|split; exact I]. }
  destruct parsed as [st|e st|site]; cbn in Hparsed; [| |contradiction].
  - eapply safe_bind; [eapply FsInv.resolve_pending_safe; eassumption|].
    intros st1 [HG1 _].
    eapply safe_bind; [eapply FsInv.add_env_safe; eassumption|].
    intros st2 HG2.
    eapply safe_bind; [eapply FsInv.add_defaults_safe; eassumption|].
    intros st3 HG3. unfold vres_to_res.
    destruct (validate c (mt st3)) as [|k a|s] eqn:Ev; [exact HG3|exact HG3|].
    exfalso. revert Ev. apply validate_total; [apply assert_app_rel_wf; exact Happ|apply HG3].
  - destruct (is_set s_ignore_errors c); [|exact Hparsed].
    assert (Hr : safe (GT c) (GT c) (resolve_pending c st)).
    { eapply safe_weaken; [eapply FsInv.resolve_pending_safe; eassumption|intros a Ha; exact (proj1 Ha)|auto]. }
    destruct (resolve_pending c st) as [s0|e0 s0|x0]; cbn in Hr; [| |contradiction].
    all: assert (He : safe (GT c) (GT c) (add_env c s0)) by (eapply FsInv.add_env_safe; eassumption).
    all: destruct (add_env c s0) as [s1|e1 s1|x1]; cbn in He; [| |contradiction].
    all: assert (Hd : safe (GT c) (GT c) (add_defaults c s1)) by (eapply FsInv.add_defaults_safe; eassumption).
    all: destruct (add_defaults c s1) as [s2|e2 s2|x2]; cbn in Hd; [exact Hd|exact Hd|contradiction].
Qed.

Theorem do_parse_single_clusters c0 toks : unbuilt c0 = true -> valid c0 = true -> single_clusters toks = true ->
  match do_parse c0 toks with OPanicked _ | OOutOfFuel => False | _ => True end.
Proof.
  intros Hu Hv Hl. unfold do_parse. rewrite Hv. cbn [negb].
  unfold valid in Hv. cbn zeta in Hv.
  pose proof (tree_ok_any_of_unbuilt _ _ Hu Hv) as Hok.
  assert (Hentry : Gl (build_self c0) ps_new) by (apply FsInv.G_ps_new; [exact I|right; reflexivity|reflexivity]).
  pose proof (gmw_line _ (build_self c0) toks ps_new Hok Hl Hentry) as Hs.
  destruct (get_matches_with _ (build_self c0) toks ps_new) as [st|e st|s]; cbn in Hs.
  - exact I.
  - destruct (is_set s_ignore_errors (build_self c0) && use_stderr (e_kind e)); exact I.
  - contradiction.
Qed.
