(** Property C04, round 4: the value parsers the parser model can now NAME.

    [Cmd.vparser] gained [VPBoolish], [VPFalsey], [VPNonEmpty], [VPPossible ic pvs] and
    [VPRanged t lo hi]; [Parser.vp_parse] delegates them to the C04 models of Value/*.v
    ([BoolParse.boolish_parse] ... [IntFactory.ranged_parse]).  Hence the typed invariant of
    TypedInv.v / TypedMerge.v (every value a parse stores for an argument was accepted by that
    argument's value parser) speaks about them, and this file reads it per parser:

    - [stored_reading vp s]: the DOCUMENTED language of each of the ten parsers together with the typed
      value stored next to the raw one; [accepts_reading]: accepted by the parser model <-> in that
      language (both directions: nothing else is stored, nothing inside is refused);
    - [stored_boolish] ... [stored_ranged]: per parser, for any typed level;
    - [hidden_accepted], [possible_exact], [possible_caseless]: hidden possible values are accepted,
      without [ignore_case] only the exact spelling is, with it the caseless one is;
    - [ranged_no_wrap]: a ranged parser of a narrow type never accepts a string whose reading is
      outside the type, whatever the declared bounds;
    - [parse_top_stored], [parse_top_root_stored]: the reading at every level of what [parse_top]
      reports (through the globals merge, under [globals_consistent] as in TypedMerge.v);
    - [stored_possible_arg]: with the argument's own [ignore_case] ([pv_coherent]);
    - [in_lang_reading]: C10's language predicate is the documented language;
    - [ranged_alias]: [VPRanged I64 lo hi] = [VPI64 lo hi], [VPRanged U8 0 255] = [VPCount];
    - [outside_reading_rejected], [rejected_outside_reading]: outside the language = one of the three
      value-error kinds, and conversely. *)
From Coq Require Import ZArith List Bool Lia.
From ClapModel Require Import Base.Bytes Base.Machine Base.Utf8.
From ClapModel Require Value.ValueBase Value.IntParse Value.IntParseProofs Value.IntFactory Value.IntFactoryProofs
                       Value.BoolParse Value.BoolParseProofs Value.PossibleValues Value.PossibleValuesProofs
                       Value.ValueParsers.
From ClapModel Require Gen.BoolTables.
From ClapModel Require Import Parse.Cmd Parse.Build Parse.Valid Parse.Matcher Parse.Errors Parse.Validator Parse.Parser.
From ClapModel Require Import ParseProofs.Safe ParseProofs.Relations ParseProofs.Globals ParseProofs.Dispatch
                              ParseProofs.TypedInv ParseProofs.TypedView ParseProofs.TypedMerge.
From ClapModel Require ParseProofs.ErrorSound.
Import ListNotations.
Open Scope N_scope.

Module BT := ClapModel.Gen.BoolTables.

(** * acceptance through [vres_kind] *)
Lemma vres_kind_accepts {A} (r : VB.vresult A) : vres_kind r = None <-> exists a, r = VB.VOk a.
Proof.
  destruct r as [a|k]; cbn [vres_kind].
  - split; [intros _; exists a; reflexivity|reflexivity].
  - split; [discriminate|intros [a H]; discriminate H].
Qed.

(** * the typed value of each new parser is the C04 model's result *)
Lemma tv_boolish s b : typed_value Cmd.VPBoolish s = Some (TVal (VP.TVBool b)) <-> BP.boolish_parse s = VB.VOk b.
Proof.
  unfold typed_value. cbn [embed VP.vparse]. destruct (BP.boolish_parse s) as [b'|k]; cbn [VP.vmap].
  - split; intros H; inversion H; reflexivity.
  - split; intros H; discriminate H.
Qed.
Lemma tv_falsey s b : typed_value Cmd.VPFalsey s = Some (TVal (VP.TVBool b)) <-> BP.falsey_parse s = VB.VOk b.
Proof.
  unfold typed_value. cbn [embed VP.vparse]. destruct (BP.falsey_parse s) as [b'|k]; cbn [VP.vmap].
  - split; intros H; inversion H; reflexivity.
  - split; intros H; discriminate H.
Qed.
Lemma tv_nonempty s s' : typed_value Cmd.VPNonEmpty s = Some (TVal (VP.TVStr s')) <-> BP.nonempty_parse s = VB.VOk s'.
Proof.
  unfold typed_value. cbn [embed VP.vparse]. destruct (BP.nonempty_parse s) as [b'|k]; cbn [VP.vmap].
  - split; intros H; inversion H; reflexivity.
  - split; intros H; discriminate H.
Qed.
Lemma tv_possible ic pvs s s' :
  typed_value (Cmd.VPPossible ic pvs) s = Some (TVal (VP.TVStr s')) <->
  PV.possible_parse clap_unicode ic (map fst pvs) s = VB.VOk s'.
Proof.
  unfold typed_value. cbn [embed VP.vparse]. destruct (PV.possible_parse clap_unicode ic (map fst pvs) s) as [b'|k]; cbn [VP.vmap].
  - split; intros H; inversion H; reflexivity.
  - split; intros H; discriminate H.
Qed.
Lemma tv_ranged t lo hi s z :
  typed_value (Cmd.VPRanged t lo hi) s = Some (TVal (VP.TVInt z)) <->
  IF_.ranged_parse (ity_pkind t) (VB.Included lo, VB.Included hi) t s = VB.VOk z.
Proof.
  unfold typed_value. cbn [embed VP.vparse].
  destruct (IF_.ranged_parse (ity_pkind t) (VB.Included lo, VB.Included hi) t s) as [b'|k]; cbn [VP.vmap].
  - split; intros H; inversion H; reflexivity.
  - split; intros H; discriminate H.
Qed.

(** * the documented languages *)
(** [+-]?[0-9]+ for the widths that go through [RangedI64ValueParser], +?[0-9]+ for u64 *)
Definition ranged_signed (t : VB.ity) : bool := match t with VB.U64 => false | _ => true end.

Lemma ranged_signed_kind t : IFP.kind_signed (ity_pkind t) = ranged_signed t.
Proof. destruct t; reflexivity. Qed.
Lemma ity_pkind_kind t : ity_pkind t = IFP.factory_kind t.
Proof. destruct t; reflexivity. Qed.

(** a ranged parser: well-formed UTF-8, a decimal, the UNBOUNDED integer reading inside the declared
    bounds and inside the target type *)
Definition ranged_reading (t : VB.ity) (lo hi : Z) (s : bytes) : Prop :=
  utf8_valid s = true /\ IPP.decimal (ranged_signed t) s /\
  (lo <= IPP.intval s <= hi)%Z /\ (VB.ity_min t <= IPP.intval s <= VB.ity_max t)%Z.

Lemma ranged_parse_reading t lo hi s z :
  IF_.ranged_parse (ity_pkind t) (VB.Included lo, VB.Included hi) t s = VB.VOk z <->
  ranged_reading t lo hi s /\ z = IPP.intval s.
Proof.
  rewrite IFP.ranged_parse_ok. rewrite ranged_signed_kind. unfold ranged_reading, IPP.in_range. cbn [fst snd].
  split.
  - intros (U & D & I & _ & R & T). subst z. split; [|reflexivity].
    split; [exact U|]. split; [exact D|]. split; [exact R|exact T].
  - intros [(U & D & R & T) ->]. split; [exact U|]. split; [exact D|]. split; [reflexivity|].
    split; [rewrite ity_pkind_kind; apply (IFP.ity_in_carrier t _ T)|]. split; [exact R|exact T].
Qed.

(** a possible-value parser: a declared name or alias of ANY value of the list, hidden or not;
    [PVP.name_eq uni ic n s] is [n = s] without [ignore_case], the caseless comparison with it *)
Definition declared (ic : bool) (pvs : list (PV.possible_value * bool)) (s : bytes) : Prop :=
  exists pv h n, In (pv, h) pvs /\ In n (PV.name_and_aliases pv) /\ PVP.name_eq clap_unicode ic n s.

Lemma declared_declares ic pvs s : PVP.declares clap_unicode ic (map fst pvs) s <-> declared ic pvs s.
Proof.
  unfold PVP.declares, declared. split.
  - intros (pv & n & Hin & Hn & He). apply in_map_iff in Hin. destruct Hin as [[pv' h] [Hf Hin]]. cbn [fst] in Hf. subst pv'.
    exists pv, h, n. repeat split; assumption.
  - intros (pv & h & n & Hin & Hn & He). exists pv, n. split; [|split; assumption].
    apply in_map_iff. exists (pv, h). split; [reflexivity|exact Hin].
Qed.

(** what a stored raw value looks like and which typed value sits next to it, per value parser *)
Definition stored_reading (vp : Cmd.vparser) (s : bytes) : Prop :=
  match vp with
  | Cmd.VPString => utf8_valid s = true /\ typed_value vp s = Some (TVal (VP.TVStr s))
  | Cmd.VPOsString => typed_value vp s = Some (TOs s)
  | Cmd.VPBool => exists b : bool, s = (if b then BP.lit_true else BP.lit_false) /\
                                   typed_value vp s = Some (TVal (VP.TVBool b))
  | Cmd.VPCount => int_reading 0 255 0 255 s /\ typed_value vp s = Some (TVal (VP.TVInt (IPP.intval s)))
  | Cmd.VPI64 lo hi => int_reading lo hi i64_min i64_max s /\
                       typed_value vp s = Some (TVal (VP.TVInt (IPP.intval s)))
  | Cmd.VPBoolish =>
      utf8_valid s = true /\
      exists b : bool, (exists l, In l (BPP.literals b) /\ BPP.ascii_ci_eq s l) /\
                       typed_value vp s = Some (TVal (VP.TVBool b))
  | Cmd.VPFalsey =>
      utf8_valid s = true /\
      exists b : bool, (b = false <-> s = [] \/ exists l, In l BT.false_literals /\ BPP.ascii_ci_eq s l) /\
                       typed_value vp s = Some (TVal (VP.TVBool b))
  | Cmd.VPNonEmpty => s <> [] /\ utf8_valid s = true /\ typed_value vp s = Some (TVal (VP.TVStr s))
  | Cmd.VPPossible ic pvs =>
      utf8_valid s = true /\ declared ic pvs s /\ typed_value vp s = Some (TVal (VP.TVStr s))
  | Cmd.VPRanged t lo hi =>
      ranged_reading t lo hi s /\ typed_value vp s = Some (TVal (VP.TVInt (IPP.intval s)))
  end.

(** THE LANGUAGE EQUALITY for the parser model's names: accepted <-> documented *)
Theorem accepts_reading vp s : accepts vp s <-> stored_reading vp s.
Proof.
  destruct vp as [| | | |lo hi| | | |ic pvs|t lo hi]; cbn [stored_reading].
  - split; [apply accepted_string|]. intros [_ H]. apply typed_value_accepts. eexists; exact H.
  - split; [intros _; reflexivity|intros _; reflexivity].
  - split; [apply accepted_bool|]. intros [b [_ H]]. apply typed_value_accepts. eexists; exact H.
  - split; [apply accepted_count|]. intros [_ H]. apply typed_value_accepts. eexists; exact H.
  - split; [apply accepted_i64|]. intros [_ H]. apply typed_value_accepts. eexists; exact H.
  - unfold accepts. cbn [vp_parse]. rewrite vres_kind_accepts. split.
    + intros [b Hb]. pose proof Hb as Hs. apply BPP.boolish_parse_spec in Hs. destruct Hs as [U L].
      split; [exact U|]. exists b. split; [exact L|]. apply tv_boolish. exact Hb.
    + intros [U [b [L _]]]. exists b. apply BPP.boolish_parse_spec. split; assumption.
  - unfold accepts. cbn [vp_parse]. rewrite vres_kind_accepts. split.
    + intros [b Hb]. pose proof Hb as Hs. apply BPP.falsey_parse_spec in Hs. destruct Hs as [U L].
      split; [exact U|]. exists b. split; [exact L|]. apply tv_falsey. exact Hb.
    + intros [U [b [L _]]]. exists b. apply BPP.falsey_parse_spec. split; assumption.
  - unfold accepts. cbn [vp_parse]. rewrite vres_kind_accepts. split.
    + intros [s' Hb]. pose proof Hb as Hs. apply BPP.nonempty_parse_spec in Hs. destruct Hs as (N & U & ->).
      split; [exact N|]. split; [exact U|]. apply tv_nonempty. exact Hb.
    + intros (N & U & _). exists s. apply BPP.nonempty_parse_spec. repeat split; assumption.
  - unfold accepts. cbn [vp_parse]. rewrite vres_kind_accepts. split.
    + intros [s' Hb]. pose proof Hb as Hs. apply PVP.possible_parse_spec in Hs. destruct Hs as (U & -> & D).
      split; [exact U|]. split; [apply declared_declares; exact D|]. apply tv_possible. exact Hb.
    + intros (U & D & _). exists s. apply PVP.possible_parse_spec. split; [exact U|]. split; [reflexivity|].
      apply declared_declares. exact D.
  - unfold accepts. cbn [vp_parse]. rewrite vres_kind_accepts. split.
    + intros [z Hb]. pose proof Hb as Hs. apply ranged_parse_reading in Hs. destruct Hs as [R ->].
      split; [exact R|]. apply tv_ranged. exact Hb.
    + intros [R _]. exists (IPP.intval s). apply ranged_parse_reading. split; [exact R|reflexivity].
Qed.

(** * possible values: hidden ones, exact spelling, caseless spelling *)
Lemma name_eq_refl ic n : PVP.name_eq clap_unicode ic n n.
Proof.
  unfold PVP.name_eq, PVP.caseless_eq, BPP.ascii_ci_eq. destruct ic; [|reflexivity].
  destruct clap_unicode; [|reflexivity]. destruct (PV.is_ascii n && PV.is_ascii n); reflexivity.
Qed.

(** a declared name or alias is accepted whether or not its value is hidden, with or without
    [ignore_case] (a seeded change filtered the hidden values out before matching) *)
Theorem hidden_accepted ic pvs pv h n :
  In (pv, h) pvs -> In n (PV.name_and_aliases pv) -> utf8_valid n = true ->
  accepts (Cmd.VPPossible ic pvs) n /\
  typed_value (Cmd.VPPossible ic pvs) n = Some (TVal (VP.TVStr n)).
Proof.
  intros Hin Hn U.
  assert (D : declared ic pvs n) by (exists pv, h, n; repeat split; try assumption; apply name_eq_refl).
  assert (P : PV.possible_parse clap_unicode ic (map fst pvs) n = VB.VOk n).
  { apply PVP.possible_parse_spec. split; [exact U|]. split; [reflexivity|]. apply declared_declares. exact D. }
  split; [|apply tv_possible; exact P].
  apply accepts_reading. cbn [stored_reading]. split; [exact U|]. split; [exact D|]. apply tv_possible. exact P.
Qed.

(** without [ignore_case]: byte-for-byte one of the declared names or aliases *)
Theorem possible_exact pvs s :
  accepts (Cmd.VPPossible false pvs) s <->
  utf8_valid s = true /\ exists pv h, In (pv, h) pvs /\ In s (PV.name_and_aliases pv).
Proof.
  rewrite accepts_reading. cbn [stored_reading]. unfold declared, PVP.name_eq. split.
  - intros (U & (pv & h & n & Hin & Hn & ->) & _). split; [exact U|]. exists pv, h. split; assumption.
  - intros (U & pv & h & Hin & Hn).
    destruct (hidden_accepted false pvs pv h s Hin Hn U) as [_ T].
    split; [exact U|]. split; [|exact T]. exists pv, h, s. repeat split; assumption.
Qed.

(** with [ignore_case]: ASCII names match ASCII candidates ASCII-case-insensitively *)
Theorem possible_caseless pvs pv h n s :
  In (pv, h) pvs -> In n (PV.name_and_aliases pv) -> PV.is_ascii n = true -> PV.is_ascii s = true ->
  BPP.ascii_ci_eq n s -> accepts (Cmd.VPPossible true pvs) s.
Proof.
  intros Hin Hn An As E. unfold accepts. cbn [vp_parse]. apply vres_kind_accepts. exists s.
  apply PVP.possible_parse_spec. split; [apply PVP.ascii_utf8_valid; exact As|]. split; [reflexivity|].
  exists pv, n. split; [apply in_map_iff; exists (pv, h); split; [reflexivity|exact Hin]|]. split; [exact Hn|].
  unfold PVP.name_eq, PVP.caseless_eq. destruct clap_unicode; [|exact E]. rewrite An, As. exact E.
Qed.

(** * ranged parsers never wrap: outside the type = refused, whatever the declared bounds *)
Theorem ranged_no_wrap t lo hi s :
  accepts (Cmd.VPRanged t lo hi) s -> (VB.ity_min t <= IPP.intval s <= VB.ity_max t)%Z /\ (lo <= IPP.intval s <= hi)%Z.
Proof. rewrite accepts_reading. cbn [stored_reading]. unfold ranged_reading. intros [(_ & _ & R & T) _]. split; assumption. Qed.

(** ... and every decimal inside both is accepted: the language is exactly that *)
Theorem ranged_complete t lo hi s :
  utf8_valid s = true -> IPP.decimal (ranged_signed t) s ->
  (lo <= IPP.intval s <= hi)%Z -> (VB.ity_min t <= IPP.intval s <= VB.ity_max t)%Z ->
  accepts (Cmd.VPRanged t lo hi) s.
Proof.
  intros U D R T. unfold accepts. cbn [vp_parse]. apply vres_kind_accepts. exists (IPP.intval s).
  apply ranged_parse_reading. split; [|reflexivity]. split; [exact U|]. split; [exact D|]. split; [exact R|exact T].
Qed.

(** * the stored values of an entry, per new value parser (any typed level) *)
Section StoredWide.
Variable c : cmd.
Variable l : list (id * marg).
Hypothesis HT : typed_entries c l.
Variables (i : id) (m : marg) (a : arg).
Hypothesis Hin : In (i, m) l.
Hypothesis Hf : find_arg c i = Some a.

Theorem stored_any vp : a_vp a = Some vp -> Forall (Forall (stored_reading vp)) (m_raw m).
Proof.
  intros Hvp. apply (stored_forall c l HT i m a Hin Hf vp _ Hvp). intros s. apply accepts_reading.
Qed.

Theorem stored_boolish : a_vp a = Some Cmd.VPBoolish ->
  Forall (Forall (fun s => utf8_valid s = true /\
                           exists b : bool, (exists lit, In lit (BPP.literals b) /\ BPP.ascii_ci_eq s lit) /\
                                            typed_value Cmd.VPBoolish s = Some (TVal (VP.TVBool b)))) (m_raw m).
Proof. intros Hvp. exact (stored_any _ Hvp). Qed.

Theorem stored_falsey : a_vp a = Some Cmd.VPFalsey ->
  Forall (Forall (fun s => utf8_valid s = true /\
                           exists b : bool, (b = false <-> s = [] \/ exists lit, In lit BT.false_literals /\ BPP.ascii_ci_eq s lit) /\
                                            typed_value Cmd.VPFalsey s = Some (TVal (VP.TVBool b)))) (m_raw m).
Proof. intros Hvp. exact (stored_any _ Hvp). Qed.

Theorem stored_nonempty : a_vp a = Some Cmd.VPNonEmpty ->
  Forall (Forall (fun s => s <> [] /\ utf8_valid s = true /\
                           typed_value Cmd.VPNonEmpty s = Some (TVal (VP.TVStr s)))) (m_raw m).
Proof. intros Hvp. exact (stored_any _ Hvp). Qed.

Theorem stored_possible ic pvs : a_vp a = Some (Cmd.VPPossible ic pvs) ->
  Forall (Forall (fun s => utf8_valid s = true /\
                           (exists pv h n, In (pv, h) pvs /\ In n (PV.name_and_aliases pv) /\
                                           PVP.name_eq clap_unicode ic n s) /\
                           typed_value (Cmd.VPPossible ic pvs) s = Some (TVal (VP.TVStr s)))) (m_raw m).
Proof. intros Hvp. exact (stored_any _ Hvp). Qed.

Theorem stored_ranged t lo hi : a_vp a = Some (Cmd.VPRanged t lo hi) ->
  Forall (Forall (fun s => (utf8_valid s = true /\ IPP.decimal (ranged_signed t) s /\
                            (lo <= IPP.intval s <= hi)%Z /\ (VB.ity_min t <= IPP.intval s <= VB.ity_max t)%Z) /\
                           typed_value (Cmd.VPRanged t lo hi) s = Some (TVal (VP.TVInt (IPP.intval s))))) (m_raw m).
Proof. intros Hvp. exact (stored_any _ Hvp). Qed.
End StoredWide.

(** * at [parse_top]: every level of what is reported, through the globals merge *)
Definition read_lv (sp : spec) (l : list (id * marg)) : Prop :=
  forall i ma vp, fm_get i l = Some ma -> sp i = Some vp -> Forall (Forall (stored_reading vp)) (m_raw ma).

Lemma typed_lv_read sp l : typed_lv sp l -> read_lv sp l.
Proof.
  intros H i ma vp Hg Hs. pose proof (H i ma vp Hg Hs) as HF.
  eapply Forall_impl; [|exact HF]. intros g Hgr. eapply Forall_impl; [|exact Hgr]. intros s. apply accepts_reading.
Qed.

Lemma Forall2_typed_read : forall sps lv, Forall2 typed_lv sps lv -> Forall2 read_lv sps lv.
Proof. induction 1; constructor; [apply typed_lv_read; assumption|assumption]. Qed.

Theorem parse_top_stored c0 argv m : parse_top c0 argv = OOk m ->
  exists c0' st sps, (c0' = c0 \/ exists b, c0' = with_bin c0 (Some b)) /\
    m = reported c0' st /\
    chain_specs (build_self c0') (into_inner (mt st)) sps /\
    (globals_consistent
       (used_global_args (S (matches_depth (into_inner (mt st))))
          (build_recursive (S (S (depth (build_self c0')))) c0') (into_inner (mt st)))
       sps (levels (into_inner (mt st))) ->
     Forall2 read_lv sps (levels m)).
Proof.
  unfold parse_top. intros H.
  assert (D : forall c1 toks, do_parse c1 toks = OOk m ->
            exists st sps, m = reported c1 st /\ chain_specs (build_self c1) (into_inner (mt st)) sps /\
              (globals_consistent
                 (used_global_args (S (matches_depth (into_inner (mt st))))
                    (build_recursive (S (S (depth (build_self c1)))) c1) (into_inner (mt st)))
                 sps (levels (into_inner (mt st))) -> Forall2 read_lv sps (levels m))).
  { intros c1 toks Hd. destruct (do_parse_merged_typed c1 toks m Hd) as (st & sps & Hm & Hc & Hf).
    exists st, sps. split; [exact Hm|]. split; [exact Hc|]. intros Hg. apply Forall2_typed_read. apply Hf. exact Hg. }
  destruct (is_set s_no_binary_name c0).
  { destruct (D _ _ H) as (st & sps & Hst). exists c0, st, sps. split; [left; reflexivity|exact Hst]. }
  destruct argv as [|bin rest].
  { destruct (D _ _ H) as (st & sps & Hst). exists c0, st, sps. split; [left; reflexivity|exact Hst]. }
  destruct (c_bin_name c0).
  { destruct (D _ _ H) as (st & sps & Hst). exists c0, st, sps. split; [left; reflexivity|exact Hst]. }
  destruct (utf8_valid bin && negb (is_nil bin)).
  - destruct (D _ _ H) as (st & sps & Hst). eexists _, st, sps. split; [right; eexists; reflexivity|exact Hst].
  - destruct (D _ _ H) as (st & sps & Hst). exists c0, st, sps. split; [left; reflexivity|exact Hst].
Qed.

Lemma chain_specs_head c m sps : chain_specs c m sps -> exists rest, sps = cmd_spec c :: rest.
Proof. intros H. inversion H; subst; eexists; reflexivity. Qed.

Lemma levels_head m : exists rest, levels m = ms_args m :: rest.
Proof. destruct m as [a [[n s]|]]; cbn [levels ms_args]; eexists; reflexivity. Qed.

(** the root level, spelled out: what [ArgMatches::get_raw] of the top-level matches can return for an
    argument of the (built) root definition lies in the documented language of that argument's parser *)
Theorem parse_top_root_stored c0 argv m : parse_top c0 argv = OOk m ->
  exists c0' st sps, (c0' = c0 \/ exists b, c0' = with_bin c0 (Some b)) /\
    m = reported c0' st /\
    chain_specs (build_self c0') (into_inner (mt st)) sps /\
    (globals_consistent
       (used_global_args (S (matches_depth (into_inner (mt st))))
          (build_recursive (S (S (depth (build_self c0')))) c0') (into_inner (mt st)))
       sps (levels (into_inner (mt st))) ->
     forall i ma a vp, fm_get i (ms_args m) = Some ma -> find_arg (build_self c0') i = Some a -> a_vp a = Some vp ->
       Forall (Forall (stored_reading vp)) (m_raw ma)).
Proof.
  intros H. destruct (parse_top_stored c0 argv m H) as (c0' & st & sps & Hc0 & Hm & Hc & Hf).
  exists c0', st, sps. split; [exact Hc0|]. split; [exact Hm|]. split; [exact Hc|].
  intros Hg i ma a vp Hget Hfa Hvp. specialize (Hf Hg).
  destruct (chain_specs_head _ _ _ Hc) as [rest ->]. destruct (levels_head m) as [lrest El]. rewrite El in Hf.
  inversion Hf as [|? ? ? ? Hhead _]; subst.
  apply (Hhead i ma vp Hget). unfold cmd_spec. rewrite Hfa. exact Hvp.
Qed.

(** [stored_reading] unfolded for the five parsers of round 4 (definitional) *)
Lemma stored_reading_wide_spec s :
  (stored_reading Cmd.VPBoolish s <->
   utf8_valid s = true /\
   exists b : bool, (exists l, In l (BPP.literals b) /\ BPP.ascii_ci_eq s l) /\
                    typed_value Cmd.VPBoolish s = Some (TVal (VP.TVBool b))) /\
  (stored_reading Cmd.VPFalsey s <->
   utf8_valid s = true /\
   exists b : bool, (b = false <-> s = [] \/ exists l, In l BT.false_literals /\ BPP.ascii_ci_eq s l) /\
                    typed_value Cmd.VPFalsey s = Some (TVal (VP.TVBool b))) /\
  (stored_reading Cmd.VPNonEmpty s <->
   s <> [] /\ utf8_valid s = true /\ typed_value Cmd.VPNonEmpty s = Some (TVal (VP.TVStr s))) /\
  (forall ic pvs,
   stored_reading (Cmd.VPPossible ic pvs) s <->
   utf8_valid s = true /\
   (exists pv h n, In (pv, h) pvs /\ In n (PV.name_and_aliases pv) /\ PVP.name_eq clap_unicode ic n s) /\
   typed_value (Cmd.VPPossible ic pvs) s = Some (TVal (VP.TVStr s))) /\
  (forall t lo hi,
   stored_reading (Cmd.VPRanged t lo hi) s <->
   (utf8_valid s = true /\ IPP.decimal (ranged_signed t) s /\
    (lo <= IPP.intval s <= hi)%Z /\ (VB.ity_min t <= IPP.intval s <= VB.ity_max t)%Z) /\
   typed_value (Cmd.VPRanged t lo hi) s = Some (TVal (VP.TVInt (IPP.intval s)))).
Proof.
  split; [split; intros H; exact H|]. split; [split; intros H; exact H|]. split; [split; intros H; exact H|].
  split; [intros ic pvs; split; intros H; exact H|intros t lo hi; split; intros H; exact H].
Qed.

(** the [ignore_case] a possible-value parser works with is the argument's own flag ([pv_coherent]: what
    the spec reader establishes for every argument it builds) *)
Theorem stored_possible_arg c l i m a ic pvs :
  typed_entries c l -> In (i, m) l -> find_arg c i = Some a ->
  a_vp a = Some (Cmd.VPPossible ic pvs) -> pv_coherent a = true ->
  Forall (Forall (fun s => utf8_valid s = true /\
                           exists pv h n, In (pv, h) pvs /\ In n (PV.name_and_aliases pv) /\
                                          PVP.name_eq clap_unicode (a_ignore_case a) n s)) (m_raw m).
Proof.
  intros HT Hin Hf Hvp Hc. unfold pv_coherent in Hc. rewrite Hvp in Hc. apply Bool.eqb_prop in Hc. subst ic.
  pose proof (stored_possible c l HT i m a Hin Hf _ _ Hvp) as H.
  eapply Forall_impl; [|exact H]. intros g Hg. eapply Forall_impl; [|exact Hg].
  intros s (U & D & _). split; assumption.
Qed.

Lemma read_lv_spec sp l :
  read_lv sp l <->
  (forall i ma vp, fm_get i l = Some ma -> sp i = Some vp -> Forall (Forall (stored_reading vp)) (m_raw ma)).
Proof. split; intros H; exact H. Qed.

(** C10's language predicate ([ErrorSound.in_lang], the one its pinned statements negate: "the rejected value is
    NOT in the language of the argument's parser") is the documented language *)
Theorem in_lang_reading vp s : ClapModel.ParseProofs.ErrorSound.in_lang vp s <-> stored_reading vp s.
Proof. rewrite <- ClapModel.ParseProofs.ErrorSound.vp_parse_accepts_iff. apply accepts_reading. Qed.

(** * two names, one parser: the model's older constructors are instances of [VPRanged] *)
Theorem embed_determines vp1 vp2 p s : embed vp1 = Some p -> embed vp2 = Some p -> vp_parse vp1 s = vp_parse vp2 s.
Proof.
  intros E1 E2. pose proof (bridge vp1 p s E1) as B1. pose proof (bridge vp2 p s E2) as B2.
  destruct (VP.vparse p s) as [v|k]; congruence.
Qed.

(** [value_parser!(i64).range(lo..=hi)] under either name; the u8 parser of [ArgAction::Count] is
    [value_parser!(u8)] = [VPRanged U8 0 255] *)
Theorem ranged_alias lo hi s :
  vp_parse (Cmd.VPRanged VB.I64 lo hi) s = vp_parse (Cmd.VPI64 lo hi) s /\
  vp_parse (Cmd.VPRanged VB.U8 0 255) s = vp_parse Cmd.VPCount s.
Proof.
  split.
  - apply (embed_determines _ _ (VP.VPRanged VB.PI64 (VB.Included lo, VB.Included hi) VB.I64)); reflexivity.
  - apply (embed_determines _ _ (VP.VPRanged VB.PI64 (VB.Included 0%Z, VB.Included 255%Z) VB.U8)); [reflexivity|].
    cbn [embed]. rewrite factory_u8. reflexivity.
Qed.

(** "anything else is rejected with a value error": outside the documented language the parser model answers
    one of the three value-error kinds, [InvalidUtf8] only for ill-formed input -- for all ten names *)
Theorem outside_reading_rejected vp s : ~ stored_reading vp s ->
  exists k, vp_parse vp s = Some k /\ In k [EInvalidUtf8; EInvalidValue; EValueValidation] /\
            (k = EInvalidUtf8 -> utf8_valid s = false).
Proof.
  intros Hn. destruct (vp_parse vp s) as [k|] eqn:E.
  - exists k. split; [reflexivity|]. apply (ClapModel.ParseProofs.ErrorSound.vp_parse_reject_sound vp s k E).
  - exfalso. apply Hn. apply accepts_reading. exact E.
Qed.

(** ... and conversely a rejection means the string is outside it *)
Theorem rejected_outside_reading vp s k : vp_parse vp s = Some k -> ~ stored_reading vp s.
Proof. intros E H. apply accepts_reading in H. unfold accepts in H. congruence. Qed.
