(** C01, round 5: the top-level theorems without the "under every program name" hypotheses, and the
    error-ignoring contract stated at [parse_top] for the user-level setting.

    [parse_top] stores the program name taken from argv[0] in the definition before it is built.  Neither the
    configuration gate [valid] nor the class [flag_sub_class] reads [c_bin_name]/[c_display_name]: [build_self]
    commutes with an update of the two fields ([build_self_setbd]); [build_subcommand] of two definitions that
    differ only there yields children that differ only there ([build_subcommand_setbd]); [assert_app] and the
    class conditions ignore them.  Hence [valid_bin_name], [flag_sub_class_bin_name] (by induction on the fuel of
    [valid_tree]/[fs_tree]), and [parse_top_total_fs_any_bin]: the hypotheses of the main theorem are the two
    booleans of the definition as the user wrote it.

    [ignore_errors_build_self]: [_build_self] neither sets nor clears IgnoreErrors, so the setting the parser reads
    on the built root is the one the user wrote ([Command::ignore_errors] = the global setting, [c_gset], or the local
    one).  [parse_top_ignore_errors_exact]: for every definition of the class that the gate accepts and that has the
    setting, and EVERY argv, the outcome is matches or an error of kind DisplayHelp / DisplayVersion -- not a
    panic, not out-of-fuel, not "invalid configuration", not any other error kind. *)
From ClapModel Require Import Base.Bytes Base.Machine Base.Utf8.
From ClapModel Require Import Parse.Cmd Parse.Build Parse.Valid Parse.Matcher Parse.Errors Parse.Validator Parse.Parser.
From ClapModel Require Import ParseProofs.Safe ParseProofs.Totality ParseProofs.TotalityMain ParseProofs.FlagSubClass ParseProofs.FsTotality ParseProofs.FsAny ParseProofs.FsLine ParseProofs.FsResume.
From ClapModel Require ParseProofs.Sites.
From ClapModel Require Import Errors.RenderModel Errors.RenderLink.
From Coq Require Import ZArith Lia.
From RecordUpdate Require Import RecordSet.
Import RecordSetNotations.
Open Scope N_scope.

Definition setbd (b d : option bytes) (c : cmd) : cmd := c <| c_bin_name := b |> <| c_display_name := d |>.

Lemma assert_app_setbd b d c : assert_app (setbd b d c) = assert_app c.
Proof. destruct c. reflexivity. Qed.

Lemma sb_set b d c x : (setbd b d c) <| c_set := x |> = setbd b d (c <| c_set := x |>).
Proof. destruct c; reflexivity. Qed.
Lemma sb_args b d c x : (setbd b d c) <| c_args := x |> = setbd b d (c <| c_args := x |>).
Proof. destruct c; reflexivity. Qed.
Lemma sb_subs b d c x : (setbd b d c) <| c_subs := x |> = setbd b d (c <| c_subs := x |>).
Proof. destruct c; reflexivity. Qed.
Lemma sb_c_set b d c : c_set (setbd b d c) = c_set c. Proof. destruct c; reflexivity. Qed.
Lemma sb_c_gset b d c : c_gset (setbd b d c) = c_gset c. Proof. destruct c; reflexivity. Qed.
Lemma sb_c_args b d c : c_args (setbd b d c) = c_args c. Proof. destruct c; reflexivity. Qed.
Lemma sb_c_subs b d c : c_subs (setbd b d c) = c_subs c. Proof. destruct c; reflexivity. Qed.
Lemma sb_c_ext b d c : c_ext_vp (setbd b d c) = c_ext_vp c. Proof. destruct c; reflexivity. Qed.
Lemma sb_is_set f b d c : is_set f (setbd b d c) = is_set f c. Proof. destruct c; reflexivity. Qed.
Lemma sb_has_subs b d c : has_subcommands (setbd b d c) = has_subcommands c. Proof. destruct c; reflexivity. Qed.
Lemma sb_dvf b d c : is_disable_version_flag_set (setbd b d c) = is_disable_version_flag_set c. Proof. destruct c; reflexivity. Qed.
Lemma sb_help_sub b d c : help_subcommand (setbd b d c) = help_subcommand c. Proof. destruct c; reflexivity. Qed.

Ltac ifs := repeat match goal with |- context[if ?x then _ else _] => destruct x end.
Ltac push := repeat (rewrite ?sb_set, ?sb_args, ?sb_subs, ?sb_c_set, ?sb_c_gset, ?sb_c_args, ?sb_c_subs, ?sb_c_ext, ?sb_is_set, ?sb_has_subs, ?sb_dvf, ?sb_help_sub).

Lemma bs_settings_setbd b d c : bs_settings (setbd b d c) = setbd b d (bs_settings c).
Proof.
  unfold bs_settings. cbv zeta. push.
  destruct (is_set s_args_negate_subs _); push; destruct (is_some _); push; destruct (negb _); push; reflexivity.
Qed.
Lemma bs_propagate_setbd b d c : bs_propagate (setbd b d c) = setbd b d (bs_propagate c).
Proof. destruct c. reflexivity. Qed.
Lemma bs_help_version_setbd b d c : bs_help_version (setbd b d c) = setbd b d (bs_help_version c).
Proof.
  unfold bs_help_version. cbv zeta. push.
  destruct (negb (is_set s_disable_help_flag c)); push; destruct (negb (is_disable_version_flag_set _)); push;
  destruct (negb (is_set s_disable_help_sub _)); push; reflexivity.
Qed.
Lemma bs_globals_setbd b d c : bs_globals (setbd b d c) = setbd b d (bs_globals c).
Proof. destruct c. reflexivity. Qed.
Lemma bs_args_setbd b d c : bs_args (setbd b d c) = setbd b d (bs_args c).
Proof. destruct c. reflexivity. Qed.
Lemma bs_deprecated_setbd b d c : bs_deprecated (setbd b d c) = setbd b d (bs_deprecated c).
Proof. destruct c. reflexivity. Qed.
Lemma bs_mark_setbd b d c : bs_mark (setbd b d c) = setbd b d (bs_mark c).
Proof. destruct c. reflexivity. Qed.
Lemma build_self_setbd b d c : build_self (setbd b d c) = setbd b d (build_self c).
Proof.
  unfold build_self. rewrite sb_c_set.
  destruct (s_built (c_set c)); [reflexivity|].
  rewrite bs_settings_setbd, bs_propagate_setbd, bs_help_version_setbd, bs_globals_setbd, bs_args_setbd, bs_deprecated_setbd, bs_mark_setbd.
  reflexivity.
Qed.

Lemma setbd_setbd b d b' d' c : setbd b' d' (setbd b d c) = setbd b' d' c.
Proof. destruct c; reflexivity. Qed.
Lemma depth_setbd b d c : depth (setbd b d c) = depth c.
Proof. destruct c; reflexivity. Qed.
Lemma sb_c_name b d c : c_name (setbd b d c) = c_name c. Proof. destruct c; reflexivity. Qed.

Lemma build_subcommand_setbd b d c n :
  match build_subcommand c n with
  | None => build_subcommand (setbd b d c) n = None
  | Some sc => exists b' d', build_subcommand (setbd b d c) n = Some (setbd b' d' sc)
  end.
Proof.
  unfold build_subcommand. rewrite sb_c_subs.
  destruct (find (fun s => beq (c_name s) n) (c_subs c)) as [s|]; [|reflexivity].
  cbv zeta.
  set (X := match c_bin_name c with Some b0 => b0 ++ [32] ++ c_name s | None => c_name s end).
  set (X' := match c_bin_name (setbd b d c) with Some b0 => b0 ++ [32] ++ c_name s | None => c_name s end).
  destruct (c_display_name s) as [ds|] eqn:Ed.
  - replace (c_display_name (s <| c_bin_name := Some X |>)) with (Some ds) by (destruct s; exact (eq_sym Ed)).
    replace (c_display_name (s <| c_bin_name := Some X' |>)) with (Some ds) by (destruct s; exact (eq_sym Ed)).
    exists (Some X'), (Some ds).
    replace (s <| c_bin_name := Some X' |>) with (setbd (Some X') (Some ds) s) by (destruct s; cbn in Ed; rewrite Ed; reflexivity).
    replace (s <| c_bin_name := Some X |>) with (setbd (Some X) (Some ds) s) by (destruct s; cbn in Ed; rewrite Ed; reflexivity).
    rewrite !build_self_setbd, setbd_setbd. reflexivity.
  - replace (c_display_name (s <| c_bin_name := Some X |>)) with (@None bytes) by (destruct s; exact (eq_sym Ed)).
    replace (c_display_name (s <| c_bin_name := Some X' |>)) with (@None bytes) by (destruct s; exact (eq_sym Ed)).
    match goal with |- exists b' d', Some (build_self (_ <| c_display_name := Some ?Y' |>)) = Some (setbd b' d' (build_self (_ <| c_display_name := Some ?Y |>))) =>
      exists (Some X'), (Some Y');
      replace (s <| c_bin_name := Some X' |> <| c_display_name := Some Y' |>) with (setbd (Some X') (Some Y') s) by (destruct s; reflexivity);
      replace (s <| c_bin_name := Some X |> <| c_display_name := Some Y |>) with (setbd (Some X) (Some Y) s) by (destruct s; reflexivity)
    end.
    rewrite !build_self_setbd, setbd_setbd. reflexivity.
Qed.

Lemma forallb_ext' {A} (f g : A -> bool) l : (forall x, f x = g x) -> forallb f l = forallb g l.
Proof. intros H. induction l as [|x l IH]; [reflexivity|]. cbn. rewrite H, IH. reflexivity. Qed.

Lemma valid_tree_setbd : forall f b d c, valid_tree f (setbd b d c) = valid_tree f c.
Proof.
  induction f as [|f IH]; intros b d c; [reflexivity|].
  cbn [valid_tree]. rewrite assert_app_setbd, sb_c_subs. f_equal.
  apply forallb_ext'. intros s.
  pose proof (build_subcommand_setbd b d c (c_name s)) as H.
  destruct (build_subcommand c (c_name s)) as [sc|].
  - destruct H as (b' & d' & H). rewrite H. apply IH.
  - rewrite H. reflexivity.
Qed.

Lemma bin_is_setbd c b : c <| c_bin_name := b |> = setbd b (c_display_name c) c.
Proof. destruct c; reflexivity. Qed.

Theorem valid_bin_name c0 b : valid (c0 <| c_bin_name := b |>) = valid c0.
Proof.
  rewrite bin_is_setbd. unfold valid. cbv zeta. rewrite build_self_setbd, depth_setbd. apply valid_tree_setbd.
Qed.

Lemma resumed_okb_setbd b d c : resumed_okb (setbd b d c) = resumed_okb c.
Proof. destruct c; reflexivity. Qed.

Lemma fs_tree_setbd : forall f b d c r, fs_tree f (setbd b d c) r = fs_tree f c r.
Proof.
  induction f as [|f IH]; intros b d c r; [reflexivity|].
  cbn [fs_tree]. rewrite resumed_okb_setbd, sb_c_subs. f_equal.
  apply forallb_ext'. intros s. f_equal.
  pose proof (build_subcommand_setbd b d c (c_name s)) as H.
  destruct (build_subcommand c (c_name s)) as [sc|].
  - destruct H as (b' & d' & H). rewrite H. apply IH.
  - rewrite H. reflexivity.
Qed.

Theorem flag_sub_class_bin_name c0 b : flag_sub_class (c0 <| c_bin_name := b |>) = flag_sub_class c0.
Proof.
  rewrite bin_is_setbd. unfold flag_sub_class. cbv zeta. rewrite sb_c_set, build_self_setbd, depth_setbd, fs_tree_setbd. reflexivity.
Qed.

Lemma ignore_errors_build_self c : is_set s_ignore_errors (build_self c) = is_set s_ignore_errors c.
Proof.
  unfold build_self. destruct (s_built (c_set c)); [reflexivity|].
  assert (H1 : is_set s_ignore_errors (bs_settings c) = is_set s_ignore_errors c).
  { unfold bs_settings. cbv zeta.
    set (c1 := c <| c_set := settings_or (c_set c) (c_gset c) |>).
    assert (E1 : is_set s_ignore_errors c1 = is_set s_ignore_errors c).
    { destruct c as [? ? ? ? ? ? ? ? ? cs cg ? ? ? ? ? ? ?]. destruct cs, cg. unfold is_set. cbn.
      destruct s_ignore_errors, s_ignore_errors0; reflexivity. }
    destruct (is_set s_args_negate_subs c1).
    - set (c2 := c1 <| c_set := _ |>).
      assert (E2 : is_set s_ignore_errors c2 = is_set s_ignore_errors c1) by (subst c2; destruct c1 as [? ? ? ? ? ? ? ? ? cs cg ? ? ? ? ? ? ?]; destruct cs; reflexivity).
      destruct (is_some (c_ext_vp c2)).
      + set (c3 := c2 <| c_set := _ |>).
        assert (E3 : is_set s_ignore_errors c3 = is_set s_ignore_errors c2) by (subst c3; destruct c2 as [? ? ? ? ? ? ? ? ? cs cg ? ? ? ? ? ? ?]; destruct cs; reflexivity).
        destruct (negb (has_subcommands c3)); [|congruence].
        transitivity (is_set s_ignore_errors c3); [|congruence].
        destruct c3 as [? ? ? ? ? ? ? ? ? cs cg ? ? ? ? ? ? ?]; destruct cs; reflexivity.
      + destruct (negb (has_subcommands c2)); [|congruence].
        transitivity (is_set s_ignore_errors c2); [|congruence].
        destruct c2 as [? ? ? ? ? ? ? ? ? cs cg ? ? ? ? ? ? ?]; destruct cs; reflexivity.
    - destruct (is_some (c_ext_vp c1)).
      + set (c3 := c1 <| c_set := _ |>).
        assert (E3 : is_set s_ignore_errors c3 = is_set s_ignore_errors c1) by (subst c3; destruct c1 as [? ? ? ? ? ? ? ? ? cs cg ? ? ? ? ? ? ?]; destruct cs; reflexivity).
        destruct (negb (has_subcommands c3)); [|congruence].
        transitivity (is_set s_ignore_errors c3); [|congruence].
        destruct c3 as [? ? ? ? ? ? ? ? ? cs cg ? ? ? ? ? ? ?]; destruct cs; reflexivity.
      + destruct (negb (has_subcommands c1)); [|congruence].
        transitivity (is_set s_ignore_errors c1); [|congruence].
        destruct c1 as [? ? ? ? ? ? ? ? ? cs cg ? ? ? ? ? ? ?]; destruct cs; reflexivity. }
  assert (H2 : forall x, is_set s_ignore_errors (bs_propagate x) = is_set s_ignore_errors x) by (intros x; destruct x; reflexivity).
  assert (H3 : forall x, is_set s_ignore_errors (bs_help_version x) = is_set s_ignore_errors x).
  { intros x. unfold bs_help_version. cbv zeta.
    repeat match goal with |- context[if ?b then _ else _] => destruct b end; destruct x; reflexivity. }
  assert (H4 : forall x, is_set s_ignore_errors (bs_globals x) = is_set s_ignore_errors x) by (intros x; destruct x; reflexivity).
  assert (H5 : forall x, is_set s_ignore_errors (bs_args x) = is_set s_ignore_errors x) by (intros x; destruct x; reflexivity).
  assert (H6 : forall x, is_set s_ignore_errors (bs_deprecated x) = is_set s_ignore_errors x) by (intros x; destruct x; reflexivity).
  assert (H7 : forall x, is_set s_ignore_errors (bs_mark x) = is_set s_ignore_errors x) by (intros x; destruct x as [? ? ? ? ? ? ? ? ? cs cg ? ? ? ? ? ? ?]; destruct cs; reflexivity).
  rewrite H7, H6, H5, H4, H3, H2. exact H1.
Qed.

Theorem parse_top_total_fs_any_bin c0 argv :
  flag_sub_class c0 = true -> valid c0 = true ->
  match parse_top c0 argv with OPanicked _ | OOutOfFuel => False | _ => True end.
Proof.
  intros Hc Hv. apply parse_top_total_fs; try assumption; intros b.
  - rewrite flag_sub_class_bin_name. exact Hc.
  - rewrite valid_bin_name. exact Hv.
Qed.

Definition matches_or_help_version (o : outcome) : Prop :=
  match o with
  | OOk _ => True
  | OErr e => e_kind e = EDisplayHelp \/ e_kind e = EDisplayVersion
  | OPanicked _ | OOutOfFuel | OInvalidConfig => False
  end.

Theorem do_parse_ignore_errors_exact c0 toks :
  flag_sub_class c0 = true -> valid c0 = true -> is_set s_ignore_errors c0 = true ->
  matches_or_help_version (do_parse c0 toks).
Proof.
  intros Hc Hv Hig.
  pose proof (do_parse_total_fs c0 toks Hc Hv) as T.
  pose proof (do_parse_ignore_errors c0 toks) as I. rewrite ignore_errors_build_self in I. specialize (I Hig).
  unfold matches_or_help_version.
  destruct (do_parse c0 toks) eqn:E; try exact I; try exact T.
  unfold do_parse in E. rewrite Hv in E. cbn [negb] in E.
  destruct (get_matches_with _ _ _ _) as [st|e st|s]; try discriminate.
  - destruct (_ && _); discriminate.
  - destruct s; discriminate.
Qed.

Lemma is_set_bin_name f c b : is_set f (c <| c_bin_name := b |>) = is_set f c.
Proof. destruct c; reflexivity. Qed.

Theorem parse_top_ignore_errors_exact c0 argv :
  flag_sub_class c0 = true -> valid c0 = true -> is_set s_ignore_errors c0 = true ->
  matches_or_help_version (parse_top c0 argv).
Proof.
  intros Hc Hv Hig. unfold parse_top.
  destruct (is_set s_no_binary_name c0); [apply do_parse_ignore_errors_exact; assumption|].
  destruct argv as [|bin rest]; [apply do_parse_ignore_errors_exact; assumption|].
  destruct (c_bin_name c0); [apply do_parse_ignore_errors_exact; assumption|].
  destruct (utf8_valid bin && negb (is_nil bin)); [|apply do_parse_ignore_errors_exact; assumption].
  apply do_parse_ignore_errors_exact.
  - rewrite flag_sub_class_bin_name. exact Hc.
  - rewrite valid_bin_name. exact Hv.
  - rewrite is_set_bin_name. exact Hig.
Qed.

(** * non-vacuity, and what the setting changes *)
(** short flag-subcommand, required options in parent and child, [arg_required_else_help], [subcommand_required];
    IgnoreErrors as the global setting ([Command::ignore_errors]) *)
Definition ign_cmd : cmd :=
  let posn := (arg_new [113]) <| a_num := Some {| vmin := 0; vmax := usize_max |} |> in
  let s := (cmd_new [115]) <| c_short_flag := Some 83 |>
             <| c_args := [flag 120; (fs_opt 118) <| a_required := true |>; posn] |> in
  (cmd_new [112]) <| c_args := [flag 97; (fs_opt 98) <| a_required := true |>] |>
                  <| c_subs := [s] |>
                  <| c_gset := settings_none <| s_ignore_errors := true |> |>
                  <| c_set := settings_none <| s_arg_required_else_help := true |> <| s_sub_required := true |> |>.
Definition ign_lines : list (list bytes) :=
  [ [[112]];                                     (* p              : arg_required_else_help *)
    [[112]; [45; 45; 117]];                      (* p --u          : unknown argument *)
    [[112]; [45; 97; 83; 120; 120]; [45; 255]];  (* p -aSxx -\xff  : cluster re-read by the child, non-UTF-8 *)
    [[112]; [45; 86]];                           (* p -V           : no version declared *)
    [[112]; [104; 101; 108; 112]; [122]];        (* p help z       : unknown subcommand under help *)
    [[112]; [115]; [45; 118]] ].                 (* p s -v         : option without its value, in the child *)
Definition outcome_kind (o : outcome) : option (option ekind) :=
  match o with OOk _ => Some None | OErr e => Some (Some (e_kind e)) | _ => None end.

Example ignore_errors_example :
  flag_sub_class ign_cmd = true /\ valid ign_cmd = true /\ is_set s_ignore_errors ign_cmd = true
  /\ plain ign_cmd = false
  (* every faulty line yields matches ... *)
  /\ map (fun l => outcome_kind (parse_top ign_cmd l)) ign_lines = map (fun _ => Some None) ign_lines
  (* ... the explicit requests at the root still end the parse ... *)
  /\ outcome_kind (parse_top ign_cmd [[112]; [45; 45; 104; 101; 108; 112]]) = Some (Some EDisplayHelp)
  /\ outcome_kind (parse_top ign_cmd [[112]; [104; 101; 108; 112]; [115]]) = Some (Some EDisplayHelp)
  (* ... and without the setting each of the faulty lines is an error *)
  /\ map (fun l => outcome_kind (parse_top (ign_cmd <| c_gset := settings_none |>) l)) ign_lines
     = [Some (Some EDisplayHelpOnMissing); Some (Some EUnknownArgument); Some (Some EUnknownArgument);
        Some (Some EUnknownArgument); Some (Some EInvalidSubcommand); Some (Some EInvalidValue)].
Proof. repeat split; vm_compute; reflexivity. Qed.

(** observation (model = crate, corpus/C01/parse-ignore-errors.round5.cases): under error-ignoring a help / version request
    INSIDE a subcommand is swallowed too -- [parse_subcommand] drops every error of the child level under partial parsing,
    whatever its kind; only a request at the root level ends the parse.  The property allows it ("except"). *)
Example ignore_errors_swallows_help_in_subcommand :
  outcome_kind (parse_top ign_cmd [[112]; [45; 83; 104]]) = Some None                                  (* p -Sh *)
  /\ outcome_kind (parse_top ign_cmd [[112]; [115]; [45; 45; 104; 101; 108; 112]]) = Some None         (* p s --help *)
  /\ outcome_kind (parse_top (ign_cmd <| c_gset := settings_none |>) [[112]; [45; 83; 104]]) = Some (Some EDisplayHelp)
  /\ outcome_kind (parse_top (ign_cmd <| c_gset := settings_none |>) [[112]; [115]; [45; 45; 104; 101; 108; 112]])
     = Some (Some EDisplayHelp).
Proof. repeat split; vm_compute; reflexivity. Qed.

(** * every definition the gate accepts (FsAny.v): the entry point *)
Lemma unbuilt_bin_name c0 b : unbuilt (c0 <| c_bin_name := b |>) = unbuilt c0.
Proof. apply unbuilt_frame; destruct c0; reflexivity. Qed.

Definition only_920 (o : outcome) : Prop :=
  match o with OPanicked s => s = 920 | OOutOfFuel => False | _ => True end.

Theorem parse_top_only_920 c0 argv : unbuilt c0 = true -> valid c0 = true -> only_920 (parse_top c0 argv).
Proof.
  intros Hu Hv. unfold parse_top.
  destruct (is_set s_no_binary_name c0); [apply do_parse_only_920; assumption|].
  destruct argv as [|bin rest]; [apply do_parse_only_920; assumption|].
  destruct (c_bin_name c0); [apply do_parse_only_920; assumption|].
  destruct (utf8_valid bin && negb (is_nil bin)); [|apply do_parse_only_920; assumption].
  apply do_parse_only_920; [rewrite unbuilt_bin_name; exact Hu|rewrite valid_bin_name; exact Hv].
Qed.

(** every [Modelled] row of the panic-site table other than the one debug assertion is dead for every valid definition *)
Theorem sites_dead_any c0 toks : unbuilt c0 = true -> valid c0 = true ->
  forall n, In n Sites.modelled_sites -> n <> 920 -> do_parse c0 toks <> OPanicked n.
Proof.
  intros Hu Hv n _ Hn H. pose proof (do_parse_only_920 c0 toks Hu Hv) as T. rewrite H in T. exact (Hn T).
Qed.

(** the error-ignoring contract for every valid definition: matches, help/version, or that one assertion *)
Theorem parse_top_ignore_errors_any c0 argv :
  unbuilt c0 = true -> valid c0 = true -> is_set s_ignore_errors c0 = true ->
  match parse_top c0 argv with
  | OOk _ => True
  | OErr e => e_kind e = EDisplayHelp \/ e_kind e = EDisplayVersion
  | OPanicked s => s = 920
  | OOutOfFuel | OInvalidConfig => False
  end.
Proof.
  intros Hu Hv Hig.
  assert (D : forall c toks, unbuilt c = true -> valid c = true -> is_set s_ignore_errors c = true ->
              match do_parse c toks with
              | OOk _ => True
              | OErr e => e_kind e = EDisplayHelp \/ e_kind e = EDisplayVersion
              | OPanicked s => s = 920
              | OOutOfFuel | OInvalidConfig => False
              end).
  { intros c toks Hu' Hv' Hig'.
    pose proof (do_parse_only_920 c toks Hu' Hv') as T.
    pose proof (do_parse_ignore_errors c toks) as I. rewrite ignore_errors_build_self in I. specialize (I Hig').
    destruct (do_parse c toks) eqn:E; try exact I; try exact T.
    unfold do_parse in E. rewrite Hv' in E. cbn [negb] in E.
    destruct (get_matches_with _ _ _ _) as [st|e st|s]; try discriminate.
    - destruct (_ && _); discriminate.
    - destruct s; discriminate. }
  unfold parse_top.
  destruct (is_set s_no_binary_name c0); [apply D; assumption|].
  destruct argv as [|bin rest]; [apply D; assumption|].
  destruct (c_bin_name c0); [apply D; assumption|].
  destruct (utf8_valid bin && negb (is_nil bin)); [|apply D; assumption].
  apply D; [rewrite unbuilt_bin_name; exact Hu|rewrite valid_bin_name; exact Hv|rewrite is_set_bin_name; exact Hig].
Qed.

(** the round-1 witness (Properties/C01.v [refuted_cmd]): an intermediate flag that consumes three indices *)
Definition refuted_nested_cmd : cmd :=
  let z := (arg_new [122]) <| a_short := Some 122 |> <| a_action := Some ASetTrue |> in
  let q := (cmd_new [113]) <| c_short_flag := Some 113 |> <| c_args := [z] |> in
  let f := (arg_new [102]) <| a_short := Some 102 |> <| a_action := Some ASet |>
             <| a_num := Some r_empty |> <| a_default_missing := [[97]; [98]] |> in
  let s := (cmd_new [83]) <| c_short_flag := Some 83 |> <| c_args := [f] |> <| c_subs := [q] |> in
  (cmd_new [112]) <| c_subs := [s] |>.

(** non-vacuity and sharpness: the three witnesses of the recorded finding satisfy the hypotheses (so the exception for
    920 is necessary) and lie outside [flag_sub_class]; on other lines the same nested definitions parse *)
Example only_920_examples :
  (unbuilt stale_cmd = true /\ valid stale_cmd = true /\ flag_sub_class stale_cmd = false
   /\ parse_top stale_cmd [[112]; [45; 83; 120]; [45; 81; 121]] = OPanicked 920
   /\ outcome_kind (parse_top stale_cmd [[112]; [45; 83; 120; 81; 121]]) = Some None          (* p -SxQy *)
   /\ outcome_kind (parse_top stale_cmd [[112]; [45; 83]; [45; 81; 121]]) = Some None)        (* p -S -Qy *)
  /\ (unbuilt hyphen_cmd = true /\ valid hyphen_cmd = true /\ flag_sub_class hyphen_cmd = false
      /\ parse_top hyphen_cmd [[112]; [45; 83; 122]; [45; 255]] = OPanicked 920)
  /\ (unbuilt hyphen2_cmd = true /\ valid hyphen2_cmd = true /\ flag_sub_class hyphen2_cmd = false)
  /\ (unbuilt refuted_nested_cmd = true /\ valid refuted_nested_cmd = true
      /\ parse_top refuted_nested_cmd [[112]; [45; 83; 102; 113; 122]] = OPanicked 920).
Proof. repeat split; vm_compute; reflexivity. Qed.

(** * lines without multi-character short clusters (FsLine.v): the entry point *)
Theorem parse_top_single_clusters c0 argv : unbuilt c0 = true -> valid c0 = true -> single_clusters argv = true ->
  match parse_top c0 argv with OPanicked _ | OOutOfFuel => False | _ => True end.
Proof.
  intros Hu Hv Hl. unfold parse_top.
  destruct (is_set s_no_binary_name c0); [apply do_parse_single_clusters; assumption|].
  destruct argv as [|bin rest]; [apply do_parse_single_clusters; assumption|].
  assert (Hl' : single_clusters rest = true).
  { unfold single_clusters in *. cbn [forallb] in Hl. apply andb_true_iff in Hl. apply Hl. }
  destruct (c_bin_name c0); [apply do_parse_single_clusters; assumption|].
  destruct (utf8_valid bin && negb (is_nil bin)); [|apply do_parse_single_clusters; assumption].
  apply do_parse_single_clusters; [rewrite unbuilt_bin_name; exact Hu|rewrite valid_bin_name; exact Hv|exact Hl'].
Qed.

(** non-vacuity and sharpness: on the nested definitions of the finding, lines that spell every letter as its own token
    parse (through two levels of short flag-subcommands); gluing two letters is what reaches the assertion *)
Example single_clusters_examples :
  unbuilt stale_cmd = true /\ valid stale_cmd = true /\ flag_sub_class stale_cmd = false
  /\ single_clusters [[112]; [45; 83]; [45; 120]; [45; 81]; [45; 121]] = true                    (* p -S -x -Q -y *)
  /\ outcome_kind (parse_top stale_cmd [[112]; [45; 83]; [45; 120]; [45; 81]; [45; 121]]) = Some None
  /\ single_clusters [[112]; [45; 83; 120]; [45; 81; 121]] = false                                (* p -Sx -Qy *)
  /\ parse_top stale_cmd [[112]; [45; 83; 120]; [45; 81; 121]] = OPanicked 920
  /\ single_clusters [[112]; [45; 83]; [45; 195; 169]; [45]; [45; 45]; [45; 45; 120; 61; 49]; [45; 255]] = true
     (* one multi-byte character, a lone dash, `--`, a long option with a value, a non-UTF-8 byte are all allowed *)
  /\ single_clusters [[112]; [45; 120; 61]] = false.                                              (* `-x=` is a cluster *)
Proof. repeat split; vm_compute; reflexivity. Qed.

(** * lines on which no short flag-subcommand letter is followed by more of its cluster (FsResume.v): the entry point *)
Lemma letters_inb_bin_name L c0 b : letters_inb L (c0 <| c_bin_name := b |>) = letters_inb L c0.
Proof. apply letters_inb_frame. destruct c0; reflexivity. Qed.

Theorem parse_top_no_resume c0 L argv : unbuilt c0 = true -> valid c0 = true ->
  letters_inb L c0 = true -> no_resume L argv = true ->
  match parse_top c0 argv with OPanicked _ | OOutOfFuel => False | _ => True end.
Proof.
  intros Hu Hv HL Hl. unfold parse_top.
  destruct (is_set s_no_binary_name c0); [apply (do_parse_no_resume _ L); assumption|].
  destruct argv as [|bin rest]; [apply (do_parse_no_resume _ L); assumption|].
  assert (Hl' : no_resume L rest = true).
  { unfold no_resume in *. cbn [forallb] in Hl. apply andb_true_iff in Hl. apply Hl. }
  destruct (c_bin_name c0); [apply (do_parse_no_resume _ L); assumption|].
  destruct (utf8_valid bin && negb (is_nil bin)); [|apply (do_parse_no_resume _ L); assumption].
  apply (do_parse_no_resume _ L);
    [rewrite unbuilt_bin_name; exact Hu|rewrite valid_bin_name; exact Hv|rewrite letters_inb_bin_name; exact HL|exact Hl'].
Qed.

Lemma single_clusters_no_resume L toks : single_clusters toks = true -> no_resume L toks = true.
Proof.
  unfold single_clusters, no_resume. induction toks as [|t ts IH]; [reflexivity|]. cbn [forallb].
  intros H. apply andb_true_iff in H. destruct H as [H1 H2]. rewrite (IH H2), Bool.andb_true_r.
  apply single_cluster_tok_ok. apply Bool.negb_true_iff. exact H1.
Qed.

(** non-vacuity and sharpness on the nested definition of the finding (letters S, Q): clusters of ordinary flags, with a
    flag-subcommand letter at their END, parse through both levels; one letter behind `S` or `Q` leaves the class *)
Example no_resume_examples :
  unbuilt stale_cmd = true /\ valid stale_cmd = true /\ flag_sub_class stale_cmd = false
  /\ letters_inb [83; 81] stale_cmd = true /\ letters_inb [83] stale_cmd = false
  /\ no_resume [83; 81] [[112]; [45; 83]; [45; 120; 119; 81]; [45; 121]] = true         (* p -S -xwQ -y *)
  /\ outcome_kind (parse_top stale_cmd [[112]; [45; 83]; [45; 120; 119; 81]; [45; 121]]) = Some None
  /\ single_clusters [[112]; [45; 83]; [45; 120; 119; 81]; [45; 121]] = false
  /\ no_resume [83; 81] [[112]; [45; 83; 120]; [45; 81; 121]] = false                               (* p -Sx -Qy *)
  /\ no_resume [83; 81] [[112]; [45; 83; 120]] = false                                              (* p -Sx: parses, but outside *)
  /\ outcome_kind (parse_top stale_cmd [[112]; [45; 83; 120]]) = Some None.
Proof. repeat split; vm_compute; reflexivity. Qed.

(** * the property statement at the entry point, in one theorem *)
Theorem parser_errors_render_top c0 argv e : parse_top c0 argv = OErr e ->
  rich_alternatives e <> []
  /\ forall r, In r (rich_alternatives e) ->
       constructed r
       /\ (r_kind r = e_kind e \/ Some (r_kind r) = e_alt e)
       /\ (forall dbg s, render dbg r <> Panic s)
       /\ (rich_expected r = true -> forall dbg, exists txt, write_dynamic_context dbg r = Done (true, txt)).
Proof.
  unfold parse_top. destruct (is_set s_no_binary_name c0); [apply parser_errors_render|].
  destruct argv as [|bin rest]; apply parser_errors_render.
Qed.

Theorem entry_point_summary c0 argv : unbuilt c0 = true -> valid c0 = true ->
  match parse_top c0 argv with
  | OOk _ => True
  | OErr e =>
      (rich_alternatives e <> [] /\ forall r, In r (rich_alternatives e) -> forall dbg s, render dbg r <> Panic s)
      /\ (is_set s_ignore_errors c0 = true -> e_kind e = EDisplayHelp \/ e_kind e = EDisplayVersion)
  | OPanicked s => s = 920 /\ flag_sub_class c0 = false /\ single_clusters argv = false
                   /\ (forall L, letters_inb L c0 = true -> no_resume L argv = false)
  | OOutOfFuel | OInvalidConfig => False
  end.
Proof.
  intros Hu Hv.
  pose proof (parse_top_only_920 c0 argv Hu Hv) as H9.
  destruct (parse_top c0 argv) as [m|e|s| |] eqn:E; cbn in H9.
  - exact I.
  - split.
    + destruct (parser_errors_render_top c0 argv e E) as [Hne Hall]. split; [exact Hne|].
      intros r Hr. apply (Hall r Hr).
    + intros Hig. pose proof (parse_top_ignore_errors_any c0 argv Hu Hv Hig) as Hi. rewrite E in Hi. exact Hi.
  - split; [exact H9|split].
    + destruct (flag_sub_class c0) eqn:Hc; [|reflexivity]. exfalso.
      pose proof (parse_top_total_fs_any_bin c0 argv Hc Hv) as T. rewrite E in T. exact T.
    + split.
      * destruct (single_clusters argv) eqn:Hl; [|reflexivity]. exfalso.
        pose proof (parse_top_single_clusters c0 argv Hu Hv Hl) as T. rewrite E in T. exact T.
      * intros L HL. destruct (no_resume L argv) eqn:Hl; [|reflexivity]. exfalso.
        pose proof (parse_top_no_resume c0 L argv Hu Hv HL Hl) as T. rewrite E in T. exact T.
  - exact H9.
  - (* OInvalidConfig: the gate accepted the definition *)
    exfalso. revert E. unfold parse_top.
    assert (D : forall c toks, valid c = true -> do_parse c toks <> OInvalidConfig).
    { intros c toks Hvc. unfold do_parse. rewrite Hvc. cbn [negb].
      destruct (get_matches_with _ _ _ _) as [st|e st|s]; try discriminate.
      - destruct (_ && _); discriminate.
      - destruct s; discriminate. }
    destruct (is_set s_no_binary_name c0); [apply D; exact Hv|].
    destruct argv as [|bin rest]; [apply D; exact Hv|].
    destruct (c_bin_name c0); [apply D; exact Hv|].
    destruct (utf8_valid bin && negb (is_nil bin)); [|apply D; exact Hv].
    apply D. rewrite valid_bin_name. exact Hv.
Qed.
