(** Property C10 (and C03): conditional [requires_if] rules behind a [requires] chain.

    Before the repair of [Command::unroll_arg_requires] the caller's predicate test [func] -- which judges
    predicates against the values of the ROOT argument -- was handed to every rule met along the chain.  With
    [a.requires(b)], [b.requires_if("v", y)] the line `--aa v --bb w` was rejected with
    MissingRequiredArgument(y) although [b] = "w" (found while proving [C10_requirement_set_sound]).
    The repaired function follows, for an argument reached only through the chain, only its unconditional rules.

    This file keeps the PRE-repair function (proof side only; the model file Parse/Validator.v mirrors the
    repaired code) and proves:
    - the witness about the pre-repair function ([requires_if_chain_before_fix]);
    - that the same input is now accepted by the model ([requires_if_chain_fixed]). *)
From ClapModel Require Import Base.Bytes Base.Machine.
From ClapModel Require Import Parse.Cmd Parse.Build Parse.Valid Parse.Matcher Parse.Errors Parse.Validator Parse.Parser.
From ClapModel Require Import ParseProofs.Totality ParseProofs.Relations ParseProofs.ErrorSound ParseProofs.KindSound.
From Coq Require Import ZArith List Bool Lia.
From RecordUpdate Require Import RecordSet.
Import RecordSetNotations.
Import ListNotations.
Open Scope N_scope.

(** * the function as it was before the repair (verbatim copy of the former model) *)
Fixpoint unroll_requires_loop_before_fix (c : cmd) (func : pred * id -> option id) (fuel : nat)
         (r_vec processed args : list id) : option (list id) :=
  match fuel with
  | O => None
  | S f =>
      match r_vec with
      | [] => Some args
      | a :: rest =>
          if mem_id a processed then unroll_requires_loop_before_fix c func f rest processed args
          else
            let processed := processed ++ [a] in
            match find_arg c a with
            | None => unroll_requires_loop_before_fix c func f rest processed args
            | Some arg =>
                let '(args', pushed) :=
                  fold_left (fun acc r =>
                               let '(args, pushed) := acc in
                               let pushed := match find_arg c r with
                                             | Some req => if negb (is_nil (a_requires req)) then a_id req :: pushed else pushed
                                             | None => pushed end in
                               (args ++ [r], pushed))
                            (Cmd.filter_map func (a_requires arg)) (args, []) in
                unroll_requires_loop_before_fix c func f (pushed ++ rest) processed args'
            end
      end
  end.
Definition unroll_arg_requires_before_fix (c : cmd) (func : pred * id -> option id) (a : id) : option (list id) :=
  unroll_requires_loop_before_fix c func (requires_fuel c) [a] [] [].

(** * the command of the finding: [a.requires(b)], [b.requires_if("v", y)] *)
Definition quirk_cmd : cmd :=
  let a := (arg_new [97]) <| a_long := Some [97; 97] |> <| a_requires := [(PIsPresent, [98])] |> in
  let b := (arg_new [98]) <| a_long := Some [98; 98] |> <| a_requires := [(PEquals [118], [121])] |> in
  let y := (arg_new [121]) <| a_long := Some [121; 121] |> in
  (cmd_new [112]) <| c_args := [a; b; y] |>.

(** `prog --aa <va> --bb <vb>` *)
Definition quirk_line (va vb : bytes) : list bytes := [[112]; ex_dd [97; 97]; va; ex_dd [98; 98]; vb].

(** the entry of [i] in the matches of an accepted parse *)
Definition entry_of (o : outcome) (i : id) : option marg :=
  match o with OOk m => fm_get i (ms_args m) | _ => None end.

(** the witness about the pre-repair function: on the occurrence of [a] that the line `--aa v --bb w` produces
    (value "v"; [b]'s own occurrence has the value "w", so [b]'s rule does not hold of [b]), the pre-repair unrolling
    demanded [y]; the repaired one demands [b] only *)
Lemma requires_if_chain_before_fix :
  exists ma mb,
    entry_of (parse_top quirk_cmd (quirk_line [118] [119])) [97] = Some ma /\
    entry_of (parse_top quirk_cmd (quirk_line [118] [119])) [98] = Some mb /\
    check_explicit_m (PEquals [118]) ma = true /\ check_explicit_m (PEquals [118]) mb = false /\
    unroll_arg_requires_before_fix quirk_cmd (is_relevant ma) [97] = Some [[98]; [121]] /\
    unroll_arg_requires quirk_cmd (is_relevant ma) [97] = Some [[98]] /\
    unroll_arg_requires quirk_cmd (is_relevant mb) [98] = Some [].
Proof.
  eexists. eexists. split; [vm_compute; reflexivity|]. split; [vm_compute; reflexivity|].
  repeat split; vm_compute; reflexivity.
Qed.

(** the same inputs on the repaired model: accepted, accepted, and the documented rejection *)
Lemma requires_if_chain_fixed :
  plain quirk_cmd = true /\ valid quirk_cmd = true /\
  (exists m, parse_top quirk_cmd (quirk_line [118] [119]) = OOk m) /\
  (exists m, parse_top quirk_cmd (quirk_line [122] [119]) = OOk m) /\
  (exists e, parse_top quirk_cmd (quirk_line [122] [118]) = OErr e
             /\ e_kind e = EMissingRequiredArgument /\ e_arg e = [121]).
Proof.
  split; [vm_compute; reflexivity|]. split; [vm_compute; reflexivity|]. split; [|split].
  - eexists. vm_compute. reflexivity.
  - eexists. vm_compute. reflexivity.
  - eexists. split; [vm_compute; reflexivity|]. split; reflexivity.
Qed.

(** * C03's vocabulary: the validator's requirement set is exactly C03's [Required] *)
Lemma rule_requires_Required c mt x : fm_wf mt -> (rule_requires c mt x <-> Required c mt (present mt) x).
Proof.
  intros W. split.
  - intros [a Hin Hr Hid|g Hin Hr [Hx|Hx]|i ma g Hin Hna Hg Hx|i ma Hin Hrb].
    + subst x. apply Rq_static; assumption.
    + subst x. apply Rq_group; assumption.
    + eapply Rq_group_requires; eassumption.
    + eapply (Rq_present_group c mt (present mt) i g x); [split; assumption| |exact Hx].
      eapply entry_present; eassumption.
    + apply explicit_entries_In in Hin. destruct Hin as [Hin He].
      eapply (Rq_requires c mt (present mt) i ma x); [apply fm_get_first; assumption|exact He|].
      apply req_by_ReqBy. exact Hrb.
  - intros [a Hin Hr|g Hin Hr|g y Hin Hr Hy|x' g y [Hna Hg] Hp Hy|root m y Hg Hm HR].
    + eapply RRArg; [exact Hin|exact Hr|reflexivity].
    + eapply RRGroup; [exact Hin|exact Hr|left; reflexivity].
    + eapply RRGroup; [exact Hin|exact Hr|right; exact Hy].
    + destruct (present_entry mt x' Hp) as [m Hm]. eapply RRPresentGroup; eassumption.
    + eapply (RRPresentArg c mt y root m); [|apply req_by_ReqBy; exact HR].
      apply explicit_entries_In. split; [apply fm_get_In; exact Hg|exact Hm].
Qed.

Theorem required_set_exact c mt required : fm_wf mt ->
  gather_requires c mt (required_graph c) = Some required ->
  forall x, In x required <-> Required c mt (present mt) x.
Proof.
  intros W Hg x. rewrite (requirement_set_exact c mt required Hg x). apply rule_requires_Required. exact W.
Qed.
