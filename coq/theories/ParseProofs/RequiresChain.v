(** Property C10 (and C03): conditional [requires_if] rules behind a [requires] chain.

    Before the repair of [Command::unroll_arg_requires] the caller's predicate test [func] -- which judges
    predicates against the values of the ROOT argument -- was handed to every rule met along the chain.  With
    [a.requires(b)], [b.requires_if("v", y)] the line `--aa v --bb w` was rejected with
    MissingRequiredArgument(y) although [b] = "w" (found while proving [C10_requirement_set_sound]).
    The repaired function follows, for an argument reached only through the chain, only its unconditional rules.

    This file keeps the PRE-repair function (proof side only; the model file Parse/Validator.v mirrors the
    repaired code) and proves:
    - the witness about the pre-repair function ([requires_if_chain_before_fix]);
    - that the same input is now accepted by the model ([requires_if_chain_fixed]);
    - that the requirement set equals C03's [Required] ([required_set_exact]);
    - that the repair only removes demands: what the repaired unrolling returns the pre-repair one returned too
      ([unroll_fixed_incl_before_fix]). *)
From ClapModel Require Import Base.Bytes Base.Machine.
From ClapModel Require Import Parse.Cmd Parse.Build Parse.Valid Parse.Matcher Parse.Errors Parse.Validator Parse.Parser.
From ClapModel Require Import ParseProofs.Totality ParseProofs.Relations ParseProofs.ErrorSound ParseProofs.KindSound.
From Coq Require Import ZArith List Bool Lia.
From RecordUpdate Require Import RecordSet.
Import RecordSetNotations.
Import ListNotations.
Open Scope N_scope.

(** * the function as it was before the repair (verbatim copy of the former model) *)
Fixpoint unroll_requires_loop_before_fix (c : cmd) (func : pred * id -> option id) (fuel : nat)
         (r_vec processed args : list id) : option (list id) :=
  match fuel with
  | O => None
  | S f =>
      match r_vec with
      | [] => Some args
      | a :: rest =>
          if mem_id a processed then unroll_requires_loop_before_fix c func f rest processed args
          else
            let processed := processed ++ [a] in
            match find_arg c a with
            | None => unroll_requires_loop_before_fix c func f rest processed args
            | Some arg =>
                let '(args', pushed) :=
                  fold_left (fun acc r =>
                               let '(args, pushed) := acc in
                               let pushed := match find_arg c r with
                                             | Some req => if negb (is_nil (a_requires req)) then a_id req :: pushed else pushed
                                             | None => pushed end in
                               (args ++ [r], pushed))
                            (Cmd.filter_map func (a_requires arg)) (args, []) in
                unroll_requires_loop_before_fix c func f (pushed ++ rest) processed args'
            end
      end
  end.
Definition unroll_arg_requires_before_fix (c : cmd) (func : pred * id -> option id) (a : id) : option (list id) :=
  unroll_requires_loop_before_fix c func (requires_fuel c) [a] [] [].

(** * the command of the finding: [a.requires(b)], [b.requires_if("v", y)] *)
Definition quirk_cmd : cmd :=
  let a := (arg_new [97]) <| a_long := Some [97; 97] |> <| a_requires := [(PIsPresent, [98])] |> in
  let b := (arg_new [98]) <| a_long := Some [98; 98] |> <| a_requires := [(PEquals [118], [121])] |> in
  let y := (arg_new [121]) <| a_long := Some [121; 121] |> in
  (cmd_new [112]) <| c_args := [a; b; y] |>.

(** `prog --aa <va> --bb <vb>` *)
Definition quirk_line (va vb : bytes) : list bytes := [[112]; ex_dd [97; 97]; va; ex_dd [98; 98]; vb].

(** the entry of [i] in the matches of an accepted parse *)
Definition entry_of (o : outcome) (i : id) : option marg :=
  match o with OOk m => fm_get i (ms_args m) | _ => None end.

(** the witness about the pre-repair function: on the occurrence of [a] that the line `--aa v --bb w` produces
    (value "v"; [b]'s own occurrence has the value "w", so [b]'s rule does not hold of [b]), the pre-repair unrolling
    demanded [y]; the repaired one demands [b] only *)
Lemma requires_if_chain_before_fix :
  exists ma mb,
    entry_of (parse_top quirk_cmd (quirk_line [118] [119])) [97] = Some ma /\
    entry_of (parse_top quirk_cmd (quirk_line [118] [119])) [98] = Some mb /\
    check_explicit_m (PEquals [118]) ma = true /\ check_explicit_m (PEquals [118]) mb = false /\
    unroll_arg_requires_before_fix quirk_cmd (is_relevant ma) [97] = Some [[98]; [121]] /\
    unroll_arg_requires quirk_cmd (is_relevant ma) [97] = Some [[98]] /\
    unroll_arg_requires quirk_cmd (is_relevant mb) [98] = Some [].
Proof.
  eexists. eexists. split; [vm_compute; reflexivity|]. split; [vm_compute; reflexivity|].
  repeat split; vm_compute; reflexivity.
Qed.

(** the same inputs on the repaired model: accepted, accepted, and the documented rejection *)
Lemma requires_if_chain_fixed :
  plain quirk_cmd = true /\ valid quirk_cmd = true /\
  (exists m, parse_top quirk_cmd (quirk_line [118] [119]) = OOk m) /\
  (exists m, parse_top quirk_cmd (quirk_line [122] [119]) = OOk m) /\
  (exists e, parse_top quirk_cmd (quirk_line [122] [118]) = OErr e
             /\ e_kind e = EMissingRequiredArgument /\ e_arg e = [121]).
Proof.
  split; [vm_compute; reflexivity|]. split; [vm_compute; reflexivity|]. split; [|split].
  - eexists. vm_compute. reflexivity.
  - eexists. vm_compute. reflexivity.
  - eexists. split; [vm_compute; reflexivity|]. split; reflexivity.
Qed.

(** * C03's vocabulary: the validator's requirement set is exactly C03's [Required] *)
Lemma rule_requires_Required c mt x : fm_wf mt -> (rule_requires c mt x <-> Required c mt (present mt) x).
Proof.
  intros W. split.
  - intros [a Hin Hr Hid|g Hin Hr [Hx|Hx]|i ma g Hin Hna Hg Hx|i ma Hin Hrb].
    + subst x. apply Rq_static; assumption.
    + subst x. apply Rq_group; assumption.
    + eapply Rq_group_requires; eassumption.
    + eapply (Rq_present_group c mt (present mt) i g x); [split; assumption| |exact Hx].
      eapply entry_present; eassumption.
    + apply explicit_entries_In in Hin. destruct Hin as [Hin He].
      eapply (Rq_requires c mt (present mt) i ma x); [apply fm_get_first; assumption|exact He|].
      apply req_by_ReqBy. exact Hrb.
  - intros [a Hin Hr|g Hin Hr|g y Hin Hr Hy|x' g y [Hna Hg] Hp Hy|root m y Hg Hm HR].
    + eapply RRArg; [exact Hin|exact Hr|reflexivity].
    + eapply RRGroup; [exact Hin|exact Hr|left; reflexivity].
    + eapply RRGroup; [exact Hin|exact Hr|right; exact Hy].
    + destruct (present_entry mt x' Hp) as [m Hm]. eapply RRPresentGroup; eassumption.
    + eapply (RRPresentArg c mt y root m); [|apply req_by_ReqBy; exact HR].
      apply explicit_entries_In. split; [apply fm_get_In; exact Hg|exact Hm].
Qed.

Theorem required_set_exact c mt required : fm_wf mt ->
  gather_requires c mt (required_graph c) = Some required ->
  forall x, In x required <-> Required c mt (present mt) x.
Proof.
  intros W Hg x. rewrite (requirement_set_exact c mt required Hg x). apply rule_requires_Required. exact W.
Qed.

(** * the repair only removes demands: whatever the repaired unrolling returns, the pre-repair one returned too
    (for every command, every [func], every root) -- so the repaired validator never reports an argument missing
    that the unrepaired one did not *)
Section Monotone.
Variable c : cmd.
Variable func : pred * id -> option id.
Variable root : id.

(** what the repaired function can return *)
Inductive reach_fixed : id -> Prop :=
| RF_root a r y : find_arg c root = Some a -> In r (a_requires a) -> func r = Some y -> reach_fixed y
| RF_step x b t y : reach_fixed x -> find_arg c x = Some b -> In (PIsPresent, t) (a_requires b) ->
    func (PIsPresent, t) = Some y -> reach_fixed y.

Lemma filter_map_inv {A B} (f : A -> option B) l y : In y (Cmd.filter_map f l) -> exists x, In x l /\ f x = Some y.
Proof.
  induction l as [|a t IH]; cbn [Cmd.filter_map]; [intros []|].
  destruct (f a) as [b|] eqn:E.
  - intros [<-|H]; [exists a; split; [left; reflexivity|exact E]|].
    destruct (IH H) as [x [Hx Hf]]. exists x. split; [right; exact Hx|exact Hf].
  - intros H. destruct (IH H) as [x [Hx Hf]]. exists x. split; [right; exact Hx|exact Hf].
Qed.

Lemma fixed_loop_sound : forall fuel r_vec processed args out,
  unroll_requires_loop c func root fuel r_vec processed args = Some out ->
  (forall x, In x r_vec -> x = root \/ reach_fixed x) ->
  (forall y, In y args -> reach_fixed y) ->
  forall y, In y out -> reach_fixed y.
Proof.
  induction fuel as [|f IH]; intros r_vec processed args out; cbn [unroll_requires_loop]; [discriminate|].
  destruct r_vec as [|a rest]; [intros H _ Ha; injection H as <-; exact Ha|].
  destruct (mem_id a processed).
  { intros H Hr Ha. eapply IH; [exact H| |exact Ha]. intros x Hx. apply Hr. right; exact Hx. }
  destruct (find_arg c a) as [arg|] eqn:Efa.
  2:{ intros H Hr Ha. eapply IH; [exact H| |exact Ha]. intros x Hx. apply Hr. right; exact Hx. }
  set (l := Cmd.filter_map (relevant_rule func (beq a root)) (a_requires arg)).
  change (fold_left _ l (args, [])) with (fold_left (ur_step c) l (args, [])).
  destruct (fold_left (ur_step c) l (args, [])) as [args' pushed'] eqn:Ef.
  apply ur_step_sound in Ef. destruct Ef as [-> Hp].
  intros H Hr Ha.
  assert (Hl : forall y, In y l -> reach_fixed y).
  { intros y Hy. subst l. apply filter_map_inv in Hy. destruct Hy as [[p t] [Hin Hf]].
    unfold relevant_rule in Hf. cbn [fst] in Hf.
    destruct (beq a root) eqn:Eroot.
    - apply beq_eq in Eroot. subst a. cbn [orb] in Hf. eapply RF_root; eassumption.
    - cbn [orb] in Hf. destruct p as [v|]; cbn [pred_is_present] in Hf; [discriminate Hf|].
      destruct (Hr a (or_introl eq_refl)) as [->|Hra]; [rewrite beq_refl in Eroot; discriminate Eroot|].
      eapply RF_step; eassumption. }
  eapply IH; [exact H| |].
  - intros x Hx. apply in_app_or in Hx. destruct Hx as [Hx|Hx]; [|apply Hr; right; exact Hx].
    destruct (Hp x Hx) as [[]|Hx']. right. apply Hl. exact Hx'.
  - intros y Hy. apply in_app_or in Hy. destruct Hy as [Hy|Hy]; [apply Ha; exact Hy|apply Hl; exact Hy].
Qed.

(** the invariant of the pre-repair worklist (the round-1 proof of Relations.v, kept for the kept function) *)
Definition goodW0 (S : list id) (x : id) : Prop :=
  forall b, find_arg c x = Some b -> forall r, In r (Cmd.filter_map func (a_requires b)) -> In r S.

Lemma before_fix_loop_closed : forall fuel r_vec processed args out,
  unroll_requires_loop_before_fix c func fuel r_vec processed args = Some out ->
  (forall x, In x processed -> goodW0 args x) ->
  (forall y, In y args -> needs_visit c y -> In y processed \/ In y r_vec) ->
  incl args out /\ (forall x, In x processed \/ In x r_vec -> goodW0 out x)
  /\ (forall y, In y out -> needs_visit c y -> goodW0 out y).
Proof.
  induction fuel as [|fuel IH]; intros r_vec processed args out; cbn [unroll_requires_loop_before_fix]; [discriminate|].
  destruct r_vec as [|a rest].
  - intros [= <-] H1 H2. split; [apply incl_refl|]. split.
    + intros x [H|[]]. auto.
    + intros y Hy Hn. destruct (H2 y Hy Hn) as [H|[]]. auto.
  - destruct (mem_id a processed) eqn:Em.
    + apply mem_id_In in Em. intros H H1 H2. apply IH in H as (Ha & Hb & Hc); [| exact H1 |].
      * split; [exact Ha|]. split; [|exact Hc]. intros x [Hx|[<-|Hx]]; apply Hb; auto.
      * intros y Hy Hn. destruct (H2 y Hy Hn) as [H'|[<-|H']]; auto.
    + destruct (find_arg c a) as [arg|] eqn:Ea.
      * fold (ur_inner c). destruct (fold_left (ur_inner c) _ _) as [args' pushed] eqn:Ef.
        apply ur_inner_spec in Ef as (-> & Hv & _).
        intros H H1 H2. apply IH in H as (Ha & Hb & Hc).
        -- split; [intros z Hz; apply Ha, in_app_iff; auto|]. split; [|exact Hc].
           intros x [Hx|[<-|Hx]]; apply Hb; rewrite !in_app_iff; cbn; auto.
        -- intros x Hx. apply in_app_iff in Hx as [Hx|[<-|[]]].
           ++ intros b Hb r Hr. apply in_app_iff. left. apply (H1 x Hx b Hb r Hr).
           ++ intros b Hb r Hr. rewrite Ea in Hb. inversion Hb; subst. apply in_app_iff. now right.
        -- intros y Hy Hn. rewrite !in_app_iff. cbn. apply in_app_iff in Hy as [Hy|Hy].
           ++ destruct (H2 y Hy Hn) as [H'|[<-|H']]; auto.
           ++ right. left. now apply Hv.
      * intros H H1 H2. apply IH in H as (Ha & Hb & Hc).
        -- split; [exact Ha|]. split; [|exact Hc].
           intros x [Hx|[<-|Hx]]; apply Hb; rewrite !in_app_iff; cbn; auto.
        -- intros x Hx. apply in_app_iff in Hx as [Hx|[<-|[]]]; [auto|].
           intros b Hb. congruence.
        -- intros y Hy Hn. rewrite !in_app_iff. cbn. destruct (H2 y Hy Hn) as [H'|[<-|H']]; auto.
Qed.

Theorem unroll_fixed_incl_before_fix out out0 :
  unroll_arg_requires c func root = Some out ->
  unroll_arg_requires_before_fix c func root = Some out0 ->
  incl out out0.
Proof.
  intros Hn Ho.
  unfold unroll_arg_requires_before_fix in Ho. apply before_fix_loop_closed in Ho; [|intros ? []|intros ? []].
  destruct Ho as (_ & Hb & Hc).
  assert (Hroot : goodW0 out0 root) by (apply Hb; right; left; reflexivity).
  assert (HR : forall y, reach_fixed y -> In y out0).
  { induction 1 as [a r y Ha Hin Hf|x b t y _ IH Hb' Hin Hf].
    - apply (Hroot a Ha). eapply filter_map_In; eassumption.
    - assert (Hnv : needs_visit c x).
      { exists b. split; [exact Hb'|]. intros E. rewrite E in Hin. destruct Hin. }
      apply (Hc x IH Hnv b Hb'). eapply filter_map_In; eassumption. }
  intros y Hy. apply HR. unfold unroll_arg_requires in Hn.
  eapply (fixed_loop_sound _ _ _ _ _ Hn); [| |exact Hy].
  - intros x [<-|[]]. left; reflexivity.
  - intros ? [].
Qed.
End Monotone.
