(** Property C07, part 3: tokens -> occurrences.

    A declarative scanner [occurrences c toks] reads a command line made of long flags [--flag],
    short clusters [-xyz], and options with exactly one value in the spellings [--o=v], [--o v],
    [-ov], [-o=v], [-o v] (separate values do not start with [-]; no token is a subcommand name),
    in any order, and returns the occurrence sequence.  On that class the token loop of
    [Parser::parse] ([parse_loop]) followed by [resolve_pending] IS the fold of [react] over the
    scanned occurrences ([react_all]) followed by [resolve_pending] - for EVERY parser state whose
    flag-subcommand skip counter is clear, errors and panic sites included. *)
From ClapModel Require Import Base.Bytes Base.Machine Base.Utf8 Lex.OsStrExtModel.
From ClapModel Require Import Parse.Cmd Parse.Build Parse.Valid Parse.Matcher Parse.Errors Parse.Validator Parse.Parser.
From ClapModel Require Import ParseProofs.Actions ParseProofs.ActionsLoop.
From ClapModel Require ParseProofs.Spelling.
From Coq Require Import ZArith.
From RecordUpdate Require Import RecordSet.
Import RecordSetNotations.
Open Scope N_scope.

(** * 1. The scanner *)

(** an occurrence found on the command line under the spelling [idn] *)
Definition tok_occ (idn : ident) (a : arg) (raw : list bytes) : occ := mkOcc (Some idn) SCmdLine a raw None.

(** an option that takes exactly one value and does not insist on [=] *)
Definition simple_opt (a : arg) : bool :=
  negb (a_req_eq a) &&
  match a_num a with Some r => (vmin r =? 1) && (vmax r =? 1) | None => false end.

(** a token that can only be a value: it does not start with [-] *)
Definition plain_value (tok : bytes) : bool := negb (starts_with_dash tok).

(** the token is not (a prefix inferred as) a subcommand name *)
Definition nosub (c : cmd) (tok : bytes) : bool := negb (is_some (possible_subcommand c tok false)).

(** what one token contributes: complete occurrences, and possibly an option still waiting for
    its value (to be found in the next token) *)
Definition contrib := (list occ * option (ident * arg))%type.

(** a short cluster, read left to right with the lexer's [next_flag] ([sf_next]): value-less flags,
    optionally ended by a one-value option whose value is the rest of the cluster (one leading [=]
    dropped) or, when nothing is left, the next token *)
Fixpoint scan_cluster (c : cmd) (fuel : nat) (r : bytes) : option contrib :=
  match fuel with
  | O => None
  | S f =>
    match sf_next r with
    | None => Some ([], None)
    | Some (inr _, _) => None
    | Some (inl ch, r') =>
        match get_short c ch with
        | None => None
        | Some a =>
            if a_takes_value a then
              if simple_opt a then
                match r' with
                | [] => Some ([], Some (IShort, a))
                | b :: t => Some ([tok_occ IShort a [if b =? 61 then t else b :: t]], None)
                end
              else None
            else match scan_cluster c f r' with
                 | Some (os, p) => Some (tok_occ IShort a [] :: os, p)
                 | None => None
                 end
        end
    end
  end.

Definition classify (c : cmd) (tok : bytes) : option contrib :=
  if is_escape tok then None else
  match to_long tok with
  | Some (f, ok, v) =>
      if negb ok then None else
      match get_long c f with
      | None => None
      | Some a =>
          if a_takes_value a then
            if simple_opt a then
              match v with
              | Some x => Some ([tok_occ ILong a [x]], None)
              | None => Some ([], Some (ILong, a))
              end
            else None
          else match v with
               | None => Some ([tok_occ ILong a []], None)
               | Some _ => None
               end
      end
  | None =>
      match to_short tok with
      | Some r => scan_cluster c (S (length r)) r
      | None => None
      end
  end.

(** the scanner proper; [pend] = the option whose value the next token must be (at the end of the line
    the option occurs without a value: [react] then rejects it unless it has a default-missing value) *)
Fixpoint scan (c : cmd) (pend : option (ident * arg)) (toks : list bytes) : option (list occ) :=
  match toks with
  | [] => match pend with None => Some [] | Some (idn, a) => Some [tok_occ idn a []] end
  | tok :: rest =>
      match pend with
      | Some (idn, a) =>
          if plain_value tok && negb (check_terminator a tok)
             && (negb (is_set s_sub_precedence c) || nosub c tok)
          then match scan c None rest with
               | Some os => Some (tok_occ idn a [tok] :: os)
               | None => None
               end
          else None
      | None =>
          if nosub c tok then
            match classify c tok with
            | Some (os, p) => match scan c p rest with
                              | Some os' => Some (os ++ os')
                              | None => None
                              end
            | None => None
            end
          else None
      end
  end.

Definition occurrences (c : cmd) (toks : list bytes) : option (list occ) := scan c None toks.

(** conditions on the command: no argument accepts hyphen values or negative numbers (they turn
    flag-looking tokens into values), and argument ids are pairwise distinct *)
Definition no_hyphen_args (c : cmd) : bool :=
  forallb (fun a => negb (a_hyphen a) && negb (a_negnum a)) (c_args c).
Definition ids_ok (c : cmd) : Prop := forall a, In a (c_args c) -> find_arg c (a_id a) = Some a.

(** the fold of [react] over the occurrences, then the flush of the pending buffer *)
Definition fold_flush (c : cmd) (os : list occ) (st : ps) : res ps :=
  do s <- react_all c os st; resolve_pending c s.

(** * Examples first: a built command and concrete lines, computed *)
Module TokExamples.
  Definition mk (i : id) := arg_new i.
  (** prog -v (Count) -q/--quiet (SetTrue) -n (SetFalse) -o/--opt <v> (Append) -s/--set <v> (Set,
      overrides itself and quiet) -u/--uniq <v> (Set) -x (SetTrue, overrides v) *)
  Definition c0 : cmd := (cmd_new [112]) <| c_args := [
     (mk [118]) <| a_short := Some 118 |> <| a_action := Some ACount |>;
     (mk [113]) <| a_short := Some 113 |> <| a_long := Some [113; 117; 105; 101; 116] |> <| a_action := Some ASetTrue |>;
     (mk [110]) <| a_short := Some 110 |> <| a_action := Some ASetFalse |>;
     (mk [111]) <| a_short := Some 111 |> <| a_long := Some [111; 112; 116] |> <| a_action := Some AAppend |>;
     (mk [115]) <| a_short := Some 115 |> <| a_long := Some [115; 101; 116] |> <| a_action := Some ASet |>
                <| a_overrides := [[115]; [113]] |>;
     (mk [117]) <| a_short := Some 117 |> <| a_long := Some [117; 110; 105; 113] |> <| a_action := Some ASet |>;
     (mk [120]) <| a_short := Some 120 |> <| a_action := Some ASetTrue |> <| a_overrides := [[118]] |> ] |>.
  Definition c := build_self c0.
  Definition loop_flush (toks : list bytes) (st : ps) : res ps :=
    match parse_loop c toks (mkL PSValuesDone 1 false false) st with
    | ROk (LDone s) => resolve_pending c s
    | ROk _ => RPanic 999
    | RErr e s => RErr e s
    | RPanic x => RPanic x
    end.
  (** -vnv --opt=a -ob -o=c --opt d -vo e --quiet -s x --set=y -sz *)
  Definition line1 : list bytes :=
    [[45;118;110;118]; [45;45;111;112;116;61;97]; [45;111;98]; [45;111;61;99]; [45;45;111;112;116]; [100];
     [45;118;111]; [101]; [45;45;113;117;105;101;116]; [45;115]; [120]; [45;45;115;101;116;61;121]; [45;115;122]].
  Definition line2 : list bytes := [[45;117]; [97]; [45;118]; [45;45;117;110;105;113]; [98]].   (* -u a -v --uniq b: conflict *)
  Definition line3 : list bytes := [[45;118]; [45;45;111;112;116]].                              (* -v --opt : value missing *)
  Eval vm_compute in option_map (map (fun o => (a_id (o_arg o), o_raw o))) (occurrences c line1).
  Eval vm_compute in option_map (map (fun o => (a_id (o_arg o), o_raw o))) (occurrences c line2).
  Eval vm_compute in option_map (@length occ) (occurrences c line3).
  Example candidate1 : match occurrences c line1 with Some os => loop_flush line1 ps_new = fold_flush c os ps_new | None => False end.
  Proof. vm_compute. reflexivity. Qed.
  Example candidate2 : match occurrences c line2 with Some os => loop_flush line2 ps_new = fold_flush c os ps_new | None => False end.
  Proof. vm_compute. reflexivity. Qed.
  Example candidate3 : match occurrences c line3 with Some os => loop_flush line3 ps_new = fold_flush c os ps_new | None => False end.
  Proof. vm_compute. reflexivity. Qed.
  Eval vm_compute in match fold_flush c (opt_default [] (occurrences c line3)) ps_new with
    | RErr e s => Some (e_kind e, e_arg e) | _ => None end.
  Eval vm_compute in match fold_flush c (opt_default [] (occurrences c line1)) ps_new with
    | ROk s => Some (map (fun p => (fst p, m_raw (snd p))) (mt_args (mt s))) | _ => None end.
  Eval vm_compute in match fold_flush c (opt_default [] (occurrences c line2)) ps_new with
    | RErr e s => Some (e_kind e) | _ => None end.
End TokExamples.

(** * 2. Facts about [resolve_pending] and the fold *)
Definition clear_pending (st : ps) : ps := st <| mt := (mt st) <| mt_pending := None |> |>.

Lemma resolve_pending_none c st : mt_pending (mt st) = None -> resolve_pending c st = ROk st.
Proof. intros H. unfold resolve_pending. rewrite H. reflexivity. Qed.

Lemma resolve_pending_idem c st s1 : resolve_pending c st = ROk s1 -> resolve_pending c s1 = ROk s1.
Proof. intros H. apply resolve_pending_none. exact (Spelling.resolve_pending_clears c st s1 H). Qed.

Lemma clear_pending_id st : mt_pending (mt st) = None -> clear_pending st = st.
Proof.
  destruct st as [m ci fa fk]. destruct m as [ar pe su]. cbn. intros ->. reflexivity.
Qed.

Lemma fold_flush_nil c st : fold_flush c [] st = resolve_pending c st.
Proof. reflexivity. Qed.

Lemma fold_flush_cons c o os st :
  fold_flush c (o :: os) st =
  (do s1 <- resolve_pending c st;
   do x <- react_core c (o_ident o) (o_src o) (o_arg o) (o_raw o) (o_ti o) s1;
   fold_flush c os (fst x)).
Proof.
  unfold fold_flush. cbn [react_all]. unfold react.
  destruct (resolve_pending c st) as [s1|e s|n]; cbn [rbind]; try reflexivity.
  destruct (react_core c (o_ident o) (o_src o) (o_arg o) (o_raw o) (o_ti o) s1) as [x|e s|n]; reflexivity.
Qed.

(** flushing first changes nothing: every [react] starts by flushing *)
Lemma fold_flush_resolve c os st : fold_flush c os st = (do s1 <- resolve_pending c st; fold_flush c os s1).
Proof.
  destruct os as [|o os].
  - rewrite !fold_flush_nil. destruct (resolve_pending c st) as [s1|e s|n] eqn:E; cbn [rbind]; try reflexivity.
    rewrite fold_flush_nil. symmetry. exact (resolve_pending_idem c st s1 E).
  - rewrite fold_flush_cons. destruct (resolve_pending c st) as [s1|e s|n] eqn:E; cbn [rbind]; try reflexivity.
    rewrite fold_flush_cons. rewrite (resolve_pending_idem c st s1 E). reflexivity.
Qed.

Lemma fold_flush_app c os1 os2 st :
  fold_flush c (os1 ++ os2) st = (do s <- react_all c os1 st; fold_flush c os2 s).
Proof.
  unfold fold_flush. rewrite react_all_app.
  destruct (react_all c os1 st) as [s|e s|n]; reflexivity.
Qed.

(** a complete occurrence waiting in the pending buffer is the head of the occurrence list *)
Lemma fold_flush_pending c idn a raw ti os st :
  mt_pending (mt st) = Some (mkPending (a_id a) (Some idn) raw ti) -> find_arg c (a_id a) = Some a ->
  fold_flush c os st = fold_flush c (mkOcc (Some idn) SCmdLine a raw ti :: os) (clear_pending st).
Proof.
  intros HP FA. rewrite fold_flush_resolve. rewrite fold_flush_cons.
  cbn [o_ident o_src o_arg o_raw o_ti].
  rewrite (resolve_pending_none c (clear_pending st)) by reflexivity. cbn [rbind].
  unfold resolve_pending at 1. rewrite HP. cbn [p_id p_ident p_raw p_trailing_idx]. rewrite FA. cbn [expect rbind].
  change (st <| mt := (mt st) <| mt_pending := None |> |>) with (clear_pending st).
  destruct (react_core c (Some idn) SCmdLine a raw ti (clear_pending st)) as [x|e s|n]; reflexivity.
Qed.

(** * 3. One token *)
Definition open_pending (c : cmd) (p : option (ident * arg)) (s : ps) : res ps :=
  match p with
  | None => ROk s
  | Some (idn, a) =>
      do s1 <- resolve_pending c s;
      do m <- expect 1071 (pending_values_push (mt s1) (a_id a) (Some idn) false None);
      ROk (s1 <| mt := m |>)
  end.
Definition tok_effect (c : cmd) (k : contrib) (st : ps) : res ps :=
  do s <- react_all c (fst k) st; open_pending c (snd k) s.
Definition pst_of (p : option (ident * arg)) : pstate_t :=
  match p with None => PSValuesDone | Some (_, a) => PSOpt (a_id a) end.
Definition pr_of (p : option (ident * arg)) : presult :=
  match p with None => PRValuesDone | Some (_, a) => PROpt (a_id a) end.

Lemma simple_opt_req_eq a : simple_opt a = true -> a_req_eq a = false.
Proof. unfold simple_opt. destruct (a_req_eq a); [discriminate|reflexivity]. Qed.

Lemma simple_opt_num a : simple_opt a = true -> exists r, a_num a = Some r /\ vmax r = 1.
Proof.
  unfold simple_opt. destruct (a_req_eq a); [discriminate|]. cbn [negb andb].
  destruct (a_num a) as [r|]; [|discriminate]. intros H. apply andb_prop in H. destruct H as [_ H].
  apply N.eqb_eq in H. exists r. auto.
Qed.

Lemma parse_opt_value_none c idn a st : a_req_eq a = false ->
  parse_opt_value c idn None a false st =
  (do s <- open_pending c (Some (idn, a)) st; ROk (s, PROpt (a_id a))).
Proof.
  intros RE. unfold parse_opt_value, open_pending. rewrite RE. cbn [andb].
  destruct (resolve_pending c st) as [s1|e s|n]; cbn [rbind]; try reflexivity.
  destruct (pending_values_push (mt s1) (a_id a) (Some idn) false None); reflexivity.
Qed.

Lemma keymap_find_in c (p : key * arg -> bool) k a : List.find p (keymap c) = Some (k, a) -> In a (c_args c).
Proof. intros H. apply find_some in H. destruct H as [H _]. apply Spelling.in_keymap in H. tauto. Qed.

Lemma get_long_in c f a : get_long c f = Some a -> In a (c_args c).
Proof.
  unfold get_long. destruct (List.find _ (keymap c)) as [[k b]|] eqn:E; [|discriminate].
  cbn [opt_map snd]. intros H; inversion H; subst. exact (keymap_find_in c _ k a E).
Qed.
Lemma get_short_in c ch a : get_short c ch = Some a -> In a (c_args c).
Proof.
  unfold get_short. destruct (List.find _ (keymap c)) as [[k b]|] eqn:E; [|discriminate].
  cbn [opt_map snd]. intros H; inversion H; subst. exact (keymap_find_in c _ k a E).
Qed.
Lemma get_pos_in c n a : get_pos c n = Some a -> In a (c_args c).
Proof.
  unfold get_pos. destruct (List.find _ (keymap c)) as [[k b]|] eqn:E; [|discriminate].
  cbn [opt_map snd]. intros H; inversion H; subst. exact (keymap_find_in c _ k a E).
Qed.

Lemma to_long_flag_nonempty tok f ok : to_long tok = Some (f, ok, None) -> f <> [].
Proof.
  unfold to_long. destruct (strip_prefix tok [DASH; DASH]) as [r|]; [|discriminate].
  destruct r as [|b t]; [discriminate|].
  destruct (split_once (b :: t) [EQ]) as [[f' v']|]; [discriminate|].
  intros H; inversion H; subst. discriminate.
Qed.

(** the long-flag branch *)
Lemma parse_long_arg_found c f v pos vaf st a :
  get_long c f = Some a -> (is_nil f && negb (is_some v)) = false ->
  parse_long_arg c f true v PSValuesDone pos vaf st =
  if a_takes_value a then do x <- parse_opt_value c ILong v a (is_some v) st; ROk (fst x, snd x, true)
  else match v with
       | Some rest => ROk (st, PRUnneeded rest (a_id a), true)
       | None => do x <- react c (Some ILong) SCmdLine a [] None st; ROk (fst x, snd x, true)
       end.
Proof.
  intros Hg Hn. unfold parse_long_arg. cbn [state_arg rbind negb]. cbv iota. rewrite Hn, Hg. reflexivity.
Qed.

Lemma tok_effect_single c o st :
  tok_effect c ([o], None) st = (do x <- react c (o_ident o) (o_src o) (o_arg o) (o_raw o) (o_ti o) st; ROk (fst x)).
Proof.
  unfold tok_effect. cbn [fst snd react_all open_pending].
  destruct (react c (o_ident o) (o_src o) (o_arg o) (o_raw o) (o_ti o) st) as [x|e s|n]; reflexivity.
Qed.

Lemma tok_effect_open c p st : tok_effect c ([], p) st = open_pending c p st.
Proof. reflexivity. Qed.

Lemma tok_effect_cons c o os p st :
  tok_effect c (o :: os, p) st =
  (do x <- react c (o_ident o) (o_src o) (o_arg o) (o_raw o) (o_ti o) st; tok_effect c (os, p) (fst x)).
Proof.
  unfold tok_effect. cbn [fst snd react_all].
  destruct (react c (o_ident o) (o_src o) (o_arg o) (o_raw o) (o_ti o) st) as [x|e s|n]; reflexivity.
Qed.

(** what [parse_long_arg] does on a long token of the class *)
Lemma long_effect c tok f v k pos vaf st :
  to_long tok = Some (f, true, v) ->
  match get_long c f with
  | None => None
  | Some a =>
      if a_takes_value a then
        if simple_opt a then
          match v with
          | Some x => Some ([tok_occ ILong a [x]], None)
          | None => Some ([], Some (ILong, a))
          end
        else None
      else match v with
           | None => Some ([tok_occ ILong a []], None)
           | Some _ => None
           end
  end = Some k ->
  parse_long_arg c f true v PSValuesDone pos vaf st = (do s <- tok_effect c k st; ROk (s, pr_of (snd k), true)).
Proof.
  intros TL HK. destruct (get_long c f) as [a|] eqn:GL; [|discriminate].
  assert (Hn : (is_nil f && negb (is_some v)) = false).
  { destruct v as [x|]; [apply andb_false_r|]. apply to_long_flag_nonempty in TL. destruct f; [congruence|reflexivity]. }
  rewrite (parse_long_arg_found c f v pos vaf st a GL Hn).
  destruct (a_takes_value a).
  - destruct (simple_opt a) eqn:SO; [|discriminate]. pose proof (simple_opt_req_eq a SO) as RE.
    destruct v as [x|]; inversion HK; subst k; clear HK; cbn [snd pr_of is_some].
    + rewrite (Spelling.parse_opt_value_attached c ILong x a true st RE). rewrite tok_effect_single.
      cbn [tok_occ o_ident o_src o_arg o_raw o_ti].
      destruct (react c (Some ILong) SCmdLine a [x] None st) as [y|e s|n]; reflexivity.
    + rewrite (parse_opt_value_none c ILong a st RE). rewrite tok_effect_open.
      destruct (open_pending c (Some (ILong, a)) st) as [y|e s|n]; reflexivity.
  - destruct v as [x|]; [discriminate|]. inversion HK; subst k; clear HK; cbn [snd pr_of].
    rewrite tok_effect_single. cbn [tok_occ o_ident o_src o_arg o_raw o_ti].
    destruct (react c (Some ILong) SCmdLine a [] None st) as [[s1 pr]|e s|n] eqn:Er; cbn [rbind fst snd]; try reflexivity.
    rewrite (react_ok_pr _ _ _ _ _ _ _ _ _ Er). reflexivity.
Qed.

(** the cluster walk *)
Lemma sf_next_nil_iff r : sf_next r = None <-> r = [].
Proof.
  split; [|intros ->; reflexivity]. unfold sf_next. destruct r as [|b t]; [reflexivity|].
  destruct (utf8_step (b :: t)) as [[ch n]|]; discriminate.
Qed.

Lemma scan_cluster_nil c fuel k : scan_cluster c fuel [] = Some k -> k = ([], None).
Proof. destruct fuel as [|f]; cbn [scan_cluster sf_next]; [discriminate|]. intros H; inversion H; reflexivity. Qed.

Lemma short_loop_scan c : forall fuel r k, scan_cluster c fuel r = Some k ->
  forall fuel' ret vaf st, (length r < fuel')%nat ->
  short_loop c fuel' r ret vaf st =
  (do s <- tok_effect c k st;
   ROk (s, (if is_nil r then ret else pr_of (snd k)), (if is_nil r then vaf else true))).
Proof.
  induction fuel as [|f IH]; intros r k HK fuel' ret vaf st HF; [discriminate|].
  destruct fuel' as [|f']; [lia|].
  cbn [scan_cluster] in HK.
  destruct (sf_next r) as [[[ch|bad] r']|] eqn:N.
  - (* a flag character *)
    assert (NE : is_nil r = false).
    { destruct r; [discriminate N|reflexivity]. }
    rewrite NE.
    destruct (get_short c ch) as [a|] eqn:GS; [|discriminate].
    destruct (a_takes_value a) eqn:TV.
    + destruct (simple_opt a) eqn:SO; [|discriminate]. pose proof (simple_opt_req_eq a SO) as RE.
      destruct r' as [|b t].
      * inversion HK; subst k; clear HK. cbn [snd pr_of].
        rewrite (Spelling.short_loop_opt_alone c f' r ch a ret vaf st N GS TV).
        rewrite (parse_opt_value_none c IShort a st RE). rewrite tok_effect_open.
        destruct (open_pending c (Some (IShort, a)) st) as [y|e s|n]; reflexivity.
      * inversion HK; subst k; clear HK. cbn [snd pr_of].
        rewrite tok_effect_single. cbn [tok_occ o_ident o_src o_arg o_raw o_ti].
        cbn [short_loop]. rewrite N, GS, TV. cbn [negb]. rewrite Spelling.strip_eq_match.
        destruct (b =? 61); cbv beta iota zeta;
          rewrite (Spelling.parse_opt_value_attached c IShort _ a _ st RE); unfold bytes in *;
          match goal with |- context [react ?a1 ?a2 ?a3 ?a4 ?a5 ?a6 ?a7] =>
            destruct (react a1 a2 a3 a4 a5 a6 a7) as [x|e s|n] end; reflexivity.
    + destruct (scan_cluster c f r') as [[os p]|] eqn:SC; [|discriminate].
      inversion HK; subst k; clear HK. cbn [snd].
      rewrite tok_effect_cons. cbn [tok_occ o_ident o_src o_arg o_raw o_ti].
      rewrite (Spelling.short_loop_flag_step c f' r ch r' a ret vaf st N GS TV).
      destruct (react c (Some IShort) SCmdLine a [] None st) as [[s1 pr]|e s|n] eqn:Er; cbn [rbind fst snd]; try reflexivity.
      pose proof (Spelling.sf_next_shrinks' r (inl ch) r' N) as SH.
      rewrite (IH r' (os, p) SC f' pr true s1) by lia. cbn [snd].
      rewrite (react_ok_pr _ _ _ _ _ _ _ _ _ Er).
      destruct r' as [|b t]; cbn [is_nil].
      * apply scan_cluster_nil in SC. inversion SC; subst. reflexivity.
      * reflexivity.
  - discriminate.
  - inversion HK; subst k; clear HK. apply sf_next_nil_iff in N. subst r. reflexivity.
Qed.

Lemma no_hyphen_in c a : no_hyphen_args c = true -> In a (c_args c) -> a_hyphen a = false /\ a_negnum a = false.
Proof.
  unfold no_hyphen_args. rewrite forallb_forall. intros H Hin. specialize (H a Hin).
  destruct (a_hyphen a), (a_negnum a); try discriminate; auto.
Qed.

Lemma ps_skip_id st : fs_skip st = 0 -> st <| fs_skip := 0 |> = st.
Proof. destruct st; cbn. intros ->. reflexivity. Qed.

(** what [parse_short_arg] does on a cluster of the class *)
Lemma short_effect c r k pos vaf st :
  no_hyphen_args c = true -> fs_skip st = 0 -> r <> [] ->
  scan_cluster c (S (length r)) r = Some k ->
  parse_short_arg c r PSValuesDone pos vaf st = (do s <- tok_effect c k st; ROk (s, pr_of (snd k), true)).
Proof.
  intros NH SK NE SC. unfold parse_short_arg. cbn [state_arg rbind]. cbv iota.
  assert (H1 : match get_pos c pos with Some a => a_negnum a | None => false end = false).
  { destruct (get_pos c pos) as [a|] eqn:GP; [|reflexivity]. apply (no_hyphen_in c a NH (get_pos_in c pos a GP)). }
  assert (H2 : match get_pos c pos with Some a => a_hyphen a && negb (a_last a) | None => false end = false).
  { destruct (get_pos c pos) as [a|] eqn:GP; [|reflexivity].
    destruct (no_hyphen_in c a NH (get_pos_in c pos a GP)) as [E _]. rewrite E. reflexivity. }
  rewrite H1, H2. cbn [andb]. rewrite SK, N.min_0_l. cbn [N.to_nat sf_advance_by expect rbind].
  rewrite (ps_skip_id st SK).
  rewrite (short_loop_scan c _ r k SC (S (length r)) PRNoArg vaf st) by lia.
  destruct r; [congruence|]. reflexivity.
Qed.

(** * 4. The token loop on one token of the class *)
Lemma possible_subcommand_vaf c tok vaf : nosub c tok = true -> possible_subcommand c tok vaf = None.
Proof.
  unfold nosub. intros H. destruct (possible_subcommand c tok false) as [n|] eqn:E; [discriminate|]. clear H.
  destruct vaf; [|exact E]. unfold possible_subcommand in *.
  destruct (negb (utf8_valid tok)); [reflexivity|].
  destruct (is_set s_args_negate_subs c); cbn [andb] in *; [reflexivity|exact E].
Qed.

(** a token that [parse_long_arg] / [parse_short_arg] answers with [ValuesDone] or [Opt] *)
Lemma parse_loop_flaglike c tok rest pos vaf st (r : res ps) (p : option (ident * arg)) :
  possible_subcommand c tok vaf = None -> is_escape tok = false ->
  match to_long tok with
  | Some (f, ok, v) => parse_long_arg c f ok v PSValuesDone pos vaf st = (do s <- r; ROk (s, pr_of p, true))
  | None => match to_short tok with
            | Some r0 => parse_short_arg c r0 PSValuesDone pos vaf st = (do s <- r; ROk (s, pr_of p, true))
            | None => False
            end
  end ->
  parse_loop c (tok :: rest) (mkL PSValuesDone pos vaf false) st =
  (do s <- r; parse_loop c rest (mkL (pst_of p) pos true false) s).
Proof.
  intros PS ES H. cbn [parse_loop]. cbn [l_trailing l_pst l_vaf l_pos]. rewrite orb_true_r, PS, ES.
  destruct (to_long tok) as [[[f ok] v]|].
  - rewrite H. destruct r as [s|e s|n]; cbn [rbind fst snd]; try reflexivity.
    destruct p as [[idn a]|]; reflexivity.
  - destruct (to_short tok) as [r0|]; [|contradiction].
    rewrite H. destruct r as [s|e s|n]; cbn [rbind fst snd]; try reflexivity.
    destruct p as [[idn a]|]; reflexivity.
Qed.

Lemma to_short_nonempty tok r : to_short tok = Some r -> r <> [].
Proof.
  unfold to_short. destruct (strip_prefix tok [DASH]) as [r0|]; [|discriminate].
  destruct (starts_with r0 [DASH]); [discriminate|]. destruct r0; cbn [is_nil]; [discriminate|].
  intros H; inversion H; subst. discriminate.
Qed.

Theorem parse_loop_token c tok rest k pos vaf st :
  no_hyphen_args c = true -> fs_skip st = 0 -> nosub c tok = true -> classify c tok = Some k ->
  parse_loop c (tok :: rest) (mkL PSValuesDone pos vaf false) st =
  (do s <- tok_effect c k st; parse_loop c rest (mkL (pst_of (snd k)) pos true false) s).
Proof.
  intros NH SK NS CL. unfold classify in CL.
  destruct (is_escape tok) eqn:ES; [discriminate|].
  apply (parse_loop_flaglike c tok rest pos vaf st (tok_effect c k st) (snd k)
           (possible_subcommand_vaf c tok vaf NS) ES).
  destruct (to_long tok) as [[[f ok] v]|] eqn:TL.
  - destruct ok; cbn [negb] in CL; [|discriminate]. exact (long_effect c tok f v k pos vaf st TL CL).
  - destruct (to_short tok) as [r0|] eqn:TS; [|discriminate].
    exact (short_effect c r0 k pos vaf st NH SK (to_short_nonempty tok r0 TS) CL).
Qed.

(** a plain value is not lexed as `--`, a long or a short flag *)
Lemma plain_value_lex tok : plain_value tok = true ->
  is_escape tok = false /\ to_long tok = None /\ to_short tok = None.
Proof.
  unfold plain_value, starts_with_dash. destruct tok as [|b t].
  - intros _. repeat split; reflexivity.
  - intros H. assert (E : (b =? 45) = false).
    { destruct (b =? 45) eqn:E; [|reflexivity]. apply N.eqb_eq in E. subst b. discriminate H. }
    unfold is_escape, to_long, to_short, strip_prefix, DASH. cbn [beq starts_with]. rewrite E. repeat split; reflexivity.
Qed.

(** the token handed to the pending option ([ParseState::Opt]) *)
Lemma parse_loop_value c tok rest pos vaf st i :
  (is_set s_sub_precedence c = false \/ possible_subcommand c tok vaf = None) ->
  is_escape tok = false -> to_long tok = None -> to_short tok = None ->
  parse_loop c (tok :: rest) (mkL (PSOpt i) pos vaf false) st =
  (do a <- expect 290 (find_arg c i);
   if check_terminator a tok then parse_loop c rest (mkL PSValuesDone pos vaf false) st
   else do y <- Spelling.take_value c i tok st;
        parse_loop c rest (mkL (if snd y then PSOpt i else PSValuesDone) pos vaf false) (fst y)).
Proof.
  intros SP E TL TS. cbn [parse_loop l_trailing l_pst l_pos l_vaf].
  assert (HS : (if is_set s_sub_precedence c || false then possible_subcommand c tok vaf else None) = None).
  { destruct SP as [SP|SP]; [rewrite SP; reflexivity|]. rewrite SP. destruct (_ || _); reflexivity. }
  rewrite HS, E, TL, TS. cbn [rbind]. cbn [l_trailing l_pst l_pos l_vaf].
  unfold Spelling.take_value.
  destruct (find_arg c i) as [a|]; cbn [expect rbind]; [|reflexivity].
  destruct (check_terminator a tok); [reflexivity|].
  destruct (pending_values_push (mt st) i None false (Some tok)) as [m1|]; cbn [expect rbind]; [|reflexivity].
  destruct (needs_more_vals m1 a) as [more|]; cbn [expect rbind fst snd]; reflexivity.
Qed.

(** the state in which the loop waits for the value of option [a] spelled [idn] *)
Definition awaiting (c : cmd) (idn : ident) (a : arg) (st : ps) : Prop :=
  find_arg c (a_id a) = Some a /\ simple_opt a = true /\
  mt_pending (mt st) = Some (mkPending (a_id a) (Some idn) [] None).

Lemma needs_more_vals_one (m : matcher) a p r :
  mt_pending m = Some p -> beq (p_id p) (a_id a) = true -> length (p_raw p) = 1%nat ->
  a_num a = Some r -> vmax r = 1 -> needs_more_vals m a = Some false.
Proof.
  intros H1 H2 H3 H4 H5. unfold needs_more_vals. rewrite H1, H2, H3, H4. unfold r_accepts_more. rewrite H5. reflexivity.
Qed.

Lemma parse_loop_value_token c tok rest pos vaf st idn a :
  awaiting c idn a st ->
  plain_value tok && negb (check_terminator a tok) && (negb (is_set s_sub_precedence c) || nosub c tok) = true ->
  exists st2, parse_loop c (tok :: rest) (mkL (PSOpt (a_id a)) pos vaf false) st =
              parse_loop c rest (mkL PSValuesDone pos vaf false) st2
    /\ mt_pending (mt st2) = Some (mkPending (a_id a) (Some idn) [tok] None)
    /\ clear_pending st2 = clear_pending st /\ fs_skip st2 = fs_skip st.
Proof.
  intros [FA [SO HP]] H. apply andb_prop in H. destruct H as [H H3]. apply andb_prop in H. destruct H as [H1 H2].
  destruct (plain_value_lex tok H1) as [ES [TL TS]].
  assert (SP : is_set s_sub_precedence c = false \/ possible_subcommand c tok vaf = None).
  { destruct (is_set s_sub_precedence c); [right|left; reflexivity]. cbn [negb orb] in H3.
    exact (possible_subcommand_vaf c tok vaf H3). }
  rewrite (parse_loop_value c tok rest pos vaf st (a_id a) SP ES TL TS). rewrite FA. cbn [expect rbind].
  destruct (check_terminator a tok); [discriminate|].
  unfold Spelling.take_value. rewrite FA. cbn [expect rbind].
  unfold pending_values_push. rewrite HP. cbn [p_id p_ident p_raw p_trailing_idx is_some andb negb app].
  rewrite beq_refl. cbn [negb expect rbind].
  destruct (simple_opt_num a SO) as [r [NA VM]].
  match goal with |- context [needs_more_vals ?m a] =>
    rewrite (needs_more_vals_one m a (mkPending (a_id a) (Some idn) [tok] None) r eq_refl (beq_refl _) eq_refl NA VM) end.
  cbn [expect rbind fst snd].
  eexists. split; [reflexivity|]. split; [reflexivity|]. split; [|destruct st; reflexivity].
  destruct st as [m ci fa fk]. destruct m as [ar pe su]. reflexivity.
Qed.

(** after [open_pending] the loop is awaiting the value *)
Lemma open_pending_awaiting c idn a s s' :
  find_arg c (a_id a) = Some a -> simple_opt a = true ->
  open_pending c (Some (idn, a)) s = ROk s' ->
  exists s1, resolve_pending c s = ROk s1 /\ awaiting c idn a s' /\ clear_pending s' = s1 /\ fs_skip s' = fs_skip s1.
Proof.
  intros FA SO H. unfold open_pending in H.
  destruct (resolve_pending c s) as [s1|e x|n] eqn:RP; cbn [rbind] in H; try discriminate.
  pose proof (Spelling.resolve_pending_clears c s s1 RP) as PN.
  unfold pending_values_push in H. rewrite PN in H. cbn [p_id p_ident p_raw p_trailing_idx is_some] in H.
  rewrite beq_refl, Spelling.ident_eqb_refl in H. cbn [negb andb expect rbind] in H. inversion H; subst s'. clear H.
  exists s1. split; [reflexivity|]. split; [split; [exact FA|split; [exact SO|reflexivity]]|].
  split; [|destruct s1; reflexivity].
  destruct s1 as [m ci fa fk]. destruct m as [ar pe su]. cbn in PN. subst pe. reflexivity.
Qed.

Lemma scan_cluster_pend c : forall fuel r os idn a, scan_cluster c fuel r = Some (os, Some (idn, a)) ->
  In a (c_args c) /\ simple_opt a = true.
Proof.
  induction fuel as [|f IH]; intros r os idn a H; [discriminate|]. cbn [scan_cluster] in H.
  destruct (sf_next r) as [[[ch|bad] r']|]; try discriminate.
  destruct (get_short c ch) as [b|] eqn:GS; [|discriminate].
  destruct (a_takes_value b).
  - destruct (simple_opt b) eqn:SO; [|discriminate]. destruct r' as [|x t]; [|discriminate].
    inversion H; subst. split; [exact (get_short_in c ch a GS)|exact SO].
  - destruct (scan_cluster c f r') as [[os' p]|] eqn:SC; [|discriminate]. inversion H; subst.
    exact (IH r' os' idn a SC).
Qed.

Lemma classify_pend c tok os idn a : classify c tok = Some (os, Some (idn, a)) ->
  In a (c_args c) /\ simple_opt a = true.
Proof.
  unfold classify. destruct (is_escape tok); [discriminate|].
  destruct (to_long tok) as [[[f ok] v]|].
  - destruct (negb ok); [discriminate|]. destruct (get_long c f) as [b|] eqn:GL; [|discriminate].
    destruct (a_takes_value b).
    + destruct (simple_opt b) eqn:SO; [|discriminate]. destruct v; [discriminate|].
      intros H; inversion H; subst. split; [exact (get_long_in c f a GL)|exact SO].
    + destruct v; discriminate.
  - destruct (to_short tok) as [r|]; [|discriminate]. apply scan_cluster_pend.
Qed.

Lemma react_all_skip c os st st' : fs_skip st = 0 -> react_all c os st = ROk st' -> fs_skip st' = 0.
Proof. intros H E. rewrite (react_all_fs c os st st' E). exact H. Qed.

Lemma resolve_pending_fs c st st' : resolve_pending c st = ROk st' -> fs_skip st' = fs_skip st.
Proof.
  unfold resolve_pending. destruct (mt_pending (mt st)) as [p|]; [|intros H; inversion H; reflexivity].
  destruct (find_arg c (p_id p)) as [a|]; cbn [expect rbind]; [|discriminate].
  destruct (react_core c (p_ident p) SCmdLine a (p_raw p) (p_trailing_idx p) _) as [[s1 pr]|e s|n] eqn:E; cbn [rbind fst]; try discriminate.
  intros H; inversion H; subst. rewrite (react_core_fs _ _ _ _ _ _ _ _ _ E). destruct st; reflexivity.
Qed.

(** * 5. The whole line *)
Definition loop_ready (c : cmd) (pend : option (ident * arg)) (st : ps) : Prop :=
  fs_skip st = 0 /\ match pend with None => True | Some (idn, a) => awaiting c idn a st end.
Definition fold_start (pend : option (ident * arg)) (st : ps) : ps :=
  match pend with None => st | Some _ => clear_pending st end.

Theorem parse_loop_scan c : no_hyphen_args c = true -> ids_ok c ->
  forall toks pend os, scan c pend toks = Some os ->
  forall pos vaf st, loop_ready c pend st ->
  exists r : res ps,
    parse_loop c toks (mkL (pst_of pend) pos vaf false) st = (do s <- r; ROk (LDone s)) /\
    (do s <- r; resolve_pending c s) = fold_flush c os (fold_start pend st).
Proof.
  intros NH IDS. induction toks as [|tok rest IH]; intros pend os HS pos vaf st [SK RD].
  - cbn [scan] in HS. exists (ROk st). split; [reflexivity|]. cbn [rbind]. destruct pend as [[idn a]|]; inversion HS; subst os.
    + destruct RD as [FA [_ HP]]. cbn [fold_start]. unfold tok_occ.
      rewrite <- (fold_flush_pending c idn a [] None [] st HP FA). reflexivity.
    + reflexivity.
  - cbn [scan] in HS. destruct pend as [[idn a]|].
    + (* the value of the pending option *)
      destruct (plain_value tok && negb (check_terminator a tok) && (negb (is_set s_sub_precedence c) || nosub c tok)) eqn:HV;
        [|discriminate].
      destruct (scan c None rest) as [os'|] eqn:SR; [|discriminate]. inversion HS; subst os. clear HS.
      destruct (parse_loop_value_token c tok rest pos vaf st idn a RD HV) as [st2 [EL [P2 [C2 F2]]]].
      cbn [pst_of]. rewrite EL.
      assert (RD2 : loop_ready c None st2) by (split; [rewrite F2; exact SK|exact I]).
      destruct (IH None os' SR pos vaf st2 RD2) as [r [E1 E2]].
      exists r. split; [exact E1|]. rewrite E2. cbn [fold_start]. destruct RD as [FA _].
      rewrite (fold_flush_pending c idn a [tok] None os' st2 P2 FA). rewrite C2. reflexivity.
    + (* a flag-like token *)
      destruct (nosub c tok) eqn:NS; [|discriminate].
      destruct (classify c tok) as [[os1 p]|] eqn:CL; [|discriminate].
      destruct (scan c p rest) as [os2|] eqn:SR; [|discriminate]. inversion HS; subst os. clear HS.
      cbn [pst_of fold_start].
      rewrite (parse_loop_token c tok rest (os1, p) pos vaf st NH SK NS CL). cbn [snd].
      rewrite fold_flush_app. unfold tok_effect. cbn [fst snd].
      destruct (react_all c os1 st) as [s0|e s|n] eqn:RA; cbn [rbind].
      2: { exists (RErr e s). split; reflexivity. }
      2: { exists (RPanic n). split; reflexivity. }
      pose proof (react_all_skip c os1 st s0 SK RA) as SK0.
      destruct p as [[idn a]|].
      * destruct (classify_pend c tok os1 idn a CL) as [HIn SO]. pose proof (IDS a HIn) as FA.
        rewrite (fold_flush_resolve c os2 s0).
        destruct (open_pending c (Some (idn, a)) s0) as [s'|e s|n] eqn:OP; cbn [rbind].
        -- destruct (open_pending_awaiting c idn a s0 s' FA SO OP) as [s1 [RP [AW [CP FS]]]].
           assert (RD' : loop_ready c (Some (idn, a)) s').
           { split; [|exact AW]. rewrite FS, (resolve_pending_fs c s0 s1 RP). exact SK0. }
           destruct (IH (Some (idn, a)) os2 SR pos true s' RD') as [r [E1 E2]].
           exists r. split; [exact E1|]. rewrite E2, RP. cbn [rbind fold_start]. rewrite CP. reflexivity.
        -- exists (RErr e s). split; [reflexivity|]. cbn [rbind]. unfold open_pending in OP.
           destruct (resolve_pending c s0) as [s1|e1 x1|n1] eqn:RP; cbn [rbind] in *; try discriminate.
           ++ exfalso. pose proof (Spelling.resolve_pending_clears c s0 s1 RP) as PN.
              unfold pending_values_push in OP. rewrite PN in OP. cbn [p_id p_ident p_raw p_trailing_idx is_some] in OP.
              rewrite beq_refl, Spelling.ident_eqb_refl in OP. discriminate OP.
           ++ inversion OP; subst. reflexivity.
        -- exists (RPanic n). split; [reflexivity|]. cbn [rbind]. unfold open_pending in OP.
           destruct (resolve_pending c s0) as [s1|e1 x1|n1] eqn:RP; cbn [rbind] in *; try discriminate.
           ++ exfalso. pose proof (Spelling.resolve_pending_clears c s0 s1 RP) as PN.
              unfold pending_values_push in OP. rewrite PN in OP. cbn [p_id p_ident p_raw p_trailing_idx is_some] in OP.
              rewrite beq_refl, Spelling.ident_eqb_refl in OP. discriminate OP.
           ++ inversion OP; subst. reflexivity.
      * cbn [open_pending rbind].
        assert (RD' : loop_ready c None s0) by (split; [exact SK0|exact I]).
        destruct (IH None os2 SR pos true s0 RD') as [r [E1 E2]].
        exists r. split; [exact E1|exact E2].
Qed.

(** the statement for the scanner's entry point *)
Theorem parse_loop_occurrences c toks os pos vaf st :
  no_hyphen_args c = true -> ids_ok c -> occurrences c toks = Some os -> fs_skip st = 0 ->
  exists r : res ps,
    parse_loop c toks (mkL PSValuesDone pos vaf false) st = (do s <- r; ROk (LDone s)) /\
    (do s <- r; resolve_pending c s) = fold_flush c os st.
Proof.
  intros NH IDS HS SK. exact (parse_loop_scan c NH IDS toks None os HS pos vaf st (conj SK I)).
Qed.

(** [ids_ok] follows from the configuration gate ([assert_app]: "Argument names must be unique") *)
Lemma ids_ok_of_assert_app c : assert_app c = true -> ids_ok c.
Proof.
  intros HA a Hin. unfold find_arg.
  destruct (List.find (fun b => beq (a_id b) (a_id a)) (c_args c)) as [b|] eqn:E.
  - apply find_some in E. destruct E as [Hb Eb]. apply beq_eq in Eb.
    f_equal. exact (Spelling.ids_unique c b a HA Hb Hin Eb).
  - exfalso. pose proof (find_none _ _ E a Hin) as N. cbn beta in N. rewrite beq_refl in N. discriminate.
Qed.

Module TokExamples2.
  Import TokExamples.
  Example class_hypotheses :
    no_hyphen_args c = true /\ ids_ok c /\ fs_skip ps_new = 0 /\
    option_map (map (fun o => (o_ident o, a_id (o_arg o), o_raw o))) (occurrences c line1) =
    Some [(Some IShort, [118], []); (Some IShort, [110], []); (Some IShort, [118], []);
          (Some ILong, [111], [[97]]); (Some IShort, [111], [[98]]); (Some IShort, [111], [[99]]);
          (Some ILong, [111], [[100]]); (Some IShort, [118], []); (Some IShort, [111], [[101]]);
          (Some ILong, [113], []); (Some IShort, [115], [[120]]); (Some ILong, [115], [[121]]);
          (Some IShort, [115], [[122]])].
  Proof.
    split; [vm_compute; reflexivity|]. split; [apply ids_ok_of_assert_app; vm_compute; reflexivity|].
    split; [reflexivity|]. vm_compute. reflexivity.
  Qed.
End TokExamples2.

(** * 6. What the scanner returns: command-line occurrences of arguments of the command, with no
    value for a flag and one for an option (none when the line ends after the option) *)
Definition scanned (c : cmd) (o : occ) : Prop :=
  In (o_arg o) (c_args c) /\ o_src o = SCmdLine /\ o_ti o = None /\
  (if a_takes_value (o_arg o) then (length (o_raw o) <= 1)%nat else o_raw o = []).

Lemma simple_opt_takes_value a : simple_opt a = true -> a_takes_value a = true.
Proof.
  intros H. destruct (simple_opt_num a H) as [r [NA VM]]. unfold a_takes_value, r_takes_values.
  rewrite NA. cbn [opt_default]. rewrite VM. reflexivity.
Qed.

Lemma scan_cluster_scanned c : forall fuel r os p, scan_cluster c fuel r = Some (os, p) -> Forall (scanned c) os.
Proof.
  induction fuel as [|f IH]; intros r os p H; [discriminate|]. cbn [scan_cluster] in H.
  destruct (sf_next r) as [[[ch|bad] r']|]; try discriminate.
  - destruct (get_short c ch) as [a|] eqn:GS; [|discriminate]. pose proof (get_short_in c ch a GS) as HIn.
    destruct (a_takes_value a) eqn:TV.
    + destruct (simple_opt a); [|discriminate]. destruct r' as [|b t]; inversion H; subst; [constructor|].
      constructor; [|constructor]. unfold scanned. cbn [tok_occ o_arg o_src o_ti o_raw]. rewrite TV. cbn [length]. auto with arith.
    + destruct (scan_cluster c f r') as [[os' p']|] eqn:SC; [|discriminate]. inversion H; subst.
      constructor; [|exact (IH r' os' p SC)]. unfold scanned. cbn [tok_occ o_arg o_src o_ti o_raw]. rewrite TV. auto.
  - inversion H; subst. constructor.
Qed.

Lemma classify_scanned c tok os p : classify c tok = Some (os, p) -> Forall (scanned c) os.
Proof.
  unfold classify. destruct (is_escape tok); [discriminate|].
  destruct (to_long tok) as [[[f ok] v]|].
  - destruct (negb ok); [discriminate|]. destruct (get_long c f) as [a|] eqn:GL; [|discriminate].
    pose proof (get_long_in c f a GL) as HIn. destruct (a_takes_value a) eqn:TV.
    + destruct (simple_opt a); [|discriminate]. destruct v as [x|]; intros H; inversion H; subst; [|constructor].
      constructor; [|constructor]. unfold scanned. cbn [tok_occ o_arg o_src o_ti o_raw]. rewrite TV. cbn [length]. auto with arith.
    + destruct v; [discriminate|]. intros H; inversion H; subst.
      constructor; [|constructor]. unfold scanned. cbn [tok_occ o_arg o_src o_ti o_raw]. rewrite TV. auto.
  - destruct (to_short tok) as [r|]; [|discriminate]. apply scan_cluster_scanned.
Qed.

Lemma scan_scanned c : forall toks pend os,
  match pend with Some (_, a) => In a (c_args c) /\ simple_opt a = true | None => True end ->
  scan c pend toks = Some os -> Forall (scanned c) os.
Proof.
  induction toks as [|tok rest IH]; intros pend os HP H; cbn [scan] in H.
  - destruct pend as [[idn a]|]; inversion H; subst; [|constructor].
    destruct HP as [HIn SO]. constructor; [|constructor].
    unfold scanned. cbn [tok_occ o_arg o_src o_ti o_raw]. rewrite (simple_opt_takes_value a SO). cbn [length]. auto with arith.
  - destruct pend as [[idn a]|].
    + destruct (_ && _); [|discriminate]. destruct (scan c None rest) as [os'|] eqn:SR; [|discriminate].
      inversion H; subst. destruct HP as [HIn SO]. constructor; [|exact (IH None os' I SR)].
      unfold scanned. cbn [tok_occ o_arg o_src o_ti o_raw]. rewrite (simple_opt_takes_value a SO). cbn [length]. auto with arith.
    + destruct (nosub c tok); [|discriminate]. destruct (classify c tok) as [[os1 p]|] eqn:CL; [|discriminate].
      destruct (scan c p rest) as [os2|] eqn:SR; [|discriminate]. inversion H; subst.
      apply Forall_app. split; [exact (classify_scanned c tok os1 p CL)|].
      apply (IH p os2); [|exact SR]. destruct p as [[idn a]|]; [|exact I]. exact (classify_pend c tok os1 idn a CL).
Qed.

Theorem occurrences_scanned c toks os : occurrences c toks = Some os -> Forall (scanned c) os.
Proof. exact (scan_scanned c toks None os I). Qed.
