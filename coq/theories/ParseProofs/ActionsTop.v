(** Property C07, part 4: from the token loop to [parse_top].

    For a command line of the class read by [ActionsTokens.occurrences], a successful
    [parse_top c0 (bin :: toks)] returns, for every argument of the (built) command, exactly the
    entry that the fold of [react] over the scanned occurrences leaves (labelled CommandLine), and
    for arguments without an occurrence only what the environment / default phases filled in.
    The closed forms of Actions.v (Count saturates, Append in order, Set last-wins / conflict, flags,
    overrides in both orders) follow as statements about [parse_top]. *)
From ClapModel Require Import Base.Bytes Base.Machine Base.Utf8 Lex.OsStrExtModel.
From ClapModel Require Import Parse.Cmd Parse.Build Parse.Valid Parse.Matcher Parse.Errors Parse.Validator Parse.Parser.
From ClapModel Require Import ParseProofs.Actions ParseProofs.ActionsLoop ParseProofs.ActionsTokens.
From ClapModel Require ParseProofs.Spelling ParseProofs.Sources ParseProofs.Dispatch ParseProofs.Globals.
From Coq Require Import ZArith.
From RecordUpdate Require Import RecordSet.
Import RecordSetNotations.
Open Scope N_scope.

(** * 1. The fold from a state without a pending occurrence *)
Lemma react_pending_none c idn s a raw ti st x : react c idn s a raw ti st = ROk x -> mt_pending (mt (fst x)) = None.
Proof.
  unfold react. destruct (resolve_pending c st) as [s1|e s0|n] eqn:RP; cbn [rbind]; try discriminate.
  intros H. destruct x as [st' pr]. cbn [fst]. rewrite (Spelling.react_core_pending _ _ _ _ _ _ _ _ _ H).
  exact (Spelling.resolve_pending_clears c st s1 RP).
Qed.

Lemma react_all_pending_none c : forall os st st', mt_pending (mt st) = None -> react_all c os st = ROk st' ->
  mt_pending (mt st') = None.
Proof.
  induction os as [|o os IH]; intros st st' HP H; cbn [react_all] in H; [inversion H; subst; exact HP|].
  destruct (react c _ _ _ _ _ st) as [x|e s|n] eqn:Er; cbn [rbind] in H; try discriminate.
  exact (IH (fst x) st' (react_pending_none _ _ _ _ _ _ _ _ Er) H).
Qed.

Lemma fold_flush_clean c os st : mt_pending (mt st) = None -> fold_flush c os st = react_all c os st.
Proof.
  intros HP. unfold fold_flush. destruct (react_all c os st) as [s|e s|n] eqn:E; cbn [rbind]; try reflexivity.
  apply resolve_pending_none. exact (react_all_pending_none c os st s HP E).
Qed.

Lemma react_all_sub c s : forall os st st', mt_sub (mt st) = s -> react_all c os st = ROk st' -> mt_sub (mt st') = s.
Proof.
  induction os as [|o os IH]; intros st st' HS H; cbn [react_all] in H; [injection H as <-; exact HS|].
  pose proof (Dispatch.react_sub c s (o_ident o) (o_src o) (o_arg o) (o_raw o) (o_ti o) st HS) as R.
  destruct (react c _ _ _ _ _ st) as [x|e s0|n] eqn:Er; cbn [rbind] in H; try discriminate.
  cbn [Dispatch.holds] in R. exact (IH (fst x) st' R H).
Qed.

(** * 2. The command-line phase of [get_matches_with] *)
Theorem cmdline_phase_occurrences fuel' c toks os st0 :
  no_hyphen_args c = true -> ids_ok c -> occurrences c toks = Some os -> fs_skip st0 = 0 ->
  (do s <- Sources.cmdline_phase fuel' c toks st0; resolve_pending c s) = fold_flush c os st0.
Proof.
  intros NH IDS HS SK.
  destruct (parse_loop_occurrences c toks os 1 false st0 NH IDS HS SK) as [r [E1 E2]].
  unfold Sources.cmdline_phase. rewrite E1. rewrite <- E2.
  destruct r as [s|e s|n]; reflexivity.
Qed.

(** * 3. The merge of globals is the identity on a result without subcommand *)
Lemma levels_head m : exists t, Globals.levels m = ms_args m :: t.
Proof. destruct m as [a [[n s]|]]; cbn; eauto. Qed.

Lemma fill_single_level fuel globals args g :
  let m := Matches args None in
  fm_get g (ms_args (fst (Globals.filled (S fuel) globals m))) = fm_get g args /\
  ms_sub (fst (Globals.filled (S fuel) globals m)) = None.
Proof.
  intros m.
  assert (HD : (matches_depth m <= S fuel)%nat) by (cbn; lia).
  destruct (Globals.merge_chain (S fuel) globals m HD) as [HC HL].
  set (m' := fst (Globals.filled (S fuel) globals m)) in *.
  assert (HS : ms_sub m' = None).
  { destruct m' as [a' [[n s]|]]; [cbn in HC; discriminate|reflexivity]. }
  split; [|exact HS].
  assert (HLv : Globals.levels m' = [ms_args m']).
  { destruct m' as [a' [[n s]|]]; [discriminate HS|reflexivity]. }
  destruct (fm_get g (snd (Globals.filled (S fuel) globals m))) as [e|] eqn:EV.
  - pose proof (Globals.merge_agree (S fuel) globals m HD (ms_args m') g e) as HA.
    fold m' in HA. rewrite HLv in HA. specialize (HA (or_introl eq_refl) EV). rewrite HA.
    destruct (mem_id g globals) eqn:MG.
    + pose proof (Globals.merge_pick (S fuel) globals m HD g MG) as HP. rewrite EV in HP.
      cbn [Globals.levels m map Globals.pick] in HP.
      destruct (fm_get g args) as [ma|]; cbn [Globals.pick Globals.choose] in HP; [exact HP|discriminate].
    + pose proof (Globals.merge_keys (S fuel) globals m HD g MG) as HK. rewrite EV in HK. discriminate.
  - pose proof (Globals.merge_frame (S fuel) globals m HD 0%nat g EV) as HF.
    fold m' in HF. rewrite HLv in HF. cbn in HF. inversion HF. reflexivity.
Qed.

(** * 4. [parse_top] *)
(** [try_get_matches_from_mut]: the binary name is taken from argv[0] when not yet set *)
Definition with_bin (c0 : cmd) (bin : bytes) : cmd :=
  match c_bin_name c0 with
  | Some _ => c0
  | None => if utf8_valid bin && negb (is_nil bin) then c0 <| c_bin_name := Some bin |> else c0
  end.

Lemma parse_top_unfold c0 bin toks : is_set s_no_binary_name c0 = false ->
  parse_top c0 (bin :: toks) = do_parse (with_bin c0 bin) toks.
Proof. intros H. unfold parse_top. rewrite H. reflexivity. Qed.

Lemma do_parse_ok c0 toks m : is_set s_ignore_errors (build_self c0) = false -> do_parse c0 toks = OOk m ->
  valid c0 = true /\
  exists st globals, get_matches_with (S (S (depth (build_self c0)))) (build_self c0) toks ps_new = ROk st /\
    m = fst (Globals.filled (S (matches_depth (into_inner (mt st)))) globals (into_inner (mt st))).
Proof.
  intros IE. unfold do_parse. destruct (valid c0); cbn [negb]; [|discriminate]. rewrite IE.
  destruct (get_matches_with _ _ _ _) as [st|e st|s].
  - intros H. injection H as <-. split; [reflexivity|]. exists st. eexists. split; reflexivity.
  - cbn [andb]. discriminate.
  - destruct s; discriminate.
Qed.

Lemma do_parse_err c0 toks e st : is_set s_ignore_errors (build_self c0) = false -> valid c0 = true ->
  get_matches_with (S (S (depth (build_self c0)))) (build_self c0) toks ps_new = RErr e st ->
  do_parse c0 toks = OErr e.
Proof.
  intros IE HV H. unfold do_parse. rewrite HV. cbn [negb]. rewrite IE, H. reflexivity.
Qed.

(** the class of the top-level theorems *)
Definition top_class (c0 : cmd) (bin : bytes) (toks : list bytes) (os : list occ) : Prop :=
  let c := build_self (with_bin c0 bin) in
  is_set s_no_binary_name c0 = false /\ is_set s_ignore_errors c = false /\
  no_hyphen_args c = true /\ occurrences c toks = Some os.

(** what the theorems below use of a class of lines: the command-line phase followed by the flush of the pending
    buffer is the fold of [react] over [os] followed by the flush, and every element of [os] is a command-line
    occurrence of an argument of the command, value-less when the argument takes no value.  [top_class]
    ([ActionsTokens.occurrences]) and the wide class of ActionsWide.v ([woccurrences]) are instances. *)
Definition wscanned (c : cmd) (o : occ) : Prop :=
  In (o_arg o) (c_args c) /\ o_src o = SCmdLine /\ (a_takes_value (o_arg o) = false -> o_raw o = []).
Definition line_class (c : cmd) (toks : list bytes) (os : list occ) : Prop :=
  (ids_ok c -> forall fuel', (do s <- Sources.cmdline_phase fuel' c toks ps_new; resolve_pending c s) = fold_flush c os ps_new) /\
  Forall (wscanned c) os.
Definition gen_class (c0 : cmd) (bin : bytes) (toks : list bytes) (os : list occ) : Prop :=
  let c := build_self (with_bin c0 bin) in
  is_set s_no_binary_name c0 = false /\ is_set s_ignore_errors c = false /\ line_class c toks os.

Lemma scanned_wscanned c o : scanned c o -> wscanned c o.
Proof.
  intros [H1 [H2 [_ H4]]]. split; [exact H1|]. split; [exact H2|]. intros TV. rewrite TV in H4. exact H4.
Qed.

Lemma top_gen c0 bin toks os : top_class c0 bin toks os -> gen_class c0 bin toks os.
Proof.
  intros [NB [IE [NH HS]]]. split; [exact NB|]. split; [exact IE|]. split.
  - intros IDS fuel'. exact (cmdline_phase_occurrences fuel' _ toks os ps_new NH IDS HS eq_refl).
  - eapply Forall_impl; [|exact (occurrences_scanned _ toks os HS)]. intros o. apply scanned_wscanned.
Qed.

(** the run behind a successful [parse_top] on a line of the class *)
Lemma gen_top_run c0 bin toks os m :
  let c := build_self (with_bin c0 bin) in
  gen_class c0 bin toks os ->
  parse_top c0 (bin :: toks) = OOk m ->
  exists st st_c st1, assert_app c = true /\
    get_matches_with (S (S (depth c))) c toks ps_new = ROk st /\
    Sources.cmdline_phase (S (depth c)) c toks ps_new = ROk st_c /\ resolve_pending c st_c = ROk st1 /\
    react_all c os ps_new = ROk st1 /\ ms_sub m = None /\
    (forall g, fm_get g (ms_args m) = fm_get g (mt_args (mt st))).
Proof.
  intros c [NB [IE [HL HSc]]] HP. rewrite (parse_top_unfold c0 bin toks NB) in HP.
  destruct (do_parse_ok _ _ _ IE HP) as [HV [st [globals [HG HM]]]]. fold c in HG, HM.
  pose proof (Sources.valid_assert_app _ HV) as HA. fold c in HA.
  pose proof (ids_ok_of_assert_app c HA) as IDS.
  destruct (Sources.phase_order _ c toks ps_new st HG) as [st_c [st1 [st2 [EC [E1 [P1 [E2 [P2 [E3 _]]]]]]]]].
  pose proof (HL IDS (S (depth c))) as HF. fold c in HF.
  rewrite EC in HF. cbn [rbind] in HF. rewrite E1 in HF. rewrite fold_flush_clean in HF by reflexivity.
  symmetry in HF.
  destruct (Sources.add_env_frame c st1 st2 P1 E2) as [_ [S2 _]].
  destruct (Sources.add_defaults_frame c st2 st P2 E3) as [_ [S3 _]].
  assert (SUB : mt_sub (mt st) = None).
  { rewrite S3, S2. exact (react_all_sub c None os ps_new st1 eq_refl HF). }
  assert (HMI : into_inner (mt st) = Matches (mt_args (mt st)) None).
  { unfold into_inner. rewrite SUB. reflexivity. }
  rewrite HMI in HM.
  exists st, st_c, st1. split; [exact HA|]. split; [exact HG|]. split; [exact EC|]. split; [exact E1|].
  split; [exact HF|].
  split. { rewrite HM. apply (fill_single_level _ globals (mt_args (mt st)) []). }
  intros g. rewrite HM. apply (fill_single_level _ globals (mt_args (mt st)) g).
Qed.

Theorem gen_top_occurrences c0 bin toks os m :
  let c := build_self (with_bin c0 bin) in
  gen_class c0 bin toks os ->
  parse_top c0 (bin :: toks) = OOk m ->
  exists st1, react_all c os ps_new = ROk st1 /\ ms_sub m = None /\
    forall a, In a (c_args c) ->
      match get (a_id a) (mt st1) with
      | Some e => fm_get (a_id a) (ms_args m) = Some e /\ m_source e = Some SCmdLine
      | None => forall e, fm_get (a_id a) (ms_args m) = Some e ->
                  m_source e = Some SEnv \/ m_source e = Some SDefault
      end.
Proof.
  intros c TC HP.
  destruct (gen_top_run c0 bin toks os m TC HP) as [st [st_c [st1 [HA [HG [EC [E1 [HF [HSub HGet]]]]]]]]].
  fold c in HA, HG, EC, E1, HF.
  destruct (Sources.assert_app_ids_distinct c HA) as [_ HNG].
  destruct (Sources.phase_order _ c toks ps_new st HG) as [st_c' [st1' [st2 [EC' [E1' [P1 [E2 [P2 [E3 _]]]]]]]]].
  rewrite EC in EC'. injection EC' as <-. rewrite E1 in E1'. injection E1' as <-.
  pose proof (Sources.cmdline_phase_all_cl _ c toks ps_new st_c st1 eq_refl EC E1) as HCL.
  destruct (Sources.add_env_frame c st1 st2 P1 E2) as [_ [_ [K2 [N2 _]]]].
  destruct (Sources.add_defaults_frame c st2 st P2 E3) as [_ [_ [_ [K3 N3]]]].
  exists st1. split; [exact HF|]. split; [exact HSub|].
  intros a Hin. pose proof (HNG a Hin) as NG. rewrite HGet. unfold get.
  destruct (fm_get (a_id a) (mt_args (mt st1))) as [e|] eqn:G1.
  - split; [exact (K3 _ _ (K2 _ _ NG G1))|]. exact (Sources.fm_get_forall _ _ _ HCL G1).
  - intros e Ge. destruct (fm_get (a_id a) (mt_args (mt st2))) as [e2|] eqn:G2.
    + left. rewrite (K3 _ _ G2) in Ge. inversion Ge; subst e2.
      destruct (N2 _ _ NG G1 G2) as [SE _]. exact SE.
    + right. exact (N3 _ _ G2 Ge).
Qed.

Lemma top_valid c0 bin toks os m : gen_class c0 bin toks os -> parse_top c0 (bin :: toks) = OOk m ->
  assert_app (build_self (with_bin c0 bin)) = true.
Proof.
  intros [NB [IE _]] HP. rewrite (parse_top_unfold c0 bin toks NB) in HP.
  destruct (do_parse_ok _ _ _ IE HP) as [HV _]. exact (Sources.valid_assert_app _ HV).
Qed.

Lemma scanned_no_clash c i os : assert_app c = true -> (exists a, In a (c_args c) /\ a_id a = i) ->
  Forall (wscanned c) os -> Forall (no_group_clash c i) os.
Proof.
  intros HA [a [Ha Ei]] HS. eapply Forall_impl; [|exact HS]. intros o [HIn _]. split.
  - exact (assert_app_group_ids c (o_arg o) HA HIn _).
  - rewrite <- Ei. exact (assert_app_group_ids c a HA Ha _).
Qed.

(** * 5. The master statement at the level of [parse_top]: per argument, the abstract fold *)
Theorem gen_top_denote c0 bin toks os m a :
  let c := build_self (with_bin c0 bin) in
  gen_class c0 bin toks os -> parse_top c0 (bin :: toks) = OOk m -> In a (c_args c) ->
  match fold_left (step_abs c (a_id a)) os None with
  | Some g => exists e, fm_get (a_id a) (ms_args m) = Some e /\ m_raw e = g /\ m_source e = Some SCmdLine
  | None => forall e, fm_get (a_id a) (ms_args m) = Some e -> m_source e = Some SEnv \/ m_source e = Some SDefault
  end.
Proof.
  intros c TC HP Hin. pose proof (top_valid c0 bin toks os m TC HP) as HA. fold c in HA.
  destruct (gen_top_occurrences c0 bin toks os m TC HP) as [st1 [HF [_ HE]]]. fold c in HF, HE.
  destruct TC as [_ [_ [_ HSc]]]. fold c in HSc.
  pose proof (scanned_no_clash c (a_id a) os HA (ex_intro _ a (conj Hin eq_refl)) HSc) as HNC.
  destruct (react_all_denote c (a_id a) os ps_new st1 wf_m_new eq_refl HNC HF) as [R _].
  change (groups_of (a_id a) (mt ps_new)) with (@None groups) in R. rewrite <- R.
  specialize (HE a Hin). unfold groups_of. destruct (get (a_id a) (mt st1)) as [e|]; cbn [opt_map].
  - destruct HE as [G S]. exists e. auto.
  - exact HE.
Qed.

(** an occurrence of another argument that is in no override relation with [i] *)
Definition override_free (c : cmd) (i : id) : Prop :=
  forall b, In b (c_args c) -> a_id b <> i -> overridden c b i = false.

Lemma scanned_unrelated c i o : override_free c i -> wscanned c o -> beq (a_id (o_arg o)) i = false -> unrelated c i o.
Proof.
  intros OF [HIn _] Hb. split; [exact Hb|]. rewrite (OF (o_arg o) HIn); [apply andb_false_r|].
  apply beq_neq. exact Hb.
Qed.

Lemma scanned_same c a o : assert_app c = true -> In a (c_args c) -> wscanned c o ->
  beq (a_id (o_arg o)) (a_id a) = true -> o_arg o = a.
Proof. intros HA Ha [HIn _] Hb. apply beq_eq in Hb. exact (Spelling.ids_unique c (o_arg o) a HA HIn Ha Hb). Qed.

(** ** Count: min(n, 255) *)
Theorem gen_top_count c0 bin toks os m a :
  let c := build_self (with_bin c0 bin) in
  gen_class c0 bin toks os -> parse_top c0 (bin :: toks) = OOk m -> In a (c_args c) ->
  count_flag a -> override_free c (a_id a) ->
  let n := count_occ (a_id a) os in
  ((0 < n)%nat -> exists e, fm_get (a_id a) (ms_args m) = Some e /\
       m_raw e = [[n_to_dec (N.min (N.of_nat n) 255)]] /\ m_source e = Some SCmdLine) /\
  (n = 0%nat -> forall e, fm_get (a_id a) (ms_args m) = Some e -> m_source e = Some SEnv \/ m_source e = Some SDefault).
Proof.
  intros c TC HP Hin [EA [_ [EDM ENUM]]] OF n.
  pose proof (top_valid c0 bin toks os m TC HP) as HA. fold c in HA.
  pose proof (gen_top_denote c0 bin toks os m a TC HP Hin) as HD. fold c in HD.
  destruct TC as [_ [_ [_ HSc]]]. fold c in HSc.
  assert (TV : a_takes_value a = false) by (unfold a_takes_value; rewrite ENUM; reflexivity).
  assert (HAll : Forall (fun o => (o_arg o = a /\ o_raw o = []) \/ unrelated c (a_id a) o) os).
  { eapply Forall_impl; [|exact HSc]. intros o So. destruct (beq (a_id (o_arg o)) (a_id a)) eqn:Eb.
    - left. pose proof (scanned_same c a o HA Hin So Eb) as E. split; [exact E|].
      destruct So as [_ [_ Hr]]. rewrite E in Hr. exact (Hr TV).
    - right. exact (scanned_unrelated c (a_id a) o OF So Eb). }
  change (@None groups) with (enc 0) in HD. rewrite (abs_count c a EA EDM os 0 HAll) in HD.
  fold n in HD. rewrite N.add_0_l in HD. unfold enc in HD.
  split.
  - intros Hn. destruct (N.of_nat n =? 0) eqn:E0; [apply N.eqb_eq in E0; lia|]. exact HD.
  - intros Hn. rewrite Hn in HD. exact HD.
Qed.

(** ** Append: all occurrences' values, in order, one group each *)
Theorem gen_top_append c0 bin toks os m a :
  let c := build_self (with_bin c0 bin) in
  gen_class c0 bin toks os -> parse_top c0 (bin :: toks) = OOk m -> In a (c_args c) ->
  a_get_action a = AAppend -> (forall b, In b (c_args c) -> overridden c b (a_id a) = false) ->
  (0 < count_occ (a_id a) os)%nat ->
  exists e, fm_get (a_id a) (ms_args m) = Some e /\ m_raw e = occ_groups c (a_id a) os /\ m_source e = Some SCmdLine.
Proof.
  intros c TC HP Hin EA OF Hn.
  pose proof (top_valid c0 bin toks os m TC HP) as HA. fold c in HA.
  pose proof (gen_top_denote c0 bin toks os m a TC HP Hin) as HD. fold c in HD.
  destruct TC as [_ [_ [_ HSc]]]. fold c in HSc.
  assert (HAll : Forall (fun o => (o_arg o = a /\ is_cmdline (o_src o) && overridden c a (a_id a) = false)
                                  \/ unrelated c (a_id a) o) os).
  { eapply Forall_impl; [|exact HSc]. intros o So. destruct (beq (a_id (o_arg o)) (a_id a)) eqn:Eb.
    - left. split; [exact (scanned_same c a o HA Hin So Eb)|]. rewrite (OF a Hin). apply andb_false_r.
    - right. apply (scanned_unrelated c (a_id a) o); [|exact So|exact Eb]. intros b Hb _. exact (OF b Hb). }
  destruct (abs_append c a EA os None HAll) as [A1 A2]. cbn [opt_default app] in A1.
  specialize (A2 (or_intror Hn)).
  destruct (fold_left (step_abs c (a_id a)) os None) as [g|]; [|discriminate A2]. cbn [opt_default] in A1.
  rewrite <- A1. exact HD.
Qed.

(** ** Set / SetTrue / SetFalse: the last occurrence decides *)
Theorem gen_top_set_last c0 bin toks os1 o os2 m a :
  let c := build_self (with_bin c0 bin) in
  gen_class c0 bin toks (os1 ++ o :: os2) -> parse_top c0 (bin :: toks) = OOk m -> In a (c_args c) ->
  set_family a = true -> o_arg o = a -> Forall (unrelated c (a_id a)) os2 ->
  exists e, fm_get (a_id a) (ms_args m) = Some e /\
    m_raw e = step_self c SCmdLine a (o_vals c o) None /\ m_source e = Some SCmdLine.
Proof.
  intros c TC HP Hin SF Eo HU.
  pose proof (gen_top_denote c0 bin toks _ m a TC HP Hin) as HD. fold c in HD.
  destruct TC as [_ [_ [_ HSc]]]. fold c in HSc.
  assert (So : o_src o = SCmdLine).
  { apply Forall_app in HSc. destruct HSc as [_ HSc]. inversion HSc as [|? ? [_ [S _]]]; subst. exact S. }
  rewrite (abs_last_wins c a os1 o os2 None SF Eo HU) in HD. rewrite So in HD. exact HD.
Qed.

(** ** Overrides, in either order of appearance: after a command-line occurrence of an argument in
    an override relation with [a] (declared on either side), no earlier occurrence of [a] remains *)
Theorem gen_top_override c0 bin toks os1 o os2 m a :
  let c := build_self (with_bin c0 bin) in
  gen_class c0 bin toks (os1 ++ o :: os2) -> parse_top c0 (bin :: toks) = OOk m -> In a (c_args c) ->
  beq (a_id (o_arg o)) (a_id a) = false -> overridden c (o_arg o) (a_id a) = true ->
  Forall (fun o' => beq (a_id (o_arg o')) (a_id a) = false) os2 ->
  forall e, fm_get (a_id a) (ms_args m) = Some e -> m_source e = Some SEnv \/ m_source e = Some SDefault.
Proof.
  intros c TC HP Hin Hb Ho HU.
  pose proof (gen_top_denote c0 bin toks _ m a TC HP Hin) as HD. fold c in HD.
  destruct TC as [_ [_ [_ HSc]]]. fold c in HSc.
  assert (So : o_src o = SCmdLine).
  { apply Forall_app in HSc. destruct HSc as [_ HSc]. inversion HSc as [|? ? [_ [S _]]]; subst. exact S. }
  rewrite (abs_override_later_wins c (a_id a) os1 o os2 None Hb So Ho HU) in HD. exact HD.
Qed.

(** ** Set-like repeat without self-override: [parse_top] answers ArgumentConflict.
    [os1] = the occurrences before the repeat (they parse: [react_all ... = ROk st]); the argument of [o]
    already holds a command-line entry after them; [o] itself is well-formed (number of values, delimiter). *)
Theorem gen_top_set_repeat_conflict c0 bin toks os1 o os2 st vals :
  let c := build_self (with_bin c0 bin) in
  gen_class c0 bin toks (os1 ++ o :: os2) -> valid (with_bin c0 bin) = true ->
  react_all c os1 ps_new = ROk st ->
  set_family (o_arg o) = true -> fold_left (step_abs c (a_id (o_arg o))) os1 None <> None ->
  self_override c (o_arg o) = false ->
  verify_num_args c (o_arg o) (o_raw o) st = ROk tt -> occ_values c (o_arg o) (o_raw o) (o_ti o) = Some vals ->
  exists e, parse_top c0 (bin :: toks) = OErr e /\ e_kind e = EArgumentConflict /\ e_arg e = a_id (o_arg o).
Proof.
  intros c [NB [IE [HL HSc]]] HV HR SF HPrev SO HVN HOV. fold c in IE, HL, HSc.
  pose proof (Sources.valid_assert_app _ HV) as HA. fold c in HA.
  pose proof (ids_ok_of_assert_app c HA) as IDS.
  apply Forall_app in HSc. destruct HSc as [HSc1 HSc2].
  inversion HSc2 as [|? ? So _]; subst. destruct So as [HIn [Esrc _]].
  (* the entry is present after os1 *)
  pose proof (scanned_no_clash c (a_id (o_arg o)) os1 HA (ex_intro _ (o_arg o) (conj HIn eq_refl)) HSc1) as HNC.
  destruct (react_all_denote c (a_id (o_arg o)) os1 ps_new st wf_m_new eq_refl HNC HR) as [R [_ PN]].
  change (groups_of (a_id (o_arg o)) (mt ps_new)) with (@None groups) in R.
  assert (HC : mt_contains (mt st) (a_id (o_arg o)) = true).
  { unfold mt_contains, fm_contains. unfold groups_of, get in R.
    destruct (fm_get (a_id (o_arg o)) (mt_args (mt st))); [reflexivity|]. cbn [opt_map] in R. exfalso. exact (HPrev (eq_sym R)). }
  unfold self_override in SO. apply orb_false_iff in SO. destruct SO as [SO1 SO2].
  destruct (react_core_repeat_conflict c (o_ident o) SCmdLine (o_arg o) (o_raw o) (o_ti o) st vals SF HVN HOV HC SO1 SO2)
    as [st' [ER _]].
  assert (HFold : react_all c (os1 ++ o :: os2) ps_new = RErr (mkerr c EArgumentConflict (a_id (o_arg o))) st').
  { rewrite react_all_app, HR. cbn [rbind react_all]. rewrite (react_no_pending _ _ _ _ _ _ _ PN).
    rewrite Esrc, ER. reflexivity. }
  pose proof (HL IDS (S (depth c))) as HF.
  rewrite fold_flush_clean in HF by reflexivity. rewrite HFold in HF.
  destruct (Sources.phase_order_errors (S (depth c)) c toks ps_new IE) as [P1 [P2 _]].
  assert (HG : get_matches_with (S (S (depth c))) c toks ps_new = RErr (mkerr c EArgumentConflict (a_id (o_arg o))) st').
  { destruct (Sources.cmdline_phase (S (depth c)) c toks ps_new) as [st_c|e0 s0|n] eqn:EC; cbn [rbind] in HF.
    - exact (P2 st_c _ _ eq_refl HF).
    - rewrite <- HF. exact (P1 e0 s0 eq_refl).
    - discriminate HF. }
  exists (mkerr c EArgumentConflict (a_id (o_arg o))). split; [|split; reflexivity].
  rewrite (parse_top_unfold c0 bin toks NB). exact (do_parse_err _ toks _ st' IE HV HG).
Qed.

(** ** Defaults only fill absent arguments: an argument without a (remaining) command-line occurrence,
    without environment variable and without conditional defaults, holds exactly its default *)
Theorem gen_top_default c0 bin toks os m a :
  let c := build_self (with_bin c0 bin) in
  gen_class c0 bin toks os -> parse_top c0 (bin :: toks) = OOk m -> In a (c_args c) ->
  fold_left (step_abs c (a_id a)) os None = None ->
  a_env a = None -> a_default_ifs a = [] -> a_default a <> [] -> a_delim a = None ->
  exists e, fm_get (a_id a) (ms_args m) = Some e /\ m_raw e = [a_default a] /\ m_source e = Some SDefault.
Proof.
  intros c TC HP Hin HFold HEnv HIfs HDef HDel.
  destruct (gen_top_run c0 bin toks os m TC HP) as [st [st_c [st1 [HA [HG [EC [E1 [HF [_ HGet]]]]]]]]].
  fold c in HA, HG, EC, E1, HF.
  destruct TC as [_ [_ [_ HSc]]]. fold c in HSc.
  pose proof (scanned_no_clash c (a_id a) os HA (ex_intro _ a (conj Hin eq_refl)) HSc) as HNC.
  destruct (react_all_denote c (a_id a) os ps_new st1 wf_m_new eq_refl HNC HF) as [R _].
  change (groups_of (a_id a) (mt ps_new)) with (@None groups) in R. rewrite HFold in R.
  assert (G1 : fm_get (a_id a) (mt_args (mt st1)) = None).
  { unfold groups_of, get in R. destruct (fm_get (a_id a) (mt_args (mt st1))); [discriminate R|reflexivity]. }
  destruct (Sources.precedence _ c toks ps_new st (Sources.assert_app_ids_distinct c HA) HG)
    as [st_c' [st1' [st2 [EC' [E1' [_ [_ HPer]]]]]]].
  rewrite EC in EC'. injection EC' as <-. rewrite E1 in E1'. injection E1' as <-.
  destruct (in_split _ _ Hin) as [pre [post Hsplit]]. specialize (HPer pre a post Hsplit).
  rewrite G1, HEnv in HPer. destruct HPer as [st_a [ch [_ [DC HCh]]]].
  assert (ECh : ch = Some (a_default a)).
  { inversion DC as [l1 i p d l2 Hl _ _|_].
    - rewrite HIfs in Hl. destruct l1; discriminate Hl.
    - destruct (a_default a); [congruence|reflexivity]. }
  subst ch. destruct HCh as [vs [e [HD [_ [Ge [Se Re]]]]]].
  unfold delimit in HD. rewrite HDel in HD. injection HD as <-.
  exists e. rewrite HGet. auto.
Qed.

Lemma count_occ_zero i : forall os, count_occ i os = 0%nat -> Forall (fun o => beq (a_id (o_arg o)) i = false) os.
Proof.
  induction os as [|o os IH]; intros H; [constructor|]. cbn [count_occ] in H.
  destruct (beq (a_id (o_arg o)) i) eqn:E; [discriminate H|]. constructor; [exact E|]. apply IH. exact H.
Qed.

(** ** SetTrue / SetFalse: the flag's truth value when given (last occurrence), the opposite default when absent *)
Theorem gen_top_flag c0 bin toks os m a b :
  let c := build_self (with_bin c0 bin) in
  gen_class c0 bin toks os -> parse_top c0 (bin :: toks) = OOk m -> In a (c_args c) ->
  a_get_action a = flag_action b -> a_takes_value a = false -> a_delim a = None ->
  a_default_missing a = [flag_value b] -> a_default a = [flag_value (negb b)] ->
  (forall os1 o os2, os = os1 ++ o :: os2 -> o_arg o = a -> Forall (unrelated c (a_id a)) os2 ->
     exists e, fm_get (a_id a) (ms_args m) = Some e /\ m_raw e = [[flag_value b]] /\ m_source e = Some SCmdLine) /\
  (count_occ (a_id a) os = 0%nat -> a_env a = None -> a_default_ifs a = [] ->
     exists e, fm_get (a_id a) (ms_args m) = Some e /\ m_raw e = [[flag_value (negb b)]] /\ m_source e = Some SDefault).
Proof.
  intros c TC HP Hin EA TV HDel HDM HDef. split.
  - intros os1 o os2 Eos Eo HU. subst os.
    assert (SF : set_family a = true) by (unfold set_family; rewrite EA; destruct b; reflexivity).
    destruct (gen_top_set_last c0 bin toks os1 o os2 m a TC HP Hin SF Eo HU) as [e [Ge [Re Se]]]. fold c in Re.
    exists e. split; [exact Ge|]. split; [|exact Se]. rewrite Re.
    destruct TC as [_ [_ [_ HSc]]]. fold c in HSc.
    apply Forall_app in HSc. destruct HSc as [_ HSc]. inversion HSc as [|? ? [_ [_ Hr]] _]; subst.
    unfold o_vals. rewrite (Hr TV).
    rewrite (occ_values_dmissing c (o_arg o) (o_ti o) HDel) by (rewrite HDM; discriminate).
    cbn [opt_default]. rewrite HDM. unfold step_self. rewrite EA. destruct b; reflexivity.
  - intros Hn HEnv HIfs.
    pose proof (fold_absent c (a_id a) os (count_occ_zero (a_id a) os Hn)) as HFold.
    assert (HDne : a_default a <> []) by (rewrite HDef; discriminate).
    destruct (gen_top_default c0 bin toks os m a TC HP Hin HFold HEnv HIfs HDne HDel) as [e [Ge [Re Se]]].
    exists e. rewrite Re, HDef. auto.
Qed.

(** boolean forms of the two override side conditions *)
Lemma override_free_dec c i :
  forallb (fun b => beq (a_id b) i || negb (overridden c b i)) (c_args c) = true -> override_free c i.
Proof.
  intros H b Hb Hne. rewrite forallb_forall in H. specialize (H b Hb).
  apply beq_neq in Hne. rewrite Hne in H. cbn [orb] in H. destruct (overridden c b i); [discriminate H|reflexivity].
Qed.
Lemma no_overrides_dec c i :
  forallb (fun b => negb (overridden c b i)) (c_args c) = true -> forall b, In b (c_args c) -> overridden c b i = false.
Proof.
  intros H b Hb. rewrite forallb_forall in H. specialize (H b Hb). destruct (overridden c b i); [discriminate H|reflexivity].
Qed.

(** * 5b. The same statements for the class [top_class] of ActionsTokens.v *)
Lemma parse_top_run c0 bin toks os m :
  let c := build_self (with_bin c0 bin) in
  top_class c0 bin toks os ->
  parse_top c0 (bin :: toks) = OOk m ->
  exists st st_c st1, assert_app c = true /\
    get_matches_with (S (S (depth c))) c toks ps_new = ROk st /\
    Sources.cmdline_phase (S (depth c)) c toks ps_new = ROk st_c /\ resolve_pending c st_c = ROk st1 /\
    react_all c os ps_new = ROk st1 /\ ms_sub m = None /\
    (forall g, fm_get g (ms_args m) = fm_get g (mt_args (mt st))).
Proof. intros c TC. exact (gen_top_run c0 bin toks os m (top_gen _ _ _ _ TC)). Qed.

Theorem parse_top_occurrences c0 bin toks os m :
  let c := build_self (with_bin c0 bin) in
  top_class c0 bin toks os ->
  parse_top c0 (bin :: toks) = OOk m ->
  exists st1, react_all c os ps_new = ROk st1 /\ ms_sub m = None /\
    forall a, In a (c_args c) ->
      match get (a_id a) (mt st1) with
      | Some e => fm_get (a_id a) (ms_args m) = Some e /\ m_source e = Some SCmdLine
      | None => forall e, fm_get (a_id a) (ms_args m) = Some e ->
                  m_source e = Some SEnv \/ m_source e = Some SDefault
      end.
Proof. intros c TC. exact (gen_top_occurrences c0 bin toks os m (top_gen _ _ _ _ TC)). Qed.

Theorem parse_top_denote c0 bin toks os m a :
  let c := build_self (with_bin c0 bin) in
  top_class c0 bin toks os -> parse_top c0 (bin :: toks) = OOk m -> In a (c_args c) ->
  match fold_left (step_abs c (a_id a)) os None with
  | Some g => exists e, fm_get (a_id a) (ms_args m) = Some e /\ m_raw e = g /\ m_source e = Some SCmdLine
  | None => forall e, fm_get (a_id a) (ms_args m) = Some e -> m_source e = Some SEnv \/ m_source e = Some SDefault
  end.
Proof. intros c TC. exact (gen_top_denote c0 bin toks os m a (top_gen _ _ _ _ TC)). Qed.

Theorem parse_top_count c0 bin toks os m a :
  let c := build_self (with_bin c0 bin) in
  top_class c0 bin toks os -> parse_top c0 (bin :: toks) = OOk m -> In a (c_args c) ->
  count_flag a -> override_free c (a_id a) ->
  let n := count_occ (a_id a) os in
  ((0 < n)%nat -> exists e, fm_get (a_id a) (ms_args m) = Some e /\
       m_raw e = [[n_to_dec (N.min (N.of_nat n) 255)]] /\ m_source e = Some SCmdLine) /\
  (n = 0%nat -> forall e, fm_get (a_id a) (ms_args m) = Some e -> m_source e = Some SEnv \/ m_source e = Some SDefault).
Proof. intros c TC. exact (gen_top_count c0 bin toks os m a (top_gen _ _ _ _ TC)). Qed.

Theorem parse_top_append c0 bin toks os m a :
  let c := build_self (with_bin c0 bin) in
  top_class c0 bin toks os -> parse_top c0 (bin :: toks) = OOk m -> In a (c_args c) ->
  a_get_action a = AAppend -> (forall b, In b (c_args c) -> overridden c b (a_id a) = false) ->
  (0 < count_occ (a_id a) os)%nat ->
  exists e, fm_get (a_id a) (ms_args m) = Some e /\ m_raw e = occ_groups c (a_id a) os /\ m_source e = Some SCmdLine.
Proof. intros c TC. exact (gen_top_append c0 bin toks os m a (top_gen _ _ _ _ TC)). Qed.

Theorem parse_top_set_last c0 bin toks os1 o os2 m a :
  let c := build_self (with_bin c0 bin) in
  top_class c0 bin toks (os1 ++ o :: os2) -> parse_top c0 (bin :: toks) = OOk m -> In a (c_args c) ->
  set_family a = true -> o_arg o = a -> Forall (unrelated c (a_id a)) os2 ->
  exists e, fm_get (a_id a) (ms_args m) = Some e /\
    m_raw e = step_self c SCmdLine a (o_vals c o) None /\ m_source e = Some SCmdLine.
Proof. intros c TC. exact (gen_top_set_last c0 bin toks os1 o os2 m a (top_gen _ _ _ _ TC)). Qed.

Theorem parse_top_override c0 bin toks os1 o os2 m a :
  let c := build_self (with_bin c0 bin) in
  top_class c0 bin toks (os1 ++ o :: os2) -> parse_top c0 (bin :: toks) = OOk m -> In a (c_args c) ->
  beq (a_id (o_arg o)) (a_id a) = false -> overridden c (o_arg o) (a_id a) = true ->
  Forall (fun o' => beq (a_id (o_arg o')) (a_id a) = false) os2 ->
  forall e, fm_get (a_id a) (ms_args m) = Some e -> m_source e = Some SEnv \/ m_source e = Some SDefault.
Proof. intros c TC. exact (gen_top_override c0 bin toks os1 o os2 m a (top_gen _ _ _ _ TC)). Qed.

Theorem parse_top_set_repeat_conflict c0 bin toks os1 o os2 st vals :
  let c := build_self (with_bin c0 bin) in
  top_class c0 bin toks (os1 ++ o :: os2) -> valid (with_bin c0 bin) = true ->
  react_all c os1 ps_new = ROk st ->
  set_family (o_arg o) = true -> fold_left (step_abs c (a_id (o_arg o))) os1 None <> None ->
  self_override c (o_arg o) = false ->
  verify_num_args c (o_arg o) (o_raw o) st = ROk tt -> occ_values c (o_arg o) (o_raw o) None = Some vals ->
  exists e, parse_top c0 (bin :: toks) = OErr e /\ e_kind e = EArgumentConflict /\ e_arg e = a_id (o_arg o).
Proof.
  intros c TC HV HR SF HPrev SO HVN HOV.
  assert (Eti : o_ti o = None).
  { destruct TC as [_ [_ [_ HS]]]. pose proof (occurrences_scanned _ toks _ HS) as HSc.
    apply Forall_app in HSc. destruct HSc as [_ HSc]. inversion HSc as [|? ? [_ [_ [E _]]] _]; subst. exact E. }
  rewrite <- Eti in HOV.
  exact (gen_top_set_repeat_conflict c0 bin toks os1 o os2 st vals (top_gen _ _ _ _ TC) HV HR SF HPrev SO HVN HOV).
Qed.

Theorem parse_top_default c0 bin toks os m a :
  let c := build_self (with_bin c0 bin) in
  top_class c0 bin toks os -> parse_top c0 (bin :: toks) = OOk m -> In a (c_args c) ->
  fold_left (step_abs c (a_id a)) os None = None ->
  a_env a = None -> a_default_ifs a = [] -> a_default a <> [] -> a_delim a = None ->
  exists e, fm_get (a_id a) (ms_args m) = Some e /\ m_raw e = [a_default a] /\ m_source e = Some SDefault.
Proof. intros c TC. exact (gen_top_default c0 bin toks os m a (top_gen _ _ _ _ TC)). Qed.

Theorem parse_top_flag c0 bin toks os m a b :
  let c := build_self (with_bin c0 bin) in
  top_class c0 bin toks os -> parse_top c0 (bin :: toks) = OOk m -> In a (c_args c) ->
  a_get_action a = flag_action b -> a_takes_value a = false -> a_delim a = None ->
  a_default_missing a = [flag_value b] -> a_default a = [flag_value (negb b)] ->
  (forall os1 o os2, os = os1 ++ o :: os2 -> o_arg o = a -> Forall (unrelated c (a_id a)) os2 ->
     exists e, fm_get (a_id a) (ms_args m) = Some e /\ m_raw e = [[flag_value b]] /\ m_source e = Some SCmdLine) /\
  (count_occ (a_id a) os = 0%nat -> a_env a = None -> a_default_ifs a = [] ->
     exists e, fm_get (a_id a) (ms_args m) = Some e /\ m_raw e = [[flag_value (negb b)]] /\ m_source e = Some SDefault).
Proof. intros c TC. exact (gen_top_flag c0 bin toks os m a b (top_gen _ _ _ _ TC)). Qed.

(** * Non-vacuity: every theorem above applied to a concrete command and concrete lines *)
Module TopExamples.
  Import TokExamples.
  (** the command of [TokExamples] plus [-k] (Count, in no override relation) *)
  Definition c1 : cmd := c0 <| c_args := c_args c0 ++ [(mk [107]) <| a_short := Some 107 |> <| a_action := Some ACount |>] |>.
  Definition bin : bytes := [112].
  Definition cb : cmd := build_self (with_bin c1 bin).
  Definition argB (i : id) : arg := match find_arg cb i with Some a => a | None => arg_new [] end.
  Definition occs (toks : list bytes) : list occ := opt_default [] (occurrences cb toks).
  Definition result (toks : list bytes) : matches :=
    match parse_top c1 (bin :: toks) with OOk m => m | _ => Matches [] None end.
  Definition entry (toks : list bytes) (i : id) := option_map (fun e => (m_source e, m_raw e)) (fm_get i (ms_args (result toks))).
  (** -kvk --opt=a -o b -k --quiet -s x --set=y -x *)
  Definition lineA : list bytes :=
    [[45;107;118;107]; [45;45;111;112;116;61;97]; [45;111]; [98]; [45;107]; [45;45;113;117;105;101;116];
     [45;115]; [120]; [45;45;115;101;116;61;121]; [45;120]].
  Definition lineB : list bytes := [[45;120]; [45;118]].                                   (* -x -v *)
  Definition lineC : list bytes := [[45;117]; [97]; [45;118]; [45;45;117;110;105;113]; [98]].  (* -u a -v --uniq b *)

  (** every step below computes with [vm_compute]: the default conversion must never be asked to run the parser *)
  Ltac vmr := vm_compute; reflexivity.
  Ltac in_args := vm_compute; repeat (try (left; reflexivity); right).
  Ltac finish Ge Re Se :=
    unfold entry; match type of Ge with fm_get ?i _ = _ =>
      let E := fresh "E" in assert (E : i = ltac:(let v := eval vm_compute in i in exact v)) by vmr; rewrite E in Ge end;
    rewrite Ge; cbn [option_map]; rewrite Re, Se; vm_compute; reflexivity.

  Example classA : top_class c1 bin lineA (occs lineA).
  Proof. unfold top_class. split; [|split; [|split]]; vmr. Qed.
  Example classB : top_class c1 bin lineB (occs lineB).
  Proof. unfold top_class. split; [|split; [|split]]; vmr. Qed.
  Example classC : top_class c1 bin lineC (occs lineC).
  Proof. unfold top_class. split; [|split; [|split]]; vmr. Qed.
  Example okA : parse_top c1 (bin :: lineA) = OOk (result lineA).
  Proof. vmr. Qed.
  Example okB : parse_top c1 (bin :: lineB) = OOk (result lineB).
  Proof. vmr. Qed.

  (** Count: -k three times *)
  Example count_k : entry lineA [107] = Some (Some SCmdLine, [[[51]]]).
  Proof.
    assert (Hin : In (argB [107]) (c_args cb)) by in_args.
    assert (OF : override_free cb (a_id (argB [107]))) by (apply override_free_dec; vmr).
    assert (CF : count_flag (argB [107])) by (unfold count_flag; split; [|split; [|split]]; vmr).
    destruct (parse_top_count c1 bin lineA (occs lineA) (result lineA) (argB [107]) classA okA Hin CF OF) as [H _].
    destruct (H ltac:(vm_compute; lia)) as [e [Ge [Re Se]]]. finish Ge Re Se.
  Qed.
  (** Append: --opt=a -o b *)
  Example append_opt : entry lineA [111] = Some (Some SCmdLine, [[[97]]; [[98]]]).
  Proof.
    assert (Hin : In (argB [111]) (c_args cb)) by in_args.
    assert (OF : forall b, In b (c_args cb) -> overridden cb b (a_id (argB [111])) = false) by (apply no_overrides_dec; vmr).
    destruct (parse_top_append c1 bin lineA (occs lineA) (result lineA) (argB [111]) classA okA Hin ltac:(vmr) OF
                ltac:(vm_compute; lia)) as [e [Ge [Re Se]]]. finish Ge Re Se.
  Qed.
  (** Set with self-override: -s x --set=y, then the unrelated -x *)
  Definition dflt : occ := tok_occ IShort (arg_new []) [].
  Example split_set : occs lineA = firstn 8 (occs lineA) ++ nth 8 (occs lineA) dflt :: skipn 9 (occs lineA).
  Proof. vmr. Qed.
  Example set_last : entry lineA [115] = Some (Some SCmdLine, [[[121]]]).
  Proof.
    assert (Hin : In (argB [115]) (c_args cb)) by in_args.
    pose proof classA as CA. rewrite split_set in CA.
    assert (HU : Forall (unrelated cb (a_id (argB [115]))) (skipn 9 (occs lineA))).
    { assert (E : skipn 9 (occs lineA) = [nth 9 (occs lineA) dflt]) by vmr. rewrite E.
      constructor; [split; vmr|constructor]. }
    destruct (parse_top_set_last c1 bin lineA _ _ _ (result lineA) (argB [115]) CA okA Hin ltac:(vmr) ltac:(vmr) HU)
      as [e [Ge [Re Se]]]. finish Ge Re Se.
  Qed.
  (** Overrides, the declaring argument given later: -x (overrides v) after -v: v keeps no occurrence and holds its default *)
  Example split_x : occs lineA = firstn 9 (occs lineA) ++ nth 9 (occs lineA) dflt :: [].
  Proof. vmr. Qed.
  Example override_declared_on_later : entry lineA [118] = Some (Some SDefault, [[[48]]]) /\
    forall e, fm_get [118] (ms_args (result lineA)) = Some e -> m_source e = Some SEnv \/ m_source e = Some SDefault.
  Proof.
    split; [vmr|].
    assert (Hin : In (argB [118]) (c_args cb)) by in_args.
    pose proof classA as CA. rewrite split_x in CA.
    pose proof (parse_top_override c1 bin lineA _ _ _ (result lineA) (argB [118]) CA okA Hin ltac:(vmr) ltac:(vmr) (Forall_nil _)) as H.
    assert (E : a_id (argB [118]) = [118]) by vmr. rewrite E in H. exact H.
  Qed.
  (** ... and the declaring argument given first: -x then -v: x keeps no occurrence *)
  Example split_v : occs lineB = [nth 0 (occs lineB) dflt] ++ nth 1 (occs lineB) dflt :: [].
  Proof. vmr. Qed.
  Example override_declared_on_earlier : entry lineB [120] = Some (Some SDefault, [[s_false]]) /\ entry lineB [118] = Some (Some SCmdLine, [[[49]]]) /\
    forall e, fm_get [120] (ms_args (result lineB)) = Some e -> m_source e = Some SEnv \/ m_source e = Some SDefault.
  Proof.
    split; [vmr|]. split; [vmr|].
    assert (Hin : In (argB [120]) (c_args cb)) by in_args.
    pose proof classB as CB. rewrite split_v in CB.
    pose proof (parse_top_override c1 bin lineB _ _ _ (result lineB) (argB [120]) CB okB Hin ltac:(vmr) ltac:(vmr) (Forall_nil _)) as H.
    assert (E : a_id (argB [120]) = [120]) by vmr. rewrite E in H. exact H.
  Qed.
  (** the default of an argument whose occurrences were all overridden *)
  Example default_v : entry lineA [118] = Some (Some SDefault, [[[48]]]).
  Proof.
    assert (Hin : In (argB [118]) (c_args cb)) by in_args.
    destruct (parse_top_default c1 bin lineA (occs lineA) (result lineA) (argB [118]) classA okA Hin
                ltac:(vmr) ltac:(vmr) ltac:(vmr) ltac:(vm_compute; discriminate) ltac:(vmr)) as [e [Ge [Re Se]]].
    finish Ge Re Se.
  Qed.
  (** flags: -x given (true), -n absent (SetFalse: default true) *)
  Example flag_x_given : entry lineA [120] = Some (Some SCmdLine, [[s_true]]).
  Proof.
    assert (Hin : In (argB [120]) (c_args cb)) by in_args.
    destruct (parse_top_flag c1 bin lineA (occs lineA) (result lineA) (argB [120]) true classA okA Hin
                ltac:(vmr) ltac:(vmr) ltac:(vmr) ltac:(vmr) ltac:(vmr)) as [H _].
    destruct (H _ _ _ split_x ltac:(vmr) (Forall_nil _)) as [e [Ge [Re Se]]]. finish Ge Re Se.
  Qed.
  Example flag_n_absent : entry lineA [110] = Some (Some SDefault, [[s_true]]).
  Proof.
    assert (Hin : In (argB [110]) (c_args cb)) by in_args.
    destruct (parse_top_flag c1 bin lineA (occs lineA) (result lineA) (argB [110]) false classA okA Hin
                ltac:(vmr) ltac:(vmr) ltac:(vmr) ltac:(vmr) ltac:(vmr)) as [_ H].
    destruct (H ltac:(vmr) ltac:(vmr) ltac:(vmr)) as [e [Ge [Re Se]]]. finish Ge Re Se.
  Qed.
  (** Set without self-override given twice: ArgumentConflict *)
  Example split_u : occs lineC = firstn 2 (occs lineC) ++ nth 2 (occs lineC) dflt :: [].
  Proof. vmr. Qed.
  Definition stC : ps := match react_all cb (firstn 2 (occs lineC)) ps_new with ROk st => st | _ => ps_new end.
  Example conflict_uniq : exists e, parse_top c1 (bin :: lineC) = OErr e /\ e_kind e = EArgumentConflict /\ e_arg e = [117].
  Proof.
    pose proof classC as CC. rewrite split_u in CC.
    assert (ER : react_all cb (firstn 2 (occs lineC)) ps_new = ROk stC) by vmr.
    destruct (parse_top_set_repeat_conflict c1 bin lineC _ _ _ stC [[98]] CC ltac:(vmr) ER
              ltac:(vmr) ltac:(vm_compute; discriminate) ltac:(vmr) ltac:(vmr) ltac:(vmr)) as [e [H1 [H2 H3]]].
    exists e. split; [exact H1|]. split; [exact H2|]. rewrite H3. vmr.
  Qed.
End TopExamples.

(** * 6. The typed getters' view (as the model reads a stored value: [existing_count] is the model of
    [get_one::<u8>], the first value parsed as a number; [get_flag] reads the first value as a bool) *)
Definition first_value (m : matches) (i : id) : option bytes :=
  match fm_get i (ms_args m) with
  | Some e => match concat (m_raw e) with v :: _ => Some v | [] => None end
  | None => None
  end.
(** [ArgMatches::get_count] = [*get_one::<u8>(id)]: the stored decimal parsed back *)
Definition get_count_view (m : matches) (i : id) : option N :=
  match first_value m i with
  | Some v => match parse_i64 v with Some z => Some (Z.to_N z) | None => None end
  | None => None
  end.
(** [ArgMatches::get_flag] = [*get_one::<bool>(id)] *)
Definition get_flag_view (m : matches) (i : id) : option bool :=
  match first_value m i with
  | Some v => if beq v s_true then Some true else if beq v s_false then Some false else None
  | None => None
  end.

Theorem gen_top_get_count c0 bin toks os m a :
  let c := build_self (with_bin c0 bin) in
  gen_class c0 bin toks os -> parse_top c0 (bin :: toks) = OOk m -> In a (c_args c) ->
  count_flag a -> override_free c (a_id a) ->
  a_default a = [[48]] -> a_env a = None -> a_default_ifs a = [] -> a_delim a = None ->
  get_count_view m (a_id a) = Some (N.min (N.of_nat (count_occ (a_id a) os)) 255).
Proof.
  intros c TC HP Hin CF OF HDef HEnv HIfs HDel.
  destruct (gen_top_count c0 bin toks os m a TC HP Hin CF OF) as [H1 _]. fold c in H1.
  destruct (count_occ (a_id a) os) as [|k] eqn:En.
  - pose proof (fold_absent c (a_id a) os (count_occ_zero (a_id a) os En)) as HFold.
    assert (HDne : a_default a <> []) by (rewrite HDef; discriminate).
    destruct (gen_top_default c0 bin toks os m a TC HP Hin HFold HEnv HIfs HDne HDel) as [e [Ge [Re _]]].
    unfold get_count_view, first_value. rewrite Ge, Re, HDef. reflexivity.
  - destruct (H1 ltac:(lia)) as [e [Ge [Re _]]].
    unfold get_count_view, first_value. rewrite Ge, Re. cbn [concat app].
    rewrite (dec_roundtrip (N.min (N.of_nat (S k)) 255)) by lia. rewrite N2Z.id. reflexivity.
Qed.

Theorem gen_top_get_flag c0 bin toks os m a b :
  let c := build_self (with_bin c0 bin) in
  gen_class c0 bin toks os -> parse_top c0 (bin :: toks) = OOk m -> In a (c_args c) ->
  a_get_action a = flag_action b -> a_takes_value a = false -> a_delim a = None ->
  a_default_missing a = [flag_value b] -> a_default a = [flag_value (negb b)] ->
  (forall os1 o os2, os = os1 ++ o :: os2 -> o_arg o = a -> Forall (unrelated c (a_id a)) os2 ->
     get_flag_view m (a_id a) = Some b) /\
  (count_occ (a_id a) os = 0%nat -> a_env a = None -> a_default_ifs a = [] ->
     get_flag_view m (a_id a) = Some (negb b)).
Proof.
  intros c TC HP Hin EA TV HDel HDM HDef.
  destruct (gen_top_flag c0 bin toks os m a b TC HP Hin EA TV HDel HDM HDef) as [H1 H2]. fold c in H1. split.
  - intros os1 o os2 E1 E2 E3. destruct (H1 os1 o os2 E1 E2 E3) as [e [Ge [Re _]]].
    unfold get_flag_view, first_value. rewrite Ge, Re. destruct b; reflexivity.
  - intros E1 E2 E3. destruct (H2 E1 E2 E3) as [e [Ge [Re _]]].
    unfold get_flag_view, first_value. rewrite Ge, Re. destruct b; reflexivity.
Qed.

Theorem parse_top_get_count c0 bin toks os m a :
  let c := build_self (with_bin c0 bin) in
  top_class c0 bin toks os -> parse_top c0 (bin :: toks) = OOk m -> In a (c_args c) ->
  count_flag a -> override_free c (a_id a) ->
  a_default a = [[48]] -> a_env a = None -> a_default_ifs a = [] -> a_delim a = None ->
  get_count_view m (a_id a) = Some (N.min (N.of_nat (count_occ (a_id a) os)) 255).
Proof. intros c TC. exact (gen_top_get_count c0 bin toks os m a (top_gen _ _ _ _ TC)). Qed.

Theorem parse_top_get_flag c0 bin toks os m a b :
  let c := build_self (with_bin c0 bin) in
  top_class c0 bin toks os -> parse_top c0 (bin :: toks) = OOk m -> In a (c_args c) ->
  a_get_action a = flag_action b -> a_takes_value a = false -> a_delim a = None ->
  a_default_missing a = [flag_value b] -> a_default a = [flag_value (negb b)] ->
  (forall os1 o os2, os = os1 ++ o :: os2 -> o_arg o = a -> Forall (unrelated c (a_id a)) os2 ->
     get_flag_view m (a_id a) = Some b) /\
  (count_occ (a_id a) os = 0%nat -> a_env a = None -> a_default_ifs a = [] ->
     get_flag_view m (a_id a) = Some (negb b)).
Proof. intros c TC. exact (gen_top_get_flag c0 bin toks os m a b (top_gen _ _ _ _ TC)). Qed.

Module TypedExamples.
  Import TokExamples TopExamples.
  Example get_count_k : get_count_view (result lineA) [107] = Some 3.
  Proof.
    assert (Hin : In (argB [107]) (c_args cb)) by in_args.
    assert (OF : override_free cb (a_id (argB [107]))) by (apply override_free_dec; vmr).
    assert (CF : count_flag (argB [107])) by (unfold count_flag; split; [|split; [|split]]; vmr).
    pose proof (parse_top_get_count c1 bin lineA (occs lineA) (result lineA) (argB [107]) classA okA Hin CF OF
                  ltac:(vmr) ltac:(vmr) ltac:(vmr) ltac:(vmr)) as H.
    assert (E : a_id (argB [107]) = [107]) by vmr. rewrite E in H. rewrite H. vmr.
  Qed.
  Example get_flag_x : get_flag_view (result lineA) [120] = Some true /\ get_flag_view (result lineA) [110] = Some true.
  Proof. split; vmr. Qed.
End TypedExamples.
