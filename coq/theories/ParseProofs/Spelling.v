(** Property C08: equivalent spellings of one invocation.

    Part 1  keys: aliases (visible or hidden) are first-class keys of the key map and resolve to the
            same argument as the canonical name ([get_long], [get_short]); the uniqueness hypothesis is
            what the validity gate [assert_app] establishes.
    Part 2  prefix inference ([parse_long_arg]'s lookup, [possible_subcommand],
            [possible_long_flag_subcommand]): a resolved prefix is an exact match or the only candidate;
            two distinct candidates and no exact match resolve to nothing; an exact match wins.
    Part 3  step-level spelling equalities for every parser state: [--l=v] vs [--l v], [-ov] vs
            [-o=v] vs [-o v], a short cluster vs separate short flags. *)
From ClapModel Require Import Base.Bytes Base.Machine Base.Utf8 Lex.OsStrExtModel.
From ClapModel Require Import Parse.Cmd Parse.Build Parse.Valid Parse.Matcher Parse.Errors Parse.Validator Parse.Parser.
From Coq Require Import ZArith Lia List Bool.
From RecordUpdate Require Import RecordSet.
Import RecordSetNotations.
Import ListNotations.
Open Scope N_scope.

(** * Part 1: aliases are keys *)

Definition long_names (a : arg) : list bytes :=
  (match a_long a with Some l => [l] | None => [] end) ++ map fst (a_aliases a).
Definition short_names (a : arg) : list N :=
  (match a_short a with Some s => [s] | None => [] end) ++ map fst (a_short_aliases a).

(** what [assert_app] guarantees about the flags of one command level (see [assert_app_long_unique]) *)
Definition long_unique (c : cmd) : Prop :=
  forall a b l, In a (c_args c) -> In b (c_args c) -> In l (long_names a) -> In l (long_names b) -> a = b.
Definition short_unique (c : cmd) : Prop :=
  forall a b s, In a (c_args c) -> In b (c_args c) -> In s (short_names a) -> In s (short_names b) -> a = b.

Lemma in_keymap c k a : In (k, a) (keymap c) <-> In a (c_args c) /\ In k (arg_keys a).
Proof.
  unfold keymap. rewrite in_flat_map. split.
  - intros [x [Hx H]]. apply in_map_iff in H. destruct H as [k' [E Hk]]. inversion E; subst. auto.
  - intros [Ha Hk]. exists a. split; [exact Ha|]. apply in_map_iff. exists k. auto.
Qed.

Lemma arg_keys_long_in a l : In (KLong l) (arg_keys a) -> In l (long_names a).
Proof.
  unfold arg_keys, long_names. destruct (a_index a).
  - intros [H|[]]. discriminate.
  - rewrite !in_app_iff. intros [H|[H|[H|H]]].
    + destruct (a_short a); [destruct H as [H|[]]; discriminate|destruct H].
    + left. destruct (a_long a); [|destruct H]. destruct H as [H|[]]. inversion H. left. reflexivity.
    + apply in_map_iff in H. destruct H as [x [E _]]. discriminate.
    + right. apply in_map_iff in H. destruct H as [x [E Hx]]. inversion E. apply in_map. exact Hx.
Qed.

Lemma arg_keys_long_of a l : a_index a = None -> In l (long_names a) -> In (KLong l) (arg_keys a).
Proof.
  unfold arg_keys, long_names. intros ->. rewrite !in_app_iff. intros [H|H].
  - right. left. destruct (a_long a); [|destruct H]. destruct H as [<-|[]]. left. reflexivity.
  - right. right. right. apply in_map_iff in H. destruct H as [x [<- Hx]].
    apply in_map_iff. exists x. auto.
Qed.

Lemma arg_keys_short_in a s : In (KShort s) (arg_keys a) -> In s (short_names a).
Proof.
  unfold arg_keys, short_names. destruct (a_index a).
  - intros [H|[]]. discriminate.
  - rewrite !in_app_iff. intros [H|[H|[H|H]]].
    + left. destruct (a_short a); [|destruct H]. destruct H as [H|[]]. inversion H. left. reflexivity.
    + destruct (a_long a); [destruct H as [H|[]]; discriminate|destruct H].
    + right. apply in_map_iff in H. destruct H as [x [E Hx]]. inversion E. apply in_map. exact Hx.
    + apply in_map_iff in H. destruct H as [x [E _]]. discriminate.
Qed.

Lemma arg_keys_short_of a s : a_index a = None -> In s (short_names a) -> In (KShort s) (arg_keys a).
Proof.
  unfold arg_keys, short_names. intros ->. rewrite !in_app_iff. intros [H|H].
  - left. destruct (a_short a); [|destruct H]. destruct H as [<-|[]]. left. reflexivity.
  - right. right. left. apply in_map_iff in H. destruct H as [x [<- Hx]].
    apply in_map_iff. exists x. auto.
Qed.

(** every long name of an argument -- the canonical long and every alias, visible or hidden --
    is a key that [get_long] resolves to that argument *)
Theorem get_long_names c a l :
  long_unique c -> In a (c_args c) -> a_index a = None -> In l (long_names a) -> get_long c l = Some a.
Proof.
  intros U Ha Hi Hl. unfold get_long.
  destruct (find _ (keymap c)) as [[k b]|] eqn:E.
  - apply find_some in E. destruct E as [Hin Hf]. cbn [fst] in Hf.
    destruct k as [s|l'|n]; try discriminate. apply beq_eq in Hf. subst l'.
    apply in_keymap in Hin. destruct Hin as [Hb Hk]. apply arg_keys_long_in in Hk.
    cbn [opt_map snd]. f_equal. symmetry. apply (U a b l); assumption.
  - exfalso. pose proof (find_none _ _ E (KLong l, a)) as N.
    cbn [fst] in N. rewrite beq_refl in N. assert (true = false) by (apply N; apply in_keymap; split;
      [exact Ha|apply arg_keys_long_of; assumption]). discriminate.
Qed.

Theorem get_short_names c a s :
  short_unique c -> In a (c_args c) -> a_index a = None -> In s (short_names a) -> get_short c s = Some a.
Proof.
  intros U Ha Hi Hs. unfold get_short.
  destruct (find _ (keymap c)) as [[k b]|] eqn:E.
  - apply find_some in E. destruct E as [Hin Hf]. cbn [fst] in Hf.
    destruct k as [s'|l'|n]; try discriminate. apply N.eqb_eq in Hf. subst s'.
    apply in_keymap in Hin. destruct Hin as [Hb Hk]. apply arg_keys_short_in in Hk.
    cbn [opt_map snd]. f_equal. symmetry. apply (U a b s); assumption.
  - exfalso. pose proof (find_none _ _ E (KShort s, a)) as N.
    cbn [fst] in N. rewrite N.eqb_refl in N. assert (true = false) by (apply N; apply in_keymap; split;
      [exact Ha|apply arg_keys_short_of; assumption]). discriminate.
Qed.

(** the property's wording: an alias and the canonical name select the same argument *)
Theorem alias_is_key c a l0 l vis :
  long_unique c -> In a (c_args c) -> a_index a = None ->
  a_long a = Some l0 -> In (l, vis) (a_aliases a) ->
  get_long c l = Some a /\ get_long c l = get_long c l0.
Proof.
  intros U Ha Hi Hl Hal.
  assert (H1 : get_long c l = Some a).
  { apply get_long_names; try assumption. unfold long_names. apply in_or_app. right.
    apply in_map_iff. exists (l, vis). auto. }
  assert (H0 : get_long c l0 = Some a).
  { apply get_long_names; try assumption. unfold long_names. rewrite Hl. left. reflexivity. }
  split; [exact H1|]. rewrite H1, H0. reflexivity.
Qed.

Theorem short_alias_is_key c a s0 s vis :
  short_unique c -> In a (c_args c) -> a_index a = None ->
  a_short a = Some s0 -> In (s, vis) (a_short_aliases a) ->
  get_short c s = Some a /\ get_short c s = get_short c s0.
Proof.
  intros U Ha Hi Hs Hal.
  assert (H1 : get_short c s = Some a).
  { apply get_short_names; try assumption. unfold short_names. apply in_or_app. right.
    apply in_map_iff. exists (s, vis). auto. }
  assert (H0 : get_short c s0 = Some a).
  { apply get_short_names; try assumption. unfold short_names. rewrite Hs. left. reflexivity. }
  split; [exact H1|]. rewrite H1, H0. reflexivity.
Qed.

(** ** The validity gate gives the uniqueness hypotheses *)

Lemma count_if_lt2 {A} (f : A -> bool) l a b :
  (count_if f l < 2)%nat -> In a l -> In b l -> f a = true -> f b = true -> a = b.
Proof.
  unfold count_if. induction l as [|x t IH]; intros Hc Ha Hb Fa Fb; [destruct Ha|].
  cbn [filter] in Hc. destruct (f x) eqn:Fx.
  - cbn [length] in Hc.
    assert (Hnil : forall y, In y t -> f y = true -> False).
    { intros y Hy Fy. assert (In y (filter f t)) by (apply filter_In; auto).
      destruct (filter f t); [destruct H|cbn [length] in Hc; lia]. }
    destruct Ha as [<-|Ha]; destruct Hb as [<-|Hb]; try reflexivity.
    + exfalso. apply (Hnil b Hb Fb).
    + exfalso. apply (Hnil a Ha Fa).
    + exfalso. apply (Hnil a Ha Fa).
  - destruct Ha as [<-|Ha]; [congruence|]. destruct Hb as [<-|Hb]; [congruence|]. apply IH; assumption.
Qed.

Lemma flags_ok_spec {K} (eqk : K -> K -> bool) l f1 k1 o1 f2 k2 o2 :
  flags_ok eqk l = true -> In (f1, k1, o1) l -> In (f2, k2, o2) l -> eqk f1 f2 = true -> o1 = o2.
Proof.
  unfold flags_ok. intros H H1 H2 E. rewrite forallb_forall in H. specialize (H _ H1).
  rewrite forallb_forall in H. specialize (H _ H2). cbn in H. rewrite E in H.
  apply andb_true_iff in H. destruct H as [_ H]. apply beq_eq in H. exact H.
Qed.

Lemma assert_app_parts c : assert_app c = true ->
  forallb (fun a => Nat.ltb (count_if (fun x => beq (a_id x) (a_id a)) (c_args c)) 2) (c_args c) = true
  /\ flags_ok beq
       (flat_map (fun sc => (match c_long_flag sc with Some l => [(l, true, c_name sc)] | None => [] end)
                            ++ map (fun p => (fst p, true, c_name sc)) (c_long_flag_aliases sc)) (c_subs c)
        ++ flat_map (fun a => (match a_long a with Some l => [(l, false, a_id a)] | None => [] end)
                              ++ map (fun p => (fst p, false, a_id a)) (a_aliases a)) (c_args c)) = true
  /\ flags_ok N.eqb
       (flat_map (fun sc => (match c_short_flag sc with Some s => [(s, true, c_name sc)] | None => [] end)
                            ++ map (fun p => (fst p, true, c_name sc)) (c_short_flag_aliases sc)) (c_subs c)
        ++ flat_map (fun a => (match a_short a with Some s => [(s, false, a_id a)] | None => [] end)
                              ++ map (fun p => (fst p, false, a_id a)) (a_short_aliases a)) (c_args c)) = true.
Proof.
  unfold assert_app. intros H.
  repeat (apply andb_true_iff in H; let H' := fresh "P" in destruct H as [H H']).
  split; [|split; assumption].
  apply forallb_forall. intros a Ha.
  match goal with HA : forallb _ (c_args c) = true |- _ =>
    rewrite forallb_forall in HA; specialize (HA a Ha);
    repeat (apply andb_true_iff in HA; let H' := fresh "Q" in destruct HA as [HA H'])
  end.
  assumption.
Qed.

Lemma ids_unique c a b : assert_app c = true -> In a (c_args c) -> In b (c_args c) -> a_id a = a_id b -> a = b.
Proof.
  intros V Ha Hb E. destruct (assert_app_parts c V) as [I _].
  rewrite forallb_forall in I. specialize (I a Ha). apply Nat.ltb_lt in I.
  apply (count_if_lt2 _ _ a b I Ha Hb); [apply beq_refl|]. rewrite E. apply beq_refl.
Qed.

Theorem assert_app_long_unique c : assert_app c = true -> long_unique c.
Proof.
  intros V a b l Ha Hb La Lb. destruct (assert_app_parts c V) as [_ [F _]].
  apply (ids_unique c a b V Ha Hb).
  assert (T : forall x, In x (c_args c) -> In l (long_names x) ->
     In (l, false, a_id x)
       (flat_map (fun sc => (match c_long_flag sc with Some l => [(l, true, c_name sc)] | None => [] end)
                            ++ map (fun p => (fst p, true, c_name sc)) (c_long_flag_aliases sc)) (c_subs c)
        ++ flat_map (fun a => (match a_long a with Some l => [(l, false, a_id a)] | None => [] end)
                              ++ map (fun p => (fst p, false, a_id a)) (a_aliases a)) (c_args c))).
  { intros x Hx Lx. apply in_or_app. right. apply in_flat_map. exists x. split; [exact Hx|].
    unfold long_names in Lx. apply in_app_or in Lx. apply in_or_app. destruct Lx as [Lx|Lx].
    - left. destruct (a_long x); [|destruct Lx]. destruct Lx as [<-|[]]. left. reflexivity.
    - right. apply in_map_iff in Lx. destruct Lx as [p [<- Hp]]. apply in_map_iff. exists p. auto. }
  apply (flags_ok_spec beq _ l false (a_id a) l false (a_id b) F (T a Ha La) (T b Hb Lb)). apply beq_refl.
Qed.

Theorem assert_app_short_unique c : assert_app c = true -> short_unique c.
Proof.
  intros V a b s Ha Hb La Lb. destruct (assert_app_parts c V) as [_ [_ F]].
  apply (ids_unique c a b V Ha Hb).
  assert (T : forall x, In x (c_args c) -> In s (short_names x) ->
     In (s, false, a_id x)
       (flat_map (fun sc => (match c_short_flag sc with Some s => [(s, true, c_name sc)] | None => [] end)
                            ++ map (fun p => (fst p, true, c_name sc)) (c_short_flag_aliases sc)) (c_subs c)
        ++ flat_map (fun a => (match a_short a with Some s => [(s, false, a_id a)] | None => [] end)
                              ++ map (fun p => (fst p, false, a_id a)) (a_short_aliases a)) (c_args c))).
  { intros x Hx Lx. apply in_or_app. right. apply in_flat_map. exists x. split; [exact Hx|].
    unfold short_names in Lx. apply in_app_or in Lx. apply in_or_app. destruct Lx as [Lx|Lx].
    - left. destruct (a_short x); [|destruct Lx]. destruct Lx as [<-|[]]. left. reflexivity.
    - right. apply in_map_iff in Lx. destruct Lx as [p [<- Hp]]. apply in_map_iff. exists p. auto. }
  apply (flags_ok_spec N.eqb _ s false (a_id a) s false (a_id b) F (T a Ha La) (T b Hb Lb)). apply N.eqb_refl.
Qed.

(** * Part 2: prefix inference *)

(** ** generic facts about [filter_map], [first_unique], [find]/[existsb] *)
Lemma filter_map_nil {A B} (f : A -> option B) l : Cmd.filter_map f l = [] -> forall x, In x l -> f x = None.
Proof.
  induction l as [|a t IH]; intros H x Hx; [destruct Hx|].
  cbn [Cmd.filter_map] in H. destruct (f a) eqn:E; [discriminate|].
  destruct Hx as [<-|Hx]; [exact E|apply IH; assumption].
Qed.

(** a one-element result comes from exactly one list element *)
Lemma filter_map_singleton {A B} (f : A -> option B) l y : Cmd.filter_map f l = [y] ->
  exists x, In x l /\ f x = Some y /\ forall x', In x' l -> f x' <> None -> x' = x.
Proof.
  induction l as [|a t IH]; intros H; [discriminate|].
  cbn [Cmd.filter_map] in H. destruct (f a) eqn:E.
  - inversion H; subst. exists a. split; [left; reflexivity|]. split; [exact E|].
    intros x' [<-|Hx'] Hn; [reflexivity|]. exfalso. apply Hn. apply (filter_map_nil f t); assumption.
  - destruct (IH H) as [x [Hx [Fx U]]]. exists x. split; [right; exact Hx|]. split; [exact Fx|].
    intros x' [<-|Hx'] Hn; [congruence|]. apply U; assumption.
Qed.

Lemma first_unique_some {A} (l : list A) x : first_unique l = Some x -> l = [x].
Proof. destruct l as [|a [|b t]]; cbn; intros H; inversion H; reflexivity. Qed.

(** two distinct candidates: no unique first *)
Lemma first_unique_two {A B} (f : A -> option B) l a b :
  In a l -> In b l -> a <> b -> f a <> None -> f b <> None -> first_unique (Cmd.filter_map f l) = None.
Proof.
  intros Ha Hb Hab Fa Fb. destruct (first_unique (Cmd.filter_map f l)) as [y|] eqn:E; [|reflexivity].
  apply first_unique_some in E. apply filter_map_singleton in E. destruct E as [x [_ [_ U]]].
  exfalso. apply Hab. rewrite (U a Ha Fa), (U b Hb Fb). reflexivity.
Qed.

Lemma find_none_existsb {A} (p : A -> bool) l : find p l = None <-> existsb p l = false.
Proof.
  induction l as [|a t IH]; cbn; [tauto|]. destruct (p a); cbn; [split; discriminate|exact IH].
Qed.

Lemma existsb_map_fst {A B} (p : A -> bool) (l : list (A * B)) :
  existsb (fun x => p (fst x)) l = existsb p (map fst l).
Proof. induction l as [|a t IH]; cbn; [reflexivity|rewrite IH; reflexivity]. Qed.

Lemma is_prefix_refl s : is_prefix s s = true.
Proof. unfold is_prefix. rewrite <- (app_nil_r s) at 1. apply starts_with_app. Qed.

(** ** long flags: the lookup of [parse_long_arg] *)

(** an argument is a candidate for the prefix [p]: its long or one of its aliases starts with [p] *)
Definition extends (p : bytes) (a : arg) : bool := existsb (is_prefix p) (long_names a).
(** ... and it is not a positional (positionals have no long keys; their aliases are not consulted) *)
Definition candidate (p : bytes) (a : arg) : bool := negb (a_is_positional a) && extends p a.

(** the closure inside [parse_long_arg]'s [filter_map] *)
Definition infer_pick (flag : bytes) (a : arg) : option arg :=
  if a_is_positional a then None else
  match a_long a with
  | Some l => if is_prefix flag l then Some a
              else if existsb (fun p => is_prefix flag (fst p)) (a_aliases a) then Some a else None
  | None => if existsb (fun p => is_prefix flag (fst p)) (a_aliases a) then Some a else None
  end.

(** the [let arg = if let Some(arg) = keymap.get(long_arg) .. else if infer_long_args ..] of [parse_long_arg] *)
Definition lookup_long (c : cmd) (flag : bytes) : option arg :=
  match get_long c flag with
  | Some a => Some a
  | None => if is_set s_infer_long c then first_unique (Cmd.filter_map (infer_pick flag) (c_args c)) else None
  end.

(** what [parse_long_arg] does once the lookup is made *)
Definition parse_long_found (c : cmd) (flag : bytes) (value : option bytes) (pos_counter : N) (vaf : bool) (st : ps)
           (found : option arg) : res (ps * presult * bool) :=
  match found with
  | Some a =>
      if a_takes_value a then
        do x <- parse_opt_value c ILong value a (is_some value) st; ROk (fst x, snd x, true)
      else match value with
      | Some rest => ROk (st, PRUnneeded rest (a_id a), true)
      | None => do x <- react c (Some ILong) SCmdLine a [] None st; ROk (fst x, snd x, true)
      end
  | None =>
      match possible_long_flag_subcommand c flag with
      | Some n => ROk (st, PRFlagSub n, vaf)
      | None =>
          if match get_pos c pos_counter with Some a => a_hyphen a && negb (a_last a) | None => false end
          then ROk (st, PRMaybeHyphen, vaf)
          else ROk (st, PRNoMatchingArg flag, vaf)
      end
  end.

(** [parse_long_arg] is: the guards, then [lookup_long], then [parse_long_found] (checked by conversion,
    so [lookup_long] is the model's lookup, not a re-statement of it) *)
Lemma parse_long_arg_unfold c flag flag_utf8 value pst pos vaf st :
  parse_long_arg c flag flag_utf8 value pst pos vaf st =
  (do sa <- state_arg c pst;
   if match sa with Some a => a_hyphen a | None => false end then ROk (st, PRMaybeHyphen, vaf) else
   if negb flag_utf8 then ROk (st, PRNoMatchingArg flag, vaf) else
   if is_nil flag && negb (is_some value) then RPanic 785 else
   parse_long_found c flag value pos vaf st (lookup_long c flag)).
Proof. reflexivity. Qed.

Lemma infer_pick_extends flag a : infer_pick flag a = if candidate flag a then Some a else None.
Proof.
  unfold infer_pick, candidate, extends, long_names. rewrite existsb_app, <- existsb_map_fst.
  destruct (a_is_positional a); cbn [negb andb]; [reflexivity|].
  destruct (a_long a) as [l|]; cbn [existsb].
  - rewrite orb_false_r. destruct (is_prefix flag l); reflexivity.
  - reflexivity.
Qed.

Lemma infer_pick_some flag a : infer_pick flag a <> None <-> candidate flag a = true.
Proof. rewrite infer_pick_extends. destruct (candidate flag a); split; congruence. Qed.

(** an exact key always wins *)
Theorem long_exact_wins c p a : get_long c p = Some a -> lookup_long c p = Some a.
Proof. unfold lookup_long. intros ->. reflexivity. Qed.

(** a resolved prefix is an exact key, or inference is on and the argument is the only candidate *)
Theorem infer_unique c p a : lookup_long c p = Some a ->
  get_long c p = Some a \/
  (get_long c p = None /\ is_set s_infer_long c = true /\ In a (c_args c) /\ candidate p a = true /\
   forall b, In b (c_args c) -> candidate p b = true -> b = a).
Proof.
  unfold lookup_long. destruct (get_long c p) as [x|]; [intros H; left; exact H|].
  destruct (is_set s_infer_long c); [|discriminate]. intros H. right.
  apply first_unique_some in H. apply filter_map_singleton in H. destruct H as [x [Hx [Fx U]]].
  assert (x = a /\ candidate p x = true) as [-> Ex].
  { rewrite infer_pick_extends in Fx. destruct (candidate p x); inversion Fx. auto. }
  repeat split; try assumption; try reflexivity.
  intros b Hb Eb. apply U; [exact Hb|]. apply infer_pick_some. exact Eb.
Qed.

(** two distinct candidates and no exact key: nothing is selected *)
Theorem infer_ambiguous_rejected c p a b :
  get_long c p = None -> In a (c_args c) -> In b (c_args c) -> a <> b ->
  candidate p a = true -> candidate p b = true -> lookup_long c p = None.
Proof.
  intros G Ha Hb Hab Ea Eb. unfold lookup_long. rewrite G.
  destruct (is_set s_infer_long c); [|reflexivity].
  apply (first_unique_two _ _ a b Ha Hb Hab); apply infer_pick_some; assumption.
Qed.

(** without inference only exact keys resolve *)
Theorem no_inference_exact_only c p : is_set s_infer_long c = false -> lookup_long c p = get_long c p.
Proof. unfold lookup_long. intros ->. destruct (get_long c p); reflexivity. Qed.

(** when the lookup selects nothing, the token is never turned into one of the candidates: the
    parser state is returned untouched and the token is reported as a flag subcommand, a possible
    hyphen value of a positional, or an unknown argument *)
Theorem long_unresolved_untouched c p value pst pos vaf st :
  lookup_long c p = None ->
  match parse_long_arg c p true value pst pos vaf st with
  | ROk (st', pr, vaf') =>
      st' = st /\ vaf' = vaf /\
      (pr = PRMaybeHyphen \/ pr = PRNoMatchingArg p \/ exists n, pr = PRFlagSub n)
  | RErr _ _ => False
  | RPanic _ => True
  end.
Proof.
  intros L. rewrite parse_long_arg_unfold, L.
  assert (T : forall sa : option arg,
    match (if match sa with Some a => a_hyphen a | None => false end then ROk (st, PRMaybeHyphen, vaf) else
           if negb true then ROk (st, PRNoMatchingArg p, vaf) else
           if is_nil p && negb (is_some value) then RPanic 785 else
           parse_long_found c p value pos vaf st None) with
    | ROk (st', pr, vaf') =>
        st' = st /\ vaf' = vaf /\ (pr = PRMaybeHyphen \/ pr = PRNoMatchingArg p \/ exists n, pr = PRFlagSub n)
    | RErr _ _ => False
    | RPanic _ => True
    end).
  { intros sa. destruct (match sa with Some a => a_hyphen a | None => false end); [auto|].
    cbn [negb]. destruct (is_nil p && negb (is_some value)); [exact I|].
    unfold parse_long_found. destruct (possible_long_flag_subcommand c p) as [n|].
    - repeat split; eauto.
    - destruct (match get_pos c pos with Some a => _ | None => false end); auto. }
  unfold state_arg. destruct pst as [|i|i]; cbn [rbind expect].
  - apply (T None).
  - destruct (find_arg c i) as [a|]; cbn [rbind expect]; [apply (T (Some a))|exact I].
  - destruct (find_arg c i) as [a|]; cbn [rbind expect]; [apply (T (Some a))|exact I].
Qed.

(** ** subcommand names *)

Definition sub_pick (tok : bytes) (s : cmd) : option bytes :=
  if is_prefix tok (c_name s) then Some (c_name s) else List.find (is_prefix tok) (all_aliases s).
Definition sub_extends (tok : bytes) (s : cmd) : bool :=
  is_prefix tok (c_name s) || existsb (is_prefix tok) (all_aliases s).

Lemma possible_subcommand_unfold c tok vaf :
  possible_subcommand c tok vaf =
  if negb (utf8_valid tok) then None else
  if is_set s_args_negate_subs c && vaf then None else
  match (if is_set s_infer_sub c then first_unique (Cmd.filter_map (sub_pick tok) (c_subs c)) else None) with
  | Some n => Some n
  | None => opt_map c_name (find_subcommand c tok)
  end.
Proof. reflexivity. Qed.

Lemma sub_pick_some tok s : sub_pick tok s <> None <-> sub_extends tok s = true.
Proof.
  unfold sub_pick, sub_extends. destruct (is_prefix tok (c_name s)); cbn [orb]; [split; congruence|].
  destruct (find (is_prefix tok) (all_aliases s)) eqn:E.
  - split; [intros _|congruence]. destruct (existsb _ _) eqn:X; [reflexivity|].
    apply find_none_existsb in X. congruence.
  - apply find_none_existsb in E. rewrite E. split; congruence.
Qed.

(** the name returned by the inference closure is a name or alias of that subcommand *)
Lemma sub_pick_names tok s n : sub_pick tok s = Some n -> aliases_to s n = true /\ is_prefix tok n = true.
Proof.
  unfold sub_pick, aliases_to. destruct (is_prefix tok (c_name s)) eqn:P.
  - intros H; inversion H; subst. rewrite beq_refl. auto.
  - intros H. apply find_some in H. destruct H as [Hin Hp]. split; [|exact Hp].
    apply orb_true_iff. right. apply existsb_exists. exists n. split; [exact Hin|apply beq_refl].
Qed.

Lemma aliases_to_extends s tok : aliases_to s tok = true -> sub_extends tok s = true.
Proof.
  unfold aliases_to, sub_extends. intros H. apply orb_true_iff in H. apply orb_true_iff. destruct H as [H|H].
  - left. apply beq_eq in H. rewrite H. apply is_prefix_refl.
  - right. apply existsb_exists in H. destruct H as [x [Hx E]]. apply beq_eq in E. subst x.
    apply existsb_exists. exists tok. split; [exact Hx|apply is_prefix_refl].
Qed.

(** a resolved token is an exact name/alias, or inference is on and exactly one subcommand has a
    name or alias extending it (the returned string names that subcommand) *)
Theorem sub_infer_unique c tok vaf n : possible_subcommand c tok vaf = Some n ->
  (exists s, find_subcommand c tok = Some s /\ n = c_name s) \/
  (is_set s_infer_sub c = true /\
   exists s, In s (c_subs c) /\ aliases_to s n = true /\ is_prefix tok n = true /\
             forall s', In s' (c_subs c) -> sub_extends tok s' = true -> s' = s).
Proof.
  rewrite possible_subcommand_unfold.
  destruct (negb (utf8_valid tok)); [discriminate|].
  destruct (is_set s_args_negate_subs c && vaf); [discriminate|].
  destruct (is_set s_infer_sub c).
  - destruct (first_unique _) as [m|] eqn:E.
    + intros H; inversion H; subst m. right. split; [reflexivity|].
      apply first_unique_some in E. apply filter_map_singleton in E. destruct E as [s [Hs [Fs U]]].
      exists s. destruct (sub_pick_names _ _ _ Fs) as [A P]. repeat split; try assumption.
      intros s' Hs' E'. apply U; [exact Hs'|]. apply sub_pick_some. exact E'.
    + intros H. left. destruct (find_subcommand c tok) as [s|]; [|discriminate].
      inversion H. exists s. auto.
  - intros H. left. destruct (find_subcommand c tok) as [s|]; [|discriminate].
    inversion H. exists s. auto.
Qed.

Theorem sub_ambiguous_rejected c tok vaf s1 s2 :
  find_subcommand c tok = None -> In s1 (c_subs c) -> In s2 (c_subs c) -> s1 <> s2 ->
  sub_extends tok s1 = true -> sub_extends tok s2 = true -> possible_subcommand c tok vaf = None.
Proof.
  intros F H1 H2 D E1 E2. rewrite possible_subcommand_unfold.
  destruct (negb (utf8_valid tok)); [reflexivity|].
  destruct (is_set s_args_negate_subs c && vaf); [reflexivity|].
  rewrite F. cbn [opt_map].
  destruct (is_set s_infer_sub c); [|reflexivity].
  rewrite (first_unique_two _ _ s1 s2 H1 H2 D); [reflexivity| |]; apply sub_pick_some; assumption.
Qed.

(** an exact name or alias is always resolved to the subcommand that carries it, even when it is also
    a prefix of other names ("inference supports exact matching even if there are conflicts") *)
Theorem sub_exact_wins c tok vaf s :
  find_subcommand c tok = Some s -> utf8_valid tok = true -> is_set s_args_negate_subs c && vaf = false ->
  exists n, possible_subcommand c tok vaf = Some n /\ aliases_to s n = true.
Proof.
  intros F V Ng. rewrite possible_subcommand_unfold, V, Ng. cbn [negb].
  assert (Hin : In s (c_subs c) /\ aliases_to s tok = true) by (apply find_some in F; exact F).
  destruct Hin as [Hin Hal].
  destruct (is_set s_infer_sub c).
  - destruct (first_unique _) as [m|] eqn:E.
    + exists m. split; [reflexivity|].
      apply first_unique_some in E. apply filter_map_singleton in E. destruct E as [s' [Hs' [Fs' U]]].
      assert (s = s') as -> by (apply U; [exact Hin|apply sub_pick_some, aliases_to_extends; exact Hal]).
      apply (sub_pick_names _ _ _ Fs').
    + rewrite F. exists (c_name s). split; [reflexivity|]. unfold aliases_to. rewrite beq_refl. reflexivity.
  - rewrite F. exists (c_name s). split; [reflexivity|]. unfold aliases_to. rewrite beq_refl. reflexivity.
Qed.

(** ** long flag subcommands *)

Definition lf_pick (l : bytes) (s : cmd) : option bytes :=
  match c_long_flag s with
  | None => None
  | Some lf => if is_prefix l lf then Some (c_name s)
               else if existsb (fun p => is_prefix l (fst p)) (c_long_flag_aliases s)
                    then Some (c_name s) else None
  end.

Lemma possible_long_flag_subcommand_unfold c l :
  possible_long_flag_subcommand c l =
  match (if is_set s_infer_sub c then first_unique (Cmd.filter_map (lf_pick l) (c_subs c)) else None) with
  | Some n => Some n
  | None => find_long_subcmd c l
  end.
Proof. reflexivity. Qed.

Lemma lf_pick_name l s n : lf_pick l s = Some n -> n = c_name s.
Proof.
  unfold lf_pick. destruct (c_long_flag s); [|discriminate].
  destruct (is_prefix l b); [intros H; inversion H; reflexivity|].
  destruct (existsb _ _); [intros H; inversion H; reflexivity|discriminate].
Qed.

Theorem lf_infer_unique c l n : possible_long_flag_subcommand c l = Some n ->
  find_long_subcmd c l = Some n \/
  (is_set s_infer_sub c = true /\
   exists s, In s (c_subs c) /\ n = c_name s /\ lf_pick l s = Some n /\
             forall s', In s' (c_subs c) -> lf_pick l s' <> None -> s' = s).
Proof.
  rewrite possible_long_flag_subcommand_unfold.
  destruct (is_set s_infer_sub c); [|intros H; left; exact H].
  destruct (first_unique _) as [m|] eqn:E; [|intros H; left; exact H].
  intros H; inversion H; subst m. right. split; [reflexivity|].
  apply first_unique_some in E. apply filter_map_singleton in E. destruct E as [s [Hs [Fs U]]].
  exists s. repeat split; try assumption. apply (lf_pick_name _ _ _ Fs).
Qed.

Theorem lf_ambiguous_rejected c l s1 s2 :
  find_long_subcmd c l = None -> In s1 (c_subs c) -> In s2 (c_subs c) -> s1 <> s2 ->
  lf_pick l s1 <> None -> lf_pick l s2 <> None -> possible_long_flag_subcommand c l = None.
Proof.
  intros F H1 H2 D E1 E2. rewrite possible_long_flag_subcommand_unfold, F.
  destruct (is_set s_infer_sub c); [|reflexivity].
  rewrite (first_unique_two _ _ s1 s2 H1 H2 D E1 E2). reflexivity.
Qed.

(** an exact long flag (or long-flag alias) of a subcommand that has a primary long flag wins *)
Theorem lf_exact_wins c l s :
  find (fun s => long_flag_aliases_to s l) (c_subs c) = Some s -> c_long_flag s <> None ->
  possible_long_flag_subcommand c l = Some (c_name s).
Proof.
  intros F Hlf. rewrite possible_long_flag_subcommand_unfold.
  assert (FL : find_long_subcmd c l = Some (c_name s)) by (unfold find_long_subcmd; rewrite F; reflexivity).
  destruct (is_set s_infer_sub c); [|exact FL].
  destruct (first_unique _) as [m|] eqn:E; [|exact FL].
  apply first_unique_some in E. apply filter_map_singleton in E. destruct E as [s' [Hs' [Fs' U]]].
  apply find_some in F. destruct F as [Hin Hal].
  assert (s = s') as <-.
  { apply U; [exact Hin|]. unfold lf_pick, long_flag_aliases_to in *.
    destruct (c_long_flag s) as [lf|]; [|congruence]. apply orb_true_iff in Hal. destruct Hal as [Hal|Hal].
    - apply beq_eq in Hal. subst lf. rewrite is_prefix_refl. discriminate.
    - destruct (is_prefix l lf); [discriminate|].
      replace (existsb (fun p => is_prefix l (fst p)) (c_long_flag_aliases s)) with true; [discriminate|].
      symmetry. apply existsb_exists in Hal. destruct Hal as [x [Hx Ex]]. apply existsb_exists.
      exists x. split; [exact Hx|]. apply beq_eq in Ex. rewrite Ex. apply is_prefix_refl. }
  f_equal. apply (lf_pick_name _ _ _ Fs').
Qed.
